---------------------------- MODULE YannyFileInd ----------------------------
(***************************************************************************)
(* C03, histories of ANY length: the write / append protocol of            *)
(* spec/YannyFile.tla (same line-level model, same actions, two tables)    *)
(* typed for Apalache, which discharges the inductive invariant IndInv:    *)
(*   Init => IndInv                     (length 0)                         *)
(*   IndInv /\ Next => IndInv'          (length 1, from IndInit)           *)
(*   IndInv /\ Next => the four action properties of the statement        *)
(*                                      (length 1, action invariants)      *)
(* IndInit draws EVERY state whose collections hold at most GenSize        *)
(* elements (Gen) and that satisfies IndInv - not only reachable ones - so *)
(* the bound MaxOps of the TLC instance (history length) is removed; what  *)
(* remains bounded is the size of the content in one state.                *)
(* TLC (mc/MC_YannyFile) stays the generator of the histories replayed     *)
(* into pydl; this module only strengthens the design-level claim.         *)
(***************************************************************************)
EXTENDS Integers, Sequences, Apalache

(* a line: kind in {"head", "note", "td", "pair", "row"}; t = table (td, row); k = keyword (pair); n = value / row id *)
\* @typeAlias: line = {kind: Str, t: Str, k: Str, n: Int};
\* @typeAlias: pair = {k: Str, v: Int};
\* @typeAlias: file = {exists: Bool, lines: Seq($line)};
\* @typeAlias: content = {ra: Seq(Int), rb: Seq(Int), pairs: Seq($pair)};
YFI_aliases == TRUE

Files == {"f1", "f2"}
NoFile == "nofile"
GenSize == 4

VARIABLES
  \* @type: Str -> $file;
  fs,
  \* @type: {fname: Str, ra: Seq(Int), rb: Seq(Int), pairs: Seq($pair)};
  obj,
  \* @type: $content;
  model,
  \* @type: {op: Str, out: Str};
  last

\* @type: (Str, Str, Str, Int) => $line;
Line(kind, t, k, n) == [kind |-> kind, t |-> t, k |-> k, n |-> n]

(* ---- the meaning of a file ---- *)
\* @type: (Seq($line), Str) => Seq(Int);
RowsOf(lines, t) ==
  LET \* @type: (Seq(Int), $line) => Seq(Int);
      step(acc, l) == IF l.kind = "row" /\ l.t = t THEN Append(acc, l.n) ELSE acc
  IN ApaFoldSeqLeft(step, <<>>, lines)
\* @type: (Seq($line)) => Seq($pair);
PairsOf(lines) ==
  LET \* @type: (Seq($pair), $line) => Seq($pair);
      step(acc, l) == IF l.kind = "pair" THEN Append(acc, [k |-> l.k, v |-> l.n]) ELSE acc
  IN ApaFoldSeqLeft(step, <<>>, lines)
\* @type: (Seq($line)) => $content;
Content(lines) == [ra |-> RowsOf(lines, "TA"), rb |-> RowsOf(lines, "TB"), pairs |-> PairsOf(lines)]
\* @type: $content;
ObjContent == [ra |-> obj.ra, rb |-> obj.rb, pairs |-> obj.pairs]

(* ---- what the writer emits ---- *)
\* @type: (Seq(Int), Str) => Seq($line);
RowLinesOf(rows, t) ==
  LET \* @type: (Seq($line), Int) => Seq($line);
      step(acc, n) == Append(acc, Line("row", t, "", n))
  IN ApaFoldSeqLeft(step, <<>>, rows)
\* @type: (Seq($pair)) => Seq($line);
PairLines(pairs) ==
  LET \* @type: (Seq($line), $pair) => Seq($line);
      step(acc, p) == Append(acc, Line("pair", "", p.k, p.v))
  IN ApaFoldSeqLeft(step, <<>>, pairs)
\* @type: ($content) => Seq($line);
FullText(c) == <<Line("head", "", "", 0)>> \o PairLines(c.pairs)
               \o <<Line("td", "TA", "", 0), Line("td", "TB", "", 0)>>
               \o RowLinesOf(c.ra, "TA") \o RowLinesOf(c.rb, "TB")
\* @type: (Seq($pair), Seq(Int), Seq(Int)) => Seq($line);
AppendText(pairs, ra, rb) == <<Line("note", "", "", 0)>> \o PairLines(pairs) \o RowLinesOf(ra, "TA") \o RowLinesOf(rb, "TB")

Nothing(pairs, ra, rb) == pairs = <<>> /\ ra = <<>> /\ rb = <<>>
Bound == obj.fname /= NoFile
\* @type: $file;
AbsentFile == [exists |-> FALSE, lines |-> <<>>]

(* ---- the actions of spec/YannyFile.tla ---- *)
WriteNew(f) ==
  /\ Bound /\ ~fs[f].exists
  /\ fs' = [fs EXCEPT ![f] = [exists |-> TRUE, lines |-> FullText(ObjContent)]]
  /\ obj' = [obj EXCEPT !.fname = f]
  /\ last' = [op |-> "write", out |-> "ok"]
  /\ UNCHANGED model
WriteOverExisting(f) ==
  /\ Bound /\ fs[f].exists
  /\ last' = [op |-> "write", out |-> "raise"]
  /\ UNCHANGED <<fs, obj, model>>
WriteNoName ==
  /\ ~Bound
  /\ last' = [op |-> "write", out |-> "raise"]
  /\ UNCHANGED <<fs, obj, model>>
AppendOK(pairs, ra, rb) ==
  /\ Bound /\ ~Nothing(pairs, ra, rb) /\ fs[obj.fname].exists
  /\ fs' = [fs EXCEPT ![obj.fname] = [exists |-> TRUE, lines |-> fs[obj.fname].lines \o AppendText(pairs, ra, rb)]]
  /\ obj' = [obj EXCEPT !.pairs = obj.pairs \o pairs, !.ra = obj.ra \o ra, !.rb = obj.rb \o rb]
  /\ model' = [model EXCEPT !.pairs = model.pairs \o pairs, !.ra = model.ra \o ra, !.rb = model.rb \o rb]
  /\ last' = [op |-> "append", out |-> "ok"]
AppendEmpty(pairs, ra, rb) ==
  /\ Bound /\ Nothing(pairs, ra, rb)
  /\ last' = [op |-> "append", out |-> "warn"]
  /\ UNCHANGED <<fs, obj, model>>
AppendToMissing(pairs, ra, rb) ==
  /\ Bound /\ ~Nothing(pairs, ra, rb) /\ ~fs[obj.fname].exists
  /\ last' = [op |-> "append", out |-> "raise"]
  /\ UNCHANGED <<fs, obj, model>>
AppendUnbound ==
  /\ ~Bound
  /\ last' = [op |-> "append", out |-> "raise"]
  /\ UNCHANGED <<fs, obj, model>>
ExternalDelete(f) ==
  /\ fs[f].exists
  /\ fs' = [fs EXCEPT ![f] = AbsentFile]
  /\ last' = [op |-> "delete", out |-> "ok"]
  /\ UNCHANGED <<obj, model>>
ReRead ==
  /\ Bound /\ fs[obj.fname].exists
  /\ last' = [op |-> "reread", out |-> "ok"]
  /\ UNCHANGED <<fs, obj, model>>

(* appended material: any pairs / rows of at most two elements each *)
\* @type: Seq($pair);
SomePairs == Gen(2)
\* @type: Seq(Int);
SomeRowsA == Gen(2)
\* @type: Seq(Int);
SomeRowsB == Gen(2)

Next ==
  \/ \E f \in Files : WriteNew(f) \/ WriteOverExisting(f) \/ ExternalDelete(f)
  \/ WriteNoName \/ ReRead \/ AppendUnbound
  \/ \E p \in {SomePairs} : \E ra \in {SomeRowsA} : \E rb \in {SomeRowsB} :
        AppendOK(p, ra, rb) \/ AppendEmpty(p, ra, rb) \/ AppendToMissing(p, ra, rb)

(* negative control: the object is updated but the file is not *)
Dev_AppendObjectOnly(pairs, ra, rb) ==
  /\ Bound /\ ~Nothing(pairs, ra, rb) /\ fs[obj.fname].exists
  /\ obj' = [obj EXCEPT !.pairs = obj.pairs \o pairs, !.ra = obj.ra \o ra, !.rb = obj.rb \o rb]
  /\ model' = [model EXCEPT !.pairs = model.pairs \o pairs, !.ra = model.ra \o ra, !.rb = model.rb \o rb]
  /\ last' = [op |-> "append", out |-> "ok"]
  /\ UNCHANGED fs
NextDev == Next \/ \E p \in {SomePairs} : \E ra \in {SomeRowsA} : \E rb \in {SomeRowsB} : Dev_AppendObjectOnly(p, ra, rb)
(* negative control: write opens with truncation *)
Dev_WriteClobbers(f) ==
  /\ Bound /\ fs[f].exists
  /\ fs' = [fs EXCEPT ![f] = [exists |-> TRUE, lines |-> FullText(ObjContent)]]
  /\ obj' = [obj EXCEPT !.fname = f]
  /\ last' = [op |-> "write", out |-> "ok"]
  /\ UNCHANGED model
NextClobber == Next \/ \E f \in Files : Dev_WriteClobbers(f)

(* ---- initial states (as in mc/MC_YannyFile: an unbound empty object, or an object read from an existing file) ---- *)
\* @type: $content;
Base == [ra |-> <<1, 2>>, rb |-> <<>>, pairs |-> <<[k |-> "K0", v |-> 0]>>]
\* @type: $content;
Empty == [ra |-> <<>>, rb |-> <<>>, pairs |-> <<>>]
Init ==
  /\ \/ /\ fs = [f \in Files |-> AbsentFile]
        /\ obj = [fname |-> NoFile, ra |-> <<>>, rb |-> <<>>, pairs |-> <<>>]
        /\ model = Empty
     \/ \E f \in Files :
        /\ fs = [g \in Files |-> IF g = f THEN [exists |-> TRUE, lines |-> FullText(Base)] ELSE AbsentFile]
        /\ obj = [fname |-> f, ra |-> Base.ra, rb |-> Base.rb, pairs |-> Base.pairs]
        /\ model = Base
  /\ last = [op |-> "init", out |-> "init"]

(* ---- the inductive invariant: exactly the two state invariants of the statement plus typing ---- *)
TypeOK ==
  /\ DOMAIN fs = Files
  /\ obj.fname \in Files \union {NoFile}
  /\ \A f \in Files : ~fs[f].exists => fs[f].lines = <<>>
Coherent == (Bound /\ fs[obj.fname].exists) => Content(fs[obj.fname].lines) = ObjContent
ModelCoherent == ObjContent = model
IndInv == TypeOK /\ Coherent /\ ModelCoherent

IndInit ==
  /\ fs = Gen(GenSize) /\ obj = Gen(GenSize) /\ model = Gen(GenSize) /\ last = Gen(1)
  /\ IndInv

(* ---- the action properties of the statement, as action invariants over one step from any IndInv state ---- *)
\* @type: (Seq($line), Seq($line)) => Bool;
IsPrefixOf(s, t) == Len(s) <= Len(t) /\ \A i \in DOMAIN s : s[i] = t[i]
PrefixPreserved == \A f \in Files : (fs[f].exists /\ fs'[f].exists) => IsPrefixOf(fs[f].lines, fs'[f].lines)
NoClobber == \A f \in Files : (fs[f].exists /\ fs'[f].exists /\ fs[f] /= fs'[f]) => last'.op = "append"
NoCreateOnAppend == \A f \in Files : (~fs[f].exists /\ fs'[f].exists) => (last'.op = "write" /\ last'.out = "ok")
RefusalsChangeNothing == last'.out \in {"raise", "warn"} => (fs' = fs /\ obj' = obj /\ model' = model)
ActionProps == PrefixPreserved /\ NoClobber /\ NoCreateOnAppend /\ RefusalsChangeNothing
=============================================================================
