--------------------------- MODULE IdLayoutArith ---------------------------
(***************************************************************************)
(* C06, unbounded part.  spec/IdLayout.tla represents a 64-bit identifier  *)
(* as the set of its bit positions because TLC integers are 32-bit, and    *)
(* TLC checks the layout laws on per-field sweeps.  Apalache's integers    *)
(* are unbounded, so here the SAME layout tables (field, lowest bit,       *)
(* width, admissible values) are written arithmetically and the laws are   *)
(* discharged for EVERY in-range field tuple at once (a length-0 check:    *)
(* Init ranges over all tuples, the invariant is the law).                 *)
(*                                                                         *)
(*   objID     = sky*2^59 + rerun*2^48 + run*2^32 + camcol*2^29            *)
(*               + firstfield*2^28 + field*2^16 + object                   *)
(*   specObjID = plate*2^50 + fiber*2^38 + mjd*2^24 + run2d*2^10 + line    *)
(*                                                                         *)
(* Laws: the identifier fits in 64 bits (objID: bit 63 stays clear); every *)
(* field is recovered by shifting and masking its own bit range whatever   *)
(* the other fields hold (round trip + no stray bits); two different       *)
(* tuples never share an identifier; a field value one past its range      *)
(* would collide with another in-range tuple (why it must be rejected).    *)
(* The shifts below are checked against the tables of IdLayout.tla by      *)
(* TLC (MC_IdLayout: ArithAgreesWithTables).                               *)
(***************************************************************************)
EXTENDS Integers

P10 == 1024
P16 == 65536
P24 == 16777216
P28 == 268435456
P29 == 536870912
P32 == 4294967296
P38 == 274877906944
P48 == 281474976710656
P50 == 1125899906842624
P59 == 576460752303423488
P63 == 9223372036854775808
P64 == 18446744073709551616

VARIABLES
  \* @type: Int;
  sky,
  \* @type: Int;
  rerun,
  \* @type: Int;
  run,
  \* @type: Int;
  camcol,
  \* @type: Int;
  ff,
  \* @type: Int;
  field,
  \* @type: Int;
  obj,
  \* @type: Int;
  plate,
  \* @type: Int;
  fiber,
  \* @type: Int;
  mjd,
  \* @type: Int;
  run2d,
  \* @type: Int;
  line,
  \* a second, independent tuple of each kind (for injectivity)
  \* @type: Int;
  sky2,
  \* @type: Int;
  rerun2,
  \* @type: Int;
  run2,
  \* @type: Int;
  camcol2,
  \* @type: Int;
  ff2,
  \* @type: Int;
  field2,
  \* @type: Int;
  obj2,
  \* @type: Int;
  plate2,
  \* @type: Int;
  fiber2,
  \* @type: Int;
  mjd2,
  \* @type: Int;
  run2d2,
  \* @type: Int;
  line2

In(x, lo, hi) == x >= lo /\ x <= hi

Init ==
  /\ sky \in Int /\ rerun \in Int /\ run \in Int /\ camcol \in Int /\ ff \in Int /\ field \in Int /\ obj \in Int
  /\ plate \in Int /\ fiber \in Int /\ mjd \in Int /\ run2d \in Int /\ line \in Int
  /\ sky2 \in Int /\ rerun2 \in Int /\ run2 \in Int /\ camcol2 \in Int /\ ff2 \in Int /\ field2 \in Int /\ obj2 \in Int
  /\ plate2 \in Int /\ fiber2 \in Int /\ mjd2 \in Int /\ run2d2 \in Int /\ line2 \in Int
  /\ In(sky, 0, 15) /\ In(rerun, 0, 2047) /\ In(run, 0, 65535) /\ In(camcol, 1, 6) /\ In(ff, 0, 1)
  /\ In(field, 0, 4095) /\ In(obj, 0, 65535)
  /\ In(plate, 0, 16383) /\ In(fiber, 0, 4095) /\ In(mjd, 0, 16383) /\ In(run2d, 0, 16383) /\ In(line, 0, 1023)
  /\ In(sky2, 0, 15) /\ In(rerun2, 0, 2047) /\ In(run2, 0, 65535) /\ In(camcol2, 1, 6) /\ In(ff2, 0, 1)
  /\ In(field2, 0, 4095) /\ In(obj2, 0, 65535)
  /\ In(plate2, 0, 16383) /\ In(fiber2, 0, 4095) /\ In(mjd2, 0, 16383) /\ In(run2d2, 0, 16383) /\ In(line2, 0, 1023)

Next == UNCHANGED <<sky, rerun, run, camcol, ff, field, obj, plate, fiber, mjd, run2d, line,
                    sky2, rerun2, run2, camcol2, ff2, field2, obj2, plate2, fiber2, mjd2, run2d2, line2>>

ObjId(s, rr, r, c, f, fl, o) == s * P59 + rr * P48 + r * P32 + c * P29 + f * P28 + fl * P16 + o
SpecId(p, fb, m, r2, l) == p * P50 + fb * P38 + m * P24 + r2 * P10 + l

Field(id, lowpow, width) == (id \div lowpow) % width

ObjFits == LET id == ObjId(sky, rerun, run, camcol, ff, field, obj) IN id >= 0 /\ id < P63
SpecFits == LET id == SpecId(plate, fiber, mjd, run2d, line) IN id >= 0 /\ id < P64

ObjRoundTrip ==
  LET id == ObjId(sky, rerun, run, camcol, ff, field, obj) IN
  /\ Field(id, P59, 16) = sky
  /\ Field(id, P48, 2048) = rerun
  /\ Field(id, P32, 65536) = run
  /\ Field(id, P29, 8) = camcol
  /\ Field(id, P28, 2) = ff
  /\ Field(id, P16, 4096) = field
  /\ Field(id, 1, 65536) = obj

SpecRoundTrip ==
  LET id == SpecId(plate, fiber, mjd, run2d, line) IN
  /\ Field(id, P50, 16384) = plate
  /\ Field(id, P38, 4096) = fiber
  /\ Field(id, P24, 16384) = mjd
  /\ Field(id, P10, 16384) = run2d
  /\ Field(id, 1, 1024) = line

ObjInjective ==
  ObjId(sky, rerun, run, camcol, ff, field, obj) = ObjId(sky2, rerun2, run2, camcol2, ff2, field2, obj2)
    => (sky = sky2 /\ rerun = rerun2 /\ run = run2 /\ camcol = camcol2 /\ ff = ff2 /\ field = field2 /\ obj = obj2)

SpecInjective ==
  SpecId(plate, fiber, mjd, run2d, line) = SpecId(plate2, fiber2, mjd2, run2d2, line2)
    => (plate = plate2 /\ fiber = fiber2 /\ mjd = mjd2 /\ run2d = run2d2 /\ line = line2)

(* why out-of-range values must be rejected rather than packed: one past the range is another tuple's identifier *)
OverflowCollides ==
  /\ (run < 65535 /\ camcol < 6) =>      \* object = 65536 carries into field; field = 4096 into firstfield ...
       ObjId(sky, rerun, run, camcol, ff, 0, 65536) = ObjId(sky, rerun, run, camcol, ff, 1, 0)
  /\ (line2 = 0 /\ run2d < 16383) =>
       SpecId(plate, fiber, mjd, run2d, 1024) = SpecId(plate, fiber, mjd, run2d + 1, 0)

(* the vN_M_P form of run2d: every 14-bit run2d has exactly one string form with N in 5..6 *)
Run2dString ==
  LET N == (run2d \div 10000) + 5  M == (run2d % 10000) \div 100  P == run2d % 100 IN
  /\ N \in 5..6 /\ M \in 0..99 /\ P \in 0..99
  /\ (N - 5) * 10000 + 100 * M + P = run2d

(* negative control (must be REFUTED): a layout whose camcol field starts one bit lower overlaps firstfield *)
WrongObjId(s, rr, r, c, f, fl, o) == s * P59 + rr * P48 + r * P32 + c * P28 + f * P28 + fl * P16 + o
NegativeControl ==
  LET id == WrongObjId(sky, rerun, run, camcol, ff, field, obj) IN Field(id, P28, 8) = camcol /\ Field(id, P28, 2) = ff

Inv == ObjFits /\ SpecFits /\ ObjRoundTrip /\ SpecRoundTrip /\ ObjInjective /\ SpecInjective /\ OverflowCollides /\ Run2dString
=============================================================================
