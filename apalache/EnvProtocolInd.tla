--------------------------- MODULE EnvProtocolInd ---------------------------
(***************************************************************************)
(* C20, unbounded: the save / mutate / steps-with-faults / restore         *)
(* protocol of spec/EnvProtocol.tla with the collaborator calls abstracted *)
(* to a counter, for ANY number N of calls (a constant constrained only by *)
(* N \in Nat).  Apalache discharges the inductive invariant IndInv:        *)
(*   Init => IndInv            (length 0)                                  *)
(*   IndInv /\ Next => IndInv' (length 1, from IndInit)                    *)
(*   IndInv => EnvRestored     (length 0, from IndInit)                    *)
(* so "on every exit the environment is the one found on entry" holds for  *)
(* every number of collaborators and every point of failure, not only for  *)
(* the recorded call sequences TLC enumerates.                             *)
(***************************************************************************)
EXTENDS Integers

CONSTANT
  \* @type: Int;
  N

VARIABLES
  \* @type: Str -> Str;
  env,
  \* @type: Str -> Str;
  env0,
  \* @type: Str -> Str;
  saved,
  \* @type: Str -> Str;
  st,
  \* @type: Str;
  pc,
  \* @type: Int;
  k,
  \* @type: Bool;
  faulted

Touched == {"T1", "T2"}
Others == {"O1"}
AllVars == Touched \union Others
Vals == {"<absent>", "", "a", "new1", "new2"}
Unsaved == "<unsaved>"
\* @type: Str -> Str;
New == [t \in Touched |-> IF t = "T1" THEN "new1" ELSE "new2"]

ConstInit == N \in Nat

NoneNew == \A t \in Touched : st[t] /= "new"

Init ==
  /\ env \in [AllVars -> Vals] /\ env0 = env
  /\ saved = [t \in Touched |-> Unsaved]
  /\ st = [t \in Touched |-> "orig"]
  /\ pc = "entry" /\ k = 0 /\ faulted = FALSE

Enter == pc = "entry" /\ pc' = "running" /\ UNCHANGED <<env, env0, saved, st, k, faulted>>
Save == /\ pc = "running" /\ \A t \in Touched : saved[t] = Unsaved
        /\ saved' = [t \in Touched |-> env[t]]
        /\ UNCHANGED <<env, env0, st, pc, k, faulted>>
Mutate(t) == /\ pc = "running" /\ st[t] = "orig" /\ saved[t] /= Unsaved
             /\ env' = [env EXCEPT ![t] = New[t]]
             /\ st' = [st EXCEPT ![t] = "new"]
             /\ UNCHANGED <<env0, saved, pc, k, faulted>>
StepOk == pc = "running" /\ k < N /\ k' = k + 1 /\ UNCHANGED <<env, env0, saved, st, pc, faulted>>
StepFails == /\ pc = "running" /\ k < N /\ k' = k + 1 /\ pc' = "handler" /\ faulted' = TRUE
             /\ UNCHANGED <<env, env0, saved, st>>
BodyFails == pc = "running" /\ pc' = "handler" /\ faulted' = TRUE /\ UNCHANGED <<env, env0, saved, st, k>>
CleanupCall == pc = "handler" /\ k < N /\ k' = k + 1 /\ UNCHANGED <<env, env0, saved, st, pc, faulted>>
Restore(t) == /\ pc \in {"running", "handler"} /\ st[t] = "new"
              /\ env' = [env EXCEPT ![t] = saved[t]]
              /\ st' = [st EXCEPT ![t] = "restored"]
              /\ UNCHANGED <<env0, saved, pc, k, faulted>>
Return == pc = "running" /\ k = N /\ NoneNew /\ pc' = "returned" /\ UNCHANGED <<env, env0, saved, st, k, faulted>>
Raise == pc = "handler" /\ NoneNew /\ pc' = "raised" /\ UNCHANGED <<env, env0, saved, st, k, faulted>>

Next == \/ Enter \/ Save \/ StepOk \/ StepFails \/ BodyFails \/ CleanupCall \/ Return \/ Raise
        \/ \E t \in Touched : Mutate(t) \/ Restore(t)

Terminal == pc \in {"returned", "raised"}
EnvRestored == Terminal => env = env0

TypeOK ==
  /\ env \in [AllVars -> Vals] /\ env0 \in [AllVars -> Vals]
  /\ saved \in [Touched -> Vals \union {Unsaved}]
  /\ st \in [Touched -> {"orig", "new", "restored"}]
  /\ pc \in {"entry", "running", "handler", "returned", "raised"}
  /\ k \in Nat /\ k <= N /\ N \in Nat /\ faulted \in BOOLEAN

IndInv ==
  /\ TypeOK
  /\ \A o \in Others : env[o] = env0[o]
  /\ \A t \in Touched :
       /\ saved[t] \in {Unsaved, env0[t]}
       /\ st[t] = "orig" => env[t] = env0[t]
       /\ st[t] = "new" => (env[t] = New[t] /\ saved[t] = env0[t])
       /\ st[t] = "restored" => env[t] = env0[t]
  /\ pc = "entry" => \A t \in Touched : st[t] = "orig"
  /\ Terminal => NoneNew

IndInit == IndInv

(* negative control: raising without restoring must break the invariant *)
RaiseWithoutRestore == pc = "handler" /\ pc' = "raised" /\ UNCHANGED <<env, env0, saved, st, k, faulted>>
NextDev == Next \/ RaiseWithoutRestore
=============================================================================
