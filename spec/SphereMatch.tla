--------------------------- MODULE SphereMatch ---------------------------
(***************************************************************************)
(* C04 - spherematch returns exactly the pairs closer than the match       *)
(* length.                                                                 *)
(*                                                                         *)
(* The specification does not compute angles.  The geometry enters as an   *)
(* INPUT, the "problem"                                                    *)
(*   P = [n1, n2, near, border, rank, k]                                   *)
(* n1, n2   sizes of the two coordinate lists (points are 1..n1, 1..n2)    *)
(* near     pairs <<i, j>> whose separation is strictly below the match    *)
(*          length (decided outside, by an oracle that is independent of   *)
(*          the implementation)                                            *)
(* border   pairs inside the guard band around the match length: they may  *)
(*          be treated as closer or as not closer                          *)
(* rank     distance rank of every pair of near \cup border; equal ranks   *)
(*          = a tie (either order is allowed)                              *)
(* k        maxmatch; 0 = unlimited                                        *)
(* and the specification decides the combinatorial claims of the property: *)
(*  (i)   Unlimited(P, s): what the unlimited match may return             *)
(*  (ii)  the greedy machine Consider / SkipBorder: what maxmatch = k > 0   *)
(*        may return, and GreedyResult, the statement's characterisation   *)
(*        of it (TLC checks that the machine implies the characterisation) *)
(*  (iii) ChunkHash: a design model of the spatial hash (cells, margin,    *)
(*        wrap at the seam, "already in this cell" guard) with the         *)
(*        completeness claim HashComplete.                                 *)
(* A result is a sequence of pairs <<i, j>> (the returned match1, match2   *)
(* arrays, 1-based).                                                       *)
(***************************************************************************)
EXTENDS Integers, Sequences, FiniteSets

Pairs(P) == (1..P.n1) \X (1..P.n2)
Cands(P) == P.near \cup P.border

ProblemOK(P) ==
  /\ P.n1 \in Nat /\ P.n2 \in Nat /\ P.k \in Nat
  /\ P.near \subseteq Pairs(P) /\ P.border \subseteq Pairs(P) /\ P.near \cap P.border = {}
  /\ DOMAIN P.rank = Cands(P)
  /\ \A p \in Cands(P) : P.rank[p] \in Nat

RangeOf(s) == {s[a] : a \in DOMAIN s}
NoDup(s) == Cardinality(RangeOf(s)) = Len(s)
(* only evaluated on sequences over Cands(P); adjacent elements suffice (<= is transitive) *)
Sorted(P, s) == \A a \in 1..(Len(s) - 1) : P.rank[s[a]] <= P.rank[s[a + 1]]

(* ---- (i) the unlimited match ------------------------------------------------------- *)
(* every pair below the match length, exactly once; none above; non-decreasing distance *)
Unlimited(P, s) ==
  /\ RangeOf(s) \subseteq Cands(P)
  /\ P.near \subseteq RangeOf(s)
  /\ NoDup(s)
  /\ Sorted(P, s)

WhyNotUnlimited(P, s) ==
  IF ~(RangeOf(s) \subseteq Cands(P)) THEN "extra pair: separation above the match length"
  ELSE IF ~(P.near \subseteq RangeOf(s)) THEN "missing pair: separation below the match length"
  ELSE IF ~NoDup(s) THEN "pair returned twice"
  ELSE IF ~Sorted(P, s) THEN "not in non-decreasing order of separation"
  ELSE ""

(* ---- (ii) the greedy selection ----------------------------------------------------- *)
Uses1(s, i) == {a \in DOMAIN s : s[a][1] = i}
Uses2(s, j) == {a \in DOMAIN s : s[a][2] = j}
(* the statement: "a pair is left out only if one of its points is already used k times *)
(* by pairs that are no farther apart"                                                   *)
Saturated(P, s, p) ==
  \/ Cardinality({a \in Uses1(s, p[1]) : P.rank[s[a]] <= P.rank[p]}) >= P.k
  \/ Cardinality({a \in Uses2(s, p[2]) : P.rank[s[a]] <= P.rank[p]}) >= P.k

GreedyResult(P, s) ==
  /\ RangeOf(s) \subseteq Cands(P)
  /\ NoDup(s)
  /\ Sorted(P, s)
  /\ \A i \in 1..P.n1 : Cardinality(Uses1(s, i)) <= P.k
  /\ \A j \in 1..P.n2 : Cardinality(Uses2(s, j)) <= P.k
  /\ \A p \in P.near \ RangeOf(s) : Saturated(P, s, p)

(* what a call with maxmatch = P.k may return *)
Admissible(P, s) == IF P.k = 0 THEN Unlimited(P, s) ELSE GreedyResult(P, s)

(* The numeric FORM in which the same values are handed over is not part of a problem:   *)
(* coordinate lists as float64 or (integral values) as any of the integer dtypes, match  *)
(* length / chunk size / maxmatch as Python numbers, numpy integer scalars or 0-d arrays.*)
(* A call is a problem plus forms; what it may return depends on the problem only.       *)
CoordForms == {"float64", "int64", "int32", "int16", "uint16", "uint8"}
ScalarForms == {"float", "pyint", "int64", "int32", "int16", "uint16", "uint8",
                "zerodim-int64", "zerodim-uint8", "zerodim-float"}
CallOK(c) == /\ \A a \in DOMAIN c.coords : c.coords[a] \in CoordForms
             /\ \A a \in DOMAIN c.scalars : c.scalars[a] \in ScalarForms
AdmissibleCall(P, c, s) == CallOK(c) /\ Admissible(P, s)          \* FormIndependent by construction

(* the machine: pairs are considered one at a time in an order compatible with rank;    *)
(* a pair is accepted iff neither of its points has been used k times (k = 0: always).  *)
VARIABLES prob, seen, skipped, got1, got2, out
mvars == <<prob, seen, skipped, got1, got2, out>>

InitWith(P) ==
  /\ prob = P
  /\ seen = {}
  /\ skipped = {}
  /\ got1 = [i \in 1..P.n1 |-> 0]
  /\ got2 = [j \in 1..P.n2 |-> 0]
  /\ out = <<>>
(* the same as an action (used by the model to spread the enumeration of problems) *)
Load(P) ==
  /\ prob' = P
  /\ seen' = {}
  /\ skipped' = {}
  /\ got1' = [i \in 1..P.n1 |-> 0]
  /\ got2' = [j \in 1..P.n2 |-> 0]
  /\ out' = <<>>

IsNext(p) == /\ p \in Cands(prob) \ seen
             /\ \A q \in Cands(prob) \ seen : prob.rank[p] <= prob.rank[q]
Accepts(p) == prob.k = 0 \/ (got1[p[1]] < prob.k /\ got2[p[2]] < prob.k)

Consider(p) ==
  /\ IsNext(p)
  /\ seen' = seen \cup {p}
  /\ IF Accepts(p)
       THEN /\ got1' = [got1 EXCEPT ![p[1]] = @ + 1]
            /\ got2' = [got2 EXCEPT ![p[2]] = @ + 1]
            /\ out' = Append(out, p)
       ELSE UNCHANGED <<got1, got2, out>>
  /\ UNCHANGED <<prob, skipped>>

(* a pair of the guard band judged "not closer" by the implementation; `skipped` only   *)
(* remembers which (history variable, nothing depends on it)                             *)
SkipBorder(p) ==
  /\ IsNext(p)
  /\ p \in prob.border
  /\ seen' = seen \cup {p}
  /\ skipped' = skipped \cup {p}
  /\ UNCHANGED <<prob, got1, got2, out>>

Done == seen = Cands(prob)

(* theorems of the machine (checked by TLC on all small problems) *)
GreedyCharacterisation == (Done /\ prob.k > 0) => GreedyResult(prob, out)
UnlimitedIsKZero == (Done /\ prob.k = 0) => Unlimited(prob, out)
(* a bound that cannot bind gives the unlimited result *)
LargeKIsUnlimited == (Done /\ prob.k >= prob.n1 /\ prob.k >= prob.n2) => Unlimited(prob, out)
CountersAreUses ==
  /\ \A i \in 1..prob.n1 : got1[i] = Cardinality(Uses1(out, i))
  /\ \A j \in 1..prob.n2 : got2[j] = Cardinality(Uses2(out, j))
OutWithinSeen == /\ RangeOf(out) \subseteq seen \ skipped /\ NoDup(out) /\ Sorted(prob, out)
                 /\ skipped \subseteq prob.border \cap seen

(* ---- (iii) design model of the spatial hash ---------------------------------------- *)
(* Geometry G = [nc, nb, s, h, m, wrap, guard, walk]: a ring of nc cells (the right-     *)
(* ascension direction, closed at the seam), every cell s lattice units wide, times nb   *)
(* bands (declination slices) h units high; margin m < s.  The nominal band height is s, *)
(* but where the padded declination range is clipped at a pole the same number of slices *)
(* is squeezed into a shorter range: 1 <= h <= s, and h <= m is possible, so the margin   *)
(* can span more than one band.  A point is <<x, y>>, 0 <= x < nc*s, 0 <= y < nb*h.       *)
(* Dist is the box metric (an over-approximation of "closer than the margin").           *)
(* wrap = FALSE, guard = FALSE and walk = FALSE (only the adjacent band is reached) are   *)
(* the broken variants kept as negative controls.                                        *)
RingLen(G) == G.nc * G.s
BandLen(G) == G.nb * G.h
PointsOf(G) == (0 .. RingLen(G) - 1) \X (0 .. BandLen(G) - 1)
CellsOf(G) == (0 .. G.nc - 1) \X (0 .. G.nb - 1)
GeometryOK(G) == G.nc >= 1 /\ G.nb >= 1 /\ G.s >= 1 /\ G.m >= 1 /\ G.m < G.s /\ G.h >= 1 /\ G.h <= G.s

Abs(v) == IF v < 0 THEN -v ELSE v
Larger(a, b) == IF a > b THEN a ELSE b
RingDist(G, a, b) == LET d == (a - b) % RingLen(G) IN IF d <= RingLen(G) - d THEN d ELSE RingLen(G) - d
Dist(G, p, q) == Larger(RingDist(G, p[1], q[1]), Abs(p[2] - q[2]))

(* the single cell a point is looked up in *)
Lookup(G, q) == <<q[1] \div G.s, q[2] \div G.h>>

(* cell index u (unwrapped, possibly < 0 or >= n) along an axis with cells of size w is   *)
(* within the margin of coordinate v: u is v's own cell, or the near edge of u is closer *)
(* than m                                                                                *)
Within(G, w, v, u) == LET own == v \div w IN
  \/ u = own
  \/ u < own /\ v - (u + 1) * w < G.m
  \/ u > own /\ u * w - v < G.m

(* unwrapped ring indices and band indices entered for point p *)
RingReach(G, p) == {u \in -1 .. G.nc : Within(G, G.s, p[1], u)}
BandReach(G, p) == {b \in 0 .. G.nb - 1 : /\ Within(G, G.h, p[2], b)
                                          /\ G.walk \/ Abs(b - p[2] \div G.h) <= 1}
WrapIndex(G, u) == u % G.nc
(* how many times p is entered in cell c *)
Insertions(G, p, c) ==
  IF c[2] \notin BandReach(G, p) THEN 0
  ELSE LET hits == {u \in RingReach(G, p) : IF G.wrap THEN WrapIndex(G, u) = c[1] ELSE u = c[1]}
       IN IF G.guard /\ hits # {} THEN 1 ELSE Cardinality(hits)
Assign(G, p) == {c \in CellsOf(G) : Insertions(G, p, c) >= 1}

(* every point closer than the margin to q is in the one cell q is looked up in ...      *)
HashComplete(G, p) == \A q \in PointsOf(G) : Dist(G, p, q) < G.m => Lookup(G, q) \in Assign(G, p)
(* ... exactly once                                                                      *)
HashOnce(G, p) == \A c \in CellsOf(G) : Insertions(G, p, c) <= 1
(* the cells that must hold p, and the cells that may (edges at distance <= m)           *)
Needed(G, p) == {Lookup(G, q) : q \in {r \in PointsOf(G) : Dist(G, p, r) < G.m}}
Allowed(G, p) == {c \in CellsOf(G) : \E q \in PointsOf(G) : Lookup(G, q) = c /\ Dist(G, p, q) <= G.m}

(* ---- named deviations (what the code does today; see known_findings.json) ---------- *)
(* D-C04-2: the hash enters a second-list point in the cells whose edge is closer than  *)
(* margin/cos(dec) in right ascension; a cap of radius m reaches asin(sin m / cos dec).  *)
(* A result with missing pairs is explained by this deviation iff it is Unlimited once   *)
(* the pairs in `thin` are taken out of `near`; `thin` = pairs whose second-list point   *)
(* lies in another cell than the first-list point, farther than margin/cosDecMin in RA   *)
(* from that cell (the harness measures this on the real chunks object, read-only).      *)
Dev_ThinRaMargin(P, thin, s) ==
  /\ thin \subseteq P.near
  /\ RangeOf(s) \cap thin = {}
  /\ ~(P.near \subseteq RangeOf(s))
  /\ Admissible([P EXCEPT !.near = P.near \ thin,
                          !.rank = [p \in Cands(P) \ thin |-> P.rank[p]]], s)
=============================================================================
