---------------------------- MODULE EnvProtocol ----------------------------
(***************************************************************************)
(* C20 - a failing pipeline call leaves the process environment as it      *)
(* found it.                                                               *)
(*                                                                         *)
(* An entry point that temporarily changes process-wide state follows the  *)
(* protocol  save / mutate / steps-with-faults / restore on EVERY exit.    *)
(* The environment is a function  variable name -> value or Absent.  The   *)
(* entry point calls collaborators (environment lookups, file opens,       *)
(* scoring, reading, resampling, solving, plotting, writing) in some order;*)
(* any of them may raise, and the entry point's own code may raise between *)
(* two calls (malformed file contents).  Whatever happens, when control    *)
(* leaves the entry point - by return or by exception - the environment is *)
(* the one found on entry, for the touched and for every other variable.   *)
(*                                                                         *)
(* The protocol does not depend on which collaborators there are or how    *)
(* many: a profile P = [ep, steps] names the entry point and lists the     *)
(* collaborator calls  [name, var]  (var # "" for an environment lookup).  *)
(* Every action takes the profile as a parameter so that the model-checking*)
(* instance (mc/MC_EnvProtocol) and the trace instance                     *)
(* (trace/Trace_EnvProtocol) reuse the same actions.                       *)
(***************************************************************************)
EXTENDS Naturals, Sequences, FiniteSets

Absent  == "<absent>"      \* the variable is not in the environment (never a legal value)
Unsaved == "<unsaved>"     \* nothing recorded yet for this variable

(* ---- what the property statement says about the two entry points ---- *)
FileRun2d == "v5_7_0"      \* run2d / run1d of the parameter file used by the harness
FileRun1d == "v5_7_1"

EntryPoint(ep) ==
  CASE ep = "window_score" ->
         [ touched |-> {"PHOTO_CALIB"},                       \* removed while it runs
           new     |-> [t \in {"PHOTO_CALIB"} |-> Absent],
           needs   |-> {"PHOTO_CALIB", "PHOTO_RESOLVE"},      \* "missing variable" failures
           others  |-> {"PHOTO_RESOLVE", "VERIF_BYSTANDER"},
           stages  |-> {"sdss_score"} ]
    [] ep = "template_input" ->
         [ touched |-> {"RUN2D", "RUN1D"},                    \* set from the parameter file
           new     |-> [t \in {"RUN2D", "RUN1D"} |-> IF t = "RUN2D" THEN FileRun2d ELSE FileRun1d],
           needs   |-> {},
           others  |-> {"VERIF_BYSTANDER"},
           stages  |-> {"readspec", "HDUList.writeto"} ]

Touched(P) == EntryPoint(P.ep).touched
New(P)     == EntryPoint(P.ep).new
Vars(P)    == EntryPoint(P.ep).touched \cup EntryPoint(P.ep).others

FaultKinds == {"OSError", "KeyError", "ValueError"}
(* An environment lookup fails in exactly one way: the variable is absent.  That is a matter of  *)
(* the initial state (NaturalFail below, for the variables the entry point cannot do without),  *)
(* not of fault injection, so no exception is ever injected into a lookup.                      *)
KindsFor(s) == IF s.var # "" THEN {} ELSE FaultKinds

VARIABLES env,        \* the process environment (restricted to Vars(P))
          env0,       \* snapshot on entry
          saved,      \* what the entry point recorded for each touched variable
          st,         \* per touched variable: "orig" (not yet changed), "new", "restored"
          pc,         \* "entry", "running", "handler", "returned", "raised"
          k,          \* number of collaborator calls made so far
          faultAt,    \* 0, or the index of the call that failed (for "body": calls made before)
          faultKind,  \* "none", a member of FaultKinds, "natural", "body"
          vis         \* history: every stage call so far saw the mutated environment
vars == <<env, env0, saved, st, pc, k, faultAt, faultKind, vis>>

AllNew(P)   == \A t \in Touched(P) : st[t] = "new"
NoneNew(P)  == \A t \in Touched(P) : st[t] # "new"
IsStage(P, s) == s.name \in EntryPoint(P.ep).stages
(* the call is an environment lookup of a variable the entry point cannot do without *)
NaturalFail(P, s) == s.var \in EntryPoint(P.ep).needs /\ env[s.var] = Absent

InitWith(P, e) ==
  /\ env = e /\ env0 = e
  /\ saved = [t \in Touched(P) |-> Unsaved]
  /\ st = [t \in Touched(P) |-> "orig"]
  /\ pc = "entry" /\ k = 0 /\ faultAt = 0 /\ faultKind = "none" /\ vis = TRUE

Enter(P) == /\ pc = "entry" /\ pc' = "running"
            /\ UNCHANGED <<env, env0, saved, st, k, faultAt, faultKind, vis>>

Save(P) == /\ pc = "running"
           /\ \A t \in Touched(P) : saved[t] = Unsaved
           /\ saved' = [t \in Touched(P) |-> env[t]]
           /\ UNCHANGED <<env, env0, st, pc, k, faultAt, faultKind, vis>>

Mutate(P, t) == /\ pc = "running" /\ st[t] = "orig" /\ saved[t] # Unsaved
                /\ env' = [env EXCEPT ![t] = New(P)[t]]
                /\ st' = [st EXCEPT ![t] = "new"]
                /\ UNCHANGED <<env0, saved, pc, k, faultAt, faultKind, vis>>

StepOk(P) == /\ pc = "running" /\ k < Len(P.steps)
             /\ ~NaturalFail(P, P.steps[k + 1])
             /\ k' = k + 1
             /\ vis' = (vis /\ (IsStage(P, P.steps[k + 1]) => AllNew(P)))
             /\ UNCHANGED <<env, env0, saved, st, pc, faultAt, faultKind>>

(* the (k+1)-th collaborator raises *)
StepFails(P, kind) == /\ pc = "running" /\ k < Len(P.steps)
                      /\ kind \in KindsFor(P.steps[k + 1])
                      /\ k' = k + 1 /\ pc' = "handler" /\ faultAt' = k + 1 /\ faultKind' = kind
                      /\ UNCHANGED <<env, env0, saved, st, vis>>

(* a precondition fails: a variable the entry point needs is missing *)
StepFailsNaturally(P) == /\ pc = "running" /\ k < Len(P.steps)
                         /\ NaturalFail(P, P.steps[k + 1])
                         /\ k' = k + 1 /\ pc' = "handler" /\ faultAt' = k + 1 /\ faultKind' = "natural"
                         /\ UNCHANGED <<env, env0, saved, st, vis>>

(* the entry point's own code raises after k calls (missing keyword, bad number, missing table, ...) *)
BodyFails(P) == /\ pc = "running"
                /\ pc' = "handler" /\ faultAt' = k /\ faultKind' = "body"
                /\ UNCHANGED <<env, env0, saved, st, k, vis>>

(* while unwinding the entry point may still call collaborators (close a file); whether they fail *)
(* or not, control stays with the handler                                                         *)
CleanupCall(P) == /\ pc = "handler" /\ k < Len(P.steps) /\ k' = k + 1
                  /\ UNCHANGED <<env, env0, saved, st, pc, faultAt, faultKind, vis>>

Restore(P, t) == /\ pc \in {"running", "handler"} /\ st[t] = "new"
                 /\ env' = [env EXCEPT ![t] = saved[t]]
                 /\ st' = [st EXCEPT ![t] = "restored"]
                 /\ UNCHANGED <<env0, saved, pc, k, faultAt, faultKind, vis>>

(* the conforming design: no exit while a touched variable still holds the temporary value *)
Return(P) == /\ pc = "running" /\ k = Len(P.steps) /\ NoneNew(P) /\ pc' = "returned"
             /\ UNCHANGED <<env, env0, saved, st, k, faultAt, faultKind, vis>>
Raise(P) == /\ pc = "handler" /\ NoneNew(P) /\ pc' = "raised"
            /\ UNCHANGED <<env, env0, saved, st, k, faultAt, faultKind, vis>>

Terminal == pc \in {"returned", "raised"}
Done == Terminal /\ UNCHANGED vars

(* ---- named deviation: restore on the straight-line path only (D-C20-1, D-C20-2) ---- *)
Dev_RestoreOnSuccessOnly(P, t) == pc = "running" /\ Restore(P, t)
Dev_RaiseWithoutRestore(P) == /\ pc = "handler" /\ pc' = "raised"
                              /\ UNCHANGED <<env, env0, saved, st, k, faultAt, faultKind, vis>>

(* ---- properties ---- *)
TypeOK(P) ==
  /\ DOMAIN env = Vars(P) /\ DOMAIN env0 = Vars(P)
  /\ DOMAIN saved = Touched(P) /\ DOMAIN st = Touched(P)
  /\ \A t \in Touched(P) : st[t] \in {"orig", "new", "restored"}
  /\ pc \in {"entry", "running", "handler", "returned", "raised"}
  /\ k \in 0..Len(P.steps) /\ faultAt \in 0..Len(P.steps)
  /\ faultKind \in FaultKinds \cup {"none", "natural", "body"}
  /\ vis \in BOOLEAN

(* on every exit the environment - every variable of it - is the one found on entry *)
EnvRestored == Terminal => env = env0
(* nothing but the touched variables ever changes, and those only to the temporary value *)
BystandersUntouched(P) == \A o \in Vars(P) \ Touched(P) : env[o] = env0[o]
TouchedOrigOrNew(P) == \A t \in Touched(P) : env[t] \in {env0[t], New(P)[t]}
SavedIsEntryValue(P) == \A t \in Touched(P) : saved[t] \in {Unsaved, env0[t]}
(* the reason the environment is touched at all: the stages run under the temporary values *)
MutationVisibleDuringSteps == vis
RaisedOnlyIfFaultOrPrecondition ==
  /\ pc \in {"handler", "raised"} => faultKind # "none"
  /\ pc = "returned" => faultKind = "none"
=============================================================================
