----------------------------- MODULE YannyFile -----------------------------
(***************************************************************************)
(* C03 - a parameter-file object and its file never diverge over           *)
(* write / append histories.                                               *)
(*                                                                         *)
(* Line level model (the token level is Yanny.tla's business).  A file is  *)
(* absent or a sequence of lines:                                          *)
(*   <<"head">>  <<"note">>  <<"td", t>>  <<"pair", k, v>>  <<"row", t, n>>*)
(* A row is identified by its table and an integer n (the harness gives    *)
(* row n cell values that are a function of n, some needing quotes).       *)
(* One action per public call and outcome; refusals are explicit actions   *)
(* that change nothing.                                                    *)
(***************************************************************************)
EXTENDS Integers, Sequences, SequencesExt, FiniteSets

CONSTANTS Files,       \* file names
          Tables,      \* sequence of table names, in typedef order
          NoFile       \* the "unbound" file name

VARIABLES fs,          \* [Files -> [exists, lines]]
          obj,         \* [fname, rows: [table -> Seq(n)], pairs: Seq(<<k, v>>)]
          model,       \* history variable: original content followed by everything appended, in order
          last         \* [op, out]: the last call and its outcome "ok" | "raise" | "warn" | "init"
vars == <<fs, obj, model, last>>

TableSet == {Tables[i] : i \in DOMAIN Tables}
NoRows == [t \in TableSet |-> <<>>]
AbsentFile == [exists |-> FALSE, lines |-> <<>>]

(* ---- the meaning of a file: its pairs in order and each table's rows in order ---- *)
RowsOf(lines, t) == LET sel == SelectSeq(lines, LAMBDA l : l[1] = "row" /\ l[2] = t)
                    IN [i \in 1..Len(sel) |-> sel[i][3]]
PairsOf(lines) == LET sel == SelectSeq(lines, LAMBDA l : l[1] = "pair")
                  IN [i \in 1..Len(sel) |-> <<sel[i][2], sel[i][3]>>]
Content(lines) == [rows |-> [t \in TableSet |-> RowsOf(lines, t)], pairs |-> PairsOf(lines)]
ObjContent == [rows |-> obj.rows, pairs |-> obj.pairs]

(* ---- what the writer emits ---- *)
RowLines(rows) ==     \* grouped by table, in typedef order
  FoldLeft(LAMBDA acc, t : acc \o [i \in 1..Len(rows[t]) |-> <<"row", t, rows[t][i]>>], <<>>, Tables)
PairLines(pairs) == [i \in 1..Len(pairs) |-> <<"pair", pairs[i][1], pairs[i][2]>>]
FullText(c) == <<<<"head">>>> \o PairLines(c.pairs) \o [i \in 1..Len(Tables) |-> <<"td", Tables[i]>>] \o RowLines(c.rows)
AppendText(pairs, rows) == <<<<"note">>>> \o PairLines(pairs) \o RowLines(rows)

(* ---- the table set (quantifier: "starting from any table set") ----                                   *)
(* A table set gives every table its columns: a name, a kind of value and a dimension (0 = one value,    *)
(* k > 0 = an array of k values).  A column belongs to ITS table: two tables may use the same column name *)
(* for a scalar in one and an array in the other, for arrays of different lengths, or for values of       *)
(* different kinds.  Row n of a table holds, in column order, a cell that is a function of the column and *)
(* of n alone; the harness concretises kind + number into a real value (and back), nothing else.          *)
(* None of the actions below reads the table set: the line-level outcome of every history is the same for *)
(* all of them (TableSetIndependent); what the table set decides is what the CELLS of a row are.          *)
Col(name, kind, dim) == [name |-> name, kind |-> kind, dim |-> dim]
Kinds == {"int", "str", "big"}          \* 32-bit integer, text (some need quoting), 64-bit id beyond a double
IdCol == Col("n", "int", 0)             \* every table starts with its integer row id
TableSetNames == {"plain", "sharedScalarArray", "sharedArrayScalar", "sharedLength", "sharedKind"}
TableSetDef(s) ==      \* columns of the first and of the second table
  CASE s = "plain"             -> << <<IdCol, Col("s", "str", 0), Col("big", "big", 0)>>,   <<IdCol, Col("arr", "int", 2)>> >>
    [] s = "sharedScalarArray" -> << <<IdCol, Col("tag", "str", 0), Col("big", "big", 0)>>, <<IdCol, Col("tag", "str", 2)>> >>
    [] s = "sharedArrayScalar" -> << <<IdCol, Col("v", "int", 2), Col("s", "str", 0)>>,     <<IdCol, Col("big", "big", 0), Col("v", "int", 0)>> >>
    [] s = "sharedLength"      -> << <<IdCol, Col("arr", "int", 3), Col("s", "str", 0)>>,   <<IdCol, Col("arr", "int", 2)>> >>
    [] s = "sharedKind"        -> << <<IdCol, Col("x", "str", 0), Col("big", "big", 0)>>,   <<IdCol, Col("x", "int", 0), Col("w", "str", 2)>> >>
TableIndex(t) == CHOOSE i \in DOMAIN Tables : Tables[i] = t
ColsOf(s, t) == TableSetDef(s)[((TableIndex(t) - 1) % 2) + 1]
TableSetRec(s) == [name |-> s, cols |-> [t \in TableSet |-> ColsOf(s, t)]]
CellOf(col, n) == [kind |-> col.kind, arr |-> col.dim > 0,
                   v |-> IF col.dim = 0 THEN <<n>> ELSE [j \in 1..col.dim |-> n + j - 1]]
RowCells(s, t, n) == LET cs == ColsOf(s, t) IN [i \in 1..Len(cs) |-> CellOf(cs[i], n)]
TableCells(s, rows) == [t \in TableSet |-> [i \in 1..Len(rows[t]) |-> RowCells(s, t, rows[t][i])]]
NoCells == [t \in TableSet |-> <<>>]
(* what a fresh object read from the object's file holds (nothing when there is no such file) *)
FreshRead(s, fsv, objv) ==
  IF objv.fname # NoFile /\ fsv[objv.fname].exists
  THEN LET c == [rows |-> [t \in TableSet |-> RowsOf(fsv[objv.fname].lines, t)], pairs |-> PairsOf(fsv[objv.fname].lines)]
       IN [readable |-> TRUE, rows |-> c.rows, pairs |-> c.pairs, cells |-> TableCells(s, c.rows)]
  ELSE [readable |-> FALSE, rows |-> NoRows, pairs |-> <<>>, cells |-> NoCells]
(* laws of the table sets *)
TableSetWellFormed(s) == \A t \in TableSet : LET cs == ColsOf(s, t) IN
  /\ cs[1] = IdCol
  /\ \A i, j \in 1..Len(cs) : (cs[i].name = cs[j].name) => i = j          \* within ONE table names are unique
  /\ \A i \in 1..Len(cs) : cs[i].kind \in Kinds /\ cs[i].dim \in 0..3
RowIdRecoverable(s) == \A t \in TableSet : \A n \in 0..3 : RowCells(s, t, n)[1] = [kind |-> "int", arr |-> FALSE, v |-> <<n>>]
(* the dimension is not vacuous: some table set shares a column name between the tables with different shape / length / kind *)
SharesColumn(s, P(_, _)) == \E i \in 1..Len(TableSetDef(s)[1]) : \E j \in 1..Len(TableSetDef(s)[2]) :
  /\ TableSetDef(s)[1][i].name = TableSetDef(s)[2][j].name /\ TableSetDef(s)[1][i] # IdCol
  /\ P(TableSetDef(s)[1][i], TableSetDef(s)[2][j])
TableSetsCoverSharing ==
  /\ \E s \in TableSetNames : SharesColumn(s, LAMBDA a, b : a.dim = 0 /\ b.dim > 0)
  /\ \E s \in TableSetNames : SharesColumn(s, LAMBDA a, b : a.dim > 0 /\ b.dim = 0)
  /\ \E s \in TableSetNames : SharesColumn(s, LAMBDA a, b : a.dim > 0 /\ b.dim > 0 /\ a.dim # b.dim)
  /\ \E s \in TableSetNames : SharesColumn(s, LAMBDA a, b : a.kind # b.kind)
  /\ \E s \in TableSetNames : \A i \in 1..Len(TableSetDef(s)[1]) : \A j \in 1..Len(TableSetDef(s)[2]) :
        TableSetDef(s)[1][i].name = TableSetDef(s)[2][j].name => TableSetDef(s)[1][i] = IdCol

Nothing(pairs, rows) == pairs = <<>> /\ \A t \in TableSet : rows[t] = <<>>
Bound == obj.fname # NoFile

(* ---- actions ---- *)
(* write(f): a new file with the whole content; the object is now bound to f *)
WriteNew(f) ==
  /\ f \in Files /\ ~fs[f].exists
  /\ fs' = [fs EXCEPT ![f] = [exists |-> TRUE, lines |-> FullText(ObjContent)]]
  /\ obj' = [obj EXCEPT !.fname = f]
  /\ last' = [op |-> "write", out |-> "ok"]
  /\ UNCHANGED model
(* write(f) onto an existing file: refused, nothing changes *)
WriteOverExisting(f) ==
  /\ f \in Files /\ fs[f].exists
  /\ last' = [op |-> "write", out |-> "raise"]
  /\ UNCHANGED <<fs, obj, model>>
(* write() without a name on an object that has none: refused *)
WriteNoName ==
  /\ ~Bound
  /\ last' = [op |-> "write", out |-> "raise"]
  /\ UNCHANGED <<fs, obj, model>>
(* append(pairs, rows): the file grows by a note line, the new pairs and the new rows; so does the object *)
AppendOK(pairs, rows) ==
  /\ Bound /\ ~Nothing(pairs, rows) /\ fs[obj.fname].exists
  /\ fs' = [fs EXCEPT ![obj.fname].lines = @ \o AppendText(pairs, rows)]
  /\ obj' = [obj EXCEPT !.pairs = @ \o pairs, !.rows = [t \in TableSet |-> @[t] \o rows[t]]]
  /\ model' = [model EXCEPT !.pairs = @ \o pairs, !.rows = [t \in TableSet |-> @[t] \o rows[t]]]
  /\ last' = [op |-> "append", out |-> "ok"]
AppendEmpty(pairs, rows) ==
  /\ Bound /\ Nothing(pairs, rows)
  /\ last' = [op |-> "append", out |-> "warn"]
  /\ UNCHANGED <<fs, obj, model>>
AppendToMissing(pairs, rows) ==
  /\ Bound /\ ~Nothing(pairs, rows) /\ ~fs[obj.fname].exists
  /\ last' = [op |-> "append", out |-> "raise"]
  /\ UNCHANGED <<fs, obj, model>>
AppendUnbound(pairs, rows) ==
  /\ ~Bound
  /\ last' = [op |-> "append", out |-> "raise"]
  /\ UNCHANGED <<fs, obj, model>>
(* the environment removes a file behind the object's back *)
ExternalDelete(f) ==
  /\ f \in Files /\ fs[f].exists
  /\ fs' = [fs EXCEPT ![f] = AbsentFile]
  /\ last' = [op |-> "delete", out |-> "ok"]
  /\ UNCHANGED <<obj, model>>
(* a fresh object is read from the object's file; it must see what the object sees *)
ReRead ==
  /\ Bound /\ fs[obj.fname].exists
  /\ last' = [op |-> "reread", out |-> "ok"]
  /\ UNCHANGED <<fs, obj, model>>

(* ---- properties ---- *)
TypeOK == /\ \A f \in Files : fs[f].exists \in BOOLEAN
          /\ obj.fname \in Files \cup {NoFile}
(* the object equals what a fresh read of its file returns *)
C03_Coherent == (Bound /\ fs[obj.fname].exists) => Content(fs[obj.fname].lines) = ObjContent
(* ... and the original content followed by every appended row and pair, in order *)
C03_ModelCoherent == ObjContent = model
(* earlier lines of a file are preserved *)
C03_PrefixPreserved == [][\A f \in Files : (fs[f].exists /\ fs'[f].exists) => IsPrefix(fs[f].lines, fs'[f].lines)]_vars
(* a write never replaces an existing file *)
C03_NoClobber == [][\A f \in Files : (fs[f].exists /\ fs'[f].exists /\ fs[f] # fs'[f]) => last'.op = "append"]_vars
(* an append never creates a file *)
C03_NoCreateOnAppend == [][\A f \in Files : (~fs[f].exists /\ fs'[f].exists) => (last'.op = "write" /\ last'.out = "ok")]_vars
(* refusals and the empty append change nothing *)
C03_RefusalsChangeNothing == [][last'.out \in {"raise", "warn"} => UNCHANGED <<fs, obj, model>>]_vars

(* ---- named deviations (negative controls; never enabled in strict runs) ---- *)
(* the object is updated but the file is not (or vice versa) *)
Dev_AppendObjectOnly(pairs, rows) ==
  /\ Bound /\ ~Nothing(pairs, rows) /\ fs[obj.fname].exists
  /\ obj' = [obj EXCEPT !.pairs = @ \o pairs, !.rows = [t \in TableSet |-> @[t] \o rows[t]]]
  /\ model' = [model EXCEPT !.pairs = @ \o pairs, !.rows = [t \in TableSet |-> @[t] \o rows[t]]]
  /\ last' = [op |-> "append", out |-> "ok"]
  /\ UNCHANGED fs
(* write opens with truncation *)
Dev_WriteClobbers(f) ==
  /\ f \in Files /\ fs[f].exists
  /\ fs' = [fs EXCEPT ![f] = [exists |-> TRUE, lines |-> FullText(ObjContent)]]
  /\ obj' = [obj EXCEPT !.fname = f]
  /\ last' = [op |-> "write", out |-> "ok"]
  /\ UNCHANGED model
=============================================================================
