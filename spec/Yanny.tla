------------------------------- MODULE Yanny -------------------------------
(***************************************************************************)
(* C01 / C02 - the SDSS parameter-file ("yanny") format.                   *)
(*                                                                         *)
(* A text is a sequence of one-character strings (exactly the characters   *)
(* of the file).  A document is the logical content: ordered pairs, enum   *)
(* and struct definitions, rows.  This module defines                      *)
(*   SpecParse(text)  - the reference reader (what a file MEANS),          *)
(*   Canon(doc)       - what reading a rendering of doc must yield,        *)
(*   WriteDoc(doc)    - the canonical text the writer is documented to     *)
(*                      produce,                                           *)
(*   the Render* operators - every admissible surface form of each item.   *)
(* Nothing here is derived from pydl's regular expressions; the reading of *)
(* the format is DESIGN.md Appendix A.                                     *)
(***************************************************************************)
EXTENDS Integers, Sequences, SequencesExt, FiniteSets, TLC

SP == " "
TAB == "\t"
NL == "\n"
CR == "\r"
BS == "\\"
DQ == "\""
WS == {SP, TAB, CR}
Str(s) == s                      \* documentation only: Str = Seq(Char)

Lower == <<"a","b","c","d","e","f","g","h","i","j","k","l","m","n","o","p","q","r","s","t","u","v","w","x","y","z">>
Upper == <<"A","B","C","D","E","F","G","H","I","J","K","L","M","N","O","P","Q","R","S","T","U","V","W","X","Y","Z">>
Up(c) == IF \E k \in 1..26 : Lower[k] = c THEN Upper[CHOOSE k \in 1..26 : Lower[k] = c] ELSE c
Lo(c) == IF \E k \in 1..26 : Upper[k] = c THEN Lower[CHOOSE k \in 1..26 : Upper[k] = c] ELSE c
UpStr(s) == [i \in 1..Len(s) |-> Up(s[i])]
LoStr(s) == [i \in 1..Len(s) |-> Lo(s[i])]
Digits == <<"0","1","2","3","4","5","6","7","8","9">>
DigitVal(c) == (CHOOSE k \in 1..10 : Digits[k] = c) - 1
IsDigit(c) == \E k \in 1..10 : Digits[k] = c
Num(s) == FoldLeft(LAMBDA acc, c : acc * 10 + DigitVal(c), 0, s)
RECURSIVE NatStr(_)
NatStr(n) == IF n < 10 THEN <<Digits[n + 1]>> ELSE NatStr(n \div 10) \o <<Digits[(n % 10) + 1]>>

Strip(s) == LET a == SelectInSeq(s, LAMBDA c : c \notin WS)
                b == SelectLastInSeq(s, LAMBDA c : c \notin WS)
            IN IF a = 0 THEN <<>> ELSE SubSeq(s, a, b)
StartsWith(s, p) == Len(s) >= Len(p) /\ SubSeq(s, 1, Len(p)) = p
IndexOf(s, c) == SelectInSeq(s, LAMBDA x : x = c)          \* 0 if absent
Join(parts, sep) == FoldLeft(LAMBDA acc, p : IF acc = <<>> THEN p ELSE acc \o sep \o p, <<>>, parts)
JoinAll(parts, sep) ==                                     \* keeps empty parts (Join drops a leading empty one)
  IF parts = <<>> THEN <<>> ELSE FoldLeft(LAMBDA acc, p : acc \o sep \o p, parts[1], Tail(parts))
Concat(parts) == FoldLeft(LAMBDA acc, p : acc \o p, <<>>, parts)
MaxOf(S) == IF S = {} THEN 0 ELSE CHOOSE m \in S : \A x \in S : x <= m

(***************************************************************************)
(* Stage A: physical text -> logical lines (backslash continuation).       *)
(* A backslash followed only by blanks up to the line end joins the next   *)
(* line with one blank.                                                    *)
(***************************************************************************)
LLInit == [lines |-> <<>>, cur |-> <<>>, bs |-> FALSE, held |-> <<>>]
LLStep(a, c) ==
  IF c = NL THEN
     IF a.bs THEN [a EXCEPT !.cur = a.cur \o <<SP>>, !.bs = FALSE, !.held = <<>>]
     ELSE [a EXCEPT !.lines = Append(a.lines, a.cur), !.cur = <<>>]
  ELSE IF a.bs THEN
     IF c \in WS THEN [a EXCEPT !.held = a.held \o <<c>>]
     ELSE IF c = BS THEN [a EXCEPT !.cur = a.cur \o a.held, !.held = <<BS>>]
     ELSE [a EXCEPT !.cur = a.cur \o a.held \o <<c>>, !.bs = FALSE, !.held = <<>>]
  ELSE IF c = BS THEN [a EXCEPT !.bs = TRUE, !.held = <<BS>>]
  ELSE [a EXCEPT !.cur = a.cur \o <<c>>]
LogicalLines(text) ==
  LET a == FoldLeft(LLStep, LLInit, text)
      last == a.cur \o a.held
  IN IF last = <<>> THEN a.lines ELSE Append(a.lines, last)

(***************************************************************************)
(* Row tokeniser: bare words, "quoted strings", {braced groups} whose      *)
(* elements are bare or quoted; a '#' met between tokens starts a trailing *)
(* comment.                                                                *)
(***************************************************************************)
Tok(k, s, e, raw) == [k |-> k, s |-> s, e |-> e, raw |-> raw]
TZInit == [toks |-> <<>>, st |-> "ws", cur |-> <<>>, elems |-> <<>>, raw |-> <<>>, depth |-> 0]
CloseBrace(a) ==      \* a '}' seen while inside braces (element already flushed)
  IF a.depth = 1 THEN [a EXCEPT !.toks = Append(a.toks, Tok("braced", <<>>, a.elems, a.raw)), !.st = "ws", !.depth = 0,
                                !.cur = <<>>, !.elems = <<>>, !.raw = <<>>]
  ELSE [a EXCEPT !.depth = a.depth - 1, !.raw = a.raw \o <<"}">>, !.st = "br"]
TZStep(a, c) ==
  CASE a.st = "cmt" -> a
    [] a.st = "ws" ->
         IF c \in WS THEN a
         ELSE IF c = "#" THEN [a EXCEPT !.st = "cmt"]
         ELSE IF c = DQ THEN [a EXCEPT !.st = "q", !.cur = <<>>]
         ELSE IF c = "{" THEN [a EXCEPT !.st = "br", !.depth = 1, !.raw = <<>>, !.elems = <<>>, !.cur = <<>>]
         ELSE [a EXCEPT !.st = "bare", !.cur = <<c>>]
    [] a.st = "bare" ->
         IF c \in WS THEN [a EXCEPT !.toks = Append(a.toks, Tok("bare", a.cur, <<>>, <<>>)), !.st = "ws", !.cur = <<>>]
         ELSE [a EXCEPT !.cur = a.cur \o <<c>>]
    [] a.st = "q" ->
         IF c = DQ THEN [a EXCEPT !.toks = Append(a.toks, Tok("quoted", a.cur, <<>>, <<>>)), !.st = "ws", !.cur = <<>>]
         ELSE [a EXCEPT !.cur = a.cur \o <<c>>]
    [] a.st = "br" ->
         IF c = "}" THEN CloseBrace(a)
         ELSE IF c = "{" THEN [a EXCEPT !.depth = a.depth + 1, !.raw = a.raw \o <<c>>]
         ELSE IF c \in WS THEN [a EXCEPT !.raw = a.raw \o <<c>>]
         ELSE IF c = DQ THEN [a EXCEPT !.st = "brq", !.cur = <<>>, !.raw = a.raw \o <<c>>]
         ELSE [a EXCEPT !.st = "brbare", !.cur = <<c>>, !.raw = a.raw \o <<c>>]
    [] a.st = "brq" ->
         IF c = DQ THEN [a EXCEPT !.elems = Append(a.elems, a.cur), !.st = "br", !.cur = <<>>, !.raw = a.raw \o <<c>>]
         ELSE [a EXCEPT !.cur = a.cur \o <<c>>, !.raw = a.raw \o <<c>>]
    [] a.st = "brbare" ->
         IF c \in WS THEN [a EXCEPT !.elems = Append(a.elems, a.cur), !.st = "br", !.cur = <<>>, !.raw = a.raw \o <<c>>]
         ELSE IF c = "}" THEN CloseBrace([a EXCEPT !.elems = Append(a.elems, a.cur), !.cur = <<>>])
         ELSE [a EXCEPT !.cur = a.cur \o <<c>>, !.raw = a.raw \o <<c>>]
Tokens(line) ==
  LET a == FoldLeft(TZStep, TZInit, line)
  IN IF a.st = "bare" THEN Append(a.toks, Tok("bare", a.cur, <<>>, <<>>))
     ELSE IF a.st = "q" THEN Append(a.toks, Tok("quoted", a.cur, <<>>, <<>>))
     ELSE a.toks

(* the string a brace-wrapped scalar denotes: the text between the braces, outer blanks     *)
(* stripped; "{}" and "{ { } }" are the empty string                                          *)
ScalarOfBraced(t) ==
  LET r == Strip(t.raw)
  IN IF r # <<>> /\ Head(r) = "{" /\ Last(r) = "}" /\ Strip(SubSeq(r, 2, Len(r) - 1)) = <<>> THEN <<>> ELSE r

(***************************************************************************)
(* typedef blocks                                                          *)
(***************************************************************************)
TDInit == [toks |-> <<>>, cur |-> <<>>, cmt |-> FALSE]
TDFlush(a) == IF a.cur = <<>> THEN a ELSE [a EXCEPT !.toks = Append(a.toks, a.cur), !.cur = <<>>]
TDStep(a, c) ==
  IF c = NL THEN [TDFlush(a) EXCEPT !.cmt = FALSE]
  ELSE IF a.cmt THEN a
  ELSE IF c = "#" THEN [TDFlush(a) EXCEPT !.cmt = TRUE]
  ELSE IF c \in WS \cup {","} THEN TDFlush(a)
  ELSE IF c \in {"{", "}", ";"} THEN [TDFlush(a) EXCEPT !.toks = Append(TDFlush(a).toks, <<c>>)]
  ELSE [a EXCEPT !.cur = a.cur \o <<c>>]
TypedefTokens(buf) == TDFlush(FoldLeft(TDStep, TDInit, buf)).toks

KwTypedef == <<"t","y","p","e","d","e","f">>
KwStruct == <<"s","t","r","u","c","t">>
KwEnum == <<"e","n","u","m">>
KwChar == <<"c","h","a","r">>
IsTypedefStart(line) == LET s == Strip(line) IN StartsWith(s, KwTypedef) /\ (Len(s) = 7 \/ s[8] \in WS \cup {"{"})
TypedefComplete(buf) ==
  LET t == TypedefTokens(buf)
      j == IndexOf(t, <<"}">>)
  IN j > 0 /\ \E k \in (j + 1)..Len(t) : t[k] = <<";">>

(* NAME[d1][d2] / NAME<d1> -> [name, dims]; an empty dimension is the empty string *)
NDInit == [name |-> <<>>, dims |-> <<>>, cur |-> <<>>, inb |-> FALSE, seen |-> FALSE]
NDStep(a, c) ==
  IF c \in {"[", "<"} THEN [a EXCEPT !.inb = TRUE, !.cur = <<>>, !.seen = TRUE]
  ELSE IF c \in {"]", ">"} THEN [a EXCEPT !.inb = FALSE, !.dims = Append(a.dims, a.cur), !.cur = <<>>]
  ELSE IF a.inb THEN [a EXCEPT !.cur = a.cur \o <<c>>]
  ELSE IF a.seen THEN a
  ELSE [a EXCEPT !.name = a.name \o <<c>>]
NameDims(s) == LET a == FoldLeft(NDStep, NDInit, s) IN [name |-> a.name, dims |-> a.dims]

Auto == 0           \* clen of a column declared char[]
NotChar == -1
DimVal(d) == IF d = <<>> THEN Auto ELSE Num(d)
Col(name, base, alen, clen) == [name |-> name, base |-> base, alen |-> alen, clen |-> clen]
ColOf(type, nd) ==
  LET d == nd.dims IN
  IF type = KwChar THEN
     IF Len(d) >= 2 THEN Col(nd.name, type, Num(d[1]), DimVal(d[2]))
     ELSE IF Len(d) = 1 THEN Col(nd.name, type, 0, DimVal(d[1]))
     ELSE Col(nd.name, type, 0, 1)
  ELSE IF Len(d) >= 1 THEN Col(nd.name, type, Num(d[1]), NotChar)
  ELSE Col(nd.name, type, 0, NotChar)

ParseTypedef(buf) ==
  LET t == TypedefTokens(buf)
      j == IndexOf(t, <<"}">>)
      body == SubSeq(t, 4, j - 1)
      name == t[j + 1]
  IN IF t[2] = KwEnum
     THEN [kind |-> "enum", name |-> name, labels |-> body, cols |-> <<>>]
     ELSE [kind |-> "struct", name |-> UpStr(name), labels |-> <<>>,
           cols |-> [k \in 1..(Len(body) \div 3) |-> ColOf(body[3 * k - 2], NameDims(body[3 * k - 1]))]]

(***************************************************************************)
(* Stage B: logical lines -> parse result                                  *)
(***************************************************************************)
CutComment(s) == LET k == IndexOf(s, "#") IN IF k = 0 THEN s ELSE SubSeq(s, 1, k - 1)

CellOf(col, tok) ==
  IF col.alen > 0 THEN tok.e
  ELSE IF tok.k = "braced" THEN ScalarOfBraced(tok)
  ELSE tok.s

(* a '}' or '{' inside a comment of a typedef block (known finding D-C02-4 is identified by it) *)
BraceInTypedefComment(buf) ==
  FoldLeft(LAMBDA a, c : IF c = NL THEN [a EXCEPT !.cmt = FALSE]
                         ELSE IF a.cmt THEN [a EXCEPT !.hit = a.hit \/ c \in {"{", "}"}]
                         ELSE IF c = "#" THEN [a EXCEPT !.cmt = TRUE] ELSE a,
           [cmt |-> FALSE, hit |-> FALSE], buf).hit

(* a trailing comment (first '#' outside double quotes) whose body contains another '#' or an odd    *)
(* number of double quotes: pydl documents these as unsupported (known finding D-C02-3)              *)
HostileTrailingComment(line) ==
  LET r == FoldLeft(LAMBDA a, c : IF a.cmt THEN [a EXCEPT !.hash = a.hash \/ c = "#", !.odd = IF c = DQ THEN ~a.odd ELSE a.odd]
                                  ELSE IF c = DQ THEN [a EXCEPT !.inq = ~a.inq]
                                  ELSE IF c = "#" /\ ~a.inq THEN [a EXCEPT !.cmt = TRUE] ELSE a,
                    [cmt |-> FALSE, inq |-> FALSE, hash |-> FALSE, odd |-> FALSE], line)
  IN r.cmt /\ (r.hash \/ r.odd)

PRInit == [mode |-> "top", buf |-> <<>>, pairs |-> <<>>, enums |-> <<>>, structs |-> <<>>, rows |-> <<>>, notes |-> {}]
StructIndex(structs, name) == SelectInSeq(structs, LAMBDA s : s.name = name)

Missing == <<"<missing>">>      \* a row with fewer cells than columns (malformed; SpecParse stays total)

PRLine0(a, line) ==
  LET s == Strip(line) IN
  IF a.mode = "td" \/ (a.mode = "top" /\ IsTypedefStart(line)) THEN
     LET buf == IF a.mode = "td" THEN a.buf \o <<NL>> \o line ELSE line IN
     IF TypedefComplete(buf) THEN
        LET d == ParseTypedef(buf)
            nt == IF BraceInTypedefComment(buf) THEN a.notes \cup {"brace-in-typedef-comment"} ELSE a.notes IN
        IF d.kind = "enum"
        THEN [a EXCEPT !.mode = "top", !.buf = <<>>, !.notes = nt, !.enums = Append(a.enums, [name |-> d.name, labels |-> d.labels])]
        ELSE [a EXCEPT !.mode = "top", !.buf = <<>>, !.notes = nt, !.structs = Append(a.structs, [name |-> d.name, cols |-> d.cols])]
     ELSE [a EXCEPT !.mode = "td", !.buf = buf]
  ELSE IF s = <<>> \/ Head(s) = "#" THEN a
  ELSE
     LET toks == Tokens(s)
         key == toks[1].s
         ti == StructIndex(a.structs, UpStr(key))
     IN IF toks[1].k = "bare" /\ ti > 0 THEN
           LET cols == a.structs[ti].cols
               cells == [k \in 1..Len(cols) |-> IF k + 1 <= Len(toks) THEN CellOf(cols[k], toks[k + 1]) ELSE Missing]
           IN [a EXCEPT !.rows = Append(a.rows, [t |-> ti, cells |-> cells])]
        ELSE
           LET rest == SubSeq(s, Len(key) + 1, Len(s))
           IN [a EXCEPT !.pairs = Append(a.pairs, <<key, Strip(CutComment(rest))>>)]

PRLine(a, line) ==
  LET b == PRLine0(a, line)
      s == Strip(line)
  IN IF a.mode = "top" /\ ~IsTypedefStart(line) /\ s # <<>> /\ HostileTrailingComment(s) /\ Head(s) # "#"
     THEN [b EXCEPT !.notes = @ \cup {"hostile-trailing-comment"}] ELSE b

(* the width a char column reads back with: the declared one, or for char[] the longest value *)
CellLens(col, cell) == IF col.alen > 0 THEN {Len(cell[k]) : k \in 1..Len(cell)} ELSE {Len(cell)}
WidthOf(col, rowsOfTable, ci) ==
  IF col.clen = NotChar THEN NotChar
  ELSE IF col.clen # Auto THEN col.clen
  ELSE MaxOf(UNION {CellLens(col, rowsOfTable[r][ci]) : r \in 1..Len(rowsOfTable)})

Assemble(pairs, enums, structs, rows) ==
  [pairs |-> pairs,
   enums |-> enums,
   tables |-> [ti \in 1..Len(structs) |->
                 LET rs == SelectSeq(rows, LAMBDA r : r.t = ti)
                     cells == [k \in 1..Len(rs) |-> rs[k].cells]
                 IN [name |-> structs[ti].name,
                     cols |-> structs[ti].cols,
                     width |-> [ci \in 1..Len(structs[ti].cols) |-> WidthOf(structs[ti].cols[ci], cells, ci)],
                     rows |-> cells]]]

SpecParse(text) ==
  LET a == FoldLeft(PRLine, PRInit, LogicalLines(text))
  IN Assemble(a.pairs, a.enums, a.structs, a.rows)

ParseNotes(text) == FoldLeft(PRLine, PRInit, LogicalLines(text)).notes

(***************************************************************************)
(* Documents.                                                              *)
(*   doc = [pairs: Seq(<<key, val>>), enums: Seq([name, labels]),          *)
(*          structs: Seq([name, cols]), rows: Seq([t, cells])]             *)
(* Struct names in a document are written as the user supplied them; they  *)
(* read back upper-cased.                                                  *)
(***************************************************************************)
Canon(doc) ==
  Assemble(doc.pairs, doc.enums,
           [k \in 1..Len(doc.structs) |-> [name |-> UpStr(doc.structs[k].name), cols |-> doc.structs[k].cols]],
           doc.rows)

(***************************************************************************)
(* The object's convenience accessors, stated on a parse result (beyond    *)
(* the listed properties; exercised by the C01/C02 replays):               *)
(*   row(table, i)        - the cells of row i in column order, <<>> when  *)
(*                          i is out of range                              *)
(*   list_of_dicts(table) - one column-name -> cell map per row            *)
(*   new_dict_from_pairs  - keys in first-occurrence order, last value wins*)
(***************************************************************************)
RowOf(res, ti, ri) == IF ri \in 1..Len(res.tables[ti].rows) THEN res.tables[ti].rows[ri] ELSE <<>>
ListOfDicts(res, ti) ==
  [ri \in 1..Len(res.tables[ti].rows) |->
     [ci \in 1..Len(res.tables[ti].cols) |-> <<res.tables[ti].cols[ci].name, res.tables[ti].rows[ri][ci]>>]]
PairKeys(res) == LET ks == [k \in 1..Len(res.pairs) |-> res.pairs[k][1]]
                 IN SelectSeq([k \in 1..Len(ks) |-> <<k, ks[k]>>], LAMBDA e : \A j \in 1..(e[1] - 1) : ks[j] # e[2])
PairDict(res) == [k \in 1..Len(PairKeys(res)) |->
                    LET key == PairKeys(res)[k][2]
                        last == CHOOSE j \in 1..Len(res.pairs) : res.pairs[j][1] = key /\ \A i \in (j + 1)..Len(res.pairs) : res.pairs[i][1] # key
                    IN <<key, res.pairs[last][2]>>]

(* which strings are inside the guarantee (C01's exclusion list) *)
NoDQ(s) == \A k \in 1..Len(s) : s[k] # DQ
ScalarStringOK(s) == NoDQ(s) /\ (IF s = <<>> THEN TRUE ELSE Head(s) # "{") /\ \A k \in 1..Len(s) : s[k] \notin {NL, CR}
ElementStringOK(s) == ScalarStringOK(s) /\ \A k \in 1..Len(s) : s[k] # "}"
HeaderValueOK(v) == v # <<>> /\ NoDQ(v) /\ \A k \in 1..Len(v) : v[k] \notin {"#", NL, CR}
                    /\ Head(v) \notin WS /\ Last(v) \notin WS /\ Last(v) # BS

(***************************************************************************)
(* The canonical writer: header line, pairs, enum typedefs, struct         *)
(* typedefs, one line per row; a cell is quoted iff it is empty or         *)
(* contains a blank, a tab or '#'.                                         *)
(***************************************************************************)
NeedsQuote(s) == s = <<>> \/ \E k \in 1..Len(s) : s[k] \in {SP, TAB, "#", NL, CR}
Protect(s) == IF NeedsQuote(s) THEN <<DQ>> \o s \o <<DQ>> ELSE s
S(x) == x     \* placeholder to keep literal sequences readable

DimText(n, open, close) == <<open>> \o (IF n = Auto THEN <<>> ELSE NatStr(n)) \o <<close>>
ColDecl(c, open, close) ==
  c.base \o <<SP>> \o c.name
    \o (IF c.alen > 0 THEN DimText(c.alen, open, close) ELSE <<>>)
    \o (IF c.clen # NotChar THEN DimText(c.clen, open, close) ELSE <<>>)
    \o <<";">>
Indent == <<SP, SP, SP, SP>>
StructText(s) ==
  KwTypedef \o <<SP>> \o KwStruct \o <<SP, "{", NL>>
   \o Concat([k \in 1..Len(s.cols) |-> Indent \o ColDecl(s.cols[k], "[", "]") \o <<NL>>])
   \o <<"}", SP>> \o UpStr(s.name) \o <<";">>
EnumText(e) ==
  KwTypedef \o <<SP>> \o KwEnum \o <<SP, "{", NL>>
   \o JoinAll([k \in 1..Len(e.labels) |-> Indent \o e.labels[k]], <<",", NL>>) \o <<NL>>
   \o <<"}", SP>> \o UpStr(e.name) \o <<";">>
CellText(col, cell) ==
  IF col.alen > 0 THEN <<"{">> \o JoinAll([k \in 1..Len(cell) |-> Protect(cell[k])], <<SP>>) \o <<"}">>
  ELSE Protect(cell)
RowText(structs, r) ==
  UpStr(structs[r.t].name) \o
    Concat([k \in 1..Len(r.cells) |-> <<SP>> \o CellText(structs[r.t].cols[k], r.cells[k])])
Magic == <<"#","%","y","a","n","n","y">>

WriteDoc(doc) ==
  Magic \o <<NL, "#", NL>>
   \o Concat([k \in 1..Len(doc.pairs) |-> doc.pairs[k][1] \o <<SP>> \o doc.pairs[k][2] \o <<NL>>])
   \o (IF doc.enums = <<>> THEN <<>> ELSE <<NL>> \o JoinAll([k \in 1..Len(doc.enums) |-> EnumText(doc.enums[k])], <<NL, NL>>) \o <<NL>>)
   \o (IF doc.structs = <<>> THEN <<>> ELSE <<NL>> \o JoinAll([k \in 1..Len(doc.structs) |-> StructText(doc.structs[k])], <<NL, NL>>) \o <<NL>>)
   \o <<NL>>
   \o Concat([k \in 1..Len(doc.rows) |-> RowText(doc.structs, doc.rows[k]) \o <<NL>>])

(* The writer groups rows by table (all rows of the first struct, then the second, ...) *)
GroupedRows(doc) == Concat([ti \in 1..Len(doc.structs) |-> SelectSeq(doc.rows, LAMBDA r : r.t = ti)])

(***************************************************************************)
(* Admissible surface forms (C02).  A style is a record of choices; the    *)
(* Render* operators build the text of one item in that style.             *)
(***************************************************************************)
(* cell styles: "bare" (only if it needs no quoting), "quoted", "braced" (scalar char cells   *)
(* without '}' '#' or '"'; the empty string as {} or { { } })                                  *)
CellStyles(col, cell) ==
  IF col.alen > 0 \/ col.clen = NotChar THEN {"plain"}
  ELSE (IF NeedsQuote(cell) THEN {} ELSE {"bare"}) \cup {"quoted"}
       \cup (IF \A k \in 1..Len(cell) : cell[k] \notin {"}", "#", DQ} /\ (cell = <<>> \/ (Head(cell) \notin WS /\ Last(cell) \notin WS))
             THEN (IF cell = <<>> THEN {"braced", "dbraced"} ELSE {"braced"}) ELSE {})
ElemStyles(e) == (IF NeedsQuote(e) THEN {} ELSE {"bare"}) \cup {"quoted"}

RenderElem(e, st) == IF st = "bare" THEN e ELSE <<DQ>> \o e \o <<DQ>>
RenderCell(col, cell, st, est, pad) ==
  IF col.alen > 0 THEN <<"{">> \o pad \o JoinAll([k \in 1..Len(cell) |-> RenderElem(cell[k], IF col.clen = NotChar THEN "bare" ELSE est[k])], <<SP>>) \o pad \o <<"}">>
  ELSE CASE st = "plain" -> cell
         [] st = "bare" -> cell
         [] st = "quoted" -> <<DQ>> \o cell \o <<DQ>>
         [] st = "braced" -> <<"{">> \o cell \o <<"}">>
         [] st = "dbraced" -> <<"{", SP, "{", SP, "}", SP, "}">>

NameCase(name, nc) == IF nc = "upper" THEN UpStr(name) ELSE IF nc = "lower" THEN LoStr(name) ELSE name

(* row: lead NAME sep cell sep cell ... trail eol *)
RenderRow(structs, r, sty) ==
  sty.lead \o NameCase(structs[r.t].name, sty.nc)
    \o Concat([k \in 1..Len(r.cells) |->
                 sty.sep \o RenderCell(structs[r.t].cols[k], r.cells[k], sty.cs[k], sty.es[k], sty.pad)])
    \o sty.trail \o sty.eol
RenderPair(p, sty) == sty.lead \o p[1] \o sty.sep \o p[2] \o sty.trail \o sty.eol
RenderComment(body, sty) == sty.lead \o <<"#">> \o body \o sty.eol
RenderBlank(sty) == sty.lead \o sty.eol

(* struct typedef: multi-line or one-line, [n] or <n>, optional trailing comments on members *)
RenderStruct(s, sty) ==
  LET open == IF sty.angle THEN "<" ELSE "["
      close == IF sty.angle THEN ">" ELSE "]"
      mem(k) == ColDecl(s.cols[k], open, close)
  IN IF sty.oneline
     THEN sty.lead \o KwTypedef \o <<SP>> \o KwStruct \o <<SP, "{", SP>>
            \o Concat([k \in 1..Len(s.cols) |-> mem(k) \o <<SP>>]) \o <<"}", SP>> \o s.name \o <<";">> \o sty.trail \o sty.eol
     ELSE sty.lead \o KwTypedef \o sty.sep \o KwStruct \o sty.sep \o <<"{">> \o sty.eol
            \o Concat([k \in 1..Len(s.cols) |-> sty.mlead \o mem(k) \o sty.mtrail \o sty.eol])
            \o <<"}">> \o sty.sep \o s.name \o <<";">> \o sty.trail \o sty.eol
RenderEnum(e, sty) ==
  IF sty.oneline
  THEN sty.lead \o KwTypedef \o <<SP>> \o KwEnum \o <<SP, "{", SP>> \o JoinAll(e.labels, <<",", SP>>) \o <<SP, "}", SP>> \o e.name \o <<";">> \o sty.trail \o sty.eol
  ELSE sty.lead \o KwTypedef \o sty.sep \o KwEnum \o sty.sep \o <<"{">> \o sty.eol
         \o JoinAll([k \in 1..Len(e.labels) |-> sty.mlead \o e.labels[k]], <<",">> \o sty.eol) \o sty.eol
         \o <<"}">> \o sty.sep \o e.name \o <<";">> \o sty.trail \o sty.eol

(***************************************************************************)
(* Named deviations (what pydl did before the fix: commits, see            *)
(* known_findings.json).  They are documentation of the findings; strict   *)
(* runs never use them.                                                    *)
(***************************************************************************)
(* D-C01-1: "{{}}" anywhere in a data line was replaced by two double quotes *)
Dev_DoubleBraceAnywhere(s) ==
  \E k \in 1..(Len(s) - 3) : SubSeq(s, k, k + 3) = <<"{", "{", "}", "}">>
(* D-C02-2: struct looked up by substring, so names containing one another could not be read *)
Dev_NameIsSubstring(a, b) == \E k \in 1..(Len(b) - Len(a) + 1) : SubSeq(b, k, k + Len(a) - 1) = a
=============================================================================
