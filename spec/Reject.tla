------------------------------ MODULE Reject ------------------------------
(***************************************************************************)
(* C17 - rejection, mask interpolation, aesthetics, reflecting running     *)
(* median and sky masking act on exactly the intended pixels.              *)
(*                                                                         *)
(* Everything is stated over exact domains: index sets, integers and the   *)
(* rationals of module Rat (<<num, den>>).  Nothing here is derived from   *)
(* pydl's code; the operators are the meaning given by the property        *)
(* statement and the documented IDL behaviour.                             *)
(*                                                                         *)
(* Optional arguments are sequences of length 0 (absent) or 1 (present).   *)
(* Masks are SETS of (1-based) positions.                                  *)
(***************************************************************************)
EXTENDS Integers, Sequences, FiniteSets, Rat

Idx(s) == 1..Len(s)
SeqRange(s) == {s[i] : i \in DOMAIN s}

(* the g nearest neighbours on each side of every member of S, clipped to 1..n *)
Dilate(S, g, n) == {i \in 1..n : \E j \in S : Abs(i - j) <= g}

(***************************************************************************)
(* 1. djs_reject                                                           *)
(*                                                                         *)
(* A call is a record                                                      *)
(*   [n, diff, mode, scale, lower, upper, maxdev, inmask, prev, sticky,    *)
(*    grow]                                                                *)
(* diff[i]  = data[i] - model[i]                       (Rat)               *)
(* mode     = "sigma":  scale[i] = the supplied sigma[i] >= 0              *)
(*            "weight": scale[i] = sqrt(invvar[i]) >= 0, the unit being    *)
(*                      1/scale[i]                     (Rat)               *)
(*            A residual exceeds the lower limit "in units of" u when      *)
(*            diff < -lower*u (IDL: diff LT -lower*sigma), the upper limit *)
(*            when diff > upper*u.  With u = sigma that is the test as it  *)
(*            stands, also for sigma = 0 (an exactly known point: every    *)
(*            non-zero residual of that sign exceeds the limit, a zero     *)
(*            residual does not); with u = 1/sqrt(invvar) it is            *)
(*            diff*sqrt(invvar) < -lower, also for invvar = 0 (a point of  *)
(*            zero weight: never beyond lower/upper).                      *)
(* lower, upper, maxdev : <<>> or <<limit>>            (Rat, >= 0)         *)
(* inmask   = the GOOD points of the input mask                            *)
(* prev     = the GOOD points of the previous output mask (all points if   *)
(*            the caller supplies none)                                    *)
(***************************************************************************)
RejPts(c) == 1..c.n
Below(c, i, lim) == IF c.mode = "sigma" THEN Lt(c.diff[i], Neg(Mul(lim, c.scale[i])))
                    ELSE Lt(Mul(c.diff[i], c.scale[i]), Neg(lim))
Above(c, i, lim) == IF c.mode = "sigma" THEN Lt(Mul(lim, c.scale[i]), c.diff[i])
                    ELSE Lt(lim, Mul(c.diff[i], c.scale[i]))

BeyondLower(c) == IF c.lower = <<>> THEN {} ELSE {i \in RejPts(c) : Below(c, i, c.lower[1])}
BeyondUpper(c) == IF c.upper = <<>> THEN {} ELSE {i \in RejPts(c) : Above(c, i, c.upper[1])}
BeyondDev(c)   == IF c.maxdev = <<>> THEN {}
                  ELSE {i \in RejPts(c) : Lt(c.maxdev[1], RAbs(c.diff[i]))}
ResidualBad(c) == BeyondLower(c) \cup BeyondUpper(c) \cup BeyondDev(c)

(* points that may be judged at all: not excluded by the input mask, nor (sticky) by the   *)
(* previous output mask                                                                     *)
Eligible(c) == c.inmask \cap (IF c.sticky THEN c.prev ELSE RejPts(c))
Excluded(c) == RejPts(c) \ Eligible(c)

(* The statement says "plus the requested number of neighbours on each side of every       *)
(* rejected point".  IDL grows the points rejected by the residual tests of this call      *)
(* (reading B, the smaller set); growing every rejected point, including those merely      *)
(* excluded by the masks, is reading A (the larger set).  The statement does not choose,   *)
(* so a result is correct iff it lies between the two.  With grow = 0, and whenever no     *)
(* point is excluded, the two coincide.                                                    *)
RejectedMin(c) == Excluded(c) \cup Dilate(ResidualBad(c) \cap Eligible(c), c.grow, c.n)
RejectedMax(c) == Dilate(Excluded(c) \cup ResidualBad(c), c.grow, c.n)
GoodMin(c) == RejPts(c) \ RejectedMax(c)
GoodMax(c) == RejPts(c) \ RejectedMin(c)
Determined(c) == GoodMin(c) = GoodMax(c)

(* the verdict on an observed (output mask = set of good points, completion flag) *)
RejectMaskOK(c, out) == GoodMin(c) \subseteq out /\ out \subseteq GoodMax(c)
RejectDoneOK(c, out, qdone) == qdone = (out = c.prev)
RejectOK(c, out, qdone) == RejectMaskOK(c, out) /\ RejectDoneOK(c, out, qdone)

(* named deviation D-C17-1 (the code today): grow has no effect / the call raises *)
Dev_GrowIgnored(c) == RejPts(c) \ (Excluded(c) \cup ResidualBad(c))

(* what a replay compares with: the two extreme accepted masks, the completion flag that goes   *)
(* with each, and the mask of the named deviation                                                *)
ExpectedReject(c) == [gmin |-> GoodMin(c), gmax |-> GoodMax(c), done |-> (GoodMax(c) = c.prev),
                      donemin |-> (GoodMin(c) = c.prev), dev |-> Dev_GrowIgnored(c)]

(* laws *)
RejBoundsNested(c) == RejectedMin(c) \subseteq RejectedMax(c)
RejGrowZeroExact(c) == c.grow = 0 => /\ Determined(c)
                                     /\ RejectedMin(c) = Excluded(c) \cup ResidualBad(c)
RejNoExclusionDetermined(c) == Excluded(c) = {} => Determined(c)
RejWithinMasks(c) == /\ GoodMax(c) \subseteq c.inmask
                     /\ c.sticky => GoodMax(c) \subseteq c.prev
RejGrowMonotone(c) == LET d == [c EXCEPT !.grow = c.grow + 1]
                      IN RejectedMin(c) \subseteq RejectedMin(d) /\ RejectedMax(c) \subseteq RejectedMax(d)
RejGrowWidth(c) == \A i \in RejectedMin(c) \ Excluded(c) :
                      \E j \in ResidualBad(c) \cap Eligible(c) : Abs(i - j) <= c.grow
(* feeding the (reading B) output back as the previous mask reports completion with the same mask *)
RejSecondPassDone(c) == LET d == [c EXCEPT !.prev = GoodMax(c)]
                        IN GoodMax(d) = GoodMax(c) /\ ExpectedReject(d).done
RejLimitsAbsentNoResidual(c) == (c.lower = <<>> /\ c.upper = <<>> /\ c.maxdev = <<>>) => ResidualBad(c) = {}
RejZeroWeightOnlyDev(c) == c.mode = "weight" =>
   \A i \in RejPts(c) : c.scale[i] = Zero => (i \in ResidualBad(c) <=> i \in BeyondDev(c))
(* sigma = 0: beyond lower iff the residual is negative, beyond upper iff it is positive *)
RejZeroSigmaSign(c) == c.mode = "sigma" =>
   \A i \in RejPts(c) : c.scale[i] = Zero =>
       /\ (i \in BeyondLower(c) <=> (c.lower # <<>> /\ Lt(c.diff[i], Zero)))
       /\ (i \in BeyondUpper(c) <=> (c.upper # <<>> /\ Lt(Zero, c.diff[i])))
(* sigma and 1/sqrt(invvar) are the same unit: with every scale positive the two modes agree *)
RejModesAgree(c) == (\A i \in RejPts(c) : Lt(Zero, c.scale[i])) =>
   LET d == [c EXCEPT !.mode = IF c.mode = "sigma" THEN "weight" ELSE "sigma",
                      !.scale = [i \in RejPts(c) |-> Inv(c.scale[i])]]
   IN BeyondLower(d) = BeyondLower(c) /\ BeyondUpper(d) = BeyondUpper(c)

(***************************************************************************)
(* 2. djs_maskinterp                                                       *)
(*                                                                         *)
(* y : sequence of Rat; bad : set of masked positions; x : <<>> (use the   *)
(* index) or a sequence of pairwise distinct Rat, in any order.            *)
(* Masked samples, and only those, become the linear interpolation between *)
(* the nearest unmasked neighbours (in x); beyond the outermost unmasked   *)
(* sample the end value is held; with no unmasked sample nothing changes.  *)
(***************************************************************************)
PosOf(x, n) == IF x = <<>> THEN [i \in 1..n |-> OfInt(i)] ELSE x
XDistinct(x) == \A i, j \in DOMAIN x : i # j => ~Eq(x[i], x[j])

MaskInterp1(y, bad, x) ==
  LET n == Len(y)
      pos == PosOf(x, n)
      good == (1..n) \ bad
      LeftOf(i) == {j \in good : Lt(pos[j], pos[i])}
      RightOf(i) == {j \in good : Lt(pos[i], pos[j])}
      MaxPos(S) == CHOOSE j \in S : \A k \in S : Le(pos[k], pos[j])
      MinPos(S) == CHOOSE j \in S : \A k \in S : Le(pos[j], pos[k])
      Val(i) == IF i \notin bad \/ good = {} THEN y[i]
                ELSE IF LeftOf(i) = {} THEN y[MinPos(RightOf(i))]
                ELSE IF RightOf(i) = {} THEN y[MaxPos(LeftOf(i))]
                ELSE LET l == MaxPos(LeftOf(i))
                         r == MinPos(RightOf(i))
                     IN Add(y[l], Mul(Sub(y[r], y[l]),
                                      Div(Sub(pos[i], pos[l]), Sub(pos[r], pos[l]))))
  IN [i \in 1..n |-> Val(i)]

(* N-d arrays: shape <<d1,...,dk>>, values in C order (last index fastest), flat positions   *)
(* 1..Prod(shape).  `axis` counts from the FASTEST varying dimension, as IDL does and as     *)
(* the in-repo caller filter_thru relies on: axis k is numpy axis ndim-1-k.                  *)
RECURSIVE Prod(_)
Prod(s) == IF s = <<>> THEN 1 ELSE s[1] * Prod(Tail(s))
StrideOf(shape, a) == Prod(SubSeq(shape, a + 1, Len(shape)))          \* a = 1-based numpy axis
CoordOf(shape, p, a) == ((p - 1) \div StrideOf(shape, a)) % shape[a]  \* 0-based coordinate
LineThrough(shape, p, a) ==
  [t \in 1..shape[a] |-> p + (t - 1 - CoordOf(shape, p, a)) * StrideOf(shape, a)]
NumpyAxis(shape, k) == Len(shape) - k

MaskInterpND(shape, y, bad, x, k) ==
  LET a == NumpyAxis(shape, k)
  IN [p \in 1..Prod(shape) |->
        LET line == LineThrough(shape, p, a)
            yl == [t \in DOMAIN line |-> y[line[t]]]
            bl == {t \in DOMAIN line : line[t] \in bad}
            xl == IF x = <<>> THEN <<>> ELSE [t \in DOMAIN line |-> x[line[t]]]
        IN MaskInterp1(yl, bl, xl)[CoordOf(shape, p, a) + 1]]

(* laws *)
RMin(S) == CHOOSE v \in S : \A u \in S : Le(v, u)
RMax(S) == CHOOSE v \in S : \A u \in S : Le(u, v)
RevSeq(s) == [i \in 1..Len(s) |-> s[Len(s) + 1 - i]]

MIOnlyMaskedChange(y, bad, x) == \A i \in Idx(y) \ bad : MaskInterp1(y, bad, x)[i] = y[i]
MINoGoodOrNoBadUnchanged(y, bad, x) == (bad = {} \/ bad = Idx(y)) => MaskInterp1(y, bad, x) = y
MIOneGoodConstant(y, bad, x) ==
  Cardinality(Idx(y) \ bad) = 1 =>
     LET g == CHOOSE j \in Idx(y) \ bad : TRUE IN \A i \in Idx(y) : MaskInterp1(y, bad, x)[i] = y[g]
MIWithinGoodRange(y, bad, x) ==
  Idx(y) \ bad # {} =>
     LET gv == {y[j] : j \in Idx(y) \ bad}
     IN \A i \in bad : Le(RMin(gv), MaskInterp1(y, bad, x)[i]) /\ Le(MaskInterp1(y, bad, x)[i], RMax(gv))
MIIndexIsIdentityX(y, bad) == MaskInterp1(y, bad, <<>>) = MaskInterp1(y, bad, [i \in Idx(y) |-> OfInt(i)])
MIAffineXInvariant(y, bad, x) ==
  x # <<>> => MaskInterp1(y, bad, [i \in Idx(y) |-> Add(Mul(OfInt(2), x[i]), OfInt(3))]) = MaskInterp1(y, bad, x)
MIReversal(y, bad, x) ==
  LET n == Len(y)
      rb == {n + 1 - i : i \in bad}
      rx == IF x = <<>> THEN <<>> ELSE RevSeq(x)
  IN MaskInterp1(RevSeq(y), rb, rx) = RevSeq(MaskInterp1(y, bad, x))
MIIdempotent(y, bad, x) == MaskInterp1(MaskInterp1(y, bad, x), bad, x) = MaskInterp1(y, bad, x)

NDOnlyMaskedChange(shape, y, bad, x, k) ==
  \A p \in 1..Prod(shape) : p \notin bad => MaskInterpND(shape, y, bad, x, k)[p] = y[p]
NDOneDimIsMaskInterp1(shape, y, bad, x, k) ==
  Len(shape) = 1 => MaskInterpND(shape, y, bad, x, 0) = MaskInterp1(y, bad, x)
(* 2-D: interpolating the transposed array along the other axis gives the transposed result *)
TransposePos(shape, p) == LET r == (p - 1) \div shape[2]
                              q == (p - 1) % shape[2]
                          IN q * shape[1] + r + 1           \* position of (r,q) in the transposed array
NDTranspose2(shape, y, bad, x, k) ==
  Len(shape) = 2 =>
    LET ts == <<shape[2], shape[1]>>
        n == Prod(shape)
        inv == [p \in 1..n |-> CHOOSE q \in 1..n : TransposePos(shape, q) = p]
        ty == [p \in 1..n |-> y[inv[p]]]
        tb == {TransposePos(shape, p) : p \in bad}
        tx == IF x = <<>> THEN <<>> ELSE [p \in 1..n |-> x[inv[p]]]
        res == MaskInterpND(shape, y, bad, x, k)
        tres == MaskInterpND(ts, ty, tb, tx, 1 - k)
    IN \A p \in 1..n : tres[TransposePos(shape, p)] = res[p]

(***************************************************************************)
(* 3. aesthetics(flux, invvar, method)                                     *)
(* flux : sequence of Rat; ivar : sequence of integers (0 = masked).       *)
(* AesFree = positions whose new value the statement leaves open.          *)
(***************************************************************************)
AesMethods == {"traditional", "noconst", "mean", "nothing"}
AesBad(ivar) == {i \in Idx(ivar) : ivar[i] = 0}
RECURSIVE SumOver(_, _)
SumOver(S, f) == IF S = {} THEN Zero ELSE LET i == CHOOSE j \in S : TRUE IN Add(f[i], SumOver(S \ {i}, f))
MeanOver(S, f) == Div(SumOver(S, f), OfInt(Cardinality(S)))

Aesthetics(flux, ivar, method) ==
  LET bad == AesBad(ivar)
      good == Idx(flux) \ bad
  IN CASE method \in {"traditional", "noconst"} -> MaskInterp1(flux, bad, <<>>)
       [] method = "mean" -> [i \in Idx(flux) |-> IF i \in bad /\ good # {} THEN MeanOver(good, flux) ELSE flux[i]]
       [] method = "nothing" -> flux
AesFree(flux, ivar, method) ==
  IF method = "mean" /\ AesBad(ivar) = Idx(flux) THEN Idx(flux) ELSE {}

AesOK(flux, ivar, method, out) ==
  /\ Len(out) = Len(flux)
  /\ \A i \in Idx(flux) : i \notin AesFree(flux, ivar, method) => Eq(out[i], Aesthetics(flux, ivar, method)[i])

(* laws *)
AesChangesOnlyWhereIvarZero(flux, ivar, method) ==
  \A i \in Idx(flux) : ivar[i] # 0 => Aesthetics(flux, ivar, method)[i] = flux[i]
AesFreeOnlyWhereIvarZero(flux, ivar, method) == AesFree(flux, ivar, method) \subseteq AesBad(ivar)
AesNothingIsIdentity(flux, ivar) == Aesthetics(flux, ivar, "nothing") = flux
AesNoMaskIsIdentity(flux, ivar, method) == AesBad(ivar) = {} => Aesthetics(flux, ivar, method) = flux
AesMeanWithinGoodRange(flux, ivar) ==
  LET good == Idx(flux) \ AesBad(ivar)
  IN good # {} => \A i \in AesBad(ivar) :
        /\ Le(RMin({flux[j] : j \in good}), Aesthetics(flux, ivar, "mean")[i])
        /\ Le(Aesthetics(flux, ivar, "mean")[i], RMax({flux[j] : j \in good}))

(***************************************************************************)
(* 4. the reflecting running median: djs_median(a, width = w, boundary =   *)
(* "reflect") for odd w, (w-1)/2 < Len(a): the running median of the       *)
(* array extended by symmetric reflection (the edge sample is repeated:    *)
(* ... a2 a1 | a1 a2 ... an | an a(n-1) ...).  Values are integers.        *)
(***************************************************************************)
ReflIdx(k, n) == IF k < 1 THEN 1 - k ELSE IF k > n THEN 2 * n + 1 - k ELSE k
MedianOf(s) ==           \* s of odd length: the middle order statistic
  LET h == (Len(s) - 1) \div 2
  IN CHOOSE v \in SeqRange(s) : /\ Cardinality({j \in DOMAIN s : s[j] < v}) <= h
                                /\ Cardinality({j \in DOMAIN s : s[j] > v}) <= h
ReflectMedian(a, w) ==
  LET h == (w - 1) \div 2
      n == Len(a)
  IN [i \in 1..n |-> MedianOf([t \in 1..w |-> a[ReflIdx(i - h + t - 1, n)]])]
(* 2-D: A is a sequence of rows; w x w box on the array reflected in both directions *)
ReflectMedian2(A, w) ==
  LET h == (w - 1) \div 2
      nr == Len(A)
      nc == Len(A[1])
  IN [r \in 1..nr |-> [q \in 1..nc |->
        MedianOf([t \in 1..(w * w) |->
                    A[ReflIdx(r - h + ((t - 1) \div w), nr)][ReflIdx(q - h + ((t - 1) % w), nc)]])]]

(* laws *)
MedWidthOneIdentity(a) == ReflectMedian(a, 1) = a
MedValuesFromInput(a, w) == \A i \in Idx(a) : ReflectMedian(a, w)[i] \in SeqRange(a)
MedInteriorIsPlainMedian(a, w) ==
  LET h == (w - 1) \div 2
  IN \A i \in Idx(a) : (i - h >= 1 /\ i + h <= Len(a)) =>
        ReflectMedian(a, w)[i] = MedianOf(SubSeq(a, i - h, i + h))
MedReversal(a, w) == ReflectMedian(RevSeq(a), w) = RevSeq(ReflectMedian(a, w))
MedConstantFixed(a, w) == Cardinality(SeqRange(a)) = 1 => ReflectMedian(a, w) = a
Med2RowsOfEqualColumnsIs1D(A, w) ==      \* an image whose rows are all equal behaves like its row
  (\A r \in Idx(A) : A[r] = A[1]) => \A r \in Idx(A) : ReflectMedian2(A, w)[r] = ReflectMedian(A[1], w)

(***************************************************************************)
(* 5. skymask(invvar, andmask, ormask, ngrow)                              *)
(* ivar : sequence of rows of integers; flags[r][p] : the SET of bit       *)
(* positions set in ormask[r][p]; tbl : the loaded SPPIXMASK table         *)
(* [BADSKYCHI |-> bit, REDMONSTER |-> bit].  Rows are separate spectra.    *)
(***************************************************************************)
SkyBits(tbl) == {tbl.BADSKYCHI, tbl.REDMONSTER}
SkyFlagged(flags, tbl, r) == {p \in Idx(flags[r]) : flags[r][p] \cap SkyBits(tbl) # {}}
SkyZeroed(flags, tbl, ngrow, r) == Dilate(SkyFlagged(flags, tbl, r), ngrow, Len(flags[r]))
SkyMask(ivar, flags, ngrow, tbl) ==
  [r \in Idx(ivar) |-> LET z == SkyZeroed(flags, tbl, ngrow, r)
                        IN [p \in Idx(ivar[r]) |-> IF p \in z THEN 0 ELSE ivar[r][p]]]

(* laws *)
SkyNoGrowExact(ivar, flags, tbl) == \A r \in Idx(ivar) : SkyZeroed(flags, tbl, 0, r) = SkyFlagged(flags, tbl, r)
SkyGrowMonotone(ivar, flags, ngrow, tbl) ==
  \A r \in Idx(ivar) : SkyZeroed(flags, tbl, ngrow, r) \subseteq SkyZeroed(flags, tbl, ngrow + 1, r)
SkyWidth(ivar, flags, ngrow, tbl) ==
  \A r \in Idx(ivar) : Cardinality(SkyZeroed(flags, tbl, ngrow, r)) <= (2 * ngrow + 1) * Cardinality(SkyFlagged(flags, tbl, r))
SkyOtherBitsIrrelevant(ivar, flags, ngrow, tbl) ==
  SkyMask(ivar, [r \in Idx(flags) |-> [p \in Idx(flags[r]) |-> flags[r][p] \cap SkyBits(tbl)]], ngrow, tbl)
     = SkyMask(ivar, flags, ngrow, tbl)
SkyRowsIndependent(ivar, flags, ngrow, tbl) ==
  \A r \in Idx(ivar) : SkyMask(<<ivar[r]>>, <<flags[r]>>, ngrow, tbl)[1] = SkyMask(ivar, flags, ngrow, tbl)[r]
SkyOnlyZeroes(ivar, flags, ngrow, tbl) ==
  \A r \in Idx(ivar) : \A p \in Idx(ivar[r]) :
     SkyMask(ivar, flags, ngrow, tbl)[r][p] \in {0, ivar[r][p]}

(***************************************************************************)
(* 6. The outcome depends on the VALUES (and logical shape) of the         *)
(* arguments only - not on memory layout (C / Fortran order, strides),     *)
(* writability or byte order of the arrays that carry them.  Stated over a *)
(* pair of observed calls of the same function on arguments holding the    *)
(* same values: the two abstracted outcomes are equal.  (Sections 1-5      *)
(* already say so implicitly: their operators take values only.)  The same *)
(* holds for the numeric TYPE that carries the values: float64, or any     *)
(* signed / unsigned integer type that holds them exactly (arrays), and    *)
(* Python numbers, numpy scalars or 0-d arrays (scalar arguments); masks   *)
(* are 0 / 1 in bool or any integer width.                                 *)
(*                                                                         *)
(* For djs_reject on rank >= 2 data the statement leaves the neighbourhood *)
(* that `grow` uses open; what every reading shares (flat positions in C   *)
(* order, shape as in section 2): growing rejects a superset of what       *)
(* grow = 0 rejects, and strictly more when some rejected point is         *)
(* interior (has neighbours on both sides along every axis) and has no     *)
(* other rejected point next to it, all other points being eligible.       *)
(***************************************************************************)
LayoutIndependent(a, b) == a = b
Interior(shape, p) == \A ax \in 1..Len(shape) : CoordOf(shape, p, ax) > 0 /\ CoordOf(shape, p, ax) < shape[ax] - 1
Adjacent(shape, p, q) == \A ax \in 1..Len(shape) : Abs(CoordOf(shape, p, ax) - CoordOf(shape, q, ax)) <= 1
StrictGrowthRequired(shape, g, rej0) ==
  g > 0 /\ \E p \in rej0 : Interior(shape, p) /\ \A q \in rej0 \ {p} : ~Adjacent(shape, p, q)
GrowSupersetOK(shape, g, rej0, rejg) ==
  /\ rej0 \subseteq rejg
  /\ g = 0 => rejg = rej0
  /\ StrictGrowthRequired(shape, g, rej0) => rejg # rej0
(* the 1-D specification of section 1 satisfies the shared law (checked by TLC on every case   *)
(* without excluded points)                                                                     *)
RejGrowSupersetLaw(c) ==
  Excluded(c) = {} =>
     /\ GrowSupersetOK(<<c.n>>, c.grow, RejectedMin([c EXCEPT !.grow = 0]), RejectedMin(c))
     /\ GrowSupersetOK(<<c.n>>, c.grow, RejectedMax([c EXCEPT !.grow = 0]), RejectedMax(c))
=============================================================================
