------------------------------ MODULE Templates ------------------------------
(***************************************************************************)
(* X09 - spectral template input: the parameter file, its validation and   *)
(* the orchestration (growth unit; no listed property covers them; C20     *)
(* decides only that RUN2D / RUN1D are put back by template_input).        *)
(*                                                                         *)
(* Sources: the docstrings of pydl.pydlspec2d.spec1d.template_metadata,    *)
(* template_input, template_qso, template_star, template_input_main, the   *)
(* commented example parameter file pydl ships with its tests              *)
(* (t/test_template_metadata.par: the only description of the file         *)
(* format), the texts of the messages and of the FITS header comments the  *)
(* functions produce, the help texts of the console script, and            *)
(* docs/templates.rst (the six algorithmic steps).  Behavioural statements *)
(* decided, each for every input of the domain named:                      *)
(*                                                                         *)
(* M1 template_metadata(inputfile) with a file that does not exist raises  *)
(*    Pydlspec2dException.                                                 *)
(* M2 The file must give the eleven keywords object, method, aesthetics,   *)
(*    run2d, run1d (text), wavemin, wavemax, snmax (numbers), niter,       *)
(*    nkeep, minuse (whole numbers) and, when method is hmf in any letter  *)
(*    case, nonnegative (0 or 1) and epsilon (a number).  A demanded       *)
(*    keyword that is absent makes the call raise KeyError, one whose      *)
(*    value is not a number of its kind ValueError, and the message names  *)
(*    the keyword.  When several keywords are wrong the one reported is    *)
(*    one of the wrong ones, with its own kind of exception (WHICH one is  *)
(*    not documented: the order the code uses, CheckOrder, is recorded and *)
(*    a different choice is only noted).  A number is written in the usual *)
(*    decimal / scientific notation (ReadDec), a whole number as an        *)
(*    optional sign and digits (ReadInt).  Left open: an integral value    *)
(*    in float notation ("2.0", "1e3") for a whole-number keyword, a flag  *)
(*    other than 0 / 1, spellings Python happens to accept (underscores,   *)
(*    inf, nan, blanks), empty text values.                                *)
(* M3 Method pca (any method but hmf) does not look at nonnegative and     *)
(*    epsilon: absent or malformed, they change nothing.                   *)
(* M4 An accepted file returns (slist, metadata): metadata maps each of    *)
(*    the eleven keywords to its value (text verbatim; the number          *)
(*    denoted, as float / int), for hmf also nonnegative (bool) and        *)
(*    epsilon (float), and orig_run2d / orig_run1d to the values RUN2D /   *)
(*    RUN1D had on entry, None when unset (an empty value is a value).     *)
(*    Other keys are not constrained.                                      *)
(* M5 After an accepted file RUN2D and RUN1D are the file's run2d / run1d  *)
(*    ("Used to set the RUN2D environment variable").  No other variable   *)
(*    changes, whatever happens.  After a refused file each of the two is  *)
(*    either as on entry or the file's value: the docstring does not say,  *)
(*    and it is template_input that promises to put them back (C20).       *)
(* M6 slist is the EIGENOBJ table of the file: the same columns, rows and  *)
(*    order.  A file without the table is refused (how is not documented). *)
(*                                                                         *)
(* T1 template_input(inputfile, dumpfile, flux, verbose) first reads the   *)
(*    parameter file (template_metadata(inputfile)); a refused file ends   *)
(*    the call with that refusal and nothing else is called or written.    *)
(* T2 When dumpfile exists the intermediate data (newflux, newivar,        *)
(*    newloglam) are taken from it: readspec, skymask, wavevector and      *)
(*    preprocess_spectra are NOT called and the file is left as it is.     *)
(* T3 Otherwise the spectra are read: one call readspec(plate, mjd=,       *)
(*    fiber=) with the three columns of slist, align=True exactly when     *)
(*    object is star (any letter case), made while RUN2D / RUN1D are the   *)
(*    file's values.  A plugmap FIBERID of 0 means the spectrum does not   *)
(*    exist: ValueError counting them, nothing further is called and no    *)
(*    dump file appears.                                                   *)
(* T4 Then skymask(invvar, andmask, ormask) of what readspec returned; the *)
(*    inverse variance it yields is clipped to S/N <= snmax: where         *)
(*    flux^2 * ivar > snmax^2 it becomes (snmax / flux)^2, elsewhere it is *)
(*    unchanged (ClipOne; exact rationals); for every object but star the  *)
(*    common grid wavevector(log10 wavemin, log10 wavemax, binsz = the     *)
(*    pixel spacing of the FIRST spectrum) (a binsz keyword of the file is *)
(*    mentioned only in a source comment: left open), for star the loglam  *)
(*    of the first spectrum; then preprocess_spectra(flux, clipped ivar,   *)
(*    loglam=, zfit=, newloglam=, aesthetics=, verbose=) with zfit the     *)
(*    zfit column of slist, else cz / c (c = 299792.458 km/s); what it     *)
(*    returns is written to dumpfile (keys newflux, newivar, newloglam).   *)
(* T5 The solver gets the intermediate data of T2 / T4: object qso ->      *)
(*    template_qso(metadata, newflux, newivar, verbose); star ->           *)
(*    template_star(metadata, newloglam, newflux, newivar, slist, outfile, *)
(*    verbose); else method pca -> pca_solve(newflux, newivar, niter=,     *)
(*    nkeep=, verbose=), hmf -> HMF(newflux, newivar, K=nkeep,             *)
(*    n_iter=niter, nonnegative=, epsilon=, verbose=).solve(); any other   *)
(*    method ("pca or hmf") -> ValueError, no solver runs and no output is *)
(*    written (WHEN it is refused, and the dump file, are left open).      *)
(* T6 outfile = spEigen<Object>-<MJD>: the object with a capital initial,  *)
(*    MJD = floor(JD - 2400000.5) of get_juldate() (called before the name *)
(*    is used; where exactly is free).  For object gal / qso / star (as    *)
(*    the example writes them) the eigenspectra the solver returned are    *)
(*    written to outfile.fits - for ANY number nkeep >= 1 of templates     *)
(*    ("nkeep 4  # Number of final templates") - (primary data; header     *)
(*    OBJECT = GALAXY / QSO                                                *)
(*    / STAR, RUN2D, RUN1D = the file's values, FILENAME = inputfile,      *)
(*    METHOD in capitals, NONNEG and EPSILON exactly for hmf; table of     *)
(*    plate, mjd, fiberid and zfit - cz for star - of slist), plot_eig of  *)
(*    that file for every object but star, every other file written is     *)
(*    named outfile.<something>, no two alike, and the call returns None.  *)
(*    flux=True plots every individual input spectrum, flux=False none.    *)
(*    For other spellings / kinds of object everything after the solver is *)
(*    left open (the code looks the object up verbatim there), likewise    *)
(*    for a table without the redshift column the output table is made of  *)
(*    and for a dump file holding another number of spectra than the table.*)
(* T7 template_input_main(): "[-h] [-d FILE] [-F] [-f FILE] [-v]" calls    *)
(*    template_input(inputfile, dump, flux, verbose) once and returns 0;   *)
(*    defaults ~/scratch/templates/compute_templates.par / .dump and       *)
(*    False; the last occurrence of an option counts; an unknown option, a *)
(*    positional argument or an option without its value ends with a       *)
(*    non-zero status and -h / --help with status 0, template_input not    *)
(*    called.  Left open: option abbreviations, -d=FILE, a bare "--",      *)
(*    letters glued behind a value option, and which wins when -h stands   *)
(*    on a command line that is also wrong.  A lone "-" is a word.         *)
(*                                                                         *)
(* Values: text as sequences of one-character strings, exact rationals     *)
(* (Rat), decimal numbers as [m, e] = m * 10^e (TLC integers are 32-bit).  *)
(***************************************************************************)
EXTENDS Integers, Sequences, FiniteSets, Rat

Tup(s) == s \o <<>>
RECURSIVE Str(_)                       \* a sequence of string pieces as one string
Str(s) == IF Len(s) = 0 THEN "" ELSE s[1] \o Str(Tail(s))

(* ================================ characters ================================ *)
Lc == <<"a", "b", "c", "d", "e", "f", "g", "h", "i", "j", "k", "l", "m", "n", "o", "p", "q", "r", "s", "t", "u", "v", "w", "x", "y", "z">>
Uc == <<"A", "B", "C", "D", "E", "F", "G", "H", "I", "J", "K", "L", "M", "N", "O", "P", "Q", "R", "S", "T", "U", "V", "W", "X", "Y", "Z">>
DigitChars == <<"0", "1", "2", "3", "4", "5", "6", "7", "8", "9">>
Pos(seq, ch) == IF \E k \in DOMAIN seq : seq[k] = ch THEN CHOOSE k \in DOMAIN seq : seq[k] = ch ELSE 0
LowerCh(ch) == IF Pos(Uc, ch) > 0 THEN Lc[Pos(Uc, ch)] ELSE ch
UpperCh(ch) == IF Pos(Lc, ch) > 0 THEN Uc[Pos(Lc, ch)] ELSE ch
IsLetter(ch) == Pos(Lc, ch) > 0 \/ Pos(Uc, ch) > 0
Lower(s) == Tup([k \in DOMAIN s |-> LowerCh(s[k])])
Upper(s) == Tup([k \in DOMAIN s |-> UpperCh(s[k])])
(* a word with a capital initial *)
Title(s) == Tup([k \in DOMAIN s |-> IF k = 1 THEN UpperCh(s[k]) ELSE LowerCh(s[k])])
IsWord(s) == s # <<>> /\ \A k \in DOMAIN s : IsLetter(s[k])
IsDigit(ch) == Pos(DigitChars, ch) > 0
DigitVal(ch) == Pos(DigitChars, ch) - 1
AllDigits(s) == \A k \in DOMAIN s : IsDigit(s[k])
RECURSIVE NumOf(_)
NumOf(s) == IF s = <<>> THEN 0 ELSE 10 * NumOf(SubSeq(s, 1, Len(s) - 1)) + DigitVal(s[Len(s)])
RECURSIVE DigitsOf(_)                  \* a natural number in decimal
DigitsOf(n) == IF n < 10 THEN <<DigitChars[n + 1]>> ELSE DigitsOf(n \div 10) \o <<DigitChars[(n % 10) + 1]>>
FirstPos(s, S) == IF \E k \in DOMAIN s : s[k] \in S
                  THEN CHOOSE k \in DOMAIN s : s[k] \in S /\ \A j \in 1 .. (k - 1) : s[j] \notin S ELSE 0

(* ============================ numbers as they are written ============================ *)
(* [st, m, e]: st = "val" (the text denotes m * 10^e), "bad" (not a number), "open" (not decided here) *)
NumberChars == {"0", "1", "2", "3", "4", "5", "6", "7", "8", "9", ".", "+", "-", "e", "E"}
(* characters of spellings Python's float() / int() happen to accept besides: underscores, blanks, inf / infinity / nan *)
OpenChars == {"_", " ", "i", "n", "f", "t", "y", "a", "I", "N", "F", "T", "Y", "A"}
Dec(st, m, e) == [st |-> st, m |-> m, e |-> e]
Signed(s) == s # <<>> /\ s[1] \in {"+", "-"}
Unsign(s) == IF Signed(s) THEN Tail(s) ELSE s
SignOf(s) == IF s # <<>> /\ s[1] = "-" THEN -1 ELSE 1
OtherStatus(s) == IF \A k \in DOMAIN s : s[k] \in NumberChars THEN "bad"
                  ELSE IF \A k \in DOMAIN s : s[k] \in NumberChars \cup OpenChars THEN "open" ELSE "bad"
(* [sign] digits *)
ReadInt(s) ==
  LET u == Unsign(s)
  IN IF u # <<>> /\ AllDigits(u) THEN (IF Len(u) <= 8 THEN Dec("val", SignOf(s) * NumOf(u), 0) ELSE Dec("open", 0, 0))
     ELSE Dec(OtherStatus(s), 0, 0)
(* [sign] (digits [. [digits]] | . digits) [(e | E) [sign] digits] *)
ReadDec(s) ==
  LET ex == FirstPos(s, {"e", "E"})
      mant == IF ex = 0 THEN s ELSE SubSeq(s, 1, ex - 1)
      expo == IF ex = 0 THEN <<>> ELSE SubSeq(s, ex + 1, Len(s))
      um == Unsign(mant)
      dot == FirstPos(um, {"."})
      ip == IF dot = 0 THEN um ELSE SubSeq(um, 1, dot - 1)
      fp == IF dot = 0 THEN <<>> ELSE SubSeq(um, dot + 1, Len(um))
      ue == Unsign(expo)
      inGrammar == /\ AllDigits(ip) /\ AllDigits(fp) /\ Len(ip) + Len(fp) >= 1
                   /\ (ex = 0 \/ (ue # <<>> /\ AllDigits(ue)))
  IN IF inGrammar
     THEN (IF Len(ip) + Len(fp) <= 8 /\ Len(ue) <= 2
           THEN Dec("val", SignOf(mant) * NumOf(ip \o fp), (IF ex = 0 THEN 0 ELSE SignOf(expo) * NumOf(ue)) - Len(fp))
           ELSE Dec("open", 0, 0))
     ELSE Dec(OtherStatus(s), 0, 0)
(* equality of values m * 10^e without leaving 32 bits *)
DecEq(a, b) ==
  IF a.m = 0 \/ b.m = 0 THEN a.m = b.m
  ELSE LET d == a.e - b.e
       IN IF d = 0 THEN a.m = b.m
          ELSE IF d > 0 /\ d <= 9 THEN b.m % (10 ^ d) = 0 /\ b.m \div (10 ^ d) = a.m
          ELSE IF d < 0 /\ d >= -9 THEN a.m % (10 ^ (-d)) = 0 /\ a.m \div (10 ^ (-d)) = b.m
          ELSE FALSE
DecIsIntegral(a) == a.m = 0 \/ a.e >= 0 \/ (a.e >= -9 /\ a.m % (10 ^ (-a.e)) = 0)
(* as an exact rational (small values only) *)
DecToRat(a) == IF a.e >= 0 THEN <<a.m * (10 ^ a.e), 1>> ELSE R(a.m, 10 ^ (-a.e))

(* ============================ M1-M6: the parameter file ============================ *)
TextKeys == {"object", "method", "aesthetics", "run2d", "run1d"}
FloatKeys == {"wavemin", "wavemax", "snmax"}
IntKeys == {"niter", "nkeep", "minuse"}
Required == TextKeys \cup FloatKeys \cup IntKeys
HmfKeys == {"nonnegative", "epsilon"}
AllKeys == Required \cup HmfKeys
KindOf(k) == IF k \in TextKeys THEN "text" ELSE IF k \in FloatKeys \/ k = "epsilon" THEN "float"
             ELSE IF k \in IntKeys THEN "int" ELSE "flag"
(* the order in which the code looks at the keywords (NOT documented; used for a note only) *)
CheckOrder == <<"object", "method", "aesthetics", "run2d", "run1d", "wavemin", "wavemax", "snmax",
                "niter", "nkeep", "minuse", "nonnegative", "epsilon">>
Hmf == <<"h", "m", "f">>
Pca == <<"p", "c", "a">>
Gal == <<"g", "a", "l">>
Qso == <<"q", "s", "o">>
Star == <<"s", "t", "a", "r">>

(* an optional text: a keyword of the file / an environment variable *)
Given(txt) == [there |-> TRUE, txt |-> txt]
NotGiven == [there |-> FALSE, txt |-> <<>>]
(* the abstract parameter file: f.pairs[k] for k in AllKeys, f.tbl the EIGENOBJ table                        *)
(*   tbl = [there, zcol ("zfit" | "cz" | "both"), cls (class / subclass columns), rows]                      *)
(*   row = [plate, mjd, fiberid, z (rational), cz (rational, km/s), cls, sub (strings)]                      *)
P(f, k) == f.pairs[k]

IntStatus(t) ==
  LET i == ReadInt(t)
      d == ReadDec(t)
  IN IF i.st = "val" THEN "val"
     ELSE IF d.st = "val" THEN (IF DecIsIntegral(d) THEN "open" ELSE "bad")
     ELSE IF d.st = "open" \/ i.st = "open" THEN "open" ELSE "bad"
FlagStatus(t) == IF ReadInt(t).st = "val" THEN (IF ReadInt(t).m \in {0, 1} THEN "val" ELSE "open") ELSE IntStatus(t)
Status(f, k) ==
  IF ~P(f, k).there THEN "missing"
  ELSE LET t == P(f, k).txt
       IN CASE KindOf(k) = "text" -> IF t = <<>> THEN "open" ELSE "val"
            [] KindOf(k) = "float" -> ReadDec(t).st
            [] KindOf(k) = "int" -> IntStatus(t)
            [] OTHER -> FlagStatus(t)
IsHmf(f) == P(f, "method").there /\ Lower(P(f, "method").txt) = Hmf
Demanded(f) == Required \cup (IF IsHmf(f) THEN HmfKeys ELSE {})
WrongKeys(f) == {k \in Demanded(f) : Status(f, k) \in {"missing", "bad"}}
OpenKeys(f) == {k \in Demanded(f) : Status(f, k) = "open"}
ExcOf(f, k) == IF Status(f, k) = "missing" THEN "KeyError" ELSE "ValueError"
Refusal(exc, key) == [exc |-> exc, key |-> key]
Refusals(f) == {Refusal(ExcOf(f, k), k) : k \in WrongKeys(f)} \cup {Refusal("ValueError", k) : k \in OpenKeys(f)}
                 \cup (IF f.tbl.there THEN {} ELSE {Refusal("any", "EIGENOBJ")})
FirstWrong(f) == LET W == {j \in DOMAIN CheckOrder : CheckOrder[j] \in WrongKeys(f)}
                 IN IF W = {} THEN "" ELSE CheckOrder[CHOOSE j \in W : \A jj \in W : j <= jj]

(* metadata values: t = "s" text, "f" float m * 10^e, "i" int m, "b" bool, "none" None, "open" not decided *)
MVal(t, s, m, e, b) == [t |-> t, s |-> s, m |-> m, e |-> e, b |-> b]
MetaVal(f, k) ==
  LET t == P(f, k).txt
  IN IF Status(f, k) # "val" THEN MVal("open", <<>>, 0, 0, FALSE)
     ELSE CASE KindOf(k) = "text" -> MVal("s", t, 0, 0, FALSE)
            [] KindOf(k) = "float" -> MVal("f", <<>>, ReadDec(t).m, ReadDec(t).e, FALSE)
            [] KindOf(k) = "int" -> MVal("i", <<>>, ReadInt(t).m, 0, FALSE)
            [] OTHER -> MVal("b", <<>>, 0, 0, ReadInt(t).m = 1)
OrigVal(v) == IF v.there THEN MVal("s", v.txt, 0, 0, FALSE) ELSE MVal("none", <<>>, 0, 0, FALSE)
EnvVars == {"RUN2D", "RUN1D"}
FileVar(f, x) == IF x = "RUN2D" THEN P(f, "run2d") ELSE P(f, "run1d")
MetaOf(f, env0) ==
  [k \in Demanded(f) \cup {"orig_run2d", "orig_run1d"} |->
     IF k = "orig_run2d" THEN OrigVal(env0["RUN2D"]) ELSE IF k = "orig_run1d" THEN OrigVal(env0["RUN1D"])
     ELSE MetaVal(f, k)]

(* M6: the columns of slist, in the order of the typedef *)
ColsOf(tbl) == <<"plate", "mjd", "fiberid">> \o (IF tbl.zcol \in {"zfit", "both"} THEN <<"zfit">> ELSE <<>>)
               \o (IF tbl.zcol \in {"cz", "both"} THEN <<"cz">> ELSE <<>>) \o (IF tbl.cls THEN <<"class", "subclass">> ELSE <<>>)

(* The specified outcome.  out: "notfound" (Pydlspec2dException), "refused" (raises one of `refusals`),        *)
(* "accepted" (returns meta, slist = the table, environment env), "open" (either accepted or one of refusals). *)
(* envs[x]: the values variable x may have afterwards.                                                          *)
MetaExpect(f, exists, env0) ==
  LET out == IF ~exists THEN "notfound"
             ELSE IF WrongKeys(f) # {} \/ ~f.tbl.there THEN "refused"
             ELSE IF OpenKeys(f) # {} THEN "open" ELSE "accepted"
      mayAccept == out \in {"accepted", "open"}
      mayRefuse == out \in {"refused", "open"}
  IN [ out |-> out,
       refusals |-> IF mayRefuse THEN Refusals(f) ELSE {},
       first |-> IF exists THEN FirstWrong(f) ELSE "",
       meta |-> IF mayAccept THEN MetaOf(f, env0) ELSE [k \in {} |-> 0],
       envs |-> [x \in EnvVars |->
                   (IF out = "accepted" THEN {} ELSE {env0[x]})
                   \cup (IF out # "notfound" /\ FileVar(f, x).there THEN {FileVar(f, x)} ELSE {})] ]

(* ---- laws ---- *)
WithoutHmfKeys(f) == [f EXCEPT !.pairs = [k \in AllKeys |-> IF k \in HmfKeys THEN NotGiven ELSE f.pairs[k]]]
L_PcaIgnoresHmfKeys(f, env0) ==                                   \* M3
  ~IsHmf(f) => MetaExpect(f, TRUE, env0) = MetaExpect(WithoutHmfKeys(f), TRUE, env0)
L_RefusalNamesAWrongKey(f) ==                                     \* M2
  \A r \in Refusals(f) : r.key = "EIGENOBJ" \/ (r.key \in Demanded(f) /\ Status(f, r.key) # "val")
L_AcceptedIffAllRight(f, env0) ==
  (MetaExpect(f, TRUE, env0).out = "accepted") <=> (f.tbl.there /\ \A k \in Demanded(f) : Status(f, k) = "val")
L_AcceptedEnv(f, env0) ==                                         \* M4, M5
  LET x == MetaExpect(f, TRUE, env0)
  IN x.out = "accepted" =>
       /\ x.envs["RUN2D"] = {P(f, "run2d")} /\ x.envs["RUN1D"] = {P(f, "run1d")}
       /\ x.meta["orig_run2d"] = OrigVal(env0["RUN2D"]) /\ x.meta["orig_run1d"] = OrigVal(env0["RUN1D"])
       /\ Required \subseteq DOMAIN x.meta
(* notation laws of numbers: a plus sign, a leading zero, an exponent of zero do not change the value; a whole  *)
(* number read as a number is the same number                                                                   *)
L_NumberNotation(s) ==
  LET d == ReadDec(s)
  IN d.st = "val" =>
       /\ (~Signed(s) => LET p == ReadDec(<<"+">> \o s) IN p.st = "val" /\ DecEq(p, d))
       /\ (~Signed(s) => LET n == ReadDec(<<"-">> \o s) IN n.st = "val" /\ n.m = -d.m /\ n.e = d.e)
       /\ (~Signed(s) /\ IsDigit(s[1]) /\ Len(s) < 8 => LET z == ReadDec(<<"0">> \o s) IN z.st = "val" /\ DecEq(z, d))
       /\ (FirstPos(s, {"e", "E"}) = 0 => LET z == ReadDec(s \o <<"e", "0">>) IN z.st = "val" /\ DecEq(z, d))
       /\ (ReadInt(s).st = "val" => DecEq(ReadInt(s), d))
L_IntIsNumber(s) == ReadInt(s).st = "val" => ReadDec(s).st = "val" /\ DecIsIntegral(ReadDec(s))

(* ============================ T4: the S/N clipping ============================ *)
Sq(a) == Mul(a, a)
(* flux f, inverse variance v, limit s *)
ClipOne(f, v, s) == IF Lt(Sq(s), Mul(Sq(f), v)) THEN Sq(Div(s, f)) ELSE v
ClipGrid(F, V, s) == Tup([i \in DOMAIN F |-> Tup([j \in DOMAIN F[i] |-> ClipOne(F[i][j], V[i][j], s)])])
L_ClipBounded(f, v, s) == Le(Mul(Sq(f), ClipOne(f, v, s)), Sq(s)) \/ ~Le(Zero, v)         \* S/N <= snmax afterwards
L_ClipNeverRaises(f, v, s) == Le(ClipOne(f, v, s), v) \/ ~Le(Zero, v)
L_ClipOnlyAbove(f, v, s) == Le(Mul(Sq(f), v), Sq(s)) => ClipOne(f, v, s) = v              \* "nowhere else"
L_ClipIdempotent(f, v, s) == ClipOne(f, ClipOne(f, v, s), s) = ClipOne(f, v, s)
L_ClipSignFree(f, v, s) == ClipOne(Neg(f), v, s) = ClipOne(f, v, s)

(* ============================ T1-T6: template_input ============================ *)
(* A scenario:                                                                                                *)
(*   file (abstract parameter file), env0, dump (dumpfile exists), ndump (spectra in it), flux, verbose,       *)
(*   fib (plugmap FIBERID per requested spectrum; 0 = not found), F (flux), V (inverse variance as skymask     *)
(*   returns it), dl (pixel spacing of each spectrum's loglam), jd (what get_juldate returns, rational),       *)
(*   um (the solver's result carries a usemask, all of it good)                                                *)
(* Arrays the collaborators exchange are named by provenance: <<"rs", x>> entry x of what readspec returned,   *)
(* <<"sm", "out">> skymask's result, <<"wv", "out">> wavevector's, <<"pp", x>> preprocess_spectra's results,   *)
(* <<"dump", x>> the contents of an existing dump file, <<"sol", "flux">> the solver's eigenspectra.           *)
Call(name, a) == [name |-> name, a |-> a]
ObjTxt(f) == P(f, "object").txt
ObjKind(f) == Lower(ObjTxt(f))
MethodKind(f) == Lower(P(f, "method").txt)
IsStar(f) == ObjKind(f) = Star
IsQso(f) == ObjKind(f) = Qso
DocumentedObject(f) == ObjTxt(f) \in {Gal, Qso, Star}            \* as the example file writes them
KnownMethod(f) == MethodKind(f) \in {Pca, Hmf}
Col(rows, name) == Tup([i \in DOMAIN rows |-> rows[i][name]])
ZFit(tbl) == IF tbl.zcol \in {"zfit", "both"} THEN Col(tbl.rows, "z")
             ELSE Tup([i \in DOMAIN tbl.rows |-> Div(tbl.rows[i].cz, <<299792458, 1000>>)])
MetaDec(f, k) == [m |-> ReadDec(P(f, k).txt).m, e |-> ReadDec(P(f, k).txt).e]
MetaInt(f, k) == ReadInt(P(f, k).txt).m
Snmax(f) == DecToRat(ReadDec(P(f, "snmax").txt))
Mjd(jd) == Floor(Sub(jd, <<4800001, 2>>))
OutFile(f, jd) == "spEigen" \o Str(Title(ObjTxt(f))) \o "-" \o Str(DigitsOf(Mjd(jd)))
NMissing(fib) == Cardinality({i \in DOMAIN fib : fib[i] = 0})
Src(sc) == IF sc.dump THEN "dump" ELSE "pp"
NSpectra(sc) == IF sc.dump THEN sc.ndump ELSE Len(sc.file.tbl.rows)

(* what the keywords mean: wavelengths are positive, there is at least one template and no negative count *)
Sane(f) == /\ MetaDec(f, "wavemin").m > 0 /\ MetaDec(f, "wavemax").m > 0
           /\ MetaInt(f, "nkeep") >= 1 /\ MetaInt(f, "niter") >= 0 /\ MetaInt(f, "minuse") >= 0
(* what the example files give: the column the output table is made of, a dump file that belongs to the table *)
Consistent(sc) == /\ sc.file.tbl.zcol \in (IF IsStar(sc.file) THEN {"cz", "both"} ELSE {"zfit", "both"})
                  /\ (sc.dump => sc.ndump = Len(sc.file.tbl.rows))
CMeta == Call("template_metadata", [file |-> "IN"])
CReadspec(sc) ==
  LET f == sc.file
  IN Call("readspec", [plate |-> Col(f.tbl.rows, "plate"), mjd |-> Col(f.tbl.rows, "mjd"),
                       fiber |-> Col(f.tbl.rows, "fiberid"), align |-> IsStar(f),
                       run2d |-> P(f, "run2d").txt, run1d |-> P(f, "run1d").txt])
CSkymask == Call("skymask", [invvar |-> <<"rs", "invvar">>, andmask |-> <<"rs", "andmask">>, ormask |-> <<"rs", "ormask">>])
CWavevector(sc) == Call("wavevector", [lo |-> MetaDec(sc.file, "wavemin"), hi |-> MetaDec(sc.file, "wavemax"), binsz |-> sc.dl[1]])
CPreprocess(sc) ==
  LET f == sc.file
  IN Call("preprocess_spectra",
          [flux |-> <<"rs", "flux">>, ivar |-> ClipGrid(sc.F, sc.V, Snmax(f)), loglam |-> <<"rs", "loglam">>,
           zfit |-> ZFit(f.tbl), newloglam |-> IF IsStar(f) THEN <<"rs", "loglam[0]">> ELSE <<"wv", "out">>,
           aesthetics |-> P(f, "aesthetics").txt, verbose |-> sc.verbose])
ReadStage(sc) == <<CReadspec(sc), CSkymask>> \o (IF IsStar(sc.file) THEN <<>> ELSE <<CWavevector(sc)>>) \o <<CPreprocess(sc)>>
SolveStage(sc) ==
  LET f == sc.file
      s == Src(sc)
  IN IF IsQso(f)
     THEN << Call("template_qso", [metadata |-> "meta", newflux |-> <<s, "newflux">>, newivar |-> <<s, "newivar">>,
                                   verbose |-> sc.verbose]) >>
     ELSE IF IsStar(f)
     THEN << Call("template_star", [metadata |-> "meta", newloglam |-> <<s, "newloglam">>, newflux |-> <<s, "newflux">>,
                                    newivar |-> <<s, "newivar">>, slist |-> "slist", outfile |-> OutFile(f, sc.jd),
                                    verbose |-> sc.verbose]) >>
     ELSE IF MethodKind(f) = Pca
     THEN << Call("pca_solve", [newflux |-> <<s, "newflux">>, newivar |-> <<s, "newivar">>, niter |-> MetaInt(f, "niter"),
                                nkeep |-> MetaInt(f, "nkeep"), verbose |-> sc.verbose]) >>
     ELSE << Call("HMF", [newflux |-> <<s, "newflux">>, newivar |-> <<s, "newivar">>, K |-> MetaInt(f, "nkeep"),
                          n_iter |-> MetaInt(f, "niter"), nonnegative |-> ReadInt(P(f, "nonnegative").txt).m = 1,
                          epsilon |-> MetaDec(f, "epsilon"), verbose |-> sc.verbose]),
             Call("HMF.solve", [none |-> TRUE]) >>
ObjectName(f) == IF ObjKind(f) = Gal THEN "GALAXY" ELSE IF IsQso(f) THEN "QSO" ELSE "STAR"
FitsOf(sc) ==
  LET f == sc.file
      hmf == MethodKind(f) = Hmf
  IN [ name |-> OutFile(f, sc.jd) \o ".fits", data |-> <<"sol", "flux">>,
       OBJECT |-> ObjectName(f), RUN2D |-> P(f, "run2d").txt, RUN1D |-> P(f, "run1d").txt, FILENAME |-> "IN",
       METHOD |-> Upper(P(f, "method").txt), hmf |-> hmf,
       NONNEG |-> hmf /\ ReadInt(P(f, "nonnegative").txt).m = 1,
       EPSILON |-> IF hmf THEN MetaDec(f, "epsilon") ELSE [m |-> 0, e |-> 0],
       plate |-> Col(f.tbl.rows, "plate"), mjd |-> Col(f.tbl.rows, "mjd"), fiberid |-> Col(f.tbl.rows, "fiberid"),
       zname |-> IF IsStar(f) THEN "cz" ELSE "zfit",
       zvals |-> IF IsStar(f) THEN Col(f.tbl.rows, "cz") ELSE Col(f.tbl.rows, "z") ]
Solvers == {"template_qso", "template_star", "pca_solve", "HMF", "HMF.solve"}
Writers == {"writeto", "plot_eig", "savefig"}

(* tail: "any" nothing is decided (the file may or may not be accepted, or a number in it makes no sense: a       *)
(* wavelength <= 0, nkeep < 1, a negative count); "meta" the file is refused; "missing" spectra not found; "method" unknown method; "open" everything    *)
(* after the solver is left open; "full" the whole run is specified.                                            *)
(* dumpAfter: "kept" (existed, untouched), "written" (newflux / newivar / newloglam = what preprocess_spectra   *)
(* returned), "absent", "any".                                                                                  *)
RunExpect(sc) ==
  LET f == sc.file
      mx == MetaExpect(f, TRUE, sc.env0)
      tail == IF mx.out = "open" \/ (mx.out = "accepted" /\ ~Sane(f)) THEN "any"
              ELSE IF mx.out # "accepted" THEN "meta"
              ELSE IF ~sc.dump /\ NMissing(sc.fib) > 0 THEN "missing"
              ELSE IF ~KnownMethod(f) /\ ~IsQso(f) /\ ~IsStar(f) THEN "method"
              ELSE IF ~KnownMethod(f) \/ ~DocumentedObject(f) \/ ~Consistent(sc) THEN "open"
              ELSE "full"
      data == IF sc.dump THEN <<>> ELSE ReadStage(sc)
      flow == CASE tail \in {"meta", "any"} -> <<CMeta>>
                [] tail = "missing" -> <<CMeta, CReadspec(sc)>>
                [] tail = "method" -> <<CMeta>>
                [] OTHER -> <<CMeta>> \o data \o SolveStage(sc)
      full == tail = "full"
  IN [ tail |-> tail,
       flow |-> flow,
       out |-> CASE tail = "meta" -> [kind |-> "refused", n |-> 0]
                 [] tail = "any" -> [kind |-> "open", n |-> 0]
                 [] tail = "missing" -> [kind |-> "ValueError", n |-> NMissing(sc.fib)]
                 [] tail = "method" -> [kind |-> "ValueError", n |-> 0]
                 [] tail = "open" -> [kind |-> "open", n |-> 0]
                 [] OTHER -> [kind |-> "return", n |-> 0],
       refusals |-> mx.refusals,
       dumpAfter |-> IF sc.dump THEN "kept"
                     ELSE IF tail \in {"meta", "missing"} THEN "absent"
                     ELSE IF tail \in {"method", "any"} THEN "any" ELSE "written",
       needDate |-> tail = "full" \/ (tail = "open" /\ IsStar(f)),
       fits |-> IF full THEN FitsOf(sc) ELSE [name |-> ""],
       plotEig |-> full /\ ~IsStar(f),
       prefix |-> IF full THEN OutFile(f, sc.jd) \o "." ELSE "",
       rows |-> IF full /\ sc.flux THEN 1 .. NSpectra(sc) ELSE {} ]

Names(flow) == {flow[k].name : k \in DOMAIN flow}
L_ReadXorLoad(sc) == LET x == RunExpect(sc) IN                       \* T2
  sc.dump => Names(x.flow) \cap {"readspec", "skymask", "wavevector", "preprocess_spectra"} = {} /\ x.dumpAfter = "kept"
L_OneSolver(sc) == LET x == RunExpect(sc) IN                         \* T5
  x.tail \in {"full", "open"} <=> Names(x.flow) \cap Solvers # {}
L_MissingStopsEverything(sc) == LET x == RunExpect(sc) IN            \* T3
  x.tail = "missing" => x.flow[Len(x.flow)].name = "readspec" /\ x.dumpAfter = "absent" /\ x.out.n >= 1
L_AlignOnlyStar(sc) == LET x == RunExpect(sc) IN
  \A k \in DOMAIN x.flow : x.flow[k].name = "readspec" => (x.flow[k].a.align <=> IsStar(sc.file))
L_SolverGetsIntermediate(sc) == LET x == RunExpect(sc) IN
  \A k \in DOMAIN x.flow : x.flow[k].name \in Solvers \ {"HMF.solve"} => x.flow[k].a.newflux[1] = Src(sc)
L_FullWrites(sc) == LET x == RunExpect(sc) IN
  x.tail = "full" => x.fits.name = OutFile(sc.file, sc.jd) \o ".fits" /\ x.out.kind = "return"

(* ============================ T7: the console script ============================ *)
(* An argument is a sequence of pieces: <<"-", letters..., [value]>>, <<"--", name>>, <<"--", name, "=", value>> or   *)
(* <<word>>.  A file name is [home, s]: s, prefixed by the home directory when home is TRUE.                          *)
Path(home, s) == [home |-> home, s |-> s]
DefaultPar == Path(TRUE, "/scratch/templates/compute_templates.par")
DefaultDump == Path(TRUE, "/scratch/templates/compute_templates.dump")
Scan0 == [st |-> "ok", in |-> DefaultPar, dump |-> DefaultDump, flux |-> FALSE, verbose |-> FALSE]
ValueOpts == {"d", "f"}
FlagOpts == {"F", "v"}
LongOf(name) == CASE name = "dump" -> "d" [] name = "file" -> "f" [] name = "flux" -> "F" [] name = "verbose" -> "v"
                  [] name = "help" -> "h" [] OTHER -> ""
(* unambiguous or ambiguous abbreviations of the long names: left open *)
LongAbbrevs == {"d", "du", "dum", "f", "fi", "fil", "fl", "flu", "v", "ve", "ver", "verb", "verbo", "verbos", "h", "he", "hel"}
(* a lone "-" is a word *)
LooksLikeOption(a) == a # <<>> /\ a[1] \in {"-", "--"} /\ a # <<"-">>
SetOpt(st, o, val) == CASE o = "d" -> [st EXCEPT !.dump = Path(FALSE, val)]
                        [] o = "f" -> [st EXCEPT !.in = Path(FALSE, val)]
                        [] o = "F" -> [st EXCEPT !.flux = TRUE]
                        [] OTHER -> [st EXCEPT !.verbose = TRUE]
RECURSIVE Scan(_, _)
RECURSIVE Cluster(_, _, _)
(* the letters of one -xyz argument, then the rest of the command line *)
Cluster(ps, rest, st) ==
  IF ps = <<>> THEN Scan(rest, st)
  ELSE LET o == ps[1]
       IN IF o = "h" THEN [st EXCEPT !.st = "help"]
          ELSE IF o \in FlagOpts THEN Cluster(Tail(ps), rest, SetOpt(st, o, ""))
          ELSE IF o \in ValueOpts
          THEN (IF Len(ps) = 2 THEN (IF ps[2] = "=" THEN [st EXCEPT !.st = "open"] ELSE Scan(rest, SetOpt(st, o, ps[2])))
                ELSE IF Len(ps) > 2 THEN [st EXCEPT !.st = "open"]
                ELSE IF rest = <<>> \/ LooksLikeOption(rest[1]) THEN [st EXCEPT !.st = "reject"]
                ELSE Scan(Tail(rest), SetOpt(st, o, rest[1][1])))
          ELSE [st EXCEPT !.st = "reject"]
Scan(args, st) ==
  IF st.st # "ok" \/ args = <<>> THEN st
  ELSE LET a == args[1]
           rest == Tail(args)
       IN IF ~LooksLikeOption(a) THEN [st EXCEPT !.st = "reject"]                \* no positional arguments
          ELSE IF a[1] = "-" THEN (IF Len(a) = 1 THEN [st EXCEPT !.st = "reject"] ELSE Cluster(Tail(a), rest, st))
          ELSE IF Len(a) = 1 THEN [st EXCEPT !.st = "open"]                      \* a bare "--"
          ELSE LET o == LongOf(a[2])
               IN IF o = "" THEN [st EXCEPT !.st = IF a[2] \in LongAbbrevs THEN "open" ELSE "reject"]
                  ELSE IF o = "h" THEN [st EXCEPT !.st = IF Len(a) = 2 THEN "help" ELSE "open"]
                  ELSE IF o \in FlagOpts THEN (IF Len(a) = 2 THEN Scan(rest, SetOpt(st, o, "")) ELSE [st EXCEPT !.st = "reject"])
                  ELSE IF Len(a) = 4 /\ a[3] = "=" THEN Scan(rest, SetOpt(st, o, a[4]))
                  ELSE IF Len(a) # 2 THEN [st EXCEPT !.st = "open"]
                  ELSE IF rest = <<>> \/ LooksLikeOption(rest[1]) THEN [st EXCEPT !.st = "reject"]
                  ELSE Scan(Tail(rest), SetOpt(st, o, rest[1][1]))
(* st: "ok" -> template_input(in, dump, flux, verbose) is called once and 0 returned; "reject" -> non-zero exit, *)
(* not called; "help" -> exit status 0, not called; "open"                                                       *)
MentionsHelp(args) == \E k \in DOMAIN args : args[k] = <<"--", "help">> \/ (args[k][1] = "-" /\ \E j \in DOMAIN args[k] : j > 1 /\ args[k][j] = "h")
(* argparse reports unknown options and stray words only after it has seen the whole command line, -h acts at once: *)
(* which of the two wins is not documented                                                                          *)
(* forms whose reading is not documented, wherever they stand: abbreviated long options, a bare "--", -d=FILE,   *)
(* letters after a value option                                                                                  *)
OpenArg(a) == \/ a = <<"--">>
              \/ (Len(a) >= 2 /\ a[1] = "--" /\ a[2] \in LongAbbrevs)
              \/ (Len(a) >= 3 /\ a[1] = "-" /\ \E j \in 2 .. (Len(a) - 1) : a[j] \in ValueOpts /\ (a[j + 1] = "=" \/ j + 1 < Len(a)))
MainExpect(args) == LET s == Scan(args, Scan0)
                    IN IF (\E k \in DOMAIN args : OpenArg(args[k])) \/ (s.st = "reject" /\ MentionsHelp(args))
                       THEN [s EXCEPT !.st = "open"] ELSE s
L_MainDefaults == MainExpect(<<>>) = Scan0
L_MainFlagsCommute(args) ==
  LET x == MainExpect(args)
  IN x.st = "ok" => /\ MainExpect(<< <<"-", "F">> >> \o args).flux /\ MainExpect(args \o << <<"--", "verbose">> >>).verbose
                    /\ MainExpect(args \o << <<"-", "d", "Z">> >>).dump = Path(FALSE, "Z")          \* the last one counts
                    /\ MainExpect(<< <<"--", "file", "=", "Z">> >> \o args).in = (IF x.in = DefaultPar THEN Path(FALSE, "Z") ELSE x.in)

(* ============================ named deviations ============================ *)
(* D-X09-1: after the solver has run, the eigenvalue-ratio diagnostic figures (a1/a0 against a2/a0, a2/a0 against *)
(* a3/a0) index four coefficients per object.  A file asking for fewer than four templates (nkeep 1, 2, 3: the    *)
(* coefficient matrix the solvers return has nkeep columns) therefore ends with IndexError after all the work and *)
(* BEFORE the FITS file is written, for every object but star.                                                   *)
Dev_RatioPlotsNeedFourTemplates(sc) ==
  LET x == RunExpect(sc)
  IN IF x.tail = "full" /\ ~IsStar(sc.file) /\ MetaInt(sc.file, "nkeep") < 4
     THEN [x EXCEPT !.out = [kind |-> "IndexError", n |-> 0], !.fits = [name |-> ""], !.plotEig = FALSE]
     ELSE x
=============================================================================
