------------------------------ MODULE LinSolve ------------------------------
(***************************************************************************)
(* C15 - least-squares and factorisation solvers return the optimum they   *)
(* claim.                                                                  *)
(*                                                                         *)
(* Part (a)  WLS: the weighted least-squares solution of A x = b for an    *)
(*           integer system (N rows, M <= 3 columns, weights s_i^2) as     *)
(*           exact rationals (Cramer on the normal equations), with the    *)
(*           laws that make it "the optimum" stated separately and checked *)
(*           by TLC on every enumerated system.                            *)
(* Part (b)  pcomp: the exact scatter matrix of an integer data matrix and *)
(*           the four laws of the statement, judged on recorded calls.     *)
(* Part (c)  HMF: (c1) the exact alternating least-squares updates for     *)
(*           tiny integer data (rationals), chi-square non-increase and    *)
(*           vanishing gradient as laws; (c2) the iteration protocol       *)
(*           AStep/GStep/Reorder/Normalise over logged, scaled-integer     *)
(*           measurements, reused by the trace specification.              *)
(* Part (d)  pca_solve: the three laws of the statement, judged on         *)
(*           recorded calls.                                               *)
(*                                                                         *)
(* Matrices are sequences of rows.  Rationals are spec/Rat.tla pairs.      *)
(* TLC integers are 32-bit and overflow is a loud error: the bounded       *)
(* instances keep every intermediate product below 2^31.                  *)
(***************************************************************************)
EXTENDS Integers, Sequences, FiniteSets, Rat

Rows(A) == Len(A)
Cols(A) == Len(A[1])

RECURSIVE ISumTo(_, _)
ISumTo(f, n) == IF n = 0 THEN 0 ELSE f[n] + ISumTo(f, n - 1)
ISum(f) == ISumTo(f, Len(f))                      \* f: sequence of integers

(* Rat.Add / Rat.Mul form the full cross products before reducing; these variants cancel   *)
(* common factors first, so that intermediate terms stay inside 32 bits much longer.      *)
XAdd(a, b) == LET g == GCD(a[2], b[2]) IN Norm(a[1] * (b[2] \div g) + b[1] * (a[2] \div g), (a[2] \div g) * b[2])
XSub(a, b) == XAdd(a, Neg(b))
XMul(a, b) == IF a[1] = 0 \/ b[1] = 0 THEN Zero
              ELSE LET g1 == GCD(Abs(a[1]), b[2])
                       g2 == GCD(Abs(b[1]), a[2])
                   IN << (a[1] \div g1) * (b[1] \div g2), (a[2] \div g2) * (b[2] \div g1) >>
XDiv(a, b) == XMul(a, Inv(b))

RECURSIVE RSumTo(_, _)
RSumTo(f, n) == IF n = 0 THEN Zero ELSE XAdd(f[n], RSumTo(f, n - 1))
RSum(f) == RSumTo(f, Len(f))                      \* f: sequence of rationals

Sq(x) == x * x
RSq(q) == XMul(q, q)

(* ======================================================================= *)
(* (a) weighted least squares, integer data                                *)
(* ======================================================================= *)
WeightsOf(s) == [i \in 1..Len(s) |-> s[i] * s[i]]          \* sqivar -> weights

NormalW(A, w) == [j \in 1..Cols(A) |-> [k \in 1..Cols(A) |->
                    ISum([i \in 1..Rows(A) |-> w[i] * A[i][j] * A[i][k]])]]
RhsW(A, b, w) == [j \in 1..Cols(A) |-> ISum([i \in 1..Rows(A) |-> w[i] * A[i][j] * b[i]])]

(* determinant and adjugate for 1 <= n <= 3 (cyclic cofactor form for n = 3) *)
Cyc(i) == ((i - 1) % 3) + 1
Cof3(G, a, b) == G[Cyc(a + 1)][Cyc(b + 1)] * G[Cyc(a + 2)][Cyc(b + 2)]
                 - G[Cyc(a + 1)][Cyc(b + 2)] * G[Cyc(a + 2)][Cyc(b + 1)]
Det(G) == CASE Len(G) = 1 -> G[1][1]
            [] Len(G) = 2 -> G[1][1] * G[2][2] - G[1][2] * G[2][1]
            [] Len(G) = 3 -> G[1][1] * Cof3(G, 1, 1) + G[1][2] * Cof3(G, 1, 2) + G[1][3] * Cof3(G, 1, 3)
Adj(G) == CASE Len(G) = 1 -> << <<1>> >>
            [] Len(G) = 2 -> << <<G[2][2], -G[1][2]>>, <<-G[2][1], G[1][1]>> >>
            [] Len(G) = 3 -> [j \in 1..3 |-> [k \in 1..3 |-> Cof3(G, k, j)]]

FullRankW(A, w) == Det(NormalW(A, w)) # 0
FullRank(A, s) == FullRankW(A, WeightsOf(s))

(* The solution record.  Everything is a rational with the common denominator Det. *)
WLSw(A, b, w) ==
  LET G == NormalW(A, w)
      r == RhsW(A, b, w)
      d == Det(G)
      ad == Adj(G)
      M == Cols(A)
      N == Rows(A)
      xn == [j \in 1..M |-> ISum([k \in 1..M |-> ad[j][k] * r[k]])]
      yn == [i \in 1..N |-> ISum([j \in 1..M |-> A[i][j] * xn[j]])]
      bwb == ISum([i \in 1..N |-> w[i] * b[i] * b[i]])
      rx == ISum([j \in 1..M |-> r[j] * xn[j]])
  IN [acoeff |-> [j \in 1..M |-> R(xn[j], d)],
      yfit   |-> [i \in 1..N |-> R(yn[i], d)],
      chi2   |-> R(bwb * d - rx, d),
      dof    |-> Cardinality({i \in 1..N : w[i] > 0}) - M,
      covar  |-> [j \in 1..M |-> [k \in 1..M |-> R(ad[j][k], d)]],
      var    |-> [j \in 1..M |-> R(ad[j][j], d)]]
WLS(A, b, s) == WLSw(A, b, WeightsOf(s))

(* ---- the laws: what makes a record `sol` THE weighted least-squares answer ---- *)
ResidOf(A, b, sol, i) == XSub(sol.yfit[i], OfInt(b[i]))
Chi2At(A, b, w, x) ==                                     \* chi-square of an arbitrary rational x
  RSum([i \in 1..Rows(A) |->
          XMul(OfInt(w[i]), RSq(XSub(RSum([j \in 1..Cols(A) |-> XMul(OfInt(A[i][j]), x[j])]), OfInt(b[i]))))])

YfitIsAx(A, sol) == \A i \in 1..Rows(A) :
   sol.yfit[i] = RSum([j \in 1..Cols(A) |-> XMul(OfInt(A[i][j]), sol.acoeff[j])])
GradientZero(A, b, w, sol) == \A j \in 1..Cols(A) :
   RSum([i \in 1..Rows(A) |-> XMul(OfInt(w[i] * A[i][j]), ResidOf(A, b, sol, i))]) = Zero
Chi2IsWeightedResidual(A, b, w, sol) ==
   sol.chi2 = RSum([i \in 1..Rows(A) |-> XMul(OfInt(w[i]), RSq(ResidOf(A, b, sol, i)))])
CovarIsInverse(A, w, sol) == LET G == NormalW(A, w) IN \A j, k \in 1..Cols(A) :
   RSum([l \in 1..Cols(A) |-> XMul(sol.covar[j][l], OfInt(G[l][k]))]) = (IF j = k THEN One ELSE Zero)
VarIsDiagonal(A, sol) == \A j \in 1..Cols(A) : sol.var[j] = sol.covar[j][j] /\ sol.var[j][1] > 0
DofCountsWeighted(A, w, sol) == sol.dof = Cardinality({i \in 1..Rows(A) : w[i] # 0}) - Cols(A)
(* the normal matrix of a full-rank system is positive definite (Sylvester), so the      *)
(* stationary point is the global minimum                                                 *)
LeadMinor(G, n) == Det([j \in 1..n |-> [k \in 1..n |-> G[j][k]]])
NormalPosDef(A, w) == \A n \in 1..Cols(A) : LeadMinor(NormalW(A, w), n) > 0
(* and, directly: no unit step away from the solution has a smaller chi-square            *)
NoBetterNeighbour(A, b, w, sol) == \A j \in 1..Cols(A) : \A dl \in {-1, 1} :
   Le(sol.chi2, Chi2At(A, b, w, [k \in 1..Cols(A) |-> IF k = j THEN XAdd(sol.acoeff[k], OfInt(dl)) ELSE sol.acoeff[k]]))
(* rows of weight zero do not take part *)
KeepIdx(w) == SelectSeq([i \in 1..Len(w) |-> i], LAMBDA i : w[i] # 0)
DropZero(v, w) == [k \in 1..Len(KeepIdx(w)) |-> v[KeepIdx(w)[k]]]
ZeroWeightIgnored(A, b, w, sol) ==
   LET t == WLSw(DropZero(A, w), DropZero(b, w), DropZero(w, w))
   IN t.acoeff = sol.acoeff /\ t.chi2 = sol.chi2 /\ t.covar = sol.covar /\ t.dof = sol.dof

(* ---- homogeneity and model-shift laws ----                                              *)
(* They are polynomial identities in the entries of A, b, s; TLC checks them with the      *)
(* factor 2 and a small integer shift on every enumerated system.  The harness relies on   *)
(* them to replay each system also with b, A, s scaled by powers of two and with a large   *)
(* multiple of a model vector A.z added to b (a nearly exact fit of a large signal: the    *)
(* expected values are TLC's, rescaled / shifted as these laws say).                       *)
ScaleSeq(v, cc) == [i \in 1..Len(v) |-> cc * v[i]]
ScaleMat(A, cc) == [i \in 1..Len(A) |-> ScaleSeq(A[i], cc)]
RTimes(q, n, d) == XMul(q, R(n, d))
HomogeneousInB(A, b, s, sol, cc) ==
   LET t == WLS(A, ScaleSeq(b, cc), s) IN
   /\ t.chi2 = RTimes(sol.chi2, cc * cc, 1)
   /\ \A j \in 1..Cols(A) : t.acoeff[j] = RTimes(sol.acoeff[j], cc, 1)
   /\ \A i \in 1..Rows(A) : t.yfit[i] = RTimes(sol.yfit[i], cc, 1)
   /\ t.covar = sol.covar /\ t.dof = sol.dof
HomogeneousInS(A, b, s, sol, cc) ==
   LET t == WLS(A, b, ScaleSeq(s, cc)) IN
   /\ t.chi2 = RTimes(sol.chi2, cc * cc, 1)
   /\ t.acoeff = sol.acoeff /\ t.yfit = sol.yfit /\ t.dof = sol.dof
   /\ \A j, k \in 1..Cols(A) : t.covar[j][k] = RTimes(sol.covar[j][k], 1, cc * cc)
HomogeneousInA(A, b, s, sol, cc) ==
   LET t == WLS(ScaleMat(A, cc), b, s) IN
   /\ t.chi2 = sol.chi2 /\ t.yfit = sol.yfit /\ t.dof = sol.dof
   /\ \A j \in 1..Cols(A) : t.acoeff[j] = RTimes(sol.acoeff[j], 1, cc)
   /\ \A j, k \in 1..Cols(A) : t.covar[j][k] = RTimes(sol.covar[j][k], 1, cc * cc)
ModelOf(A, z) == [i \in 1..Rows(A) |-> ISum([j \in 1..Cols(A) |-> A[i][j] * z[j]])]
ModelShift(A, b, s, sol, z) ==
   LET az == ModelOf(A, z)
       t == WLS(A, [i \in 1..Rows(A) |-> b[i] + az[i]], s) IN
   /\ t.chi2 = sol.chi2 /\ t.covar = sol.covar /\ t.dof = sol.dof
   /\ \A j \in 1..Cols(A) : t.acoeff[j] = XAdd(sol.acoeff[j], OfInt(z[j]))
   /\ \A i \in 1..Rows(A) : t.yfit[i] = XAdd(sol.yfit[i], OfInt(az[i]))
ShiftZ == <<1, -1, 2>>

(* ---- THE COMPARISON RULE for floating-point observations ----                             *)
(* "Agreeing with an independent solver" is agreement to a tolerance measured against the   *)
(* NATURAL SCALE of each quantity, not against |expected| alone: a backward-stable solver    *)
(* returns round-off of the size eps * (natural scale) where the exact value happens to be   *)
(* zero (b orthogonal to a column), so exact zeros are not demanded beyond Tol * scale.      *)
(*   coefficient j : scale_j = sum_k |M^-1|_jk ( (|A|^T W |b|)_k + (|M| |x|)_k ),  M = A^T W A  *)
(*                   (the componentwise forward-error scale of solving M x = A^T W b: round-  *)
(*                   off in the right-hand side AND in M; without the second term the scale   *)
(*                   is exactly 0 where (M^-1)_jk vanishes, and no solver returns an exact 0) *)
(*   fitted value i: scale_i = sum_j |A_ij| scale_j                                           *)
(*   chi-square    : Q = sum_i w_i (|b_i| + scale_i)^2; chi2 is a SUM OF SQUARED RESIDUALS,   *)
(*                   so it is judged relative to itself, plus round-off level (not Tol level) *)
(*                   multiples of Q: 1e-9 chi2 + 256 eps sqrt(chi2 Q) + (1e-11)^2 Q          *)
(*   covariance jk : sqrt(covar_jj covar_kk) (>= |covar_jk|), variance: itself                *)
(* Round-off floor: a solver that rotates the unknowns (any SVD) spreads eps * conditioning *  *)
(* |vector| over every component, also over an unknown that is decoupled and exactly zero     *)
(* (M block-diagonal: scale_j = 0 exactly); so below the tolerance level a discrepancy of     *)
(* 1e-11 * (largest scale of the vector) is round-off, for coefficients and fitted values.    *)
(* An observation obs of the exact value e agrees iff |obs - e| <= Tol * max(|e|, scale);     *)
(* the harness reports dev = the largest |obs - e| / (Tol * max(|e|, scale)) in whole units.  *)
NatScaleW(A, b, w) ==
  LET G == NormalW(A, w)
      d == Abs(Det(G))
      ad == Adj(G)
      M == Cols(A)
      x == WLSw(A, b, w).acoeff
      ar == [k \in 1..M |-> ISum([i \in 1..Rows(A) |-> w[i] * Abs(A[i][k]) * Abs(b[i])])]
      mx == [k \in 1..M |-> RSum([l \in 1..M |-> XMul(OfInt(Abs(G[k][l])), RAbs(x[l]))])]
      sx == [j \in 1..M |-> RSum([k \in 1..M |-> XMul(R(Abs(ad[j][k]), d), XAdd(OfInt(ar[k]), mx[k]))])]
  IN [x |-> sx,
      y |-> [i \in 1..Rows(A) |-> RSum([j \in 1..M |-> XMul(OfInt(Abs(A[i][j])), sx[j])])]]
NatScale(A, b, s) == NatScaleW(A, b, WeightsOf(s))
(* The rational evaluation above overflows 32 bits for the larger three-column systems, so   *)
(* for the replay TLC hands over the exact integer pieces |M| and |A|^T W |b|; together with *)
(* the exact M^-1 (= covar) and x (= acoeff) of the solution record they determine the scale *)
(* by the formula above (sums and products of TLC's exact values, done in exact fractions).  *)
NatPieces(A, b, s) ==
  LET w == WeightsOf(s)
      G == NormalW(A, w)
  IN [g |-> [k \in 1..Cols(A) |-> [l \in 1..Cols(A) |-> Abs(G[k][l])]],
      ar |-> [k \in 1..Cols(A) |-> ISum([i \in 1..Rows(A) |-> w[i] * Abs(A[i][k]) * Abs(b[i])])]]
NatScaleChi(A, b, w, nat) == RSum([i \in 1..Rows(A) |-> XMul(OfInt(w[i]), RSq(XAdd(OfInt(Abs(b[i])), nat.y[i])))])
AgreesAtNaturalScale(dev) == dev <= 1
(* the scale really bounds the solution (triangle inequality), so max(|e|, scale) = scale     *)
(* for coefficients and fitted values                                                         *)
ScaleBoundsSolution(A, b, w) ==
  LET n == NatScaleW(A, b, w)
      sol == WLSw(A, b, w)
  IN /\ \A j \in 1..Cols(A) : Le(RAbs(sol.acoeff[j]), n.x[j])
     /\ \A i \in 1..Rows(A) : Le(RAbs(sol.yfit[i]), n.y[i])
(* and it is homogeneous like the solution itself (so the unit-scaled replays rescale it too) *)
ScaleHomogeneous(A, b, s, cc) ==
  LET n0 == NatScale(A, b, s) IN
  /\ \A j \in 1..Cols(A) : NatScale(A, ScaleSeq(b, cc), s).x[j] = RTimes(n0.x[j], cc, 1)
  /\ NatScale(A, b, ScaleSeq(s, cc)).x = n0.x
  /\ \A j \in 1..Cols(A) : NatScale(ScaleMat(A, cc), b, s).x[j] = RTimes(n0.x[j], 1, cc)


(* A recorded call on a FLOAT system (high signal-to-noise or noise-free data); the harness *)
(* measures, from the returned attributes only: neg (chi2 < 0), disc = | chi2 - sum(((b -   *)
(* yfit) sqivar)^2) | in units of the residual-scale tolerance, grad = normalised gradient  *)
(* A^T W (b - yfit) (unit 1e-9), cinv = | covar . A^T W A - I | (unit 1e-8), dof, npos, m    *)
WlsFloatVerdict(r) ==
  IF r.err THEN "exception"
  ELSE IF r.neg THEN "chi2 negative"
  ELSE IF r.disc > 1 THEN "chi2 is not the weighted residual of yfit"
  ELSE IF r.grad > 1 THEN "gradient of chi2 at acoeff"
  ELSE IF r.cinv > 1 THEN "covar is not the inverse of the normal matrix"
  ELSE IF r.dof # r.npos - r.m THEN "dof"
  ELSE ""

(* calling conventions of computechi2: "2d" A is (N, M); "1d" (M = 1 only) A is a vector  *)
(* of length N; "int" integer arrays.  The answer does not depend on the convention.      *)
WLSConvs == {"2d", "1d", "int"}
ExpectedWLS(c) == WLS(c.A, c.b, c.s)
(* Every operator of this module is a function of the VALUES handed over.  How an array     *)
(* lies in memory - writable or read-only, contiguous or a strided / transposed view, native *)
(* or byte-swapped (as read from a FITS file) - and whether a scalar comes as a Python       *)
(* number or a 0-d array is not an input: the specified outcome is the same for every        *)
(* layout (checked on the call records; the harness rotates the layouts over all calls of    *)
(* computechi2, pcomp, HMF and pca_solve).  Only where an argument is documented / stated to *)
(* be modified in place (HMF non-negative mode clamps its arrays) is read-only left out.     *)
Layouts == <<"plain", "ro", "nc", "bs">>
LayoutIndependent(c) == \A l \in 1..Len(Layouts) : \A k \in WLSConvs :
   ExpectedWLS([c EXCEPT !.layout = Layouts[l], !.conv = k]) = ExpectedWLS(c)

(* named deviation D-C15-1: a one-dimensional amatrix raises instead of being the M = 1 system *)
Dev_Vec1dRaises(c) == c.conv = "1d"

(* ======================================================================= *)
(* (b) pcomp: exact second moments of an integer data matrix               *)
(* ======================================================================= *)
ColSum(x, j) == ISum([i \in 1..Len(x) |-> x[i][j]])
(* Scatter = no^2 * (population covariance): no*sum(x_j x_k) - sum(x_j) sum(x_k)          *)
Scatter(x, j, k) == Len(x) * ISum([i \in 1..Len(x) |-> x[i][j] * x[i][k]]) - ColSum(x, j) * ColSum(x, k)
ScatterM(x) == [j \in 1..Cols(x) |-> [k \in 1..Cols(x) |-> Scatter(x, j, k)]]
NonConstant(x) == \A j \in 1..Cols(x) : Scatter(x, j, j) > 0
(* sample covariance = Scatter / (no (no-1)); correlation^2 = Scatter_jk^2 / (Scatter_jj Scatter_kk) *)
CovOf(x, j, k) == R(Scatter(x, j, k), Len(x) * (Len(x) - 1))

(* spec-level laws of the exact moments (checked by TLC on the enumerated matrices)        *)
ScatterSymmetric(x) == \A j, k \in 1..Cols(x) : Scatter(x, j, k) = Scatter(x, k, j)
ScatterCauchySchwarz(x) == \A j, k \in 1..Cols(x) :
     Scatter(x, j, j) >= 0 /\ Sq(Scatter(x, j, k)) <= Scatter(x, j, j) * Scatter(x, k, k)
ScatterShiftInvariant(x, t) ==
     ScatterM([i \in 1..Len(x) |-> [j \in 1..Cols(x) |-> x[i][j] + t * j]]) = ScatterM(x)

(* A recorded pcomp call (all measured floats as scaled integers, units PS = 10^5 except   *)
(* psq = sign * (P_jk)^2 in units QS = 10^4):                                              *)
(*   x, std, cov, nan (any attribute not finite), ev, coef (nv x nv), psq (nv x nv, where  *)
(*   P = coef . coef^T), var, der (no x nv), sd0 / sd1 (column std^2 with ddof 0 / 1, only *)
(*   when std), cs0 / cs1 (coef_jk / std_j for both ddof, only when std)                   *)
PS == 100000
QS == 10000
Sgn(v) == IF v > 0 THEN 1 ELSE IF v < 0 THEN -1 ELSE 0
Within(a, b, tol) == Abs(a - b) <= tol

PcEigDescending(r) == \A k \in 1..(Len(r.ev) - 1) : r.ev[k] >= r.ev[k + 1]
PcVarSumsToOne(r) == Within(ISum(r.var), PS, Len(r.var) + 1)
(* the matrix analysed: correlation; covariance; or, for standardised data, the covariance *)
(* of the standardised data, which is the correlation matrix times 1 or no/(no-1)          *)
(* depending on the divisor used for the standard deviation (left open by the statement)   *)
PcOuterCorr(r, kn, kd) ==                   \* P = (kn/kd) * correlation, through squares
  \A j, k \in 1..Cols(r.x) :
     LET D == Scatter(r.x, j, j) * Scatter(r.x, k, k)
         T == Scatter(r.x, j, k)
     IN /\ Within(r.psq[j][k] * D * kd * kd, Sgn(T) * T * T * kn * kn * QS, 3 * D * kd * kd)
PcOuterCov(r) ==
  \A j, k \in 1..Cols(r.x) :
     LET dn == Len(r.x) * (Len(r.x) - 1)
     IN Within(r.p[j][k] * dn, Scatter(r.x, j, k) * PS, 3 * dn)
PcOuterProduct(r) ==
  IF ~r.cov THEN PcOuterCorr(r, 1, 1)
  ELSE IF ~r.std THEN PcOuterCov(r)
  ELSE PcOuterCorr(r, 1, 1) \/ PcOuterCorr(r, Len(r.x), Len(r.x) - 1)
(* derived = data . components, in exact integer arithmetic on the scaled components       *)
DerTol(r, i) == ISum([j \in 1..Cols(r.x) |-> Abs(r.x[i][j])]) + 2
PcDerivedPlain(r) == \A i \in 1..Len(r.x) : \A k \in 1..Cols(r.x) :
     Within(r.der[i][k], ISum([j \in 1..Cols(r.x) |-> r.x[i][j] * r.coef[j][k]]), DerTol(r, i))
(* standardised data: (x_ij - mean_j) / std_j; the harness logs std_j^2 (checked against   *)
(* the exact scatter) and cs = coef / std                                                  *)
PcStdIs(r, sd, dn) == \A j \in 1..Cols(r.x) : Within(sd[j] * dn, Scatter(r.x, j, j) * PS, 2 * dn)
PcDerivedStdWith(r, cs, off) == \A i \in 1..Len(r.x) : \A k \in 1..Cols(r.x) :
     Within((r.der[i][k] - off[i][k]) * Len(r.x),
            ISum([j \in 1..Cols(r.x) |-> (Len(r.x) * r.x[i][j] - ColSum(r.x, j)) * cs[j][k]]),
            Len(r.x) * (DerTol(r, i) + 4))
NoOffset(r) == [i \in 1..Len(r.x) |-> [k \in 1..Cols(r.x) |-> 0]]
PcDerivedStd(r, off) ==
     \/ PcStdIs(r, r.sd0, Len(r.x) * Len(r.x)) /\ PcDerivedStdWith(r, r.cs0, off)
     \/ PcStdIs(r, r.sd1, Len(r.x) * (Len(r.x) - 1)) /\ PcDerivedStdWith(r, r.cs1, off)
PcDerived(r) == IF r.std THEN PcDerivedStd(r, NoOffset(r)) ELSE PcDerivedPlain(r)
(* named deviation D-C15-3: with standardize the centred data are added to the derived     *)
(* variables (derived = data . components + (x - mean))                                    *)
Centred(r) == [i \in 1..Len(r.x) |-> [k \in 1..Cols(r.x) |->
                 (PS * (Len(r.x) * r.x[i][k] - ColSum(r.x, k))) \div Len(r.x)]]
Dev_DerivedPlusCentred(r) == r.std /\ ~r.nan /\ PcDerivedStd(r, Centred(r))
(* named deviation D-C15-2: the matrix analysed is singular (fewer observations than       *)
(* variables, collinear columns) and a round-off negative eigenvalue makes the components  *)
(* NaN                                                                                     *)
SingularScatter(x) == Det(ScatterM(x)) = 0          \* nv <= 3; implied by no <= nv
Dev_NanOnSingular(r) == r.nan /\ SingularScatter(r.x)

PcompVerdict(r) ==
  IF ~NonConstant(r.x) THEN ""                       \* correlation undefined: nothing is demanded
  ELSE IF r.nan THEN "nan"
  ELSE IF ~PcEigDescending(r) THEN "eigenvalues not descending"
  ELSE IF ~PcOuterProduct(r) THEN "outer product"
  ELSE IF ~PcVarSumsToOne(r) THEN "variance sum"
  ELSE IF ~PcDerived(r) THEN "derived"
  ELSE ""

(* ======================================================================= *)
(* (d) pca_solve law instance                                              *)
(*  r: maxiter, proj (per spectrum: normalised gradient of the ivar-       *)
(*  weighted fit of the spectrum on the returned eigenspectra, in units of *)
(*  the tolerance, capped), ev (eigenvalues, units of ev[1]/10^6),         *)
(*  usemask, outmask (N x M of 0/1), inmask (ivar # 0, 0/1)                *)
(* ======================================================================= *)
PcaProjection(r) == \A i \in 1..Len(r.proj) : r.proj[i] <= 1
PcaEigNonIncreasing(r) == \A k \in 1..(Len(r.ev) - 1) : r.ev[k] >= r.ev[k + 1]
PcaUseMask(r) ==
  /\ Len(r.usemask) = Cols(r.outmask)
  /\ \A p \in 1..Cols(r.outmask) : r.usemask[p] = ISum([i \in 1..Len(r.outmask) |-> r.outmask[i][p]])
  /\ \A i \in 1..Len(r.outmask) : \A p \in 1..Cols(r.outmask) : r.outmask[i][p] <= r.inmask[i][p]
  /\ (r.maxiter = 0 => r.outmask = r.inmask)         \* no rejection pass: good = positive ivar
PcaVerdict(r) ==
  IF r.err THEN "exception"
  ELSE IF ~PcaProjection(r) THEN "acoeff is not the weighted projection"
  ELSE IF ~PcaEigNonIncreasing(r) THEN "eigenvalues increase"
  ELSE IF ~PcaUseMask(r) THEN "usemask"
  ELSE ""

(* ======================================================================= *)
(* (c1) HMF, exact: alternating weighted least squares on tiny integer     *)
(*      data.  S, W: N x M integers (W >= 0); a: N x K, g: K x M rationals;*)
(*      K <= 2; eps: integer >= 0 (smoothness penalty eps*sum diff(g)^2)   *)
(* ======================================================================= *)
RDet2(G) == XSub(XMul(G[1][1], G[2][2]), XMul(G[1][2], G[2][1]))
RSolvable(G) == IF Len(G) = 1 THEN G[1][1] # Zero ELSE RDet2(G) # Zero
RSolve(G, F) ==
  IF Len(F) = 1 THEN << XDiv(F[1], G[1][1]) >>
  ELSE << XDiv(XSub(XMul(G[2][2], F[1]), XMul(G[1][2], F[2])), RDet2(G)),
          XDiv(XSub(XMul(G[1][1], F[2]), XMul(G[2][1], F[1])), RDet2(G)) >>

HK(g) == Len(g)
HModel(a, g, i, j) == RSum([k \in 1..HK(g) |-> XMul(a[i][k], g[k][j])])
HTerm(S, W, a, g, i, j) == XMul(OfInt(W[i][j]), RSq(XSub(OfInt(S[i][j]), HModel(a, g, i, j))))
HRowChi2(S, W, a, g, i) == RSum([j \in 1..Cols(S) |-> HTerm(S, W, a, g, i, j)])     \* chi-square of spectrum i
HColChi2(S, W, a, g, j) == RSum([i \in 1..Rows(S) |-> HTerm(S, W, a, g, i, j)])     \* chi-square of pixel j
HChi2(S, W, a, g) == RSum([i \in 1..Rows(S) |-> HRowChi2(S, W, a, g, i)])
HPenalty(g, eps) == XMul(OfInt(eps), RSum([k \in 1..HK(g) |-> RSum([j \in 1..(Len(g[1]) - 1) |->
                        RSq(XSub(g[k][j + 1], g[k][j]))])]))
HBadness(S, W, a, g, eps) == XAdd(HChi2(S, W, a, g), HPenalty(g, eps))

(* coefficient update: spectrum i is fitted by the K components with weights W[i]          *)
HGi(W, g, i) == [k \in 1..HK(g) |-> [kp \in 1..HK(g) |->
                  RSum([j \in 1..Len(g[1]) |-> XMul(OfInt(W[i][j]), XMul(g[k][j], g[kp][j]))])]]
HFi(S, W, g, i) == [k \in 1..HK(g) |-> RSum([j \in 1..Len(g[1]) |-> XMul(OfInt(W[i][j] * S[i][j]), g[k][j])])]
HAStepOK(S, W, g) == \A i \in 1..Rows(S) : RSolvable(HGi(W, g, i))
HAStep(S, W, g) == [i \in 1..Rows(S) |-> RSolve(HGi(W, g, i), HFi(S, W, g, i))]

(* component update: pixel j is fitted across the spectra; with eps > 0 the smoothness     *)
(* penalty couples pixel j to its neighbours, which are held at the previous iterate       *)
NNeigh(M, j) == IF j = 1 \/ j = M THEN 1 ELSE 2
HAj(W, a, j, eps, M) == [k \in 1..Len(a[1]) |-> [kp \in 1..Len(a[1]) |->
      XAdd(RSum([i \in 1..Len(a) |-> XMul(OfInt(W[i][j]), XMul(a[i][k], a[i][kp]))]),
          IF k = kp THEN OfInt(eps * NNeigh(M, j)) ELSE Zero)]]
HFj(S, W, a, gp, j, eps) == [k \in 1..Len(a[1]) |->
      XAdd(RSum([i \in 1..Len(a) |-> XMul(OfInt(W[i][j] * S[i][j]), a[i][k])]),
          XMul(OfInt(eps), XAdd(IF j > 1 THEN gp[k][j - 1] ELSE Zero,
                              IF j < Len(gp[1]) THEN gp[k][j + 1] ELSE Zero)))]
HGStepOK(S, W, a, eps) == \A j \in 1..Cols(S) : RSolvable(HAj(W, a, j, eps, Cols(S)))
HGStep(S, W, a, gp, eps) ==
  LET cols == [j \in 1..Cols(S) |-> RSolve(HAj(W, a, j, eps, Cols(S)), HFj(S, W, a, gp, j, eps))]
  IN [k \in 1..Len(a[1]) |-> [j \in 1..Cols(S) |-> cols[j][k]]]

(* gradients of chi-square (halved) *)
HGradA(S, W, a, g, i, k) == RSum([j \in 1..Cols(S) |->
      XMul(OfInt(W[i][j]), XMul(XSub(OfInt(S[i][j]), HModel(a, g, i, j)), g[k][j]))])
HGradG(S, W, a, g, k, j) == RSum([i \in 1..Rows(S) |->
      XMul(OfInt(W[i][j]), XMul(XSub(OfInt(S[i][j]), HModel(a, g, i, j)), a[i][k]))])
(* the per-pixel stationarity the regularised update solves (neighbours from gp)           *)
HGradGReg(S, W, a, g, gp, k, j, eps) ==
   XSub(HGradG(S, W, a, g, k, j),
       XMul(OfInt(eps), XSub(XMul(OfInt(NNeigh(Cols(S), j)), g[k][j]),
                           XAdd(IF j > 1 THEN gp[k][j - 1] ELSE Zero,
                               IF j < Cols(S) THEN gp[k][j + 1] ELSE Zero))))

(* ======================================================================= *)
(* (c2) HMF iteration protocol over logged measurements                    *)
(*  state h: phase, iter, nn (non-negative mode), eps (0: None or 0,       *)
(*  1: positive), niter.                                                   *)
(*  event e: op, dbad (relative change of the badness chi^2 + penalty      *)
(*  across the step, parts per 10^9, clipped), grad (largest normalised    *)
(*  gradient component after the step in units of the tolerance, clipped), *)
(*  dmodel (largest change of the model a.g, units of the tolerance), rms  *)
(*  (largest | rms(g_k) - 1 |, same units), neg (some entry of a or g      *)
(*  negative), same (twin run with the same seed bit-identical), untouched *)
(*  (the caller's arrays are unchanged), niter                             *)
(* ======================================================================= *)
Slack == 2             \* parts per 10^9 of the badness
Tol == 1

HStart(nn, eps, niter) == [phase |-> "start", iter |-> 0, nn |-> nn, eps |-> eps, niter |-> niter]

AStepR(h, hn, e) ==
  /\ ~h.nn /\ e.op = "astep"
  /\ h.phase \in {"start", "norm"} /\ h.iter < h.niter
  /\ e.dbad <= Slack                      \* the penalty does not depend on a
  /\ e.grad <= Tol
  /\ hn = [h EXCEPT !.phase = "a"]
GStepR(h, hn, e) ==
  /\ ~h.nn /\ e.op = "gstep"
  /\ h.phase = "a"
  /\ e.grad <= Tol                        \* eps > 0: the regularised per-pixel gradient
  /\ (h.eps = 0 => e.dbad <= Slack)
  /\ hn = [h EXCEPT !.phase = "g"]
ReorderR(h, hn, e) ==
  /\ ~h.nn /\ e.op = "reorder"
  /\ h.phase = "g"
  /\ e.dmodel <= Tol
  /\ hn = [h EXCEPT !.phase = "reorder"]
NormaliseR(h, hn, e) ==
  /\ e.op = "norm"
  /\ h.phase = (IF h.nn THEN "g" ELSE "reorder")
  /\ e.rms <= Tol /\ e.dmodel <= Tol
  /\ (h.nn => ~e.neg)
  /\ hn = [h EXCEPT !.phase = "norm", !.iter = h.iter + 1]
AStepNNR(h, hn, e) ==
  /\ h.nn /\ e.op = "astepnn"
  /\ (h.phase \in {"start", "norm"} \/ (h.phase = "a" /\ h.iter = 0))      \* warm-up repeats
  /\ (h.phase = "norm" => h.iter < h.niter)
  /\ ~e.neg
  /\ e.dbad <= Slack
  /\ hn = [h EXCEPT !.phase = "a"]
GStepNNR(h, hn, e) ==
  /\ h.nn /\ e.op = "gstepnn"
  /\ h.phase = "a" /\ h.iter < h.niter
  /\ ~e.neg
  /\ (h.eps = 0 => e.dbad <= Slack)
  /\ hn = [h EXCEPT !.phase = "g"]
FinishR(h, hn, e) ==
  /\ e.op = "done"
  /\ h.phase = "norm" /\ h.iter = h.niter
  /\ e.same                                \* fixed seed: identical results
  /\ (~h.nn => e.untouched)                \* default mode: the caller's arrays are not modified
  /\ (h.nn => ~e.neg)
  /\ hn = [h EXCEPT !.phase = "done"]
HStepR(h, hn, e) == \/ AStepR(h, hn, e) \/ GStepR(h, hn, e) \/ ReorderR(h, hn, e) \/ NormaliseR(h, hn, e)
                    \/ AStepNNR(h, hn, e) \/ GStepNNR(h, hn, e) \/ FinishR(h, hn, e)
=============================================================================
