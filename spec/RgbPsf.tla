------------------------------- MODULE RgbPsf -------------------------------
(***************************************************************************)
(* X03 - the RGB image pipeline of pydl.pydlutils.rgbcolor (nw_scale_rgb,  *)
(* nw_cut_to_box, nw_float_to_byte, nw_arcsinh: Lupton et al. 2004, port   *)
(* of idlutils/rgbcolor) and the PSF reconstruction of pydl.photoop.image  *)
(* (sdss_psf_recon).  Written from the docstrings and the IDL semantics    *)
(* they name, not from pydl's code.                                        *)
(*                                                                         *)
(* BEHAVIOURAL STATEMENTS DECIDED HERE                                     *)
(*                                                                         *)
(* R1 nw_scale_rgb.  For every float image of shape (X, Y, 3) and every    *)
(*    3 scale factors, out[x,y,k] = colors[x,y,k] * scales[k], same shape. *)
(*    An image that is not 3-D with 3 planes, or scales not of length 3,   *)
(*    raises ValueError.                                                   *)
(* R2 nw_cut_to_box.  For every float image (X, Y, 3) and origin o with    *)
(*    o[k] < 1: per pixel, with f = max(1, max_k c[k] / (1 - o[k])),       *)
(*    out[k] = o[k] + c[k] / f  (idlutils nw_cut_to_box).  Consequences a  *)
(*    user relies on: with the default origin a pixel inside the unit box  *)
(*    is unchanged; a pixel outside is scaled so that its largest colour   *)
(*    is exactly 1 and the colour ratios are unchanged ("saturate to a     *)
(*    specific colour, not to white"); no output exceeds 1.  Wrong image   *)
(*    shape or origin length raises ValueError.                            *)
(* R3 nw_float_to_byte.  For every float array of any shape and bits in    *)
(*    0..8: out = min(max(floor(v * 2^bits), 0), 2^bits - 1) as unsigned   *)
(*    bytes, same shape; hence 0 -> 0, 1 -> 2^bits - 1, monotone, values   *)
(*    outside [0, 1] are clipped.  bits > 8 is answered as bits = 8 with a *)
(*    PydlutilsUserWarning.  (NaN input: open.)                            *)
(* R4 nw_arcsinh.  nonlinearity = 0: the image is returned unchanged.      *)
(*    Otherwise per pixel, with r = c[1] + c[2] + c[3]:                    *)
(*    out[k] = c[k] * asinh(r * nl) / (r * nl); an all-zero pixel maps to  *)
(*    exactly (0, 0, 0) and no pixel produces NaN/inf.  asinh is not       *)
(*    rational, so the statement is carried as LAWS over a recorded call   *)
(*    (exact rationals for the inputs, discrepancies measured by the       *)
(*    harness as scaled integers, the quantification and thresholds here): *)
(*    hue preservation (out[k] * c[j] = out[j] * c[k]); the factor lies in *)
(*    (0, 1]; the defining equation sinh(nl * sum(out)) = nl * r; output   *)
(*    radius strictly monotone in r; factor non-increasing in |r|.         *)
(*    Wrong shape raises ValueError (when nl # 0; with nl = 0 the two      *)
(*    documented clauses conflict, outcome left open).  A pixel with r = 0 *)
(*    but non-zero colours: only "finite" is demanded.                     *)
(* P1 sdss_psf_recon.  For every psField-like structure of K eigenimages   *)
(*    RROWS_k (n*n pixels, n odd), polynomial orders (nrow_b_k, ncol_b_k)  *)
(*    possibly different per template and per axis, coefficient tables C_k *)
(*    and integer position (xpos, ypos):                                   *)
(*      a_k = SUM_{i < nrow_b_k} SUM_{j < ncol_b_k}                        *)
(*              (0.001 (ypos + 1/2))^i (0.001 (xpos + 1/2))^j [C_k]_ij     *)
(*      image = SUM_k a_k RROWS_k   reshaped to (n, n), row-major.         *)
(*    Entries of C_k at or beyond the template's own order are not part of *)
(*    the polynomial (in real psField files they hold garbage, even NaN).  *)
(*    [C_k]_ij is in the file's (IDL) index order: the array astropy hands *)
(*    over has it at c[k][j][i]; this reading is the one pydl's own        *)
(*    reference values (from IDL) support.                                 *)
(* P2 trimdim = (t1, t2), odd, <= n: the result is the central t1 x t2     *)
(*    block, i.e. the PSF centre stays the central pixel.                  *)
(* P3 normalize = v: the result is proportional to the unnormalised image  *)
(*    and its integral is v.  With trimdim as well the documentation does  *)
(*    not say whether the integral is taken before or after trimming: both *)
(*    are accepted.                                                        *)
(* Left open: integer-dtype images, NaN, non-square or even-sized          *)
(* eigenimages, normalize = 0 or zero integral, float positions.           *)
(*                                                                         *)
(* The call model: one call is a record c with c.fn in                     *)
(*   "scale" "cut" "byte" "arcsinh"  [fn, shape, img, arg, bits]           *)
(*        img = the array flattened row-major, exact rationals (Rat);      *)
(*        arg = scales / origin / <<nonlinearity>> as rationals            *)
(*   "psf"  [fn, n, cd, tpl, ypos, xpos, norm, trim]                       *)
(*        tpl[k] = [nr, nc, c, rr]: c[i+1][j+1] = [C_k]_ij * cd (integer), *)
(*        rr = RROWS_k (integers); norm = <<0, 1>> for "not given";        *)
(*        trim = <<>> for "not given".                                     *)
(* Expected(c) = [err, warn, shape, val, alt, mag]: err = TRUE means       *)
(* "raises ValueError"; val = values row-major as rationals; alt = second  *)
(* acceptable value sequence (= val unless the statement leaves a choice); *)
(* mag = magnitude of the terms summed (PSF), the scale of the float       *)
(* tolerance.                                                              *)
(***************************************************************************)
EXTENDS Rat, FiniteSets

RECURSIVE Prod(_)
Prod(t) == IF t = <<>> THEN 1 ELSE t[1] * Prod(Tail(t))
RECURSIVE SumInt(_)
SumInt(s) == IF s = <<>> THEN 0 ELSE s[1] + SumInt(Tail(s))
RECURSIVE MaxInt(_)
MaxInt(s) == IF Len(s) = 1 THEN s[1] ELSE LET m == MaxInt(Tail(s)) IN IF s[1] > m THEN s[1] ELSE m
RECURSIVE Pow(_, _)
Pow(b, e) == IF e = 0 THEN 1 ELSE b * Pow(b, e - 1)

(* ===================== Part 1: RGB pixels, exactly ===================== *)
Pix(img, p) == <<img[3 * p - 2], img[3 * p - 1], img[3 * p]>>
NPixOf(img) == Len(img) \div 3
Max3(p) == Max2(p[1], Max2(p[2], p[3]))
Radius(p) == Add(p[1], Add(p[2], p[3]))
IsZeroPix(p) == p = <<Zero, Zero, Zero>>
Unpix(ps) == [k \in 1 .. 3 * Len(ps) |-> ps[(k + 2) \div 3][((k - 1) % 3) + 1]]
MapPix(img, Op(_)) == Unpix([p \in 1 .. NPixOf(img) |-> Op(Pix(img, p))])

ScalePix(p, s) == <<Mul(p[1], s[1]), Mul(p[2], s[2]), Mul(p[3], s[3])>>

(* the box [o, 1]^3: distance of the pixel from the origin in units of the box size *)
BoxFactor(p, o) == Max2(One, Max3(<<Div(p[1], Sub(One, o[1])), Div(p[2], Sub(One, o[2])), Div(p[3], Sub(One, o[3]))>>))
CutPix(p, o) == LET f == BoxFactor(p, o)
                IN <<Add(o[1], Div(p[1], f)), Add(o[2], Div(p[2], f)), Add(o[3], Div(p[3], f))>>

EffBits(bits) == IF bits > 8 THEN 8 ELSE bits
Byte(v, bits) == LET top == Pow(2, EffBits(bits)) - 1
                     fl == Floor(Mul(v, OfInt(top + 1)))
                 IN IF fl < 0 THEN 0 ELSE IF fl > top THEN top ELSE fl

ShapeOK3(shape) == Len(shape) = 3 /\ shape[3] = 3
RgbFns == {"scale", "cut", "byte", "arcsinh"}
RgbDefined(c) ==
  /\ c.fn \in RgbFns
  /\ Len(c.img) = Prod(c.shape)
  /\ \A k \in DOMAIN c.shape : c.shape[k] >= 1
  /\ c.fn = "cut" /\ Len(c.arg) = 3 => \A k \in 1 .. 3 : Lt(c.arg[k], One)
  /\ c.fn = "byte" => c.bits >= 0
  /\ c.fn = "arcsinh" => /\ Len(c.arg) = 1 /\ Le(Zero, c.arg[1])
                         /\ (c.arg[1] = Zero => ShapeOK3(c.shape))      \* the conflicting clauses: open

ErrOutcome == [err |-> TRUE, warn |-> FALSE, shape |-> <<>>, val |-> <<>>, alt |-> <<>>, mag |-> Zero]
ValOutcome(shape, val, warn) == [err |-> FALSE, warn |-> warn, shape |-> shape, val |-> val, alt |-> val, mag |-> Zero]

(* nw_arcsinh: val is specified exactly only for nonlinearity 0; otherwise val = <<>> and *)
(* the outcome is judged by the laws of Part 2                                            *)
RgbExpected(c) ==
  CASE c.fn = "scale" -> IF ~ShapeOK3(c.shape) \/ Len(c.arg) # 3 THEN ErrOutcome
                         ELSE ValOutcome(c.shape, MapPix(c.img, LAMBDA p : ScalePix(p, c.arg)), FALSE)
    [] c.fn = "cut" -> IF ~ShapeOK3(c.shape) \/ Len(c.arg) # 3 THEN ErrOutcome
                       ELSE ValOutcome(c.shape, MapPix(c.img, LAMBDA p : CutPix(p, c.arg)), FALSE)
    [] c.fn = "byte" -> ValOutcome(c.shape, [k \in DOMAIN c.img |-> OfInt(Byte(c.img[k], c.bits))], c.bits > 8)
    [] c.fn = "arcsinh" -> IF ~ShapeOK3(c.shape) THEN ErrOutcome
                           ELSE ValOutcome(c.shape, IF c.arg[1] = Zero THEN c.img ELSE <<>>, FALSE)

(* ---- laws of the exact part (INVARIANTs of MC_RgbPsf) ---- *)
CrossEq(a, b) == \A k, j \in 1 .. 3 : Mul(a[k], b[j]) = Mul(a[j], b[k])      \* a and b are proportional
O0 == <<Zero, Zero, Zero>>
CutInsideBoxUnchanged(p) == Le(Max3(p), One) => CutPix(p, O0) = p
CutSaturatesToColour(p) == Lt(One, Max3(p)) => /\ Max3(CutPix(p, O0)) = One
                                               /\ CrossEq(CutPix(p, O0), p)
CutNeverAboveOne(p, o) == \A k \in 1 .. 3 : Le(CutPix(p, o)[k], One)
CutHueAboutOrigin(p, o) == CrossEq(<<Sub(CutPix(p, o)[1], o[1]), Sub(CutPix(p, o)[2], o[2]), Sub(CutPix(p, o)[3], o[3])>>, p)
CutIdempotent(p) == CutPix(CutPix(p, O0), O0) = CutPix(p, O0)
ScaleByOneIsIdentity(p) == ScalePix(p, <<One, One, One>>) = p
ScaleComposes(p, s, t) == ScalePix(ScalePix(p, s), t) = ScalePix(p, ScalePix(s, t))
ByteInRange(v, bits) == Byte(v, bits) \in 0 .. (Pow(2, EffBits(bits)) - 1)
ByteEnds(bits) == Byte(Zero, bits) = 0 /\ Byte(One, bits) = Pow(2, EffBits(bits)) - 1
ByteMonotone(v, w, bits) == Le(v, w) => Byte(v, bits) <= Byte(w, bits)
(* k is the byte of v exactly when k / 2^bits <= v < (k + 1) / 2^bits, except at the clipped ends *)
ByteIsBin(v, bits) == LET k == Byte(v, bits)
                          m == Pow(2, EffBits(bits))
                      IN /\ (k > 0 => Le(R(k, m), v))
                         /\ (k < m - 1 => Lt(v, R(k + 1, m)))

(* ===================== Part 2: laws of nw_arcsinh ====================== *)
(* A recorded call r: r.img, r.arg = <<nl>> exact; r.dt in {"f8", "f4"}; the harness has   *)
(* measured on the real result (P pixels):                                                 *)
(*   m.fin         every output value is finite                                            *)
(*   m.zero[p]     output pixel p is exactly (0, 0, 0)                                     *)
(*   m.hue[p]      max_{k<j} |out_k c_j - out_j c_k| / (max|c| * max|out|)   in units      *)
(*   m.inv[p]      |sinh(nl * sum(out)) - nl * r| / (nl * sum|c| * sqrt(1 + (nl r)^2))  in units *)
(*   m.fac[p]      floor(2^20 * sum(out) / r)  for r # 0, else 0                           *)
(*   m.ord[p][q]   sign(sum(out_q) - sum(out_p))                                           *)
(* units: 1e-15 for float64 images, 1e-9 for float32 images; capped at 2^30.               *)
(* TolUnits: 1e-12 resp. 2e-6.                                                             *)
TolUnits(dt) == IF dt = "f8" THEN 1000 ELSE 2000
FacOne == 1048576
RAbsOf(q) == RAbs(q)
WellSeparated(a, b) == Le(Add(RAbsOf(a), RAbsOf(b)), Mul(OfInt(4096), RAbsOf(Sub(b, a))))
AsinhLaws == <<"NoNaN", "ZeroPixel", "Hue", "FactorRange", "Inverse", "Monotone", "FactorDecreasing", "EqualRadius">>
Pixels(r) == 1 .. NPixOf(r.img)
Rad(r, p) == Radius(Pix(r.img, p))
AInst(r, law) ==
  CASE law = "NoNaN" -> {<<0, 0>>}
    [] law = "ZeroPixel" -> {<<p, 0>> : p \in {q \in Pixels(r) : IsZeroPix(Pix(r.img, q))}}
    [] law \in {"Hue", "FactorRange", "Inverse"} -> {<<p, 0>> : p \in {q \in Pixels(r) : Rad(r, q) # Zero}}
    [] law = "Monotone" -> {i \in Pixels(r) \X Pixels(r) : Lt(Rad(r, i[1]), Rad(r, i[2]))}
    [] law = "FactorDecreasing" -> {i \in Pixels(r) \X Pixels(r) :
                                      Rad(r, i[1]) # Zero /\ Lt(RAbsOf(Rad(r, i[1])), RAbsOf(Rad(r, i[2])))}
    [] law = "EqualRadius" -> {i \in Pixels(r) \X Pixels(r) :
                                      i[1] < i[2] /\ Rad(r, i[1]) # Zero /\ RAbsOf(Rad(r, i[1])) = RAbsOf(Rad(r, i[2]))}
ASat(r, m, law, i) ==
  CASE law = "NoNaN" -> m.fin
    [] law = "ZeroPixel" -> m.zero[i[1]]
    [] law = "Hue" -> m.hue[i[1]] < TolUnits(r.dt)
    [] law = "FactorRange" -> m.fac[i[1]] > 0 /\ m.fac[i[1]] <= FacOne
    [] law = "Inverse" -> m.inv[i[1]] < TolUnits(r.dt)
    [] law = "Monotone" -> IF WellSeparated(Rad(r, i[1]), Rad(r, i[2])) THEN m.ord[i[1]][i[2]] = 1
                           ELSE m.ord[i[1]][i[2]] >= 0
    [] law = "FactorDecreasing" -> m.fac[i[1]] + 1 >= m.fac[i[2]]        \* one unit of 2^-20 for the quantisation
    [] law = "EqualRadius" -> m.fac[i[1]] - m.fac[i[2]] \in -1 .. 1
AHolds(r, m, law) == \A i \in AInst(r, law) : ASat(r, m, law, i)
AFirstBroken(r, m) == IF \A k \in DOMAIN AsinhLaws : AHolds(r, m, AsinhLaws[k]) THEN ""
                      ELSE AsinhLaws[CHOOSE k \in DOMAIN AsinhLaws :
                                       ~AHolds(r, m, AsinhLaws[k]) /\ \A j \in 1 .. (k - 1) : AHolds(r, m, AsinhLaws[j])]
AInstances(r) == SumInt([k \in DOMAIN AsinhLaws |-> Cardinality(AInst(r, AsinhLaws[k]))])

(* ===================== Part 3: PSF reconstruction ====================== *)
(* Everything is an integer over one common denominator per call.  The scaled position of *)
(* an integer pixel coordinate is (pos + 1/2) / 1000 = (2 pos + 1) / 2000 in lowest terms. *)
PosRat(pos) == Norm(2 * pos + 1, 2000)
NrMax(c) == MaxInt([k \in DOMAIN c.tpl |-> c.tpl[k].nr])
NcMax(c) == MaxInt([k \in DOMAIN c.tpl |-> c.tpl[k].nc])
PsfDen(c) == c.cd * Pow(PosRat(c.ypos)[2], NrMax(c) - 1) * Pow(PosRat(c.xpos)[2], NcMax(c) - 1)
(* numerator of term (i, j) of template t; signed = FALSE takes the magnitude of the term *)
TermNum(c, t, i, j, signed) ==
  LET u == PosRat(c.ypos)
      w == PosRat(c.xpos)
      coef == IF signed THEN t.c[i + 1][j + 1] ELSE Abs(t.c[i + 1][j + 1])
  IN coef * Pow(u[1], i) * Pow(u[2], NrMax(c) - 1 - i) * Pow(w[1], j) * Pow(w[2], NcMax(c) - 1 - j)
ANum(c, t, signed) ==
  SumInt([e \in 1 .. (t.nr * t.nc) |-> TermNum(c, t, (e - 1) \div t.nc, (e - 1) % t.nc, signed)])
(* numerators of the full n x n image, row-major, and of the magnitudes of its terms *)
(* (f \o <<>> makes TLC evaluate the function once instead of on every application)         *)
FullNum(c) == LET a == [k \in DOMAIN c.tpl |-> ANum(c, c.tpl[k], TRUE)] \o <<>>
              IN [q \in 1 .. (c.n * c.n) |-> SumInt([k \in DOMAIN c.tpl |-> a[k] * c.tpl[k].rr[q]])] \o <<>>
FullMag(c) == LET a == [k \in DOMAIN c.tpl |-> ANum(c, c.tpl[k], FALSE)] \o <<>>
              IN [q \in 1 .. (c.n * c.n) |-> SumInt([k \in DOMAIN c.tpl |-> a[k] * Abs(c.tpl[k].rr[q])])] \o <<>>
Trimmed(c) == c.trim # <<>>
OutShape(c) == IF Trimmed(c) THEN c.trim ELSE <<c.n, c.n>>
(* position in the full image of output element (a, b), 1-based: the central block *)
SrcIndex(c, a, b) == LET sh == OutShape(c)
                     IN (a + (c.n - sh[1]) \div 2 - 1) * c.n + b + (c.n - sh[2]) \div 2
OutOf(c, full) == LET sh == OutShape(c)
                  IN [e \in 1 .. (sh[1] * sh[2]) |-> full[SrcIndex(c, (e - 1) \div sh[2] + 1, ((e - 1) % sh[2]) + 1)]] \o <<>>
Normalised(c) == c.norm # <<0, 1>>
PsfDefined(c) ==
  /\ c.fn = "psf" /\ c.n % 2 = 1 /\ c.cd >= 1 /\ c.ypos >= 0 /\ c.xpos >= 0 /\ Len(c.tpl) >= 1
  /\ \A k \in DOMAIN c.tpl : /\ c.tpl[k].nr \in 1 .. Len(c.tpl[k].c) /\ c.tpl[k].nc \in 1 .. Len(c.tpl[k].c[1])
                             /\ Len(c.tpl[k].rr) = c.n * c.n
  /\ Trimmed(c) => /\ Len(c.trim) = 2
                   /\ \A k \in 1 .. 2 : c.trim[k] % 2 = 1 /\ c.trim[k] \in 1 .. c.n
  (* a normalisation is demanded only when the integral is not the result of heavy cancellation *)
  /\ Normalised(c) => /\ c.norm[1] > 0
                      /\ 4 * Abs(SumInt(FullNum(c))) >= SumInt(FullMag(c))
                      /\ SumInt(FullMag(c)) > 0
                      /\ Trimmed(c) => 4 * Abs(SumInt(OutOf(c, FullNum(c)))) >= SumInt(FullMag(c))
PsfExpected(c) ==
  LET num == OutOf(c, FullNum(c))
      mag == MaxInt(FullMag(c))
      D == PsfDen(c)
      S == SumInt(FullNum(c))
      St == SumInt(num)
  IN IF ~Normalised(c)
     THEN [err |-> FALSE, warn |-> FALSE, shape |-> OutShape(c), val |-> [e \in DOMAIN num |-> Norm(num[e], D)],
           alt |-> [e \in DOMAIN num |-> Norm(num[e], D)], mag |-> Norm(mag, D)]
     ELSE [err |-> FALSE, warn |-> FALSE, shape |-> OutShape(c),
           val |-> [e \in DOMAIN num |-> Norm(num[e] * c.norm[1], S * c.norm[2])],
           alt |-> [e \in DOMAIN num |-> Norm(num[e] * c.norm[1], St * c.norm[2])],
           mag |-> Norm(mag * c.norm[1], Abs(IF Abs(St) < Abs(S) THEN St ELSE S) * c.norm[2])]

(* ---- laws of the reconstruction (INVARIANTs of MC_RgbPsf) ---- *)
ZeroBeyondOrder(t) == [t EXCEPT !.c = [i \in DOMAIN t.c |-> [j \in DOMAIN t.c[i] |->
                                          IF i <= t.nr /\ j <= t.nc THEN t.c[i][j] ELSE 0]]]
GarbageIrrelevant(c) == FullNum(c) = FullNum([c EXCEPT !.tpl = [k \in DOMAIN c.tpl |-> ZeroBeyondOrder(c.tpl[k])]])
(* the image is additive in the templates: reconstructing each template alone and adding  *)
TemplatesAdd(c) == LET one(k) == [c EXCEPT !.tpl = <<c.tpl[k]>>]
                       all == FullNum(c)
                       each == [k \in DOMAIN c.tpl |-> FullNum(one(k))] \o <<>>
                       lift == [k \in DOMAIN c.tpl |-> PsfDen(c) \div PsfDen(one(k))] \o <<>>
                   IN \A q \in 1 .. (c.n * c.n) : all[q] = SumInt([k \in DOMAIN c.tpl |-> each[k][q] * lift[k]])
(* second phrasing of a_k with module Rat (Horner in the row variable), for small instances *)
RECURSIVE HornerRat(_, _)
HornerRat(coefs, x) == IF coefs = <<>> THEN Zero ELSE Add(coefs[1], Mul(x, HornerRat(Tail(coefs), x)))
ARat(c, t) == LET u == PosRat(c.ypos)
                  w == PosRat(c.xpos)
              IN HornerRat([i \in 1 .. t.nr |-> HornerRat([j \in 1 .. t.nc |-> R(t.c[i][j], c.cd)], w)], u)
TwoPhrasings(c) == \A k \in DOMAIN c.tpl :
                      ARat(c, c.tpl[k]) = Norm(ANum(c, c.tpl[k], TRUE), PsfDen(c))
CentreStaysCentre(c) == LET sh == OutShape(c)
                        IN SrcIndex(c, (sh[1] + 1) \div 2, (sh[2] + 1) \div 2) = (c.n * c.n + 1) \div 2
(* the integral of the normalised untrimmed image is the requested value (summed over the   *)
(* common denominator |S| * norm[2], which every element's denominator divides)              *)
NormalisedIntegral(c) ==
  (Normalised(c) /\ ~Trimmed(c)) =>
     LET v == PsfExpected(c).val
         L == Abs(SumInt(FullNum(c))) * c.norm[2]
     IN /\ \A e \in DOMAIN v : L % v[e][2] = 0
        /\ Norm(SumInt([e \in DOMAIN v |-> v[e][1] * (L \div v[e][2])]), L) = c.norm
(* with trimming, the two accepted readings are both proportional to the trimmed numerators:  *)
(* same zeros, and signs that differ exactly when the two integrals have opposite signs       *)
Sgn(x) == IF x < 0 THEN -1 ELSE IF x > 0 THEN 1 ELSE 0
NormalisedReadings(c) ==
  (Normalised(c) /\ Trimmed(c)) =>
     LET e == PsfExpected(c)
         S == SumInt(FullNum(c))
         St == SumInt(OutOf(c, FullNum(c)))
     IN \A k \in DOMAIN e.val : Sgn(e.val[k][1]) * Sgn(S) = Sgn(e.alt[k][1]) * Sgn(St)

(* ---- fixed-point comparison for recorded PSF calls (32-bit safe) ---- *)
(* value num/den (den > 0) as <<floor, first 20 fractional bits>>                           *)
RECURSIVE FixBits(_, _, _)
FixBits(rem, den, n) == IF n = 0 THEN 0
                        ELSE IF 2 * rem >= den THEN Pow(2, n - 1) + FixBits(2 * rem - den, den, n - 1)
                        ELSE FixBits(2 * rem, den, n - 1)
Fix20(num, den) == <<num \div den, FixBits(num % den, den, 20)>>
FixDiff(g, e) == IF g[1] - e[1] \in -1 .. 1 THEN (g[1] - e[1]) * FacOne + g[2] - e[2] ELSE 2 * FacOne
CeilDiv(a, b) == (a + b - 1) \div b
PsfTolPerUnit == 16           \* 16 * 2^-20 = 1.5e-5 of the magnitude of the terms (float32 accumulation)
(* got[e] = <<floor(g), floor(2^20 frac(g))>> measured; returns "" or the first bad element *)
PsfJudgeWith(c, full, got) ==
  LET num == OutOf(c, full)
      D == PsfDen(c)
      mag == MaxInt(FullMag(c))
      S == SumInt(full)
      St == SumInt(num)
      sg(x) == IF x < 0 THEN -1 ELSE 1
      ExpFix(e, tot) == IF Normalised(c) THEN Fix20(sg(tot) * num[e] * c.norm[1], Abs(tot) * c.norm[2])
                        ELSE Fix20(num[e], D)
      Tol(tot) == IF Normalised(c) THEN 2 + 9 * CeilDiv(PsfTolPerUnit * mag * c.norm[1], Abs(tot) * c.norm[2])
                  ELSE 2 + CeilDiv(PsfTolPerUnit * mag, D)
      Near(e, tot) == Abs(FixDiff(got[e], ExpFix(e, tot))) <= Tol(tot)
      AllNear(tot) == tot # 0 /\ \A e \in DOMAIN num : Near(e, tot)
  IN IF Len(got) # Len(num) THEN "length"
     ELSE IF ~Normalised(c) THEN (IF AllNear(1) THEN "" ELSE "value")
     ELSE IF AllNear(S) \/ (Trimmed(c) /\ AllNear(St)) THEN ""
     ELSE "value"
PsfJudge(c, got) == PsfJudgeWith(c, FullNum(c), got)

(* ---- named deviations of pydl found with this module ---- *)
(* The unfixed code computes, for EVERY template k, with (nr0, nc0) the orders of template 1:  *)
(*     sum( c[k][0:nr0, 0:nc0] * transpose(P[0:nr0, 0:nc0]) ),  P[i][j] = y^i x^j,              *)
(* where the file's table has the column power on its first axis.  Hence                       *)
(* D-X03-1  (nr0 = nc0) the orders of template 1 are applied to every template: higher-order    *)
(*          terms of later templates are dropped, or the garbage beyond their own order added.  *)
(* D-X03-2  (nr0 # nc0) the table is sliced with the row order along the column-power axis:     *)
(*          numpy refuses to multiply an nr0 x nc0 by an nc0 x nr0 array (ValueError) unless    *)
(*          one order is 1, in which case it broadcasts them to an outer product:               *)
(*          a_k = (sum of the first nc0 constant-in-x coefficients) * (1 + x + .. + x^(nc0-1))  *)
(*          resp. the same with rows and columns exchanged.                                     *)
Dev_Raises(c) == c.tpl[1].nr # c.tpl[1].nc /\ c.tpl[1].nr # 1 /\ c.tpl[1].nc # 1
Dev_ANum(c, t) ==
  LET nr0 == c.tpl[1].nr
      nc0 == c.tpl[1].nc
      u == PosRat(c.ypos)
      w == PosRat(c.xpos)
      dr == NrMax(c) - 1
      dc == NcMax(c) - 1
  IN IF nr0 = nc0 THEN ANum(c, [t EXCEPT !.nr = nr0, !.nc = nc0], TRUE)
     ELSE IF nr0 = 1
          THEN SumInt([a \in 1 .. nc0 |-> t.c[a][1]]) * SumInt([a \in 1 .. nc0 |-> Pow(w[1], a - 1) * Pow(w[2], dc - (a - 1))]) * Pow(u[2], dr)
          ELSE SumInt([b \in 1 .. nr0 |-> t.c[1][b]]) * SumInt([b \in 1 .. nr0 |-> Pow(u[1], b - 1) * Pow(u[2], dr - (b - 1))]) * Pow(w[2], dc)
Dev_FullNum(c) == LET a == [k \in DOMAIN c.tpl |-> Dev_ANum(c, c.tpl[k])] \o <<>>
                  IN [q \in 1 .. (c.n * c.n) |-> SumInt([k \in DOMAIN c.tpl |-> a[k] * c.tpl[k].rr[q]])] \o <<>>
Dev_Id(c) == IF c.tpl[1].nr = c.tpl[1].nc THEN "D-X03-1" ELSE "D-X03-2"
(* which deviation, if any, explains an observed result / exception exactly *)
Dev_ExplainsValue(c, got) == IF ~Dev_Raises(c) /\ Dev_FullNum(c) # FullNum(c) /\ PsfJudgeWith(c, Dev_FullNum(c), got) = ""
                             THEN Dev_Id(c) ELSE ""
Dev_ExplainsError(c, exc) ==
  IF Dev_Raises(c) THEN (IF exc = "ValueError" THEN "D-X03-2" ELSE "")
  ELSE IF exc = "non-finite or huge result" /\ Normalised(c) /\ SumInt(Dev_FullNum(c)) = 0 THEN Dev_Id(c)
  ELSE ""

Defined(c) == IF c.fn = "psf" THEN PsfDefined(c) ELSE RgbDefined(c)
Expected(c) == IF c.fn = "psf" THEN PsfExpected(c) ELSE RgbExpected(c)
=============================================================================
