--------------------------- MODULE SweepCircle ---------------------------
(***************************************************************************)
(* X07 (growth unit) - pydl.pydlutils.sdss.sdss_sweep_circle: search of    *)
(* the SDSS data-sweep files around a sky position, driven by the sweep    *)
(* index; module-level index cache; primary selection through the          *)
(* RESOLVE_STATUS bit that sdss_flagval assigns to SURVEY_PRIMARY.         *)
(*                                                                         *)
(* Documentation the statements are read from: the docstring ("Read the    *)
(* SDSS datasweep files and return objects around a location"; ra, dec:    *)
(* the location, radius: "the radius around ra, dec to search"; stype:     *)
(* 'star', 'gal' or 'sky'; allobj: "return all objects found, not just     *)
(* SURVEY_PRIMARY"; raises PydlutilsException if PHOTO_SWEEP is not set;   *)
(* "assumes that the sweep files exist in PHOTO_SWEEP and that index files *)
(* have been created"), and, for the meaning of the index columns, the     *)
(* IDL routine it ports (sdss_sweep_circle.pro / sdss_sweep_index.pro:     *)
(* ISTART..IEND is the INCLUSIVE 0-based row range of a field in           *)
(* calibObj-RUN6-CAMCOL-TYPE.fits.gz, NPRIMARY its number of               *)
(* SURVEY_PRIMARY rows).                                                   *)
(*                                                                         *)
(* Behavioural statements decided (for every well-formed sweep tree, every *)
(* position / radius with no object exactly at distance radius):           *)
(*  S1 stype outside {'star','gal','sky'}: the call raises (the kind of    *)
(*     exception is not documented and left open), whatever PHOTO_SWEEP.   *)
(*  S2 valid stype, PHOTO_SWEEP unset: raises PydlutilsException.          *)
(*  S3 otherwise no exception; the rows returned are EXACTLY the rows of   *)
(*     the indexed fields of that stype (rows ISTART..IEND inclusive of    *)
(*     each index entry, so including the last row of every range and the  *)
(*     last field of every run/camcol file) whose position is closer than  *)
(*     radius to (ra, dec); each row once (no duplicates), every column of *)
(*     the row as stored in the file.  The order of the rows is not        *)
(*     documented: open.                                                   *)
(*  S4 allobj=False (default) keeps of those exactly the rows whose        *)
(*     RESOLVE_STATUS has the bit that the loaded maskbits table assigns   *)
(*     to SURVEY_PRIMARY (official table: bit 8); allobj=True keeps all.   *)
(*  S5 nothing selected: an empty result (the code returns None; None or a *)
(*     zero-length array are both accepted, the docstring is silent).      *)
(*  S6 the result does not depend on: the order of the index entries, the  *)
(*     order of the fields inside a file, how many fields a run/camcol     *)
(*     group has (1, 2, ...), how many rows a range has (0, 1, ...), the   *)
(*     integer widths of the FITS columns, the numeric type of ra / dec /  *)
(*     radius (float, numpy scalars), the other stypes' files in the tree. *)
(*  S7 the index is only a way to find the rows: provided every object     *)
(*     lies within 0.36 deg of its field's index position (the bound the   *)
(*     code's match radius radius+0.36 presumes), looking only at fields   *)
(*     within radius+0.36 loses nothing (law MarginSound), and the         *)
(*     index-driven procedure (fields within radius+0.36, NPRIMARY > 0     *)
(*     unless allobj, grouped by run+camcol, rows min ISTART..max IEND)    *)
(*     returns exactly S3/S4 (law AlgoIsResult).                           *)
(*  S8 histories: a call's outcome is the one above whatever calls came    *)
(*     before (failed calls, calls for other stypes, calls under another   *)
(*     PHOTO_SWEEP for OTHER stypes, the same tree at another path),       *)
(*     provided every earlier call of the SAME stype that got as far as    *)
(*     reading an index saw the same index as the current tree's.  When an *)
(*     earlier call cached a different index for this stype (PHOTO_SWEEP   *)
(*     changed in between) the documentation says nothing: OPEN (the code  *)
(*     re-uses the first index for the life of the process).  The          *)
(*     module-level cache sweep_cache[stype] is, after any call, None or   *)
(*     one of the indexes seen for that stype, never another stype's.      *)
(*                                                                         *)
(* Vocabulary.  Positions are integers, unit 0.001 deg, measured along ONE *)
(* great circle (the equator, possibly across RA 0/360, or a meridian), so *)
(* the angular distance of p and q is exactly |p - q|; the harness chooses *)
(* the circle (tree.geom) and the spec never looks at it.  Objects sit on  *)
(* multiples of 10, searches on odd multiples of 5 with radii multiples of *)
(* 10: no object is ever at distance radius, no field at radius+360.       *)
(*   object  [id, pos, rs]          rs = set of set bits of RESOLVE_STATUS *)
(*   file    [run, camcol, rerun, objs]     rows of one calibObj file      *)
(*   entry   [run, camcol, rerun, pos, ist, iend, npri]   one index row    *)
(*   sub     [idx : Seq(entry), files : Seq(file)]   one stype of a tree   *)
(*   tree    [sub : [star, gal, sky -> sub], pbit, lay, geom]              *)
(*           pbit = bit of SURVEY_PRIMARY in the loaded maskbits table,    *)
(*           lay = FITS column widths (never influences the outcome)       *)
(*   call    [pos, radius, stype, allobj, form]   (form: argument types)   *)
(*   outcome [err, exc, ids]   err = raises (exc = kind, "any" = open),    *)
(*           ids = the set of ids of the rows returned                     *)
(*                                                                         *)
(* Deviations found (Dev_* below, see Algo): D-X07-1 "grp" one field of    *)
(* every run/camcol group is dropped (IndexError for a group of one),      *)
(* D-X07-2 "row" the last row of the range is not read, D-X07-3 "one"      *)
(* spherematch refuses a single point (one index entry / one row read),    *)
(* D-X07-4 "sgn" signed RESOLVE_STATUS & uint64 flag raises TypeError.     *)
(***************************************************************************)
EXTENDS Integers, Sequences, FiniteSets, TLC

STypes == {"star", "gal", "sky"}
Margin == 360            \* 0.36 deg
Abs(x) == IF x < 0 THEN -x ELSE x
Dist(p, q) == Abs(p - q)
SetMin(S) == CHOOSE x \in S : \A y \in S : x <= y
SetMax(S) == CHOOSE x \in S : \A y \in S : x >= y
Idx(sq) == 1..Len(sq)

Ok(ids) == [err |-> FALSE, exc |-> "", ids |-> ids]
Err(kind) == [err |-> TRUE, exc |-> kind, ids |-> {}]
NoRet == Ok({})
NoSub == [idx |-> <<>>, files |-> <<>>]
NoEnv == [sub |-> [star |-> NoSub, gal |-> NoSub, sky |-> NoSub], pbit |-> -1, lay |-> "", geom |-> ""]
Unset(e) == e.pbit < 0                     \* PHOTO_SWEEP is not set

(* ---- trees ---- *)
FileNos(sub, run, camcol) == {k \in Idx(sub.files) : sub.files[k].run = run /\ sub.files[k].camcol = camcol}
FileOf(sub, e) == sub.files[CHOOSE k \in FileNos(sub, e.run, e.camcol) : TRUE]
Rows(e) == e.ist..e.iend                                   \* 0-based, inclusive
EntryObjs(sub, e) == LET f == FileOf(sub, e) IN {f.objs[k + 1] : k \in Rows(e)}
Indexed(sub) == UNION {EntryObjs(sub, sub.idx[i]) : i \in Idx(sub.idx)}
AllObjs(sub) == UNION {{sub.files[k].objs[j] : j \in Idx(sub.files[k].objs)} : k \in Idx(sub.files)}
NObjs(sub) == LET n[k \in 0..Len(sub.files)] == IF k = 0 THEN 0 ELSE n[k - 1] + Len(sub.files[k].objs) IN n[Len(sub.files)]

(* what "the index files have been created" (from these sweep files) means *)
WellFormed(sub, pbit) ==
  /\ Len(sub.idx) >= 1
  /\ \A k \in Idx(sub.files) : LET f == sub.files[k] IN
        /\ f.camcol \in 1..6 /\ f.run >= 0
        /\ FileNos(sub, f.run, f.camcol) = {k}
  /\ \A i \in Idx(sub.idx) : LET e == sub.idx[i] IN
        /\ FileNos(sub, e.run, e.camcol) # {}
        /\ e.rerun = FileOf(sub, e).rerun
        /\ e.ist >= 0 /\ e.iend >= e.ist - 1 /\ e.iend <= Len(FileOf(sub, e).objs) - 1
        /\ e.npri = Cardinality({o \in EntryObjs(sub, e) : pbit \in o.rs})
        /\ \A o \in EntryObjs(sub, e) : Dist(o.pos, e.pos) < Margin
  (* the ranges of one file are disjoint and cover it: every row belongs to one field *)
  /\ \A i, j \in Idx(sub.idx) :
        (i # j /\ sub.idx[i].run = sub.idx[j].run /\ sub.idx[i].camcol = sub.idx[j].camcol)
           => Rows(sub.idx[i]) \cap Rows(sub.idx[j]) = {}
  /\ \A k \in Idx(sub.files) : LET f == sub.files[k] IN
        \A r \in 0..(Len(f.objs) - 1) :
           \E i \in Idx(sub.idx) : sub.idx[i].run = f.run /\ sub.idx[i].camcol = f.camcol /\ r \in Rows(sub.idx[i])
  /\ Cardinality({o.id : o \in AllObjs(sub)}) = NObjs(sub)         \* ids name the rows
  /\ \A o \in AllObjs(sub) : o.rs \subseteq 0..63

WellFormedTree(t) == \A st \in STypes : WellFormed(t.sub[st], t.pbit)

(* ---- the documented outcome of one call ---- *)
Primary(o, pbit) == pbit \in o.rs
Wanted(sub, pbit, c) ==
  {o \in Indexed(sub) : Dist(o.pos, c.pos) < c.radius /\ (c.allobj \/ Primary(o, pbit))}
Result(sub, pbit, c) == Ok({o.id : o \in Wanted(sub, pbit, c)})
OnBoundary(sub, c) == \E o \in Indexed(sub) : Dist(o.pos, c.pos) = c.radius

Outcome(env, c) ==
  IF c.stype \notin STypes THEN Err("any")
  ELSE IF Unset(env) THEN Err("PydlutilsException")
  ELSE Result(env.sub[c.stype], env.pbit, c)

(* ---- the index-driven procedure, with switchable deviations ---- *)
(* dv = {} is the documented procedure (IDL semantics of the index columns). *)
Devs == {"grp", "row", "one", "sgn"}
SignedLay(lay) == lay \in {"model", "wide", "short"}     \* FITS integer columns are signed
RC(e) == e.run * 6 + e.camcol - 1
Near(sub, c) == {i \in Idx(sub.idx) : Dist(sub.idx[i].pos, c.pos) < c.radius + Margin}
Matched(sub, c) == IF c.allobj THEN Near(sub, c) ELSE {i \in Near(sub, c) : sub.idx[i].npri > 0}
GroupsOf(sub, c) == {RC(sub.idx[i]) : i \in Matched(sub, c)}
Members(sub, c, g) == {i \in Matched(sub, c) : RC(sub.idx[i]) = g}
(* Deviation "grp" loses one entry of every group: the one that happens to be sorted last among   *)
(* equal run*6+camcol keys.  The sort is not stable, so WHICH entry is lost is not determined:    *)
(* drop is any function that picks one member per group.                                          *)
DropChoices(sub, c) == {d \in [GroupsOf(sub, c) -> Idx(sub.idx)] : \A g \in GroupsOf(sub, c) : d[g] \in Members(sub, c, g)}
Algo(sub, pbit, lay, c, dv, drop) ==
  LET idx == sub.idx
      groups == GroupsOf(sub, c)
      Used(g) == IF "grp" \in dv THEN Members(sub, c, g) \ {drop[g]} ELSE Members(sub, c, g)
      GOut(g) ==
        IF Used(g) = {} THEN Err("IndexError")
        ELSE LET ist == SetMin({idx[i].ist : i \in Used(g)})
                 ind == SetMax({idx[i].iend : i \in Used(g)})
                 hi == IF "row" \in dv THEN ind - 1 ELSE ind
                 f == FileOf(sub, idx[CHOOSE i \in Used(g) : TRUE])
                 rows == {k \in ist..hi : k <= Len(f.objs) - 1}
                 close == {o \in {f.objs[k + 1] : k \in rows} : Dist(o.pos, c.pos) < c.radius}
             IN IF ind < ist \/ rows = {} THEN Ok({})
                ELSE IF "one" \in dv /\ Cardinality(rows) = 1 THEN Err("PydlutilsException")
                ELSE IF close = {} THEN Ok({})
                ELSE IF c.allobj THEN Ok({o.id : o \in close})
                ELSE IF "sgn" \in dv /\ SignedLay(lay) THEN Err("TypeError")
                ELSE Ok({o.id : o \in {x \in close : Primary(x, pbit)}})
      bad == {g \in groups : GOut(g).err}
  IN IF "one" \in dv /\ Len(idx) = 1 THEN Err("PydlutilsException")
     ELSE IF bad # {} THEN GOut(SetMin(bad))             \* groups are visited by ascending run*6+camcol
     ELSE Ok(UNION {GOut(g).ids : g \in groups})

(* the outcomes a call may have under the deviations dv *)
DevOutcomes(env, c, dv) ==
  IF c.stype \notin STypes \/ Unset(env) THEN {Outcome(env, c)}
  ELSE LET sub == env.sub[c.stype]
       IN {Algo(sub, env.pbit, env.lay, c, dv, d) : d \in DropChoices(sub, c)}

(* the known deviations, by finding number; the smallest set that reproduces an       *)
(* observation explains it, and the observation is filed under its lowest number      *)
DevName == <<"grp", "row", "one", "sgn">>
DevSets == << {"grp"}, {"row"}, {"one"}, {"sgn"},
              {"grp", "row"}, {"grp", "one"}, {"grp", "sgn"}, {"row", "one"}, {"row", "sgn"}, {"one", "sgn"},
              {"grp", "row", "one"}, {"grp", "row", "sgn"}, {"grp", "one", "sgn"}, {"row", "one", "sgn"},
              {"grp", "row", "one", "sgn"} >>
Dev_GroupLosesAnEntry(env, c) == DevOutcomes(env, c, {"grp"})
Dev_LastRowNotRead(env, c) == DevOutcomes(env, c, {"row"})
Dev_SinglePointRefused(env, c) == DevOutcomes(env, c, {"one"})
Dev_SignedStatusTypeError(env, c) == DevOutcomes(env, c, {"sgn"})

(* obs matches an outcome: same kind; a documented exception kind must be that kind *)
Matches(obs, o) ==
  /\ obs.err = o.err
  /\ (o.err /\ o.exc # "any") => obs.exc = o.exc
  /\ ~o.err => obs.ids = o.ids
Explains(env, c, obs, k) == \E o \in DevOutcomes(env, c, DevSets[k]) : Matches(obs, o)
(* the first (hence a smallest) deviation set that reproduces obs; 0 = none does *)
RECURSIVE FirstExplaining(_, _, _, _)
FirstExplaining(env, c, obs, k) ==
  IF k > Len(DevSets) THEN 0 ELSE IF Explains(env, c, obs, k) THEN k ELSE FirstExplaining(env, c, obs, k + 1)
FindingOf(dset) == SetMin({k \in 1..4 : DevName[k] \in dset})

(* ---- the machine over histories ---- *)
(* env  = the tree PHOTO_SWEEP points to (NoEnv = unset)                              *)
(* seen = per stype the set of indexes that calls of this process may have cached     *)
VARIABLES env, seen, ret

MInit == /\ env = NoEnv
         /\ seen = [st \in STypes |-> {}]
         /\ ret = NoRet

SetEnv(t) == /\ env' = t
             /\ UNCHANGED seen
             /\ ret' = NoRet

ReadsIndex(e, c) == c.stype \in STypes /\ ~Unset(e)
(* the index file of a stype: its entries, on the tree's great circle, in the tree's column layout *)
IndexOf(t, st) == <<t.sub[st].idx, t.geom, t.lay>>
SeenAfter(e, s, c) == IF ReadsIndex(e, c)
                      THEN [s EXCEPT ![c.stype] = @ \cup {IndexOf(e, c.stype)}]
                      ELSE s
(* the statements decide the call: S1/S2 always; S3.. when the tree is well formed, no object *)
(* is on the boundary and no other index can be in the cache for this stype                   *)
Specified(e, s, c) ==
  IF ~ReadsIndex(e, c) THEN TRUE
  ELSE /\ WellFormed(e.sub[c.stype], e.pbit)
       /\ c.radius >= 0
       /\ ~OnBoundary(e.sub[c.stype], c)
       /\ SeenAfter(e, s, c)[c.stype] = {IndexOf(e, c.stype)}

Open == [err |-> FALSE, exc |-> "open", ids |-> {}]
Call(c) == /\ seen' = SeenAfter(env, seen, c)
           /\ ret' = IF Specified(env, seen, c) THEN Outcome(env, c) ELSE Open
           /\ UNCHANGED env

(* ---- laws (each about one tree / one call; checked on bounded instances) ---- *)
(* S7: a wanted object belongs to an entry within radius + 0.36 deg *)
MarginSound(sub, pbit, c) ==
  \A o \in Wanted(sub, pbit, c) :
     \E i \in Idx(sub.idx) : o \in EntryObjs(sub, sub.idx[i]) /\ Dist(sub.idx[i].pos, c.pos) < c.radius + Margin
(* S7: the index-driven procedure without deviations is the documented result *)
AlgoIsResult(sub, pbit, lay, c) == \A d \in DropChoices(sub, c) : Algo(sub, pbit, lay, c, {}, d) = Result(sub, pbit, c)
(* S4: the default is the SURVEY_PRIMARY part of allobj *)
PrimaryPart(sub, pbit, c) ==
  LET all == Wanted(sub, pbit, [c EXCEPT !.allobj = TRUE])
  IN Wanted(sub, pbit, [c EXCEPT !.allobj = FALSE]) = {o \in all : Primary(o, pbit)}
(* S3: a larger radius returns a superset *)
Monotone(sub, pbit, c, r2) ==
  r2 >= c.radius => Result(sub, pbit, c).ids \subseteq Result(sub, pbit, [c EXCEPT !.radius = r2]).ids
(* S6: the order of the index entries is irrelevant *)
RevSeq(sq) == [i \in Idx(sq) |-> sq[Len(sq) + 1 - i]] \o <<>>
IndexOrderIrrelevant(sub, pbit, c) ==
  Result([sub EXCEPT !.idx = RevSeq(sub.idx)], pbit, c) = Result(sub, pbit, c)
(* S3: the last row of every range and the last entry of every group can be returned *)
LastRowReturnable(sub, pbit) ==
  \A i \in Idx(sub.idx) : LET e == sub.idx[i] IN
     e.iend >= e.ist =>
        LET o == FileOf(sub, e).objs[e.iend + 1]
            c == [pos |-> o.pos + 5, radius |-> 10, stype |-> "star", allobj |-> TRUE, form |-> ""]
        IN o.id \in Result(sub, pbit, c).ids
(* each deviation is a genuine deviation: it never ADDS a row, and without it the procedure is exact *)
DevNeverAdds(sub, pbit, lay, c) ==
  \A k \in Idx(DevSets) : \A d \in DropChoices(sub, c) :
     LET o == Algo(sub, pbit, lay, c, DevSets[k], d) IN ~o.err => o.ids \subseteq Result(sub, pbit, c).ids
=============================================================================
