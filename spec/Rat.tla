------------------------------- MODULE Rat -------------------------------
(* Exact rational arithmetic for the oracles: a rational is <<num, den>> with den > 0,   *)
(* kept in lowest terms.  TLC integers are 32-bit and overflow is a loud TLC error, so    *)
(* users of this module choose inputs whose intermediate terms stay small.                *)
EXTENDS Integers, Sequences

Abs(x) == IF x < 0 THEN -x ELSE x
RECURSIVE GCD(_, _)
GCD(a, b) == IF b = 0 THEN Abs(a) ELSE GCD(b, a % b)

Norm(n, d) == LET s == IF d < 0 THEN -1 ELSE 1
                  g == GCD(Abs(n), Abs(d))
              IN IF n = 0 THEN <<0, 1>> ELSE << (s * n) \div g, (s * d) \div g >>
R(n, d) == Norm(n, d)
OfInt(i) == <<i, 1>>
Zero == <<0, 1>>
One == <<1, 1>>
IsRat(q) == q \in Int \X Int /\ q[2] > 0 /\ GCD(Abs(q[1]), q[2]) = 1

Add(a, b) == Norm(a[1] * b[2] + b[1] * a[2], a[2] * b[2])
Neg(a) == <<-a[1], a[2]>>
Sub(a, b) == Add(a, Neg(b))
Mul(a, b) == Norm(a[1] * b[1], a[2] * b[2])
Inv(a) == Norm(a[2], a[1])
Div(a, b) == Mul(a, Inv(b))
Lt(a, b) == a[1] * b[2] < b[1] * a[2]
Le(a, b) == a[1] * b[2] <= b[1] * a[2]
Eq(a, b) == a[1] * b[2] = b[1] * a[2]
Max2(a, b) == IF Lt(a, b) THEN b ELSE a
Min2(a, b) == IF Lt(a, b) THEN a ELSE b
RAbs(a) == <<Abs(a[1]), a[2]>>
Floor(a) == a[1] \div a[2]          \* TLC's \div floors towards minus infinity
IsInt(a) == a[2] = 1

RECURSIVE SumSeq(_)
SumSeq(s) == IF s = <<>> THEN Zero ELSE Add(s[1], SumSeq(Tail(s)))
RECURSIVE Dot(_, _)
Dot(s, t) == IF s = <<>> THEN Zero ELSE Add(Mul(s[1], t[1]), Dot(Tail(s), Tail(t)))
=============================================================================
