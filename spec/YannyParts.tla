----------------------------- MODULE YannyParts -----------------------------
(***************************************************************************)
(* X08 (growth unit) - the parts of the yanny reader / writer, one by one. *)
(*                                                                         *)
(* The listed properties C01-C03 exercise pydl.pydlutils.yanny only        *)
(* through whole files.  This module states what each public helper and    *)
(* accessor of the class returns on its own, by PROJECTING the reference   *)
(* model of the format (module Yanny, DESIGN.md Appendix A) onto the       *)
(* value that helper is documented to return.  No second tokenizer: words  *)
(* come from Yanny!TZStep, quoting from Yanny!Protect, typedefs from       *)
(* Yanny!TypedefTokens / NameDims / ColOf / ParseTypedef, files from       *)
(* Yanny!SpecParse, typedef text from Yanny!StructText / EnumText.         *)
(* Strings are sequences of one-character strings.                         *)
(*                                                                         *)
(* Behavioural statements decided (sources: the docstrings and doctests of *)
(* the methods, pydl/pydlutils/tests/test_yanny.py + t/test.par +          *)
(* t/yanny_data.json, the module docstring):                               *)
(*                                                                         *)
(* S1 get_token.  For every one-line string that does not start with a     *)
(*    blank and whose first word is complete, get_token returns (word,     *)
(*    remainder): a bare word is the characters up to the first blank (a   *)
(*    '#' is an ordinary character here); a word in double quotes is the   *)
(*    text between the quotes; a word in braces is the text between the    *)
(*    braces, not split (blanks next to the braces may be kept or not);    *)
(*    the remainder is the rest of the string after the blanks that follow *)
(*    the word, and it is the empty string when the word was the last one. *)
(*    Consequently taking tokens repeatedly yields exactly the tokens of   *)
(*    the line (law GetTokenIterates).  Left open (documentation silent):  *)
(*    the empty string, a leading blank, an unterminated quote or brace,   *)
(*    braces nested or containing a quoted '}'.                            *)
(* S2 protect.  protect(x) is the text of x, wrapped in double quotes      *)
(*    exactly when it is empty or contains white space or '#'; whether x   *)
(*    arrives as str, numpy str_ or numpy bytes_ is irrelevant.  What it   *)
(*    returns is read back as one token whose value is x (law              *)
(*    ProtectReadsBack).                                                   *)
(* S3 trailing_comment.  The first '#' outside double quotes starts the    *)
(*    trailing comment; the result is the line up to it with the residual  *)
(*    white space removed; a line without comment is returned as it is     *)
(*    (possibly without its trailing blanks).  The limitations the         *)
(*    docstring names - a comment body with another '#' or with an odd     *)
(*    number of double quotes (Yanny!HostileTrailingComment) - are         *)
(*    documented and left open, as are an unbalanced quote before the '#'  *)
(*    and a '#' glued to the preceding word; for those only the weak law   *)
(*    "the result is the line, or the line cut at one of its '#' and       *)
(*    right-trimmed" is demanded.                                          *)
(* S4 dtype_to_struct.  For a record dtype of 16/32/64-bit integers,       *)
(*    32/64-bit floats and fixed-width strings (bytes or unicode), scalar  *)
(*    or 1-D sub-arrays, the result maps the upper-cased structure name to *)
(*    the column names in order, 'struct' to the one typedef text of       *)
(*    Yanny!StructText (short/int/long/float/double by size, char NAME[w]  *)
(*    with w the number of characters, NAME[m] / NAME[m][w] for arrays,    *)
(*    the upper-cased enum type for string columns named in `enums`) and   *)
(*    'enum' to the Yanny!EnumText definitions of the declared enums (at   *)
(*    least those the structure uses; repetitions allowed).  Byte order,   *)
(*    field padding, list-or-tuple labels and enums = None / {} are        *)
(*    irrelevant; the arguments are not modified.  Other scalar types      *)
(*    (unsigned, 8-bit, bool, half, complex) raise.                        *)
(* S5 accessors.  For an object read from a file, as a function of the    *)
(*    file text alone: tables() = the structure names, upper-cased, in     *)
(*    order of definition; columns(t) = the member names in order;         *)
(*    size(t) = the number of rows; pairs() = the keywords in order of     *)
(*    first occurrence; and for every member declaration                   *)
(*    TYPE NAME, NAME[n], NAME<n>, char NAME[w], char NAME[n][w] (brackets *)
(*    of either kind, in any mixture), char NAME[], char NAME[n][] and     *)
(*    enum types: type() = TYPE followed by the dimensions in square       *)
(*    brackets, basetype() = TYPE, isarray() = a numeric/enum member with  *)
(*    one dimension or a char member with two, array_length() = that first *)
(*    dimension else 1, isenum() = TYPE is a defined enum, char_length() = *)
(*    the declared width, for [] the longest value in the table, None for  *)
(*    a non-char member; dtype(t) = one field per member (i2 i4 i8 f4 f8,  *)
(*    S<char_length>, for enums a byte string wide enough for every label, *)
(*    sub-array shape (array_length,)); type() of an undefined structure   *)
(*    or member is None.  convert(t, c, v): decimal text to int for        *)
(*    short/int/long, to the nearest float for float/double, element-wise  *)
(*    for arrays, anything else unchanged.  Comments inside a typedef, its *)
(*    layout (one line / several), the letter case of its name and which   *)
(*    accessor is asked first are irrelevant.  Left open: the other        *)
(*    accessors for undefined names, `char NAME;` widths, [] widths of an  *)
(*    empty table, the exact width of enum fields (a width of 0 may show   *)
(*    as 1: numpy has no zero-width array element).                        *)
(***************************************************************************)
EXTENDS Yanny

LStrip(s) == LET a == SelectInSeq(s, LAMBDA c : c \notin WS) IN IF a = 0 THEN <<>> ELSE SubSeq(s, a, Len(s))
RStrip(s) == LET b == SelectLastInSeq(s, LAMBDA c : c \notin WS) IN IF b = 0 THEN <<>> ELSE SubSeq(s, 1, b)
Has(s, c) == \E k \in 1..Len(s) : s[k] = c
(* the same text with blanks next to its ends kept or dropped (all contiguous pieces that strip to the same) *)
Trims(s) == {t \in {SubSeq(s, a, b) : a \in 1..(Len(s) + 1), b \in 0..Len(s)} : Strip(t) = Strip(s)}
(* a text with all, some or none of its leading blanks *)
LeadFree(s) == IF Strip(s) = <<>> THEN {<<>>}
               ELSE {SubSeq(s, a, Len(s)) : a \in 1..SelectInSeq(s, LAMBDA c : c \notin WS)}

(***************************************************************************)
(* S1  get_token                                                           *)
(***************************************************************************)
(* A word that starts with '#' is an ordinary bare word for get_token: the tokenizer is started inside it. *)
GTStart(line) == IF Head(line) = "#" THEN [TZInit EXCEPT !.st = "bare", !.cur = <<"#">>] ELSE TZStep(TZInit, Head(line))
(* run the row tokenizer until the first token is complete; the characters after the one that completed it are the rest *)
GTScan(line) ==
  FoldLeft(LAMBDA acc, c : IF acc.done THEN [acc EXCEPT !.rest = @ \o <<c>>]
                           ELSE LET b == TZStep(acc.a, c) IN [a |-> b, done |-> b.toks # <<>>, rest |-> <<>>],
           [a |-> GTStart(line), done |-> FALSE, rest |-> <<>>], Tail(line))
NoTok == Tok("none", <<>>, <<>>, <<>>)
FirstTok(line) ==
  LET r == GTScan(line) IN
  IF r.done THEN [tok |-> r.a.toks[1], rest |-> r.rest]
  ELSE IF r.a.st = "bare" THEN [tok |-> Tok("bare", r.a.cur, <<>>, <<>>), rest |-> <<>>]
  ELSE [tok |-> NoTok, rest |-> <<>>]

GetTokenClaimed(line) ==
  /\ line # <<>> /\ Head(line) \notin WS /\ ~Has(line, NL)
  /\ LET t == FirstTok(line).tok IN
       /\ t.k # "none"
       /\ t.k = "braced" => (~Has(t.raw, "{") /\ ~Has(t.raw, "}"))
OpenOutcome == [open |-> TRUE, words |-> {}, rems |-> {}]
GetToken(line) ==
  IF ~GetTokenClaimed(line) THEN OpenOutcome
  ELSE LET f == FirstTok(line) IN
       [open |-> FALSE,
        words |-> IF f.tok.k = "braced" THEN Trims(f.tok.raw) ELSE {f.tok.s},
        rems |-> LeadFree(f.rest)]
GetTokenAccepts(line, word, rem) == LET g == GetToken(line) IN g.open \/ (word \in g.words /\ rem \in g.rems)

(* law: taking tokens repeatedly (canonical choice: remainder without its leading blanks) yields the tokens of the line *)
RECURSIVE GTAll(_)
GTAll(line) == IF Strip(line) = <<>> THEN <<>>
               ELSE LET f == FirstTok(LStrip(line)) IN <<f.tok>> \o GTAll(f.rest)
GetTokenIterates(line) ==
  (~Has(line, "#") /\ ~Has(line, NL) /\ \A k \in 1..Len(GTAll(line)) : GTAll(line)[k].k # "none") => GTAll(line) = Tokens(line)

(***************************************************************************)
(* S2  protect                                                             *)
(***************************************************************************)
ProtectKinds == {"str", "npstr", "npbytes"}          \* the representation of the argument: declared irrelevant
ProtectOf(s, kind) == Protect(s)
CharCol == Col(<<"c">>, KwChar, 0, Auto)
ProtectReadsBack(s) ==
  ScalarStringOK(s) => LET t == Tokens(Protect(s)) IN Len(t) = 1 /\ CellOf(CharCol, t[1]) = s

(***************************************************************************)
(* S3  trailing_comment                                                    *)
(***************************************************************************)
(* left-to-right scan: k = position of the first '#' outside double quotes (0: none), inq = a quote is open at the end *)
TCScan(line) ==
  FoldLeft(LAMBDA a, c : IF a.k > 0 THEN a
                         ELSE IF c = DQ THEN [a EXCEPT !.inq = ~a.inq, !.n = a.n + 1]
                         ELSE IF c = "#" /\ ~a.inq THEN [a EXCEPT !.k = a.n + 1, !.n = a.n + 1]
                         ELSE [a EXCEPT !.n = a.n + 1],
           [k |-> 0, inq |-> FALSE, n |-> 0], line)
CommentStart(line) == TCScan(line).k
HashCuts(line) == {RStrip(SubSeq(line, 1, j - 1)) : j \in {i \in 1..Len(line) : line[i] = "#"}}
TCWeak(line) == {line, RStrip(line)} \cup HashCuts(line)
TrailingComment(line) ==
  LET sc == TCScan(line)
      k == sc.k
  IN IF k = 0 THEN
        IF sc.inq /\ Has(line, "#") THEN [open |-> TRUE, vals |-> TCWeak(line)]       \* '#' behind an unbalanced quote
        ELSE [open |-> FALSE, vals |-> {line, RStrip(line)}]
     ELSE IF HostileTrailingComment(line) THEN [open |-> TRUE, vals |-> TCWeak(line)]  \* the documented limitations
     ELSE IF k > 1 /\ line[k - 1] \notin WS THEN [open |-> TRUE, vals |-> TCWeak(line)] \* '#' glued to a word: not claimed
     ELSE [open |-> FALSE, vals |-> {RStrip(SubSeq(line, 1, k - 1))}]
(* the two readings of "hostile" agree: Yanny's predicate is "a comment starts and its body has '#' or an odd number of quotes" *)
HostileAgrees(line) ==
  LET k == CommentStart(line)
      body == SubSeq(line, k + 1, Len(line))
  IN HostileTrailingComment(line) =
       (k > 0 /\ (Has(body, "#") \/ Cardinality({i \in 1..Len(body) : body[i] = DQ}) % 2 = 1))
(* a decided outcome never keeps a '#' that is outside quotes, and is always one of the weak outcomes *)
TCDecidedSound(line) ==
  LET e == TrailingComment(line) IN
  /\ e.vals \subseteq TCWeak(line)
  /\ ~e.open => \A v \in e.vals : CommentStart(v) = 0

(***************************************************************************)
(* S4  dtype_to_struct                                                     *)
(* call: [cols: Seq([name, kind, w, alen]), sname, enums: Seq([col, ename, *)
(*        labels]), order, labelsas, noenums]                              *)
(*   kind in i2 i4 i8 f4 f8 S U (supported) / u4 i1 b1 f2 c8 (refused);    *)
(*   w = number of characters of a string column; alen = 0 for a scalar.   *)
(***************************************************************************)
KwShort == <<"s","h","o","r","t">>
KwInt == <<"i","n","t">>
KwLong == <<"l","o","n","g">>
KwFloat == <<"f","l","o","a","t">>
KwDouble == <<"d","o","u","b","l","e">>
SupportedKinds == {"i2", "i4", "i8", "f4", "f8", "S", "U"}
RefusedKinds == {"u4", "i1", "b1", "f2", "c8"}
TypeNameOf(kind) == CASE kind = "i2" -> KwShort [] kind = "i4" -> KwInt [] kind = "i8" -> KwLong
                      [] kind = "f4" -> KwFloat [] kind = "f8" -> KwDouble
KindOfType(base) == CASE base = KwShort -> "i2" [] base = KwInt -> "i4" [] base = KwLong -> "i8"
                      [] base = KwFloat -> "f4" [] base = KwDouble -> "f8" [] OTHER -> "S"
DtsOrders == {"native", "swapped"}        \* representation of the dtype: declared irrelevant
DtsEnumOf(c, name) == SelectInSeq(c.enums, LAMBDA e : e.col = name)
DtsCol(c, f) ==
  IF f.kind \in {"S", "U"} THEN
     IF DtsEnumOf(c, f.name) > 0 THEN Col(f.name, UpStr(c.enums[DtsEnumOf(c, f.name)].ename), f.alen, NotChar)
     ELSE Col(f.name, KwChar, f.alen, f.w)
  ELSE Col(f.name, TypeNameOf(f.kind), f.alen, NotChar)
DtsEnumText(e) == EnumText([name |-> e.ename, labels |-> e.labels])
DtypeToStruct(c) ==
  IF \E k \in 1..Len(c.cols) : c.cols[k].kind \in RefusedKinds
  THEN [err |-> TRUE, key |-> <<>>, names |-> <<>>, struct |-> <<>>, enumreq |-> {}, enumall |-> {}]
  ELSE [err |-> FALSE,
        key |-> UpStr(c.sname),
        names |-> [k \in 1..Len(c.cols) |-> c.cols[k].name],
        struct |-> StructText([name |-> c.sname, cols |-> [k \in 1..Len(c.cols) |-> DtsCol(c, c.cols[k])]]),
        enumreq |-> {DtsEnumText(c.enums[j]) : j \in {i \in 1..Len(c.enums) :
                        \E k \in 1..Len(c.cols) : c.cols[k].kind \in {"S", "U"} /\ c.cols[k].name = c.enums[i].col}},
        enumall |-> {DtsEnumText(c.enums[j]) : j \in 1..Len(c.enums)}]
(* observed: [err, key, names, struct, enums (the sequence of texts returned)] *)
DtsAccepts(c, o) ==
  LET e == DtypeToStruct(c) IN
  IF e.err THEN o.err
  ELSE ~o.err /\ o.key = e.key /\ o.names = e.names /\ o.struct = e.struct
       /\ e.enumreq \subseteq ToSet(o.enums) /\ ToSet(o.enums) \subseteq e.enumall
(* laws: the typedef text means, to the reference reader, exactly the columns it was made from; representation is irrelevant *)
DtsReadsBack(c) ==
  LET e == DtypeToStruct(c) IN
  ~e.err => LET d == ParseTypedef(e.struct) IN
            /\ d.kind = "struct" /\ d.name = e.key
            /\ d.cols = [k \in 1..Len(c.cols) |-> DtsCol(c, c.cols[k])]
DtsRepresentationFree(c) ==
  \A o \in DtsOrders : DtypeToStruct([c EXCEPT !.order = o]) = DtypeToStruct(c)
(* D-X08-1 (fixed in e02f4b5): a unicode column was declared with its size in bytes (4 per character) *)
Dev_UnicodeBytes(c) ==
  DtypeToStruct([c EXCEPT !.cols = [k \in 1..Len(c.cols) |->
                    IF c.cols[k].kind = "U" THEN [c.cols[k] EXCEPT !.w = 4 * @] ELSE c.cols[k]]])

(***************************************************************************)
(* S5  accessors of an object read from a text                             *)
(***************************************************************************)
TBInit == [blocks |-> <<>>, buf |-> <<>>, act |-> FALSE]
TBLine(a, line) ==           \* the typedef branch of Yanny!PRLine0, keeping the blocks
  IF a.act \/ IsTypedefStart(line) THEN
     LET buf == IF a.act THEN a.buf \o <<NL>> \o line ELSE line IN
     IF TypedefComplete(buf) THEN [blocks |-> Append(a.blocks, buf), buf |-> <<>>, act |-> FALSE]
     ELSE [a EXCEPT !.buf = buf, !.act = TRUE]
  ELSE a
TypedefBlocks(text) == FoldLeft(TBLine, TBInit, LogicalLines(text)).blocks
StructBlocks(text) == SelectSeq(TypedefBlocks(text), LAMBDA b : ParseTypedef(b).kind = "struct")
(* member declaration k of a struct block: the type word and NAME / dimensions *)
DeclOf(buf, k) ==
  LET t == TypedefTokens(buf) IN [type |-> t[3 + 3 * k - 2], nd |-> NameDims(t[3 + 3 * k - 1])]
TypeText(d) == d.type \o Concat([k \in 1..Len(d.nd.dims) |-> <<"[">> \o d.nd.dims[k] \o <<"]">>])

None == [k |-> "none", n |-> 0]
OpenVal == [k |-> "open", n |-> 0]
IntVal(n) == [k |-> "int", n |-> n]
EnumNames(res) == {res.enums[e].name : e \in 1..Len(res.enums)}
EnumWidth(res, base) ==
  LET e == CHOOSE j \in 1..Len(res.enums) : res.enums[j].name = base
  IN MaxOf({Len(res.enums[e].labels[l]) : l \in 1..Len(res.enums[e].labels)})

ColAcc(res, ti, ci, buf) ==
  LET tab == res.tables[ti]
      col == tab.cols[ci]
      d == DeclOf(buf, ci)
      ischar == col.base = KwChar
      isenum == col.base \in EnumNames(res)
      widthopen == ischar /\ (d.nd.dims = <<>> \/ (col.clen = Auto /\ tab.rows = <<>>))
  IN [name |-> col.name,
      type |-> TypeText(d),
      base |-> col.base,
      isarray |-> col.alen > 0,
      isenum |-> isenum,
      alen |-> IF col.alen > 0 THEN col.alen ELSE 1,
      clen |-> IF ~ischar THEN None ELSE IF widthopen THEN OpenVal ELSE IntVal(tab.width[ci]),
      (* the dtype field: kind code, width (exact for char, lower bound for enum), open = not demanded *)
      dt |-> [kind |-> IF ischar \/ isenum THEN "S" ELSE KindOfType(col.base),
              w |-> IF ischar THEN (IF widthopen THEN 0 ELSE tab.width[ci]) ELSE IF isenum THEN EnumWidth(res, col.base) ELSE 0,
              wmin |-> isenum,
              open |-> widthopen,
              shape |-> IF col.alen > 0 THEN <<col.alen>> ELSE <<>>]]

SemicolonInTypedefComment(buf) ==
  FoldLeft(LAMBDA a, c : IF c = NL THEN [a EXCEPT !.cmt = FALSE]
                         ELSE IF a.cmt THEN [a EXCEPT !.hit = a.hit \/ c = ";"]
                         ELSE IF c = "#" THEN [a EXCEPT !.cmt = TRUE] ELSE a,
           [cmt |-> FALSE, hit |-> FALSE], buf).hit
(* an enum type whose name contains the letters "char" *)
CharInName(s) == \E k \in 1..(Len(s) - 3) : SubSeq(s, k, k + 3) = KwChar

(* res = SpecParse(text), tb = TypedefBlocks(text), sb = the struct blocks among tb *)
AccessorsOf(res, tb, sb) ==
     [tables |-> [ti \in 1..Len(res.tables) |-> res.tables[ti].name],
      pairs |-> [k \in 1..Len(PairKeys(res)) |-> PairKeys(res)[k][2]],
      undef |-> None,          \* type() of a structure or member the text does not define
      tabs |-> [ti \in 1..Len(res.tables) |->
                  [name |-> res.tables[ti].name,
                   columns |-> [ci \in 1..Len(res.tables[ti].cols) |-> res.tables[ti].cols[ci].name],
                   size |-> Len(res.tables[ti].rows),
                   cols |-> [ci \in 1..Len(res.tables[ti].cols) |-> ColAcc(res, ti, ci, sb[ti])]]],
      (* which recorded / named deviations the text meets *)
      notes |-> [brace |-> \E k \in 1..Len(tb) : BraceInTypedefComment(tb[k]),
                 semicolon |-> \E k \in 1..Len(tb) : SemicolonInTypedefComment(tb[k]),
                 charname |-> \E ti \in 1..Len(res.tables) : \E ci \in 1..Len(res.tables[ti].cols) :
                                 res.tables[ti].cols[ci].base # KwChar /\ CharInName(res.tables[ti].cols[ci].base),
                 (* a char NAME[n][] member of a non-empty table all of whose strings are empty (width 0) *)
                 emptyauto |-> \E ti \in 1..Len(res.tables) : \E ci \in 1..Len(res.tables[ti].cols) :
                                 LET col == res.tables[ti].cols[ci] IN
                                 col.base = KwChar /\ col.alen > 0 /\ col.clen = Auto /\ res.tables[ti].rows # <<>>
                                 /\ res.tables[ti].width[ci] = 0]]

Accessors(text) == AccessorsOf(SpecParse(text), TypedefBlocks(text), StructBlocks(text))

(***************************************************************************)
(* Named deviations of pydl found by this unit (known_findings.json, ids   *)
(* D-X08-n; Dev_UnicodeBytes = D-X08-1 is defined with S4).  Each is the   *)
(* predicate on the TEXT that identifies the affected files.  D-X08-1, -2, *)
(* -4 and -5 have since been FIXED in pydl (commits e02f4b5, 5694952,      *)
(* 161c2c9, 6324a90): their operators stay as documentation and to label a *)
(* regression; they excuse nothing.  Only D-X08-3 (= D-C02-4) is still     *)
(* known.  A failing case is named after a deviation only when every       *)
(* differing part of the observation is what that deviation produces       *)
(* (Trace_YannyParts!AccWhy, harness findings_of), and only a deviation    *)
(* whose status in known_findings.json is "known" suppresses a VIOLATION.  *)
(***************************************************************************)
(* D-X08-2 (fixed in 5694952): a ';' inside a comment of a typedef was taken for the end of a member declaration *)
Dev_SemicolonInTypedefComment(text) == Accessors(text).notes.semicolon
(* D-X08-3 = D-C02-4: a brace inside a comment of a typedef ends the typedef early *)
Dev_BraceInTypedefComment(text) == Accessors(text).notes.brace
(* D-X08-4 (fixed in 161c2c9): "is it a char member" was decided by searching the letters "char" in the type text *)
Dev_CharInTypeName(text) == Accessors(text).notes.charname
(* D-X08-5 (fixed in 6324a90): a char NAME[n][] member holding only empty strings got the numpy type ('S0', (n,)) *)
Dev_EmptyAutoWidthArray(text) == Accessors(text).notes.emptyauto

(* the struct blocks and the reference reader agree on what the text declares *)
BlocksAgreeOf(res, sb) ==
  /\ Len(sb) = Len(res.tables)
  /\ \A ti \in 1..Len(sb) : LET d == ParseTypedef(sb[ti]) IN d.name = res.tables[ti].name /\ d.cols = res.tables[ti].cols
BlocksAgree(text) == BlocksAgreeOf(SpecParse(text), StructBlocks(text))
(* per-member laws: the accessors of one member are mutually consistent *)
ColAccConsistent(a) ==
  /\ (a.alen > 1 => a.isarray) /\ (~a.isarray => a.alen = 1)
  /\ (a.clen.k = "none") = (a.base # KwChar)
  /\ IsPrefix(a.base, a.type)
  /\ (a.type = a.base) => (~a.isarray)
  /\ a.dt.shape = (IF a.isarray THEN <<a.alen>> ELSE <<>>)

(***************************************************************************)
(* convert(t, c, v)                                                        *)
(***************************************************************************)
IsSign(c) == c \in {"-", "+"}
Unsigned(s) == IF s # <<>> /\ IsSign(Head(s)) THEN Tail(s) ELSE s
SignOf(s) == IF s # <<>> /\ Head(s) = "-" THEN -1 ELSE 1
AllDigits(s) == s # <<>> /\ \A k \in 1..Len(s) : IsDigit(s[k])
IsIntText(s) == AllDigits(Unsigned(s))
IntOfText(s) == SignOf(s) * Num(Unsigned(s))
(* [sign] digits [ . digits ]  ->  the rational <<num, den>> in lowest terms *)
IsDecText(s) == LET u == Unsigned(s)
                    p == IndexOf(u, ".")
                IN IF p = 0 THEN AllDigits(u)
                   ELSE AllDigits(SubSeq(u, 1, p - 1)) /\ AllDigits(SubSeq(u, p + 1, Len(u)))
RECURSIVE Gcd(_, _)
Gcd(a, b) == IF b = 0 THEN a ELSE Gcd(b, a % b)
RatOfText(s) == LET u == Unsigned(s)
                    p == IndexOf(u, ".")
                    ip == IF p = 0 THEN u ELSE SubSeq(u, 1, p - 1)
                    fp == IF p = 0 THEN <<>> ELSE SubSeq(u, p + 1, Len(u))
                    n == Num(ip \o fp)
                    d == 10 ^ Len(fp)
                    g == Gcd(n, d)
                IN IF n = 0 THEN <<0, 1>> ELSE <<SignOf(s) * (n \div g), d \div g>>
ConvertOne(base, v) ==
  IF base \in {KwShort, KwInt, KwLong} THEN
     IF IsIntText(v) THEN [k |-> "int", i |-> IntOfText(v), q |-> <<0, 1>>, s |-> <<>>] ELSE [k |-> "open", i |-> 0, q |-> <<0, 1>>, s |-> <<>>]
  ELSE IF base \in {KwFloat, KwDouble} THEN
     IF IsDecText(v) THEN [k |-> "rat", i |-> 0, q |-> RatOfText(v), s |-> <<>>] ELSE [k |-> "open", i |-> 0, q |-> <<0, 1>>, s |-> <<>>]
  ELSE [k |-> "str", i |-> 0, q |-> <<0, 1>>, s |-> v]
(* value: one token text for a scalar member, a sequence of them for an array member *)
(* (an array with one element outside the claimed texts is left open as a whole) *)
Convert(base, isarray, value) ==
  IF isarray THEN LET r == [k \in 1..Len(value) |-> ConvertOne(base, value[k])]
                  IN IF \E k \in 1..Len(r) : r[k].k = "open" THEN [k \in 1..Len(r) |-> [r[k] EXCEPT !.k = "open"]] ELSE r
  ELSE <<ConvertOne(base, value)>>
=============================================================================
