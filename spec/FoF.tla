-------------------------------- MODULE FoF --------------------------------
(***************************************************************************)
(* C05 - spheregroup partitions points into friends-of-friends components. *)
(*                                                                         *)
(* Points are 0 .. n-1 (input order).  adj is a set of pairs <<i, j>>,     *)
(* read symmetrically: "the separation of i and j does not exceed the      *)
(* linking length".  A point is always linked to itself (separation 0).    *)
(*                                                                         *)
(* Part 1 (declarative): components = classes of the chain relation,       *)
(* Expected(n, adj) = the four arrays the statement describes,             *)
(* WellFormed = the statement's description of (ingroup, mult, first,      *)
(* next) read as a predicate on observed arrays.                           *)
(*                                                                         *)
(* Part 2 (design models): the two algorithms pydl uses, written as        *)
(* state-record transformers so that the same definitions serve as TLC     *)
(* actions (mc/MC_FoF.tla, one step per outer iteration / per (chunk,      *)
(* local group)) and as run-to-completion operators (the expected values   *)
(* handed to the replay):                                                  *)
(*   GroupsAlgo - the O(m^2) friends-of-friends inside one chunk           *)
(*                (inGroup, firstGroup, nextGroup, multGroup, nGroups);    *)
(*   MergeAlgo  - the merge of per-chunk provisional groups through the    *)
(*                equivalence map mapGroups (minimum earlier label, path   *)
(*                compression), the final renumbering, the list build and  *)
(*                the caller's renumber-by-first-appearance.               *)
(* Arrays are functions on 0 .. n-1 with the sentinels -1 / 0 of the       *)
(* statement.                                                              *)
(***************************************************************************)
EXTENDS Integers, Sequences, FiniteSets

Pts(n) == 0 .. (n - 1)
MinOf(S) == CHOOSE x \in S : \A y \in S : x <= y
Min2(a, b) == IF a <= b THEN a ELSE b
Const(n, v) == [i \in Pts(n) |-> v]

RECURSIVE SortedSeq(_)
SortedSeq(S) == IF S = {} THEN <<>> ELSE LET x == MinOf(S) IN <<x>> \o SortedSeq(S \ {x})

(* ------------------------------------------------------------------------ *)
(* Part 1: the property                                                     *)
(* ------------------------------------------------------------------------ *)
Linked(adj, i, j) == <<i, j>> \in adj \/ <<j, i>> \in adj
Nbrs(n, adj) == [i \in Pts(n) |-> {j \in Pts(n) : j # i /\ Linked(adj, i, j)}]

(* "a chain of positions joins them in which consecutive separations do not *)
(* exceed the linking length": a chain of at most k links from i to j        *)
RECURSIVE ChainWithin(_, _, _, _)
ChainWithin(nb, i, j, k) == i = j \/ (k > 0 /\ \E m \in nb[i] : ChainWithin(nb, m, j, k - 1))

(* the class of a point, grown link by link; Parts = the set of classes      *)
RECURSIVE Grow(_, _, _)
Grow(nb, seen, frontier) ==
  IF frontier = {} THEN seen
  ELSE LET new == (UNION {nb[i] : i \in frontier}) \ seen IN Grow(nb, seen \cup new, new)
ClassOf(nb, i) == Grow(nb, {i}, {i})

RECURSIVE Parts(_, _)
Parts(nb, todo) ==
  IF todo = {} THEN {}
  ELSE LET i == MinOf(todo)
           C == ClassOf(nb, i)
       IN {C} \cup Parts(nb, todo \ C)
Components(n, adj) == Parts(Nbrs(n, adj), Pts(n))

(* the arrays of the statement: groups numbered 0,1,2.. by first member,     *)
(* mult[g] = size, first[g] = lowest member, next = the following member of  *)
(* the same group in input order (one admissible visiting order), tails 0/-1 *)
Expected(n, adj) ==
  LET parts == Components(n, adj)
      classOf == [i \in Pts(n) |-> CHOOSE C \in parts : i \in C]
      leaders == {MinOf(C) : C \in parts}
      num == [l \in leaders |-> Cardinality({m \in leaders : m < l})]
      ng == Cardinality(parts)
      byNum == [g \in 0 .. (ng - 1) |-> CHOOSE C \in parts : num[MinOf(C)] = g]
  IN [ingroup |-> [i \in Pts(n) |-> num[MinOf(classOf[i])]],
      mult    |-> [g \in Pts(n) |-> IF g < ng THEN Cardinality(byNum[g]) ELSE 0],
      first   |-> [g \in Pts(n) |-> IF g < ng THEN MinOf(byNum[g]) ELSE -1],
      next    |-> [i \in Pts(n) |-> LET later == {j \in classOf[i] : j > i}
                                    IN IF later = {} THEN -1 ELSE MinOf(later)],
      ngroups |-> ng]

(* the same numbering obtained in one pass over the input order: the first point without a label opens   *)
(* the next group and labels its whole class (equal to Expected(n, adj).ingroup - law IngroupPassIsExpected, *)
(* checked on every small graph; used for the verdict on large recorded sets, where it is much cheaper)    *)
RECURSIVE LabelPass(_, _, _, _, _)
LabelPass(nb, n, i, g, lab) ==
  IF i = n THEN lab
  ELSE IF lab[i] # -1 THEN LabelPass(nb, n, i + 1, g, lab)
  ELSE LET C == ClassOf(nb, i)
       IN LabelPass(nb, n, i + 1, g + 1, [j \in Pts(n) |-> IF j \in C THEN g ELSE lab[j]])
IngroupOf(n, adj) == LabelPass(Nbrs(n, adj), n, 0, 0, Const(n, -1))

IsArray(n, a) == DOMAIN a = Pts(n)

(* follow next[] from j: the set visited, the number of visits, whether -1 was reached *)
RECURSIVE Walk(_, _, _, _, _)
Walk(next, j, fuel, seen, cnt) ==
  IF j = -1 THEN [seen |-> seen, cnt |-> cnt, ended |-> TRUE]
  ELSE IF fuel = 0 \/ j \notin DOMAIN next THEN [seen |-> seen, cnt |-> cnt, ended |-> FALSE]
  ELSE Walk(next, next[j], fuel - 1, seen \cup {j}, cnt + 1)

Members(n, ig, g) == {i \in Pts(n) : ig[i] = g}

(* "The other three arrays describe the same partition": for the ng groups of ig *)
ListsDescribe(n, ig, mult, first, next, ng) ==
  \A g \in 0 .. (ng - 1) :
     LET mem == Members(n, ig, g)
         w == Walk(next, first[g], n, {}, 0)
     IN /\ mem # {}
        /\ mult[g] = Cardinality(mem)
        /\ first[g] = MinOf(mem)
        /\ w.ended /\ w.seen = mem /\ w.cnt = Cardinality(mem)

WellFormed(n, ig, mult, first, next) ==
  LET labels == {ig[i] : i \in Pts(n)}
      ng == Cardinality(labels)
  IN /\ IsArray(n, ig) /\ IsArray(n, mult) /\ IsArray(n, first) /\ IsArray(n, next)
     /\ labels = 0 .. (ng - 1)
     /\ ListsDescribe(n, ig, mult, first, next, ng)
     /\ \A g \in Pts(n) : g >= ng => (mult[g] = 0 /\ first[g] = -1)

(* ig induces exactly the components (numbering left open) *)
SamePartition(n, adj, ig) ==
  {Members(n, ig, g) : g \in {ig[i] : i \in Pts(n)}} = Components(n, adj)

(* the verdict on four observed arrays *)
Accepts(n, adj, ig, mult, first, next) ==
  /\ IsArray(n, ig)
  /\ ig = IngroupOf(n, adj)
  /\ WellFormed(n, ig, mult, first, next)

Why(n, adj, ig, mult, first, next) ==
  IF ~(IsArray(n, ig) /\ IsArray(n, mult) /\ IsArray(n, first) /\ IsArray(n, next)) THEN "shape"
  ELSE IF ~SamePartition(n, adj, ig) THEN "partition"
  ELSE IF ig # IngroupOf(n, adj) THEN "numbering"
  ELSE IF ~WellFormed(n, ig, mult, first, next) THEN "lists"
  ELSE ""

(* ---- laws of the definitions (checked by TLC on every small graph) ---- *)
PartsIsPartition(n, adj) ==
  LET parts == Components(n, adj) IN
  /\ UNION parts = Pts(n)
  /\ \A C, D \in parts : C # D => C \cap D = {}
  /\ {} \notin parts
ClassIsChainRelation(n, adj) ==
  LET nb == Nbrs(n, adj) IN
  \A i, j \in Pts(n) : (j \in ClassOf(nb, i)) <=> ChainWithin(nb, i, j, n - 1)
(* least equivalence containing adj: every labelling that keeps linked points together *)
(* keeps every component together                                                      *)
ComponentsAreLeast(n, adj) ==
  \A f \in [Pts(n) -> Pts(n)] :
     (\A i, j \in Pts(n) : Linked(adj, i, j) => f[i] = f[j])
       => \A C \in Components(n, adj) : \A i, j \in C : f[i] = f[j]
IngroupPassIsExpected(n, adj) == IngroupOf(n, adj) = Expected(n, adj).ingroup
ExpectedIsWellFormed(n, adj) ==
  LET e == Expected(n, adj) IN
  /\ WellFormed(n, e.ingroup, e.mult, e.first, e.next)
  /\ SamePartition(n, adj, e.ingroup)
  /\ \A g, h \in 0 .. (e.ngroups - 1) : g < h => e.first[g] < e.first[h]
  /\ e.ingroup[0] = 0
(* relabelling the input by a permutation p (new index of old point i is p[i]) relabels *)
(* the partition and nothing else                                                       *)
Permute(adj, p) == {<<p[e[1]], p[e[2]]>> : e \in adj}
PermutationLaw(n, adj, p) ==
  Components(n, Permute(adj, p)) = {{p[i] : i \in C} : C \in Components(n, adj)}

(* ------------------------------------------------------------------------ *)
(* Part 2a: GroupsAlgo - friends-of-friends inside one chunk                *)
(* m targets 0..m-1, lnb[a] = the other targets linked to a                 *)
(* ------------------------------------------------------------------------ *)
RECURSIVE WalkSet(_, _, _, _)
WalkSet(ig, nx, k, v) == IF k = -1 THEN ig ELSE WalkSet([ig EXCEPT ![k] = v], nx, nx[k], v)

(* for j in range(nTmp): relabel the whole list of multGroup[j]'s group, then the target itself *)
RECURSIVE RelabelLoop(_, _, _, _, _, _, _)
RelabelLoop(ig, fg, nx, near, t, mg, m) ==
  IF t > Len(near) THEN ig
  ELSE LET p == near[t]
           ig2 == IF ig[p] < m THEN WalkSet(ig, nx, fg[ig[p]], mg) ELSE ig
       IN RelabelLoop([ig2 EXCEPT ![p] = mg], fg, nx, near, t + 1, mg, m)

(* for j in range(top, -1, -1): nextGroup[j] = firstGroup[inGroup[j]]; firstGroup[inGroup[j]] = j *)
RECURSIVE Rebuild(_, _, _, _)
Rebuild(ig, fg, nx, j) ==
  IF j < 0 THEN [first |-> fg, next |-> nx]
  ELSE Rebuild(ig, [fg EXCEPT ![ig[j]] = j], [nx EXCEPT ![j] = fg[ig[j]]], j - 1)

RECURSIVE CountWalk(_, _)
CountWalk(nx, j) == IF j = -1 THEN 0 ELSE 1 + CountWalk(nx, nx[j])

RECURSIVE WalkMark(_, _, _, _, _)
WalkMark(ig, nx, ren, j, v) ==
  IF j = -1 THEN [ig |-> ig, ren |-> ren]
  ELSE WalkMark([ig EXCEPT ![j] = v], nx, ren \cup {j}, nx[j], v)

(* renumber in order of appearance: for i: if not renumbered[i]: walk the list of i's group *)
RECURSIVE RenumLoop(_, _, _, _, _, _, _)
RenumLoop(ig, fg, nx, ren, ng, i, m) ==
  IF i = m THEN [ig |-> ig, ng |-> ng]
  ELSE IF i \in ren THEN RenumLoop(ig, fg, nx, ren, ng, i + 1, m)
  ELSE LET r == WalkMark(ig, nx, ren, fg[ig[i]], ng)
       IN RenumLoop(r.ig, fg, nx, r.ren, ng + 1, i + 1, m)

GInit(m) == [pc |-> "iter", i |-> 0, nTargets |-> m, nGroups |-> 0,
             multGroup |-> Const(m, 0), firstGroup |-> Const(m, -1), nextGroup |-> Const(m, -1),
             inGroup |-> [j \in Pts(m) |-> j]]

(* one outer iteration i of the neighbour search *)
GIter(g, lnb) ==
  LET m == g.nTargets
      i == g.i
      near == SortedSeq({j \in Pts(m) : j = i \/ j \in lnb[i]})
      nTmp == Len(near)
      minGroup == MinOf({g.nGroups} \cup {g.inGroup[near[t]] : t \in 1 .. nTmp})
      mult1 == [t \in Pts(m) |-> IF t < nTmp THEN near[t + 1] ELSE g.multGroup[t]]
      ig1 == RelabelLoop(g.inGroup, g.firstGroup, g.nextGroup, near, 1, minGroup, m)
      ng1 == IF minGroup = g.nGroups THEN g.nGroups + 1 ELSE g.nGroups
      fg0 == [t \in Pts(m) |-> IF t <= i THEN -1 ELSE g.firstGroup[t]]
      lists == Rebuild(ig1, fg0, g.nextGroup, i)
  IN [g EXCEPT !.i = i + 1, !.pc = IF i + 1 = m THEN "renumber" ELSE "iter",
               !.nGroups = ng1, !.multGroup = mult1, !.inGroup = ig1,
               !.firstGroup = lists.first, !.nextGroup = lists.next]

GRenumber(g) ==
  LET r == RenumLoop(g.inGroup, g.firstGroup, g.nextGroup, {}, 0, 0, g.nTargets)
  IN [g EXCEPT !.pc = "rebuild", !.inGroup = r.ig, !.nGroups = r.ng]

(* firstGroup[:] = -1, rebuild the lists downward, count the multiplicities of groups < nGroups *)
GRebuild(g) ==
  LET m == g.nTargets
      lists == Rebuild(g.inGroup, Const(m, -1), g.nextGroup, m - 1)
  IN [g EXCEPT !.pc = "done", !.firstGroup = lists.first, !.nextGroup = lists.next,
               !.multGroup = [t \in Pts(m) |-> IF t < g.nGroups THEN CountWalk(lists.next, lists.first[t])
                                               ELSE g.multGroup[t]]]

GStep(g, lnb) == IF g.pc = "iter" THEN GIter(g, lnb)
                 ELSE IF g.pc = "renumber" THEN GRenumber(g)
                 ELSE GRebuild(g)

RECURSIVE GRun(_, _)
GRun(g, lnb) == IF g.pc = "done" THEN g ELSE GRun(GStep(g, lnb), lnb)
RunGroups(m, lnb) == IF m = 0 THEN [GInit(0) EXCEPT !.pc = "done"] ELSE GRun(GInit(m), lnb)

(* ------------------------------------------------------------------------ *)
(* Part 2b: MergeAlgo - the merge over a cover (sequence of chunk lists;    *)
(* a chunk list is an ascending sequence of points)                         *)
(* ------------------------------------------------------------------------ *)
LocalNbrs(adj, cl) == [a \in Pts(Len(cl)) |-> {b \in Pts(Len(cl)) : b # a /\ Linked(adj, cl[a + 1], cl[b + 1])}]
LocalGroups(adj, cl) == RunGroups(Len(cl), LocalNbrs(adj, cl))

RECURSIVE RootOf(_, _)
RootOf(map, e) == IF map[e] = e THEN e ELSE RootOf(map, map[e])

(* first pass over the members of the local group: the minimum earlier root, fresh label otherwise *)
RECURSIVE ScanWalk(_, _, _, _, _, _, _)
ScanWalk(ig, map, cl, lnext, l, fresh, minEarly) ==
  IF l = -1 THEN [ig |-> ig, minEarly |-> minEarly]
  ELSE LET p == cl[l + 1] IN
       IF ig[p] # -1 THEN ScanWalk(ig, map, cl, lnext, lnext[l], fresh, Min2(minEarly, RootOf(map, ig[p])))
       ELSE ScanWalk([ig EXCEPT ![p] = fresh], map, cl, lnext, lnext[l], fresh, minEarly)

(* while mapGroups[c] != c: tmp = mapGroups[c]; mapGroups[c] = minEarly; c = tmp -- then mapGroups[c] = minEarly *)
RECURSIVE CompressChain(_, _, _)
CompressChain(map, e, minEarly) ==
  IF map[e] # e THEN CompressChain([map EXCEPT ![e] = minEarly], map[e], minEarly)
  ELSE [map EXCEPT ![e] = minEarly]

RECURSIVE CompressWalk(_, _, _, _, _, _)
CompressWalk(map, ig, cl, lnext, l, minEarly) ==
  IF l = -1 THEN map
  ELSE CompressWalk(CompressChain(map, ig[cl[l + 1]], minEarly), ig, cl, lnext, lnext[l], minEarly)

RECURSIVE FirstNonEmpty(_, _)
FirstNonEmpty(cover, ci) == IF ci > Len(cover) THEN ci
                            ELSE IF Len(cover[ci]) > 0 THEN ci ELSE FirstNonEmpty(cover, ci + 1)

MapSize(n) == 9 * n

MInit(n, cover) ==
  LET ci == FirstNonEmpty(cover, 1) IN
  [pc |-> IF ci > Len(cover) THEN "final" ELSE "merge", ci |-> ci, k |-> 0,
   inGroup |-> Const(n, -1), mapGroups |-> Const(MapSize(n), -1), nMapGroups |-> 0, nGroups |-> 0,
   firstGroup |-> Const(n, -1), nextGroup |-> Const(n, -1), multGroup |-> Const(n, 0)]

(* the local groups of every chunk (what chunkfriendsoffriends returns for it) *)
LocalGroupsOf(adj, cover) == [t \in 1 .. Len(cover) |-> LocalGroups(adj, cover[t])]

(* one (chunk, local group); lg = LocalGroupsOf(adj, cover) *)
MGroup(s, n, cover, lg) ==
  LET cl == cover[s.ci]
      cg == lg[s.ci]
      big == MapSize(n)
      scan == ScanWalk(s.inGroup, s.mapGroups, cl, cg.nextGroup, cg.firstGroup[s.k], s.nMapGroups, big)
      minEarly == scan.minEarly
      map1 == [s.mapGroups EXCEPT ![s.nMapGroups] = IF minEarly = big THEN s.nMapGroups ELSE minEarly]
      map2 == IF minEarly = big THEN map1
              ELSE CompressWalk(map1, scan.ig, cl, cg.nextGroup, cg.firstGroup[s.k], minEarly)
      lastk == s.k + 1 = cg.nGroups
      nci == IF lastk THEN FirstNonEmpty(cover, s.ci + 1) ELSE s.ci
  IN IF s.nMapGroups >= big THEN [s EXCEPT !.pc = "error"]
     ELSE [s EXCEPT !.inGroup = scan.ig, !.mapGroups = map2, !.nMapGroups = @ + 1,
                    !.k = IF lastk THEN 0 ELSE @ + 1, !.ci = nci,
                    !.pc = IF nci > Len(cover) THEN "final" ELSE "merge"]

(* roots get consecutive numbers, the others the (already final) number of their target *)
RECURSIVE FinalLoop(_, _, _, _)
FinalLoop(map, ng, i, nmap) ==
  IF i = nmap THEN [map |-> map, ng |-> ng, err |-> FALSE]
  ELSE IF map[i] = -1 THEN [map |-> map, ng |-> ng, err |-> TRUE]
  ELSE IF map[i] = i THEN FinalLoop([map EXCEPT ![i] = ng], ng + 1, i + 1, nmap)
  ELSE FinalLoop([map EXCEPT ![i] = map[map[i]]], ng, i + 1, nmap)

MFinal(s, n) ==
  LET r == FinalLoop(s.mapGroups, 0, 0, s.nMapGroups) IN
  IF r.err \/ \E p \in Pts(n) : s.inGroup[p] = -1 THEN [s EXCEPT !.pc = "error"]
  ELSE [s EXCEPT !.pc = "lists", !.mapGroups = r.map, !.nGroups = r.ng,
                 !.inGroup = [p \in Pts(n) |-> r.map[s.inGroup[p]]]]

(* what friendsoffriends returns *)
MLists(s, n) ==
  LET lists == Rebuild(s.inGroup, Const(n, -1), Const(n, -1), n - 1) IN
  [s EXCEPT !.pc = "renum", !.firstGroup = lists.first, !.nextGroup = lists.next,
            !.multGroup = [t \in Pts(n) |-> IF t < s.nGroups THEN CountWalk(lists.next, lists.first[t]) ELSE 0]]

(* the caller: renumber in order of appearance, then rebuild lists and multiplicities *)
SRenumber(s, n) ==
  LET r == RenumLoop(s.inGroup, s.firstGroup, s.nextGroup, {}, 0, 0, n)
  IN [s EXCEPT !.pc = "relist", !.inGroup = r.ig]

SRebuild(s, n) ==
  LET lists == Rebuild(s.inGroup, Const(n, -1), s.nextGroup, n - 1) IN
  [s EXCEPT !.pc = "done", !.firstGroup = lists.first, !.nextGroup = lists.next,
            !.multGroup = [t \in Pts(n) |-> IF t < s.nGroups THEN CountWalk(lists.next, lists.first[t]) ELSE 0]]

MStep(s, n, cover, lg) ==
  IF s.pc = "merge" THEN MGroup(s, n, cover, lg)
  ELSE IF s.pc = "final" THEN MFinal(s, n)
  ELSE IF s.pc = "lists" THEN MLists(s, n)
  ELSE IF s.pc = "renum" THEN SRenumber(s, n)
  ELSE SRebuild(s, n)

MTerminal(s) == s.pc \in {"done", "error"}

RECURSIVE MRunTo(_, _, _, _, _)
MRunTo(s, n, cover, lg, pcs) == IF s.pc \in pcs THEN s ELSE MRunTo(MStep(s, n, cover, lg), n, cover, lg, pcs)
(* what friendsoffriends returns, then what the caller makes of it *)
RunMergeRaw(n, adj, cover) == MRunTo(MInit(n, cover), n, cover, LocalGroupsOf(adj, cover), {"renum", "error"})
RunMergeFrom(raw, n, adj, cover) == MRunTo(raw, n, cover, LocalGroupsOf(adj, cover), {"done", "error"})
RunMerge(n, adj, cover) == RunMergeFrom(RunMergeRaw(n, adj, cover), n, adj, cover)

(* ---- assumptions on a cover (what the chunk margins are meant to guarantee) ---- *)
InChunk(cl, p) == \E a \in 1 .. Len(cl) : cl[a] = p
CoverOK(n, adj, cover) ==
  /\ \A p \in Pts(n) : \E ci \in 1 .. Len(cover) : InChunk(cover[ci], p)
  /\ \A i, j \in Pts(n) : (i < j /\ Linked(adj, i, j)) =>
        \E ci \in 1 .. Len(cover) : InChunk(cover[ci], i) /\ InChunk(cover[ci], j)

(* ---- named deviation ---- *)
(* D-C05-1: chunks.getbounds computes slice index nDec for a point with Dec = +90 exactly, assign()   *)
(* skips the point silently, so the cover handed to the merge violates the first conjunct of CoverOK *)
(* and friendsoffriends reads mapGroups[-1] for it (the model stops in pc = "error" instead).        *)
Dev_PointInNoChunk(n, cover) == \E p \in Pts(n) : \A ci \in 1 .. Len(cover) : ~InChunk(cover[ci], p)

(* ---- invariants of the two design models ---- *)
(* the points of the local groups already merged, as a relation on points *)
RECURSIVE SumLen(_, _)
SumLen(cover, ci) == IF ci > Len(cover) THEN 0 ELSE Len(cover[ci]) + SumLen(cover, ci + 1)
MaxMembership(n, cover) ==
  LET cnt == [p \in Pts(n) |-> Cardinality({ci \in 1 .. Len(cover) : InChunk(cover[ci], p)})]
  IN IF n = 0 THEN 0 ELSE CHOOSE x \in {cnt[p] : p \in Pts(n)} : \A y \in {cnt[p] : p \in Pts(n)} : x >= y

(* pairs of points put together by a local group that has been merged so far *)
DoneLocalGroups(s, cover, lg) ==
  UNION { LET cl == cover[ci]
              cg == lg[ci]
              upto == IF ci < s.ci THEN cg.nGroups ELSE s.k
          IN {{cl[a + 1] : a \in Members(Len(cl), cg.inGroup, g)} : g \in 0 .. (upto - 1)}
          : ci \in 1 .. Min2(s.ci, Len(cover)) }
(* classes of the equivalence generated by a set of point sets, restricted to the points they mention *)
JoinedNbrs(n, sets) == [i \in Pts(n) |-> (UNION {S \in sets : i \in S}) \ {i}]
=============================================================================
