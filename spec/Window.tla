------------------------------- MODULE Window -------------------------------
(***************************************************************************)
(* X05 (growth unit) - imaging window files: pydl.photoop.window           *)
(*   window_read, the balkans table it assembles, window_score, sdss_score *)
(*                                                                         *)
(* BEHAVIOURAL STATEMENTS DECIDED (source in brackets)                     *)
(*                                                                         *)
(* R1 [window_read docstring, one sentence per keyword]  window_read reads *)
(*    from $PHOTO_RESOLVE exactly these files: window_flist.fits iff flist *)
(*    and not rescore; window_flist_rescore.fits iff flist and rescore;    *)
(*    window_blist.fits iff blist or balkans; window_bcaps.fits iff bcaps  *)
(*    or balkans; window_findx.fits iff findx; window_bindx.fits iff       *)
(*    bindx.  rescore without flist reads nothing.                         *)
(* R2 ["A dictionary containing the requested window data"; pydl's tests]  *)
(*    The returned dict has exactly the keys whose keyword is true; blist  *)
(*    / bcaps read only to build the balkans are not returned.  Each value *)
(*    holds the rows of its file (checked on the SCORE column of flist and *)
(*    through B1 for blist/bcaps).                                         *)
(* R3 [docstring of rescore; docstring of window_score]  With flist and    *)
(*    rescore: if window_flist_rescore.fits exists it is returned as it is *)
(*    and nothing is scored; if not, window_score(rescore=True) runs first *)
(*    (it opens window_flist.fits), the new file exists afterwards, it is  *)
(*    what is returned, and window_flist.fits is byte for byte unchanged.  *)
(* R4 [raise statements + pydl's tests]  PHOTO_RESOLVE unset:              *)
(*    PhotoopException, nothing read.  (A requested file that does not     *)
(*    exist: open.)                                                        *)
(* B1 [docstring Notes: FITS_polygon, IFIELD = IPRIMARY, PIXEL = IBINDX;   *)
(*    IDL window_read.pro for the cap layout]  balkans has one row per     *)
(*    blist row, in order: IFIELD = IPRIMARY, PIXEL = IBINDX, NCAPS,       *)
(*    WEIGHT, STR copied; USE_CAPS = 2^NCAPS - 1; XCAPS / CMCAPS hold      *)
(*    max(NCAPS) slots, the first NCAPS of them are rows ICAP ..           *)
(*    ICAP+NCAPS-1 of bcaps (X, CM) in order, the remaining slots are      *)
(*    zero (IDL: replicate of a zeroed structure).                         *)
(* B2 [docstring Notes: "interoperability with pydl.pydlutils.mangle"]     *)
(*    is_in_polygon(balkans[k], points) is true exactly for the points     *)
(*    inside every one of the NCAPS caps of row k (cap: 1 - x.p <= cm,     *)
(*    cm >= 0) - whatever the unused slots hold.                           *)
(* W1 [window_score docstring]  window_score() reads window_flist.fits and *)
(*    sets its SCORE column to the scores S* of its rows.  rescore=True    *)
(*    writes them to a new file window_flist_rescore.fits instead and      *)
(*    leaves window_flist.fits untouched; rescore=False rewrites           *)
(*    window_flist.fits and creates no other file.  Rows are neither       *)
(*    added, dropped nor reordered.  (rescore=True when the new file       *)
(*    already exists: open.)                                               *)
(* W2 [raise statements + pydl's tests]  PHOTO_CALIB unset, PHOTO_RESOLVE  *)
(*    unset or window_flist.fits unreadable: PhotoopException and no file  *)
(*    is created or changed.  (That PHOTO_CALIB is back afterwards is      *)
(*    property C20, not repeated here.)                                    *)
(* S0 [sdss_score docstring]  sdss_score(flist) returns one score per row  *)
(*    of the table, each in [0, 1] ("from zero to one"), for every flist   *)
(*    whose columns have the types of a real window_flist.fits (signed     *)
(*    FITS integers, 4-byte floats) or wider/unsigned variants.            *)
(* S1 [code comments "Read the PHOTO status bits" / "Trying tsField        *)
(*    instead" / "using frames_status"; IDL sdss_score.pro]  PHOTO_STATUS  *)
(*    of a row becomes status of its fpFieldStat file; if that file is     *)
(*    missing, frames_status of its tsField file; if both are missing -1.  *)
(* S2 [same]  PSP_STATUS, PSF_FWHM become status, psf_width (5 bands) of   *)
(*    HDU 6 of the row's psField file; SKYFLUX = sky * nMgyPerCount /      *)
(*    pixscale^2 with pixscale = 0.396 * sqrt((XBIN^2+YBIN^2)/2) arcsec;   *)
(*    if the psField file is missing all three are -1 in all bands (and    *)
(*    the row's score is 0, S5).  A missing file never changes what        *)
(*    another row gets.                                                    *)
(* S3 ["Decide if each field exists in all 5 bands"; sdssMaskbits.par:     *)
(*    IMAGE_STATUS BAD_ROTATOR, BAD_ASTROM, BAD_FOCUS, SHUTTERS "(set      *)
(*    score=0)"]  exists = (PHOTO_STATUS = 0 or ignoreframesstatus) and    *)
(*    none of those four bits in any of the 5 IMAGE_STATUS values.         *)
(* S4 ["Decide if each field is photometric in all 5 bands";               *)
(*    sdssMaskbits.par: CLOUDY, UNKNOWN, FF_PETALS, DEAD_CCD, NOISY_CCD    *)
(*    "(unphotometric)"]  photometric = SUN_ANGLE < -12 and none of those  *)
(*    five bits in any band and in every band (the low five bits of        *)
(*    PSP_STATUS <= 2 or XBIN > 1 or ignoreframesstatus).  Bits are found  *)
(*    by NAME through sdss_flagval, not by number.                         *)
(* S5 ["Now set the score"; IDL: (0.7/(fwhm*sqrt(skyflux))) < 0.4, where   *)
(*    IDL's < is the MINIMUM operator; "Look for any NaN values"]          *)
(*    sensitivity = min(0.7 / (PSF_FWHM[r] * sqrt(SKYFLUX[r])), 0.4);      *)
(*    score = exists * (0.1 + 0.5*photometric + sensitivity), times 0.1 if *)
(*    XBIN > 1; a score that is not a number (negative SKYFLUX, missing    *)
(*    psField) is 0.  Hence S0's range, and: photometric unbinned fields   *)
(*    score in [0.6, 1], other existing unbinned ones in [0.1, 0.5].       *)
(*                                                                         *)
(* DEVIATIONS OF THE CODE FOUND WITH THIS SPECIFICATION (Dev_* below)      *)
(* D-X05-1 Dev_NoNumpyFind: sdss_score calls np.find, which numpy does not *)
(*    have: AttributeError for every flist.                                *)
(* D-X05-2 Dev_MaskType: sdss_flagval returns numpy.uint64; `signed column *)
(*    & uint64` has no common integer type: TypeError for every flist      *)
(*    whose IMAGE_STATUS is a signed FITS integer (all real ones).         *)
(* D-X05-3 Dev_StalePsField: after "Bad psField file" the code goes on to  *)
(*    read the psField it does not have: the first row raises              *)
(*    UnboundLocalError, a later row silently gets the PSP status, seeing  *)
(*    and sky of the previous row that had a psField, and its score.       *)
(* D-X05-4 Dev_SensCompare: IDL's minimum operator `<` was ported as a     *)
(*    comparison: sensitivity is 1 or 0 instead of min(x, 0.4); scores     *)
(*    1.1 and 1.6 occur (outside "zero to one") and good seeing scores     *)
(*    LESS than bad seeing.                                                *)
(* D-X05-5 Dev_PaddingUninitialised: the balkans array is np.recarray()    *)
(*    (uninitialised memory): unused XCAPS / CMCAPS slots hold garbage     *)
(*    that differs from call to call, instead of zeros.                    *)
(*                                                                         *)
(* LEFT OPEN (documentation silent): a requested window file that does not *)
(* exist; window_score(rescore=True) onto an existing rescore file; empty  *)
(* tables; negative PSF_FWHM with non-negative SKYFLUX; XBIN # YBIN with   *)
(* a sensitivity that matters (irrational pixel scale, not modelled);      *)
(* ignoreframesstatus=False (IDL: keyword not set; the code treats any     *)
(* value as set); the silent=False log lines; NCAPS > 30.                  *)
(*                                                                         *)
(* MODEL.  Numbers that the code holds as floats are exact rationals       *)
(* <<num, den>> (module Rat); the square root of the r-band sky is part of *)
(* the case (sroot, sroot^2 = sky[r]) so that everything stays rational.   *)
(* IMAGE_STATUS values are sets of bit NAMES.  A row case is               *)
(*   [ign, fp |-> [has, status], ts |-> [has, status],                     *)
(*    ps |-> [has, st, w, sky, sroot], img, sun, xbin, ybin].              *)
(* File-level cases are [kw, w]: keywords and a world                      *)
(*   [resolve, calib, present, cflist, crescore, rows].                    *)
(***************************************************************************)
EXTENDS Integers, Sequences, FiniteSets, Rat

Bands == 1 .. 5
RBand == 3
All5(v) == <<v, v, v, v, v>>
MinusOne == <<-1, 1>>
Tenth == <<1, 10>>
Half == <<1, 2>>
Cap04 == <<2, 5>>

(* --------------------------- sdss_score: one row --------------------------- *)
BadNames == {"BAD_ROTATOR", "BAD_ASTROM", "BAD_FOCUS", "SHUTTERS"}                 \* "(set score=0)"
UnphotNames == {"CLOUDY", "UNKNOWN", "FF_PETALS", "DEAD_CCD", "NOISY_CCD"}         \* "(unphotometric)"
NamedBits == BadNames \cup UnphotNames \cup {"CLEAR"}

PixScale1 == <<99, 250>>                       \* 0.396 arcsec per unbinned pixel
PixScaleSq(xb, yb) == Mul(Mul(PixScale1, PixScale1), R(xb * xb + yb * yb, 2))
NmgyPerCount == One                            \* sdss_calib: documented placeholder (X01)

NoPs == [has |-> FALSE, st |-> All5(0), w |-> All5(Zero), sky |-> All5(Zero), sroot |-> Zero]

PhotoStatus(c) == IF c.fp.has THEN c.fp.status ELSE IF c.ts.has THEN c.ts.status ELSE -1
PspStatus(c) == IF c.ps.has THEN c.ps.st ELSE All5(-1)
PsfFwhm(c) == IF c.ps.has THEN c.ps.w ELSE All5(MinusOne)
SkyFlux(c) == IF c.ps.has
              THEN [k \in Bands |-> Div(Mul(c.ps.sky[k], NmgyPerCount), PixScaleSq(c.xbin, c.ybin))]
              ELSE All5(MinusOne)

(* the PSP status proper is the low five bits; TLA+'s % is the non-negative remainder, so -1 gives 31 as in   *)
(* two's complement                                                                                             *)
Low5(v) == v % 32

QExist(c) == /\ (PhotoStatus(c) = 0 \/ c.ign)
             /\ \A k \in Bands : c.img[k] \cap BadNames = {}
QPhot(c) == /\ Lt(c.sun, <<-12, 1>>)
            /\ \A k \in Bands : c.img[k] \cap UnphotNames = {}
            /\ \A k \in Bands : (Low5(PspStatus(c)[k]) <= 2 \/ c.xbin > 1 \/ c.ign)

(* x = 0.7 / (fwhm * sqrt(skyflux)) in the r band: not a number, +infinity, or a rational *)
SqrtSkyFluxR(c) == Div(c.ps.sroot, Mul(PixScale1, <<c.xbin, 1>>))        \* xbin = ybin, see SensModelled
SensX(c) ==
  IF ~c.ps.has THEN [kind |-> "nan", v |-> Zero]                        \* sqrt(-1)
  ELSE IF Lt(c.ps.sky[RBand], Zero) THEN [kind |-> "nan", v |-> Zero]
  ELSE LET den == Mul(c.ps.w[RBand], SqrtSkyFluxR(c)) IN
       IF den[1] = 0 THEN [kind |-> "inf", v |-> Zero]
       ELSE [kind |-> "fin", v |-> Div(<<7, 10>>, den)]
SensMin(x) == IF x.kind = "inf" THEN Cap04 ELSE Min2(x.v, Cap04)
ScoreWith(c, S(_)) ==
  IF ~QExist(c) THEN Zero
  ELSE LET x == SensX(c) IN
       IF x.kind = "nan" THEN Zero
       ELSE Mul(IF c.xbin > 1 THEN Tenth ELSE One,
                Add(Add(Tenth, IF QPhot(c) THEN Half ELSE Zero), S(x)))
Score(c) == ScoreWith(c, SensMin)

(* where the score is demanded: the psField values make sense and the pixel scale is rational *)
SensModelled(c) == c.ps.has => /\ c.xbin = c.ybin
                               /\ (Le(Zero, c.ps.w[RBand]) \/ Lt(c.ps.sky[RBand], Zero))
                               /\ (Le(Zero, c.ps.sky[RBand]) => Mul(c.ps.sroot, c.ps.sroot) = c.ps.sky[RBand])
ScoreDemanded(c) == SensModelled(c) \/ ~QExist(c)
WellFormedRow(c) == c.xbin >= 1 /\ c.ybin >= 1 /\ (c.ps.has => \A k \in Bands : c.ps.sky[k][2] > 0 /\ c.ps.w[k][2] > 0)

RowOut(c) == [photo |-> PhotoStatus(c), psp |-> PspStatus(c), fwhm |-> PsfFwhm(c), sky |-> SkyFlux(c),
              score |-> Score(c)]

(* ---- laws of the decision table (checked by TLC on every enumerated row) ---- *)
InUnit(q) == Le(Zero, q) /\ Le(q, One)
Law_Range(c) == InUnit(Score(c))
Law_ZeroIff(c) == (Score(c) = Zero) <=> (~QExist(c) \/ SensX(c).kind = "nan")
Law_Bands(c) == (QExist(c) /\ SensX(c).kind # "nan") =>
                  IF c.xbin > 1 THEN Le(<<1, 100>>, Score(c)) /\ Le(Score(c), Tenth)
                  ELSE IF QPhot(c) THEN Le(<<3, 5>>, Score(c)) ELSE (Le(Tenth, Score(c)) /\ Le(Score(c), Half))
Law_IgnoreMonotone(c) == Le(Score([c EXCEPT !.ign = FALSE]), Score([c EXCEPT !.ign = TRUE]))
Law_NeutralBits(c) == Score([c EXCEPT !.img = [k \in Bands |-> c.img[k] \cap (BadNames \cup UnphotNames)]]) = Score(c)
Law_HighPspBits(c) == c.ps.has => Score([c EXCEPT !.ps.st = [k \in Bands |-> Low5(c.ps.st[k])]]) = Score(c)
Law_OtherBands(c) == c.ps.has =>
     Score([c EXCEPT !.ps.w = [k \in Bands |-> IF k = RBand THEN c.ps.w[k] ELSE One],
                     !.ps.sky = [k \in Bands |-> IF k = RBand THEN c.ps.sky[k] ELSE One]]) = Score(c)
Law_FpWins(c) == c.fp.has => PhotoStatus([c EXCEPT !.ts = [has |-> TRUE, status |-> 99]]) = PhotoStatus(c)
RowLaws(c) == /\ Law_Range(c) /\ Law_ZeroIff(c) /\ Law_Bands(c) /\ Law_IgnoreMonotone(c)
              /\ Law_NeutralBits(c) /\ Law_HighPspBits(c) /\ Law_OtherBands(c) /\ Law_FpWins(c)

(* ---- named deviations of one row ---- *)
SensCompare(x) == IF x.kind = "inf" THEN Zero ELSE IF Lt(x.v, Cap04) THEN One ELSE Zero
Dev_SensCompare(c) == [RowOut(c) EXCEPT !.score = ScoreWith(c, SensCompare)]                    \* D-X05-4
(* prev = the psField part of the nearest earlier row of the same call that had one (has = FALSE: none) *)
Dev_StalePsField(c, prev) ==                                                                    \* D-X05-3
  IF c.ps.has THEN [raises |-> FALSE, out |-> RowOut(c)]
  ELSE IF prev.has THEN [raises |-> FALSE, out |-> RowOut([c EXCEPT !.ps = prev])]
  ELSE [raises |-> TRUE, out |-> RowOut(c)]

(* ---- one sdss_score call: [nrows, imgSigned, firstPsMissing]; the specified outcome is a normal return ---- *)
CallOutcome(k) == ""
Dev_FirstRowPsMissing(k) == IF k.firstPsMissing THEN "UnboundLocalError" ELSE ""               \* D-X05-3
Dev_MaskType(k) == IF k.imgSigned THEN "TypeError" ELSE ""                                      \* D-X05-2
Dev_NoNumpyFind(k) == "AttributeError"                                                          \* D-X05-1

(* --------------------------- files of $PHOTO_RESOLVE --------------------------- *)
(* short names: flist = window_flist.fits, rescore = window_flist_rescore.fits, blist, bcaps, findx, bindx *)
KeyNames == {"flist", "blist", "bcaps", "balkans", "findx", "bindx"}
PlainFiles == {"flist", "blist", "bcaps", "findx", "bindx"}
OrigScore == <<77, 1>>                 \* the SCORE the harness writes into a fresh window_flist.fits
StaleScore == <<55, 1>>                \* ... and into a pre-existing window_flist_rescore.fits

Files(w) == w.present \cup (IF w.crescore = "absent" THEN {} ELSE {"rescore"})
RowScores(w) == [k \in DOMAIN w.rows |-> Score([w.rows[k] EXCEPT !.ign = FALSE])]
ColOf(w, content) == [k \in DOMAIN w.rows |-> IF content = "orig" THEN OrigScore
                                               ELSE IF content = "stale" THEN StaleScore ELSE RowScores(w)[k]]
FlistCol(w) == IF "flist" \in w.present THEN ColOf(w, w.cflist) ELSE <<>>
RescoreCol(w) == IF w.crescore = "absent" THEN <<>> ELSE ColOf(w, w.crescore)
After(w) == [present |-> Files(w), flist |-> FlistCol(w), rescore |-> RescoreCol(w)]

(* window_score(rescore): [err, opened (files opened with fits.open), w (the world afterwards)] *)
WindowScore(w, rescore) ==
  IF ~w.calib \/ ~w.resolve \/ "flist" \notin w.present
  THEN [err |-> "PhotoopException", opened |-> {}, w |-> w]
  ELSE IF rescore /\ w.crescore # "absent" THEN [err |-> "open", opened |-> {"flist"}, w |-> w]
  ELSE [err |-> "", opened |-> {"flist"},
        w |-> IF rescore THEN [w EXCEPT !.crescore = "scored"] ELSE [w EXCEPT !.cflist = "scored"]]

ReadSet(kw) == (IF kw.flist THEN {IF kw.rescore THEN "rescore" ELSE "flist"} ELSE {})
          \cup (IF kw.blist \/ kw.balkans THEN {"blist"} ELSE {})
          \cup (IF kw.bcaps \/ kw.balkans THEN {"bcaps"} ELSE {})
          \cup (IF kw.findx THEN {"findx"} ELSE {})
          \cup (IF kw.bindx THEN {"bindx"} ELSE {})
KeysOf(kw) == {k \in KeyNames : kw[k]}
NeedsScoring(kw, w) == kw.flist /\ kw.rescore /\ w.crescore = "absent"

NoRead(err, w) == [err |-> err, keys |-> {}, reads |-> {}, opened |-> {}, flist |-> <<>>, after |-> After(w)]
WindowRead(kw, w) ==
  IF ~w.resolve THEN NoRead("PhotoopException", w)
  ELSE LET sc == IF NeedsScoring(kw, w) THEN WindowScore(w, TRUE) ELSE [err |-> "", opened |-> {}, w |-> w]
           w2 == sc.w
       IN IF sc.err # "" THEN NoRead(sc.err, w)
          ELSE IF ~(ReadSet(kw) \subseteq Files(w2)) THEN NoRead("open", w)
          ELSE [err |-> "", keys |-> KeysOf(kw), reads |-> ReadSet(kw), opened |-> sc.opened,
                flist |-> IF ~kw.flist THEN <<>> ELSE IF kw.rescore THEN RescoreCol(w2) ELSE FlistCol(w2),
                after |-> After(w2)]

WScoreOut(w, rescore) == LET s == WindowScore(w, rescore) IN
  [err |-> s.err, keys |-> {}, reads |-> {}, opened |-> s.opened, flist |-> <<>>, after |-> After(s.w)]

(* ---- laws of the file level ---- *)
Law_KeysAreRequests(kw, w) == LET o == WindowRead(kw, w) IN o.err = "" =>
     /\ o.keys = {k \in KeyNames : kw[k]}
     /\ \A f \in PlainFiles \ {"flist"} : (f \in o.reads) <=> (kw[f] \/ (f \in {"blist", "bcaps"} /\ kw.balkans))
     /\ Cardinality(o.reads \cap {"flist", "rescore"}) = (IF kw.flist THEN 1 ELSE 0)
Law_FlistUntouchedByRead(kw, w) == WindowRead(kw, w).after.flist = FlistCol(w)
Law_RescoreOnlyWhenMissing(kw, w) == LET o == WindowRead(kw, w) IN
     (o.err = "" /\ w.crescore # "absent") => (o.opened = {} /\ o.after = After(w))
Law_NothingWithoutFlist(kw, w) == ~kw.flist => WindowRead(kw, w).after = After(w)
Law_ScoreOneTarget(w, rescore) == LET s == WindowScore(w, rescore) IN s.err = "" =>
     /\ (rescore => FlistCol(s.w) = FlistCol(w) /\ RescoreCol(s.w) = RowScores(w))
     /\ (~rescore => FlistCol(s.w) = RowScores(w) /\ RescoreCol(s.w) = RescoreCol(w))
     /\ \A k \in DOMAIN RowScores(w) : InUnit(RowScores(w)[k])
Law_FailureChangesNothing(w, rescore) == LET s == WindowScore(w, rescore) IN s.err # "" => s.w = w
FileLaws(kw, w) == /\ Law_KeysAreRequests(kw, w) /\ Law_FlistUntouchedByRead(kw, w)
                   /\ Law_RescoreOnlyWhenMissing(kw, w) /\ Law_NothingWithoutFlist(kw, w)
ScoreFileLaws(w, rescore) == Law_ScoreOneTarget(w, rescore) /\ Law_FailureChangesNothing(w, rescore)

(* --------------------------- balkans --------------------------- *)
(* blist row: [iprimary, ibindx, ncaps, icap, weight, str]; bcaps row: [x |-> <<rat, rat, rat>>, cm |-> rat] *)
Zero3 == <<Zero, Zero, Zero>>
MaxOf(S) == CHOOSE m \in S : \A n \in S : n <= m
MaxCaps(blist) == MaxOf({blist[k].ncaps : k \in DOMAIN blist})
PadTo(s, n, z) == s \o [k \in 1 .. (n - Len(s)) |-> z]
BalkanRow(r, bcaps, m) ==
  LET mine == SubSeq(bcaps, r.icap + 1, r.icap + r.ncaps) IN
  [ifield |-> r.iprimary, pixel |-> r.ibindx, ncaps |-> r.ncaps, use_caps |-> 2 ^ r.ncaps - 1,
   weight |-> r.weight, str |-> r.str,
   xcaps |-> PadTo([j \in 1 .. r.ncaps |-> mine[j].x], m, Zero3),
   cmcaps |-> PadTo([j \in 1 .. r.ncaps |-> mine[j].cm], m, Zero)]
BalkansDefined(blist, bcaps) == /\ Len(blist) >= 1
                                /\ \A k \in DOMAIN blist : blist[k].ncaps \in 0 .. 30 /\ blist[k].icap >= 0
                                                           /\ blist[k].icap + blist[k].ncaps <= Len(bcaps)
Balkans(blist, bcaps) == [k \in DOMAIN blist |-> BalkanRow(blist[k], bcaps, MaxCaps(blist))]

Dot3(a, b) == Add(Add(Mul(a[1], b[1]), Mul(a[2], b[2])), Mul(a[3], b[3]))
InCap(p, x, cm) == Le(Sub(One, Dot3(x, p)), cm)                 \* cm >= 0
InsideRow(p, row) == \A j \in 1 .. row.ncaps : InCap(p, row.xcaps[j], row.cmcaps[j])
InsideSets(bk, pts) == [k \in DOMAIN bk |-> {i \in DOMAIN pts : InsideRow(pts[i], bk[k])}]

(* the parts of a balkans table that do not depend on what unused slots hold *)
Used(bk) == [k \in DOMAIN bk |-> [bk[k] EXCEPT !.xcaps = SubSeq(@, 1, bk[k].ncaps), !.cmcaps = SubSeq(@, 1, bk[k].ncaps)]]
Law_Balkans(blist, bcaps, pts) == LET bk == Balkans(blist, bcaps) IN
  /\ Len(bk) = Len(blist)
  /\ \A k \in DOMAIN bk : /\ Len(bk[k].xcaps) = MaxCaps(blist) /\ Len(bk[k].cmcaps) = MaxCaps(blist)
                          /\ \A j \in (bk[k].ncaps + 1) .. MaxCaps(blist) : bk[k].xcaps[j] = Zero3 /\ bk[k].cmcaps[j] = Zero
                          /\ \A j \in 1 .. bk[k].ncaps : bk[k].xcaps[j] = bcaps[blist[k].icap + j].x
                          /\ \A b \in 0 .. 30 : ((bk[k].use_caps \div (2 ^ b)) % 2 = 1) <=> (b < bk[k].ncaps)
  /\ InsideSets(Used(bk), pts) = InsideSets(bk, pts)

(* D-X05-5: same table up to the contents of the unused slots (which are then not zero) *)
Dev_PaddingUninitialised(observed, blist, bcaps) ==
  /\ Len(observed) = Len(blist)
  /\ \A k \in DOMAIN observed : Len(observed[k].xcaps) = MaxCaps(blist) /\ Len(observed[k].cmcaps) = MaxCaps(blist)
  /\ Used(observed) = Used(Balkans(blist, bcaps))
  /\ observed # Balkans(blist, bcaps)
=============================================================================
