------------------------------ MODULE SkyGeom ------------------------------
(* C18 - great-circle distance (gcirc), SDSS great-circle coordinates (mu, nu) and the   *)
(* angles <-> unit-vector conversions.                                                     *)
(*                                                                                          *)
(* TLA+ has no reals.  What this module carries is                                          *)
(*  1. the stripe table (eta, inclination) in tenths of a degree;                           *)
(*  2. for every stripe the points of the claimed rotation whose images are known without   *)
(*     trigonometry: the two points of the node axis (fixed) and the great circle            *)
(*     perpendicular to it (moved along itself by the inclination);                          *)
(*  3. families of point pairs whose separation is an exact rational expression of the      *)
(*     coordinates, in exact dyadic arithmetic, in each of gcirc's three unit conventions;  *)
(*  4. exact images of the axis points under angles -> unit vector;                         *)
(*  5. the LAWS of the statement as predicates over records of real calls.  In those the    *)
(*     closeness measurements (parts per billion, nano-degrees) and the class attributes    *)
(*     (octave of the separation ...) are the harness's; which law is triggered by a         *)
(*     record, with which tolerance, and whether it holds is decided here.                  *)
(* Written from the property statement, the SDSS survey-coordinate definitions and          *)
(* spherical geometry, not from pydl's code.                                                *)
EXTENDS Integers, Sequences, FiniteSets

AbsI(x) == IF x < 0 THEN -x ELSE x
SgnI(x) == IF x < 0 THEN -1 ELSE IF x > 0 THEN 1 ELSE 0

(* ======================= 1. stripe table (tenths of a degree) ======================= *)
Stripes == 0..90
Node10 == 950                        \* ascending node of every SDSS great circle: RA 95 deg
StripeSep10 == 25                    \* stripes are 2.5 deg apart in eta
SurveyCentreDec10 == 325             \* the survey centre (eta = 0) is at Dec +32.5
(* Stripe 10 is the celestial equator (eta -32.5) and so is the southern stripe 82; the  *)
(* southern stripes (> 46) are the same great circles numbered from the other side.      *)
Eta10(s) == IF s <= 46 THEN (s - 10) * StripeSep10 - SurveyCentreDec10
                       ELSE (s - 82) * StripeSep10 - SurveyCentreDec10
Incl10(s) == Eta10(s) + SurveyCentreDec10

StripeTableOK ==
  /\ Incl10(10) = 0 /\ Incl10(82) = 0
  /\ \A s \in Stripes : AbsI(Incl10(s)) <= 900 /\ Eta10(s) > -1800 /\ Eta10(s) <= 1800
  /\ \A s \in Stripes \ {90} : Eta10(s + 1) - Eta10(s) = (IF s = 46 THEN StripeSep10 - 1800 ELSE StripeSep10)

(* ================= 2. exact anchor points of the rotation (tenths) ================== *)
(* A position is [lon, lat]; at lat = +-900 the longitude is immaterial.                  *)
Lon(x) == x % 3600
SamePos(a, b) == a = b \/ (AbsI(a.lat) = 900 /\ a.lat = b.lat)
(* The great circle through the two poles of the node axis, parametrised by the angle t   *)
(* from the point (lon = node + 90, lat = 0) towards the north pole.                      *)
Circ(t) == LET u == t % 3600 IN
  IF u <= 900 THEN [lon |-> Lon(Node10 + 900), lat |-> u]
  ELSE IF u <= 2700 THEN [lon |-> Lon(Node10 + 2700), lat |-> 1800 - u]
  ELSE [lon |-> Lon(Node10 + 900), lat |-> u - 3600]
Axis(j) == [lon |-> Lon(Node10 + 1800 * j), lat |-> 0]
(* An anchor is ["axis", j] or ["circ", t].                                               *)
PosOf(a) == IF a.on = "circ" THEN Circ(a.t) ELSE Axis(a.t)
(* (mu, nu) -> (ra, dec) for stripe s is the rotation about the node axis that carries    *)
(* the great circle nu = 0 onto the great circle of inclination Incl(s): the axis stays,  *)
(* the perpendicular circle turns by Incl(s).  (ra, dec) -> (mu, nu) is the inverse.       *)
ToEq(s, a) == IF a.on = "circ" THEN [on |-> "circ", t |-> (a.t + Incl10(s)) % 3600] ELSE a
ToMuNu(s, a) == IF a.on = "circ" THEN [on |-> "circ", t |-> (a.t - Incl10(s)) % 3600] ELSE a
(* exact separations among anchors *)
SepAnchor(a, b) ==
  IF a.on = "circ" /\ b.on = "circ"
    THEN LET d == (a.t - b.t) % 3600 IN IF d > 1800 THEN 3600 - d ELSE d
  ELSE IF a.on = "axis" /\ b.on = "axis" THEN (IF a.t % 2 = b.t % 2 THEN 0 ELSE 1800)
  ELSE 900
(* --- 2b. what the coordinate object carries besides the direction ---------------------- *)
(* A sky position is a direction, and the transform is a function of the direction alone.   *)
(* The coordinate objects the transforms take (ICRS / SDSSMuNu frames, SkyCoord) may carry   *)
(* more than that: a DISTANCE (catalogue positions with parallaxes).  The image of an object *)
(* with a distance is the image of its direction - for every stripe, in both directions, so  *)
(* round trip, isometry and nu = 0 hold for such objects as they do for bare directions.     *)
(* (Whether the result keeps the distance is left open; only directions are compared.)       *)
(* Distances in eighths of a parsec, 0 = the object carries none: below, at and above the    *)
(* unit of length - 1 is the length an unnormalised vector gets right by accident.           *)
CarrierDist8 == {0, 1, 8, 20, 8000}          \* none; 1/8 pc; 1 pc; 2.5 pc; 1 kpc
CarrierClasses == {"direction", "nearer", "unit", "farther", "mixed"}
CarrierClass(d8) == IF d8 = 0 THEN "direction" ELSE IF d8 < 8 THEN "nearer" ELSE IF d8 = 8 THEN "unit" ELSE "farther"
(* every anchor admits every carrier and its image does not depend on it *)
CarriersFor(a) == CarrierDist8
(* tolerance (nano-degrees) for a position produced by the transform: arcsin/arccos lose  *)
(* half the digits within 0.1 deg of the poles of the output system                        *)
PosTolNdeg(polar) == IF polar THEN 10000 ELSE 1

(* ============ 3. exact distance families (dyadic arithmetic, 32-bit safe) ============ *)
(* An exact angle is [b, m] with a per-case exponent k: b/8 + m/2^k in the native unit of *)
(* the convention (degrees; hours for RA when units = 1; radians when units = 0).         *)
(* With k >= KMin and |m| < MBound the fine part is below 1/16, so b decides the sign.    *)
KMin == 14
MBound == 1024
EA(b, m) == [b |-> b, m |-> m]
EZ == EA(0, 0)
ESub(x, y) == EA(x.b - y.b, x.m - y.m)
EAdd(x, y) == EA(x.b + y.b, x.m + y.m)
ENeg(x) == EA(-x.b, -x.m)
EScale(n, x) == EA(n * x.b, n * x.m)
ESmall(x) == AbsI(x.m) < MBound
ESgn(x) == IF x.b # 0 THEN SgnI(x.b) ELSE SgnI(x.m)
EAbs(x) == IF ESgn(x) < 0 THEN ENeg(x) ELSE x
ELe(x, y) == ESgn(ESub(y, x)) >= 0
EMin(x, y) == IF ELe(x, y) THEN x ELSE y

RAFactor(u) == IF u = 1 THEN 15 ELSE 1           \* hours -> degrees
OutScale(u) == IF u = 0 THEN 1 ELSE 3600         \* radians stay radians; degrees -> arcsec
Quarter == EA(720, 0)                            \* 90 deg
Half == EA(1440, 0)                              \* 180 deg
Full == EA(2880, 0)                              \* 360 deg

RADiff(p, q, u) == EAbs(EScale(RAFactor(u), ESub(q.ra, p.ra)))
Seam(p, q, u) == u # 0 /\ ~ELe(RADiff(p, q, u), Half)
AtPole(x, u) == u # 0 /\ x.dec.m = 0 /\ AbsI(x.dec.b) = 720
SamePoint(p, q, u) == p = q \/ (AtPole(p, u) /\ AtPole(q, u) /\ p.dec = q.dec)
PointOK(x, u) == /\ ESmall(x.ra) /\ ESmall(x.dec)
                 /\ IF u = 0 THEN AbsI(x.dec.b) <= 12 /\ x.ra.b >= 0 /\ x.ra.b <= 50
                    ELSE /\ ELe(EAbs(x.dec), Quarter)
                         /\ ELe(EZ, x.ra) /\ ELe(EScale(RAFactor(u), x.ra), Full)

FamilyNames == {"ident", "samera", "equator", "pole", "opposite"}
InFamily(f, p, q, u) ==
  CASE f = "ident" -> p = q
    [] f = "samera" -> p.ra = q.ra
    [] f = "equator" -> p.dec = EZ /\ q.dec = EZ /\ (u = 0 => ELe(RADiff(p, q, u), EA(24, 0)))
    [] f = "pole" -> AtPole(p, u) \/ AtPole(q, u)
    [] f = "opposite" -> u # 0 /\ RADiff(p, q, u) = Half
Applicable(p, q, u) == {f \in FamilyNames : InFamily(f, p, q, u)}
FamDist(f, p, q, u) ==
  CASE f = "ident" -> EZ
    [] f = "samera" -> EAbs(ESub(p.dec, q.dec))
    [] f = "equator" -> LET a == RADiff(p, q, u) IN IF u = 0 THEN a ELSE EMin(a, ESub(Full, a))
    [] f = "pole" -> LET pl == IF AtPole(p, u) THEN p ELSE q
                         ot == IF AtPole(p, u) THEN q ELSE p
                     IN IF pl.dec.b > 0 THEN ESub(Quarter, ot.dec) ELSE EAdd(Quarter, ot.dec)
    [] f = "opposite" -> ESub(Half, EAbs(EAdd(p.dec, q.dec)))
(* separation in the unit of the declinations (degrees, or radians when u = 0) *)
Dist(p, q, u) == FamDist(CHOOSE f \in Applicable(p, q, u) : TRUE, p, q, u)

(* --- where the relative tolerance of the statement can be demanded of IEEE doubles ---- *)
(* Separation classes are octaves of a degree.  FineBin: 2^-18 deg = 13.7 mas,            *)
(* BigBin: 2^-5 deg = 112.5 arcsec.  A pair is resolvable unless                          *)
(*  - its points differ in RA, one of them is within 2^-18 deg of a celestial pole and    *)
(*    they are closer than 2^-5 deg (cos(dec) is the rounded radian value's cosine: its   *)
(*    relative error is 1e-16 / colatitude), or                                            *)
(*  - its RA difference exceeds half a turn and the points are closer than 2^-18 deg      *)
(*    (the residual of a full turn carries the rounding error of the turn).               *)
FineBin == -18
BigBin == -5
Resolvable(samera, seam, sepGeBig, sepGeFine, colatGeFine) ==
  /\ (samera \/ colatGeFine \/ sepGeBig)
  /\ (~seam \/ sepGeFine)
(* x >= 2^t (same unit), for exact x >= 0 and t <= -4 *)
GeBin(x, k, t) ==
  IF x.b > 0 THEN TRUE ELSE IF x.b < 0 THEN FALSE
  ELSE IF k + t >= 10 THEN FALSE ELSE IF k + t <= 0 THEN x.m >= 1 ELSE x.m >= 2^(k + t)
(* x >= 1 micro-arcsecond.  Degrees: m/2^k * 3.6e9 >= 1, 3.6e9 = 2^12 * 878906.25.        *)
(* Radians: 1 uas = 4.848137e-12 rad = 5.3306 / 2^40.                                      *)
GeMicroArcsec(x, k, u) ==
  IF x.b > 0 THEN TRUE ELSE IF x.b < 0 \/ x.m <= 0 THEN FALSE
  ELSE IF u = 0 THEN (IF k > 40 THEN FALSE ELSE IF k <= 37 THEN TRUE ELSE x.m * 2^(40 - k) >= 6)
  ELSE (IF k <= 31 THEN TRUE ELSE IF k >= 37 THEN FALSE ELSE IF x.m >= 24 THEN TRUE
        ELSE x.m * 87890625 >= 100 * 2^(k - 12))
Colat(x) == ESub(Quarter, EAbs(x.dec))
ColatFine(x, k, u) == IF u = 0 THEN AbsI(x.dec.b) <= 8 ELSE GeBin(Colat(x), k, FineBin)
DemandVector(p, q, u, k) ==
  LET d == Dist(p, q, u) IN
  /\ GeMicroArcsec(d, k, u)
  /\ Resolvable(p.ra = q.ra, Seam(p, q, u), GeBin(d, k, BigBin), GeBin(d, k, FineBin),
                ColatFine(p, k, u) /\ ColatFine(q, k, u))

(* ===================== 4b. numeric forms of the arguments =========================== *)
(* The functions are functions of the VALUES of their arguments: an argument whose value is  *)
(* integral may be handed over as a float64 or with any integer type that holds it (numpy    *)
(* arrays and scalars of that type, Python int), and the specified outcome is the same.       *)
(* Which integer forms a case admits is decided here; the harness rotates through them.       *)
IntForms == {"int8", "uint8", "int16", "uint16", "int32", "uint32", "int64", "uint64", "pyint"}
FormLo(f) == CASE f = "int8" -> -128 [] f = "int16" -> -32768 [] f \in {"uint8", "uint16", "uint32", "uint64"} -> 0
               [] OTHER -> -1000000
FormHi(f) == CASE f = "int8" -> 127 [] f = "uint8" -> 255 [] f = "int16" -> 32767 [] f = "uint16" -> 65535 [] OTHER -> 1000000
FormsFor(vals) == {f \in IntForms : \A v \in vals : FormLo(f) <= v /\ v <= FormHi(f)}
FormClass(f) == CASE f \in {"int8", "uint8"} -> "8bit" [] f \in {"int16", "uint16"} -> "16bit" [] f = "pyint" -> "py"
                  [] f \in {"int32", "uint32", "int64", "uint64"} -> "wide" [] OTHER -> "none"
EAIntegral(x) == x.m = 0 /\ x.b % 8 = 0
DistForms(c) == LET xs == {c.p.ra, c.p.dec, c.q.ra, c.q.dec} IN
                IF \A x \in xs : EAIntegral(x) THEN FormsFor({x.b \div 8 : x \in xs}) ELSE {}
PosForms(pos) == IF pos.lon % 10 = 0 /\ pos.lat % 10 = 0 THEN FormsFor({pos.lon \div 10, pos.lat \div 10}) ELSE {}
FormFns == {"gcirc", "radec_to_munu", "munu_to_radec", "stripe_to_eta", "stripe_to_incl",
            "angles_to_x", "x_to_angles", "cap_distance"}
(* record "form" = fn called with integer-typed arguments (form, arr = arrays rather than    *)
(* scalars) against the same call with the same values as float64: disc = largest difference *)
(* of the results (ppb for gcirc, nano-degrees otherwise; 0 = identical)                      *)
FormTol(r) == IF r.fn = "gcirc" THEN 1 ELSE PosTolNdeg(r.polar)
(* The numeric type is chosen PER ARGUMENT: `mix` names the arguments that take the integer  *)
(* form, every other argument is float64.  gcirc: all four; the RAs only; the Decs only; the  *)
(* first / second point only; one point as integer scalars against the other as float arrays  *)
(* (broadcast); Python-int RAs / Decs against float arrays.  cap_distance: x, cm, points.      *)
(* The transforms: the longitude or the latitude array of the coordinate object.               *)
GcircMixes == {"all", "ra", "dec", "p1", "p2", "scalar-p1", "scalar-p2", "pyint-ra", "pyint-dec"}
MixesOf(fn) == CASE fn = "gcirc" -> GcircMixes
                 [] fn = "cap_distance" -> {"all", "x", "cm", "points"}
                 [] fn \in {"radec_to_munu", "munu_to_radec"} -> {"all", "lon", "lat"}
                 [] OTHER -> {"all"}
(* the float forms likewise per argument: all four, the RAs, the Decs, one point *)
GcircFloatMixes == {"all", "ra", "dec", "p1", "p2"}
MixAdmitsForm(m, f) == IF m \in {"pyint-ra", "pyint-dec"} THEN f = "pyint" ELSE (f = "pyint" => m = "all")
FormIndependent(r) == /\ r.fn \in FormFns /\ r.form \in IntForms /\ r.mix \in MixesOf(r.fn) /\ MixAdmitsForm(r.mix, r.form)
                      /\ ~r.raised /\ ~r.nan /\ r.disc <= FormTol(r)

(* --- floating-point forms ------------------------------------------------------------- *)
(* float64 is the form the cases are stated in.  The same VALUES may be handed over in       *)
(* single precision ("float32": the coordinates of many FITS catalogues) wherever every      *)
(* coordinate of the case is exactly a single-precision number, and in extended precision    *)
(* ("longdouble") always.  A coordinate b/8 + m/2^k is n/2^k with n = b 2^(k-3) + m; it is a  *)
(* single-precision number when |n| < 2^24 (guarded so that nothing overflows 32 bits).      *)
FloatForms == {"float32", "longdouble"}
F32Exact(x, k) == x.m = 0 \/ x.b = 0 \/ (k <= 27 /\ AbsI(x.b) + 1 <= 2^(27 - k))
DistFloatForms(c) == {"longdouble"} \cup
                     (IF \A x \in {c.p.ra, c.p.dec, c.q.ra, c.q.dec} : F32Exact(x, c.k) THEN {"float32"} ELSE {})
Precision(f) == IF f = "float32" THEN "single" ELSE "double"
(* A single-precision INPUT cannot demand more than single precision (the answer may be      *)
(* computed in either precision): never NaN, zero on the diagonal and the range are demanded *)
(* of every such call (the range up to two roundings of the half turn to single precision,   *)
(* 2^-23 = 120 ppb each); the value only where single-precision arithmetic resolves it well  *)
(* - separations from 1 deg (1/8 rad) to 179 deg (3 rad), where cos(dec) and the arcsine of   *)
(* the half distance are not the limiting terms - and there to 1e-4, symmetry to 1e-3.        *)
SingleEpsPpb == 120
SingleRangeSlackPpb == 2 * SingleEpsPpb
SingleTolPpb == 100000
SingleSymTolPpb == 1000000
SingleDemand(p, q, u) ==
  LET d == Dist(p, q, u) IN
  IF u = 0 THEN d.b >= 1 /\ ELe(d, EA(24, 0)) ELSE d.b >= 8 /\ ELe(d, EA(1432, 0))
(* the same for a record of a real call: sepdeg = whole degrees of the separation *)
SingleDemandRec(r) == r.uas >= 1 /\ r.sepdeg >= 1 /\ r.sepdeg < 179

(* Named deviation D-C18-1: the half-differences are formed AFTER each coordinate was      *)
(* converted to radians, so they carry the rounding error of the radian values (~2e-16     *)
(* rad) instead of being exact; the relative error of the distance is ~4e-16 rad / d and   *)
(* exceeds 1e-6 for separations below ~0.1 mas.  The deviation admits a failure of the     *)
(* vector-formula law (and nothing else) for separations below 2^-18 deg.                  *)
Dev_SubtractsRadians(d, k) == ~GeBin(d, k, FineBin)
Dev_SubtractsRadiansRec(r) == r.sepbin < FineBin
(* Named deviation D-C18-2: arcsin of a sine that rounding pushed above 1: NaN at the      *)
(* poles of the stripe's great circle (and at the celestial poles for mu,nu -> ra,dec)     *)
Dev_ArcsinNotClipped(r) == r.nan /\ r.polar

(* Named deviation D-C18-7: the rounded radian value of a pole can lie beyond pi/2          *)
(* (float32(pi/2) > pi/2) where the cosine is negative; for nearly coincident pairs with a   *)
(* point exactly at a pole - in single precision, or when the two declinations differ in     *)
(* precision - the haversine comes out negative and the distance is NaN.  The deviation      *)
(* admits NaN (and nothing else) for such pairs closer than 2^-5 deg in a form other than    *)
(* float64 throughout.                                                                        *)
Dev_NegativeHaversine(p, q, u, k) == (AtPole(p, u) \/ AtPole(q, u)) /\ ~GeBin(Dist(p, q, u), k, BigBin)
Dev_NegativeHaversineRec(r) == r.single /\ r.colatbin = -99 /\ r.sepbin < BigBin /\ \E u \in 1..3 : r.nan[u]

RelTolPpb == 1000           \* the statement's relative 1e-6, in parts per billion
RangeSlackPpb == 1          \* [0, 180 deg] up to 1e-9 of the half turn (one rounding of the unit factor)
ExpectedDist(c) ==
  LET d == Dist(c.p, c.q, c.units) IN
  [d |-> d, scale |-> OutScale(c.units), zero |-> (c.p = c.q),
   demand |-> DemandVector(c.p, c.q, c.units, c.k), tolppb |-> RelTolPpb, slackppb |-> RangeSlackPpb,
   dev1 |-> Dev_SubtractsRadians(d, c.k), forms |-> DistForms(c), mixes |-> IF DistForms(c) = {} THEN {} ELSE GcircMixes,
   fforms |-> DistFloatForms(c), fprec |-> [f \in DistFloatForms(c) |-> Precision(f)], fmixes |-> GcircFloatMixes,
   sdemand |-> SingleDemand(c.p, c.q, c.units), stolppb |-> SingleTolPpb, ssymppb |-> SingleSymTolPpb,
   sslackppb |-> SingleRangeSlackPpb, dev7 |-> Dev_NegativeHaversine(c.p, c.q, c.units, c.k)]

(* spec-level laws of the exact families *)
DistCaseOK(c) == c.k >= KMin /\ PointOK(c.p, c.units) /\ PointOK(c.q, c.units) /\ Applicable(c.p, c.q, c.units) # {}
FamiliesAgree(c) == \A f, g \in Applicable(c.p, c.q, c.units) :
                       FamDist(f, c.p, c.q, c.units) = FamDist(g, c.p, c.q, c.units)
DistSymmetric(c) == /\ Applicable(c.q, c.p, c.units) = Applicable(c.p, c.q, c.units)
                    /\ Dist(c.q, c.p, c.units) = Dist(c.p, c.q, c.units)
DistRange(c) == LET d == Dist(c.p, c.q, c.units) IN ELe(EZ, d) /\ (c.units # 0 => ELe(d, Half))
DistZeroIffSamePoint(c) == (Dist(c.p, c.q, c.units) = EZ) <=> SamePoint(c.p, c.q, c.units)
(* hours are degrees / 15: the same pair stated in degrees has the same separation *)
HoursToDeg(x) == [ra |-> EScale(15, x.ra), dec |-> x.dec]
UnitsExact(c) == c.units = 1 =>
   /\ Applicable(HoursToDeg(c.p), HoursToDeg(c.q), 2) = Applicable(c.p, c.q, 1)
   /\ Dist(HoursToDeg(c.p), HoursToDeg(c.q), 2) = Dist(c.p, c.q, 1)
DemandWithinStatement(c) == DemandVector(c.p, c.q, c.units, c.k) => GeMicroArcsec(Dist(c.p, c.q, c.units), c.k, c.units)

(* ================== 4. exact images of axis points as unit vectors =================== *)
AxisLons == {0, 900, 1800, 2700}
AxisLats == {-900, 0, 900}
CosAx(a) == CASE a % 3600 = 0 -> 1 [] a % 3600 = 900 -> 0 [] a % 3600 = 1800 -> -1 [] a % 3600 = 2700 -> 0
SinAx(a) == CosAx(a - 900)
UnitVec(lon, lat) == << CosAx(lon) * CosAx(lat), SinAx(lon) * CosAx(lat), SinAx(lat) >>
(* the angle pair handed to the code: (lon, lat) when latitude = TRUE, (lon, colatitude) otherwise *)
AnglesArg(lon, lat, latitude) == IF latitude THEN <<lon, lat>> ELSE <<lon, 900 - lat>>

(* ========== 4c. a point against itself and against its antipode (never NaN) ========== *)
(* gcirc of a point and itself is 0, of a point and its antipode 180 deg.  cap_distance of  *)
(* a cap of polar angle theta about x is theta - sep(x, point), negated for cm < 0 (the      *)
(* complement); is_in_cap is "cap_distance >= 0".  For the cap's own centre and for the      *)
(* antipode of the centre this is exact, wherever the centre is - and a NUMBER: rounding     *)
(* pushes dot products / chords of such pairs just outside the domain of arccos / arcsin.    *)
(* cm = 1 - cos(theta) is exact in binary for theta = 60, 90, 120 deg (halves).              *)
CapThetas10 == {600, 900, 1200}
CapCmHalves(t) == CASE t = 600 -> 1 [] t = 900 -> 2 [] t = 1200 -> 3
ExactRels == {"coincident", "antipode", "antipode-negated"}   \* antipode as (RA+180, -Dec); as the negated vector
(* the same point / the exact antipode with both coordinates (or one) shifted by uniform     *)
(* offsets of at most `scale`: the pairs for which half-chords and sines of half distances   *)
(* round to 1 + 1 ulp although the exact antipode itself does not                             *)
NearRels == {"near-coincident", "near-antipode"}
SelfRels == ExactRels \cup NearRels
NearScales == {1, 100, 1000, 10000, 100000, 1000000}          \* units of 1e-12 deg: 1e-12 ... 1e-6 deg
SelfSep10(rel) == IF rel \in {"coincident", "near-coincident"} THEN 0 ELSE 1800
CapSelfDist10(t, rel, sgn) == sgn * (t - SelfSep10(rel))
CapSelfInside(t, rel, sgn) == CapSelfDist10(t, rel, sgn) >= 0
(* record "self" = a batch of n pairs: fn (gcirc | cap_distance), conv (u0 u1 u2 | radec     *)
(* vector), rel, scale (0 for the exact relations); nnan = results that are NaN; disc =      *)
(* largest distance from the value specified for the exact relation (nano-degrees); wrong =  *)
(* is_in_cap answers that are not the specified ones (cap_distance), results outside         *)
(* [0, 180 deg] (gcirc).  A partner shifted by at most `scale` in each coordinate is within  *)
(* sqrt(2) scale of the exact one.                                                            *)
SelfTolNdeg(r) == IF r.rel \in NearRels THEN 2 * ((r.scale \div 1000) + 1) + PosTolNdeg(TRUE)
                  ELSE IF r.fn = "gcirc" /\ r.rel = "coincident" THEN 0 ELSE PosTolNdeg(TRUE)
SelfHolds(r) == /\ r.fn \in {"gcirc", "cap_distance"} /\ r.rel \in SelfRels
                /\ (IF r.rel \in NearRels THEN r.scale \in NearScales ELSE r.scale = 0)
                /\ r.nnan = 0 /\ r.wrong = 0
                /\ r.disc <= SelfTolNdeg(r)

(* ===================== 5. the laws over records of real calls ======================== *)
(* --- gcirc: one record = one pair of points called in the three conventions, both       *)
(* argument orders.  Sequences are indexed 1..3 = units 0, 1, 2.                           *)
(*   ident samera seam : BOOLEAN     (identical coordinates; equal RA; |dRA| > half turn)  *)
(*   uas      : separation in micro-arcseconds, floored, capped at 2e9  (oracle)          *)
(*   sepdeg   : separation in degrees, floored                            (oracle)         *)
(*   sepbin, colatbin : octave (floor log2 of degrees) of the separation and of the       *)
(*              smaller polar distance; -99 for zero                                        *)
(*   nan, neg, zero : per convention, result is NaN / negative / exactly 0                *)
(*   over     : excess over the half turn, ppb of the half turn                            *)
(*   vec      : |gcirc - vector formula| / vector formula, ppb, capped                     *)
(*   sym      : |gcirc(p,q) - gcirc(q,p)| / larger, ppb                                    *)
(*   hexact   : the hour and degree forms denote exactly the same points                   *)
(*   uhd, urd : relative difference hours-vs-degrees, radians-vs-degrees results, ppb      *)
(*   single   : the coordinates were handed over as single-precision (float32) arrays; the   *)
(*              class attributes and the oracle are those of the single-precision VALUES      *)
U3 == 1..3
GcNeverNaN(r) == \A u \in U3 : ~r.nan[u]
GcRangeSlack(r) == IF r.single THEN SingleRangeSlackPpb ELSE RangeSlackPpb
GcRange(r) == \A u \in U3 : ~r.neg[u] /\ r.over[u] <= GcRangeSlack(r)
GcZeroOnDiagonal(r) == r.ident => \A u \in U3 : r.zero[u]
GcSymmetric(r) == \A u \in U3 : r.sym[u] <= (IF r.single THEN SingleSymTolPpb ELSE RelTolPpb)
GcVecTriggered(r) == IF r.single THEN SingleDemandRec(r) ELSE
                     /\ r.uas >= 1
                     /\ Resolvable(r.samera, r.seam, r.sepbin >= BigBin, r.sepbin >= FineBin, r.colatbin >= FineBin)
GcVecTol(r) == IF r.single THEN SingleTolPpb ELSE RelTolPpb
GcAgreesWithVector(r) == GcVecTriggered(r) => \A u \in U3 : r.vec[u] <= GcVecTol(r)
(* the converted inputs are the same points only to ~1e-14 deg unless exact: demand the   *)
(* agreement where that is below a tenth of the tolerance.  (Single-precision inputs of    *)
(* the three conventions are different points: each is held to its own vector formula.)    *)
GcUnitsHDTriggered(r) == ~r.single /\ GcVecTriggered(r) /\ (r.hexact \/ r.sepbin >= FineBin)
GcUnitsRDTriggered(r) == ~r.single /\ GcVecTriggered(r) /\ r.sepbin >= FineBin
GcUnitsAgree(r) == /\ GcUnitsHDTriggered(r) => r.uhd <= RelTolPpb
                   /\ GcUnitsRDTriggered(r) => r.urd <= RelTolPpb
(* decade of the separation: number of decimal digits of uas (1..10); 0 below 1 uas *)
RECURSIVE Digits(_)
Digits(n) == IF n <= 0 THEN 0 ELSE 1 + Digits(n \div 10)

(* --- mu/nu records: disc in nano-degrees (capped), polar = some point of the record is   *)
(* within 0.1 deg of a pole of the system it is expressed in by the code under test.       *)
(* Round-trip records ("rt") also say how the coordinate OBJECT handed to the transform    *)
(* was used: array = it holds arrays (not scalars); use = number of transforms the very    *)
(* same object had already been handed to.  The law is the same for every use: a transform *)
(* is a function of the coordinates, so the result is compared with the coordinates the    *)
(* object was BUILT from (for array objects disc is the largest element discrepancy).      *)
(* carrier = what the object(s) handed to the transform carried besides the direction        *)
(* (CarrierClasses; "mixed" = an isometry pair whose two objects differ in that).             *)
MuNuHolds(r) == r.carrier \in CarrierClasses /\ ~r.nan /\ r.disc <= PosTolNdeg(r.polar)
(* --- CallerObjectUnchanged: record "unch" = one call of fn (radec_to_munu, munu_to_radec, *)
(* gcirc, angles_to_x, x_to_angles); same = the coordinate / argument arrays of the object  *)
(* handed in are bit-identical after the call; array, use as above                           *)
CallerFns == {"radec_to_munu", "munu_to_radec", "gcirc", "angles_to_x", "x_to_angles"}
TransformFns == {"radec_to_munu", "munu_to_radec"}
CallerObjectUnchanged(r) == r.fn \in CallerFns /\ r.same
(* --- ArrayEqualsScalars: record "shape" = one call of fn on coordinate arrays of shape    *)
(* `shape` (for gcirc the broadcast shape of its four arguments; bcast = they differed in    *)
(* shape; for angles_to_x / x_to_angles the (n, 2) / (n, 3) array their interface admits).   *)
(* The functions act on every sky position separately, so the array result is the array of   *)
(* the results of the same positions handed over one at a time, in the same shape:            *)
(* raised = the call raised; shapeok = the result has the shape of the argument(s);           *)
(* disc = largest element discrepancy from the per-element scalar calls (nano-degrees;        *)
(* ppb for gcirc).  The shape class is decided here.                                           *)
ShapeClass(sh) ==
  IF Len(sh) = 1 THEN "1d"
  ELSE IF \E j \in 1..Len(sh) : sh[j] = 1 THEN "unit-dim"
  ELSE IF Len(sh) >= 3 THEN "3d"
  ELSE IF sh[1] = 3 THEN "lead3"
  ELSE "2d"
ShapeClassesOf(fn) == IF fn \in {"angles_to_x", "x_to_angles"} THEN {"unit-dim", "lead3", "2d"}
                      ELSE {"1d", "unit-dim", "lead3", "2d", "3d"}
ShapeTol(r) == IF r.fn = "gcirc" THEN 1 ELSE PosTolNdeg(r.polar)
ArrayEqualsScalars(r) == r.fn \in CallerFns /\ ~r.raised /\ r.shapeok /\ ~r.nan /\ r.disc <= ShapeTol(r)
(* stripe record: values returned by stripe_to_eta / stripe_to_incl / frame.incl *)
StripeHolds(r) == /\ r.exact /\ r.stripe \in Stripes
                  /\ r.eta10 = Eta10(r.stripe) /\ r.incl10 = Incl10(r.stripe) /\ r.frameincl10 = Incl10(r.stripe)
                  /\ r.node10 = Node10
(* angles <-> vectors: disc = angular distance start -> there and back (ndeg);             *)
(* vdisc = distance of the produced vector from the oracle's vector (ndeg equivalent);      *)
(* norm = | |x| - 1 | in units of 1e-12                                                     *)
VecHolds(r) == ~r.nan /\ r.disc <= PosTolNdeg(r.polar) /\ r.vdisc <= PosTolNdeg(r.polar) /\ r.norm <= 10
=============================================================================
