------------------------------ MODULE ReadSpec ------------------------------
(***************************************************************************)
(* C16 - readspec returns each requested spectrum in request order,        *)
(* unshifted; spec_append never overlaps, drops or moves data.             *)
(*                                                                         *)
(* A survey tree is a sequence of plate-MJD files (constant Tree).  The    *)
(* contents of the synthetic files are DEFINED here (FileContents): every  *)
(* cell of every image / table column encodes its own identity             *)
(*      Code(file, fibre, hdu, x) = file*10^6 + fibre*10^3 + hdu*10^2 + x  *)
(* (exact in float32 for file <= 15, fibre <= 999, hdu <= 9, x <= 99), so  *)
(* 0 can only be padding.  Wavelength coefficients are integers in units   *)
(* of 2^-10 (exact in binary floating point).                              *)
(*                                                                         *)
(* What readspec must return for a request vector is stated directly       *)
(* (Specified) and as laws (RowIdentity, NoShift, ZeroPadRight,            *)
(* LoglamAffine, TablesFollow).  The procedure the function is documented  *)
(* to follow - group the requests by plate-MJD, read each file once,       *)
(* append the blocks, undo the grouping with the inverse permutation - is  *)
(* written as separate operators (SortedKeys, ReadBlock, AppendBlock,      *)
(* Reorder, Present) that the actions of MC_ReadSpec execute one at a      *)
(* time; Run is their composition.  SpecAppend is the transcribed          *)
(* spec_append with its own laws.                                          *)
(***************************************************************************)
EXTENDS Integers, Sequences, FiniteSets, TLC

CONSTANT Tree      \* Tree[f] = [plate, mjd, nfib, npix, c0, c1, photo, wide, word]

Files == DOMAIN Tree
Plates == {Tree[f].plate : f \in Files}
MaxOf(S) == CHOOSE x \in S : \A y \in S : y <= x
Max2(a, b) == IF a < b THEN b ELSE a
FileOf(p, m) == CHOOSE f \in Files : Tree[f].plate = p /\ Tree[f].mjd = m
Latest(p) == MaxOf({Tree[f].mjd : f \in {g \in Files : Tree[g].plate = p}})
HasPhoto == Tree[1].photo

TreeWellFormed ==
  /\ Len(Tree) \in 1..9
  /\ \A f, g \in Files : (f # g) => (Tree[f].plate # Tree[g].plate \/ Tree[f].mjd # Tree[g].mjd)
  /\ \A f, g \in Files : (Tree[f].plate = Tree[g].plate) => Tree[f].nfib = Tree[g].nfib
  /\ \A f \in Files : /\ Tree[f].npix \in 1..99 /\ Tree[f].nfib \in 1..999
                      /\ Tree[f].plate \in 1..9999 /\ Tree[f].mjd \in 10000..65535
                      /\ Tree[f].c0 > 0 /\ Tree[f].c1 > 0 /\ Tree[f].photo = HasPhoto /\ Tree[f].wide \in BOOLEAN

(* two standard instances: the model-checking tree (3 plates, one with two MJDs, pixel   *)
(* counts 5,7,7,4, two wavelength solutions: 266 and the first night of 3586 share one,  *)
(* the second night of 3586 and 7000 the other) and the larger tree on which recorded    *)
(* calls are judged.                                                                      *)
(* wide / word make the table columns of the files differ in the storage they NEED: the  *)
(* string columns of file f hold word \o digits (so their width differs from file to     *)
(* file, as with files written with "the longest value on this plate"), and the numeric  *)
(* columns PRIMTARGET / NPOLY / NCHILD / Z hold values that fit int16 / float32 on a     *)
(* narrow file and need int32 / float64 on a wide one.  StdTree4 in (plate, MJD) order:  *)
(* file 4 narrow, file 3 narrow, file 2 wide, file 1 wide with the longest word.         *)
F(plate, mjd, nfib, npix, c0, c1, photo, wide, word) ==
  [plate |-> plate, mjd |-> mjd, nfib |-> nfib, npix |-> npix, c0 |-> c0, c1 |-> c1, photo |-> photo,
   wide |-> wide, word |-> word]
StdTree4 == << F(7000, 55181, 5, 4, 3840, 2, FALSE, TRUE, "SPECTROPHOTO_STD_"), F(3586, 56500, 4, 7, 3840, 2, FALSE, TRUE, "GALAXY_"),
               F(3586, 55181, 4, 7, 3712, 1, FALSE, FALSE, "QSO"), F(266, 51602, 640, 5, 3712, 1, FALSE, FALSE, "") >>
StdTree6 == << F(4000, 55181, 9, 8, 3600, 1, TRUE, TRUE, "GALAXY_"),  F(266, 55300, 6, 7, 3712, 1, TRUE, TRUE, "SKY"),
               F(9999, 57001, 7, 1, 3700, 5, TRUE, FALSE, "REDDEN_STD_"),  F(3586, 55181, 8, 7, 3968, 3, TRUE, FALSE, "Q"),
               F(266, 51602, 6, 5, 3712, 1, TRUE, FALSE, ""),   F(1234, 52000, 12, 6, 4096, 4, TRUE, TRUE, "SPECTROPHOTO_STD_"),
               F(7000, 54000, 5, 4, 4096, 1, TRUE, FALSE, "STAR_"),  F(3586, 55200, 8, 3, 3968, 3, TRUE, TRUE, "STARFORMING_BROADLINE_"),
               F(9999, 51602, 7, 8, 3600, 1, TRUE, TRUE, "AGN") >>
(* The order relation between plate numbers and MJDs is a dimension of the tree: both      *)
(* standard trees contain a pair of plates whose MJDs DEcrease while the plate numbers     *)
(* increase, two different plates observed on the same MJD, and a plate whose MJDs         *)
(* straddle (StdTree6: interleave with) another plate's, so that grouping / re-ordering by *)
(* plate-then-MJD, by MJD-then-plate, by plate alone or by MJD alone all differ.           *)
OrderRelationsCovered ==
  /\ \E f, g \in Files : Tree[f].plate < Tree[g].plate /\ Tree[f].mjd > Tree[g].mjd
  /\ \E f, g \in Files : Tree[f].plate # Tree[g].plate /\ Tree[f].mjd = Tree[g].mjd
  /\ \E f, g, h \in Files : /\ Tree[f].plate = Tree[g].plate /\ Tree[h].plate # Tree[f].plate
                             /\ Tree[f].mjd <= Tree[h].mjd /\ Tree[h].mjd < Tree[g].mjd
  /\ \E f, g \in Files : Tree[f].plate = Tree[g].plate /\ Tree[f].mjd # Tree[g].mjd

(* The relation between the wavelength solutions (COEFF0, COEFF1) and the pixel counts of  *)
(* two files is a dimension of the tree as well: a survey re-observes a plate with the same *)
(* solution and another pixel count, and different plates share a pixel count but not the   *)
(* solution.  Whatever was read before, every row's wavelengths are those of ITS file over  *)
(* ITS pixel count (LoglamAffine), so both standard trees contain, in the (plate, MJD)      *)
(* order in which files are visited, a file followed by a LONGER one with the same solution,*)
(* a file followed by a SHORTER one with the same solution, two files of equal pixel count  *)
(* with different solutions, and files differing in both.  The larger tree also has equal   *)
(* solution with equal pixel count, equal COEFF0 with different COEFF1 and vice versa.      *)
SameSol(f, g) == Tree[f].c0 = Tree[g].c0 /\ Tree[f].c1 = Tree[g].c1
Before(f, g) == Tree[f].plate < Tree[g].plate \/ (Tree[f].plate = Tree[g].plate /\ Tree[f].mjd < Tree[g].mjd)
SolutionRelationsCovered ==
  /\ \E f, g \in Files : Before(f, g) /\ SameSol(f, g) /\ Tree[f].npix < Tree[g].npix
  /\ \E f, g \in Files : Before(f, g) /\ SameSol(f, g) /\ Tree[f].npix > Tree[g].npix
  /\ \E f, g \in Files : f # g /\ ~SameSol(f, g) /\ Tree[f].npix = Tree[g].npix
  /\ \E f, g \in Files : ~SameSol(f, g) /\ Tree[f].npix # Tree[g].npix
SolutionRelationsRich ==
  /\ SolutionRelationsCovered
  /\ \E f, g \in Files : f # g /\ SameSol(f, g) /\ Tree[f].npix = Tree[g].npix
  /\ \E f, g \in Files : Tree[f].c0 = Tree[g].c0 /\ Tree[f].c1 # Tree[g].c1
  /\ \E f, g \in Files : Tree[f].c0 # Tree[g].c0 /\ Tree[f].c1 = Tree[g].c1

(* ------------------------- synthetic file contents ------------------------- *)
Code(f, fib, h, x) == f * 1000000 + fib * 1000 + h * 100 + x
HduNo == [flux |-> 0, invvar |-> 1, andmask |-> 2, ormask |-> 3, disp |-> 4, sky |-> 6]
Images == DOMAIN HduNo
HduLayout == <<"flux", "invvar", "andmask", "ormask", "disp", "plugmap", "sky">>   \* HDU k of an spPlate file is HduLayout[k+1]
PlugNo == 5
LayoutWellFormed == HduLayout[PlugNo + 1] = "plugmap" /\ \A h \in Images : HduLayout[HduNo[h] + 1] = h
ZansNo == 8
TsobjNo == 9

Cell(f, fib, p) == Code(f, fib, 0, p)                    \* HDU-independent identity of a pixel
(* the value stored at HDU h for a pixel: on a wide file the four real-valued images hold   *)
(* odd numbers above 2^24 (they need float64, the file stores them so; a narrow file's fit  *)
(* float32), the two masks are integers everywhere (int32 / unsigned 32-bit on wide files). *)
RealHdus == {0, 1, 4, 6}
AtHdu(cell, h) == IF cell = 0 THEN 0
                  ELSE IF Tree[cell \div 1000000].wide /\ h \in RealHdus THEN 16777217 + 2 * (cell + 100 * h)
                  ELSE cell + 100 * h
ImgVal(f, fib, h, p) == AtHdu(Cell(f, fib, p), h)
Loglam(f, p) == Tree[f].c0 + Tree[f].c1 * p              \* units of 2^-10

StrW(g, f, fib, h, x) == Tree[g].word \o ToString(Code(f, fib, h, x))   \* string cell: word of file g, identity of the cell
Str(f, fib, h, x) == StrW(f, f, fib, h, x)                                \* file-dependent width
Small(f, fib, h, x) == IF Tree[f].wide THEN Code(f, fib, h, x) ELSE fib * 10 + h   \* needs int32 only on a wide file
Real(f, fib, h, x) == IF Tree[f].wide THEN 16777217 + 2 * Code(f, fib, h, x)       \* odd and > 2^24: needs float64
                      ELSE Code(f, fib, h, x)
PlugRow(f, fib) == [FIBERID |-> fib, PLATE |-> Tree[f].plate, MJD |-> Tree[f].mjd,
                    CODE |-> Code(f, fib, PlugNo, 0), MAG |-> [e \in 1..5 |-> Code(f, fib, PlugNo, e)],
                    OBJTYPE |-> Str(f, fib, PlugNo, 6), PRIMTARGET |-> Small(f, fib, PlugNo, 7)]
ZansRow(f, fib) == [PLATE |-> Tree[f].plate, MJD |-> Tree[f].mjd, FIBERID |-> fib,
                    Z |-> Real(f, fib, ZansNo, 0), THETA |-> [e \in 1..3 |-> Code(f, fib, ZansNo, e)],
                    CLASS |-> Str(f, fib, ZansNo, 4), SUBCLASS |-> StrW(((f + fib) % Len(Tree)) + 1, f, fib, ZansNo, 5),
                    NPOLY |-> Small(f, fib, ZansNo, 6)]
TsobjRow(f, fib) == [OBJID |-> Code(f, fib, TsobjNo, 0), FLUX |-> [e \in 1..2 |-> Real(f, fib, TsobjNo, e)],
                     TYPENAME |-> Str(f, fib, TsobjNo, 3), NCHILD |-> Small(f, fib, TsobjNo, 4)]

(* a table as readspec returns it: one sequence per column; rows = sequence of <<file, fibre>> *)
Columns(RowOp(_, _), rows) ==
  LET recs == [i \in DOMAIN rows |-> RowOp(rows[i][1], rows[i][2])] IN
  [c \in DOMAIN RowOp(1, 1) |-> [i \in DOMAIN rows |-> recs[i][c]]]

AllRows(f) == [k \in 1..Tree[f].nfib |-> <<f, k>>]
FileContents(f) ==
  [meta |-> Tree[f], file |-> f, layout |-> HduLayout,
   images |-> [h \in Images |-> [k \in 1..Tree[f].nfib |-> [q \in 1..Tree[f].npix |-> ImgVal(f, k, HduNo[h], q - 1)]]],
   plugmap |-> Columns(PlugRow, AllRows(f)),
   zans |-> Columns(ZansRow, AllRows(f)),
   tsobj |-> IF HasPhoto THEN Columns(TsobjRow, AllRows(f)) ELSE <<>>]

(* ------------------------------- the call ---------------------------------- *)
(* call = [p, m, f, loc]: p, m, f are the plate / MJD / fibre arguments as sequences;     *)
(* a scalar argument is a sequence of length one, an omitted one the empty sequence.      *)
(* loc says how the caller tells readspec where the tree is (environment, topdir=,        *)
(* run2d=, run1d=, path=, or the bare documented environment): the specified result does  *)
(* not depend on it.                                                                       *)
Locs == {"env", "topdir", "run2d", "run1d", "path", "bare"}
(* The call record holds VALUES only.  How an array argument is laid out in memory (mem:   *)
(* plain, read-only, a strided / Fortran-ordered view, byte-swapped, a 0-d array for a     *)
(* scalar) is not an input of Requests / Specified / SpecAppend: the outcome depends on    *)
(* the values only (law MemIndependent; the harness rotates the layouts over the cases).   *)
Mems == {"plain", "readonly", "strided", "swapped", "zerod"}
(* Likewise the numeric TYPE in which integral values are handed over (Python int, numpy   *)
(* scalar, 0-d or n-d array of any signed / unsigned width that holds them) is not an input *)
(* of the specification: same values, same outcome.  For spec_append this includes blocks  *)
(* of different types: the result holds the VALUES of both blocks (SpecAppend is over      *)
(* values), so it must be of a type that can hold them.                                     *)
Nums == {"int", "int8", "uint8", "int16", "uint16", "int32", "uint32", "int64", "uint64", "float32", "float64"}
Pick(s, i) == IF Len(s) = 1 THEN s[1] ELSE s[i]
RECURSIVE Concat(_)
Concat(ss) == IF ss = <<>> THEN <<>> ELSE Head(ss) \o Concat(Tail(ss))

ValidCall(c) ==
  /\ Len(c.p) >= 1
  /\ \A i \in DOMAIN c.p : c.p[i] \in Plates
  /\ (Len(c.p) > 1 /\ Len(c.f) > 1) => Len(c.p) = Len(c.f)
  /\ (Len(c.m) > 0) => Len(c.m) = Len(c.p)
  /\ (Len(c.f) = 0) => \A i, j \in DOMAIN c.p : (i < j) => c.p[i] < c.p[j]   \* all fibres: distinct ascending plates
  /\ (Len(c.f) = 0 /\ Len(c.m) > 0) => Len(c.p) = 1

MjdAt(c, i) == IF Len(c.m) = 0 THEN Latest(Pick(c.p, i)) ELSE Pick(c.m, i)
Requests(c) ==
  IF Len(c.f) = 0
  THEN Concat([k \in DOMAIN c.p |->
          [fib \in 1..Tree[FileOf(c.p[k], MjdAt(c, k))].nfib |-> [plate |-> c.p[k], mjd |-> MjdAt(c, k), fib |-> fib]]])
  ELSE [i \in 1..Max2(Len(c.p), Len(c.f)) |-> [plate |-> Pick(c.p, i), mjd |-> MjdAt(c, i), fib |-> Pick(c.f, i)]]

MemIndependent(c) == \A mm \in Mems : \A nn \in Nums : Requests([c EXCEPT !.mem = mm, !.num = nn]) = Requests(c)
FileAt(req, i) == FileOf(req[i].plate, req[i].mjd)
RowsOf(req) == [i \in DOMAIN req |-> <<FileAt(req, i), req[i].fib>>]
RequestOK(req) == \A i \in DOMAIN req :
   /\ \E f \in Files : Tree[f].plate = req[i].plate /\ Tree[f].mjd = req[i].mjd
   /\ req[i].fib \in 1..Tree[FileAt(req, i)].nfib

(* --------------------- what readspec must return (direct) ------------------- *)
NpixOf(rows) == [i \in DOMAIN rows |-> Tree[rows[i][1]].npix]
WidthOf(rows) == MaxOf({Tree[rows[i][1]].npix : i \in DOMAIN rows})
Width(req) == WidthOf(RowsOf(req))
GenericImageOf(rows) ==
  LET w == WidthOf(rows) IN
  [i \in DOMAIN rows |-> [q \in 1..w |-> IF q <= Tree[rows[i][1]].npix THEN Cell(rows[i][1], rows[i][2], q - 1) ELSE 0]]
LoglamImageOf(rows, ext) ==
  LET w == WidthOf(rows) IN
  [i \in DOMAIN rows |-> [q \in 1..w |-> IF q <= Tree[rows[i][1]].npix \/ ext THEN Loglam(rows[i][1], q - 1) ELSE 0]]
GenericImage(req) == GenericImageOf(RowsOf(req))
LoglamImage(req, ext) == LoglamImageOf(RowsOf(req), ext)
ImageAt(img, h) == [i \in DOMAIN img |-> [q \in DOMAIN img[i] |-> AtHdu(img[i][q], h)]]

(* the dictionary: six images, loglam, three tables.  Beyond a shorter plate's last pixel *)
(* the statement does not fix loglam: zero padding (loglam) and the affine continuation   *)
(* (loglam_ext) are both accepted.                                                         *)
Present(img, ll, llext, rows) ==
  [flux |-> ImageAt(img, HduNo.flux), invvar |-> ImageAt(img, HduNo.invvar),
   andmask |-> ImageAt(img, HduNo.andmask), ormask |-> ImageAt(img, HduNo.ormask),
   disp |-> ImageAt(img, HduNo.disp), sky |-> ImageAt(img, HduNo.sky),
   loglam |-> ll, loglam_ext |-> llext,
   plugmap |-> Columns(PlugRow, rows), zans |-> Columns(ZansRow, rows),
   tsobj |-> IF HasPhoto THEN Columns(TsobjRow, rows) ELSE <<>>]
Specified(req) ==
  LET rows == RowsOf(req) IN
  Present(GenericImageOf(rows), LoglamImageOf(rows, FALSE), LoglamImageOf(rows, TRUE), rows)

(* laws on a returned dictionary d for the request vector req *)
Rect(m, n, w) == Len(m) = n /\ \A i \in DOMAIN m : Len(m[i]) = w
RowIdentity(req, d) ==
  LET rows == RowsOf(req) IN
  /\ \A h \in Images : Len(d[h]) = Len(req)
  /\ \A h \in Images : \A i \in DOMAIN req :
        LET base == ImgVal(rows[i][1], req[i].fib, HduNo[h], 0)
            step == ImgVal(rows[i][1], req[i].fib, HduNo[h], 1) - base
        IN \A q \in 1..Tree[rows[i][1]].npix :                                      \* some pixel of that row
              (d[h][i][q] - base) % step = 0 /\ ((d[h][i][q] - base) \div step) \in 0..98
NoShift(req, d) ==
  LET rows == RowsOf(req) IN
  \A h \in Images : \A i \in DOMAIN req : \A q \in 1..Tree[rows[i][1]].npix :
        d[h][i][q] = ImgVal(rows[i][1], req[i].fib, HduNo[h], q - 1)
ZeroPadRight(req, d) ==
  LET rows == RowsOf(req)
      w == WidthOf(rows) IN
  \A h \in Images : /\ Rect(d[h], Len(req), w)
                    /\ \A i \in DOMAIN req : \A q \in (Tree[rows[i][1]].npix + 1)..w : d[h][i][q] = 0
LoglamAffine(req, d) ==
  LET rows == RowsOf(req) IN
  /\ Rect(d.loglam, Len(req), WidthOf(rows))
  /\ \A i \in DOMAIN req : \A q \in 1..Tree[rows[i][1]].npix : d.loglam[i][q] = Loglam(rows[i][1], q - 1)
TablesFollow(req, d) ==
  LET rows == RowsOf(req) IN
  /\ \A i \in DOMAIN req : /\ d.plugmap.FIBERID[i] = req[i].fib /\ d.plugmap.PLATE[i] = req[i].plate
                           /\ d.plugmap.MJD[i] = req[i].mjd
                           /\ d.zans.FIBERID[i] = req[i].fib /\ d.zans.PLATE[i] = req[i].plate
                           /\ d.zans.MJD[i] = req[i].mjd
  /\ d.plugmap = Columns(PlugRow, rows)
  /\ d.zans = Columns(ZansRow, rows)
  /\ HasPhoto => d.tsobj = Columns(TsobjRow, rows)

(* --------------------------- spec_append (M2) ------------------------------- *)
(* blocks are non-empty matrices (sequences of equal-length rows)                         *)
Off1(shift) == IF shift < 0 THEN -shift ELSE 0
Off2(shift) == IF shift > 0 THEN shift ELSE 0
SpecAppend(s1, s2, shift) ==
  LET r1 == Len(s1)  p1 == Len(s1[1])  r2 == Len(s2)  p2 == Len(s2[1])
      a1 == Off1(shift)  a2 == Off2(shift)
      w == Max2(p1 + a1, p2 + a2)
  IN [i \in 1..(r1 + r2) |-> [q \in 1..w |->
        IF i <= r1 THEN (IF (q - a1) \in 1..p1 THEN s1[i][q - a1] ELSE 0)
                   ELSE (IF (q - a2) \in 1..p2 THEN s2[i - r1][q - a2] ELSE 0)]]

(* laws of an append result r, stated on positions *)
Img1(s1, shift) == {<<i, q + Off1(shift)>> : i \in 1..Len(s1), q \in 1..Len(s1[1])}
Img2(s1, s2, shift) == {<<i + Len(s1), q + Off2(shift)>> : i \in 1..Len(s2), q \in 1..Len(s2[1])}
AppendShape(s1, s2, shift, r) ==
  Rect(r, Len(s1) + Len(s2), Max2(Len(s1[1]) + Off1(shift), Len(s2[1]) + Off2(shift)))
AppendNoOverlap(s1, s2, shift, r) ==
  /\ Img1(s1, shift) \cap Img2(s1, s2, shift) = {}
  /\ \A x \in Img1(s1, shift) \cup Img2(s1, s2, shift) : x[1] \in DOMAIN r /\ x[2] \in DOMAIN r[x[1]]
AppendNothingLost(s1, s2, shift, r) ==
  /\ \A i \in 1..Len(s1) : \A q \in 1..Len(s1[1]) : r[i][q + Off1(shift)] = s1[i][q]
  /\ \A i \in 1..Len(s2) : \A q \in 1..Len(s2[1]) : r[i + Len(s1)][q + Off2(shift)] = s2[i][q]
AppendPadsZero(s1, s2, shift, r) ==
  \A i \in DOMAIN r : \A q \in DOMAIN r[i] :
     (<<i, q>> \notin (Img1(s1, shift) \cup Img2(s1, s2, shift))) => r[i][q] = 0

(* ----------------- the procedure, one operator per step --------------------- *)
KeyOf(r) == <<r.plate, r.mjd>>
KeyLess(a, b) == a[1] < b[1] \/ (a[1] = b[1] /\ a[2] < b[2])
RECURSIVE SortKeys(_)
SortKeys(S) == IF S = {} THEN <<>>
               ELSE LET k == CHOOSE x \in S : \A y \in S : y = x \/ KeyLess(x, y) IN <<k>> \o SortKeys(S \ {k})
SortedKeys(req) == SortKeys({KeyOf(req[i]) : i \in DOMAIN req})                     \* Group
Positions(req, key) == SelectSeq([i \in DOMAIN req |-> i], LAMBDA i : KeyOf(req[i]) = key)

(* ReadFile: the rows fibre-1 of every HDU of one file, in request-position order *)
ReadBlock(req, key) ==
  LET f == FileOf(key[1], key[2])
      pos == Positions(req, key)
      n == Tree[f].npix
  IN [pos |-> pos,
      img |-> [k \in DOMAIN pos |-> [q \in 1..n |-> Cell(f, req[pos[k]].fib, q - 1)]],
      ll |-> [k \in DOMAIN pos |-> [q \in 1..n |-> Loglam(f, q - 1)]],
      rows |-> [k \in DOMAIN pos |-> <<f, req[pos[k]].fib>>]]
Empty == [pos |-> <<>>, img |-> <<>>, ll |-> <<>>, rows |-> <<>>]
AppendBlock(acc, blk) ==
  IF acc.pos = <<>> THEN blk
  ELSE [pos |-> acc.pos \o blk.pos, img |-> SpecAppend(acc.img, blk.img, 0),
        ll |-> SpecAppend(acc.ll, blk.ll, 0), rows |-> acc.rows \o blk.rows]
(* Reorder: row i of the result is the accumulated row that was read for request i *)
InversePerm(idx) == [i \in DOMAIN idx |-> CHOOSE k \in DOMAIN idx : idx[k] = i]
Reorder(acc) ==
  LET j == InversePerm(acc.pos) IN
  [pos |-> [i \in DOMAIN j |-> acc.pos[j[i]]], img |-> [i \in DOMAIN j |-> acc.img[j[i]]],
   ll |-> [i \in DOMAIN j |-> acc.ll[j[i]]], rows |-> [i \in DOMAIN j |-> acc.rows[j[i]]]]
Return(acc, req) == Present(acc.img, acc.ll, LoglamImage(req, TRUE), acc.rows)

RECURSIVE ReadAll(_, _, _)
ReadAll(req, keys, acc) == IF keys = <<>> THEN acc
                           ELSE ReadAll(req, Tail(keys), AppendBlock(acc, ReadBlock(req, Head(keys))))
Run(req) == Return(Reorder(ReadAll(req, SortedKeys(req), Empty)), req)

(* ------- named deviations (where the unfixed code departs; disabled by default) ------- *)
(* D-C16-1: topdir= is not passed on when the files are opened, so they are read from the *)
(*          tree $BOSS_SPECTRO_REDUX points at.                                           *)
Dev_TopdirIgnored(c) == c.loc = "topdir"
(* D-C16-2: with the MJD omitted every keyword (run1d=...) is handed to spec_path, which  *)
(*          rejects it: TypeError.                                                         *)
Dev_KeywordLeak(c) == c.loc = "run1d" /\ Len(c.m) = 0
(* D-C16-3: fibre omitted on a plate observed on or after MJD 55025: number_of_fibers     *)
(*          stores a length-one array into an array element: ValueError.                  *)
Dev_BossAllFibres(c) == Len(c.f) = 0 /\ \E k \in DOMAIN c.p : Latest(c.p[k]) >= 55025
(* D-C16-4: without a photoPlate file next to the spPlate file the undocumented variables *)
(*          SPECTRO_MATCH / PHOTO_RESOLVE are read unconditionally: KeyError.             *)
Dev_PhotoEnvRequired(c) == c.loc = "bare" /\ ~HasPhoto
(* D-C16-5: spec_append allocates the result with the type of the FIRST block, so values of *)
(*          the second block that type cannot hold are wrapped / rounded (t1, t2 = numeric   *)
(*          types of the blocks; holds2 = the first type can hold the second block's values) *)
Dev_AppendKeepsFirstType(t1, t2, holds2) == t1 # t2 /\ ~holds2

IsPermutation(idx, n) == Len(idx) = n /\ {idx[k] : k \in DOMAIN idx} = 1..n
Injective(idx) == Cardinality({idx[k] : k \in DOMAIN idx}) = Len(idx)
=============================================================================
