---------------------------- MODULE BSplineBasis ----------------------------
(***************************************************************************)
(* C08 - B-spline knots and evaluation.                                    *)
(*                                                                         *)
(* Part 1: the knot vector of a bspline object for every documented way    *)
(* of specifying breakpoints (explicit, placed, spacing, count, every-n):  *)
(* the breakpoints cover the data range, order-1 extra knots are added on  *)
(* each side at the first breakpoint spacing (times bkspread).             *)
(* Part 2: the B-spline of a knot vector, order and coefficient vector by  *)
(* the Cox-de Boor recursion over exact rationals; the cell(s) a point may *)
(* be attributed to; the validity mask.                                    *)
(* Part 3: the evaluation PROCEDURE (sort, find cells, evaluate each cell  *)
(* block, scatter back to the caller's order) and the law that it returns  *)
(* the definition of part 2.                                               *)
(*                                                                         *)
(* Everything is exact: a number is a rational <<num, den>> (module Rat).  *)
(* Sequences are 1-based: knots t[1..m], order k = nord, n = m - nord      *)
(* coefficients, breakpoint range [t[nord], t[n+1]].  Nothing is taken     *)
(* from pydl's code: the basis is the textbook recursion, the knot         *)
(* construction is the docstring/IDL bspline_bkpts description.            *)
(***************************************************************************)
EXTENDS Rat, FiniteSets

(* ---------------- overflow-averse rational arithmetic (TLC: 32 bit) ----- *)
QAdd(a, b) == LET g == GCD(a[2], b[2])
              IN Norm(a[1] * (b[2] \div g) + b[1] * (a[2] \div g), (a[2] \div g) * b[2])
QMul(a, b) == IF a[1] = 0 \/ b[1] = 0 THEN Zero
              ELSE LET g1 == GCD(Abs(a[1]), b[2])
                       g2 == GCD(Abs(b[1]), a[2])
                   IN Norm((a[1] \div g1) * (b[1] \div g2), (a[2] \div g2) * (b[2] \div g1))
QSub(a, b) == QAdd(a, Neg(b))
QDiv(a, b) == QMul(a, Inv(b))
QLt(a, b) == QSub(a, b)[1] < 0
QLe(a, b) == QSub(a, b)[1] <= 0
QMin(a, b) == IF QLt(b, a) THEN b ELSE a
QMax(a, b) == IF QLt(a, b) THEN b ELSE a
IMax(a, b) == IF a < b THEN b ELSE a
IMin(a, b) == IF a < b THEN a ELSE b
(* TLC keeps [i \in 1..n |-> e] unevaluated and recomputes e at every application; concatenating *)
(* with the empty sequence makes it an explicit tuple (same value, evaluated once)               *)
Tup(f) == f \o <<>>

RECURSIVE QSum(_)
QSum(s) == IF s = <<>> THEN Zero ELSE QAdd(s[1], QSum(Tail(s)))
RECURSIVE QMinSeq(_)
QMinSeq(s) == IF Len(s) = 1 THEN s[1] ELSE QMin(s[1], QMinSeq(Tail(s)))
RECURSIVE QMaxSeq(_)
QMaxSeq(s) == IF Len(s) = 1 THEN s[1] ELSE QMax(s[1], QMaxSeq(Tail(s)))

NonDecreasing(s) == \A i \in 1..(Len(s) - 1) : QLe(s[i], s[i + 1])
Increasing(s) == \A i \in 1..(Len(s) - 1) : QLt(s[i], s[i + 1])

(* s sorted ascending (insertion sort; equal elements are indistinguishable) *)
RECURSIVE Insert(_, _)
Insert(s, x) == IF s = <<>> THEN <<x>>
                ELSE IF QLe(x, s[1]) THEN <<x>> \o s ELSE <<s[1]>> \o Insert(Tail(s), x)
RECURSIVE Sorted(_)
Sorted(s) == IF s = <<>> THEN <<>> ELSE Insert(Sorted(Tail(s)), s[1])

(***************************************************************************)
(* Part 1 - breakpoints and knots                                          *)
(***************************************************************************)
(* n equally spaced breakpoints from a to b, n >= 2 *)
EqualSpaced(a, b, n) == Tup([i \in 1..n |-> QAdd(a, QMul(R(i - 1, n - 1), QSub(b, a)))])

(* bkpt=: the caller's breakpoints *)
FromExplicit(bk) == bk

(* placed=: the precalculated positions that fall inside the data range; the two *)
(* end points of the data when fewer than two do                                 *)
RECURSIVE Inside(_, _, _)
Inside(p, lo, hi) == IF p = <<>> THEN <<>>
                     ELSE (IF QLe(lo, p[1]) /\ QLe(p[1], hi) THEN <<p[1]>> ELSE <<>>) \o Inside(Tail(p), lo, hi)
FromPlaced(placed, xmin, xmax) ==
  LET w == Inside(placed, xmin, xmax) IN IF Len(w) < 2 THEN <<xmin, xmax>> ELSE w

(* nbkpts=: that many breakpoints spanning the data range, minimum 2 (the end points) *)
FromCount(xmin, xmax, nbkpts) == EqualSpaced(xmin, xmax, IMax(nbkpts, 2))

(* bkspace=: floor(range/bkspace)+1 breakpoints (minimum 2) equally spaced over the range *)
SpacingCount(xmin, xmax, bkspace) == IMax(Floor(QDiv(QSub(xmax, xmin), bkspace)) + 1, 2)
FromSpacing(xmin, xmax, bkspace) == EqualSpaced(xmin, xmax, SpacingCount(xmin, xmax, bkspace))

(* everyn=: one breakpoint every floor(nx/(nb-1)) samples of the SORTED data, nb = nx div everyn *)
(* (at least the two end points); a sample index beyond the data means the last sample (IDL     *)
(* subscript clamping).  xs is the sorted data, indices are 0-based sample numbers.             *)
EveryNCount(nx, everyn) == IMax(nx \div everyn, 2)
EveryNIndex(nx, nb, i) == IMin((nx \div (nb - 1)) * (i - 1), nx - 1)
FromEveryN(xs, everyn) ==
  LET nx == Len(xs)
      nb == EveryNCount(nx, everyn)
  IN Tup([i \in 1..nb |-> xs[EveryNIndex(nx, nb, i) + 1]])

(* the lowest breakpoint is moved down to the lowest datum and the highest up to the highest    *)
(* datum when they do not cover the data (bk non-decreasing)                                    *)
CoverFix(bk, xmin, xmax) ==
  Tup([i \in 1..Len(bk) |-> IF i = 1 /\ i = Len(bk) THEN bk[i]     \* a single breakpoint cannot cover a range
                             ELSE IF i = 1 THEN QMin(bk[1], xmin)
                             ELSE IF i = Len(bk) THEN QMax(bk[i], xmax) ELSE bk[i]])

(* nord-1 extra knots on each side, spaced by the first breakpoint spacing times bkspread *)
PadStep(bk, spread) == QMul(QSub(bk[2], bk[1]), spread)
Pad(bk, nord, spread) ==
  LET nb == Len(bk)
      sp == PadStep(bk, spread)
  IN Tup([i \in 1..(nb + 2 * (nord - 1)) |->
            IF i < nord THEN QSub(bk[1], QMul(OfInt(nord - i), sp))
            ELSE IF i > nord - 1 + nb THEN QAdd(bk[nb], QMul(OfInt(i - (nord - 1 + nb)), sp))
            ELSE bk[i - (nord - 1)]])

(* a construction call: data (caller's order), nord, spread, opt and its argument              *)
(*   opt = "bkpt" (arg: sequence), "placed" (arg: sequence), "bkspace" (arg: rational),         *)
(*         "nbkpts" (arg: integer), "everyn" (arg: integer)                                     *)
RawBreakpoints(data, opt, arg) ==
  LET lo == QMinSeq(data)
      hi == QMaxSeq(data)
  IN CASE opt = "bkpt" -> FromExplicit(arg)
       [] opt = "placed" -> FromPlaced(arg, lo, hi)
       [] opt = "bkspace" -> FromSpacing(lo, hi, arg)
       [] opt = "nbkpts" -> FromCount(lo, hi, arg)
       [] opt = "everyn" -> FromEveryN(Sorted(data), arg)
Breakpoints(data, opt, arg) == CoverFix(RawBreakpoints(data, opt, arg), QMinSeq(data), QMaxSeq(data))
Knots(data, nord, spread, opt, arg) == Pad(Breakpoints(data, opt, arg), nord, spread)

(* ---- the laws of the statement, for any knot vector t, order and data range ---- *)
Lo(t, nord) == t[nord]
Hi(t, nord) == t[Len(t) - nord + 1]
KnotsNonDecreasing(t) == NonDecreasing(t)
(* order-1 extra knots on each side of a breakpoint range of at least two breakpoints *)
ExtraKnots(t, nord) == /\ Len(t) >= 2 * nord
                       /\ \A i \in 1..(nord - 1) : QLe(t[i], Lo(t, nord)) /\ QLe(Hi(t, nord), t[Len(t) + 1 - i])
CoversData(t, nord, xmin, xmax) == Len(t) >= 2 * nord /\ QLe(Lo(t, nord), xmin) /\ QLe(xmax, Hi(t, nord))
(* the padding is laid out at the first spacing: exact form of "extra knots" for the construction *)
PaddingLaw(bk, nord, spread) ==
  LET t == Pad(bk, nord, spread) IN
  /\ Len(t) = Len(bk) + 2 * (nord - 1)
  /\ \A i \in 1..Len(bk) : t[nord - 1 + i] = bk[i]
  /\ \A i \in 1..(nord - 1) : /\ QSub(t[i + 1], t[i]) = PadStep(bk, spread)
                              /\ QSub(t[Len(t) + 1 - i], t[Len(t) - i]) = PadStep(bk, spread)

(***************************************************************************)
(* Part 2 - the B-spline of (t, nord, coeff)                               *)
(***************************************************************************)
NCoef(t, nord) == Len(t) - nord
InRange(t, nord, x) == QLe(Lo(t, nord), x) /\ QLe(x, Hi(t, nord))
(* the non-empty cells [t[j], t[j+1]] of the breakpoint range *)
Cells(t, nord) == {j \in nord..(Len(t) - nord) : QLt(t[j], t[j + 1])}
(* the cells a point of the range may be attributed to: one for a point inside a cell, the two   *)
(* neighbours for a point on an interior breakpoint (which of them is a convention the statement *)
(* leaves open: right-continuous in the textbooks, left-continuous in de Boor's INTERV search)    *)
Cand(t, nord, x) == {j \in Cells(t, nord) : QLe(t[j], x) /\ QLe(x, t[j + 1])}

(* Cox-de Boor with the 0/0 := 0 convention; the order-1 functions are the indicator of the    *)
(* cell j the point is attributed to:                                                            *)
(*   B[i,1] = [i = j]                                                                            *)
(*   B[i,k] = (x - t[i])/(t[i+k-1] - t[i]) B[i,k-1] + (t[i+k] - x)/(t[i+k] - t[i+1]) B[i+1,k-1]  *)
W1(t, i, k, x) == IF t[i + k - 1] = t[i] THEN Zero ELSE QDiv(QSub(x, t[i]), QSub(t[i + k - 1], t[i]))
W2(t, i, k, x) == IF t[i + k] = t[i + 1] THEN Zero ELSE QDiv(QSub(t[i + k], x), QSub(t[i + k], t[i + 1]))

(* definition 1: the bare recursion, for any i in 1..Len(t)-k *)
RECURSIVE BFull(_, _, _, _, _)
BFull(t, j, i, k, x) ==
  IF k = 1 THEN (IF i = j THEN One ELSE Zero)
  ELSE QAdd(QMul(W1(t, i, k, x), BFull(t, j, i, k - 1, x)), QMul(W2(t, i, k, x), BFull(t, j, i + 1, k - 1, x)))

(* definition 2 (the one TLC evaluates everywhere): the same recursion organised order by order. *)
(* Only B[j-k+1 .. j, k] can be non-zero on cell j (support property), so order k is the tuple   *)
(* Level(k) = <<B[j-k+1,k], ..., B[j,k]>> computed from Level(k-1).  B-splines do not change     *)
(* when knots and abscissa are multiplied by a common factor, so the computation is done on      *)
(* integers T = S t, X = S x (S a common denominator): one normalisation per quotient.           *)
(* TLC checks that definitions 1 and 2 agree (DefinitionsAgree).                                 *)
ILcm(a, b) == (a \div GCD(a, b)) * b
RECURSIVE DenLcm(_)
DenLcm(s) == IF s = <<>> THEN 1 ELSE ILcm(s[1][2], DenLcm(Tail(s)))
ScaleInt(q, S) == q[1] * (S \div q[2])
V1(T, i, k, X) == IF T[i + k - 1] = T[i] THEN Zero ELSE R(X - T[i], T[i + k - 1] - T[i])
V2(T, i, k, X) == IF T[i + k] = T[i + 1] THEN Zero ELSE R(T[i + k] - X, T[i + k] - T[i + 1])
RECURSIVE NextLevel(_, _, _, _, _, _)
NextLevel(T, j, k, X, prev, l) ==
  IF l > k THEN <<>>
  ELSE LET i == j - k + l
           a == IF l = 1 THEN Zero ELSE QMul(V1(T, i, k, X), prev[l - 1])
           b == IF l = k THEN Zero ELSE QMul(V2(T, i, k, X), prev[l])
       IN <<QAdd(a, b)>> \o NextLevel(T, j, k, X, prev, l + 1)
RECURSIVE Level(_, _, _, _)
Level(T, j, k, X) == IF k = 1 THEN <<One>>
                     ELSE LET prev == Level(T, j, k - 1, X) IN NextLevel(T, j, k, X, prev, 1)

(* the nord functions that can be non-zero on cell j: <<B[j-nord+1,nord], ..., B[j,nord]>> at x *)
Row(t, nord, j, x) ==
  LET S == ILcm(DenLcm(t), x[2])
      T == Tup([i \in 1..Len(t) |-> ScaleInt(t[i], S)])
  IN Level(T, j, nord, ScaleInt(x, S))

(* sum of coeff[i] B[i,nord](x) given the row of cell j *)
RECURSIVE DotFrom(_, _, _, _)
DotFrom(row, coeff, off, l) ==
  IF l > Len(row) THEN Zero ELSE QAdd(QMul(row[l], coeff[off + l]), DotFrom(row, coeff, off, l + 1))
ValueOfRow(row, coeff, nord, j) == DotFrom(row, coeff, j - nord, 1)
ValueIn(t, nord, coeff, j, x) == ValueOfRow(Row(t, nord, j, x), coeff, nord, j)

(* the set of values the statement allows at x (one value wherever the spline is continuous) *)
Values(t, nord, coeff, x) == {ValueIn(t, nord, coeff, j, x) : j \in Cand(t, nord, x)}

(* the validity mask while no breakpoint is masked *)
MaskOf(t, nord, x) == InRange(t, nord, x)

(* ---- the specified outcome at one point, as a record (what replay and trace validation use) ---- *)
(* in range?; the cells the point may be attributed to (ascending); for each of them the nord     *)
(* basis values and, per coefficient vector (integers), the spline value; the cell reported when  *)
(* the point is outside (documented by intrv: clamped to the first / last cell)                   *)
Ints(s) == Tup([k \in 1..Len(s) |-> OfInt(s[k])])
MinOf(S) == CHOOSE a \in S : \A b \in S : a <= b
MaxOf(S) == CHOOSE a \in S : \A b \in S : a >= b
RECURSIVE SeqOfSet(_)
SeqOfSet(S) == IF S = {} THEN <<>> ELSE LET a == MinOf(S) IN <<a>> \o SeqOfSet(S \ {a})
ClampCell(t, nord, x) == IF QLt(x, Lo(t, nord)) THEN nord ELSE Len(t) - nord
(* ... or, where empty cells lie at that end of the range, any cell up to the first non-empty one *)
ClampCells(t, nord, x) ==
  IF QLt(x, Lo(t, nord)) THEN nord..(IF Cells(t, nord) = {} THEN nord ELSE MinOf(Cells(t, nord)))
  ELSE (IF Cells(t, nord) = {} THEN Len(t) - nord ELSE MaxOf(Cells(t, nord)))..(Len(t) - nord)
RECURSIVE PerCell(_, _, _, _, _)
PerCell(t, nord, cs, x, cells) ==
  IF cells = <<>> THEN <<>>
  ELSE LET row == Row(t, nord, cells[1], x)
       IN << [cell |-> cells[1], row |-> row,
              vals |-> Tup([q \in 1..Len(cs) |-> ValueOfRow(row, Ints(cs[q]), nord, cells[1])])] >>
          \o PerCell(t, nord, cs, x, Tail(cells))
(* D-C08-3 (see the end of the module): the point sits on a repeated lowest breakpoint *)
Dev_EmptyFirstCell(t, nord, x) == x = Lo(t, nord) /\ t[nord] = t[nord + 1]
PointExp(t, nord, cs, x) ==
  [inr |-> MaskOf(t, nord, x), cand |-> PerCell(t, nord, cs, x, SeqOfSet(Cand(t, nord, x))),
   clamp |-> SeqOfSet(ClampCells(t, nord, x)), emptyfirst |-> Dev_EmptyFirstCell(t, nord, x)]
RECURSIVE PointsExp(_, _, _, _)
PointsExp(t, nord, cs, xs) ==
  IF xs = <<>> THEN <<>> ELSE <<PointExp(t, nord, cs, xs[1])>> \o PointsExp(t, nord, cs, Tail(xs))

(* the left- and the right-continuous attribution (clamped outside the range) *)
CellL(t, nord, x) == IF InRange(t, nord, x) /\ Cand(t, nord, x) # {} THEN MinOf(Cand(t, nord, x)) ELSE ClampCell(t, nord, x)
CellR(t, nord, x) == IF InRange(t, nord, x) /\ Cand(t, nord, x) # {} THEN MaxOf(Cand(t, nord, x)) ELSE ClampCell(t, nord, x)

(* ---- laws of the basis (checked by TLC on every enumerated point) ---- *)
RowNonNegative(row) == \A l \in 1..Len(row) : row[l][1] >= 0
RowSumsToOne(row) == QSum(row) = One
PartitionOfUnity(t, nord, x) ==
  InRange(t, nord, x) => \A j \in Cand(t, nord, x) : RowNonNegative(Row(t, nord, j, x)) /\ RowSumsToOne(Row(t, nord, j, x))
(* every point of a non-degenerate range lies in some non-empty cell *)
RangeIsCovered(t, nord, x) == (InRange(t, nord, x) /\ QLt(Lo(t, nord), Hi(t, nord))) => Cand(t, nord, x) # {}
(* the bare recursion gives the row on the row's indices and zero everywhere else *)
DefinitionsAgree(t, nord, x) ==
  \A j \in Cand(t, nord, x) :
     LET row == Row(t, nord, j, x) IN
     \A i \in 1..NCoef(t, nord) :
        BFull(t, j, i, nord, x) = (IF i \in (j - nord + 1)..j THEN row[i - (j - nord)] ELSE Zero)
(* multiplicity of the value x among the knots *)
Mult(t, x) == Cardinality({i \in 1..Len(t) : t[i] = x})
(* where the knot multiplicity is below the order the spline is continuous: both neighbours of  *)
(* a breakpoint give the same value                                                              *)
Continuity(t, nord, coeff, x) == Mult(t, x) < nord => Cardinality(Values(t, nord, coeff, x)) <= 1

(***************************************************************************)
(* Part 3 - the evaluation procedure                                       *)
(***************************************************************************)
(* stable sorting permutation of xs: p[r] = caller's index of the r-th smallest *)
RankOf(xs, a) == Cardinality({b \in 1..Len(xs) : QLt(xs[b], xs[a]) \/ (xs[b] = xs[a] /\ b < a)}) + 1
SortPerm(xs) == LET rank == Tup([a \in 1..Len(xs) |-> RankOf(xs, a)])
                IN Tup([r \in 1..Len(xs) |-> CHOOSE a \in 1..Len(xs) : rank[a] = r])

(* sort; attribute every sorted point to a cell (cell(_)); for each cell take the block of rows  *)
(* first..last attributed to it and evaluate the whole block with that cell's coefficients       *)
(* (val(x, k): the value of the cell-k polynomial at x); scatter the sorted results back to the  *)
(* caller's positions.  The law below is about the bookkeeping, so val may be symbolic.          *)
Procedure(t, nord, xs, cell(_), val(_, _)) ==
  LET N == Len(xs)
      p == SortPerm(xs)
      xw == Tup([r \in 1..N |-> xs[p[r]]])
      idx == Tup([r \in 1..N |-> cell(xw[r])])
      rowsOf(k) == {r \in 1..N : idx[r] = k}
      blockOf(r) == {k \in nord..(Len(t) - nord) : rowsOf(k) # {} /\ MinOf(rowsOf(k)) <= r /\ r <= MaxOf(rowsOf(k))}
      yfit == Tup([r \in 1..N |-> IF blockOf(r) = {} THEN <<>> ELSE val(xw[r], MaxOf(blockOf(r)))])
      inv == Tup([a \in 1..N |-> CHOOSE r \in 1..N : p[r] = a])
  IN Tup([a \in 1..N |-> yfit[inv[a]]])

(* the procedure returns, in the caller's order, the value of each point's own cell polynomial *)
ProcedureEqualsDefinition(t, nord, xs) ==
  LET sym(x, k) == <<x, k>> IN
  /\ Procedure(t, nord, xs, LAMBDA x : CellL(t, nord, x), sym) = Tup([a \in 1..Len(xs) |-> sym(xs[a], CellL(t, nord, xs[a]))])
  /\ Procedure(t, nord, xs, LAMBDA x : CellR(t, nord, x), sym) = Tup([a \in 1..Len(xs) |-> sym(xs[a], CellR(t, nord, xs[a]))])
  /\ \A a \in 1..Len(xs) : (InRange(t, nord, xs[a]) /\ Cand(t, nord, xs[a]) # {}) =>
        CellL(t, nord, xs[a]) \in Cand(t, nord, xs[a]) /\ CellR(t, nord, xs[a]) \in Cand(t, nord, xs[a])
MaskExactlyOutside(t, nord, xs) ==
  \A a \in 1..Len(xs) : MaskOf(t, nord, xs[a]) = ~(QLt(xs[a], Lo(t, nord)) \/ QLt(Hi(t, nord), xs[a]))

(* ---- points a hair outside / inside the ends of the breakpoint range ---- *)
(* "False exactly for the points outside that range": a point 2^-26 (less than single-precision  *)
(* rounding of an end breakpoint of magnitude >= 1) or 2^-12 beyond an end is outside, the same  *)
(* distance inside is inside.  Only the mask is specified for these probes (their basis values   *)
(* have denominators beyond 32 bits).                                                             *)
Tiny == <<1, 67108864>>
Small == <<1, 4096>>
EndProbes(t, nord) ==
  LET lo == Lo(t, nord)
      hi == Hi(t, nord)
  IN << QSub(lo, Tiny), lo, QAdd(lo, Tiny), QSub(hi, Tiny), hi, QAdd(hi, Tiny),
        QSub(lo, Small), QAdd(lo, Small), QSub(hi, Small), QAdd(hi, Small) >>
EndMask(t, nord) == LET E == EndProbes(t, nord) IN Tup([a \in 1..Len(E) |-> MaskOf(t, nord, E[a])])

(***************************************************************************)
(* Part 4 - representations of abscissae and breakpoints                   *)
(***************************************************************************)
(* The statement quantifies over VALUES.  The same values can reach the code in several numpy  *)
(* representations (forms): floating or integer element types, byte-swapped, strided or         *)
(* read-only memory.  A form can carry a sequence only if it represents every value exactly.    *)
(* Nothing in parts 1-3 takes a form as an argument: the specified outcome of a call is a        *)
(* function of the values alone (FormIndependent in the MC module states this for the cases).    *)
Forms == {"f8", "f4", "i8", "i4", "i2", "u1", "f8swap", "f8strided", "f8readonly"}
FormSeq == <<"f8", "i8", "f4", "i4", "f8swap", "i2", "f8strided", "u1", "f8readonly">>
IntForms == {"i8", "i4", "i2", "u1"}
Representable(form, x) ==
  CASE form \in {"i8", "i4"} -> x[2] = 1
    [] form = "i2" -> x[2] = 1 /\ x[1] >= -32768 /\ x[1] <= 32767
    [] form = "u1" -> x[2] = 1 /\ x[1] >= 0 /\ x[1] <= 255
    [] form = "f4" -> x[2] \in {1, 2, 4, 8, 16, 32, 64} /\ Abs(x[1]) < 1048576
    [] OTHER -> TRUE
RepresentsAll(form, xs) == \A k \in 1..Len(xs) : Representable(form, xs[k])
(* float32 abscissae carry single precision: the result is demanded to single precision there  *)
SinglePrecision(form) == form = "f4"
(* the n-th (cyclically) of the forms that can carry xs *)
PickForm(xs, n) == LET can == SelectSeq(FormSeq, LAMBDA f : RepresentsAll(f, xs)) IN can[(n % Len(can)) + 1]
PickIntForm(xs, n) == LET can == SelectSeq(FormSeq, LAMBDA f : f \in IntForms /\ RepresentsAll(f, xs)) IN can[(n % Len(can)) + 1]

(***************************************************************************)
(* Named deviations (what pydl does today; see known_findings.json)        *)
(***************************************************************************)
(* D-C08-1: everyn - the sample index floor(nx/(nb-1))*(nb-1) is not clamped: it equals nx      *)
(* (IndexError) exactly when nb-1 divides nx                                                     *)
Dev_EveryNUnclamped(nx, everyn) ==
  LET nb == nx \div everyn IN nb >= 2 /\ (nx \div (nb - 1)) * (nb - 1) >= nx
(* D-C08-2: everyn with nx div everyn < 2 gives ONE breakpoint (at the highest datum): the       *)
(* breakpoint range is a single point and does not cover the data                                *)
Dev_EveryNSingle(nx, everyn) == nx \div everyn < 2
(* D-C08-3: a point on the lowest breakpoint is attributed to the first cell even when that      *)
(* cell is empty (lowest breakpoint repeated): 0/0, the value is NaN.  Dev_EmptyFirstCell above. *)
(* D-C08-4: everyn samples the data in the caller's order instead of sorted order *)
Dev_EveryNUnsorted(data) == ~NonDecreasing(data)
(* D-C08-5: when the highest breakpoint does not reach the highest datum and is repeated, the    *)
(* FIRST of the equal highest breakpoints is raised (argmax): the knots decrease afterwards       *)
Dev_CoverFixFirstMax(data, opt, arg) ==
  LET raw == RawBreakpoints(data, opt, arg)
      n == Len(raw)
  IN n >= 2 /\ QLt(raw[n], QMaxSeq(data)) /\ raw[n - 1] = raw[n]
(* D-C08-6: evaluating at an empty array of points raises instead of returning empty arrays *)
Dev_EmptyPoints(xs) == xs = <<>>
(* D-C08-7: breakpoints handed over in an integer or read-only array are used in place: padding  *)
(* and coverage corrections are truncated / wrap around / raise                                   *)
Dev_BreakpointArrayInPlace(opt, aform) == opt \in {"bkpt", "placed"} /\ aform \in IntForms \cup {"f8readonly"}
(* the deviations a construction call is exposed to, and whether the documentation pins its     *)
(* breakpoints down (every-n is documented for sorted data only; for unsorted data only the     *)
(* laws of the statement are demanded)                                                           *)
DevsOf(data, opt, arg) ==
  (IF Dev_CoverFixFirstMax(data, opt, arg) THEN {"D-C08-5"} ELSE {})
  \cup (IF opt # "everyn" THEN {}
        ELSE (IF Dev_EveryNUnclamped(Len(data), arg) THEN {"D-C08-1"} ELSE {})
             \cup (IF Dev_EveryNSingle(Len(data), arg) THEN {"D-C08-2"} ELSE {})
             \cup (IF Dev_EveryNUnsorted(data) THEN {"D-C08-4"} ELSE {}))
PinnedDown(data, opt) == opt # "everyn" \/ NonDecreasing(data)
=============================================================================
