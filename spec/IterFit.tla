------------------------------ MODULE IterFit ------------------------------
(***************************************************************************)
(* C10 - the iterative B-spline fit (iterfit): order independence, weights *)
(* and rejection limits.                                                   *)
(*                                                                         *)
(* The documented procedure, written without reference to the code:        *)
(*   sort the data by x; the good set is the positively weighted points;   *)
(*   repeat { fit the good set; reject the good points whose residual from *)
(*   THAT fit lies beyond -lower / +upper sigma; } until nothing was       *)
(*   rejected or maxiter refits have been made; hand the mask back in the  *)
(*   caller's order together with the last curve fitted.                   *)
(*                                                                         *)
(* Points are named by their rank in x order (1..n).  The caller supplies  *)
(* them in an arbitrary order:  prob.perm[c] = rank of the point at caller *)
(* position c;  prob.cpos = caller positions whose inverse variance is     *)
(* positive.  The numerical part is an ORACLE: the environment supplies,   *)
(* for the set of points just fitted, the scaled residual z[i] (integer,   *)
(* in the unit of prob.lower / prob.upper) of every point from the weighted*)
(* least-squares fit to exactly that set.  In model checking TLC           *)
(* quantifies over the oracle; in trace validation the harness's           *)
(* independent solver supplies it.  prob.band is the guard band of that    *)
(* solver: a residual within band of a limit may count either way          *)
(* (band = 0 in model checking: "beyond" is strict, a residual exactly at  *)
(* the limit is not rejected).                                             *)
(*                                                                         *)
(* The problem record carries VALUES only.  How the caller represents the  *)
(* abscissae (float64, or int64 / int32 / int16 / uint8 when they are      *)
(* integral) is not part of it: every behaviour of the machine stands for  *)
(* all representations (XForms), and the harness replays / records each    *)
(* problem in several of them against the same specified outcome.          *)
(*                                                                         *)
(* prob = [n, perm, cpos, lower, upper, band, maxiter, mingood]            *)
(* mingood = fewest points a fit needs (the spline order); with fewer good *)
(* points the statement says nothing: pc = "unspec".                       *)
(***************************************************************************)
EXTENDS Integers, Sequences, FiniteSets

XForms == {"float64", "int64", "int32", "int16", "uint8"}

VARIABLES prob,      \* the problem (never changes)
          pc,        \* "start" "fit" "reject" "loop" "unsort" "return" "done" "unspec"
          xsort,     \* xsort[i] = caller position of the point of rank i
          work,      \* current good set (ranks = positions in sorted order)
          iter,      \* fits made so far
          status,    \* status of the last fit: 0 ok, -1 breakpoints dropped (fit again)
          qdone,     \* the last rejection rejected nothing
          curveOf,   \* the set of points the current curve was fitted to
          outmask,   \* result: caller positions flagged good
          hist       \* calls made to the two collaborators (fit, reject), in order

vars == <<prob, pc, xsort, work, iter, status, qdone, curveOf, outmask, hist>>

IsPerm(s, n) == DOMAIN s = 1..n /\ {s[i] : i \in 1..n} = 1..n

ProblemOK(p) ==
  /\ p.n \in Nat \ {0} /\ IsPerm(p.perm, p.n) /\ p.cpos \subseteq 1..p.n
  /\ p.lower \in Nat \ {0} /\ p.upper \in Nat \ {0} /\ p.band \in Nat /\ p.band < p.lower /\ p.band < p.upper
  /\ p.maxiter \in Nat /\ p.mingood \in Nat \ {0}

Good(p) == {p.perm[c] : c \in p.cpos}                       \* ranks of the positively weighted points
ArgSort(p) == [i \in 1..p.n |-> CHOOSE c \in 1..p.n : p.perm[c] = i]

(* points of m certainly / possibly beyond the limits, given the residuals z *)
SureBeyond(p, m, z)  == {i \in m : z[i] < -(p.lower + p.band) \/ z[i] > p.upper + p.band}
MaybeBeyond(p, m, z) == {i \in m : z[i] < -(p.lower - p.band) \/ z[i] > p.upper - p.band}
RejectionOK(p, m, z, B) == SureBeyond(p, m, z) \subseteq B /\ B \subseteq MaybeBeyond(p, m, z)

FitEntry(m, st)      == [a |-> "fit", mask |-> m, st |-> st, z |-> <<>>, rej |-> {}]
RejectEntry(m, z, B) == [a |-> "reject", mask |-> m, st |-> 0, z |-> z, rej |-> B]
Fits(h)    == SelectSeq(h, LAMBDA e : e.a = "fit")
Rejects(h) == SelectSeq(h, LAMBDA e : e.a = "reject")

InitWith(p) ==
  /\ prob = p /\ pc = "start" /\ xsort = <<>> /\ work = {} /\ iter = 0 /\ status = 0
  /\ qdone = FALSE /\ curveOf = {} /\ outmask = {} /\ hist = <<>>

(* ---- the steps of the procedure ---- *)
Sort ==
  /\ pc = "start"
  /\ xsort' = ArgSort(prob)
  /\ work' = {i \in 1..prob.n : xsort'[i] \in prob.cpos}
  /\ pc' = IF Cardinality(work') < prob.mingood THEN "unspec" ELSE "fit"
  /\ UNCHANGED <<prob, iter, status, qdone, curveOf, outmask, hist>>

(* the fit collaborator is called with the weights of exactly the current good set *)
Fit(st) ==
  /\ pc = "fit"
  /\ st \in {0, -1}
  /\ curveOf' = work
  /\ status' = st
  /\ iter' = iter + 1
  /\ hist' = Append(hist, FitEntry(work, st))
  /\ pc' = IF st = 0 THEN "reject" ELSE "loop"
  /\ UNCHANGED <<prob, xsort, work, qdone, outmask>>

(* the fit failed outright: a matter of C09, nothing is claimed here *)
FitFails ==
  /\ pc = "fit"
  /\ pc' = "unspec"
  /\ iter' = iter + 1
  /\ hist' = Append(hist, FitEntry(work, -2))
  /\ UNCHANGED <<prob, xsort, work, status, qdone, curveOf, outmask>>

(* rejection: only points of the current good set are considered, rejected points never return *)
Reject(z, B) ==
  /\ pc = "reject"
  /\ DOMAIN z = 1..prob.n
  /\ RejectionOK(prob, work, z, B)
  /\ work' = work \ B
  /\ qdone' = (B = {})
  /\ hist' = Append(hist, RejectEntry(work, z, B))
  /\ pc' = "loop"
  /\ UNCHANGED <<prob, xsort, iter, status, curveOf, outmask>>

(* maxiter = 0 "disables rejection": the statement fixes the curve (the plain fit), it does not *)
(* say whether the mask of that single pass is still reported; both are accepted                *)
SkipReject ==
  /\ pc = "reject" /\ prob.maxiter = 0
  /\ pc' = "unsort"
  /\ UNCHANGED <<prob, xsort, work, iter, status, qdone, curveOf, outmask, hist>>

Continue == (status # 0 \/ ~qdone) /\ iter <= prob.maxiter

LoopOrExit ==
  /\ pc = "loop"
  /\ pc' = IF Continue THEN (IF Cardinality(work) < prob.mingood THEN "unspec" ELSE "fit") ELSE "unsort"
  /\ UNCHANGED <<prob, xsort, work, iter, status, qdone, curveOf, outmask, hist>>

Unsort ==
  /\ pc = "unsort"
  /\ outmask' = {xsort[i] : i \in work}
  /\ pc' = "return"
  /\ UNCHANGED <<prob, xsort, work, iter, status, qdone, curveOf, hist>>

Return ==
  /\ pc = "return"
  /\ pc' = "done"
  /\ UNCHANGED <<prob, xsort, work, iter, status, qdone, curveOf, outmask, hist>>

Finished == pc \in {"done", "unspec"}
Stutter == Finished /\ UNCHANGED vars

(* ---- named deviation (D-C10-1): the loop never continues once a rejection has been made,     *)
(* whatever it rejected (the code compared qdone with -1 after it had become a boolean)         *)
Dev_StopsAfterFirstReject ==
  /\ pc = "loop"
  /\ pc' = IF status # 0 /\ iter <= prob.maxiter
           THEN (IF Cardinality(work) < prob.mingood THEN "unspec" ELSE "fit") ELSE "unsort"
  /\ UNCHANGED <<prob, xsort, work, iter, status, qdone, curveOf, outmask, hist>>

(* ---- properties (state predicates over the machine) ---- *)
PCs == {"start", "fit", "reject", "loop", "unsort", "return", "done", "unspec"}
TypeOK ==
  /\ ProblemOK(prob) /\ pc \in PCs
  /\ (pc # "start" => IsPerm(xsort, prob.n))
  /\ work \subseteq 1..prob.n /\ curveOf \subseteq 1..prob.n /\ outmask \subseteq 1..prob.n
  /\ iter \in 0..(prob.maxiter + 1) /\ status \in {0, -1} /\ qdone \in BOOLEAN
  /\ \A k \in DOMAIN hist : hist[k].a \in {"fit", "reject"} /\ hist[k].mask \subseteq 1..prob.n

Returned == pc \in {"return", "done"}

(* the sort permutation really sorts: rank i sits at caller position xsort[i] *)
SortIsArgsort == pc # "start" => \A i \in 1..prob.n : prob.perm[xsort[i]] = i

ZeroWeightNeverUsed ==
  /\ work \subseteq Good(prob) /\ curveOf \subseteq Good(prob)
  /\ \A k \in DOMAIN hist : hist[k].mask \subseteq Good(prob)
  /\ Returned => outmask \subseteq prob.cpos

MaskInCallerOrder ==
  Returned => \A c \in 1..prob.n : (c \in outmask) <=> (prob.perm[c] \in work)

MaxIter0IsPlainFit ==
  (Returned /\ prob.maxiter = 0) => (curveOf = Good(prob) /\ Len(Fits(hist)) = 1)

ReturnedCurveIsLastFit ==
  Returned => /\ Len(Fits(hist)) >= 1
              /\ Fits(hist)[Len(Fits(hist))].mask = curveOf
              /\ work \subseteq curveOf

(* at the return either the last rejection found nothing (the curve is the fit to the mask      *)
(* returned) or the iteration budget is used up                                                 *)
FixpointOrBudget ==
  Returned => \/ status = 0 /\ qdone /\ work = curveOf
              \/ iter > prob.maxiter

WithinBudget == Len(Fits(hist)) <= prob.maxiter + 1 /\ iter = Len(Fits(hist))

(* rejected points stay rejected and every fit uses exactly what the rejections left *)
RejectedStayOut ==
  /\ \A j, k \in DOMAIN hist : (j < k /\ hist[j].a = "reject") =>
        (hist[k].mask \cap hist[j].rej = {} /\ work \cap hist[j].rej = {})
  /\ \A j, k \in DOMAIN hist : j < k => hist[k].mask \subseteq hist[j].mask
  /\ \A k \in DOMAIN hist : work \subseteq hist[k].mask

(* clear outliers: whatever the first fit puts beyond the limits ends False, and with rejection *)
(* enabled the returned curve was fitted without it                                             *)
OutliersRejectedAndRefitted ==
  (Returned /\ prob.maxiter >= 1 /\ Len(Rejects(hist)) >= 1 /\ \A k \in DOMAIN hist : hist[k].st = 0) =>
     LET r == Rejects(hist)[1] IN
       /\ SureBeyond(prob, r.mask, r.z) \cap work = {}
       /\ (r.rej # {} => (Len(Fits(hist)) >= 2 /\ curveOf \cap r.rej = {}))
=============================================================================
