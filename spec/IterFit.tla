------------------------------ MODULE IterFit ------------------------------
(***************************************************************************)
(* C10 - the iterative B-spline fit (iterfit): order independence, weights *)
(* and rejection limits.                                                   *)
(*                                                                         *)
(* The documented procedure, written without reference to the code:        *)
(*   sort the data by x; the good set is the positively weighted points;   *)
(*   repeat { fit the good set; reject the good points whose residual from *)
(*   THAT fit lies beyond -lower / +upper sigma; } until nothing was       *)
(*   rejected or maxiter refits have been made; hand the mask back in the  *)
(*   caller's order together with the last curve fitted.                   *)
(*                                                                         *)
(* Points are named by their rank in x order (1..n).  The caller supplies  *)
(* them in an arbitrary order:  prob.perm[c] = rank of the point at caller *)
(* position c;  prob.cpos = caller positions whose inverse variance is     *)
(* positive.  The numerical part is an ORACLE: the environment supplies,   *)
(* for the set of points just fitted, the scaled residual z[i] (integer,   *)
(* in the unit of prob.lower / prob.upper) of every point from the weighted*)
(* least-squares fit to exactly that set.  In model checking TLC           *)
(* quantifies over the oracle; in trace validation the harness's           *)
(* independent solver supplies it.  prob.band is the guard band of that    *)
(* solver: a residual within band of a limit may count either way          *)
(* (band = 0 in model checking: "beyond" is strict, a residual exactly at  *)
(* the limit is not rejected).                                             *)
(*                                                                         *)
(* The problem record carries VALUES only.  How the caller represents the  *)
(* abscissae (float64, or int64 / int32 / int16 / uint8 when they are      *)
(* integral) is not part of it: every behaviour of the machine stands for  *)
(* all representations (XForms), and the harness replays / records each    *)
(* problem in several of them against the same specified outcome.          *)
(*                                                                         *)
(* BREAKPOINTS.  The spline lives on a set of breakpoints, named 1..nbk.   *)
(* A fit that finds breakpoints without support does not solve anything:   *)
(* it DROPS some of them (status -1) and is made again - on the reduced    *)
(* set.  bk is the set in effect.  Everything numerical is a function of   *)
(* BOTH the set of points fitted and the breakpoints in effect: the oracle *)
(* answers for (work, bk), the returned curve is the solution on the bk    *)
(* the returned object carries, and nothing computed for an earlier,       *)
(* larger breakpoint set may be carried over a drop.  WHICH breakpoints a  *)
(* fit drops is the business of C09 (the environment chooses here); that   *)
(* status 0 drops none, status -1 drops at least one, dropped breakpoints  *)
(* never come back within a run and the residuals judged by a rejection    *)
(* are those on the breakpoints of the fit just made is stated here.       *)
(*                                                                         *)
(* prob = [n, perm, cpos, lower, upper, band, maxiter, mingood, nbk]       *)
(* mingood = fewest points a fit needs (the spline order); with fewer good *)
(* points the statement says nothing: pc = "unspec".                       *)
(***************************************************************************)
EXTENDS Integers, Sequences, FiniteSets

XForms == {"float64", "int64", "int32", "int16", "uint8"}

VARIABLES prob,      \* the problem (never changes)
          pc,        \* "start" "fit" "reject" "loop" "unsort" "return" "done" "unspec"
          xsort,     \* xsort[i] = caller position of the point of rank i
          work,      \* current good set (ranks = positions in sorted order)
          iter,      \* fits made so far
          status,    \* status of the last fit: 0 ok, -1 breakpoints dropped (fit again)
          qdone,     \* the last rejection rejected nothing
          curveOf,   \* the set of points the current curve was fitted to
          outmask,   \* result: caller positions flagged good
          hist,      \* calls made to the two collaborators (fit, reject), in order
          bk,        \* breakpoints in effect (a subset of 1..prob.nbk)
          curveBk    \* the breakpoints the current curve was solved on

vars == <<prob, pc, xsort, work, iter, status, qdone, curveOf, outmask, hist, bk, curveBk>>

IsPerm(s, n) == DOMAIN s = 1..n /\ {s[i] : i \in 1..n} = 1..n

ProblemOK(p) ==
  /\ p.n \in Nat \ {0} /\ IsPerm(p.perm, p.n) /\ p.cpos \subseteq 1..p.n
  /\ p.lower \in Nat \ {0} /\ p.upper \in Nat \ {0} /\ p.band \in Nat /\ p.band < p.lower /\ p.band < p.upper
  /\ p.maxiter \in Nat /\ p.mingood \in Nat \ {0} /\ p.nbk \in Nat \ {0}

Good(p) == {p.perm[c] : c \in p.cpos}                       \* ranks of the positively weighted points
ArgSort(p) == [i \in 1..p.n |-> CHOOSE c \in 1..p.n : p.perm[c] = i]

(* points of m certainly / possibly beyond the limits, given the residuals z *)
SureBeyond(p, m, z)  == {i \in m : z[i] < -(p.lower + p.band) \/ z[i] > p.upper + p.band}
MaybeBeyond(p, m, z) == {i \in m : z[i] < -(p.lower - p.band) \/ z[i] > p.upper - p.band}
RejectionOK(p, m, z, B) == SureBeyond(p, m, z) \subseteq B /\ B \subseteq MaybeBeyond(p, m, z)

(* bk of a fit entry: the breakpoints in effect AFTER the fit (for status 0 the set it solved on);   *)
(* bk of a reject entry: the breakpoints the residuals z were computed on                            *)
FitEntry(m, st, b)      == [a |-> "fit", mask |-> m, st |-> st, z |-> <<>>, rej |-> {}, bk |-> b]
RejectEntry(m, z, B, b) == [a |-> "reject", mask |-> m, st |-> 0, z |-> z, rej |-> B, bk |-> b]
Fits(h)    == SelectSeq(h, LAMBDA e : e.a = "fit")
Rejects(h) == SelectSeq(h, LAMBDA e : e.a = "reject")

InitWith(p) ==
  /\ prob = p /\ pc = "start" /\ xsort = <<>> /\ work = {} /\ iter = 0 /\ status = 0
  /\ qdone = FALSE /\ curveOf = {} /\ outmask = {} /\ hist = <<>>
  /\ bk = 1..p.nbk /\ curveBk = {}

(* ---- the steps of the procedure ---- *)
Sort ==
  /\ pc = "start"
  /\ xsort' = ArgSort(prob)
  /\ work' = {i \in 1..prob.n : xsort'[i] \in prob.cpos}
  /\ pc' = IF Cardinality(work') < prob.mingood THEN "unspec" ELSE "fit"
  /\ UNCHANGED <<prob, iter, status, qdone, curveOf, outmask, hist, bk, curveBk>>

(* the fit collaborator is called with the weights of exactly the current good set, on the        *)
(* breakpoints in effect; d = the breakpoints it drops: none with status 0 (it solved), at least   *)
(* one with status -1 (it solved nothing; the next fit is made on what is left)                    *)
Fit(st, d) ==
  /\ pc = "fit"
  /\ st \in {0, -1}
  /\ d \subseteq bk /\ (st = 0 <=> d = {})
  /\ curveOf' = work
  /\ status' = st
  /\ iter' = iter + 1
  /\ bk' = bk \ d
  /\ curveBk' = bk'
  /\ hist' = Append(hist, FitEntry(work, st, bk'))
  /\ pc' = IF st = 0 THEN "reject" ELSE "loop"
  /\ UNCHANGED <<prob, xsort, work, qdone, outmask>>

(* the fit failed outright: a matter of C09, nothing is claimed here *)
FitFails ==
  /\ pc = "fit"
  /\ pc' = "unspec"
  /\ iter' = iter + 1
  /\ hist' = Append(hist, FitEntry(work, -2, bk))
  /\ UNCHANGED <<prob, xsort, work, status, qdone, curveOf, outmask, bk, curveBk>>

(* rejection: only points of the current good set are considered, rejected points never return; *)
(* zb = the breakpoints the residuals z were computed on: those in effect                        *)
Reject(z, B, zb) ==
  /\ pc = "reject"
  /\ DOMAIN z = 1..prob.n
  /\ zb = bk
  /\ RejectionOK(prob, work, z, B)
  /\ work' = work \ B
  /\ qdone' = (B = {})
  /\ hist' = Append(hist, RejectEntry(work, z, B, zb))
  /\ pc' = "loop"
  /\ UNCHANGED <<prob, xsort, iter, status, curveOf, outmask, bk, curveBk>>

(* maxiter = 0 "disables rejection": the statement fixes the curve (the plain fit), it does not *)
(* say whether the mask of that single pass is still reported; both are accepted                *)
SkipReject ==
  /\ pc = "reject" /\ prob.maxiter = 0
  /\ pc' = "unsort"
  /\ UNCHANGED <<prob, xsort, work, iter, status, qdone, curveOf, outmask, hist, bk, curveBk>>

Continue == (status # 0 \/ ~qdone) /\ iter <= prob.maxiter

LoopOrExit ==
  /\ pc = "loop"
  /\ pc' = IF Continue THEN (IF Cardinality(work) < prob.mingood THEN "unspec" ELSE "fit") ELSE "unsort"
  /\ UNCHANGED <<prob, xsort, work, iter, status, qdone, curveOf, outmask, hist, bk, curveBk>>

Unsort ==
  /\ pc = "unsort"
  /\ outmask' = {xsort[i] : i \in work}
  /\ pc' = "return"
  /\ UNCHANGED <<prob, xsort, work, iter, status, qdone, curveOf, hist, bk, curveBk>>

Return ==
  /\ pc = "return"
  /\ pc' = "done"
  /\ UNCHANGED <<prob, xsort, work, iter, status, qdone, curveOf, outmask, hist, bk, curveBk>>

Finished == pc \in {"done", "unspec"}
Stutter == Finished /\ UNCHANGED vars

(* ---- named deviation (D-C10-1): the loop never continues once a rejection has been made,     *)
(* whatever it rejected (the code compared qdone with -1 after it had become a boolean)         *)
Dev_StopsAfterFirstReject ==
  /\ pc = "loop"
  /\ pc' = IF status # 0 /\ iter <= prob.maxiter
           THEN (IF Cardinality(work) < prob.mingood THEN "unspec" ELSE "fit") ELSE "unsort"
  /\ UNCHANGED <<prob, xsort, work, iter, status, qdone, curveOf, outmask, hist, bk, curveBk>>

(* ---- properties (state predicates over the machine) ---- *)
PCs == {"start", "fit", "reject", "loop", "unsort", "return", "done", "unspec"}
TypeOK ==
  /\ ProblemOK(prob) /\ pc \in PCs
  /\ (pc # "start" => IsPerm(xsort, prob.n))
  /\ work \subseteq 1..prob.n /\ curveOf \subseteq 1..prob.n /\ outmask \subseteq 1..prob.n
  /\ iter \in 0..(prob.maxiter + 1) /\ status \in {0, -1} /\ qdone \in BOOLEAN
  /\ \A k \in DOMAIN hist : hist[k].a \in {"fit", "reject"} /\ hist[k].mask \subseteq 1..prob.n
                             /\ hist[k].bk \subseteq 1..prob.nbk
  /\ bk \subseteq 1..prob.nbk /\ curveBk \subseteq 1..prob.nbk

Returned == pc \in {"return", "done"}

(* the sort permutation really sorts: rank i sits at caller position xsort[i] *)
SortIsArgsort == pc # "start" => \A i \in 1..prob.n : prob.perm[xsort[i]] = i

ZeroWeightNeverUsed ==
  /\ work \subseteq Good(prob) /\ curveOf \subseteq Good(prob)
  /\ \A k \in DOMAIN hist : hist[k].mask \subseteq Good(prob)
  /\ Returned => outmask \subseteq prob.cpos

MaskInCallerOrder ==
  Returned => \A c \in 1..prob.n : (c \in outmask) <=> (prob.perm[c] \in work)

MaxIter0IsPlainFit ==
  (Returned /\ prob.maxiter = 0) => (curveOf = Good(prob) /\ Len(Fits(hist)) = 1)

ReturnedCurveIsLastFit ==
  Returned => /\ Len(Fits(hist)) >= 1
              /\ Fits(hist)[Len(Fits(hist))].mask = curveOf
              /\ work \subseteq curveOf

(* at the return either the last rejection found nothing (the curve is the fit to the mask      *)
(* returned) or the iteration budget is used up                                                 *)
FixpointOrBudget ==
  Returned => \/ status = 0 /\ qdone /\ work = curveOf
              \/ iter > prob.maxiter

WithinBudget == Len(Fits(hist)) <= prob.maxiter + 1 /\ iter = Len(Fits(hist))

(* rejected points stay rejected and every fit uses exactly what the rejections left *)
RejectedStayOut ==
  /\ \A j, k \in DOMAIN hist : (j < k /\ hist[j].a = "reject") =>
        (hist[k].mask \cap hist[j].rej = {} /\ work \cap hist[j].rej = {})
  /\ \A j, k \in DOMAIN hist : j < k => hist[k].mask \subseteq hist[j].mask
  /\ \A k \in DOMAIN hist : work \subseteq hist[k].mask

(* breakpoints: status 0 drops none, status -1 at least one; what is dropped stays dropped; the  *)
(* breakpoints in effect are those the last fit left                                             *)
BkBefore(k) == IF \E j \in 1..(k-1) : hist[j].a = "fit"
               THEN hist[CHOOSE j \in 1..(k-1) : hist[j].a = "fit" /\ \A i \in (j+1)..(k-1) : hist[i].a # "fit"].bk
               ELSE 1..prob.nbk
BreakpointsOnlyShrink ==
  /\ \A k \in DOMAIN hist : hist[k].a = "fit" =>
        /\ hist[k].bk \subseteq BkBefore(k)
        /\ (hist[k].st = 0  => hist[k].bk = BkBefore(k))
        /\ (hist[k].st = -1 => hist[k].bk # BkBefore(k))
  /\ bk = BkBefore(Len(hist) + 1)

(* the residuals a rejection judges are those of the fit just made, on the breakpoints that fit   *)
(* solved on - never residuals computed for an earlier, larger breakpoint set                    *)
ResidualsOnBreakpointsInEffect ==
  \A k \in DOMAIN hist : hist[k].a = "reject" =>
     /\ k > 1 /\ hist[k-1].a = "fit" /\ hist[k-1].st = 0
     /\ hist[k].bk = hist[k-1].bk /\ hist[k].mask = hist[k-1].mask

(* the curve handed back was solved on the breakpoints the returned object carries; a run comes   *)
(* back with an unsolved fit (breakpoints just dropped) only when the budget is used up           *)
ReturnedCurveOnReturnedBreakpoints ==
  Returned => /\ curveBk = bk
              /\ (status # 0 => iter > prob.maxiter)
              /\ (status = 0 => \E k \in DOMAIN hist : /\ hist[k].a = "fit" /\ hist[k].st = 0 /\ hist[k].bk = bk
                                                       /\ hist[k].mask = curveOf
                                                       /\ \A j \in (k+1)..Len(hist) : hist[j].a # "fit")

(* clear outliers: whatever the first fit puts beyond the limits ends False, and with rejection *)
(* enabled the returned curve was fitted without it                                             *)
OutliersRejectedAndRefitted ==
  (Returned /\ prob.maxiter >= 1 /\ Len(Rejects(hist)) >= 1 /\ \A k \in DOMAIN hist : hist[k].st = 0) =>
     LET r == Rejects(hist)[1] IN
       /\ SureBeyond(prob, r.mask, r.z) \cap work = {}
       /\ (r.rej # {} => (Len(Fits(hist)) >= 2 /\ curveOf \cap r.rej = {}))
=============================================================================
