------------------------------- MODULE Mangle -------------------------------
(***************************************************************************)
(* C12 - Mangle caps, polygons, windows, use-masks and storage forms.      *)
(*                                                                         *)
(* Geometry is exact: a point / cap centre is a triple of rationals        *)
(* (Rat.tla, <<num, den>> in lowest terms) of unit length, cm is a         *)
(* rational.  A cap is [x, cm]; a polygon is [caps, use] where caps is a   *)
(* sequence of caps and use is the use-mask as the SET of its set bit      *)
(* positions (bit k belongs to the cap number k, counted from 0).  A       *)
(* window is a sequence of polygons.  Nothing here is taken from pydl's    *)
(* code: the definitions are the ones of the property statement and of the *)
(* Mangle / idlutils documentation.                                        *)
(*                                                                         *)
(* Points exactly on a cap's boundary (1 - x.p = |cm|) are not decided by  *)
(* the property; every membership operator therefore also comes in an      *)
(* "Allowed" form that returns the SET of admissible answers.              *)
(***************************************************************************)
EXTENDS Rat, FiniteSets

Vec(a, b, c, d) == << R(a, d), R(b, d), R(c, d) >>
NegV(v) == << Neg(v[1]), Neg(v[2]), Neg(v[3]) >>
IsUnit(v) == Dot(v, v) = One
MkCap(x, cm) == [x |-> x, cm |-> cm]

(* ---- one cap ---- *)
(* x.p for 3-vectors with a single normalisation (Rat!Dot normalises after each of its six   *)
(* operations; MC_Mangle checks that the two agree).  No 32-bit overflow while every          *)
(* denominator is <= MaxDen: each of the three terms is at most (MaxDen^2)^3 in magnitude.    *)
MaxDen == 25
Dot3(x, p) ==
  LET n1 == x[1][1] * p[1][1]  d1 == x[1][2] * p[1][2]
      n2 == x[2][1] * p[2][1]  d2 == x[2][2] * p[2][2]
      n3 == x[3][1] * p[3][1]  d3 == x[3][2] * p[3][2]
  IN Norm(n1 * (d2 * d3) + n2 * (d1 * d3) + n3 * (d1 * d2), d1 * (d2 * d3))
DenOK(v) == v[1][2] <= MaxDen /\ v[2][2] <= MaxDen /\ v[3][2] <= MaxDen
(* d = 1 - x.p, written on the normal form of x.p directly (num and den stay coprime) *)
OneMinusDot(x, p) == LET d == Dot3(x, p) IN << d[2] - d[1], d[2] >>
OnBoundaryD(cm, d) == d = RAbs(cm)
InCapD(cm, d) == IF Le(Zero, cm) THEN Le(d, cm) ELSE Lt(Neg(cm), d)
OnBoundary(cap, p) == OnBoundaryD(cap.cm, OneMinusDot(cap.x, p))
InCap(cap, p) == InCapD(cap.cm, OneMinusDot(cap.x, p))
CapAllowed(cap, p) == LET d == OneMinusDot(cap.x, p) IN
                      IF OnBoundaryD(cap.cm, d) THEN BOOLEAN ELSE {InCapD(cap.cm, d)}
AtPole(cap, p) == Dot3(cap.x, p) \in {One, Neg(One)}      \* p is the centre or its antipode

(* ---- one polygon; n = 0 means "all caps", n > 0 "only the first n caps" ---- *)
NCaps(poly) == Len(poly.caps)
UseN(poly, n) == IF n > 0 /\ n < NCaps(poly) THEN n ELSE NCaps(poly)
UsedCaps(poly, n) == {k \in 1..UseN(poly, n) : (k - 1) \in poly.use}
InPolygon(poly, p, n) == \A k \in UsedCaps(poly, n) : InCap(poly.caps[k], p)
PolyAllowed(poly, p, n) ==
  LET U == UsedCaps(poly, n)
      A == [k \in U |-> CapAllowed(poly.caps[k], p)]
  IN IF \E k \in U : A[k] = {FALSE} THEN {FALSE}
     ELSE IF \A k \in U : A[k] = {TRUE} THEN {TRUE} ELSE BOOLEAN
FullMask(poly) == poly.use = 0..(NCaps(poly) - 1)
Truncate(poly, n) == [caps |-> SubSeq(poly.caps, 1, UseN(poly, n)), use |-> poly.use]

(* ---- window: index (from 0) of the first polygon in list order containing p, else -1 ---- *)
InWindow(polys, p, n) ==
  IF \E k \in DOMAIN polys : InPolygon(polys[k], p, n)
  THEN (CHOOSE k \in DOMAIN polys : InPolygon(polys[k], p, n) /\
                                   \A j \in 1..(k - 1) : ~InPolygon(polys[j], p, n)) - 1
  ELSE -1
WindowAllowed(polys, p, n) ==
  {k - 1 : k \in {k \in DOMAIN polys : /\ TRUE \in PolyAllowed(polys[k], p, n)
                                       /\ \A j \in 1..(k - 1) : FALSE \in PolyAllowed(polys[j], p, n)}}
  \cup (IF \A j \in DOMAIN polys : FALSE \in PolyAllowed(polys[j], p, n) THEN {-1} ELSE {})

(* ---- selecting caps by an index list ---- *)
(* Two caps are duplicates when they have the same centre and the same cm, or (unless     *)
(* negative doubles are allowed) the same centre and cm of equal magnitude and opposite    *)
(* sign.  Caps with the same centre and different magnitudes are NOT duplicates.           *)
Dup(a, b, allowNeg) == a.x = b.x /\ (a.cm = b.cm \/ (~allowNeg /\ a.cm = Neg(b.cm)))
IdxSet(idx) == {idx[i] : i \in DOMAIN idx}
SetUseCaps(poly, idx, add, allowDoubles, allowNeg) ==
  LET sel == (IF add THEN poly.use ELSE {}) \cup IdxSet(idx)
      n == NCaps(poly)
      later == {j \in sel : j < n /\ \E i \in sel : i < j /\ Dup(poly.caps[i + 1], poly.caps[j + 1], allowNeg)}
  IN IF allowDoubles THEN sel ELSE sel \ later

(* ---- the three storage forms, as data ---- *)
(* .ply text: one header line per polygon with the cap count, then one line per cap        *)
(* "x y z cm"; there is no use-mask, every cap is used.                                     *)
PlyForm(polys) ==
  [k \in DOMAIN polys |->
     [id |-> k - 1, ncaps |-> NCaps(polys[k]),
      lines |-> [j \in 1..NCaps(polys[k]) |->
                   << polys[k].caps[j].x[1], polys[k].caps[j].x[2], polys[k].caps[j].x[3], polys[k].caps[j].cm >>]]]
PlyDenote(ply) ==
  [k \in DOMAIN ply |->
     [caps |-> [j \in 1..ply[k].ncaps |-> MkCap(<< ply[k].lines[j][1], ply[k].lines[j][2], ply[k].lines[j][3] >>,
                                                 ply[k].lines[j][4])],
      use |-> 0..(ply[k].ncaps - 1)]]

(* FITS polygon table: one row per polygon, XCAPS / CMCAPS padded with zeros to the largest *)
(* cap count of the table, NCAPS, USE_CAPS.                                                  *)
RECURSIVE MaxLen(_)
MaxLen(polys) == IF polys = <<>> THEN 0
                 ELSE LET m == MaxLen(Tail(polys)) IN IF NCaps(Head(polys)) > m THEN NCaps(Head(polys)) ELSE m
ZeroVec == << Zero, Zero, Zero >>
FitsForm(polys) ==
  LET m == MaxLen(polys) IN
  [k \in DOMAIN polys |->
     [XCAPS |-> [j \in 1..m |-> IF j <= NCaps(polys[k]) THEN polys[k].caps[j].x ELSE ZeroVec],
      CMCAPS |-> [j \in 1..m |-> IF j <= NCaps(polys[k]) THEN polys[k].caps[j].cm ELSE Zero],
      NCAPS |-> NCaps(polys[k]), USE_CAPS |-> polys[k].use]]
FitsDenote(rows) ==
  [k \in DOMAIN rows |->
     [caps |-> [j \in 1..rows[k].NCAPS |-> MkCap(rows[k].XCAPS[j], rows[k].CMCAPS[j])],
      use |-> rows[k].USE_CAPS]]

(* window_blist / window_bcaps: all caps in one table (bcaps), one row per polygon in blist *)
(* with the offset ICAP of its first cap and NCAPS; every cap is used.  `order` is the       *)
(* order in which the polygons' caps were stored (a permutation of DOMAIN polys).            *)
RECURSIVE CapsBefore(_, _, _)
CapsBefore(polys, order, k) ==         \* number of caps stored before those of polygon k
  IF order = <<>> \/ Head(order) = k THEN 0
  ELSE NCaps(polys[Head(order)]) + CapsBefore(polys, Tail(order), k)
RECURSIVE ConcatCaps(_, _)
ConcatCaps(polys, order) ==
  IF order = <<>> THEN <<>>
  ELSE [j \in 1..NCaps(polys[Head(order)]) |->
           [X |-> polys[Head(order)].caps[j].x, CM |-> polys[Head(order)].caps[j].cm]]
       \o ConcatCaps(polys, Tail(order))
BalkanForm(polys, order) ==
  [blist |-> [k \in DOMAIN polys |-> [ICAP |-> CapsBefore(polys, order, k), NCAPS |-> NCaps(polys[k])]],
   bcaps |-> ConcatCaps(polys, order)]
BalkanDenote(b) ==
  [k \in DOMAIN b.blist |->
     [caps |-> [j \in 1..b.blist[k].NCAPS |-> MkCap(b.bcaps[b.blist[k].ICAP + j].X, b.bcaps[b.blist[k].ICAP + j].CM)],
      use |-> 0..(b.blist[k].NCAPS - 1)]]

(* Remark (values only).  Every operator above is a function of the VALUES of its arguments: *)
(* a point, a centre, a cm, an index list or a use-mask has no other attribute in this        *)
(* specification.  The outcome demanded of the code is therefore the same whatever the memory *)
(* layout of the arrays that carry these values (read-only, strided / Fortran-ordered views,  *)
(* 0-d arrays for scalars, byte-swapped data as it comes out of a FITS file), whatever their  *)
(* numeric type when the values are integral (an axis vector, whole degrees, cm in {0, +-1,  *)
(* +-2}, a mask, ncaps or an index list held in int8..int64, uint8..uint64 or a Python int:   *)
(* the integer 1 and the rational <<1, 1>> are the same value here) and whatever the          *)
(* decimal spelling of a number in a .ply line (5e-05, 5E-05, +.00005, trailing ".", blanks   *)
(* or tabs between the fields): PlyForm fixes the numbers on a line, not their spelling.      *)
(* The harness rotates layouts and spellings over the cases; the expected value of a case is  *)
(* TLC's value for c and does not mention them (MC_Mangle: exp is a function of c alone).     *)

(* ---- laws ---- *)
EmptyContainsAll(poly, p, n) == UsedCaps(poly, n) = {} => InPolygon(poly, p, n)
FirstNIgnoresRest(poly, p, n) == InPolygon(poly, p, n) = InPolygon(Truncate(poly, n), p, 0)
BitsBeyondIgnored(poly, p, n) ==
  InPolygon(poly, p, n) = InPolygon([poly EXCEPT !.use = @ \cap (0..(UseN(poly, n) - 1))], p, 0)
CentreInsidePositiveCap(cap) == Lt(Zero, cap.cm) => (InCap(cap, cap.x) /\ CapAllowed(cap, cap.x) = {TRUE})
CentreOutsideNegativeCap(cap) == Lt(cap.cm, Zero) => (~InCap(cap, cap.x) /\ CapAllowed(cap, cap.x) = {FALSE})
ComplementCap(cap, p) == (cap.cm # Zero /\ ~OnBoundary(cap, p)) =>
                            InCap(MkCap(cap.x, Neg(cap.cm)), p) = ~InCap(cap, p)
FirstMatchIsFirst(polys, p, n) ==
  LET w == InWindow(polys, p, n) IN
  /\ w \in (-1)..(Len(polys) - 1)
  /\ w = -1 => \A k \in DOMAIN polys : ~InPolygon(polys[k], p, n)
  /\ w >= 0 => (InPolygon(polys[w + 1], p, n) /\ \A j \in 1..w : ~InPolygon(polys[j], p, n))
  /\ w \in WindowAllowed(polys, p, n)
UseCapsExactlyListed(poly, idx, add, allowDoubles, allowNeg) ==
  LET r == SetUseCaps(poly, idx, add, allowDoubles, allowNeg)
      sel == (IF add THEN poly.use ELSE {}) \cup IdxSet(idx)
      n == NCaps(poly)
  IN /\ r \subseteq sel
     /\ allowDoubles => r = sel
     /\ \A j \in sel \ r : j < n /\ \E i \in r : i < j /\ Dup(poly.caps[i + 1], poly.caps[j + 1], allowNeg)
     /\ ~allowDoubles => \A i, j \in r : (i < j /\ j < n) => ~Dup(poly.caps[i + 1], poly.caps[j + 1], allowNeg)
FormsAgree(polys, order) ==
  /\ FitsDenote(FitsForm(polys)) = polys
  /\ (\A k \in DOMAIN polys : FullMask(polys[k])) =>
        (PlyDenote(PlyForm(polys)) = polys /\ BalkanDenote(BalkanForm(polys, order)) = polys)

(* ---- named deviations (what the code was seen to do; see DESIGN.md section 6) ---- *)
(* D-C12-2: the angular distance is computed with arccos(x.p); when the floating point dot   *)
(* product of the point with a cap centre lands an ulp outside [-1, 1] the result is NaN and *)
(* the point is reported outside that cap.  This can only happen where x.p = +-1 exactly     *)
(* (the point is the centre or its antipode), and whether it happens depends on rounding:    *)
(* the deviation ADMITS the answer FALSE from such a cap in addition to the specified one.   *)
CapAllowedD(cap, p, dev) == CapAllowed(cap, p) \cup (IF dev /\ AtPole(cap, p) THEN {FALSE} ELSE {})
PolyAllowedD(poly, p, n, dev) ==
  LET U == UsedCaps(poly, n) IN
  (IF \A k \in U : TRUE \in CapAllowedD(poly.caps[k], p, dev) THEN {TRUE} ELSE {}) \cup
  (IF \E k \in U : FALSE \in CapAllowedD(poly.caps[k], p, dev) THEN {FALSE} ELSE {})
WindowAllowedD(polys, p, n, dev) ==
  {k - 1 : k \in {k \in DOMAIN polys : /\ TRUE \in PolyAllowedD(polys[k], p, n, dev)
                                       /\ \A j \in 1..(k - 1) : FALSE \in PolyAllowedD(polys[j], p, n, dev)}}
  \cup (IF \A j \in DOMAIN polys : FALSE \in PolyAllowedD(polys[j], p, n, dev) THEN {-1} ELSE {})
(* with the deviation switched off these are the specified sets *)
DevOffIsSpec(poly, p, n) == PolyAllowedD(poly, p, n, FALSE) = PolyAllowed(poly, p, n)
WindowDevOffIsSpec(polys, p, n) == WindowAllowedD(polys, p, n, FALSE) = WindowAllowed(polys, p, n)

(* D-C12-1: the loop over the index list uses each ELEMENT as a position in the list       *)
(* (index_list[index_list[k]]): IndexError when an element is >= the list length.          *)
Dev_IndexOfIndexSel(idx) ==
  IF \E i \in DOMAIN idx : idx[i] >= Len(idx) THEN [err |-> TRUE, sel |-> {}]
  ELSE [err |-> FALSE, sel |-> {idx[idx[i] + 1] : i \in DOMAIN idx}]
(* D-C12-3: the "negative double" test is cm_i + cm_j < tol without an absolute value, so  *)
(* any later cap with the same centre and cm_i + cm_j <= 0 is dropped; the relation is not *)
(* transitive, so the sequential order of the code matters.                                 *)
DupNoAbs(a, b, allowNeg) == a.x = b.x /\ (a.cm = b.cm \/ (~allowNeg /\ Le(Add(a.cm, b.cm), Zero)))
RECURSIVE DedupeSeq(_, _, _, _, _)
DedupeSeq(poly, use, i, allowNeg, noAbs) ==
  IF i >= NCaps(poly) THEN use
  ELSE DedupeSeq(poly,
                 IF i \in use
                 THEN use \ {j \in use : /\ j > i /\ j < NCaps(poly)
                                         /\ IF noAbs THEN DupNoAbs(poly.caps[i + 1], poly.caps[j + 1], allowNeg)
                                            ELSE Dup(poly.caps[i + 1], poly.caps[j + 1], allowNeg)}
                 ELSE use,
                 i + 1, allowNeg, noAbs)
Dev_SetUseCaps(poly, idx, add, allowDoubles, allowNeg, idxBug, absBug) ==
  LET s == IF idxBug THEN Dev_IndexOfIndexSel(idx) ELSE [err |-> FALSE, sel |-> IdxSet(idx)]
      sel == (IF add THEN poly.use ELSE {}) \cup s.sel
  IN IF s.err THEN [err |-> TRUE, use |-> {}]
     ELSE [err |-> FALSE,
           use |-> IF allowDoubles THEN sel
                   ELSE DedupeSeq(poly, sel, 0, allowNeg, absBug)]
(* the sequential formulation with the correct duplicate relation is the declarative one *)
SeqIsDeclarative(poly, idx, add, allowNeg) ==
  DedupeSeq(poly, (IF add THEN poly.use ELSE {}) \cup IdxSet(idx), 0, allowNeg, FALSE)
    = SetUseCaps(poly, idx, add, FALSE, allowNeg)
=============================================================================
