---------------------------- MODULE MiscUtils ----------------------------
(***************************************************************************)
(* X02 - small utilities (growth unit; no listed property covers them).    *)
(*                                                                         *)
(* Behavioural statements decided (each quantified over the whole domain   *)
(* named; sources: the docstrings/doctests of pydl, the IDL routines they  *)
(* name, pydl's own tests as examples of the documented behaviour):        *)
(*                                                                         *)
(* S1 find_contiguous(x), x 1-D with at least one non-zero element,        *)
(*    returns the list of the (0-based, consecutive) indices of a LONGEST  *)
(*    run of contiguous non-zero elements.  The docstring does not say     *)
(*    which of several equally long runs is returned, nor what happens     *)
(*    when no element is non-zero: both are left open.                     *)
(* S2 cirrange(ang [, radians]) returns the angle in [0, 360) - [0, 2pi)   *)
(*    with radians=True - that differs from ang by a whole number of       *)
(*    turns ("convert an angle larger than 360 degrees to one less than    *)
(*    360 degrees"); scalars and arrays alike; negative input included     *)
(*    (doctest cirrange(-270.0) = 90.0).                                   *)
(* S3 hogg_iau_name(ra, dec, prefix, precision), 0 <= ra < 360,            *)
(*    -90 <= dec <= 90, precision p >= 0, returns                          *)
(*    prefix + (" J" | "J" if prefix is empty) + HHMMSS.s{p+1} + sign +    *)
(*    DDMMSS[.s{p}], every field zero padded, the last digit TRUNCATED     *)
(*    (IAU convention, never rounded): the printed cell contains the       *)
(*    coordinate.  A float argument gives a str, arrays give a list with   *)
(*    one name per element.                                                *)
(* S4 djs_laxisgen(dims, iaxis) / djs_laxisnum(dims, iaxis): an int32      *)
(*    array of shape dims whose every element equals its own index along   *)
(*    axis iaxis, for every shape of rank 1..3 and every axis; ValueError  *)
(*    when iaxis >= rank (both docstrings) or rank > 3 (djs_laxisnum).     *)
(*    For rank 1 djs_laxisnum returns zeros (IDL djs_laxisnum, and the     *)
(*    docstring's "for two or more dimensions there is no difference").    *)
(*    Negative iaxis, and rank > 3 for djs_laxisgen, are left open.        *)
(* S5 struct_print(array, ...) text form: (lines, []); unless no_head the  *)
(*    first line holds the (aliased) column names left-justified in the    *)
(*    column width and the second the same widths in dashes; then one line *)
(*    per record, fields joined by one blank, integers right-justified in  *)
(*    the width of the longest printed value or the name, byte strings     *)
(*    left-justified in max(declared length, name), floats as %g with      *)
(*    fdigit (f4) / ddigit (f8) significant digits right-justified in      *)
(*    that precision + 6 (+ 1 if the column has a negative value)          *)
(*    [doctest + pydl tests].  html form: "<table>", a <tr><th> header row *)
(*    of the (aliased) names, one <tr><td> row per record, "</table>", and *)
(*    a non-empty <style> ... </style> css list; blanks around a cell's    *)
(*    text are insignificant in html.  no_head=True prints no header line  *)
(*    (parameter doc; no exception is made for html).  With filename the   *)
(*    lines, each followed by a newline, are written to that file.         *)
(* S6 file_lines(path [, compress]) returns the number of lines of the     *)
(*    file (IDL FILE_LINES): the number of newline characters, plus one if *)
(*    the file ends in an unterminated line; 0 for an empty file; the same *)
(*    for gzip files with compress=True; a list of paths gives the list of *)
(*    counts in the same order.                                            *)
(* S7 djs_median(array) is numpy.median of all elements (the mean of the   *)
(*    two middle elements for an even count - NOT the IDL median of C14);  *)
(*    djs_median(array, dimension=d) is the median along axis d (shape     *)
(*    without that axis); width=1 returns the array; giving both dimension *)
(*    and width is an error (ValueError).                                  *)
(* S8 read_ds_cooling(fname): ValueError unless fname is one of the eight  *)
(*    documented names; without logT returns the (log T, log lambda net)   *)
(*    columns of the packaged table; with logT returns (logT, loglambda)   *)
(*    with loglambda "interpolated to the provided values": piecewise      *)
(*    linear between neighbouring table nodes (outside the table: open).   *)
(*                                                                         *)
(* Values: integers, exact rationals (Rat: <<num, den>>), text as          *)
(* sequences of string pieces (one-character strings wherever character    *)
(* level behaviour matters; html tags are single pieces).                  *)
(***************************************************************************)
EXTENDS Integers, Sequences, FiniteSets, Rat

(* ------------------------------ text helpers ------------------------------ *)
DigitCh == <<"0", "1", "2", "3", "4", "5", "6", "7", "8", "9">>
RECURSIVE Digits(_)
Digits(v) == IF v < 10 THEN <<DigitCh[v + 1]>> ELSE Digits(v \div 10) \o <<DigitCh[(v % 10) + 1]>>
RECURSIVE ZPad(_, _)                     \* v in exactly w digits, leading zeros (v < 10^w)
ZPad(v, w) == IF w = 0 THEN <<>> ELSE ZPad(v \div 10, w - 1) \o <<DigitCh[(v % 10) + 1]>>
Rep(ch, n) == [k \in 1 .. n |-> ch]
IntText(v) == IF v < 0 THEN <<"-">> \o Digits(-v) ELSE Digits(v)
PadL(s, w) == Rep(" ", w - Len(s)) \o s          \* right-justify
PadR(s, w) == s \o Rep(" ", w - Len(s))          \* left-justify
DigitVal(ch) == (CHOOSE k \in 1 .. 10 : DigitCh[k] = ch) - 1
IsDigit(ch) == \E k \in 1 .. 10 : DigitCh[k] = ch
RECURSIVE NumOf(_)
NumOf(s) == IF s = <<>> THEN 0 ELSE 10 * NumOf(SubSeq(s, 1, Len(s) - 1)) + DigitVal(s[Len(s)])
RECURSIVE Concat(_)
Concat(ss) == IF ss = <<>> THEN <<>> ELSE ss[1] \o Concat(Tail(ss))
RECURSIVE JoinWith(_, _)
JoinWith(ss, sep) == IF ss = <<>> THEN <<>> ELSE IF Len(ss) = 1 THEN ss[1] ELSE ss[1] \o sep \o JoinWith(Tail(ss), sep)
MaxOf(S) == CHOOSE m \in S : \A y \in S : y <= m
MinOf(S) == CHOOSE m \in S : \A y \in S : m <= y
Pow10(p) == 10 ^ p

(* ------------------------------ array helpers ------------------------------ *)
RECURSIVE Prod(_)
Prod(d) == IF d = <<>> THEN 1 ELSE d[1] * Prod(Tail(d))
(* row-major (C order, numpy): the last axis varies fastest *)
Stride(shape, j) == Prod(SubSeq(shape, j + 1, Len(shape)))
Unravel(k, shape) == [j \in 1 .. Len(shape) |-> (k \div Stride(shape, j)) % shape[j]]      \* 0-based k
RECURSIVE RavelFrom(_, _, _)
RavelFrom(idx, shape, j) == IF j > Len(shape) THEN 0 ELSE idx[j] * Stride(shape, j) + RavelFrom(idx, shape, j + 1)
Ravel(idx, shape) == RavelFrom(idx, shape, 1)
DelAt(s, j) == SubSeq(s, 1, j - 1) \o SubSeq(s, j + 1, Len(s))
InsAt(s, j, v) == SubSeq(s, 1, j - 1) \o <<v>> \o SubSeq(s, j, Len(s))

(* =========================== S1 find_contiguous =========================== *)
NZ(x) == {k \in DOMAIN x : x[k] # 0}
IsRun(x, s, e) == s <= e /\ (s .. e) \subseteq NZ(x) /\ (s - 1) \notin NZ(x) /\ (e + 1) \notin NZ(x)
Runs(x) == {se \in (DOMAIN x) \X (DOMAIN x) : IsRun(x, se[1], se[2])}
RunLen(se) == se[2] - se[1] + 1
LongestRuns(x) == {se \in Runs(x) : \A t \in Runs(x) : RunLen(t) <= RunLen(se)}
IdxSeq(se) == [k \in 1 .. RunLen(se) |-> se[1] + k - 2]           \* 0-based indices
(* open = the documentation does not determine the outcome; otherwise the result must be a member of val *)
ContigExpected(x) ==
  IF NZ(x) = {} THEN [open |-> TRUE, val |-> {}]
  ELSE [open |-> FALSE, val |-> {IdxSeq(se) : se \in LongestRuns(x)}]
(* laws *)
ContigRunsPartition(x) == /\ UNION {se[1] .. se[2] : se \in Runs(x)} = NZ(x)
                          /\ \A a, b \in Runs(x) : a # b => (a[1] .. a[2]) \cap (b[1] .. b[2]) = {}
ContigResultIsNonzeroStretch(x) ==
  \A r \in ContigExpected(x).val :
     /\ Len(r) >= 1
     /\ \A k \in DOMAIN r : x[r[k] + 1] # 0
     /\ \A k \in 1 .. (Len(r) - 1) : r[k + 1] = r[k] + 1
ContigNothingLonger(x) ==            \* phrased over ALL index intervals, not over runs
  \A r \in ContigExpected(x).val :
     \A s, e \in DOMAIN x : (s <= e /\ (s .. e) \subseteq NZ(x)) => e - s + 1 <= Len(r)
ContigMirror(x) ==                   \* reading the array backwards finds runs of the same length
  LET y == [k \in DOMAIN x |-> x[Len(x) + 1 - k]]
  IN {Len(r) : r \in ContigExpected(x).val} = {Len(r) : r \in ContigExpected(y).val}

(* =============================== S2 cirrange =============================== *)
(* x and P exact rationals; the specified value is x - P * floor(x / P)      *)
Wrap(x, P) == Sub(x, Mul(P, OfInt(Floor(Div(x, P)))))
Deg360 == <<360, 1>>
WrapInRange(x, P) == Le(Zero, Wrap(x, P)) /\ Lt(Wrap(x, P), P)
WrapCongruent(x, P) == IsInt(Div(Sub(x, Wrap(x, P)), P))
WrapUnique(x, P) ==                 \* the only member of [0, P) congruent to x: shifting by a turn leaves the range
  ~(Le(Zero, Add(Wrap(x, P), P)) /\ Lt(Add(Wrap(x, P), P), P)) /\ ~Le(Zero, Sub(Wrap(x, P), P))
WrapIdempotent(x, P) == Wrap(Wrap(x, P), P) = Wrap(x, P)
WrapPeriodic(x, P) == Wrap(Add(x, P), P) = Wrap(x, P) /\ Wrap(Sub(x, P), P) = Wrap(x, P)
WrapFixesRange(x, P) == (Le(Zero, x) /\ Lt(x, P)) => Wrap(x, P) = x
(* the call: degrees -> exact value in degrees (dyadic inputs: float arithmetic is exact);          *)
(* radians -> the angle is given in TURNS (ang = turns * 2 pi) and so is the specified value, the   *)
(* harness compares on the circle within rounding; "tinydeg" / "tinyrad": ang = sign * 2^-k, far     *)
(* below the resolution of the period, the specified value is congruent to 0 within rounding.  In    *)
(* every case the returned float must lie in [0, period).                                            *)
CirExpected(c) ==
  IF c.kind = "deg" THEN [cmp |-> "exact", val |-> Wrap(c.x, Deg360)]
  ELSE IF c.kind = "turns" THEN [cmp |-> "circle", val |-> Wrap(c.x, One)]
  ELSE [cmp |-> "circle", val |-> Zero]
(* D-X02-2: the float remainder of a negative angle below the resolution of the period rounds to the period itself *)
Dev_CirTinyNegativeGivesPeriod(c) == c.kind \in {"tinydeg", "tinyrad"} /\ c.sign < 0

(* ============================ S3 hogg_iau_name ============================ *)
(* floor(q * k) for a rational q >= 0 and an integer k > 0, cancelling first (32-bit integers) *)
MulFloor(q, k) == LET g == GCD(k, q[2]) IN (q[1] * (k \div g)) \div (q[2] \div g)
(* the coordinate in units of the last printed digit, truncated *)
RaUnits(ra, p) == MulFloor(ra, 240 * Pow10(p + 1))           \* 1 degree = 240 seconds of time
DecUnits(dec, p) == MulFloor(RAbs(dec), 3600 * Pow10(p))
Sexa(t, u, nfrac) ==                 \* t units, u units per second
  LET s == t \div u
  IN ZPad(s \div 3600, 2) \o ZPad((s \div 60) % 60, 2) \o ZPad(s % 60, 2) \o
     (IF nfrac = 0 THEN <<>> ELSE <<".">> \o ZPad(t % u, nfrac))
RaText(t, p) == Sexa(t, Pow10(p + 1), p + 1)
DecText(t, p) == Sexa(t, Pow10(p), p)
JPart(prefix) == IF prefix = <<>> THEN <<"J">> ELSE <<" ", "J">>
NameOfUnits(tr, td, neg, prefix, p) ==
  prefix \o JPart(prefix) \o RaText(tr, p) \o <<IF neg THEN "-" ELSE "+">> \o DecText(td, p)
IauName(ra, dec, prefix, p) == NameOfUnits(RaUnits(ra, p), DecUnits(dec, p), dec[1] < 0, prefix, p)
IauDefined(ra, dec, p) == Le(Zero, ra) /\ Lt(ra, Deg360) /\ Le(RAbs(dec), <<90, 1>>) /\ p >= 0
(* laws *)
IauLength(ra, dec, prefix, p) ==
  Len(IauName(ra, dec, prefix, p)) = Len(prefix) + Len(JPart(prefix)) + (6 + 1 + p + 1) + 1 + 6 + (IF p = 0 THEN 0 ELSE p + 1)
(* read the digits back (independently of how they were produced): the cell they name contains the coordinate *)
ReadSexa(s, nfrac) ==                \* s = HHMMSS[.f...] -> units of the last digit
  LET secs == (NumOf(SubSeq(s, 1, 2)) * 60 + NumOf(SubSeq(s, 3, 4))) * 60 + NumOf(SubSeq(s, 5, 6))
  IN IF nfrac = 0 THEN secs ELSE secs * Pow10(nfrac) + NumOf(SubSeq(s, 8, 7 + nfrac))
CellHolds(q, t, k) ==                \* t <= q * k < t + 1, exact, cancelling first
  LET g == GCD(k, q[2])
      a == q[1] * (k \div g)
      b == q[2] \div g
  IN t * b <= a /\ a < (t + 1) * b
IauCellContainsCoordinate(ra, dec, prefix, p) ==
  LET nm == IauName(ra, dec, prefix, p)
      o == Len(prefix) + Len(JPart(prefix))
      rs == SubSeq(nm, o + 1, o + 8 + p)
      sg == nm[o + 9 + p]
      ds == SubSeq(nm, o + 10 + p, Len(nm))
  IN /\ CellHolds(ra, ReadSexa(rs, p + 1), 240 * Pow10(p + 1))
     /\ CellHolds(RAbs(dec), ReadSexa(ds, p), 3600 * Pow10(p))
     /\ sg = (IF dec[1] < 0 THEN "-" ELSE "+")
     /\ NumOf(SubSeq(rs, 1, 2)) < 24 /\ NumOf(SubSeq(rs, 3, 4)) < 60 /\ NumOf(SubSeq(rs, 5, 6)) < 60
     /\ NumOf(SubSeq(ds, 1, 2)) <= 90 /\ NumOf(SubSeq(ds, 3, 4)) < 60 /\ NumOf(SubSeq(ds, 5, 6)) < 60
(* truncation composes over precisions (rounding would not): dropping the last digit of the name at p + 1 gives the name at p *)
IauPrecisionNested(ra, dec, p) ==
  RaUnits(ra, p) = RaUnits(ra, p + 1) \div 10 /\ DecUnits(dec, p) = DecUnits(dec, p + 1) \div 10
(* D-X02-3: when the right ascension lies exactly on a boundary of the last printed digit, the float  *)
(* computation (ra / 15 is inexact) prints the cell below: last digit one unit low.                    *)
RaOnBoundary(ra, p) == LET k == 240 * Pow10(p + 1)
                           g == GCD(k, ra[2]) IN ra[2] \div g = 1
Dev_IauRaCellBelow(ra, dec, prefix, p) ==
  IF RaOnBoundary(ra, p) /\ RaUnits(ra, p) > 0
  THEN NameOfUnits(RaUnits(ra, p) - 1, DecUnits(dec, p), dec[1] < 0, prefix, p)
  ELSE <<>>

(* ======================= S4 djs_laxisgen / djs_laxisnum ======================= *)
LaxisVal(dims, ax) == [k \in 1 .. Prod(dims) |-> Unravel(k - 1, dims)[ax + 1]]        \* ax 0-based
LaxisErr == [out |-> "err", shape |-> <<>>, val |-> <<>>, dtype |-> ""]
LaxisOpen == [out |-> "open", shape |-> <<>>, val |-> <<>>, dtype |-> ""]
LaxisExpected(fn, dims, iaxis) ==
  IF iaxis >= Len(dims) THEN LaxisErr
  ELSE IF Len(dims) > 3 THEN (IF fn = "laxisnum" THEN LaxisErr ELSE LaxisOpen)
  ELSE IF iaxis < 0 THEN LaxisOpen
  ELSE [out |-> "val", shape |-> dims, dtype |-> "int32",
        val |-> IF Len(dims) = 1 /\ fn = "laxisnum" THEN [k \in 1 .. dims[1] |-> 0] ELSE LaxisVal(dims, iaxis)]
(* laws *)
LaxisEveryIndexEquallyOften(dims, ax) ==     \* each index 0..dims[ax]-1 occurs in exactly prod(other dims) places
  \A v \in 0 .. (dims[ax + 1] - 1) :
     Cardinality({k \in 1 .. Prod(dims) : LaxisVal(dims, ax)[k] = v}) = Prod(DelAt(dims, ax + 1))
LaxisConstantAcrossOtherAxes(dims, ax) ==    \* moving along any other axis does not change the value
  \A k \in 1 .. Prod(dims) : \A j \in 1 .. Len(dims) :
     LET idx == Unravel(k - 1, dims) IN
     (j # ax + 1 /\ idx[j] + 1 < dims[j]) =>
        LaxisVal(dims, ax)[Ravel([idx EXCEPT ![j] = @ + 1], dims) + 1] = LaxisVal(dims, ax)[k]
LaxisStepsAlongAxis(dims, ax) ==
  \A k \in 1 .. Prod(dims) :
     LET idx == Unravel(k - 1, dims) IN
     /\ (idx[ax + 1] = 0) => LaxisVal(dims, ax)[k] = 0
     /\ (idx[ax + 1] + 1 < dims[ax + 1]) =>
          LaxisVal(dims, ax)[Ravel([idx EXCEPT ![ax + 1] = @ + 1], dims) + 1] = LaxisVal(dims, ax)[k] + 1
LaxisGenNumAgree(dims, iaxis) == Len(dims) \in 2 .. 3 => LaxisExpected("laxisgen", dims, iaxis) = LaxisExpected("laxisnum", dims, iaxis)
(* D-X02-1: for rank 1 the axis argument is never looked at: iaxis >= 1 is accepted (documented: ValueError) *)
Dev_Laxis1DAxisUnchecked(fn, dims, iaxis) ==
  IF Len(dims) = 1 /\ iaxis >= 1 THEN LaxisExpected(fn, dims, 0) ELSE LaxisExpected(fn, dims, iaxis)

(* ============================== S5 struct_print ============================== *)
(* a column: [name (chars), kind "i" | "s" | "f4" | "f8", vals, slen]                                  *)
(*   "i": vals integers; "s": vals byte strings (chars, no blanks, length <= slen = declared length);  *)
(*   "f4"/"f8": vals integers h meaning h / 100, |h| <= 99999 (at most five significant digits, so %g *)
(*   with the default precisions 5 / 7 prints the decimal expansion without trailing zeros)             *)
GText(h) ==
  LET a == Abs(h)
      fr == a % 100
      frac == IF fr = 0 THEN <<>> ELSE IF fr % 10 = 0 THEN <<".", DigitCh[(fr \div 10) + 1]>> ELSE <<".">> \o ZPad(fr, 2)
  IN (IF h < 0 THEN <<"-">> ELSE <<>>) \o Digits(a \div 100) \o frac
FDigit == 5
DDigit == 7
ValText(col, r) == CASE col.kind = "i" -> IntText(col.vals[r])
                     [] col.kind = "s" -> col.vals[r]
                     [] OTHER -> GText(col.vals[r])
ColWidth(col) ==
  CASE col.kind = "i" -> MaxOf({Len(col.name)} \cup {Len(IntText(col.vals[r])) : r \in DOMAIN col.vals})
    [] col.kind = "s" -> MaxOf({Len(col.name), col.slen})
    [] OTHER -> (IF col.kind = "f8" THEN DDigit ELSE FDigit) + 6 + (IF \E r \in DOMAIN col.vals : col.vals[r] < 0 THEN 1 ELSE 0)
Cell(col, r) == IF col.kind = "s" THEN PadR(ValText(col, r), ColWidth(col)) ELSE PadL(ValText(col, r), ColWidth(col))
Shown(col) == IF col.alias = <<>> THEN col.name ELSE col.alias          \* alias = <<>>: none given
NRows(cols) == Len(cols[1].vals)
TextLines(cols, nohead) ==
  (IF nohead THEN <<>>
   ELSE << JoinWith([j \in DOMAIN cols |-> PadR(Shown(cols[j]), ColWidth(cols[j]))], <<" ">>),
           JoinWith([j \in DOMAIN cols |-> Rep("-", ColWidth(cols[j]))], <<" ">>) >>)
  \o [r \in 1 .. NRows(cols) |-> JoinWith([j \in DOMAIN cols |-> Cell(cols[j], r)], <<" ">>)]
(* html: cell text without the surrounding blanks (insignificant in html) *)
HtmlLinesWith(cols, head) ==
  << <<"<table>">> >>
  \o (IF head THEN << <<"<tr><th>">> \o JoinWith([j \in DOMAIN cols |-> Shown(cols[j])], <<"</th><th>">>) \o <<"</th></tr>">> >>
      ELSE <<>>)
  \o [r \in 1 .. NRows(cols) |-> <<"<tr><td>">> \o JoinWith([j \in DOMAIN cols |-> ValText(cols[j], r)], <<"</td><td>">>) \o <<"</td></tr>">>]
  \o << <<"</table>">> >>
HtmlLines(cols, nohead) == HtmlLinesWith(cols, ~nohead)
PrintExpected(cols, html, nohead) ==
  [lines |-> IF html THEN HtmlLines(cols, nohead) ELSE TextLines(cols, nohead),
   css |-> IF html THEN "style" ELSE "none"]
FileOf(lines) == Concat([k \in DOMAIN lines |-> lines[k] \o <<"\n">>])
(* laws (text form) *)
PrintLineCount(cols, nohead) == Len(TextLines(cols, nohead)) = NRows(cols) + (IF nohead THEN 0 ELSE 2)
RECURSIVE SumWidths(_)
SumWidths(cols) == IF cols = <<>> THEN 0 ELSE ColWidth(cols[1]) + SumWidths(Tail(cols))
PrintRectangular(cols, nohead) ==    \* every line has the same length: the widths plus one blank between columns
  \A k \in DOMAIN TextLines(cols, nohead) : Len(TextLines(cols, nohead)[k]) = SumWidths(cols) + Len(cols) - 1
PrintColumnsSeparated(cols, nohead) ==     \* the separator positions hold a blank in every line
  \A k \in DOMAIN TextLines(cols, nohead) : \A j \in 1 .. (Len(cols) - 1) :
     TextLines(cols, nohead)[k][SumWidths(SubSeq(cols, 1, j)) + j] = " "
PrintNothingTruncated(cols) ==       \* every value's text fits its column
  \A j \in DOMAIN cols : \A r \in 1 .. NRows(cols) : Len(ValText(cols[j], r)) <= ColWidth(cols[j])
PrintHeadIsOnlyDifference(cols) == TextLines(cols, FALSE) = SubSeq(TextLines(cols, FALSE), 1, 2) \o TextLines(cols, TRUE)
(* D-X02-4: in html form no_head is ignored, the header row is always printed *)
Dev_HtmlHeadAlways(cols, html, nohead) ==
  IF html /\ nohead THEN [lines |-> HtmlLinesWith(cols, TRUE), css |-> "style"] ELSE PrintExpected(cols, html, nohead)

(* ================================ S6 file_lines ================================ *)
(* the file content as a sequence of characters; "\n" is the newline *)
NL == "\n"
LineCount(t) == Cardinality({k \in DOMAIN t : t[k] = NL}) + (IF t # <<>> /\ t[Len(t)] # NL THEN 1 ELSE 0)
(* second phrasing: cut the text into lines (each ends at a newline or at the end of the text) and count them *)
RECURSIVE SplitLines(_)
SplitLines(t) ==
  IF t = <<>> THEN <<>>
  ELSE IF \E k \in DOMAIN t : t[k] = NL
       THEN LET k == MinOf({j \in DOMAIN t : t[j] = NL}) IN <<SubSeq(t, 1, k)>> \o SplitLines(SubSeq(t, k + 1, Len(t)))
       ELSE <<t>>
LinesTwoPhrasings(t) == LineCount(t) = Len(SplitLines(t)) /\ Concat(SplitLines(t)) = t
LinesAppendLine(t) ==                \* appending a terminated line to a text that ends a line adds exactly one
  (t = <<>> \/ t[Len(t)] = NL) => LineCount(t \o <<"a", NL>>) = LineCount(t) + 1 /\ LineCount(t \o <<NL>>) = LineCount(t) + 1
LinesTerminatorOptional(t) == (t # <<>> /\ t[Len(t)] # NL) => LineCount(t \o <<NL>>) = LineCount(t)
FileLinesExpected(texts, scalar) == IF scalar THEN LineCount(texts[1]) ELSE [k \in DOMAIN texts |-> LineCount(texts[k])]

(* ================================ S7 djs_median ================================ *)
RECURSIVE Insert(_, _)
Insert(v, s) == IF s = <<>> THEN <<v>> ELSE IF v <= s[1] THEN <<v>> \o s ELSE <<s[1]>> \o Insert(v, Tail(s))
RECURSIVE SortInts(_)
SortInts(s) == IF s = <<>> THEN <<>> ELSE Insert(s[1], SortInts(Tail(s)))
MeanMedian(s) == LET t == SortInts(s)
                     n == Len(s)
                 IN IF n % 2 = 1 THEN OfInt(t[(n + 1) \div 2]) ELSE R(t[n \div 2] + t[(n \div 2) + 1], 2)
(* second phrasing, by counting: the midpoint of the interval of points that split the sample in halves *)
CountLe(s, v) == Cardinality({k \in DOMAIN s : s[k] <= v})
CountGe(s, v) == Cardinality({k \in DOMAIN s : s[k] >= v})
MedianByCounting(s) ==
  LET vals == {s[k] : k \in DOMAIN s}
      lo == MinOf({v \in vals : 2 * CountLe(s, v) >= Len(s)})
      hi == MaxOf({v \in vals : 2 * CountGe(s, v) >= Len(s)})
  IN R(lo + hi, 2)
Lane(a, shape, ax, o) == [j \in 1 .. shape[ax] |-> a[Ravel(InsAt(o, ax, j - 1), shape) + 1]]      \* ax 1-based
AxisMedian(a, shape, ax) ==
  LET os == DelAt(shape, ax)
  IN [k \in 1 .. Prod(os) |-> MeanMedian(Lane(a, shape, ax, Unravel(k - 1, os)))]
NormAxis(d, rank) == IF d < 0 THEN d + rank + 1 ELSE d + 1          \* numpy axis (negative counts from the end) -> 1-based
MedErr == [out |-> "err", shape |-> <<>>, val |-> <<>>]
MedianExpected(mode, a, shape, d) ==
  CASE mode = "all" -> [out |-> "val", shape |-> <<>>, val |-> <<MeanMedian(a)>>]
    [] mode = "axis" -> IF d >= Len(shape) \/ d < -Len(shape) THEN [out |-> "open", shape |-> <<>>, val |-> <<>>]
                        ELSE [out |-> "val", shape |-> DelAt(shape, NormAxis(d, Len(shape))),
                              val |-> AxisMedian(a, shape, NormAxis(d, Len(shape)))]
    [] mode = "width1" -> [out |-> "val", shape |-> shape, val |-> [k \in DOMAIN a |-> OfInt(a[k])]]
    [] mode = "both" -> MedErr
(* laws *)
MedianTwoPhrasings(a) == MeanMedian(a) = MedianByCounting(a)
MedianWithinRange(a) == Le(OfInt(MinOf({a[k] : k \in DOMAIN a})), MeanMedian(a)) /\ Le(MeanMedian(a), OfInt(MaxOf({a[k] : k \in DOMAIN a})))
MedianAxisOfVectorIsAll(a) == AxisMedian(a, <<Len(a)>>, 1) = <<MeanMedian(a)>>
MedianAxisLaneCount(a, shape, ax) == Len(AxisMedian(a, shape, ax)) * shape[ax] = Len(a)
MedianAxisTranspose2D(a, shape) ==   \* median over the rows of a matrix = median over the columns of its transpose
  Len(shape) = 2 =>
    LET tshape == <<shape[2], shape[1]>>
        t == [k \in 1 .. Len(a) |-> LET ij == Unravel(k - 1, tshape) IN a[Ravel(<<ij[2], ij[1]>>, shape) + 1]]
    IN AxisMedian(a, shape, 1) = AxisMedian(t, tshape, 2)

(* ============================== S8 read_ds_cooling ============================== *)
CoolingNames == {"m-00.cie", "m-05.cie", "m+05.cie", "m-10.cie", "m-15.cie", "m-20.cie", "m-30.cie", "mzero.cie"}
CoolingAccepts(name) == name \in CoolingNames
(* table: grid (strictly increasing integers, scaled) and vals (integers, scaled); q on the grid's scale.   *)
(* Between two neighbouring nodes the value lies on the straight line through them.                        *)
InterpDefined(grid, q) == grid[1] <= q /\ q <= grid[Len(grid)]
Interp(grid, vals, q) ==
  IF q = grid[Len(grid)] THEN OfInt(vals[Len(grid)])
  ELSE LET k == MaxOf({j \in 1 .. (Len(grid) - 1) : grid[j] <= q})
       IN R(vals[k] * (grid[k + 1] - grid[k]) + (vals[k + 1] - vals[k]) * (q - grid[k]), grid[k + 1] - grid[k])
InterpHitsNodes(grid, vals) == \A k \in DOMAIN grid : Interp(grid, vals, grid[k]) = OfInt(vals[k])
InterpBetweenNeighbours(grid, vals, q) ==
  InterpDefined(grid, q) =>
    \A k \in 1 .. (Len(grid) - 1) : (grid[k] <= q /\ q <= grid[k + 1]) =>
       LET lo == IF vals[k] <= vals[k + 1] THEN vals[k] ELSE vals[k + 1]
           hi == IF vals[k] <= vals[k + 1] THEN vals[k + 1] ELSE vals[k]
       IN Le(OfInt(lo), Interp(grid, vals, q)) /\ Le(Interp(grid, vals, q), OfInt(hi))
InterpCollinear(grid, vals, q) ==    \* (q, value) is collinear with the two neighbouring nodes (cross product zero)
  InterpDefined(grid, q) =>
    \A k \in 1 .. (Len(grid) - 1) : (grid[k] <= q /\ q <= grid[k + 1]) =>
       Mul(Sub(Interp(grid, vals, q), OfInt(vals[k])), OfInt(grid[k + 1] - grid[k])) = OfInt((vals[k + 1] - vals[k]) * (q - grid[k]))
=============================================================================
