---------------------------- MODULE TraceSetPoly ----------------------------
(***************************************************************************)
(* C13 - trace sets: the Legendre, Chebyshev and monomial bases are the    *)
(* textbook polynomials; fitting with them returns the weighted least-     *)
(* squares coefficients (fixed coefficients kept, zero-weight points       *)
(* without influence, exact combinations recovered); a trace set built     *)
(* from positions evaluates back to its own fitted values, with or without *)
(* the BOSS x-jump, and its default grid is xmin..xmax in unit steps.      *)
(*                                                                         *)
(* Everything is exact arithmetic over the rationals (module Rat:          *)
(* <<num, den>>, den > 0, lowest terms).  TLC integers are 32-bit, so the  *)
(* arithmetic below cancels common factors BEFORE multiplying and yields   *)
(* NaR when a result cannot be represented; MaxDeg says up to which degree *)
(* an abscissa p/q can be used.                                            *)
(*                                                                         *)
(* Nothing here is taken from pydl's code: bases are given three times     *)
(* (three-term recurrence, closed-form sum, textbook coefficient table)    *)
(* and TLC checks that the three agree; the fit is DEFINED by the normal   *)
(* equations (IsWLS) and computed by elimination.                          *)
(***************************************************************************)
EXTENDS Rat, FiniteSets, TLC

(* ---------------- overflow-averse rational arithmetic ------------------- *)
(* Common factors are cancelled before multiplying.  A result whose numerator or denominator *)
(* would not fit into TLC's 32-bit integers is NaR = <<0, 0>> ("not a representable          *)
(* rational"); NaR propagates through every operation and is never equal to a rational, so   *)
(* a law that meets it fails loudly (model checking) or the record is set aside (traces).    *)
Big == 2147483647
NaR == <<0, 0>>
IsNaR(q) == q[2] = 0
Proper(q) == q[2] > 0
MulFits(a, b) == a = 0 \/ b = 0 \/ Abs(a) <= Big \div Abs(b)
AddFits(a, b) == IF (a >= 0) # (b >= 0) THEN TRUE ELSE Abs(a) <= Big - Abs(b)
QAdd(a, b) ==
  IF IsNaR(a) \/ IsNaR(b) THEN NaR
  ELSE LET g == GCD(a[2], b[2])
           fa == b[2] \div g
           fb == a[2] \div g
       IN IF MulFits(a[1], fa) /\ MulFits(b[1], fb) /\ MulFits(fb, b[2]) /\ AddFits(a[1] * fa, b[1] * fb)
          THEN Norm(a[1] * fa + b[1] * fb, fb * b[2])
          ELSE NaR
QMul(a, b) ==
  IF IsNaR(a) \/ IsNaR(b) THEN NaR
  ELSE IF a[1] = 0 \/ b[1] = 0 THEN Zero
  ELSE LET g1 == GCD(Abs(a[1]), b[2])
           g2 == GCD(Abs(b[1]), a[2])
           n1 == a[1] \div g1  n2 == b[1] \div g2
           d1 == a[2] \div g2  d2 == b[2] \div g1
       IN IF MulFits(n1, n2) /\ MulFits(d1, d2) THEN Norm(n1 * n2, d1 * d2) ELSE NaR
QSub(a, b) == QAdd(a, Neg(b))
QDiv(a, b) == IF IsNaR(b) \/ b[1] = 0 THEN NaR ELSE QMul(a, Inv(b))
QLt(a, b) == QSub(a, b)[1] < 0
QLe(a, b) == QSub(a, b)[1] <= 0
QAbs(a) == <<Abs(a[1]), a[2]>>
Two == <<2, 1>>
Half == <<1, 2>>
QMin(a, b) == IF IsNaR(a) \/ IsNaR(b) THEN NaR ELSE IF QLt(b, a) THEN b ELSE a
QMax(a, b) == IF IsNaR(a) \/ IsNaR(b) THEN NaR ELSE IF QLt(a, b) THEN b ELSE a
AllProper(s) == \A k \in 1..Len(s) : Proper(s[k])

RECURSIVE QSum(_)
QSum(s) == IF s = <<>> THEN Zero ELSE QAdd(s[1], QSum(Tail(s)))
QDot(s, t) == QSum([k \in 1..Len(s) |-> QMul(s[k], t[k])])
RECURSIVE QPow(_, _)
QPow(x, k) == IF k = 0 THEN One ELSE QMul(x, QPow(x, k - 1))
RECURSIVE QMinSeq(_)
QMinSeq(s) == IF Len(s) = 1 THEN s[1] ELSE QMin(s[1], QMinSeq(Tail(s)))
RECURSIVE QMaxSeq(_)
QMaxSeq(s) == IF Len(s) = 1 THEN s[1] ELSE QMax(s[1], QMaxSeq(Tail(s)))
RECURSIVE Flatten(_)
Flatten(ss) == IF ss = <<>> THEN <<>> ELSE ss[1] \o Flatten(Tail(ss))

Sgn(k) == IF k % 2 = 0 THEN 1 ELSE -1
RECURSIVE Choose(_, _)
Choose(n, k) == IF k = 0 THEN 1 ELSE (Choose(n, k - 1) * (n - k + 1)) \div k
RECURSIVE Fact(_)
Fact(n) == IF n = 0 THEN 1 ELSE n * Fact(n - 1)

(* highest polynomial degree for which every definition below stays inside 32 bits at an     *)
(* abscissa with denominator q (|x| <= 1)                                                    *)
MaxDeg(q) == IF q <= 3 THEN 11 ELSE IF q <= 5 THEN 9 ELSE IF q = 6 THEN 8 ELSE 7

(* ---------------- the bases, definition 1: three-term recurrences ------- *)
PolyBases == {"legendre", "chebyshev", "poly"}
Bases == PolyBases \cup {"chebyshev_split"}

(* the degree-k member from the two before it:                                              *)
(*   k P_k = (2k-1) x P_{k-1} - (k-1) P_{k-2};  T_k = 2 x T_{k-1} - T_{k-2};  x^k = x x^{k-1} *)
NextTerm(basis, k, x, p1, p2) ==
  CASE basis = "legendre"  -> QAdd(QMul(R(2 * k - 1, k), QMul(x, p1)), QMul(R(-(k - 1), k), p2))
    [] basis = "chebyshev" -> QSub(QMul(Two, QMul(x, p1)), p2)
    [] basis = "poly"      -> QMul(x, p1)

RECURSIVE Grow(_, _, _, _)
Grow(basis, m, x, s) ==
  IF Len(s) >= m THEN SubSeq(s, 1, m)
  ELSE Grow(basis, m, x, Append(s, NextTerm(basis, Len(s), x, s[Len(s)], s[Len(s) - 1])))
(* the first m members (degrees 0..m-1) at x *)
RecSeq(basis, m, x) == Grow(basis, m, x, <<One, x>>)

(* ---------------- definition 2: closed-form sums ------------------------ *)
(* P_n(x) = 2^-n sum_k (-1)^k C(n,k) C(2n-2k,n) x^(n-2k)                                     *)
(* T_n(x) = n/2 sum_k (-1)^k (n-k-1)! / (k! (n-2k)!) (2x)^(n-2k)     (n >= 1)                 *)
LegExplicit(n, x) ==
  QSum([j \in 1..(n \div 2 + 1) |->
          LET k == j - 1 IN QMul(R(Sgn(k) * Choose(n, k) * Choose(2 * n - 2 * k, n), 2 ^ n), QPow(x, n - 2 * k))])
ChebExplicit(n, x) ==
  IF n = 0 THEN One
  ELSE QSum([j \in 1..(n \div 2 + 1) |->
          LET k == j - 1 IN QMul(R(Sgn(k) * n * Fact(n - k - 1), 2 * Fact(k) * Fact(n - 2 * k)),
                                 QPow(QMul(Two, x), n - 2 * k))])
Explicit(basis, n, x) ==
  CASE basis = "legendre" -> LegExplicit(n, x)
    [] basis = "chebyshev" -> ChebExplicit(n, x)
    [] basis = "poly" -> IF n = 0 THEN One ELSE Norm(x[1] ^ n, x[2] ^ n)

(* ---------------- definition 3: the textbook coefficient tables --------- *)
(* (Abramowitz & Stegun 22.9, 22.3): coefficient of x^j is num[j+1] / den                     *)
LegTab == <<
  [den |-> 1,   num |-> <<1>>],
  [den |-> 1,   num |-> <<0, 1>>],
  [den |-> 2,   num |-> <<-1, 0, 3>>],
  [den |-> 2,   num |-> <<0, -3, 0, 5>>],
  [den |-> 8,   num |-> <<3, 0, -30, 0, 35>>],
  [den |-> 8,   num |-> <<0, 15, 0, -70, 0, 63>>],
  [den |-> 16,  num |-> <<-5, 0, 105, 0, -315, 0, 231>>],
  [den |-> 16,  num |-> <<0, -35, 0, 315, 0, -693, 0, 429>>],
  [den |-> 128, num |-> <<35, 0, -1260, 0, 6930, 0, -12012, 0, 6435>>],
  [den |-> 128, num |-> <<0, 315, 0, -4620, 0, 18018, 0, -25740, 0, 12155>>],
  [den |-> 256, num |-> <<-63, 0, 3465, 0, -30030, 0, 90090, 0, -109395, 0, 46189>>],
  [den |-> 256, num |-> <<0, -693, 0, 15015, 0, -90090, 0, 218790, 0, -230945, 0, 88179>> ] >>
ChebTab == <<
  [den |-> 1, num |-> <<1>>],
  [den |-> 1, num |-> <<0, 1>>],
  [den |-> 1, num |-> <<-1, 0, 2>>],
  [den |-> 1, num |-> <<0, -3, 0, 4>>],
  [den |-> 1, num |-> <<1, 0, -8, 0, 8>>],
  [den |-> 1, num |-> <<0, 5, 0, -20, 0, 16>>],
  [den |-> 1, num |-> <<-1, 0, 18, 0, -48, 0, 32>>],
  [den |-> 1, num |-> <<0, -7, 0, 56, 0, -112, 0, 64>>],
  [den |-> 1, num |-> <<1, 0, -32, 0, 160, 0, -256, 0, 128>>],
  [den |-> 1, num |-> <<0, 9, 0, -120, 0, 432, 0, -576, 0, 256>>],
  [den |-> 1, num |-> <<-1, 0, 50, 0, -400, 0, 1120, 0, -1280, 0, 512>>],
  [den |-> 1, num |-> <<0, -11, 0, 220, 0, -1232, 0, 2816, 0, -2816, 0, 1024>> ] >>
TabEval(T, x) == QSum([j \in 1..Len(T.num) |-> QMul(R(T.num[j], T.den), QPow(x, j - 1))])
Tabulated(basis, n, x) ==
  CASE basis = "legendre" -> TabEval(LegTab[n + 1], x)
    [] basis = "chebyshev" -> TabEval(ChebTab[n + 1], x)
    [] basis = "poly" -> QPow(x, n)

(* ---------------- the functions the library offers ---------------------- *)
(* Every operator below is a function of the VALUES of its arguments.  How the caller stores   *)
(* them (a scalar or a zero-dimensional array; a contiguous, strided, Fortran-ordered,         *)
(* read-only or byte-swapped array; 0, 0.0 or -0.0; integral values in an integer type of any  *)
(* width, signed or unsigned, or as a numpy integer scalar) is not an argument of the           *)
(* specification,                                                                              *)
(* so the same outcome is demanded of every such way of handing the same values over.          *)
(* f<basis>(x, m): the first m members at x.  The "split" Chebyshev basis puts a step        *)
(* (1 for x >= 0, else 0) in front of T_0 .. T_{m-2} (m >= 2).                               *)
StepFn(x) == IF x[1] >= 0 THEN One ELSE Zero
MinM(basis) == IF basis = "chebyshev_split" THEN 2 ELSE 1
Basis(basis, m, x) ==
  IF basis = "chebyshev_split" THEN <<StepFn(x)>> \o RecSeq("chebyshev", m - 1, x)
  ELSE RecSeq(basis, m, x)
Eval(coef, basis, x) == QDot(coef, Basis(basis, Len(coef), x))

(* ---------------- laws of the bases (checked by TLC on the grid) -------- *)
ThreeDefinitionsAgree(basis, m, x) ==
  \A k \in 1..m : /\ RecSeq(basis, m, x)[k] = Explicit(basis, k - 1, x)
                  /\ RecSeq(basis, m, x)[k] = Tabulated(basis, k - 1, x)
EndpointOne(basis, m) == \A k \in 1..m : RecSeq(basis, m, One)[k] = One
Parity(basis, m, x) ==
  \A k \in 1..m : RecSeq(basis, m, Neg(x))[k] = QMul(OfInt(Sgn(k - 1)), RecSeq(basis, m, x)[k])
BoundedByOne(basis, m, x) == (QLe(QAbs(x), One)) => \A k \in 1..m : QLe(QAbs(RecSeq(basis, m, x)[k]), One)
PrefixStable(basis, m, x) == m > MinM(basis) => SubSeq(Basis(basis, m, x), 1, m - 1) = Basis(basis, m - 1, x)
(* T_n(cos t) = cos(n t): at x = 1/2 = cos(pi/3) the values repeat with period 6; at 0 with period 4 *)
ChebAtHalf == << One, Half, Neg(Half), Neg(One), Neg(Half), Half >>
ChebAtZero == << One, Zero, Neg(One), Zero >>
ChebCosine(m) == \A k \in 1..m : /\ RecSeq("chebyshev", m, Half)[k] = ChebAtHalf[((k - 1) % 6) + 1]
                                 /\ RecSeq("chebyshev", m, Zero)[k] = ChebAtZero[((k - 1) % 4) + 1]
(* P_n(0) = 0 (n odd), (-1)^(n/2) C(n, n/2) / 2^n (n even) *)
LegAtZero(m) == \A k \in 1..m : LET n == k - 1 IN
   RecSeq("legendre", m, Zero)[k] = IF n % 2 = 1 THEN Zero ELSE R(Sgn(n \div 2) * Choose(n, n \div 2), 2 ^ n)
SplitLaw(m, x) == /\ Basis("chebyshev_split", m, x)[1] \in {Zero, One}
                  /\ (Basis("chebyshev_split", m, x)[1] = One) <=> ~QLt(x, Zero)
                  /\ Tail(Basis("chebyshev_split", m, x)) = RecSeq("chebyshev", m - 1, x)

(* ---------------- weighted least squares -------------------------------- *)
(* A fitting problem p: basis, nc, xs, y, w (sequences of rationals, w >= 0), ia (TRUE = free), *)
(* ians (prescribed values; only the entries at fixed positions mean anything).               *)
NPts(p) == Len(p.xs)
Good(p) == {i \in 1..NPts(p) : p.w[i][1] > 0}
FreeSeq(p) == SelectSeq([j \in 1..p.nc |-> j], LAMBDA j : p.ia[j])
FixedSet(p) == {j \in 1..p.nc : ~p.ia[j]}
(* (TLCEval only makes TLC compute a sequence once instead of at every use) *)
Design(p) == TLCEval([i \in 1..NPts(p) |-> Basis(p.basis, p.nc, p.xs[i])])

(* "enough good points": the free columns are independent on the good abscissae.  For the     *)
(* polynomial bases nc distinct good abscissae suffice (a polynomial of degree < nc with nc   *)
(* roots vanishes); for the split basis nc-1 distinct ones on one side and one on the other.  *)
GoodXs(p) == {p.xs[i] : i \in Good(p)}
WellPosed(p) ==
  IF p.basis = "chebyshev_split"
  THEN LET neg == {x \in GoodXs(p) : x[1] < 0}
           pos == GoodXs(p) \ neg
       IN (Cardinality(neg) >= p.nc - 1 /\ Cardinality(pos) >= 1) \/ (Cardinality(pos) >= p.nc - 1 /\ Cardinality(neg) >= 1)
  ELSE Cardinality(GoodXs(p)) >= p.nc

(* r is THE weighted least-squares answer of p: fixed entries as prescribed and the gradient  *)
(* of sum_i w_i (y_i - sum_k r_k B_k(x_i))^2 with respect to every free coefficient is zero.  *)
Residual(p, r, A) == TLCEval([i \in 1..NPts(p) |-> QSub(p.y[i], QDot(r, A[i]))])
IsWLS(p, r) ==
  LET A == Design(p)
      res == Residual(p, r, A)
  IN /\ \A j \in FixedSet(p) : r[j] = p.ians[j]
     /\ \A j \in 1..p.nc : p.ia[j] => QSum([i \in 1..NPts(p) |-> QMul(p.w[i], QMul(A[i][j], res[i]))]) = Zero
Chi2(p, r) == LET res == Residual(p, r, Design(p)) IN
              QSum([i \in 1..NPts(p) |-> QMul(p.w[i], QMul(res[i], res[i]))])
(* chi^2(r2) - chi^2(r1), summed term by term as (difference)(sum) to keep the numbers small *)
Chi2Diff(p, r1, r2) ==
  LET A == Design(p)  e1 == Residual(p, r1, A)  e2 == Residual(p, r2, A) IN
  QSum([i \in 1..NPts(p) |-> QMul(p.w[i], QMul(QSub(e2[i], e1[i]), QAdd(e2[i], e1[i])))])

(* the normal equations of the free coefficients: G a = b with                                *)
(*   G[a][b] = sum_i w_i B_fa(x_i) B_fb(x_i),  b[a] = sum_i w_i B_fa(x_i) (y_i - fixed part)   *)
NormalMatrix(p) ==
  LET A == Design(p)  F == FreeSeq(p)  n == Len(F) IN
  TLCEval([a \in 1..n |-> TLCEval([b \in 1..n |->
              QSum([i \in 1..NPts(p) |-> QMul(p.w[i], QMul(A[i][F[a]], A[i][F[b]]))])])])
NormalRhs(p) ==
  LET A == Design(p)  F == FreeSeq(p)
      ysub == TLCEval([i \in 1..NPts(p) |->
                 QSub(p.y[i], QSum([j \in 1..p.nc |-> IF p.ia[j] THEN Zero ELSE QMul(p.ians[j], A[i][j])]))])
  IN TLCEval([a \in 1..Len(F) |-> QSum([i \in 1..NPts(p) |-> QMul(p.w[i], QMul(A[i][F[a]], ysub[i]))])])

(* elimination of the first unknown: the (n-1) x (n-1) system that remains *)
Reduced(G, b) ==
  LET n == Len(G)
      f == TLCEval([r \in 1..(n - 1) |-> QDiv(G[r + 1][1], G[1][1])])
  IN [G |-> TLCEval([r \in 1..(n - 1) |-> TLCEval([cc \in 1..(n - 1) |-> QSub(G[r + 1][cc + 1], QMul(f[r], G[1][cc + 1]))])]),
      b |-> TLCEval([r \in 1..(n - 1) |-> QSub(b[r + 1], QMul(f[r], b[1]))])]
RECURSIVE GaussSolve(_, _)
GaussSolve(G, b) ==
  IF Len(G) = 0 THEN <<>>
  ELSE IF Len(G) = 1 THEN << QDiv(b[1], G[1][1]) >>
  ELSE LET red == Reduced(G, b)
           rest == GaussSolve(red.G, red.b)
       IN << QDiv(QSub(b[1], QSum([cc \in 1..(Len(G) - 1) |-> QMul(G[1][cc + 1], rest[cc])])), G[1][1]) >> \o rest
RECURSIVE Pivots(_)
Pivots(G) == IF Len(G) = 0 THEN <<>>
             ELSE IF Len(G) = 1 THEN << G[1][1] >>
             ELSE << G[1][1] >> \o Pivots(Reduced(G, [r \in 1..Len(G) |-> Zero]).G)
(* a symmetric matrix is positive definite iff every pivot of the elimination is positive *)
PositiveDefinite(G) == \A k \in 1..Len(G) : Pivots(G)[k][1] > 0

(* the solution of the normal equations, fixed entries as prescribed *)
Solve(p) ==
  LET F == FreeSeq(p)
      sol == GaussSolve(NormalMatrix(p), NormalRhs(p))
      pos(j) == CHOOSE a \in 1..Len(F) : F[a] = j
  IN [j \in 1..p.nc |-> IF p.ia[j] THEN sol[pos(j)] ELSE p.ians[j]]

(* data that are an exact combination v of the basis (at the good points), with the fixed     *)
(* entries prescribed at their true values: the answer is v itself (chi^2 = 0 is the minimum) *)
IsExactCombination(p, v) ==
  /\ Len(v) = p.nc
  /\ \A i \in Good(p) : p.y[i] = Eval(v, p.basis, p.xs[i])
  /\ \A j \in FixedSet(p) : p.ians[j] = v[j]

FitOutcome(p, r) == [res |-> r, yfit |-> TLCEval([i \in 1..NPts(p) |-> Eval(r, p.basis, p.xs[i])])]

(* ---------------- trace sets: normalisation, jump, default grid --------- *)
(* j = [on, lo, hi, val]: between lo and hi the "natural" coordinate slides by val (BOSS      *)
(* two-phase readout); x <= lo unchanged, x >= hi shifted by the whole val.                   *)
NoJump == [on |-> FALSE, lo |-> Zero, hi |-> One, val |-> Zero]
JFrac(x, j) == QMin(QMax(QDiv(QSub(x, j.lo), QSub(j.hi, j.lo)), Zero), One)
XNatural(x, j) == IF j.on THEN QAdd(x, QMul(JFrac(x, j), j.val)) ELSE x
(* the affine map xmin -> -1, xmax -> +1 *)
Affine(x, xmin, xmax) == QDiv(QSub(QMul(Two, x), QAdd(xmin, xmax)), QSub(xmax, xmin))
XNorm(x, xmin, xmax, j) == Affine(XNatural(x, j), xmin, xmax)

XNormLaws(x, xmin, xmax, j) ==
  /\ Affine(xmin, xmin, xmax) = Neg(One) /\ Affine(xmax, xmin, xmax) = One
  /\ Affine(QMul(Half, QAdd(xmin, xmax)), xmin, xmax) = Zero
  /\ Affine(QMul(Half, QAdd(x, xmin)), xmin, xmax) = QMul(Half, QAdd(Affine(x, xmin, xmax), Neg(One)))
  /\ ~j.on => XNorm(x, xmin, xmax, j) = Affine(x, xmin, xmax)
  /\ j.on =>
       /\ QLe(x, j.lo) => XNorm(x, xmin, xmax, j) = Affine(x, xmin, xmax)
       /\ QLe(j.hi, x) => XNorm(x, xmin, xmax, j) = Affine(QAdd(x, j.val), xmin, xmax)
       /\ (QLt(j.lo, x) /\ QLt(x, j.hi)) =>
             \* straight line from (lo, lo) to (hi, hi + val)
             XNatural(x, j) = QAdd(j.lo, QMul(QSub(x, j.lo), QDiv(QSub(QAdd(j.hi, j.val), j.lo), QSub(j.hi, j.lo))))

GridLen(xmin, xmax) == Floor(QSub(xmax, xmin)) + 1
DefaultGrid(xmin, xmax) == [i \in 1..GridLen(xmin, xmax) |-> QAdd(xmin, OfInt(i - 1))]
GridLaws(xmin, xmax) ==
  LET g == DefaultGrid(xmin, xmax) IN
  /\ g[1] = xmin
  /\ \A i \in 1..(Len(g) - 1) : QSub(g[i + 1], g[i]) = One
  /\ QLe(g[Len(g)], xmax) /\ QLt(xmax, QAdd(g[Len(g)], One))

(* The length of the default grid said in other words (the statement: "spans xmin..xmax in unit steps"): it is  *)
(* the number of points xmin + k (k = 0, 1, ...) that do not lie beyond xmax.  The x-range of a trace set need   *)
(* NOT be a whole number of pixels (xmin / xmax may be, or may be derived from, real-valued positions): then the *)
(* grid stops strictly before xmax - it never runs past it; only when xmax - xmin is whole does it end AT xmax.  *)
(* The length depends on xmax - xmin only (moving both limits by the same amount moves the grid with them).      *)
GridCount(xmin, xmax) == Cardinality({k \in 0..(Floor(QSub(xmax, xmin)) + 2) : QLe(QAdd(xmin, OfInt(k)), xmax)})
GridShifts == {Half, <<-1, 4>>, <<3, 1>>, <<-7, 3>>}
GridLenLaws(xmin, xmax) ==
  LET n == GridLen(xmin, xmax)
      d == QSub(xmax, xmin)
      g == DefaultGrid(xmin, xmax)
  IN /\ n = GridCount(xmin, xmax)
     /\ n >= 1 /\ Len(g) = n
     /\ (d[2] = 1) => (n = d[1] + 1 /\ g[n] = xmax)
     /\ (d[2] # 1) => (QLt(g[n], xmax) /\ QLt(QSub(xmax, One), g[n]))
     /\ \A i \in 1..n : QLe(xmin, g[i]) /\ QLe(g[i], xmax)
     /\ \A s \in GridShifts : /\ GridLen(QAdd(xmin, s), QAdd(xmax, s)) = n
                              /\ \A i \in 1..n : DefaultGrid(QAdd(xmin, s), QAdd(xmax, s))[i] = QAdd(g[i], s)

(* A trace-set problem t: basis, nc, xpos, ypos, w (nTrace sequences of equal length),        *)
(* gmin / gmax (is xmin / xmax supplied by the caller?), xmin, xmax, jump.  A supplied limit   *)
(* is used whatever its value (zero and negative values included); only a limit that is not   *)
(* supplied is taken from the positions.                                                      *)
TsXmin(t) == IF t.gmin THEN t.xmin ELSE QMinSeq(Flatten(t.xpos))
TsXmax(t) == IF t.gmax THEN t.xmax ELSE QMaxSeq(Flatten(t.xpos))
TsXvec(t, k, j) == LET lo == TsXmin(t)  hi == TsXmax(t) IN
                   TLCEval([i \in 1..Len(t.xpos[k]) |-> XNorm(t.xpos[k][i], lo, hi, j)])
(* trace k as a fitting problem on the normalised abscissae (all coefficients free) *)
TsProblem(t, k) == [basis |-> t.basis, nc |-> t.nc, xs |-> TsXvec(t, k, t.jump), y |-> t.ypos[k], w |-> t.w[k],
                    ia |-> [j \in 1..t.nc |-> TRUE], ians |-> [j \in 1..t.nc |-> Zero]]
(* evaluating coefficient matrix co at positions xp (one row per trace) *)
TsEval(t, co, xp, j) ==
  LET lo == TsXmin(t)  hi == TsXmax(t) IN
  TLCEval([k \in 1..Len(co) |-> TLCEval([i \in 1..Len(xp[k]) |-> Eval(co[k], t.basis, XNorm(xp[k][i], lo, hi, j))])])
TsGrid(t) == DefaultGrid(TsXmin(t), TsXmax(t))
(* row independence: row k of an evaluation is what trace k alone gives at its own positions - whatever the   *)
(* other rows are (equal to it, nearly equal, or far away)                                                    *)
RowIndependent(t, co, xp, j) == \A k \in 1..Len(co) : TsEval(t, co, xp, j)[k] = TsEval(t, <<co[k]>>, <<xp[k]>>, j)[1]

(* ---------------- comparing a real number with a rational --------------- *)
(* Trunc(q, bits) = the integer part of |q| * 2^bits with the sign of q (binary long          *)
(* division; needs den <= 2^30 and |q| < 2^(31-bits)).  The harness abstracts a float v to    *)
(* trunc(v * 2^bits); the law is |abstracted - Trunc(expected)| <= tol units.                 *)
RECURSIVE BinDigits(_, _, _)
BinDigits(r, b, k) == IF k = 0 THEN 0
                      ELSE IF 2 * r >= b THEN 2 ^ (k - 1) + BinDigits(2 * r - b, b, k - 1)
                      ELSE BinDigits(2 * r, b, k - 1)
Trunc(q, bits) == LET a == Abs(q[1]) IN
                  (IF q[1] < 0 THEN -1 ELSE 1) * ((a \div q[2]) * 2 ^ bits + BinDigits(a % q[2], q[2], bits))
Close(obs, q, bits, tol) == Abs(obs - Trunc(q, bits)) <= tol
=============================================================================
