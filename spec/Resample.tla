------------------------------ MODULE Resample ------------------------------
(***************************************************************************)
(* C11 - resampling / combining spectra onto a new log-wavelength grid.    *)
(*                                                                         *)
(* Everything is stated in PIXEL UNITS of the input grid (exact rationals, *)
(* spec/Rat.tla): input pixel k (0-based) of an exposure with offset sh    *)
(* sits at position k + sh; an output grid is [start, step, count] and its *)
(* pixel j sits at start + j*step.  A spectrum is known to the spec only   *)
(* through its pattern of positive-weight ("good") pixels and, for the     *)
(* interpolation law, its rational inverse variances.                      *)
(*                                                                         *)
(* The property (written from the statement, not from combine1fiber):      *)
(*   - the output inverse variance is exactly 0 at every output pixel      *)
(*     that does not lie between two ADJACENT GOOD input pixels of some    *)
(*     exposure (MustBeZero); the claim is one-sided, more zeros are       *)
(*     allowed;                                                            *)
(*   - for one exposure a non-zero output inverse variance is the linear   *)
(*     interpolation of the input one (InterpIvar) and never above the     *)
(*     local maximum (LocalMax);                                           *)
(*   - de-redshifting by a whole number m of pixels moves a feature from   *)
(*     position L to L - m (DeRedshift / IndexOn);                         *)
(*   - numeric accuracy laws (identity, constant, scaling) are thresholds  *)
(*     on harness-measured discrepancies (the *Tol* operators).            *)
(***************************************************************************)
EXTENDS Rat, FiniteSets

(* ---------------- grids and positions ---------------- *)
Outs(g) == 0 .. (g.count - 1)
(* start + j*step, as one normalised rational *)
Pos(g, j) == R(g.start[1] * g.step[2] + j * g.step[1] * g.start[2], g.start[2] * g.step[2])
Positions(g) == [j \in Outs(g) |-> Pos(g, j)]
GridOK(g) == IsRat(g.start) /\ IsRat(g.step) /\ Lt(Zero, g.step) /\ g.count >= 1
               /\ \A j \in Outs(g) : Pos(g, j) = Add(g.start, Mul(OfInt(j), g.step))

(* good is a sequence of BOOLEAN; pixel k (0-based) is good[k+1] *)
GoodAt(good, k) == k \in 0 .. (Len(good) - 1) /\ good[k + 1]
InRange(n, p) == Le(Zero, p) /\ Le(p, OfInt(n - 1))

(* ---------------- "lies between two adjacent good input pixels" ---------------- *)
(* the definition: some adjacent pair k, k+1, both good, with k <= p <= k+1 *)
BracketedDef(good, p) ==
  \E k \in 0 .. (Len(good) - 2) : good[k + 1] /\ good[k + 2] /\ Le(OfInt(k), p) /\ Le(p, OfInt(k + 1))

(* the same, computed from the floor of p (equivalence is checked by TLC: Law_FastEqDef) *)
Bracketed(good, p) ==
  LET k == Floor(p) IN
  IF IsInt(p) THEN (GoodAt(good, k) /\ GoodAt(good, k + 1)) \/ (GoodAt(good, k - 1) /\ GoodAt(good, k))
  ELSE GoodAt(good, k) /\ GoodAt(good, k + 1)

(* p coincides exactly with a good input pixel *)
OnGood(good, p) == IsInt(p) /\ GoodAt(good, Floor(p))

(* The literal reading: not bracketed.  The statement leaves one boundary case open: an output *)
(* pixel that falls EXACTLY on a good input pixel whose two neighbours are both bad lies       *)
(* "between" nothing, yet it carries no weight from a zero-weight pixel.  The demanded set     *)
(* (MustBeZero) accepts both outcomes there; StrictZero is the literal set.                     *)
StrictZero(good, p) == ~Bracketed(good, p)
MustBeZero(good, p) == ~Bracketed(good, p) /\ ~OnGood(good, p)

(* several exposures: exps[e] = [good |-> ..., sh |-> rational offset]; the output pixel must  *)
(* be zero when no exposure brackets it.  ps = Positions(grid).                                 *)
Rel(p, sh) == IF sh = Zero THEN p ELSE Sub(p, sh)
MustBeZeroMulti(exps, p) == \A e \in DOMAIN exps : MustBeZero(exps[e].good, Rel(p, exps[e].sh))
StrictZeroMulti(exps, p) == \A e \in DOMAIN exps : StrictZero(exps[e].good, Rel(p, exps[e].sh))
MZSetP(exps, ps) == {j \in DOMAIN ps : MustBeZeroMulti(exps, ps[j])}
StrictSetP(exps, ps) == {j \in DOMAIN ps : StrictZeroMulti(exps, ps[j])}
MZSet(exps, g) == MZSetP(exps, Positions(g))
StrictSet(exps, g) == StrictSetP(exps, Positions(g))
One1(good) == << [good |-> good, sh |-> Zero] >>
NoGood(exps) == \A e \in DOMAIN exps : \A k \in DOMAIN exps[e].good : ~exps[e].good[k]

(* ---------------- inverse variance of one exposure ---------------- *)
(* iv: sequence of rationals >= 0, 0 = zero weight *)
GoodOf(iv) == [k \in DOMAIN iv |-> Lt(Zero, iv[k])]
IvAt(iv, k) == IF k \in 0 .. (Len(iv) - 1) THEN iv[k + 1] ELSE Zero
InterpIvar(iv, p) ==
  LET k == Floor(p) IN
  IF ~InRange(Len(iv), p) THEN Zero
  ELSE IF IsInt(p) THEN IvAt(iv, k)
  ELSE Add(IvAt(iv, k), Mul(Sub(p, OfInt(k)), Sub(IvAt(iv, k + 1), IvAt(iv, k))))
LocalMax(iv, p) == LET k == Floor(p) IN
  IF IsInt(p) THEN IvAt(iv, k) ELSE Max2(IvAt(iv, k), IvAt(iv, k + 1))
LocalMin(iv, p) == LET k == Floor(p) IN
  IF IsInt(p) THEN IvAt(iv, k) ELSE Min2(IvAt(iv, k), IvAt(iv, k + 1))

(* ---------------- the procedure at the level the property needs ---------------- *)
(* Z: set of zero output pixels of a grid with n pixels.  Runs of three zeros (pixels beyond    *)
(* the grid count as zero) are grown by two pixels on either side.                              *)
Zx(Z, n, j) == j \notin 0 .. (n - 1) \/ j \in Z
BadRegion(Z, n, c) == Zx(Z, n, c - 1) /\ Zx(Z, n, c) /\ Zx(Z, n, c + 1)
Grow(Z, n) == Z \cup {j \in 0 .. (n - 1) : \E c \in (j - 2) .. (j + 2) : c \in 0 .. (n - 1) /\ BadRegion(Z, n, c)}
ZeroSetModel(exps, g) == Grow(StrictSet(exps, g), g.count)

(* ---------------- laws (evaluated by TLC on every enumerated case) ---------------- *)
(* mz = MZSet, st = StrictSet of the case (passed in so that TLC computes them once)            *)
Law_FastEqDef(good, g) == \A j \in Outs(g) : Bracketed(good, Pos(g, j)) = BracketedDef(good, Pos(g, j))
Law_OutsideRange(good, g, mz) == \A j \in Outs(g) : ~InRange(Len(good), Pos(g, j)) => j \in mz
Law_AllBad(good, g, mz) == (\A k \in DOMAIN good : ~good[k]) => mz = Outs(g)
(* the two readings differ only on output pixels sitting exactly on an isolated good pixel *)
Law_LenientStrict(good, g, mz, st) ==
  /\ mz \subseteq st
  /\ \A j \in st \ mz :
        LET p == Pos(g, j) IN IsInt(p) /\ GoodAt(good, Floor(p))
                               /\ ~GoodAt(good, Floor(p) - 1) /\ ~GoodAt(good, Floor(p) + 1)
Law_ModelContains(g, mz, st) == mz \subseteq Grow(st, g.count) /\ st \subseteq Grow(st, g.count)
(* non-vacuity of the one-sided claim: the model keeps every pixel whose three neighbours on   *)
(* either side exist and are all bracketed                                                      *)
Law_InteriorKept(g, st) ==
  \A j \in Outs(g) :
     (\A i \in (j - 3) .. (j + 3) : i \in Outs(g) /\ i \notin st) => j \notin Grow(st, g.count)
(* losing a good pixel never shrinks the set that must be zero *)
Law_Monotone(good, g, mz) ==
  LET ps == Positions(g) IN
  \A k \in DOMAIN good : mz \subseteq MZSetP(One1([good EXCEPT ![k] = FALSE]), ps)
(* interpolation: wherever a non-zero value is allowed it is positive, between the two         *)
(* neighbouring input values, and equal to the sample on a sample                               *)
Law_InterpBound(iv, g, mz) ==
  \A j \in Outs(g) \ mz : LET p == Pos(g, j) IN
        /\ Lt(Zero, InterpIvar(iv, p))
        /\ Le(InterpIvar(iv, p), LocalMax(iv, p))
        /\ Le(LocalMin(iv, p), InterpIvar(iv, p))
        /\ (IsInt(p) => InterpIvar(iv, p) = IvAt(iv, Floor(p)))
(* several exposures: the must-be-zero set is the intersection of the single-exposure sets,    *)
(* and an extra exposure can only remove pixels from it                                         *)
Law_MultiIntersection(exps, g, mz) ==
  LET ps == Positions(g) IN
  mz = {j \in Outs(g) : \A e \in DOMAIN exps : j \in MZSetP(<<exps[e]>>, ps)}
Law_MultiShrinks(exps, g, mz) ==
  LET ps == Positions(g) IN \A e \in DOMAIN exps : mz \subseteq MZSetP(<<exps[e]>>, ps)

(* ---------------- de-redshifting (whole pixels) ---------------- *)
(* positions in pixels relative to a common origin; a grid with origin o holds position L at    *)
(* index L - o                                                                                   *)
DeRedshift(L, m) == L - m
IndexOn(o, L) == L - o
ShiftedIndex(k0, o1, m, o2) == IndexOn(o2, DeRedshift(k0 + o1, m))

(* ---------------- accuracy thresholds for the measured laws ---------------- *)
(* identity: a spectrum varying on scales of at least P pixels (P >= 20) resampled onto its own *)
(* or a shifted grid reproduces the underlying curve to (2e8 / P^3) parts per million of the    *)
(* amplitude of variation (third-order interpolation error; 0.3 % at P = 40)                    *)
IdentityTolPpm(P) == 200000000 \div (P * P * P)
ConstTolPpb == 1000           \* constant stays constant: 1e-6 relative
ScaleTolPpb == 1000           \* (c f, ivar/c^2) -> (c out, outivar/c^2): 1e-6 relative
IvarScale == 100000           \* observed inverse variances are reported in units of 1/(q*IvarScale)
IvarTol == 2                  \* in those units
ShiftResidTolMilli == 10      \* feature position: 0.01 pixel
(* The outcome is a function of the VALUES of the arguments only: the same numbers held in a    *)
(* read-only buffer, a non-contiguous or Fortran-ordered view, byte-swapped (as read from FITS), *)
(* or a 0-d array where a scalar is admitted, or - where the values are integral (counts, 0/1  *)
(* masks, integer weights, z = 0) - with an integer or boolean numeric type instead of float64, *)
(* give the same flux and inverse variance.  Every    *)
(* law above is therefore checked on all of these layouts with the expectation of the values,   *)
(* and a direct comparison of two layouts must agree exactly.                                    *)
LayoutTolPpb == 0

(* observed value o (integer, units 1/IvarScale of the unit of iv) against the exact rational v *)
CloseTo(o, v) == Abs(o * v[2] - IvarScale * v[1]) <= IvarTol * v[2]
NotAbove(o, v) == o * v[2] <= IvarScale * v[1] + IvarTol * v[2]
=============================================================================
