---------------------------- MODULE SdssNames ----------------------------
(***************************************************************************)
(* X01 - SDSS file naming, filter lookup, bad-field lookup, spectro paths. *)
(*                                                                         *)
(* Functions: pydl.photoop.sdssio.{sdss_name, sdss_path, filtername,       *)
(* filternum, sdss_calib}; pydl.pydlutils.sdss.{sdss_astrombad,            *)
(* default_skyversion}; pydl.pydlspec2d.spec1d.{spec_path, latest_mjd,     *)
(* wavevector}.                                                            *)
(*                                                                         *)
(* BEHAVIOURAL STATEMENTS DECIDED (source of each in brackets)             *)
(*                                                                         *)
(* N1 [sdss_name docstring + SDSS file name convention, the examples of    *)
(*    pydl's test_sdssio]  For every known file type, run in 0..65535,     *)
(*    camcol in 1..6, field in 0..4095, the base name is                   *)
(*      <prefix>-<run, 6 digits>-[<filter letter>]<camcol>[-<rerun>]       *)
(*      [-<field, 4 digits>]<.fit | .fits>                                 *)
(*    with the parts present that the type's row of TypeTable says; the    *)
(*    prefix is the type name (fakeIdR files are named idR).  Numbers are   *)
(*    zero-padded decimal.                                                 *)
(* N2 [docstring: thisfilter int or str]  A filter given as a number 0..4  *)
(*    and the same filter given by its letter produce the same name; the   *)
(*    filter is ignored by types whose names carry no filter.              *)
(* N3 [docstring: no_path]  Without no_path the result is the directory    *)
(*    sdss_path gives for the same arguments, "/", and the base name.      *)
(* N4 [docstring Raises]  An unknown file type raises KeyError (sdss_name  *)
(*    and sdss_path).                                                      *)
(* N5 [pydl test_sdss_name_reObj]  Type "reObj" names a reObjGlobal file   *)
(*    when PHOTO_RESOLVE is in the environment and a reObjRun file when    *)
(*    it is not.                                                           *)
(* P1 [sdss_path docstring "SAS directory structure" + test examples]      *)
(*    The directory is <root>/<rerun>/<run>/<subdir>[/<camcol>] (raw data  *)
(*    types: <root>/<run>/<subdir>/<camcol>), the root being the value of  *)
(*    PHOTO_REDUX / PHOTO_DATA / PHOTO_CALIB / PHOTO_RESOLVE named by the  *)
(*    type's row; run is rendered without padding.                         *)
(* F1 [filtername docstring/doctest]  filtername(k) for k in 0..4 is the   *)
(*    k-th of u g r i z; a string argument is returned unchanged (pydl's   *)
(*    test).  Other integers: open.                                        *)
(* F2 [filternum docstring/doctest, Raises]  filternum(name) is the index  *)
(*    of name in u g r i z; ANY other string raises KeyError; called       *)
(*    without argument it returns 0..4 (pydl's test).  filternum and       *)
(*    filtername are inverse on the five filters.                          *)
(* K1 [sdss_calib docstring, Notes "placeholder", pydl's test]  For every  *)
(*    run/camcol/field/rerun the result is a dictionary containing         *)
(*    NMGYPERCOUNT, whose value is 1.                                      *)
(* V1 [default_skyversion docstring/doctest]  The value is 2.              *)
(* A1 [sdss_astrombad docstring]  For run in 0..65535, camcol in 1..6,     *)
(*    field in 0..4095 (scalars, or arrays of one common length) the       *)
(*    result is a bool array with one element per input element; element   *)
(*    k is TRUE exactly when some row of the BADFIELDS table whose problem *)
(*    is astrometric ("astrom"; "rotator" as in the IDL original) has the  *)
(*    same run and firstfield <= field[k] <= lastfield: firstfield and     *)
(*    lastfield are the first and the LAST field with the problem.         *)
(* A2 [docstring Notes]  The result does not depend on camcol ("if there   *)
(*    is a problem with one camcol, we assume a problem with all").        *)
(* A3 [docstring Raises]  Arrays of different lengths raise ValueError;    *)
(*    any run, camcol or field out of the ranges above raises ValueError.  *)
(* S1 [spec_path docstring + pydl's test]  One directory per plate, in     *)
(*    order.  With path given every directory is path.  Otherwise it is    *)
(*    <topdir>/<run2d>/<plate, at least 4 digits, zero padded> where run2d *)
(*    defaults to $RUN2D and topdir to $BOSS_SPECTRO_REDUX; a missing      *)
(*    variable that is needed raises KeyError.  (Default topdir for an     *)
(*    all-digit run2d: undocumented, open.)                                *)
(* M1 [latest_mjd docstring]  One value per plate, in order (scalar plate: *)
(*    one value); for a plate that has spPlate-pppp-mmmmm.fits files in    *)
(*    its directory (pppp = the plate with at least 4 digits, as in S1)    *)
(*    the value is the largest mmmmm.  (Plates without any file: open.)    *)
(* W1 [wavevector docstring: "separation between values", min, max; the    *)
(*    IDL original; pydl's test]  The result is the increasing sequence of *)
(*    all grid values zeropoint + k*binsz (k integer) that are > minfull-  *)
(*    wave and <= maxfullwave.  With wavemin it is all wavemin + k*binsz,  *)
(*    k >= 0, that are <= maxfullwave, and minfullwave and zeropoint are   *)
(*    ignored.  Where IDL's truncation toward zero differs from the floor  *)
(*    (a bound below the grid origin and not on the grid) the outcome is   *)
(*    left open.  Wavelengths are modelled as integer numbers of ticks     *)
(*    (value = ticks / scale, scale a power of two, so that the floating   *)
(*    point of the real function is exact on the enumerated domain).       *)
(*                                                                         *)
(* DEVIATIONS OF THE CODE FOUND WITH THIS SPECIFICATION (Dev_* below)      *)
(* D-X01-1 Dev_LastFieldExclusive: sdss_astrombad treats lastfield as the  *)
(*    first good field (field < lastfield); the column is the LAST bad      *)
(*    field (IDL original: field le lastfield), so single-field rows        *)
(*    (firstfield = lastfield) never match.                                 *)
(* D-X01-2 Dev_FooSentinel: filternum('foo') returns [0..4] although 'foo'  *)
(*    is not a filter name (docstring: KeyError).                           *)
(* D-X01-3 Dev_WidePlateCrash: latest_mjd of a plate >= 10000 that has      *)
(*    spPlate files raises AttributeError.                                  *)
(*                                                                         *)
(* LEFT OPEN (documentation silent): findspec (needs plate lists and       *)
(* spPlate data; not exercised), sdss_path('reObj'), filternum(number),    *)
(* filtername(k) for k outside 0..4, unset PHOTO_* roots, default topdir   *)
(* of spec_path for an all-digit run2d, latest_mjd for a plate without     *)
(* files, wavevector bounds below the grid origin and off the grid,        *)
(* numpy scalars / mixed scalar-array arguments of sdss_astrombad, the     *)
(* download branch (PHOTOLOG_DIR unset).                                   *)
(*                                                                         *)
(* MODEL.  A string is a sequence of one-character strings; Chars turns a  *)
(* TLA+ string literal into that form and Text back (TLC only prints and   *)
(* compares the result).  A call is [fn, a]; Expected(fn, a) is            *)
(* [err, val]: err = "" normal return of val, err = "KeyError" /           *)
(* "ValueError" the call must raise that, err = "open" nothing is          *)
(* demanded.  Optional arguments / environment variables are               *)
(* [set |-> BOOLEAN, s |-> STRING].                                        *)
(***************************************************************************)
EXTENDS Integers, Sequences, SequencesExt, FiniteSets

(* ------------------------------ strings ------------------------------ *)
Chars(s) == [i \in 1 .. Len(s) |-> SubSeq(s, i, i)] \o <<>>
Text(cs) == FoldLeft(LAMBDA acc, ch : acc \o ch, "", cs)

Digits == <<"0", "1", "2", "3", "4", "5", "6", "7", "8", "9">>
IsDigit(ch) == \E k \in 1 .. 10 : Digits[k] = ch
DigitVal(ch) == (CHOOSE k \in 1 .. 10 : Digits[k] = ch) - 1
AllDigits(cs) == cs # <<>> /\ \A k \in DOMAIN cs : IsDigit(cs[k])
Num(cs) == FoldLeft(LAMBDA acc, ch : acc * 10 + DigitVal(ch), 0, cs)
Max2(x, y) == IF x < y THEN y ELSE x

(* decimal rendering of a natural number, and the same left-padded with zeros to width w *)
RECURSIVE NatStr(_)
NatStr(n) == IF n < 10 THEN <<Digits[n + 1]>> ELSE NatStr(n \div 10) \o <<Digits[(n % 10) + 1]>>
ZPad(n, w) == LET s == NatStr(n) IN IF Len(s) >= w THEN s ELSE ([i \in 1 .. (w - Len(s)) |-> "0"] \o s)

PadLaw(n, w) == LET s == ZPad(n, w) IN
  /\ AllDigits(s) /\ Num(s) = n
  /\ Len(s) = Max2(w, Len(NatStr(n)))
  /\ (Len(s) > w => s[1] # "0")

JoinAll(parts, sep) ==
  IF parts = <<>> THEN <<>> ELSE FoldLeft(LAMBDA acc, p : acc \o <<sep>> \o p, parts[1], Tail(parts))
Split(cs, sep) ==
  LET st == FoldLeft(LAMBDA acc, ch : IF ch = sep THEN [done |-> Append(acc.done, acc.cur), cur |-> <<>>]
                                      ELSE [acc EXCEPT !.cur = Append(@, ch)],
                     [done |-> <<>>, cur |-> <<>>], cs)
  IN Append(st.done, st.cur)

Ok(v) == [err |-> "", val |-> v]
KeyErr == [err |-> "KeyError", val |-> ""]
ValErr == [err |-> "ValueError", val |-> ""]
Open == [err |-> "open", val |-> ""]
None == [set |-> FALSE, s |-> ""]
Some(s) == [set |-> TRUE, s |-> s]

(* ------------------------------ filters ------------------------------ *)
FilterNames == <<"u", "g", "r", "i", "z">>
IsFilterName(s) == \E k \in 1 .. 5 : FilterNames[k] = s
FilterIndex(s) == (CHOOSE k \in 1 .. 5 : FilterNames[k] = s) - 1

(* a filter argument: a number [isnum |-> TRUE, n] or a string [isnum |-> FALSE, s] *)
NumF(n) == [isnum |-> TRUE, n |-> n, s |-> ""]
StrF(s) == [isnum |-> FALSE, n |-> 0, s |-> s]

ExpFiltername(a) ==
  IF ~a.f.isnum THEN Ok(a.f.s)
  ELSE IF a.f.n \in 0 .. 4 THEN Ok(FilterNames[a.f.n + 1])
  ELSE Open

ExpFilternum(a) ==
  IF ~a.given THEN Ok(<<0, 1, 2, 3, 4>>)
  ELSE IF IsFilterName(a.s) THEN Ok(FilterIndex(a.s))
  ELSE KeyErr

FilterInverse == /\ \A k \in 0 .. 4 : ExpFilternum([given |-> TRUE, s |-> ExpFiltername([f |-> NumF(k)]).val]) = Ok(k)
                 /\ \A k \in 1 .. 5 : ExpFiltername([f |-> NumF(ExpFilternum([given |-> TRUE, s |-> FilterNames[k]]).val)])
                                         = Ok(FilterNames[k])

(* --------------------------- the file types --------------------------- *)
(* pre: name prefix; filt / fld / rr: the name carries the filter letter / the field / the rerun;      *)
(* ext: extension; root: which environment variable is the top of the tree; sub: directory below the   *)
(* run; cc: the directory ends with the camcol.  Raw data (root "data") has no rerun level.            *)
T(pre, filt, fld, rr, ext, root, sub, cc) ==
  [pre |-> pre, filt |-> filt, fld |-> fld, rr |-> rr, ext |-> ext, root |-> root, sub |-> sub, cc |-> cc]

TypeTable ==
  [ apObj             |-> T("apObj",             TRUE,  TRUE,  FALSE, ".fit",  "redux",   "objcs",       TRUE),
    calibMatch        |-> T("calibMatch",        FALSE, FALSE, FALSE, ".fits", "redux",   "nfcalib",     FALSE),
    calibPhotom       |-> T("calibPhotom",       FALSE, FALSE, FALSE, ".fits", "redux",   "nfcalib",     FALSE),
    calibPhotomGlobal |-> T("calibPhotomGlobal", FALSE, FALSE, FALSE, ".fits", "calib",   "nfcalib",     FALSE),
    fakeIdR           |-> T("idR",               TRUE,  TRUE,  FALSE, ".fit",  "data",    "fake_fields", TRUE),
    fpAtlas           |-> T("fpAtlas",           FALSE, TRUE,  FALSE, ".fit",  "redux",   "objcs",       TRUE),
    fpBIN             |-> T("fpBIN",             TRUE,  TRUE,  FALSE, ".fit",  "redux",   "objcs",       TRUE),
    fpC               |-> T("fpC",               TRUE,  TRUE,  FALSE, ".fit",  "redux",   "objcs",       TRUE),
    fpFieldStat       |-> T("fpFieldStat",       FALSE, TRUE,  FALSE, ".fit",  "redux",   "objcs",       TRUE),
    fpM               |-> T("fpM",               TRUE,  TRUE,  FALSE, ".fit",  "redux",   "objcs",       TRUE),
    fpObjc            |-> T("fpObjc",            FALSE, TRUE,  FALSE, ".fit",  "redux",   "objcs",       TRUE),
    hoggObj           |-> T("hoggObj",           FALSE, TRUE,  FALSE, ".fits", "redux",   "objcs",       TRUE),
    idFF              |-> T("idFF",              TRUE,  FALSE, FALSE, ".fit",  "redux",   "objcs",       TRUE),
    idR               |-> T("idR",               TRUE,  TRUE,  FALSE, ".fit",  "data",    "fields",      TRUE),
    idRR              |-> T("idRR",              TRUE,  TRUE,  FALSE, ".fit",  "data",    "fields",      TRUE),
    psBB              |-> T("psBB",              TRUE,  TRUE,  FALSE, ".fit",  "redux",   "objcs",       TRUE),
    psFF              |-> T("psFF",              TRUE,  FALSE, FALSE, ".fit",  "redux",   "objcs",       TRUE),
    psField           |-> T("psField",           FALSE, TRUE,  FALSE, ".fit",  "redux",   "objcs",       TRUE),
    reObjGlobal       |-> T("reObjGlobal",       FALSE, TRUE,  FALSE, ".fits", "resolve", "resolve",     TRUE),
    reObjRun          |-> T("reObjRun",          FALSE, TRUE,  FALSE, ".fits", "redux",   "resolve",     TRUE),
    reObjTmp          |-> T("reObjTmp",          FALSE, TRUE,  FALSE, ".fits", "resolve", "resolve",     TRUE),
    tsField           |-> T("tsField",           FALSE, TRUE,  TRUE,  ".fit",  "redux",   "calibChunks", TRUE) ]

Known(ft) == ft \in DOMAIN TypeTable
Roots == {"redux", "data", "calib", "resolve"}
TableWellFormed ==
  \A ft \in DOMAIN TypeTable : LET t == TypeTable[ft] IN
     /\ t.root \in Roots /\ t.ext \in {".fit", ".fits"}
     /\ (t.pre = ft \/ ft = "fakeIdR")
     /\ (t.rr => t.fld)

InDomainRCF(run, camcol, field) == run \in 0 .. 65535 /\ camcol \in 1 .. 6 /\ field \in 0 .. 4095

FilterLetters(f) == IF f.isnum THEN <<FilterNames[f.n + 1]>> ELSE Chars(f.s)

BaseName(ft, a) ==
  LET t == TypeTable[ft] IN
  JoinAll(<<Chars(t.pre), ZPad(a.run, 6),
            (IF t.filt THEN FilterLetters(a.filter) ELSE <<>>) \o ZPad(a.camcol, 1)>>
          \o (IF t.rr THEN <<Chars(a.rerun)>> ELSE <<>>)
          \o (IF t.fld THEN <<ZPad(a.field, 4)>> ELSE <<>>), "-")
  \o Chars(t.ext)

Directory(ft, a) ==
  LET t == TypeTable[ft] IN
  JoinAll(<<Chars(a.env[t.root])>>
          \o (IF t.root = "data" THEN <<>> ELSE <<Chars(a.rerun)>>)
          \o <<NatStr(a.run), Chars(t.sub)>>
          \o (IF t.cc THEN <<ZPad(a.camcol, 1)>> ELSE <<>>), "/")

(* "reObj" is resolved by the presence of PHOTO_RESOLVE *)
Resolved(ft, hasResolve) == IF ft = "reObj" THEN (IF hasResolve THEN "reObjGlobal" ELSE "reObjRun") ELSE ft
NeedsMissingRoot(ft, a) == TypeTable[ft].root = "resolve" /\ ~a.hasResolve

(* a = [ftype, run, camcol, field, rerun, filter, no_path, env, hasResolve] *)
ExpName(a) ==
  LET ft == Resolved(a.ftype, a.hasResolve) IN
  IF ~Known(ft) THEN KeyErr
  ELSE IF a.filter.isnum /\ a.filter.n \notin 0 .. 4 THEN Open
  ELSE IF a.no_path THEN Ok(Text(BaseName(ft, a)))
  ELSE IF NeedsMissingRoot(ft, a) THEN Open
  ELSE Ok(Text(Directory(ft, a) \o <<"/">> \o BaseName(ft, a)))

(* a = [ftype, run, camcol, rerun, env, hasResolve]; "reObj" itself: open *)
ExpPath(a) ==
  IF a.ftype = "reObj" THEN Open
  ELSE IF ~Known(a.ftype) THEN KeyErr
  ELSE IF NeedsMissingRoot(a.ftype, a) THEN Open
  ELSE Ok(Text(Directory(a.ftype, a)))

(* laws of the naming scheme, evaluated on every enumerated sdss_name call *)
NameLaws(a) ==
  LET ft == Resolved(a.ftype, a.hasResolve)
      e == ExpName(a)
  IN (Known(ft) /\ e.err = "") =>
     LET t == TypeTable[ft]
         b == BaseName(ft, a)
         stem == SubSeq(b, 1, Len(b) - Len(t.ext))
         parts == Split(stem, "-")
         np == 3 + (IF t.rr THEN 1 ELSE 0) + (IF t.fld THEN 1 ELSE 0)
     IN /\ SubSeq(b, Len(b) - Len(t.ext) + 1, Len(b)) = Chars(t.ext)
        /\ Len(parts) = np
        /\ parts[1] = Chars(t.pre)
        /\ Len(parts[2]) = 6 /\ AllDigits(parts[2]) /\ Num(parts[2]) = a.run
        /\ Num(<<Last(parts[3])>>) = a.camcol
        /\ (t.filt => Front(parts[3]) = FilterLetters(a.filter))
        /\ (~t.filt => Len(parts[3]) = 1)
        /\ (t.fld => Len(parts[np]) = 4 /\ AllDigits(parts[np]) /\ Num(parts[np]) = a.field)
        /\ (t.rr => parts[4] = Chars(a.rerun))
        /\ PadLaw(a.run, 6) /\ PadLaw(a.field, 4) /\ PadLaw(a.camcol, 1)
        (* N3: full name = directory / base name *)
        /\ (~a.no_path =>
              LET d == ExpPath([ftype |-> ft, run |-> a.run, camcol |-> a.camcol, rerun |-> a.rerun,
                                env |-> a.env, hasResolve |-> a.hasResolve])
                  n == ExpName([a EXCEPT !.no_path = TRUE])
              IN d.err = "" /\ e.val = d.val \o "/" \o n.val)
        (* N2: number and letter agree; filter ignored when the name has none *)
        /\ (a.filter.isnum => ExpName([a EXCEPT !.filter = StrF(FilterNames[a.filter.n + 1])]) = e)
        /\ (~t.filt => ExpName([a EXCEPT !.filter = StrF("z")]) = e)
        (* N5: the alias *)
        /\ ExpName([a EXCEPT !.ftype = ft]) = e

(* ------------------------------ sdss_calib, default_skyversion ------------------------------ *)
ExpCalib(a) == Ok([key |-> TRUE, num |-> 1, den |-> 1])
ExpSkyversion(a) == Ok(2)

(* ------------------------------ sdss_astrombad ------------------------------ *)
(* a = [table (sequence of [run, problem, first, last]), run, camcol, field (sequences of equal length *)
(*      unless conv = "lenmismatch"), conv \in {"scalar", "array", "lenmismatch"}]                      *)
AstromProblems == {"astrom", "rotator"}
RowHits(row, run, field) == row.problem \in AstromProblems /\ row.run = run /\ row.first <= field /\ field <= row.last
FieldBad(table, run, field) == \E k \in DOMAIN table : RowHits(table[k], run, field)

ExpAstrombad(a) ==
  IF Len(a.run) # Len(a.camcol) \/ Len(a.run) # Len(a.field) THEN ValErr
  ELSE IF \E k \in DOMAIN a.run : ~InDomainRCF(a.run[k], a.camcol[k], a.field[k]) THEN ValErr
  ELSE Ok([k \in DOMAIN a.run |-> FieldBad(a.table, a.run[k], a.field[k])] \o <<>>)

AstrombadLaws(a) ==
  LET e == ExpAstrombad(a) IN
  /\ (a.conv = "lenmismatch") => e = ValErr
  /\ e.err = "" =>
       /\ Len(e.val) = Len(a.run)
       (* A2: camcol is irrelevant *)
       /\ \A cc \in 1 .. 6 : ExpAstrombad([a EXCEPT !.camcol = [k \in DOMAIN a.run |-> cc]]) = e
       (* element-wise: an array call is the scalar calls side by side *)
       /\ \A k \in DOMAIN a.run :
            ExpAstrombad([a EXCEPT !.run = <<a.run[k]>>, !.camcol = <<a.camcol[k]>>, !.field = <<a.field[k]>>]).val = <<e.val[k]>>
       (* only astrometric rows matter; row order does not *)
       /\ ExpAstrombad([a EXCEPT !.table = SelectSeq(a.table, LAMBDA r : r.problem \in AstromProblems)]) = e
       /\ ExpAstrombad([a EXCEPT !.table = Reverse(a.table)]) = e
       (* both ends of a range are bad fields *)
       /\ \A j \in DOMAIN a.table : \A k \in DOMAIN a.run :
            (a.table[j].problem \in AstromProblems /\ a.table[j].run = a.run[k]
             /\ a.field[k] \in {a.table[j].first, a.table[j].last} /\ a.table[j].first <= a.table[j].last) => e.val[k]

(* D-X01-1: the last field of a range is treated as good (half-open range) *)
Dev_LastFieldExclusive(a) ==
  IF ExpAstrombad(a).err # "" THEN ExpAstrombad(a)
  ELSE Ok([k \in DOMAIN a.run |->
            \E j \in DOMAIN a.table : LET row == a.table[j] IN
               row.problem \in AstromProblems /\ row.run = a.run[k] /\ row.first <= a.field[k] /\ a.field[k] < row.last] \o <<>>)

(* D-X01-2: the string "foo" is not a filter name but is answered like a call without argument *)
Dev_FooSentinel(a) == IF a.given /\ a.s = "foo" THEN Ok(<<0, 1, 2, 3, 4>>) ELSE ExpFilternum(a)

(* ------------------------------ spec_path ------------------------------ *)
(* a = [plates, conv, path, topdir, run2d (optional arguments), env_run2d, env_boss (environment)] *)
ExpSpecPath(a) ==
  LET dirs(top, r2) == Ok([k \in DOMAIN a.plates |->
                             Text(JoinAll(<<Chars(top), Chars(r2), ZPad(a.plates[k], 4)>>, "/"))] \o <<>>)
  IN IF a.path.set THEN Ok([k \in DOMAIN a.plates |-> a.path.s] \o <<>>)
     ELSE IF ~a.run2d.set /\ ~a.env_run2d.set THEN KeyErr
     ELSE LET r2 == IF a.run2d.set THEN a.run2d.s ELSE a.env_run2d.s IN
          IF a.topdir.set THEN dirs(a.topdir.s, r2)
          ELSE IF AllDigits(Chars(r2)) THEN Open
          ELSE IF ~a.env_boss.set THEN KeyErr
          ELSE dirs(a.env_boss.s, r2)

SpecPathLaws(a) ==
  LET e == ExpSpecPath(a) IN
  e.err = "" =>
    /\ Len(e.val) = Len(a.plates)
    /\ a.path.set => \A k \in DOMAIN e.val : e.val[k] = a.path.s
    /\ ~a.path.set => \A k \in DOMAIN e.val :
         LET comps == Split(Chars(e.val[k]), "/") IN
           /\ AllDigits(Last(comps)) /\ Num(Last(comps)) = a.plates[k] /\ Len(Last(comps)) >= 4
           /\ PadLaw(a.plates[k], 4)
    (* the explicit arguments win over the environment *)
    /\ (a.topdir.set /\ a.run2d.set) =>
         ExpSpecPath([a EXCEPT !.env_run2d = None, !.env_boss = None]) = e

(* ------------------------------ latest_mjd ------------------------------ *)
(* a = [files (sequence of <<plate, mjd>>: the spPlate files present), plates, conv, layout] *)
NoDemand == -1
MjdsOf(files, p) == {files[k][2] : k \in {j \in DOMAIN files : files[j][1] = p}}
Latest(files, p) == LET S == MjdsOf(files, p) IN
                    IF S = {} THEN NoDemand ELSE CHOOSE m \in S : \A x \in S : x <= m
ExpLatestMjd(a) == Ok([k \in DOMAIN a.plates |-> Latest(a.files, a.plates[k])] \o <<>>)

LatestLaws(a) ==
  LET e == ExpLatestMjd(a) IN
  /\ Len(e.val) = Len(a.plates)
  /\ \A k \in DOMAIN a.plates :
       \/ e.val[k] = NoDemand /\ MjdsOf(a.files, a.plates[k]) = {}
       \/ /\ <<a.plates[k], e.val[k]>> \in ToSet(a.files)
          /\ \A j \in DOMAIN a.files : a.files[j][1] = a.plates[k] => a.files[j][2] <= e.val[k]

(* D-X01-3: a plate number of five digits that has spPlate files makes the call fail (AttributeError) *)
Dev_WidePlateCrash(a) ==
  IF \E k \in DOMAIN a.plates : a.plates[k] >= 10000 /\ MjdsOf(a.files, a.plates[k]) # {}
  THEN [err |-> "AttributeError", val |-> ""] ELSE ExpLatestMjd(a)

(* ------------------------------ wavevector ------------------------------ *)
(* a = [min, max, zp, bin (ticks, bin > 0), wm = [set, v], scale]                     *)
Trunc(x, b) == IF x >= 0 THEN x \div b ELSE -((-x) \div b)        \* IDL long(x / b)
TruncIsFloor(x, b) == x >= 0 \/ x % b = 0

WaveBase(a) == IF a.wm.set THEN a.wm.v ELSE a.zp
WaveOpen(a) ==
  IF a.wm.set THEN ~TruncIsFloor(a.max - a.wm.v, a.bin)
  ELSE ~TruncIsFloor(a.min - a.zp, a.bin) \/ ~TruncIsFloor(a.max - a.zp, a.bin)

(* W1, said with sets: the grid values in the wanted interval, in increasing order *)
WaveSet(a) ==
  LET lo == IF a.wm.set THEN a.wm.v ELSE a.min + 1 IN
  {t \in lo .. a.max : (t - WaveBase(a)) % a.bin = 0}
ExpWave(a) == IF WaveOpen(a) THEN Open ELSE Ok(SetToSortSeq(WaveSet(a), LAMBDA x, y : x < y))

(* the IDL original's arithmetic (truncation toward zero), used only for a cross-check *)
IdlWave(a) ==
  LET lo == IF a.wm.set THEN 0 ELSE Trunc(a.min - a.zp, a.bin) + 1
      hi == Trunc(a.max - WaveBase(a), a.bin)
  IN [k \in 1 .. (hi - lo + 1) |-> WaveBase(a) + (lo + k - 1) * a.bin] \o <<>>

WaveLaws(a) ==
  LET e == ExpWave(a) IN
  e.err = "" =>
    /\ e.val = IdlWave(a)
    /\ \A k \in 1 .. (Len(e.val) - 1) : e.val[k + 1] - e.val[k] = a.bin
    /\ \A k \in DOMAIN e.val : e.val[k] <= a.max
    /\ e.val # <<>> => Last(e.val) + a.bin > a.max
    /\ (a.wm.set /\ e.val # <<>>) => e.val[1] = a.wm.v
    /\ (~a.wm.set /\ e.val # <<>>) => (e.val[1] > a.min /\ e.val[1] - a.bin <= a.min)
    /\ a.wm.set => \A d \in {-3, 2} : ExpWave([a EXCEPT !.min = a.min + d, !.zp = a.zp - d]) = e

(* ------------------------------ dispatch ------------------------------ *)
Expected(fn, a) ==
  CASE fn = "sdss_name" -> ExpName(a)
    [] fn = "sdss_path" -> ExpPath(a)
    [] fn = "filtername" -> ExpFiltername(a)
    [] fn = "filternum" -> ExpFilternum(a)
    [] fn = "sdss_calib" -> ExpCalib(a)
    [] fn = "default_skyversion" -> ExpSkyversion(a)
    [] fn = "sdss_astrombad" -> ExpAstrombad(a)
    [] fn = "spec_path" -> ExpSpecPath(a)
    [] fn = "latest_mjd" -> ExpLatestMjd(a)
    [] fn = "wavevector" -> ExpWave(a)

(* does the observed normal return `got` satisfy the specified value `want` *)
Accepts(fn, want, got) ==
  IF fn = "latest_mjd"
  THEN Len(got) = Len(want) /\ \A k \in DOMAIN want : want[k] = NoDemand \/ got[k] = want[k]
  ELSE got = want

(* the outcome under a named deviation, when it differs from the specified one *)
NoDev == [id |-> "", out |-> Open]
SameOutcome(x, y) == x.err = y.err /\ (IF x.err = "" THEN x.val = y.val ELSE TRUE)
Deviation(fn, a) ==
  IF fn = "sdss_astrombad" /\ ~SameOutcome(Dev_LastFieldExclusive(a), ExpAstrombad(a))
  THEN [id |-> "D-X01-1", out |-> Dev_LastFieldExclusive(a)]
  ELSE IF fn = "filternum" /\ a.given /\ a.s = "foo"
  THEN [id |-> "D-X01-2", out |-> Dev_FooSentinel(a)]
  ELSE IF fn = "latest_mjd" /\ ~SameOutcome(Dev_WidePlateCrash(a), ExpLatestMjd(a))
  THEN [id |-> "D-X01-3", out |-> Dev_WidePlateCrash(a)]
  ELSE NoDev
=============================================================================
