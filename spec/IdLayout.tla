---------------------------- MODULE IdLayout ----------------------------
(***************************************************************************)
(* C06 - SDSS objID / specObjID bit layouts.                               *)
(*                                                                         *)
(* A 64-bit identifier is the SET of its set bit positions (TLC integers   *)
(* are 32-bit).  A layout is a sequence of fields; each field owns the bit *)
(* range lo..lo+w-1 and accepts the values min..max.  Pack/Unpack are the  *)
(* documented meaning of the identifiers, written without reference to the *)
(* shifts and masks of the implementation.                                 *)
(*                                                                         *)
(* The call model: one call = a record                                     *)
(*   [kind, f (field values as supplied by the caller), conv]              *)
(* and the specified outcome Expected(call) is [err, id]: err = TRUE means *)
(* "raises ValueError" (id = {}), otherwise id is the identifier's bit set.*)
(***************************************************************************)
EXTENDS Integers, Sequences, FiniteSets

ObjLayout ==
  << [name |-> "skyversion", lo |-> 59, w |-> 4,  min |-> 0, max |-> 15],
     [name |-> "rerun",      lo |-> 48, w |-> 11, min |-> 0, max |-> 2047],
     [name |-> "run",        lo |-> 32, w |-> 16, min |-> 0, max |-> 65535],
     [name |-> "camcol",     lo |-> 29, w |-> 3,  min |-> 1, max |-> 6],
     [name |-> "firstfield", lo |-> 28, w |-> 1,  min |-> 0, max |-> 1],
     [name |-> "field",      lo |-> 16, w |-> 12, min |-> 0, max |-> 4095],
     [name |-> "object",     lo |-> 0,  w |-> 16, min |-> 0, max |-> 65535] >>

(* mjd is the stored value (true MJD - 50000); line and index share bits 0-9 *)
SpecLayout ==
  << [name |-> "plate", lo |-> 50, w |-> 14, min |-> 0, max |-> 16383],
     [name |-> "fiber", lo |-> 38, w |-> 12, min |-> 0, max |-> 4095],
     [name |-> "mjd",   lo |-> 24, w |-> 14, min |-> 0, max |-> 16383],
     [name |-> "run2d", lo |-> 10, w |-> 14, min |-> 0, max |-> 16383],
     [name |-> "line",  lo |-> 0,  w |-> 10, min |-> 0, max |-> 1023] >>

MJDOffset == 50000

LayoutOf(kind) == IF kind = "obj" THEN ObjLayout ELSE SpecLayout
Names(L) == {L[i].name : i \in DOMAIN L}
FieldOf(L, n) == CHOOSE i \in DOMAIN L : L[i].name = n

Bit(v, j) == (v \div (2^j)) % 2
BitsOf(v, lo, w) == {lo + j : j \in {k \in 0..(w-1) : Bit(v, k) = 1}}
Range(F) == F.lo .. (F.lo + F.w - 1)

Pack(L, v) == UNION {BitsOf(v[L[i].name], L[i].lo, L[i].w) : i \in DOMAIN L}

RECURSIVE SumPow(_, _)
SumPow(S, lo) == IF S = {} THEN 0
                 ELSE LET b == CHOOSE x \in S : TRUE IN 2^(b - lo) + SumPow(S \ {b}, lo)

Unpack(L, id) == [n \in Names(L) |-> LET F == L[FieldOf(L, n)] IN SumPow(id \cap Range(F), F.lo)]

InRange(L, v) == \A i \in DOMAIN L : v[L[i].name] \in L[i].min .. L[i].max

(* ---- structural facts about the two layouts (checked once by TLC) ---- *)
LayoutWellFormed(L) ==
  /\ \A i \in DOMAIN L : Range(L[i]) \subseteq 0..63 /\ L[i].max < 2^(L[i].w) /\ L[i].min >= 0
  /\ \A i, j \in DOMAIN L : i # j => Range(L[i]) \cap Range(L[j]) = {}
ObjBit63Empty == 63 \notin UNION {Range(ObjLayout[i]) : i \in DOMAIN ObjLayout}
SpecCoversAll == UNION {Range(SpecLayout[i]) : i \in DOMAIN SpecLayout} = 0..63

(* ---- run2d string form ---- *)
Run2dOfString(N, M, P) == (N - 5) * 10000 + 100 * M + P
StringOfRun2d(r) == << (r \div 10000) + 5, (r % 10000) \div 100, r % 100 >>
Run2dStringOK(N, M, P) == N \in 5..6 /\ M \in 0..99 /\ P \in 0..99 /\ Run2dOfString(N, M, P) < 2^14

(* ---- the call model ---- *)
(* conv: "array"    every field an array of equal length (the case is one element of it)  *)
(*       "scalar"   every field a Python int                                               *)
(*       "array1"   arrays of length one                                                   *)
(*       "lenmismatch" one array argument longer than the others                           *)
(*       "lineindex"   (spec only) line and index both supplied                            *)
(* For kind "spec" the caller supplies the TRUE mjd (f.mjd + 50000) in every convention.   *)
Convs == {"array", "scalar", "array1", "lenmismatch", "lineindex"}

ValueError == [err |-> TRUE, id |-> {}]

Expected(c) ==
  LET L == LayoutOf(c.kind) IN
  IF c.conv = "lenmismatch" THEN ValueError
  ELSE IF c.conv = "lineindex" THEN ValueError
  ELSE IF ~InRange(L, c.f) THEN ValueError
  ELSE [err |-> FALSE, id |-> Pack(L, c.f)]

(* what unpacking an identifier must return: the packed fields; for spec the true MJD *)
ExpectedUnpack(kind, id) ==
  LET u == Unpack(LayoutOf(kind), id) IN
  IF kind = "spec" THEN [u EXCEPT !.mjd = @ + MJDOffset] ELSE u

(* ---- numeric type of the array arguments of the packing functions ---- *)
(* "int or array of int": the element type of an array argument (any NumPy integer width,  *)
(* signed or unsigned, one type per argument) is declared irrelevant - the outcome depends  *)
(* on the field VALUES only.  A type is admissible for a value when the value as supplied   *)
(* by the caller (the true MJD for mjd) is representable in it.  TLC integers are 32-bit,   *)
(* so only the bounds that can matter for them are written down.                            *)
IntForms == {"int64", "int32", "int16", "uint16", "uint8", "int8", "uint32", "uint64"}
FormMax(g) == CASE g = "int8" -> 127 [] g = "uint8" -> 255 [] g = "int16" -> 32767 [] g = "uint16" -> 65535
                [] OTHER -> 2147483647
FormMin(g) == CASE g = "int8" -> -128 [] g = "int16" -> -32768 [] OTHER -> 0
(* v + off is representable in g (off = what the caller adds to the stored value, >= 0).  The  *)
(* statement's premise for mjd is "given as a true MJD > 50000": a type that cannot represent  *)
(* the offset itself (int8, uint8, int16) cannot carry any such MJD and is left open.          *)
FitsForm(g, v, off) == /\ (g \in {"int32", "int64"} \/ v >= FormMin(g) - off)
                       /\ (g \in {"int64", "uint32", "uint64"} \/ v <= FormMax(g) - off)
                       /\ FormMax(g) > off
SuppliedOffset(kind, n) == IF kind = "spec" /\ n = "mjd" THEN MJDOffset ELSE 0
FormsOf(kind, f) == [n \in DOMAIN f |-> {g \in IntForms : FitsForm(g, f[n], SuppliedOffset(kind, n))}]
TypesAdmissible(kind, f, types) ==
  \A n \in DOMAIN f : types[n] \in IntForms /\ FitsForm(types[n], f[n], SuppliedOffset(kind, n))
ExpectedAs(c, types) == Expected(c)
IntFormIndependent(c) ==
  \A g, h \in IntForms : ExpectedAs(c, [n \in DOMAIN c.f |-> g]) = ExpectedAs(c, [n \in DOMAIN c.f |-> h])

(* ---- representation of the identifier handed to the unpacking functions ---- *)
(* "An array containing 64-bit integers or strings": the same identifier may arrive as a   *)
(* native 64-bit integer, as a byte-swapped one (as read from FITS), as a decimal text      *)
(* string or as a decimal BYTE string (a string column read from a FITS table).  The        *)
(* representation is declared irrelevant: what is unpacked depends on the value only.       *)
IdForms == {"int", "swapped", "ustr", "bstr"}
ExpectedUnpackAs(kind, id, form) == ExpectedUnpack(kind, id)
IdFormIndependent(kind, id) ==
  \A g, h \in IdForms : ExpectedUnpackAs(kind, id, g) = ExpectedUnpackAs(kind, id, h)

(* keywords of unwrap_specobjid: the low bits come back in the column "index" instead of    *)
(* "line"; run2d comes back as the string vN_M_P instead of the integer.  Neither changes   *)
(* any other column.                                                                        *)
Opt(a, b) == [lineIndex |-> a, run2dString |-> b, lowcol |-> IF a THEN "index" ELSE "line"]
UnwrapOpts == {Opt(a, b) : a, b \in BOOLEAN}
NoOpts == {[lineIndex |-> FALSE, run2dString |-> FALSE, lowcol |-> ""]}
OptsOf(kind) == IF kind = "spec" THEN UnwrapOpts ELSE NoOpts

(* ---- arrays of arbitrary length ---- *)
(* "scalar and array calls agree element by element": an array argument of ANY length n is  *)
(* described by a short sequence of field tuples (base) repeated cyclically; the element at *)
(* 0-based position p is ElemAt(base, p).  The outcome at position p is the outcome of the  *)
(* call on that element alone - length and position are declared irrelevant - and a single  *)
(* out-of-range element anywhere rejects the whole call.                                    *)
ElemAt(base, p) == base[(p % Len(base)) + 1]
ElemCall(kind, t, conv) == [kind |-> kind, f |-> t, conv |-> conv]
ExpectedAt(kind, base, p) == Expected(ElemCall(kind, ElemAt(base, p), "array"))
(* everything observable about one element: the identifier, its unpacked fields, the vN_M_P form *)
ElemOutcome(kind, t) ==
  LET e == Expected(ElemCall(kind, t, "array")) IN
  [err |-> e.err, id |-> e.id,
   u |-> IF e.err THEN [none |-> 0] ELSE ExpectedUnpack(kind, e.id),
   s |-> IF e.err \/ kind # "spec" THEN <<>> ELSE StringOfRun2d(Unpack(SpecLayout, e.id).run2d)]
(* the array of length n with the element at position p replaced by the tuple t *)
ExpectedArrayWith(kind, base, n, p, t) ==
  IF ~InRange(LayoutOf(kind), t) \/ \E j \in DOMAIN base : ~InRange(LayoutOf(kind), base[j])
  THEN ValueError ELSE [err |-> FALSE, id |-> {}]
PositionIndependent(kind, base, p) ==
  /\ ExpectedAt(kind, base, p) = ExpectedAt(kind, base, p % Len(base))
  /\ \A k \in {"scalar", "array1"} : Expected(ElemCall(kind, ElemAt(base, p), k)) = ExpectedAt(kind, base, p)

(* ---- laws, evaluated on every enumerated call ---- *)
RoundTrip(c) == InRange(LayoutOf(c.kind), c.f) =>
                   Unpack(LayoutOf(c.kind), Pack(LayoutOf(c.kind), c.f)) = c.f
NoStrayBits(c) == LET L == LayoutOf(c.kind) IN InRange(L, c.f) =>
                   \A i \in DOMAIN L :
                      Pack(L, c.f) \cap Range(L[i]) = BitsOf(c.f[L[i].name], L[i].lo, L[i].w)
RejectedNeverWrapped(c) == ~InRange(LayoutOf(c.kind), c.f) => Expected(c) = ValueError
ConvIndependent(c) == \A k \in {"array", "scalar", "array1"} :
                         Expected([c EXCEPT !.conv = k]) = Expected([c EXCEPT !.conv = "array"])

(* ---- named deviation (what the code did before the fix; see known_findings.json) ---- *)
(* D-C06-1: in the array conventions the true MJD was not reduced by 50000, so every     *)
(* true MJD is out of the 14-bit range and the call raises.                               *)
Dev_ArrayMjdNotReduced(c) ==
  IF c.kind = "spec" /\ c.conv \in {"array", "array1"} THEN ValueError ELSE Expected(c)
(* D-C06-2: sdss_objid shifts every array argument in the argument's own integer type, so   *)
(* with an argument type narrower than 64 bits the fields whose lowest bit lies at or above  *)
(* the type's width are lost (run with 32-bit arguments, more with 16- and 8-bit ones), and  *)
(* uint64 arguments raise TypeError.  Where it applies: in-range array calls of kind "obj"   *)
(* with at least one argument type other than int64.                                         *)
Dev_ObjNarrowTypeApplies(c, types) ==
  /\ c.kind = "obj" /\ c.conv \in {"array", "array1"} /\ InRange(ObjLayout, c.f)
  /\ \E n \in DOMAIN c.f : types[n] # "int64"
(* D-C06-3: sdss_specobjid subtracts 50000 from an mjd ARRAY in the array's own type; in a     *)
(* uint16 array a true MJD t <= 847 wraps to t + 15536, which is inside the 14-bit range, so   *)
(* the call is accepted and packs a different MJD instead of raising ValueError.                *)
Dev_Uint16MjdWraps(c, types) ==
  IF /\ c.kind = "spec" /\ c.conv \in {"array", "array1"} /\ types.mjd = "uint16"
     /\ c.f.mjd + MJDOffset \in 0..847 /\ InRange(SpecLayout, [c.f EXCEPT !.mjd = 0])
  THEN [err |-> FALSE, id |-> Pack(SpecLayout, [c.f EXCEPT !.mjd = c.f.mjd + 65536])]
  ELSE Expected(c)
=============================================================================
