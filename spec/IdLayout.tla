---------------------------- MODULE IdLayout ----------------------------
(***************************************************************************)
(* C06 - SDSS objID / specObjID bit layouts.                               *)
(*                                                                         *)
(* A 64-bit identifier is the SET of its set bit positions (TLC integers   *)
(* are 32-bit).  A layout is a sequence of fields; each field owns the bit *)
(* range lo..lo+w-1 and accepts the values min..max.  Pack/Unpack are the  *)
(* documented meaning of the identifiers, written without reference to the *)
(* shifts and masks of the implementation.                                 *)
(*                                                                         *)
(* The call model: one call = a record                                     *)
(*   [kind, f (field values as supplied by the caller), conv]              *)
(* and the specified outcome Expected(call) is [err, id]: err = TRUE means *)
(* "raises ValueError" (id = {}), otherwise id is the identifier's bit set.*)
(***************************************************************************)
EXTENDS Integers, Sequences, FiniteSets

ObjLayout ==
  << [name |-> "skyversion", lo |-> 59, w |-> 4,  min |-> 0, max |-> 15],
     [name |-> "rerun",      lo |-> 48, w |-> 11, min |-> 0, max |-> 2047],
     [name |-> "run",        lo |-> 32, w |-> 16, min |-> 0, max |-> 65535],
     [name |-> "camcol",     lo |-> 29, w |-> 3,  min |-> 1, max |-> 6],
     [name |-> "firstfield", lo |-> 28, w |-> 1,  min |-> 0, max |-> 1],
     [name |-> "field",      lo |-> 16, w |-> 12, min |-> 0, max |-> 4095],
     [name |-> "object",     lo |-> 0,  w |-> 16, min |-> 0, max |-> 65535] >>

(* mjd is the stored value (true MJD - 50000); line and index share bits 0-9 *)
SpecLayout ==
  << [name |-> "plate", lo |-> 50, w |-> 14, min |-> 0, max |-> 16383],
     [name |-> "fiber", lo |-> 38, w |-> 12, min |-> 0, max |-> 4095],
     [name |-> "mjd",   lo |-> 24, w |-> 14, min |-> 0, max |-> 16383],
     [name |-> "run2d", lo |-> 10, w |-> 14, min |-> 0, max |-> 16383],
     [name |-> "line",  lo |-> 0,  w |-> 10, min |-> 0, max |-> 1023] >>

MJDOffset == 50000

LayoutOf(kind) == IF kind = "obj" THEN ObjLayout ELSE SpecLayout
Names(L) == {L[i].name : i \in DOMAIN L}
FieldOf(L, n) == CHOOSE i \in DOMAIN L : L[i].name = n

Bit(v, j) == (v \div (2^j)) % 2
BitsOf(v, lo, w) == {lo + j : j \in {k \in 0..(w-1) : Bit(v, k) = 1}}
Range(F) == F.lo .. (F.lo + F.w - 1)

Pack(L, v) == UNION {BitsOf(v[L[i].name], L[i].lo, L[i].w) : i \in DOMAIN L}

RECURSIVE SumPow(_, _)
SumPow(S, lo) == IF S = {} THEN 0
                 ELSE LET b == CHOOSE x \in S : TRUE IN 2^(b - lo) + SumPow(S \ {b}, lo)

Unpack(L, id) == [n \in Names(L) |-> LET F == L[FieldOf(L, n)] IN SumPow(id \cap Range(F), F.lo)]

InRange(L, v) == \A i \in DOMAIN L : v[L[i].name] \in L[i].min .. L[i].max

(* ---- structural facts about the two layouts (checked once by TLC) ---- *)
LayoutWellFormed(L) ==
  /\ \A i \in DOMAIN L : Range(L[i]) \subseteq 0..63 /\ L[i].max < 2^(L[i].w) /\ L[i].min >= 0
  /\ \A i, j \in DOMAIN L : i # j => Range(L[i]) \cap Range(L[j]) = {}
ObjBit63Empty == 63 \notin UNION {Range(ObjLayout[i]) : i \in DOMAIN ObjLayout}
SpecCoversAll == UNION {Range(SpecLayout[i]) : i \in DOMAIN SpecLayout} = 0..63

(* ---- run2d string form ---- *)
Run2dOfString(N, M, P) == (N - 5) * 10000 + 100 * M + P
StringOfRun2d(r) == << (r \div 10000) + 5, (r % 10000) \div 100, r % 100 >>
Run2dStringOK(N, M, P) == N \in 5..6 /\ M \in 0..99 /\ P \in 0..99 /\ Run2dOfString(N, M, P) < 2^14

(* ---- the call model ---- *)
(* conv: "array"    every field an array of equal length (the case is one element of it)  *)
(*       "scalar"   every field a Python int                                               *)
(*       "array1"   arrays of length one                                                   *)
(*       "lenmismatch" one array argument longer than the others                           *)
(*       "lineindex"   (spec only) line and index both supplied                            *)
(* For kind "spec" the caller supplies the TRUE mjd (f.mjd + 50000) in every convention.   *)
Convs == {"array", "scalar", "array1", "lenmismatch", "lineindex"}

ValueError == [err |-> TRUE, id |-> {}]

Expected(c) ==
  LET L == LayoutOf(c.kind) IN
  IF c.conv = "lenmismatch" THEN ValueError
  ELSE IF c.conv = "lineindex" THEN ValueError
  ELSE IF ~InRange(L, c.f) THEN ValueError
  ELSE [err |-> FALSE, id |-> Pack(L, c.f)]

(* what unpacking an identifier must return: the packed fields; for spec the true MJD *)
ExpectedUnpack(kind, id) ==
  LET u == Unpack(LayoutOf(kind), id) IN
  IF kind = "spec" THEN [u EXCEPT !.mjd = @ + MJDOffset] ELSE u

(* ---- laws, evaluated on every enumerated call ---- *)
RoundTrip(c) == InRange(LayoutOf(c.kind), c.f) =>
                   Unpack(LayoutOf(c.kind), Pack(LayoutOf(c.kind), c.f)) = c.f
NoStrayBits(c) == LET L == LayoutOf(c.kind) IN InRange(L, c.f) =>
                   \A i \in DOMAIN L :
                      Pack(L, c.f) \cap Range(L[i]) = BitsOf(c.f[L[i].name], L[i].lo, L[i].w)
RejectedNeverWrapped(c) == ~InRange(LayoutOf(c.kind), c.f) => Expected(c) = ValueError
ConvIndependent(c) == \A k \in {"array", "scalar", "array1"} :
                         Expected([c EXCEPT !.conv = k]) = Expected([c EXCEPT !.conv = "array"])

(* ---- named deviation (what the code did before the fix; see known_findings.json) ---- *)
(* D-C06-1: in the array conventions the true MJD was not reduced by 50000, so every     *)
(* true MJD is out of the 14-bit range and the call raises.                               *)
Dev_ArrayMjdNotReduced(c) ==
  IF c.kind = "spec" /\ c.conv \in {"array", "array1"} THEN ValueError ELSE Expected(c)
=============================================================================
