----------------------------- MODULE MangleGeom -----------------------------
(***************************************************************************)
(* X06 - Mangle polygon OBJECTS: construction, areas, polygon algebra      *)
(* (growth unit; no listed property covers them.  Membership itself -      *)
(* is_in_cap / is_in_polygon / is_in_window / set_use_caps / the readers - *)
(* is property C12, module Mangle, whose exact-rational geometry and       *)
(* operators are reused here and not repeated).                            *)
(*                                                                         *)
(* Behavioural statements decided.  Sources: the docstrings of             *)
(* pydl.pydlutils.mangle, the Mangle conventions they name (Hamilton &     *)
(* Tegmark 2004; Swanson et al. 2008: a cap is (x, cm), cm = 1 - cos of    *)
(* the polar angle, cm < 0 = the complement, cm = 0 or cm <= -2 = zero     *)
(* area), pydl's own tests as examples of the documented behaviour.        *)
(*                                                                         *)
(* S1  ManglePolygon(x=X, cm=CM [, weight, pixel, id, use_caps, str]) is   *)
(*     the polygon whose cap k is (X[k], CM[k]): ncaps = number of rows,   *)
(*     .x / .cm hold the given values in the given order, every keyword    *)
(*     given is the attribute's value - a keyword equal to ZERO is a value *)
(*     and not "absent" -, weight defaults to 1.0 and use_caps to "all     *)
(*     caps" ((1 << ncaps) - 1) [pydl tests]; the defaults of pixel and id *)
(*     are not documented and are left open.  x without cm (or cm without  *)
(*     x) is a ValueError.  No argument at all = the whole sky: ncaps = 0, *)
(*     str = 4 pi.  The memory layout / dtype of X and CM is irrelevant    *)
(*     (values only, as in Mangle.tla).                                    *)
(* S2  The polygon owns its data: changing the caller's arrays afterwards  *)
(*     does not change the polygon.  copy() ("an exact copy") and the copy *)
(*     constructor ManglePolygon(p) return a NEW polygon with the same     *)
(*     ncaps, x, cm, use_caps, weight, pixel, id, str that shares no data  *)
(*     with the original - for every polygon, the whole-sky one included.  *)
(* S3  ManglePolygon(row) for a row of a FITS polygon table has the row's  *)
(*     NCAPS, WEIGHT, PIXEL, IFIELD (id = -1 when the table has no IFIELD),*)
(*     STR, USE_CAPS, and as x / cm the first NCAPS entries of XCAPS /     *)
(*     CMCAPS (the table is padded to its widest polygon; a table whose    *)
(*     widest polygon has one cap included).                               *)
(* S4  cmminf(): None for a polygon without caps; otherwise the index of a *)
(*     USED cap of smallest area, where the area of a cap is 2 pi cm for   *)
(*     cm >= 0 and 2 pi (2 + cm) for cm < 0 ("accounting for negative caps *)
(*     and use_caps").  Which of several equally small caps is not said:   *)
(*     any of them.  A polygon with caps none of which is used: open.      *)
(* S5  gzeroar(): "True if the area is zero"; detection rule as in Mangle: *)
(*     some cap of the polygon has cm = 0 or cm <= -2.  A polygon is the   *)
(*     intersection of its USED caps (is_in_polygon, C12), so the caps     *)
(*     that count are the used ones; False for the whole sky.              *)
(* S6  garea(): 4 pi without caps; 2 pi cm (2 pi (2 + cm) for cm < 0) with *)
(*     one used cap; 0 when gzeroar.  For two or more used caps of         *)
(*     non-zero area the module documents the computation as NOT           *)
(*     implemented ("incomplete ... returning a dummy value", announced by *)
(*     a PydlutilsUserWarning): there the outcome is open AS LONG AS the   *)
(*     warning is issued; a value returned WITHOUT the warning is claimed  *)
(*     to be the area and must be it.  The area is known exactly (as a     *)
(*     rational multiple of pi) for the families ExactArea below: coaxial  *)
(*     caps (nested, complementary, bands) cut by axis-aligned             *)
(*     hemispheres (lunes, octants); other polygons are judged against an  *)
(*     independent quadrature (Trace_MangleGeom, tolerance stated there).  *)
(*     .str is the keyword / STR column when one was given, otherwise the  *)
(*     value of garea().                                                   *)
(* S7  p.add_caps(X, CM) is a NEW polygon whose caps are p's caps followed *)
(*     by the given caps (ncaps adds up), with p's weight, pixel and id;   *)
(*     it "contains the additional caps": a point is in it iff it is in p  *)
(*     and in every added cap.  p and the arguments are unchanged and      *)
(*     share no data with the result.                                      *)
(* S8  p.polyn(q, n [, complement]) "intersection of a polygon with the    *)
(*     n-th cap of another polygon" = p.add_caps(cap n of q), the cap's cm *)
(*     negated when complement; 0 <= n < q.ncaps.  Point in result iff in  *)
(*     p and in (the complement of) cap n of q.  p and q unchanged.        *)
(* S9  circle_cap(radius, points) returns (x, cm): x the unit vectors of   *)
(*     the points (Cartesian as given, or converted from RA/Dec), cm =     *)
(*     1 - cos(radius) per point, radius in degrees given as a float, a    *)
(*     0-d value or one value per point; a radius array of another length, *)
(*     or points that are neither 2- nor 3-vectors, raise.  The cap        *)
(*     contains exactly the points at great-circle distance < radius.      *)
(* S10 is_cap_used(use_caps, i) is bit i of use_caps.                      *)
(* S11 FITS_polygon: the aliases x X -> XCAPS, cm CM -> CMCAPS, id ID ->   *)
(*     IFIELD, ncaps, weight, pixel, str, use_caps -> the upper-case       *)
(*     column, by item and by attribute; other names: item access as for   *)
(*     any FITS table, attribute access AttributeError.  PolygonList is a  *)
(*     list with a .header (the keyword, else a fresh empty list).         *)
(* S12 _single_polygon(obj): a ManglePolygon -> itself; a PolygonList or   *)
(*     FITS_polygon of length one -> its polygon; a FITS table row -> the  *)
(*     polygon of S3; anything else ValueError.                            *)
(*                                                                         *)
(* A polygon is [caps, use] exactly as in Mangle.tla.  Areas are rational  *)
(* multiples of pi: the rational <<n, d>> stands for n/d * pi.             *)
(***************************************************************************)
EXTENDS Mangle

Two == <<2, 1>>
Four == <<4, 1>>
MinusOne == <<-1, 1>>

(* ------------------------------------------------------------------ S4, S5 *)
CapFrac(cm) == IF Le(Zero, cm) THEN cm ELSE Add(Two, cm)      \* area of one cap / (2 pi)
ZeroCap(cm) == cm = Zero \/ Le(cm, Neg(Two))
CmInDomain(cm) == Le(cm, Two)
Used(poly) == UsedCaps(poly, 0)                                \* cap numbers from 1
ZeroAr(poly) == \E k \in Used(poly) : ZeroCap(poly.caps[k].cm)
CmMinSet(poly) == {k - 1 : k \in {k \in Used(poly) : \A j \in Used(poly) :
                                     Le(CapFrac(poly.caps[k].cm), CapFrac(poly.caps[j].cm))}}
CmMinf(poly) == IF NCaps(poly) = 0 THEN [kind |-> "none", idx |-> {}]
                ELSE IF Used(poly) = {} THEN [kind |-> "open", idx |-> {}]
                ELSE [kind |-> "index", idx |-> CmMinSet(poly)]

(* ------------------------------------------------------------------ S6: exact areas *)
(* Family: all used caps are centred on +-u for one direction u ("main" caps), except   *)
(* hemispheres (|cm| = 1) centred on coordinate axes perpendicular to u, which then must *)
(* itself be a coordinate axis.  With h = u.p the main caps confine h to an interval      *)
(* (lo, hi) of [-1, 1], of area 2 pi (hi - lo) (Archimedes); each perpendicular axis b    *)
(* admits the signs of p_b that all hemispheres along b agree on; the region is the band  *)
(* times Q of the 4 quadrants in azimuth: area = 2 pi (hi - lo) Q / 4.                    *)
AxIdx(v) == IF v[2] = Zero /\ v[3] = Zero /\ v[1] \in {One, MinusOne} THEN 1
            ELSE IF v[1] = Zero /\ v[3] = Zero /\ v[2] \in {One, MinusOne} THEN 2
            ELSE IF v[1] = Zero /\ v[2] = Zero /\ v[3] \in {One, MinusOne} THEN 3 ELSE 0
AxSign(v) == IF v[AxIdx(v)] = One THEN 1 ELSE -1
IsHemi(cap) == cap.cm \in {One, MinusOne}
MainCaps(poly, u) == {k \in Used(poly) : poly.caps[k].x \in {u, NegV(u)}}
Qualifies(poly, u) ==
  LET rest == Used(poly) \ MainCaps(poly, u) IN
  /\ \A k \in Used(poly) : CmInDomain(poly.caps[k].cm)
  /\ rest # {} => AxIdx(u) # 0
  /\ \A k \in rest : AxIdx(poly.caps[k].x) \notin {0, AxIdx(u)} /\ IsHemi(poly.caps[k])
(* the interval of h = u.p admitted by one main cap (s = +1: centred on u, -1: on -u) *)
LoOf(cap, s) == IF s = 1 THEN (IF Le(Zero, cap.cm) THEN Sub(One, cap.cm) ELSE MinusOne)
                ELSE (IF Le(Zero, cap.cm) THEN MinusOne ELSE Sub(MinusOne, cap.cm))
HiOf(cap, s) == IF s = 1 THEN (IF Le(Zero, cap.cm) THEN One ELSE Add(One, cap.cm))
                ELSE (IF Le(Zero, cap.cm) THEN Sub(cap.cm, One) ELSE One)
MaxOf(S) == CHOOSE m \in S : \A q \in S : Le(q, m)
MinOf(S) == CHOOSE m \in S : \A q \in S : Le(m, q)
SgnOf(poly, u, k) == IF poly.caps[k].x = u THEN 1 ELSE -1
BandLen(poly, u) ==
  LET M == MainCaps(poly, u)
      lo == MaxOf({LoOf(poly.caps[k], SgnOf(poly, u, k)) : k \in M} \cup {MinusOne})
      hi == MinOf({HiOf(poly.caps[k], SgnOf(poly, u, k)) : k \in M} \cup {One})
  IN IF Lt(lo, hi) THEN Sub(hi, lo) ELSE Zero
Quadrants(poly, u) ==
  LET rest == Used(poly) \ MainCaps(poly, u) IN
  IF rest = {} THEN 4
  ELSE LET B == (1..3) \ {AxIdx(u)}
           b1 == CHOOSE b \in B : TRUE
           b2 == CHOOSE b \in B : b # b1
           along(b) == IF \E k \in rest : AxIdx(poly.caps[k].x) = b
                       THEN Cardinality({s \in {-1, 1} : \A k \in rest :
                               AxIdx(poly.caps[k].x) = b =>
                                  AxSign(poly.caps[k].x) * (IF poly.caps[k].cm = One THEN 1 ELSE -1) = s})
                       ELSE 2
       IN along(b1) * along(b2)
AreaAbout(poly, u) == Mul(BandLen(poly, u), R(Quadrants(poly, u), 2))       \* / pi
Directions(poly) == {poly.caps[k].x : k \in Used(poly)}
GoodDirections(poly) == {u \in Directions(poly) : Qualifies(poly, u)}
ExactArea(poly) ==
  IF Used(poly) = {} \/ GoodDirections(poly) = {} THEN [known |-> FALSE, area |-> Zero]
  ELSE [known |-> TRUE, area |-> AreaAbout(poly, CHOOSE u \in GoodDirections(poly) : TRUE)]

(* what garea() must return; kind "exact": the value; "incomplete": any value when the   *)
(* incompleteness warning is issued, the area (area if known, else the oracle's) when not; *)
(* "open": nothing is promised                                                             *)
Garea(poly) ==
  IF NCaps(poly) = 0 THEN [kind |-> "exact", known |-> TRUE, area |-> Four]
  ELSE IF Used(poly) = {} \/ \E k \in Used(poly) : ~CmInDomain(poly.caps[k].cm)
       THEN [kind |-> "open", known |-> FALSE, area |-> Zero]
  ELSE IF ZeroAr(poly) THEN [kind |-> "exact", known |-> TRUE, area |-> Zero]
  ELSE IF Cardinality(Used(poly)) = 1
       THEN [kind |-> "exact", known |-> TRUE,
             area |-> Mul(Two, CapFrac(poly.caps[CHOOSE k \in Used(poly) : TRUE].cm))]
  ELSE [kind |-> "incomplete", known |-> ExactArea(poly).known, area |-> ExactArea(poly).area]

(* ------------------------------------------------------------------ S7, S8 *)
NewBits(poly, new) == {NCaps(poly) + j - 1 : j \in DOMAIN new}
AddCaps(poly, new) == [caps |-> poly.caps \o new, use |-> poly.use \cup NewBits(poly, new)]
CapN(other, n, complement) ==
  MkCap(other.caps[n + 1].x, IF complement THEN Neg(other.caps[n + 1].cm) ELSE other.caps[n + 1].cm)
PolyN(poly, other, n, complement) == AddCaps(poly, << CapN(other, n, complement) >>)
(* the documented meaning, stated without reference to use-masks: in poly and in every new cap *)
IntersectionAllowed(poly, new, p) ==
  LET a == PolyAllowed(poly, p, 0)
      A == [j \in DOMAIN new |-> CapAllowed(new[j], p)]
  IN IF a = {FALSE} \/ \E j \in DOMAIN new : A[j] = {FALSE} THEN {FALSE}
     ELSE IF a = {TRUE} /\ \A j \in DOMAIN new : A[j] = {TRUE} THEN {TRUE} ELSE BOOLEAN

(* ------------------------------------------------------------------ S9 *)
(* the radii (degrees) whose cosine is rational (Niven) *)
ExactRadii == {0, 60, 90, 120, 180}
CosDeg(r) == CASE r = 0 -> One [] r = 60 -> <<1, 2>> [] r = 90 -> Zero [] r = 120 -> <<-1, 2>> [] r = 180 -> MinusOne
CircleCm(r) == Sub(One, CosDeg(r))
(* great-circle distance of p from x is < r  <=>  x.p > cos r; equality = on the circle, not decided *)
CircleAllowed(x, r, p) == IF Dot3(x, p) = CosDeg(r) THEN BOOLEAN ELSE {Lt(CosDeg(r), Dot3(x, p))}

(* S1: keyword construction needs both x and cm *)
CtorArgKinds == {"x_only", "cm_only", "weight_only", "x_and_cm"}
CtorArgs(kind) == IF kind = "x_and_cm" THEN "ok" ELSE "ValueError"
(* ill-shaped arguments: "raise" = any exception *)
CircleArgKinds == {"radius_longer", "radius_shorter", "points_4_columns", "points_1_column", "radius_per_point"}
CircleArgs(kind) == IF kind = "radius_per_point" THEN "ok" ELSE "raise"

(* ------------------------------------------------------------------ S10 *)
CapUsed(mask, i) == i \in mask

(* ------------------------------------------------------------------ S11, S12 *)
AliasNames == {"x", "X", "cm", "CM", "id", "ID", "ncaps", "weight", "pixel", "str", "use_caps"}
Columns == {"XCAPS", "CMCAPS", "IFIELD", "NCAPS", "WEIGHT", "PIXEL", "STR", "USE_CAPS"}
AliasOf(k) == CASE k \in {"x", "X"} -> "XCAPS" [] k \in {"cm", "CM"} -> "CMCAPS" [] k \in {"id", "ID"} -> "IFIELD"
                [] k = "ncaps" -> "NCAPS" [] k = "weight" -> "WEIGHT" [] k = "pixel" -> "PIXEL"
                [] k = "str" -> "STR" [] k = "use_caps" -> "USE_CAPS"
(* out: "col" the column named col; "raise" any exception; "AttributeError"; "open" *)
Lookup(key, how) ==
  IF key \in AliasNames THEN [out |-> "col", col |-> AliasOf(key)]
  ELSE IF key \in Columns THEN (IF how = "item" THEN [out |-> "col", col |-> key] ELSE [out |-> "open", col |-> ""])
  ELSE IF how = "attr" THEN [out |-> "AttributeError", col |-> ""] ELSE [out |-> "raise", col |-> ""]

SingleKinds == {"polygon", "wholesky", "list0", "list1", "list2", "fits1", "fits2", "row", "plainlist", "none", "int",
                "str", "tuple"}
Single(kind) == CASE kind \in {"polygon", "wholesky", "list1"} -> "same"
                  [] kind \in {"fits1", "row"} -> "converted"
                  [] kind = "plainlist" -> "open"          \* a plain list is not one of the documented classes
                  [] OTHER -> "ValueError"

(* ------------------------------------------------------------------ laws *)
SingleCapArea(poly) ==
  (Cardinality(Used(poly)) = 1 /\ CmInDomain(poly.caps[CHOOSE k \in Used(poly) : TRUE].cm)) =>
     /\ ExactArea(poly).known
     /\ ExactArea(poly).area = IF ZeroAr(poly) THEN Zero
                               ELSE Mul(Two, CapFrac(poly.caps[CHOOSE k \in Used(poly) : TRUE].cm))
DirectionIrrelevant(poly) == \A u, v \in GoodDirections(poly) : AreaAbout(poly, u) = AreaAbout(poly, v)
AreaBounds(poly) == ExactArea(poly).known => (Le(Zero, ExactArea(poly).area) /\ Le(ExactArea(poly).area, Four))
ZeroArIsZero(poly) == (ZeroAr(poly) /\ ExactArea(poly).known) => ExactArea(poly).area = Zero
UnusedCapsIrrelevant(poly) ==
  LET ks == Used(poly)
      first == CHOOSE k \in ks : TRUE
      only == [caps |-> [k \in 1..NCaps(poly) |-> IF k \in ks THEN poly.caps[k] ELSE poly.caps[first]],
               use |-> 0..(NCaps(poly) - 1)]       \* every unused cap replaced by a second copy of a used one, then used
  IN ExactArea(poly).known => (ExactArea(only).known /\ ExactArea(only).area = ExactArea(poly).area)
(* "split the polygon into two smaller polygons and sum the two areas" *)
SplitAdditive(poly, cap) ==
  LET a == ExactArea(AddCaps(poly, <<cap>>))
      b == ExactArea(AddCaps(poly, << MkCap(cap.x, Neg(cap.cm)) >>))
  IN (ExactArea(poly).known /\ a.known /\ b.known /\ cap.cm # Zero /\ Lt(Neg(Two), cap.cm) /\ Lt(cap.cm, Two)) =>
        Add(a.area, b.area) = ExactArea(poly).area
Monotone(poly, cap) ==
  (ExactArea(poly).known /\ ExactArea(AddCaps(poly, <<cap>>)).known) =>
      Le(ExactArea(AddCaps(poly, <<cap>>)).area, ExactArea(poly).area)
(* a point strictly inside every used cap is an interior point: the area cannot be zero; *)
(* a polygon of full area has no point strictly outside                                   *)
InteriorPointPositiveArea(poly, p) ==
  ExactArea(poly).known =>
     /\ (PolyAllowed(poly, p, 0) = {TRUE} /\ Used(poly) # {}) => Lt(Zero, ExactArea(poly).area)
     /\ ExactArea(poly).area = Four => PolyAllowed(poly, p, 0) # {FALSE}
AddCapsIsIntersection(poly, new, p) ==
  /\ PolyAllowed(AddCaps(poly, new), p, 0) = IntersectionAllowed(poly, new, p)
  /\ NCaps(AddCaps(poly, new)) = NCaps(poly) + Len(new)
  /\ InPolygon(AddCaps(poly, new), p, 0) = (InPolygon(poly, p, 0) /\ \A j \in DOMAIN new : InCap(new[j], p))
PolyNComplementPartitions(poly, other, n, p) ==      \* off the boundary exactly one of the two halves holds a point of poly
  LET c1 == CapN(other, n, FALSE) IN
  (c1.cm # Zero /\ ~OnBoundary(c1, p) /\ InPolygon(poly, p, 0)) =>
     (InPolygon(PolyN(poly, other, n, FALSE), p, 0) # InPolygon(PolyN(poly, other, n, TRUE), p, 0))
CircleIsCap(x, r, p) == CircleAllowed(x, r, p) = CapAllowed(MkCap(x, CircleCm(r)), p)
CmMinfLaws(poly) ==
  LET m == CmMinf(poly) IN
  /\ m.kind = "index" => (m.idx # {} /\ m.idx \subseteq {k - 1 : k \in Used(poly)})
  /\ (m.kind = "index" /\ ZeroAr(poly) /\ \A k \in Used(poly) : Le(Neg(Two), poly.caps[k].cm)) =>
        \A i \in m.idx : ZeroCap(poly.caps[i + 1].cm)
  /\ (m.kind = "index" /\ Cardinality(Used(poly)) = 1) => m.idx = {k - 1 : k \in Used(poly)}

(* ------------------------------------------------------------------ named deviations *)
(* D-X06-1: add_caps / polyn hand the old use_caps to the new polygon, so the appended    *)
(* caps are not used and the "intersection" is the first polygon again.                   *)
Dev_AppendedCapsUnused(poly, new) == [caps |-> poly.caps \o new, use |-> poly.use]
(* D-X06-2: gzeroar looks at every cap, used or not; garea of two or more used caps asks  *)
(* gzeroar first and returns 0.0 without a warning.                                        *)
Dev_ZeroArAnyCap(poly) == \E k \in 1..NCaps(poly) : ZeroCap(poly.caps[k].cm)
Dev_GareaZeroFromUnusedCap(poly) ==
  Garea(poly).kind = "incomplete" /\ Dev_ZeroArAnyCap(poly)
(* D-X06-6: cmminf starts its search at 2.0 and accepts only strictly smaller caps: when    *)
(* every used cap is a full-sphere cap (cm = 2) it answers -1.                              *)
Dev_CmMinfMissesFullCaps(poly) == Used(poly) # {} /\ \A k \in Used(poly) : poly.caps[k].cm = Two
(* garea then reads cm[-1], the LAST cap of the polygon, used or not, as the smallest cap *)
Dev_GareaFromLastCap(poly) == IF NCaps(poly) = 0 THEN Four ELSE Mul(Two, CapFrac(poly.caps[NCaps(poly)].cm))
(* D-X06-3: the whole-sky polygon keeps x = cm = None: copy(), the copy constructor,       *)
(* add_caps and polyn raise AttributeError on it.                                          *)
Dev_WholeSkyHasNoArrays(poly, noargs) == NCaps(poly) = 0 /\ noargs
(* D-X06-4: add_caps stores the appended caps in arrays of the dtype of the old caps: with  *)
(* integer-typed old caps the new direction cosines and cm are truncated towards zero.       *)
Trunc(q) == IF q[1] >= 0 THEN << q[1] \div q[2], 1 >> ELSE << -((-q[1]) \div q[2]), 1 >>
TruncCap(cap) == MkCap(<< Trunc(cap.x[1]), Trunc(cap.x[2]), Trunc(cap.x[3]) >>, Trunc(cap.cm))
Dev_AppendedTruncated(poly, new) == poly.caps \o [j \in DOMAIN new |-> TruncCap(new[j])]
=============================================================================
