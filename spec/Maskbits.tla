----------------------------- MODULE Maskbits -----------------------------
(***************************************************************************)
(* C07 - bitmask names and values (SDSS maskbits).                         *)
(*                                                                         *)
(* Vocabulary                                                              *)
(*   name    a sequence of one-character strings ("QSO" = <<"Q","S","O">>);*)
(*           file-side names are upper case, query-side names come in any  *)
(*           case and are folded with Fold before they are looked up.      *)
(*   value   a 64-bit value is the SET of its set bit positions (0..63);   *)
(*           TLC integers are 32-bit, no power of two is ever computed.    *)
(*   file    [rows  : sequence of <<group, label, bit>>   (MASKBITS rows), *)
(*            alias : sequence of <<alias, group>>        (MASKALIAS rows),*)
(*            afirst: BOOLEAN (alias rows precede the MASKBITS rows)]      *)
(*           The order of the rows is part of the file text and has no     *)
(*           meaning.                                                      *)
(*   map     the meaning of a file: a set of <<group, label, bit>> triples *)
(*           in which an alias owns a copy of the triples of its group.    *)
(*                                                                         *)
(* The machine: variable `cache` is the module-level cache                 *)
(* (pydl.pydlutils.sdss.maskbits), `ret` the outcome of the last call.     *)
(* Load replaces the cache, the three queries read it.                     *)
(*                                                                         *)
(* A call is a record [op, file, g, ls, v, fe, we, form]; `form` is the    *)
(* calling convention (list / tuple / single string, int / uint64 / int64) *)
(* and never influences the specified outcome.  An outcome is a record     *)
(* [err, val, names, l, f, which]; err = TRUE means "raises KeyError".     *)
(*                                                                         *)
(* What the statement leaves open is not in the alphabet of the machine    *)
(* (Specified is FALSE): repeated labels in a conversion, an empty label   *)
(* list for an unknown group, an existence query about no label at all,    *)
(* queries before any load, files that are not well formed.                *)
(***************************************************************************)
EXTENDS Integers, Sequences, FiniteSets, SequencesExt

Bits == 0..63

(* ---- names and case folding ---- *)
UpperOf == [a |-> "A", b |-> "B", c |-> "C", d |-> "D", e |-> "E", f |-> "F", g |-> "G", h |-> "H",
            i |-> "I", j |-> "J", k |-> "K", l |-> "L", m |-> "M", n |-> "N", o |-> "O", p |-> "P",
            q |-> "Q", r |-> "R", s |-> "S", t |-> "T", u |-> "U", v |-> "V", w |-> "W", x |-> "X",
            y |-> "Y", z |-> "Z"]
UpChar(ch) == IF ch \in DOMAIN UpperOf THEN UpperOf[ch] ELSE ch
Fold(nm) == [i \in 1..Len(nm) |-> UpChar(nm[i])]
FoldNames(ns) == [i \in 1..Len(ns) |-> Fold(ns[i])]
Elems(sq) == {sq[i] : i \in 1..Len(sq)}
Distinct(sq) == Cardinality(Elems(sq)) = Len(sq)

(* ---- files ---- *)
NoFile == [rows |-> <<>>, alias |-> <<>>, afirst |-> FALSE]
FileGroups(fl) == {rw[1] : rw \in Elems(fl.rows)}
RowsOfGroup(fl, grp) == {rw \in Elems(fl.rows) : rw[1] = grp}

(* one label per bit and one bit per label inside a group; upper-case, non-empty names;  *)
(* an alias is a new name for a group that has rows                                       *)
WellFormedFile(fl) ==
  /\ \A i \in 1..Len(fl.rows) :
        LET rw == fl.rows[i] IN
        /\ Len(rw[1]) > 0 /\ Len(rw[2]) > 0 /\ Fold(rw[1]) = rw[1] /\ Fold(rw[2]) = rw[2]
        /\ rw[3] \in Bits
  /\ Cardinality({<<rw[1], rw[2]>> : rw \in Elems(fl.rows)}) = Len(fl.rows)
  /\ Cardinality({<<rw[1], rw[3]>> : rw \in Elems(fl.rows)}) = Len(fl.rows)
  /\ \A i \in 1..Len(fl.alias) :
        LET al == fl.alias[i] IN
        /\ Len(al[1]) > 0 /\ Fold(al[1]) = al[1]
        /\ al[1] \notin FileGroups(fl) /\ al[2] \in FileGroups(fl)
  /\ Cardinality({al[1] : al \in Elems(fl.alias)}) = Len(fl.alias)

FileMap(fl) ==
  Elems(fl.rows) \cup
  UNION {{<<al[1], rw[2], rw[3]>> : rw \in RowsOfGroup(fl, al[2])} : al \in Elems(fl.alias)}

(* ---- maps ---- *)
GroupsIn(mp) == {tr[1] : tr \in mp}
Of(mp, grp) == {tr \in mp : tr[1] = grp}
LabelsIn(mp, grp) == {tr[2] : tr \in Of(mp, grp)}
DefinedBits(mp, grp) == {tr[3] : tr \in Of(mp, grp)}
BitOf(mp, grp, lab) == (CHOOSE tr \in Of(mp, grp) : tr[2] = lab)[3]

(* ---- outcomes ---- *)
NoRet == [err |-> FALSE, val |-> {}, names |-> <<>>, l |-> FALSE, f |-> <<>>, which |-> <<>>]
KeyError == [NoRet EXCEPT !.err = TRUE]

(* names -> value *)
FlagvalSpecified(mp, gq, lsq) ==
  /\ Distinct(FoldNames(lsq))
  /\ (Len(lsq) = 0 => Fold(gq) \in GroupsIn(mp))
FlagvalRet(mp, gq, lsq) ==
  LET grp == Fold(gq)
      ls == FoldNames(lsq)
  IN IF Len(ls) = 0 THEN NoRet
     ELSE IF grp \notin GroupsIn(mp) THEN KeyError
     ELSE IF \E i \in 1..Len(ls) : ls[i] \notin LabelsIn(mp, grp) THEN KeyError
     ELSE [NoRet EXCEPT !.val = {BitOf(mp, grp, ls[i]) : i \in 1..Len(ls)}]

(* value -> names: the labels of the defined set bits, by ascending bit; a zero value   *)
(* names nothing in any group                                                           *)
FlagnameRet(mp, gq, vv) ==
  LET grp == Fold(gq) IN
  IF vv = {} THEN NoRet
  ELSE IF grp \notin GroupsIn(mp) THEN KeyError
  ELSE LET hits == {tr \in Of(mp, grp) : tr[3] \in vv}
           srt == SetToSortSeq(hits, LAMBDA a, b : a[3] < b[3])
       IN [NoRet EXCEPT !.names = [i \in 1..Len(srt) |-> srt[i][2]]]

(* existence: never raises; l = every label exists, f (when asked) = the group exists,   *)
(* which (when asked) = one answer per label                                             *)
FlagexistSpecified(lsq) == Len(lsq) > 0
FlagexistRet(mp, gq, lsq, fe, we) ==
  LET grp == Fold(gq)
      ls == FoldNames(lsq)
      known == grp \in GroupsIn(mp)
      w == [i \in 1..Len(ls) |-> known /\ ls[i] \in LabelsIn(mp, grp)]
  IN [NoRet EXCEPT !.l = \A i \in 1..Len(ls) : w[i],
                   !.f = IF fe THEN <<known>> ELSE <<>>,
                   !.which = IF we THEN w ELSE <<>>]

(* ---- calls ---- *)
Ops == {"load", "flagval", "flagname", "flagexist"}
NoCall == [op |-> "none", file |-> NoFile, g |-> <<>>, ls |-> <<>>, v |-> {}, fe |-> FALSE, we |-> FALSE,
           form |-> ""]
Specified(mp, cl) ==
  CASE cl.op = "flagval" -> FlagvalSpecified(mp, cl.g, cl.ls)
    [] cl.op = "flagname" -> cl.v \subseteq Bits
    [] cl.op = "flagexist" -> FlagexistSpecified(cl.ls)
    [] OTHER -> FALSE
Outcome(mp, cl) ==
  CASE cl.op = "flagval" -> FlagvalRet(mp, cl.g, cl.ls)
    [] cl.op = "flagname" -> FlagnameRet(mp, cl.g, cl.v)
    [] cl.op = "flagexist" -> FlagexistRet(mp, cl.g, cl.ls, cl.fe, cl.we)
    [] OTHER -> NoRet

(* ---- the machine ---- *)
VARIABLES cache, ret

MInit == cache = [loaded |-> FALSE, m |-> {}] /\ ret = NoRet

Load(fl) == /\ WellFormedFile(fl)
            /\ cache' = [loaded |-> TRUE, m |-> FileMap(fl)]
            /\ ret' = NoRet
Flagval(gq, lsq) == /\ cache.loaded /\ FlagvalSpecified(cache.m, gq, lsq)
                    /\ ret' = FlagvalRet(cache.m, gq, lsq)
                    /\ UNCHANGED cache
Flagname(gq, vv) == /\ cache.loaded /\ vv \subseteq Bits
                    /\ ret' = FlagnameRet(cache.m, gq, vv)
                    /\ UNCHANGED cache
Flagexist(gq, lsq, fe, we) == /\ cache.loaded /\ FlagexistSpecified(lsq)
                              /\ ret' = FlagexistRet(cache.m, gq, lsq, fe, we)
                              /\ UNCHANGED cache
Do(cl) == CASE cl.op = "load" -> Load(cl.file)
            [] cl.op = "flagval" -> Flagval(cl.g, cl.ls)
            [] cl.op = "flagname" -> Flagname(cl.g, cl.v)
            [] cl.op = "flagexist" -> Flagexist(cl.g, cl.ls, cl.fe, cl.we)
            [] OTHER -> FALSE

TypeOK == /\ cache.loaded \in BOOLEAN
          /\ \A tr \in cache.m : tr[3] \in Bits
          /\ ret.err \in BOOLEAN /\ ret.val \subseteq Bits /\ ret.l \in BOOLEAN
          /\ (~cache.loaded => cache.m = {})

(* ---- laws: each is about one specified query cl on a map mp and its outcome o ---- *)
IsQuery(cl) == cl.op \in {"flagval", "flagname", "flagexist"}

(* the value is exactly the OR of the labels' bits: a bit is set iff one of the labels owns it *)
ValIsUnion(mp, cl, o) ==
  (cl.op = "flagval" /\ ~o.err) =>
     /\ \A b \in Bits : (b \in o.val) <=> (\E i \in 1..Len(cl.ls) : <<Fold(cl.g), Fold(cl.ls[i]), b>> \in mp)
     /\ Cardinality(o.val) = Len(cl.ls)

(* the names are labels of the group, one per defined set bit, in ascending bit order *)
NamesAscending(mp, cl, o) ==
  (cl.op = "flagname" /\ ~o.err /\ cl.v # {}) =>
     LET ns == o.names
         grp == Fold(cl.g)
     IN /\ \A i \in 1..Len(ns) : ns[i] \in LabelsIn(mp, grp)
        /\ \A i, j \in 1..Len(ns) : i < j => BitOf(mp, grp, ns[i]) < BitOf(mp, grp, ns[j])
        /\ {BitOf(mp, grp, ns[i]) : i \in 1..Len(ns)} = cl.v \cap DefinedBits(mp, grp)

(* names -> value -> names gives the same labels back (sorted by bit) *)
RoundTripNames(mp, cl, o) ==
  (cl.op = "flagval" /\ ~o.err) =>
     LET back == FlagnameRet(mp, cl.g, o.val)
     IN /\ ~back.err
        /\ Elems(back.names) = Elems(FoldNames(cl.ls))
        /\ Len(back.names) = Len(cl.ls)

(* value -> names -> value is the identity on the defined bits *)
RoundTripValue(mp, cl, o) ==
  (cl.op = "flagname" /\ Fold(cl.g) \in GroupsIn(mp)) =>
     /\ ~o.err
     /\ FlagvalSpecified(mp, cl.g, o.names)
     /\ FlagvalRet(mp, cl.g, o.names).val = cl.v \cap DefinedBits(mp, Fold(cl.g))

(* every query about an alias has the outcome of the same query about its group *)
AliasSame(fl, cl) ==
  LET mp == FileMap(fl) IN
  \A al \in Elems(fl.alias) :
     /\ Specified(mp, [cl EXCEPT !.g = al[1]]) = Specified(mp, [cl EXCEPT !.g = al[2]])
     /\ Outcome(mp, [cl EXCEPT !.g = al[1]]) = Outcome(mp, [cl EXCEPT !.g = al[2]])

(* the outcome only depends on the folded names *)
CaseInsensitive(mp, cl, o) ==
  o = Outcome(mp, [cl EXCEPT !.g = Fold(@), !.ls = FoldNames(@)])

(* KeyError exactly when a lookup is needed and fails *)
UnknownRaises(mp, cl, o) ==
  LET grp == Fold(cl.g) IN
  /\ (cl.op = "flagval" /\ Len(cl.ls) > 0) =>
        (o.err <=> (grp \notin GroupsIn(mp) \/
                    \E i \in 1..Len(cl.ls) : \A tr \in mp : ~(tr[1] = grp /\ tr[2] = Fold(cl.ls[i]))))
  /\ (cl.op = "flagname" /\ cl.v # {}) => (o.err <=> grp \notin GroupsIn(mp))
  /\ (cl.op = "flagname" /\ cl.v = {}) => (~o.err /\ o.names = <<>>)

(* the existence query never raises and answers per label *)
ExistNeverRaises(mp, cl, o) ==
  cl.op = "flagexist" =>
     LET has(i) == \E tr \in mp : tr[1] = Fold(cl.g) /\ tr[2] = Fold(cl.ls[i])
     IN /\ ~o.err
        /\ o.l <=> (\A i \in 1..Len(cl.ls) : has(i))
        /\ cl.fe => o.f = <<Fold(cl.g) \in GroupsIn(mp)>>
        /\ ~cl.fe => o.f = <<>>
        /\ cl.we => (Len(o.which) = Len(cl.ls) /\ \A i \in 1..Len(cl.ls) : o.which[i] <=> has(i))
        /\ ~cl.we => o.which = <<>>
=============================================================================
