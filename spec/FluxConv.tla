---------------------------- MODULE FluxConv ----------------------------
(***************************************************************************)
(* C19 - wavelength (air <-> vacuum), photometric-system (SDSS -> AB) and  *)
(* band-flux (filter_thru) conversions are self-consistent.                *)
(*                                                                         *)
(* TLA+ has no reals.  What this module carries exactly:                   *)
(*   Part 1  the input-kind dispatch and the 2000 Angstrom guard of        *)
(*           airtovac / vactoair as a function  (fn, kind, class pattern)  *)
(*           |-> (answer form, allowed input/output relation per element); *)
(*   Part 2  the AB offsets as integers in milli-magnitudes and the way    *)
(*           the three forms (magnitude, flux, inverse variance) use them; *)
(*   Part 3  the LAWS of the statement as predicates over a recorded call  *)
(*           history.  A history names real numbers by identifiers and     *)
(*           carries the pairwise discrepancy matrices measured by the     *)
(*           harness (scaled integers); the law, its quantification over   *)
(*           the history and the counting of triggered instances are here. *)
(* Written from the property statement and the documented behaviour        *)
(* (Ciddor 1996 conversion not applied below 2000 A; sdss-calib/845), not  *)
(* from pydl's code.                                                       *)
(***************************************************************************)
EXTENDS Integers, Sequences, FiniteSets

(* ======================= Part 1: dispatch and guard ======================= *)
Fns == {"airtovac", "vactoair"}
(* how the caller hands over the wavelength(s)                                            *)
(*   float   Python float            npfloat numpy float64 scalar   array0  0-d ndarray   *)
(*   q0A/q0nm/q0um  scalar Quantity  array   1-d ndarray            qA/qnm/qum 1-d Quantity *)
(* "float, array and Quantity input": an array is an array whatever its element type, and *)
(* an integer-valued wavelength is that wavelength:                                       *)
(*   pyint Python int   npint numpy integer scalar   iarray0 0-d integer array            *)
(*   iarray 1-d integer array (of any WIDTH, see Widths)   qAi / qnmi  Quantity built from an *)
(*   integer array (Angstrom / nm)    npfloat32, f32array  single-precision scalar, array *)
DoubleScalarKinds == {"float", "npfloat", "array0", "q0A", "q0nm", "q0um"}
DoubleArrayKinds == {"array", "qA", "qnm", "qum"}
IntegerKinds == {"pyint", "npint", "iarray0", "iarray", "qAi", "qnmi"}
SingleKinds == {"npfloat32", "f32array"}
ScalarKinds == DoubleScalarKinds \cup {"pyint", "npint", "iarray0", "npfloat32"}
ArrayKinds == DoubleArrayKinds \cup {"iarray", "qAi", "qnmi", "f32array"}
Kinds == ScalarKinds \cup ArrayKinds
QuantityKinds == {"q0A", "q0nm", "q0um", "qA", "qnm", "qum", "qAi", "qnmi"}
UnitOf(k) == IF k \in {"q0nm", "qnm", "qnmi"} THEN "nm" ELSE IF k \in {"q0um", "qum"} THEN "um" ELSE "A"
(* the same calling convention with the wavelength expressed in Angstrom / as a scalar /  *)
(* as a double-precision float                                                            *)
InAngstrom(k) == IF k \in {"q0A", "q0nm", "q0um"} THEN "q0A" ELSE IF k \in {"qA", "qnm", "qum"} THEN "qA"
                 ELSE IF k = "qnmi" THEN "qAi" ELSE k
ScalarOf(k) == IF k = "array" THEN "float" ELSE IF k = "qA" THEN "q0A" ELSE IF k = "qnm" THEN "q0nm"
               ELSE IF k = "qum" THEN "q0um" ELSE IF k = "iarray" THEN "pyint"
               ELSE IF k = "qAi" THEN "q0A" ELSE IF k = "qnmi" THEN "q0nm"
               ELSE IF k = "f32array" THEN "npfloat32" ELSE k
DoubleOf(k) == IF k \in {"pyint", "npint", "npfloat32"} THEN "float"
               ELSE IF k = "iarray0" THEN "array0"
               ELSE IF k \in {"iarray", "f32array"} THEN "array"
               ELSE IF k = "qAi" THEN "qA" ELSE IF k = "qnmi" THEN "qnm" ELSE k
(* how closely two answers for the same wavelength must agree: a single-precision INPUT   *)
(* cannot demand more than single precision (the answer may be computed in either);       *)
(* integers are exact inputs and get the full tolerance                                    *)
Precision(k) == IF k \in SingleKinds THEN "single" ELSE "double"

(* position of one wavelength relative to the guard.  "at" = exactly 2000 A when the      *)
(* caller's unit is Angstrom; for nm / um callers "at" also covers the values that the    *)
(* unit conversion cannot tell from 2000 A (the statement says "below" and "above").      *)
Classes == {"below", "at", "above"}

(* relation of one output element to its input element, as the harness observes it:       *)
(*   identical  same bits          equal  not identical but closer than the tolerance     *)
(*   greater / less  differ by at least the tolerance, in that direction                  *)
Rels == {"identical", "equal", "greater", "less"}
Direction(fn) == IF fn = "airtovac" THEN "greater" ELSE "less"      \* vacuum > air

Allowed(fn, cls, kind) ==
  IF cls = "below" THEN (IF UnitOf(kind) = "A" THEN {"identical"} ELSE {"identical", "equal"})
  ELSE IF cls = "above" THEN {Direction(fn)}
  ELSE (* at the guard the statement leaves open whether the wavelength is converted *)
       (IF UnitOf(kind) = "A" THEN {"identical", Direction(fn)} ELSE {"identical", "equal", Direction(fn)})

(* the form of the answer: a Quantity iff the caller passed one, in the caller's unit;     *)
(* a scalar (0-dimensional) answer for a scalar input, else as many elements as the input *)
AnswerForm(kind) == [quantity |-> kind \in QuantityKinds, unit |-> UnitOf(kind), scalar |-> kind \in ScalarKinds]

(* How the array is laid out in memory is not part of the statement: the outcome depends   *)
(* on the VALUES handed over only.  An array argument may be read-only (setflags /        *)
(* frombuffer), a strided view (every second element of a longer array), byte-swapped     *)
(* (big-endian, as read from FITS) or a transposed (Fortran-ordered) 2-d view.            *)
Layouts == {"plain", "readonly", "strided", "byteswapped", "transposed2d"}
LayoutsOf(kind) == IF kind \in ScalarKinds THEN {"plain"}
                   ELSE IF kind \in QuantityKinds THEN {"plain", "readonly", "strided"} ELSE Layouts
ABLayouts == {"plain", "readonly", "strided", "byteswapped", "fortran"}
(* Nor is the numeric TYPE in which integral values are handed over: a numpy-typed integer *)
(* wavelength may come in any width that holds it.  "na" for kinds without a numpy integer *)
(* type.  A wavelength at or above 2000 A does not fit in 8 bits (for nm Quantities the     *)
(* same restriction is kept, conservatively).                                               *)
Widths == {"int64", "int32", "int16", "uint16", "uint8"}
WidthKinds == {"npint", "iarray0", "iarray", "qAi", "qnmi"}
Fits(width, pat) == width = "uint8" => \A p \in DOMAIN pat : pat[p] = "below"
(* the <<layout, width>> combinations enumerated for a kind *)
Variants(kind) == IF kind = "iarray" THEN Layouts \X Widths
                  ELSE IF kind \in {"qAi", "qnmi"} THEN ({"plain"} \X Widths) \cup ({"plain", "readonly", "strided"} \X {"int64"})
                  ELSE IF kind \in {"npint", "iarray0"} THEN {"plain"} \X Widths
                  ELSE LayoutsOf(kind) \X {"na"}

(* one call: [fn, kind, pat, layout, width] with pat a non-empty sequence of classes (length 1 for scalar kinds); *)
(* Expected looks neither at the layout nor at the width                                                   *)
Expected(c) == [raises |-> FALSE,
                form |-> AnswerForm(c.kind),
                len |-> Len(c.pat),
                allowed |-> [p \in DOMAIN c.pat |-> Allowed(c.fn, c.pat[p], c.kind)],
                precision |-> Precision(c.kind),
                inputkept |-> TRUE]

(* ---- laws of the dispatch function, evaluated on every enumerated call ---- *)
Coarse(S) == {IF r = "equal" THEN "identical" ELSE r : r \in S}
(* wavelengths below 2000 A unchanged, vacuum > air above, whatever the kind *)
GuardPartition(c) == \A p \in DOMAIN c.pat :
     /\ c.pat[p] = "below" => Expected(c).allowed[p] \subseteq {"identical", "equal"}
     /\ c.pat[p] = "above" => Expected(c).allowed[p] = {Direction(c.fn)}
(* the two functions move a wavelength in opposite directions (a necessary condition for  *)
(* being mutual inverses) and agree on what is left alone                                  *)
OppositeDirections(c) == LET o == [c EXCEPT !.fn = IF c.fn = "airtovac" THEN "vactoair" ELSE "airtovac"] IN
     \A p \in DOMAIN c.pat :
        /\ c.pat[p] = "above" => Expected(c).allowed[p] \cap Expected(o).allowed[p] = {}
        /\ c.pat[p] = "below" => Expected(c).allowed[p] = Expected(o).allowed[p]
(* an array answer is the element-wise scalar answer *)
ArrayIsMapOfScalar(c) == c.kind \in ArrayKinds =>
     \A p \in DOMAIN c.pat :
        Expected(c).allowed[p] = Expected([fn |-> c.fn, kind |-> ScalarOf(c.kind), pat |-> <<c.pat[p]>>]).allowed[1]
(* the unit the caller uses changes nothing but the unit of the answer *)
UnitIndependent(c) == LET a == [c EXCEPT !.kind = InAngstrom(c.kind)] IN
     /\ \A p \in DOMAIN c.pat : Coarse(Expected(c).allowed[p]) = Coarse(Expected(a).allowed[p])
     /\ Expected(c).form.quantity = Expected(a).form.quantity
     /\ Expected(c).form.scalar = Expected(a).form.scalar
     /\ Expected(c).form.unit = UnitOf(c.kind)
(* the element type of the input changes nothing: an integer or single-precision wavelength *)
(* is treated as the double-precision wavelength of the same value (only the attainable     *)
(* agreement is single precision for single-precision input)                                *)
ElementTypeIndependent(c) == LET f == [c EXCEPT !.kind = DoubleOf(c.kind)] IN
     /\ Expected(c).allowed = Expected(f).allowed
     /\ Expected(c).form = Expected(f).form
     /\ (c.kind \in IntegerKinds => Expected(c).precision = "double")
(* (stated against the plain / 64-bit variant; by transitivity any two variants agree)      *)
BaseWidth(kind) == IF kind \in WidthKinds THEN "int64" ELSE "na"
LayoutIndependent(c) == /\ <<c.layout, c.width>> \in Variants(c.kind)
                        /\ <<"plain", BaseWidth(c.kind)>> \in Variants(c.kind)
                        /\ Expected([c EXCEPT !.layout = "plain", !.width = BaseWidth(c.kind)]) = Expected(c)
TotalOnDomain(c) == ~Expected(c).raises /\ Expected(c).inputkept /\ Expected(c).len = Len(c.pat)

(* ---- named deviations (what the code does on the unfixed tree) ---- *)
(* D-C19-2 (filter_thru, no operator: it concerns the recorded laws): a flux image with an   *)
(* integer dtype (counts) is integrated in that integer type - every band flux is truncated, *)
(* in practice to 0 - so ConstantInConstantOut / WithinMinMax / Linear fail for such calls.   *)
(* D-C19-1: every 0-dimensional input that has a dtype (numpy scalar, 0-d ndarray, scalar  *)
(* Quantity) and is not below the guard raises TypeError.                                  *)
Dev_ZeroDimRaises(c) ==
  IF c.kind \in (ScalarKinds \ {"float", "pyint"}) /\ c.pat[1] # "below"
  THEN [Expected(c) EXCEPT !.raises = TRUE] ELSE Expected(c)

(* ========================= Part 2: AB offsets ========================= *)
Bands == <<"u", "g", "r", "i", "z">>
(* m(AB) = m(SDSS 2.5m) + offset, milli-magnitudes (D. Hogg, sdss-calib/845) *)
ABOffsetMilli == <<-42, 36, 15, 13, -2>>
Forms == {"mag", "flux", "ivar"}
(* Shift(form, b): what the conversion does in band b, in milli-magnitudes:                *)
(*   mag   the number added to the magnitude                                               *)
(*   flux  -2.5 log10 (f_AB / f)        (a magnitude is -2.5 log10 of a flux)              *)
(*   ivar  -2.5 log10 (ivar_AB / ivar)  (an inverse variance scales as flux^-2)            *)
Shift(form, b) == IF form = "mag" THEN ABOffsetMilli[b]
                  ELSE IF form = "flux" THEN ABOffsetMilli[b]
                  ELSE 0 - 2 * ABOffsetMilli[b]
(* one AB case: [form, band, m0] with m0 the input level in milli-mag (for flux / ivar the *)
(* input value is the one whose -2.5 log10 is m0); expected level of the output            *)
(* ntype: "float64" or an integer width (the array holds integral values in that type).  The offsets are not    *)
(* integral: an integer-typed array may be refused with a clear TypeError (rejectok) or answered in floating   *)
(* point, but the answer is never truncated to the integer type.                                               *)
ExpectedAB(c) == [shift |-> Shift(c.form, c.band), level |-> c.m0 + Shift(c.form, c.band), rejectok |-> c.ntype # "float64"]
(* the input value of an AB case is integral (can be stored in an integer type) *)
ABIntegral(c) == IF c.form = "mag" THEN c.m0 >= 0 /\ c.m0 % 1000 = 0 /\ c.m0 <= 200000
                 ELSE c.m0 <= 0 /\ (0 - c.m0) % 2500 = 0 /\ c.m0 >= 0 - 5000
(* laws tying the three forms to ONE offset per band *)
MagFluxConsistent(b) == Shift("mag", b) = Shift("flux", b)          \* magnitude of the converted flux = converted magnitude
SignalToNoiseKept(b) == 2 * Shift("flux", b) + Shift("ivar", b) = 0  \* flux * sqrt(ivar) unchanged: IvarFactor * FluxFactor^2 = 1
ABLayoutIndependent(c) == \A l \in ABLayouts : \A w \in Widths :
     /\ ExpectedAB([c EXCEPT !.layout = l]) = ExpectedAB(c)
     /\ ExpectedAB([c EXCEPT !.ntype = w]).level = ExpectedAB(c).level        \* same values, same answer, whatever the type
OffsetIndependentOfLevel(c) == ExpectedAB(c).level - c.m0 = ExpectedAB([c EXCEPT !.m0 = 0]).level

(* ============== Part 3: laws over recorded call histories ============== *)
(* Discrepancies are integers in units of Tol/1000 (capped at Cap); "closer than the       *)
(* stated tolerance" is  d < TolUnits.                                                     *)
TolUnits == 1000          \* wavelengths: 1 unit = 1e-9 A, stated tolerance 1e-6 A
Cap == 1073741824

(* ---- wavelength history ----                                                            *)
(* H.vals[v]  = [cls, mag]       the real numbers of the history (wavelengths in Angstrom);  *)
(*              mag = the wavelength rounded up to a whole Angstrom (for the single-        *)
(*              precision tolerance: 2^-23 A = 120 units per Angstrom of wavelength)        *)
(* H.d[x][y]  = |val y - val x| in units, rounded up (0 iff identical), capped             *)
(* H.s[x][y]  = sign(val y - val x)  in {-1, 0, 1}                                         *)
(* H.calls[k] = [fn, kind, arg, res, raised, kept, form]   arg, res: sequences of value ids *)
(*              (a call also records the memory layout of its argument; no law reads it:   *)
(*              calls with different layouts are joined by the laws like any others)       *)
WCalls(H) == DOMAIN H.calls
WGood(H) == {k \in WCalls(H) : ~H.calls[k].raised}
RelOf(H, x, y) == IF H.d[x][y] = 0 /\ H.s[x][y] = 0 THEN "identical"
                  ELSE IF H.d[x][y] < TolUnits THEN "equal"
                  ELSE IF H.s[x][y] > 0 THEN "greater" ELSE "less"
Close(H, x, y) == H.d[x][y] < TolUnits
SingleUlps == 8           \* single-precision input: agreement to 8 units in the last place of a float32
CloseSingle(H, x, y) == H.d[x][y] < H.vals[x].mag * 120 * SingleUlps
(* closeness demanded between answers of calls with kinds k1, k2 *)
CloseFor(H, k1, k2, x, y) == IF Precision(k1) = "single" \/ Precision(k2) = "single"
                             THEN Close(H, x, y) \/ CloseSingle(H, x, y) ELSE Close(H, x, y)
ClsOf(H, v) == H.vals[v].cls
(* "a >= 2000 A" as far as the caller's unit can tell *)
AtOrAbove(H, kind, v) == ClsOf(H, v) = "above" \/ (ClsOf(H, v) = "at" /\ UnitOf(kind) = "A")

PosAll(H) == UNION {DOMAIN H.calls[k].arg : k \in WCalls(H)}
ElemInst(H, cls) == UNION {{<<k, p>> : p \in {q \in DOMAIN H.calls[k].arg : ClsOf(H, H.calls[k].arg[q]) = cls}} : k \in WGood(H)}
ElemSat(H, i) == LET e == H.calls[i[1]] IN
     /\ i[2] \in DOMAIN e.res        \* an answer with fewer elements than the input satisfies nothing
     /\ RelOf(H, e.arg[i[2]], e.res[i[2]]) \in Allowed(e.fn, ClsOf(H, e.arg[i[2]]), e.kind)

(* pairs of calls where the second was handed the answer of the first *)
ChainInst(H, f1, f2) ==
  {i \in WGood(H) \X WGood(H) \X PosAll(H) :
      /\ H.calls[i[1]].fn = f1 /\ H.calls[i[2]].fn = f2
      /\ H.calls[i[2]].arg = H.calls[i[1]].res
      /\ i[3] \in DOMAIN H.calls[i[1]].arg}
(* vactoair(airtovac(a)) = a for every a >= 2000 A *)
AirVacAirInst(H) == {i \in ChainInst(H, "airtovac", "vactoair") : AtOrAbove(H, H.calls[i[1]].kind, H.calls[i[1]].arg[i[3]])}
(* airtovac(vactoair(v)) = v wherever vactoair(v) >= 2000 A *)
VacAirVacInst(H) == {i \in ChainInst(H, "vactoair", "airtovac") : AtOrAbove(H, H.calls[i[2]].kind, H.calls[i[1]].res[i[3]])}
ChainSat(H, i) == /\ i[3] \in DOMAIN H.calls[i[2]].res
                  /\ CloseFor(H, H.calls[i[1]].kind, H.calls[i[2]].kind, H.calls[i[1]].arg[i[3]], H.calls[i[2]].res[i[3]])

(* the same wavelength through two calls of the same function (float, array element,      *)
(* Quantity in any unit) gives the same physical answer.  At the guard only Angstrom      *)
(* callers are comparable.                                                                 *)
KindInst(H) ==
  {i \in WGood(H) \X WGood(H) \X PosAll(H) \X PosAll(H) :
      /\ i[1] < i[2] /\ H.calls[i[1]].fn = H.calls[i[2]].fn
      /\ i[3] \in DOMAIN H.calls[i[1]].arg /\ i[4] \in DOMAIN H.calls[i[2]].arg
      /\ H.calls[i[1]].arg[i[3]] = H.calls[i[2]].arg[i[4]]
      /\ \/ ClsOf(H, H.calls[i[1]].arg[i[3]]) # "at"
         \/ (UnitOf(H.calls[i[1]].kind) = "A" /\ UnitOf(H.calls[i[2]].kind) = "A")}
KindSat(H, i) == /\ i[3] \in DOMAIN H.calls[i[1]].res /\ i[4] \in DOMAIN H.calls[i[2]].res
                 /\ CloseFor(H, H.calls[i[1]].kind, H.calls[i[2]].kind, H.calls[i[1]].res[i[3]], H.calls[i[2]].res[i[4]])

CallSat_NoRaise(H, k) == ~H.calls[k].raised
CallSat_InputKept(H, k) == H.calls[k].kept
CallSat_Form(H, k) == H.calls[k].form = AnswerForm(H.calls[k].kind) /\ Len(H.calls[k].res) = Len(H.calls[k].arg)

WaveLaws == <<"NoRaise", "InputKept", "AnswerForm", "Unchanged", "VacuumAboveAir", "AtGuard",
              "AirVacAir", "VacAirVac", "KindInvariance">>
WInst(H, law) ==
  CASE law = "NoRaise" -> {<<k>> : k \in WCalls(H)}
    [] law = "InputKept" -> {<<k>> : k \in WCalls(H)}
    [] law = "AnswerForm" -> {<<k>> : k \in WGood(H)}
    [] law = "Unchanged" -> ElemInst(H, "below")
    [] law = "VacuumAboveAir" -> ElemInst(H, "above")
    [] law = "AtGuard" -> ElemInst(H, "at")
    [] law = "AirVacAir" -> AirVacAirInst(H)
    [] law = "VacAirVac" -> VacAirVacInst(H)
    [] law = "KindInvariance" -> KindInst(H)
WSat(H, law, i) ==
  CASE law = "NoRaise" -> CallSat_NoRaise(H, i[1])
    [] law = "InputKept" -> CallSat_InputKept(H, i[1])
    [] law = "AnswerForm" -> CallSat_Form(H, i[1])
    [] law \in {"Unchanged", "VacuumAboveAir", "AtGuard"} -> ElemSat(H, i)
    [] law \in {"AirVacAir", "VacAirVac"} -> ChainSat(H, i)
    [] law = "KindInvariance" -> KindSat(H, i)

(* ---- AB history: H.intinput, H.typeerror (the call refused the array with a TypeError),  *)
(* H.raised (any other exception);  H.obs[k] = [form, band, shift, resid]                  *)
(* shift = measured shift of element k rounded to milli-mag, resid = |measured - shift|   *)
(* in units of 1e-9 mag rounded up.  One offset per band, the same in every row.           *)
ABTolUnits == 10          \* 1e-8 mag (harness's judgement: the statement gives no tolerance)
ABLaws == <<"ABAnswers", "ABOffset">>
ABInst(H, law) == IF law = "ABAnswers" THEN {<<1>>} ELSE {<<k>> : k \in DOMAIN H.obs}
ABSat(H, law, i) == IF law = "ABAnswers" THEN ~H.raised /\ (H.typeerror => H.intinput)
                    ELSE LET o == H.obs[i[1]] IN o.shift = Shift(o.form, o.band) /\ o.resid < ABTolUnits

(* ---- filter_thru history (one wavelength solution, one mask) ----                       *)
(* H.nq         number of (trace, band) slots; slot q = (trace-1)*5 + band                 *)
(* H.overlap[q] the wavelengths of that trace overlap the band                             *)
(* H.fluxes[f]  = [const, cres, lo, hi, mlo, mhi]  const: every trace of the flux is a       *)
(*              constant spectrum (c_t, its own value per trace); cres: id of the pseudo-    *)
(*              result "c_t in every slot of trace t" (0 if not constant); lo/hi (mlo/mhi):  *)
(*              ids of the pseudo-results, judged per trace,                                 *)
(*              min / max of the trace's flux over all (over unmasked) pixels              *)
(* H.lin[j]     = [z, a, x, b, y]  flux z = a * flux x + b * flux y  (by construction)      *)
(* H.meq[j]     = [x, y]           fluxes x and y differ only at masked pixels             *)
(* H.calls[k]   = [flux, masked, raised, shapeok, res]  (+ the memory layouts used for     *)
(*              flux / wavelength image / mask, which no law reads)                        *)
(* H.combs[j]   = [a, x, b, y, val]  result id val = a * result x + b * result y (harness) *)
(* H.d[r1][r2][q], H.s[r1][r2][q]  discrepancy (units of 1e-12 of the flux scale, rounded  *)
(*              up, capped) and sign of (r2 - r1); NaN gives d = Cap and s = -1 both ways  *)
FTolUnits == 1000         \* 1e-9 of the flux scale (harness's judgement)
FGood(H) == {k \in DOMAIN H.calls : ~H.calls[k].raised /\ H.calls[k].shapeok}
Slots(H) == {q \in 1..H.nq : H.overlap[q]}
FClose(H, r1, r2, q) == H.d[r1][r2][q] < FTolUnits
NotBelow(H, lo, r, q) == H.s[lo][r][q] >= 0 \/ FClose(H, lo, r, q)      \* r >= lo up to rounding

LinInst(H) == {i \in (DOMAIN H.lin) \X FGood(H) \X FGood(H) \X FGood(H) \X Slots(H) :
                 /\ H.calls[i[2]].flux = H.lin[i[1]].z /\ H.calls[i[3]].flux = H.lin[i[1]].x
                 /\ H.calls[i[4]].flux = H.lin[i[1]].y
                 /\ H.calls[i[2]].masked = H.calls[i[3]].masked /\ H.calls[i[2]].masked = H.calls[i[4]].masked}
LinSat(H, i) == LET l == H.lin[i[1]] IN
     \E j \in DOMAIN H.combs : /\ H.combs[j].a = l.a /\ H.combs[j].b = l.b
                               /\ H.combs[j].x = H.calls[i[3]].res /\ H.combs[j].y = H.calls[i[4]].res
                               /\ FClose(H, H.calls[i[2]].res, H.combs[j].val, i[5])
ConstInst(H) == {i \in FGood(H) \X Slots(H) : H.fluxes[H.calls[i[1]].flux].const}
ConstSat(H, i) == FClose(H, H.calls[i[1]].res, H.fluxes[H.calls[i[1]].flux].cres, i[2])
RangeInst(H) == FGood(H) \X Slots(H)
RangeSat(H, i) == LET e == H.calls[i[1]]
                      f == H.fluxes[e.flux]
                      lo == IF e.masked THEN f.mlo ELSE f.lo
                      hi == IF e.masked THEN f.mhi ELSE f.hi IN
     NotBelow(H, lo, e.res, i[2]) /\ NotBelow(H, e.res, hi, i[2])
MaskInst(H) == {i \in (DOMAIN H.meq) \X FGood(H) \X FGood(H) \X Slots(H) :
                 /\ H.calls[i[2]].masked /\ H.calls[i[3]].masked
                 /\ H.calls[i[2]].flux = H.meq[i[1]].x /\ H.calls[i[3]].flux = H.meq[i[1]].y}
MaskSat(H, i) == FClose(H, H.calls[i[2]].res, H.calls[i[3]].res, i[4])

FilterLaws == <<"FilterAnswers", "Linear", "ConstantInConstantOut", "WithinMinMax", "MaskedPixelsIrrelevant">>
FInst(H, law) ==
  CASE law = "FilterAnswers" -> {<<k>> : k \in DOMAIN H.calls}
    [] law = "Linear" -> LinInst(H)
    [] law = "ConstantInConstantOut" -> ConstInst(H)
    [] law = "WithinMinMax" -> RangeInst(H)
    [] law = "MaskedPixelsIrrelevant" -> MaskInst(H)
FSat(H, law, i) ==
  CASE law = "FilterAnswers" -> ~H.calls[i[1]].raised /\ H.calls[i[1]].shapeok
    [] law = "Linear" -> LinSat(H, i)
    [] law = "ConstantInConstantOut" -> ConstSat(H, i)
    [] law = "WithinMinMax" -> RangeSat(H, i)
    [] law = "MaskedPixelsIrrelevant" -> MaskSat(H, i)

(* ---- uniform access for the trace module ---- *)
AllLaws == WaveLaws \o ABLaws \o FilterLaws
LawsOf(H) == IF H.type = "wave" THEN WaveLaws ELSE IF H.type = "ab" THEN ABLaws ELSE FilterLaws
Inst(H, law) == IF H.type = "wave" THEN WInst(H, law) ELSE IF H.type = "ab" THEN ABInst(H, law) ELSE FInst(H, law)
Sat(H, law, i) == IF H.type = "wave" THEN WSat(H, law, i) ELSE IF H.type = "ab" THEN ABSat(H, law, i) ELSE FSat(H, law, i)
Holds(H, law) == \A i \in Inst(H, law) : Sat(H, law, i)
=============================================================================
