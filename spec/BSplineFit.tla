---------------------------- MODULE BSplineFit ----------------------------
(***************************************************************************)
(* C09 - the B-spline fit is the weighted least-squares optimum; failure   *)
(* is a status code.                                                       *)
(*                                                                         *)
(* Part (a)  the banded Cholesky pair: band storage, what "L is the        *)
(*           factor of A" and "x solves A x = b" mean, positive            *)
(*           definiteness decided by exact elimination.                    *)
(* Part (b)  the optimum of sum w (y - sum_k c_k B_k(x))^2 for tiny        *)
(*           systems, exactly: Cox-de Boor basis over rationals, normal    *)
(*           equations, Cramer; the laws that make it THE optimum are      *)
(*           stated separately (gradient, neighbours, zero weights,        *)
(*           linearity, polynomial reproduction).                          *)
(* Part (c)  failure as status: which data support a spline space          *)
(*           (Schoenberg-Whitney), and the machine FitOK / FitDrop /       *)
(*           FitFail / Return whose behaviours are the admissible          *)
(*           histories of bspline.fit calls (alone and inside iterfit).    *)
(*                                                                         *)
(* Written from the property statement, the docstrings and the textbook    *)
(* definitions; nothing is transcribed from pydl's code.  Sequences are    *)
(* 1-based.  Rationals are Rat pairs <<num, den>>.                         *)
(***************************************************************************)
EXTENDS Rat, FiniteSets, TLC

IMax(a, b) == IF a < b THEN b ELSE a
IMin(a, b) == IF a < b THEN a ELSE b
RECURSIVE ISumTo(_, _)
ISumTo(f, n) == IF n = 0 THEN 0 ELSE f[n] + ISumTo(f, n - 1)
ISum(f) == ISumTo(f, Len(f))
RECURSIVE ISumSet(_, _)
ISumSet(f, S) == IF S = {} THEN 0 ELSE LET a == CHOOSE b \in S : TRUE IN f[a] + ISumSet(f, S \ {a})

(* rational arithmetic that cancels common factors before multiplying (TLC: 32 bit) *)
QAdd(a, b) == LET g == GCD(a[2], b[2])
              IN Norm(a[1] * (b[2] \div g) + b[1] * (a[2] \div g), (a[2] \div g) * b[2])
QMul(a, b) == IF a[1] = 0 \/ b[1] = 0 THEN Zero
              ELSE LET g1 == GCD(Abs(a[1]), b[2])
                       g2 == GCD(Abs(b[1]), a[2])
                   IN Norm((a[1] \div g1) * (b[1] \div g2), (a[2] \div g2) * (b[2] \div g1))
QSub(a, b) == QAdd(a, Neg(b))
QDiv(a, b) == QMul(a, Inv(b))
QLt(a, b) == QSub(a, b)[1] < 0
QLe(a, b) == QSub(a, b)[1] <= 0
RECURSIVE QSumTo(_, _)
QSumTo(f, n) == IF n = 0 THEN Zero ELSE QAdd(f[n], QSumTo(f, n - 1))
QSum(f) == QSumTo(f, Len(f))
LCM(a, b) == (a \div GCD(a, b)) * b

(***************************************************************************)
(* Part (a) - banded symmetric matrices, Cholesky factor, solve            *)
(*                                                                         *)
(* A matrix is a sequence of rows.  A symmetric matrix of bandwidth bw     *)
(* (bw diagonals on and below the main one may be non-zero) is handed to   *)
(* the code in PADDED LOWER BAND FORM: bw rows, n + bw columns,            *)
(*     ab[k][j] = A[j + k - 1][j]   (k = 1 the diagonal, k = 2 the first   *)
(*     sub-diagonal ...), zero where j + k - 1 > n and in the bw padding   *)
(* columns.  A factor L (lower triangular, same bandwidth) is returned in  *)
(* the same form, a right-hand side and a solution carry bw padding zeros. *)
(***************************************************************************)
Ones(n) == [k \in 1..n |-> 1]
LDLt(L, d, n) == [i \in 1..n |-> TLCEval([j \in 1..n |-> ISum([k \in 1..n |-> L[i][k] * d[k] * L[j][k]])])]
LLt(L, n) == LDLt(L, Ones(n), n)
MatVec(A, x, n) == [i \in 1..n |-> ISum([j \in 1..n |-> A[i][j] * x[j]])]

IsLowerBanded(L, n, bw) == \A i, j \in 1..n : (j > i \/ i - j >= bw) => L[i][j] = 0
IsSymBanded(A, n, bw) == \A i, j \in 1..n : A[i][j] = A[j][i] /\ (i - j >= bw => A[i][j] = 0)

Band(A, n, bw) == [k \in 1..bw |-> TLCEval([j \in 1..(n + bw) |-> IF j <= n /\ j + k - 1 <= n THEN A[j + k - 1][j] ELSE 0])]
Unband(ab, n, bw) == [i \in 1..n |-> TLCEval([j \in 1..n |->
                        LET lo == IMin(i, j)
                            d == IMax(i, j) - lo
                        IN IF d < bw THEN ab[d + 1][lo] ELSE 0])]
UnbandLower(ab, n, bw) == [i \in 1..n |-> TLCEval([j \in 1..n |-> IF j <= i /\ i - j < bw THEN ab[i - j + 1][j] ELSE 0])]
PaddingZero(ab, n, bw) == \A k \in 1..bw : \A j \in 1..(n + bw) : (j > n \/ j + k - 1 > n) => ab[k][j] = 0
PadVec(x, n, bw) == [j \in 1..(n + bw) |-> IF j <= n THEN x[j] ELSE 0]
VecPaddingZero(x, n, bw) == \A j \in (n + 1)..(n + bw) : x[j] = 0

(* the storage mapping loses nothing of a symmetric banded matrix *)
BandRoundTrip(A, n, bw) == IsSymBanded(A, n, bw) =>
                             Unband(Band(A, n, bw), n, bw) = A /\ PaddingZero(Band(A, n, bw), n, bw)

(* what the pair promises *)
IsCholFactor(L, A, n, bw) == IsLowerBanded(L, n, bw) /\ (\A i \in 1..n : L[i][i] > 0) /\ LLt(L, n) = A
Solves(A, x, b, n) == MatVec(A, x, n) = [i \in 1..n |-> b[i]]

(* positive definiteness decided exactly: eliminate with rational arithmetic, every pivot positive *)
RatMat(A, n) == [i \in 1..n |-> TLCEval([j \in 1..n |-> OfInt(A[i][j])])]
Schur(S, m) == [i \in 1..(m - 1) |-> TLCEval([j \in 1..(m - 1) |->
                  QSub(S[i + 1][j + 1], QDiv(QMul(S[i + 1][1], S[1][j + 1]), S[1][1]))])]
RECURSIVE PivotClass(_, _)
PivotClass(S, m) == IF S[1][1][1] < 0 THEN -1 ELSE IF S[1][1][1] = 0 THEN 0
                    ELSE IF m = 1 THEN 1 ELSE PivotClass(TLCEval(Schur(S, m)), m - 1)
(* 1: every pivot positive (positive definite); -1: the first non-positive pivot is negative;       *)
(* 0: the first non-positive pivot is exactly zero (singular at that step)                          *)
Definiteness(A, n) == PivotClass(TLCEval(RatMat(A, n)), n)
IsPD(A, n) == Definiteness(A, n) = 1

(* ---- the call model of part (a) ---- *)
(* c = [n, bw, L (integer lower banded, positive diagonal), d (signature, entries 1 / 0 / -1),   *)
(*      x0 (integer vector), bad (<<>> or <<k, j, class>>: band entry made inf / ninf / nan),     *)
(*      minf2 (twice the mininf argument; 0 = default)]                                           *)
(* The matrix is A = L diag(d) L^T.  With d = 1 the factor with positive diagonal is unique, so   *)
(* the outcome is exact: cholesky_band returns (-1, Band(L)), cholesky_solve(Band(L), A x0) = x0. *)
(* Anything else (d has an entry <= 0, a non-finite entry, a diagonal entry not above mininf) is  *)
(* signalled through the return value: first item is not -1, second item is the input.           *)
CholA(c) == TLCEval(LDLt(c.L, c.d, c.n))
DiagAbove(A, n, minf2) == \A j \in 1..n : 2 * A[j][j] > minf2
ExpectedChol(c) ==
  LET A == CholA(c)
      ok == c.bad = <<>> /\ (\A j \in 1..c.n : c.d[j] = 1) /\ DiagAbove(A, c.n, c.minf2)
  IN [ok |-> ok,
      ab |-> Band(A, c.n, c.bw),
      b |-> PadVec(MatVec(A, c.x0, c.n), c.n, c.bw),
      L |-> IF ok THEN Band(c.L, c.n, c.bw) ELSE <<>>,
      x |-> IF ok THEN PadVec(c.x0, c.n, c.bw) ELSE <<>>,
      posdiag |-> \A j \in 1..c.n : A[j][j] > 0]

(* laws of part (a), evaluated on every enumerated call (e = ExpectedChol(c); the matrix is read   *)
(* back from the band form that is handed to the code)                                             *)
CholGeneratorSound(c) == /\ IsLowerBanded(c.L, c.n, c.bw) /\ (\A j \in 1..c.n : c.L[j][j] > 0 /\ c.d[j] \in {1, 0, -1})
CholStorage(c, e) == LET A == CholA(c) IN BandRoundTrip(A, c.n, c.bw) /\ IsSymBanded(A, c.n, c.bw) /\ Unband(e.ab, c.n, c.bw) = A
CholFactorLaw(c, e) == e.ok => /\ IsCholFactor(UnbandLower(e.L, c.n, c.bw), Unband(e.ab, c.n, c.bw), c.n, c.bw)
                               /\ PaddingZero(e.L, c.n, c.bw)
CholSolveLaw(c, e) == e.ok => Solves(Unband(e.ab, c.n, c.bw), e.x, e.b, c.n) /\ VecPaddingZero(e.x, c.n, c.bw)
(* the generator's claim about definiteness agrees with exact elimination of the matrix itself *)
CholDefiniteness(c, e) == /\ (\A j \in 1..c.n : c.d[j] = 1) <=> IsPD(TLCEval(Unband(e.ab, c.n, c.bw)), c.n)
                          /\ e.ok => \A j \in 1..c.n : c.d[j] = 1

(* ---- named deviation (what pydl does today) ---- *)
(* D-C09-2: a matrix whose diagonal passes the screening but which is not positive definite makes   *)
(* cholesky_band raise ValueError (the fall-back elimination that should locate the bad column      *)
(* never updates the remaining columns, finds nothing, and then cannot restore the padding)         *)
Dev_IndefiniteRaises(c, e) == c.bad = <<>> /\ ~e.ok /\ DiagAbove(Unband(e.ab, c.n, c.bw), c.n, c.minf2)

(***************************************************************************)
(* Part (b) - the least-squares optimum, exactly                           *)
(*                                                                         *)
(* Knots t: strictly increasing integers t[1..K]; order k; n = K - k       *)
(* coefficients; breakpoint range [t[k], t[n+1]]; cells j = k..n.          *)
(***************************************************************************)
NCoef(t, k) == Len(t) - k
(* the cell a point of the range is attributed to; for k >= 2 the basis is continuous, so the    *)
(* choice at a knot does not matter; problems of order 1 keep their points off the interior knots *)
CellOf(t, k, x) == IF QLe(x, OfInt(t[k])) THEN k
                   ELSE CHOOSE j \in k..(Len(t) - k) : QLt(OfInt(t[j]), x) /\ QLe(x, OfInt(t[j + 1]))
(* Cox-de Boor; B[i,1] is the indicator of cell i; functions that vanish on cell j are pruned *)
RECURSIVE B(_, _, _, _, _)
B(t, j, i, k, x) ==
  IF j < i \/ j > i + k - 1 THEN Zero
  ELSE IF k = 1 THEN One
  ELSE QAdd(QMul(QDiv(QSub(x, OfInt(t[i])), OfInt(t[i + k - 1] - t[i])), B(t, j, i, k - 1, x)),
            QMul(QDiv(QSub(OfInt(t[i + k]), x), OfInt(t[i + k] - t[i + 1])), B(t, j, i + 1, k - 1, x)))
BasisRow(t, k, x) == LET j == CellOf(t, k, x) IN TLCEval([i \in 1..NCoef(t, k) |-> B(t, j, i, k, x)])
SplineAt(t, k, coeff, x) == LET row == BasisRow(t, k, x) IN QSum([i \in 1..NCoef(t, k) |-> QMul(coeff[i], row[i])])

(* a problem p = [t, k, x (rationals, non-decreasing, inside the range), y (integers), w (integers >= 0)] *)
NPts(p) == Len(p.x)
Design(p) == TLCEval([i \in 1..NPts(p) |-> TLCEval(BasisRow(p.t, p.k, p.x[i]))])

(* Normal equations in integers: row i of the design matrix is IR[i] / q[i]; minimising            *)
(* sum w (y - IR.c / q)^2 is minimising sum W (Y - IR.c)^2 with W = w (Q/q)^2, Y = y q, Q = lcm q.  *)
RECURSIVE RowDenTo(_, _)
RowDenTo(row, m) == IF m = 0 THEN 1 ELSE LCM(row[m][2], RowDenTo(row, m - 1))
RowDen(row) == RowDenTo(row, Len(row))
RECURSIVE LcmTo(_, _)
LcmTo(q, m) == IF m = 0 THEN 1 ELSE LCM(q[m], LcmTo(q, m - 1))
NormalEq(p) ==
  LET D == Design(p)
      N == NPts(p)
      n == NCoef(p.t, p.k)
      q == TLCEval([i \in 1..N |-> RowDen(D[i])])
      Q == LcmTo(q, N)
      IR == TLCEval([i \in 1..N |-> TLCEval([a \in 1..n |-> D[i][a][1] * (q[i] \div D[i][a][2])])])
      W == TLCEval([i \in 1..N |-> p.w[i] * (Q \div q[i]) * (Q \div q[i])])
  IN [G |-> TLCEval([a \in 1..n |-> TLCEval([b \in 1..n |-> ISum([i \in 1..N |-> W[i] * IR[i][a] * IR[i][b]])])]),
      r |-> TLCEval([a \in 1..n |-> ISum([i \in 1..N |-> W[i] * IR[i][a] * p.y[i] * q[i]])])]

Cyc(i) == ((i - 1) % 3) + 1
Cof3(G, a, b) == G[Cyc(a + 1)][Cyc(b + 1)] * G[Cyc(a + 2)][Cyc(b + 2)]
                 - G[Cyc(a + 1)][Cyc(b + 2)] * G[Cyc(a + 2)][Cyc(b + 1)]
Det(G) == CASE Len(G) = 1 -> G[1][1]
            [] Len(G) = 2 -> G[1][1] * G[2][2] - G[1][2] * G[2][1]
            [] Len(G) = 3 -> G[1][1] * Cof3(G, 1, 1) + G[1][2] * Cof3(G, 1, 2) + G[1][3] * Cof3(G, 1, 3)
Adj(G) == CASE Len(G) = 1 -> << <<1>> >>
            [] Len(G) = 2 -> << <<G[2][2], -G[1][2]>>, <<-G[2][1], G[1][1]>> >>
            [] Len(G) = 3 -> [j \in 1..3 |-> TLCEval([k \in 1..3 |-> Cof3(G, k, j)])]

(* order 1: the basis functions are the indicators of the cells, the system is diagonal (any size) *)
WellPosed(p) == LET ne == TLCEval(NormalEq(p)) IN
                IF p.k = 1 THEN \A a \in 1..NCoef(p.t, p.k) : ne.G[a][a] > 0 ELSE Det(ne.G) # 0
Optimum(p) ==
  LET ne == TLCEval(NormalEq(p))
      n == NCoef(p.t, p.k)
  IN IF p.k = 1 THEN [a \in 1..n |-> R(ne.r[a], ne.G[a][a])]
     ELSE LET ad == TLCEval(Adj(ne.G))
              d == Det(ne.G)
          IN [a \in 1..n |-> R(ISum([b \in 1..n |-> ad[a][b] * ne.r[b]]), d)]
YfitOf(p, coeff) == LET D == Design(p) IN
                    TLCEval([i \in 1..NPts(p) |-> QSum([a \in 1..NCoef(p.t, p.k) |-> QMul(coeff[a], D[i][a])])])
ExpectedFit(p) == LET c == TLCEval(Optimum(p)) IN [status |-> 0, coeff |-> c, yfit |-> YfitOf(p, c)]

(* ---- the laws: what makes `coeff` THE weighted least-squares answer ---- *)
Chi2(p, coeff) == LET yf == YfitOf(p, coeff) IN
                  QSum([i \in 1..NPts(p) |-> QMul(OfInt(p.w[i]), QMul(QSub(OfInt(p.y[i]), yf[i]), QSub(OfInt(p.y[i]), yf[i])))])
GradientZero(p, e) == LET D == Design(p) IN \A a \in 1..NCoef(p.t, p.k) :
   QSum([i \in 1..NPts(p) |-> QMul(QMul(OfInt(p.w[i]), D[i][a]), QSub(OfInt(p.y[i]), e.yfit[i]))]) = Zero
YfitIsSpline(p, e) == \A i \in 1..NPts(p) : e.yfit[i] = SplineAt(p.t, p.k, e.coeff, p.x[i])
NoBetterNeighbour(p, e) == \A a \in 1..NCoef(p.t, p.k) : \A dl \in {-1, 1} :
   QLe(Chi2(p, e.coeff), Chi2(p, [b \in 1..NCoef(p.t, p.k) |-> IF b = a THEN QAdd(e.coeff[b], OfInt(dl)) ELSE e.coeff[b]]))
(* y altered where the weight is zero: same coefficients *)
ZeroWeightInvariant(p, e) ==
   Optimum([p EXCEPT !.y = [i \in 1..NPts(p) |-> IF p.w[i] = 0 THEN p.y[i] + 3 - 2 * (i % 2) ELSE p.y[i]]]) = e.coeff
(* coefficients depend linearly on y: Optimum(2 y - y2) = 2 Optimum(y) - Optimum(y2) *)
AltY(N) == [i \in 1..N |-> ((i * i + 1) % 3) - 1]
LinearInY(p, e) ==
   LET c2 == Optimum([p EXCEPT !.y = AltY(NPts(p))])
       c3 == Optimum([p EXCEPT !.y = [i \in 1..NPts(p) |-> 2 * p.y[i] - AltY(NPts(p))[i]]])
   IN \A a \in 1..NCoef(p.t, p.k) : c3[a] = QSub(QMul(OfInt(2), e.coeff[a]), c2[a])

(* scale laws: the optimum does not change when every weight is multiplied by c > 0 and is           *)
(* homogeneous in y; which fits are possible (support class, hence status and breakpoint mask)       *)
(* depends on WHERE the positively weighted data lie, not on the magnitude of weights or values      *)
ScaledW(p, c) == [p EXCEPT !.w = [i \in 1..NPts(p) |-> c * p.w[i]]]
ScaledY(p, c) == [p EXCEPT !.y = [i \in 1..NPts(p) |-> c * p.y[i]]]
WeightScaleInvariant(p, e) == WellPosed(ScaledW(p, 2)) /\ Optimum(ScaledW(p, 2)) = e.coeff
YHomogeneous(p, e) == \A a \in 1..NCoef(p.t, p.k) : Optimum(ScaledY(p, -2))[a] = QMul(OfInt(-2), e.coeff[a])

(* the grid law: knots and abscissae multiplied by the same L > 0 describe the same fit (B-splines are  *)
(* invariant under an affine change of the axis), so every problem has a representative on an integer   *)
(* grid - whose abscissae may be handed over as integer-typed arrays: the type is a representation       *)
GridScaled(p, L) == [p EXCEPT !.t = [g \in 1..Len(p.t) |-> L * p.t[g]],
                              !.x = [i \in 1..NPts(p) |-> QMul(OfInt(L), p.x[i])]]
GridScaleInvariant(p, e) == WellPosed(GridScaled(p, 6)) /\ Optimum(GridScaled(p, 6)) = e.coeff
                            /\ \A i \in 1..NPts(p) : IsInt(GridScaled(p, 6).x[i])

(* polynomials: pc = <<a0, a1, ...>> (integers), value by Horner over the rationals *)
RECURSIVE PolyFrom(_, _, _)
PolyFrom(pc, m, x) == IF m > Len(pc) THEN Zero ELSE QAdd(OfInt(pc[m]), QMul(x, PolyFrom(pc, m + 1, x)))
PolyVal(pc, x) == PolyFrom(pc, 1, x)
(* a polynomial of degree below the order is reproduced exactly *)
PolyData(pc, xs) == [i \in 1..Len(xs) |-> PolyVal(pc, xs[i])]
AllInt(qs) == \A i \in 1..Len(qs) : IsInt(qs[i])
PolyReproduced(p, pc, e) == (Len(pc) <= p.k /\ \A i \in 1..NPts(p) : OfInt(p.y[i]) = PolyVal(pc, p.x[i]))
                             => \A i \in 1..NPts(p) : e.yfit[i] = OfInt(p.y[i])

(***************************************************************************)
(* Part (c) - which data support a fit, and failure as status              *)
(*                                                                         *)
(* Only WHERE the positively weighted data lie matters.  A support problem *)
(* is [nord, S, pc]: S cells, knots 1..K with K = S + 2 nord - 1, the      *)
(* breakpoints are knots nord..nord+S.  Positions along the axis are       *)
(* doubled knot indices: knot g sits at 2g, the inside of the cell between *)
(* g and g+1 at 2g+1.  pc[q] (q = 1..2S+1) is the number of DISTINCT       *)
(* positively weighted abscissae at position 2 nord + q - 1 (odd q: on a   *)
(* breakpoint, at most 1; even q: inside a cell).                          *)
(*                                                                         *)
(* bkmask is the set of good (unmasked) knots.  The spline space of a mask *)
(* has the good knots as its knots: M = |bkmask| of them, M - nord         *)
(* coefficients, basis function j living on the open interval between the  *)
(* j-th and the (j+nord)-th good knot.  The normal equations are positive  *)
(* definite iff the design matrix has full column rank iff every basis     *)
(* function can be given its own datum inside its support (Schoenberg-     *)
(* Whitney); for intervals of this shape that is Hall's condition on runs  *)
(* of consecutive basis functions.                                         *)
(***************************************************************************)
NKnots(P) == P.S + 2 * P.nord - 1
AllKnots(P) == 1..NKnots(P)
Interior(P) == (P.nord + 1)..(P.nord + P.S - 1)             \* the breakpoints that may be dropped
EndKnots(P) == AllKnots(P) \ Interior(P)
PosOfQ(P, q) == 2 * P.nord + q - 1
(* order 1 is piecewise constant: a datum on the lowest / highest breakpoint belongs to the first / *)
(* last cell (closed range); data on interior breakpoints are excluded from order-1 problems          *)
EffPos(P, q) == IF P.nord = 1 /\ q = 1 THEN PosOfQ(P, q) + 1
                ELSE IF P.nord = 1 /\ q = 2 * P.S + 1 THEN PosOfQ(P, q) - 1 ELSE PosOfQ(P, q)
SupportOK(P) == /\ P.nord >= 1 /\ P.S >= 1 /\ Len(P.pc) = 2 * P.S + 1
                /\ \A q \in 1..Len(P.pc) : P.pc[q] >= 0 /\ (q % 2 = 1 => P.pc[q] <= 1)
                /\ P.nord = 1 => \A q \in 2..(2 * P.S) : q % 2 = 1 => P.pc[q] = 0
(* position of an original position in the knot sequence of the mask *)
RankIn(mask, g) == Cardinality({h \in mask : h <= g})
CPos(mask, pos) == IF pos % 2 = 0 /\ (pos \div 2) \in mask THEN 2 * RankIn(mask, pos \div 2)
                   ELSE 2 * Cardinality({h \in mask : 2 * h < pos}) + 1
(* one pass over the data of P under a mask: cnt[v] = distinct good abscissae at compressed position *)
(* v, cum = running totals, between(lo, hi) = number strictly between compressed positions lo and hi   *)
RECURSIVE CumSeq(_, _)
CumSeq(cnt, v) == IF v = 0 THEN <<>>
                  ELSE LET s == CumSeq(cnt, v - 1) IN Append(s, (IF v = 1 THEN 0 ELSE s[v - 1]) + cnt[v])
NCoefOf(P, mask) == Cardinality(mask) - P.nord
SupportInfo(P, mask) ==
  LET M == Cardinality(mask)
      k == P.nord
      n == M - k
      cp == TLCEval([q \in 1..Len(P.pc) |-> CPos(mask, EffPos(P, q))])
      cnt == TLCEval([v \in 1..(2 * M + 1) |-> ISum([q \in 1..Len(P.pc) |-> IF cp[q] = v THEN P.pc[q] ELSE 0])])
      cum == TLCEval(CumSeq(cnt, 2 * M + 1))
      between(lo, hi) == cum[hi - 1] - cum[lo]
  IN [(* every basis function sees a datum inside its support *)
      touched |-> \A j \in 1..n : between(2 * j, 2 * (j + k)) >= 1,
      (* Hall's condition on every run i..j of consecutive basis functions *)
      determined |-> \A i \in 1..n : \A j \in i..n : between(2 * i, 2 * (j + k)) >= j - i + 1,
      (* every cell of the mask holds a datum (on its closed extent) *)
      cells |-> \A c \in k..(M - k) : between(2 * c - 1, 2 * c + 3) >= 1,
      (* the basis functions that see no datum: where the gaps are *)
      untouched |-> {j \in 1..n : between(2 * j, 2 * (j + k)) = 0}]
Touched(P, mask) == SupportInfo(P, mask).touched
Determined(P, mask) == SupportInfo(P, mask).determined
TotalData(P) == ISum(P.pc)

(* Which breakpoints a -1 may drop.  "Reported through the breakpoint mask": while some basis function *)
(* sees no datum the report is about that gap - only good interior breakpoints that are knots of the    *)
(* support of such a function, or within max(1, nord div 2) knots of it, may go; a breakpoint the data   *)
(* of THIS call fully support, away from every gap, may not.  When every basis function sees data but   *)
(* they are too few to determine all coefficients there need not be a gap, and any interior breakpoint  *)
(* may go.                                                                                              *)
DropMargin(P) == IMax(1, P.nord \div 2)
NearFuncs(P, mask, js) == {g \in mask \cap Interior(P) :
                            \E j \in js : RankIn(mask, g) \in (j - DropMargin(P))..(j + P.nord + DropMargin(P))}
NearGap(P, mask, si) == NearFuncs(P, mask, si.untouched)
(* weak: basis functions that do see data but with a measured influence sum w B^2 many orders of magnitude    *)
(* below the average weight (data at the very edge of their support): the code may treat them as unsupported  *)
DroppableW(P, mask, weak) == LET si == SupportInfo(P, mask) IN
                             IF si.touched THEN mask \cap Interior(P) ELSE NearFuncs(P, mask, si.untouched \cup weak)
Droppable(P, mask) == LET si == SupportInfo(P, mask) IN
                      IF si.touched THEN mask \cap Interior(P) ELSE NearGap(P, mask, si)

(* the three classes of the statement *)
WellSupported(P, mask) == LET si == SupportInfo(P, mask) IN si.determined /\ si.cells   \* status 0 is demanded
Unsupported(P, mask) == ~Touched(P, mask)                                               \* status 0 is excluded
(* in between (every basis function sees data but there are too few data to determine all          *)
(* coefficients) the statement's "too few data" is detected or not at rounding level; any           *)
(* documented status is accepted, finite coefficients are still demanded                            *)

(* the support problem of concrete data: knots t (integers), order k, abscissae x, weights w *)
QPosOf(t, k, x) == IF \E g \in k..(Len(t) - k + 1) : x = OfInt(t[g])
                   THEN 2 * (CHOOSE g \in k..(Len(t) - k + 1) : x = OfInt(t[g])) - 2 * k + 1
                   ELSE 2 * (CHOOSE g \in k..(Len(t) - k) : QLt(OfInt(t[g]), x) /\ QLt(x, OfInt(t[g + 1]))) + 1 - 2 * k + 1
SupportOfData(t, k, x, w) ==
  [nord |-> k, S |-> Len(t) - 2 * k + 1,
   pc |-> [q \in 1..(2 * (Len(t) - 2 * k + 1) + 1) |->
             Cardinality({x[i] : i \in {m \in 1..Len(x) : w[m] > 0 /\ QPosOf(t, k, x[m]) = q}})]]

SupportScaleInvariant(t, k, x, w) == SupportOfData(t, k, x, [i \in 1..Len(w) |-> 5 * w[i]]) = SupportOfData(t, k, x, w)

GridSupportInvariant(t, k, x, w) ==
   SupportOfData([g \in 1..Len(t) |-> 6 * t[g]], k, [i \in 1..Len(x) |-> QMul(OfInt(6), x[i])], w) = SupportOfData(t, k, x, w)

(* Global state.  The statement's "reported through the return value / status, never by an unrelated  *)
(* exception" is about every call, whatever was called before in the same process: a call therefore   *)
(* leaves the process-wide state its own later behaviour depends on (numpy's floating-point error     *)
(* handling) exactly as it found it.  gs = <<divide, over, under, invalid>> observed before and after  *)
(* a call.                                                                                             *)
StatePreserved(before, after) == before = after
(* A fit one of whose weights is not finite.  The statement says what cholesky_band does with a        *)
(* non-finite MATRIX (it signals it) and that an impossible fit is reported by status and mask; it     *)
(* does not say that such data must make the fit fail.  NaN weight: ignoring the datum (weight 0) or    *)
(* refusing are both within the statement - status 0 is then judged as the optimum over the finitely,   *)
(* positively weighted data.  Infinite weight: sum w (y - s)^2 is finite only for splines through that  *)
(* datum and the normal matrix is non-finite, so the documented machinery refuses (-1 / -2); an answer  *)
(* 0 is admitted only if the spline passes through the infinitely weighted datum.  In every case: no     *)
(* exception, finite coefficients, the mask rule, global state preserved.                               *)
NonFiniteWeightStatuses == {0, -1, -2}

(* ---------------- the machine ---------------- *)
(* prob: the support problem (constant during a behaviour); bkmask: good knots; status: result of   *)
(* the last fit (NoFit before the first); nfits: fits performed; pc_: "fitting" or "returned".      *)
VARIABLES prob, bkmask, status, nfits, phase
mvars == <<prob, bkmask, status, nfits, phase>>
NoFit == 1
Statuses == {0, -1, -2}

MInit(P, maxfits) == /\ prob = [nord |-> P.nord, S |-> P.S, pc |-> P.pc, maxfits |-> maxfits]
                     /\ bkmask = AllKnots(P) /\ status = NoFit /\ nfits = 0 /\ phase = "fitting"

CanFit == phase = "fitting" /\ status \in {NoFit, -1} /\ nfits < prob.maxfits
(* too few good knots for a single cell of this order: nothing can be fitted *)
TooFewKnots == Cardinality(bkmask) < 2 * prob.nord

FitOK == /\ CanFit /\ ~TooFewKnots /\ ~Unsupported(prob, bkmask)
         /\ status' = 0 /\ nfits' = nfits + 1 /\ UNCHANGED <<prob, bkmask, phase>>
CanDrop == CanFit /\ ~TooFewKnots /\ ~WellSupported(prob, bkmask)
DropTo(m2) == /\ m2 \subseteq bkmask /\ m2 # bkmask /\ (bkmask \ m2) \subseteq Droppable(prob, bkmask)
              /\ status' = -1 /\ bkmask' = m2 /\ nfits' = nfits + 1 /\ UNCHANGED <<prob, phase>>
FitDrop(m2) == CanDrop /\ DropTo(m2)
(* the same with the harness-measured weak functions of the event (trace specification only) *)
FitDropW(m2, weak) == /\ CanDrop /\ m2 \subseteq bkmask /\ m2 # bkmask /\ (bkmask \ m2) \subseteq DroppableW(prob, bkmask, weak)
                      /\ status' = -1 /\ bkmask' = m2 /\ nfits' = nfits + 1 /\ UNCHANGED <<prob, phase>>
FitFail == /\ CanFit /\ (TooFewKnots \/ ~WellSupported(prob, bkmask))
           /\ status' = -2 /\ nfits' = nfits + 1 /\ UNCHANGED <<prob, bkmask, phase>>
(* the caller's loop (iterfit) fits again after -1, stops after 0 and -2 and when its budget is used; *)
(* it declines to fit at all when there are fewer good data than the order, or at most one           *)
Return == /\ phase = "fitting"
          /\ \/ status \in {0, -2}
             \/ nfits >= prob.maxfits
             \/ nfits = 0 /\ (TotalData(prob) < prob.nord \/ TotalData(prob) <= 1)
          /\ phase' = "returned" /\ UNCHANGED <<prob, bkmask, status, nfits>>
(* with no good datum at all the caller refuses the data (ValueError "No valid data points") *)
Refuse == /\ phase = "fitting" /\ nfits = 0 /\ TotalData(prob) = 0
          /\ phase' = "refused" /\ UNCHANGED <<prob, bkmask, status, nfits>>

(* Not part of MNext: a fit on data that determine every coefficient formally but whose design matrix  *)
(* is numerically singular (condition number measured by the harness above 1e5: the normal equations  *)
(* lose all digits) may give up like an unsupported one.  Used by the trace specification only, for    *)
(* events the harness measured as such.                                                                *)
FitGiveUp(st, m2) == /\ CanFit /\ ~TooFewKnots /\ WellSupported(prob, bkmask) /\ st \in {-1, -2}
                     /\ m2 \subseteq bkmask /\ (bkmask \ m2) \subseteq Interior(prob) /\ ((st = -1) <=> (m2 # bkmask))
                     /\ status' = st /\ bkmask' = m2 /\ nfits' = nfits + 1 /\ UNCHANGED <<prob, phase>>

(* Not part of MNext: the caller presents other data (other weights) to the SAME object.  The mask  *)
(* stays as it is, the fit count restarts from the breakpoints already dropped (so that FitsBounded   *)
(* keeps its meaning) and the next fit is judged against the support of the new data.                 *)
NewData(pc2, more) == /\ phase = "fitting" /\ Len(pc2) = Len(prob.pc)
                      /\ prob' = [prob EXCEPT !.pc = pc2, !.maxfits = Cardinality(AllKnots(prob) \ bkmask) + more]
                      /\ status' = NoFit /\ nfits' = Cardinality(AllKnots(prob) \ bkmask)
                      /\ UNCHANGED <<bkmask, phase>>

MNext == \/ FitOK
         \/ CanDrop /\ \E D \in (SUBSET Droppable(prob, bkmask)) \ {{}} : DropTo(bkmask \ D)
         \/ FitFail \/ Return \/ Refuse

(* what a fit from the current state may answer, as data (used by replay): the admissible statuses *)
(* and the knots a -1 may drop                                                                      *)
FitClass(P, mask) ==
  LET few == Cardinality(mask) < 2 * P.nord
      si == IF few THEN [touched |-> FALSE, determined |-> FALSE, cells |-> FALSE, untouched |-> {}] ELSE SupportInfo(P, mask)
      ws == si.determined /\ si.cells
      dr == IF few THEN {} ELSE IF si.touched THEN mask \cap Interior(P) ELSE NearGap(P, mask, si)
  IN [allowed |-> (IF ~few /\ si.touched THEN {0} ELSE {})
                  \cup (IF few THEN {-2}
                        ELSE IF ws THEN {}
                        ELSE (IF dr # {} THEN {-1} ELSE {}) \cup {-2}),
      droppable |-> dr,
      determined |-> si.determined]

(* ---- named deviation (what pydl does today) ---- *)
(* D-C09-1: whenever the factorisation signals a problem and there are more than 2 nord good knots *)
(* (i.e. breakpoints could be dropped), bspline.maskpoints raises IndexError / TypeError instead   *)
(* of answering -1 / -2; every fit whose class excludes status 0 is affected                       *)
Dev_MaskpointsRaises(P, mask) == Cardinality(mask) > 2 * P.nord /\ 0 \notin FitClass(P, mask).allowed

(* ---- properties of the machine ---- *)
MTypeOK == /\ status \in Statuses \cup {NoFit} /\ bkmask \subseteq AllKnots(prob)
           /\ phase \in {"fitting", "returned", "refused"} /\ nfits \in 0..prob.maxfits
EndKnotsKept == EndKnots(prob) \subseteq bkmask
(* every -1 has removed at least one breakpoint, so a history of fits is short *)
FitsBounded == nfits <= Cardinality(AllKnots(prob) \ bkmask) + 1
OKOnlyIfSupported == status = 0 => ~Unsupported(prob, bkmask)
DropMeansDropped == status = -1 => bkmask # AllKnots(prob)
(* consistency of the classes: whatever is demanded is allowed *)
ClassesConsistent == LET si == SupportInfo(prob, bkmask)
                         cls == FitClass(prob, bkmask)
                     IN /\ si.determined => si.touched
                        /\ cls.allowed # {}
                        /\ (cls.allowed = {0}) <=> (Cardinality(bkmask) >= 2 * prob.nord /\ si.determined /\ si.cells)
(* merging cells never turns a determined space into an undetermined one *)
DropKeepsDetermined == \A g \in bkmask \cap Interior(prob) :
                          Determined(prob, bkmask) => Determined(prob, bkmask \ {g})
(* action properties *)
MaskNeverGrows == [][bkmask' \subseteq bkmask]_mvars
WellSupportedGivesZero == [][(nfits' = nfits + 1 /\ WellSupported(prob, bkmask)) => status' = 0]_mvars
StatusDocumented == [][nfits' = nfits + 1 => status' \in Statuses]_mvars
(* a loop that may fit |Interior|+1 times ends with 0 or -2 *)
LoopEndsDecided == (phase = "returned" /\ prob.maxfits > Cardinality(Interior(prob)) /\ nfits > 0) => status \in {0, -2}
=============================================================================
