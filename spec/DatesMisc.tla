------------------------------ MODULE DatesMisc ------------------------------
(***************************************************************************)
(* X04 - dates, calibration constants and small helpers (growth unit; no   *)
(* listed property covers them).                                           *)
(*                                                                         *)
(* Behavioural statements decided (each quantified over the whole domain   *)
(* named; sources: the docstrings of pydl, the help texts of the two       *)
(* command-line entry points, the class statements and docstrings of the   *)
(* package __init__ files, pydl's own tests as examples):                  *)
(*                                                                         *)
(* S1 get_juldate(seconds), seconds a number of seconds since the UNIX     *)
(*    epoch given as int, float or a numpy scalar, returns a float equal   *)
(*    (to rounding: "do not use if high precision is required") to         *)
(*    JD = seconds / 86400 + 2440587.5 ("the MJD trick": MJD = seconds /   *)
(*    86400 + 40587, JD = MJD + 2400000.5).  Any value of seconds that is  *)
(*    GIVEN is used - 0 (tests: get_juldate(0) = 2440587.5), negative,     *)
(*    fractional, large - whatever the clock says.  Consequences decided   *)
(*    on the exact value: strictly increasing in seconds, one day later    *)
(*    per 86400 s, 2000-01-01 12:00 UTC (946728000 s) is JD 2451545.0.     *)
(*    (pydl has no get_julday; get_juldate is the only such function.)     *)
(* S2 get_juldate() and get_juldate(None) return the Julian date of the    *)
(*    current time: with the clock frozen at t, the value S1 gives for t.  *)
(* S3 current_mjd() returns the current MJD: with the clock frozen at t,   *)
(*    t / 86400 + 40587 = JD(t) - 2400000.5.                               *)
(* S4 get_juldate_main() (console script get_juldate) prints one line      *)
(*    holding the current Julian date and returns 0.  The number of        *)
(*    printed digits is not documented: the line must parse as a number    *)
(*    within 10^-6 day of JD(t).                                           *)
(* S5 hogg_iau_name_main() (console script hogg_iau_name, usage            *)
(*    "[-h] [-P N] [-p STR] RA Dec") prints one line, the name             *)
(*    hogg_iau_name(RA, Dec, prefix=STR, precision=N) of spec MiscUtils    *)
(*    (S3 there), defaults precision 1 and prefix SDSS as in the help and  *)
(*    the function, and returns 0.  The command line is READ by the usual  *)
(*    option conventions (operator Scan): an option's value is the rest of *)
(*    its argument (-PN, --precision=N) or the next argument; options may  *)
(*    stand before, between or after the positionals; the last occurrence  *)
(*    counts; "--" ends the options; an argument that looks like a         *)
(*    negative number is a value, not an option.  The way the decimal      *)
(*    numbers are written (sign, leading and trailing zeros, no integer    *)
(*    part) does not matter.  A command line without exactly two           *)
(*    positionals, with a non-numeric coordinate or precision, an option   *)
(*    without its value or an unknown option prints no name and does not   *)
(*    end with status 0; -h / --help prints the usage (naming RA, Dec and  *)
(*    the options) and ends with status 0.  Left open: coordinates exactly *)
(*    on a boundary of the last printed digit (the decimal text is not the *)
(*    float; see D-X02-3) or out of range, exponent notation, option       *)
(*    abbreviations, -P=N, precision > 2 (bound of the model).             *)
(* S6 sdss_calibv() returns a scalar Quantity in deg / d whose value is    *)
(*    2 * 0.396 arcsec / 71.72 s ("two frame numbers", "pixel scale of     *)
(*    0.396 arcsec", "frame time difference of 71.72 seconds"):            *)
(*    exactly 216 / 815 deg / d.                                         *)
(* S7 decode_mixed(x): "If x has a decode() method, x.decode() will be     *)
(*    returned.  Otherwise x will be returned unchanged" - bytes, numpy    *)
(*    bytes_ and bytearray give the str of their UTF-8 decoding (Python's  *)
(*    documented default of decode(); ill-formed UTF-8 raises              *)
(*    UnicodeDecodeError as x.decode() does); an object with its own       *)
(*    decode() gives that method's result; str, numpy str_, numbers, None, *)
(*    lists, tuples, dicts, memoryviews and numpy arrays of any dtype      *)
(*    (they have no decode()) come back as the very same object, not       *)
(*    modified.  What happens when decode() itself raises AttributeError   *)
(*    is left open.                                                        *)
(* S8 Exception hierarchy: PydlException is an Exception ("base class for  *)
(*    exceptions raised in PyDL functions"); PydlutilsException,           *)
(*    Pydlspec2dException and PhotoopException are PydlExceptions, so      *)
(*    "except PydlException" catches each of them and none of them catches *)
(*    a sibling; PydlutilsUserWarning and Pydlspec2dUserWarning are        *)
(*    AstropyUserWarnings (hence UserWarnings and AstropyWarnings) and are *)
(*    not PydlExceptions; no PydlException is a Warning.  Each class is    *)
(*    exported (__all__) by the package whose __init__ defines it.         *)
(*                                                                         *)
(* Values: integers, exact rationals (Rat: <<num, den>>), text as          *)
(* sequences of string pieces.  TLC integers are 32-bit: a time is kept in *)
(* two limbs (half days, seconds within), a Julian date likewise.          *)
(***************************************************************************)
EXTENDS Integers, Sequences, FiniteSets, Rat
MU == INSTANCE MiscUtils

(* ============================ S1-S4 Julian date ============================ *)
HalfDay == 43200                         \* seconds
EpochHalf == 4881175                     \* JD 2440587.5 (1970-01-01 00:00 UTC) in half days
MjdZeroHalf == 4800001                   \* JD 2400000.5 (MJD 0) in half days
(* a time: t = HalfDay * q + r seconds since the UNIX epoch, q an integer, r any rational *)
Time(q, r) == [q |-> q, r |-> r]
NormT(t) == LET k == Floor(Div(t.r, <<43200, 1>>))
            IN [q |-> t.q + k, r |-> Sub(t.r, <<43200 * k, 1>>)]
PlusSeconds(t, s) == [q |-> t.q, r |-> Add(t.r, s)]
(* a date: half / 2 + rem / 86400 days, 0 <= rem < HalfDay seconds *)
JulianDate(t) == LET n == NormT(t) IN [half |-> EpochHalf + n.q, rem |-> n.r]
ModifiedJD(t) == [JulianDate(t) EXCEPT !.half = @ - MjdZeroHalf]
DateLt(a, b) == a.half < b.half \/ (a.half = b.half /\ Lt(a.rem, b.rem))
DatePlusDays(a, n) == [a EXCEPT !.half = @ + 2 * n]

(* laws *)
JdNormal(t) == Le(Zero, JulianDate(t).rem) /\ Lt(JulianDate(t).rem, <<43200, 1>>)
(* the documented formula, read back: 86400 * JD - 86400 * 2440587.5 = t *)
JdDefining(t) ==
  LET j == JulianDate(t)
  IN Add(<<43200 * (j.half - EpochHalf - t.q), 1>>, Sub(j.rem, t.r)) = Zero
JdMonotone(t, s) == Lt(Zero, s) => DateLt(JulianDate(t), JulianDate(PlusSeconds(t, s)))
JdDayLater(t) == /\ JulianDate(PlusSeconds(t, <<86400, 1>>)) = DatePlusDays(JulianDate(t), 1)
                 /\ JulianDate(PlusSeconds(t, <<-86400, 1>>)) = DatePlusDays(JulianDate(t), -1)
JdRepresentationFree(t) == /\ JulianDate(t) = JulianDate(NormT(t))
                           /\ JulianDate(t) = JulianDate([q |-> t.q - 1, r |-> Add(t.r, <<43200, 1>>)])
                           /\ JulianDate(t) = JulianDate([q |-> t.q + 2, r |-> Sub(t.r, <<86400, 1>>)])
MjdIsJdMinusOffset(t) == /\ ModifiedJD(t).rem = JulianDate(t).rem
                         /\ JulianDate(t).half - ModifiedJD(t).half = 2 * 2400000 + 1
JdAnchors == /\ JulianDate(Time(0, Zero)) = [half |-> 2 * 2440587 + 1, rem |-> Zero]          \* JD 2440587.5
             /\ JulianDate(Time(2, Zero)) = [half |-> 2 * 2440588 + 1, rem |-> Zero]          \* pydl's test: 86400 s
             /\ JulianDate(Time(21915, Zero)) = [half |-> 2 * 2451545, rem |-> Zero]          \* J2000.0 = 946728000 s
             /\ ModifiedJD(Time(0, Zero)) = [half |-> 2 * 40587, rem |-> Zero]                \* MJD 40587
             /\ JulianDate(Time(-1, <<43199, 1>>)) = [half |-> 2 * 2440587, rem |-> <<43199, 1>>]   \* one second before the epoch

(* the types a number of seconds comes in; Fits = the type holds t exactly *)
NumTypes == {"int", "float", "np.int32", "np.int64", "np.float64", "np.float32", "np.float16", "array0d"}
IsPow2(d) == d \in {1, 2, 4, 8, 16, 32, 64}
Fits(ty, t) ==
  LET n == t.r[1]
      d == t.r[2]
  IN CASE ty \in {"int", "np.int64"} -> d = 1
       [] ty = "np.int32" -> d = 1 /\ Abs(t.q) <= 49000 /\ Abs(n) <= 1000000
       [] ty \in {"float", "np.float64", "array0d"} -> IsPow2(d) /\ Abs(t.q) <= 1073741824 /\ Abs(n) <= 16777216
       [] ty = "np.float32" -> IsPow2(d) /\ Abs(t.q) <= 380 /\ Abs(n) <= 4194304 /\ Abs(43200 * t.q * d + n) < 16777216
       [] ty = "np.float16" -> IsPow2(d) /\ t.q = 0 /\ Abs(n) < 2048
(* D-X04-1: for a numpy float narrower than 64 bits the arithmetic stays in the precision of the input *)
(* (NumPy 2 promotion), the result is not a float and is rounded to that precision (float16: infinite) *)
Dev_NarrowFloatArithmetic(ty) == ty \in {"np.float32", "np.float16"}

(* ways of asking: the time is passed (positionally / by keyword) or it is the frozen clock *)
Vias == {"pos", "kw", "clock", "clockNone", "mjd", "main"}
GivenVias == {"pos", "kw"}
JdExpected(cc) ==
  LET d == IF cc.via = "mjd" THEN ModifiedJD(cc.t) ELSE JulianDate(cc.t)
  IN [half |-> d.half, rem |-> d.rem, dev |-> cc.via \in GivenVias /\ Dev_NarrowFloatArithmetic(cc.ty)]
(* an observed float with its tolerance, rounded outward: H half days + s seconds + f / 2^20 second *)
LimbLe(x, d) ==         \* x <= d
  LET es == Floor(d.rem)
      ef == Sub(d.rem, <<es, 1>>)
  IN x[1] < d.half \/ (x[1] = d.half /\ (x[2] < es \/ (x[2] = es /\ x[3] * ef[2] <= ef[1] * 1048576)))
LimbGe(x, d) ==         \* x >= d
  LET es == Floor(d.rem)
      ef == Sub(d.rem, <<es, 1>>)
  IN x[1] > d.half \/ (x[1] = d.half /\ (x[2] > es \/ (x[2] = es /\ x[3] * ef[2] >= ef[1] * 1048576)))
Brackets(lo, hi, d) == LimbLe(lo, d) /\ LimbGe(hi, d)

(* ========================= S5 hogg_iau_name_main ========================= *)
(* A command line is a sequence of arguments, an argument a sequence of one-character strings.   *)
(* --- how a command line is READ (the usage "[-h] [-P N] [-p STR] RA Dec" under the usual option  *)
(* conventions: an option's value is the rest of the argument (-PN, --precision=N) or the next      *)
(* argument; "--" ends the options; an argument that looks like a negative number is a value) ---   *)
StartsWith(a, pre) == Len(a) >= Len(pre) /\ SubSeq(a, 1, Len(pre)) = pre
IndexOf(a, ch) == IF \E k \in DOMAIN a : a[k] = ch
                  THEN CHOOSE k \in DOMAIN a : a[k] = ch /\ \A j \in 1 .. (k - 1) : a[j] # ch ELSE 0
AllDigits(s) == \A k \in DOMAIN s : MU!IsDigit(s[k])
SplitDot(body) == LET dot == IndexOf(body, ".")
                  IN IF dot = 0 THEN [ip |-> body, fp |-> <<>>, dotted |-> FALSE]
                     ELSE [ip |-> SubSeq(body, 1, dot - 1), fp |-> SubSeq(body, dot + 1, Len(body)), dotted |-> TRUE]
NegNumberLike(a) ==           \* -D+ or -D*.D+
  /\ Len(a) >= 2 /\ a[1] = "-"
  /\ LET s == SplitDot(Tail(a))
     IN AllDigits(s.ip) /\ AllDigits(s.fp) /\ (IF s.dotted THEN s.fp # <<>> ELSE s.ip # <<>>)
LooksLikeOption(a) == Len(a) >= 2 /\ a[1] = "-" /\ ~NegNumberLike(a)
RECURSIVE StripLeadingZeros(_)
StripLeadingZeros(s) == IF s # <<>> /\ s[1] = "0" THEN StripLeadingZeros(Tail(s)) ELSE s
RECURSIVE StripTrailingZeros(_)
StripTrailingZeros(s) == IF s # <<>> /\ s[Len(s)] = "0" THEN StripTrailingZeros(SubSeq(s, 1, Len(s) - 1)) ELSE s
(* characters that occur in no spelling of a number that float() accepts (digits, sign, point, exponent, *)
(* underscore, blanks, "inf", "infinity", "nan") / that int() accepts                                    *)
NeverInFloat == {"b", "c", "d", "g", "h", "j", "k", "l", "m", "o", "p", "q", "r", "s", "u", "v", "w", "x", "z",
                 "B", "C", "D", "G", "H", "J", "K", "L", "M", "O", "P", "Q", "R", "S", "U", "V", "W", "X", "Z",
                 ":", ",", "/", "'", "*", "=", "(", ")"}
IntChars == {"0", "1", "2", "3", "4", "5", "6", "7", "8", "9", "+", "-", "_", " "}
(* a decimal number as typed -> status "val" (value q), "bad" (not a number), "open" (not decided here) *)
ReadDecimal(a) ==
  LET signed == a # <<>> /\ a[1] \in {"-", "+"}
      s == SplitDot(IF signed THEN Tail(a) ELSE a)
      ip == StripLeadingZeros(s.ip)
      fp == StripTrailingZeros(s.fp)
  IN IF AllDigits(s.ip) /\ AllDigits(s.fp) /\ Len(s.ip) + Len(s.fp) >= 1
     THEN (IF Len(fp) <= 6 /\ Len(ip) <= 3
           THEN [status |-> "val", q |-> R((IF a[1] = "-" THEN -1 ELSE 1) * MU!NumOf(ip \o fp), 10 ^ Len(fp))]
           ELSE [status |-> "open", q |-> Zero])
     ELSE IF a = <<>> \/ \E k \in DOMAIN a : a[k] \in NeverInFloat THEN [status |-> "bad", q |-> Zero]
     ELSE [status |-> "open", q |-> Zero]
ReadPrecision(a) ==
  IF a # <<>> /\ AllDigits(a) /\ Len(a) <= 2 THEN [status |-> "val", n |-> MU!NumOf(a)]
  ELSE IF a = <<>> \/ \E k \in DOMAIN a : a[k] \notin IntChars THEN [status |-> "bad", n |-> 0]
  ELSE [status |-> "open", n |-> 0]
Chars_precision == <<"p", "r", "e", "c", "i", "s", "i", "o", "n">>
Chars_prefix == <<"p", "r", "e", "f", "i", "x">>
Chars_help == <<"h", "e", "l", "p">>
SDSS == <<"S", "D", "S", "S">>
Scan0 == [pos |-> <<>>, p |-> [status |-> "val", n |-> 1], prefix |-> SDSS, status |-> "ok", only |-> FALSE]
SetOpt(st, which, val) == IF which = "P" THEN [st EXCEPT !.p = ReadPrecision(val), !.status = IF ReadPrecision(val).status = "bad" THEN "bad" ELSE @]
                          ELSE [st EXCEPT !.prefix = val]
RECURSIVE Scan(_, _)
Scan(args, st) ==
  IF st.status # "ok" \/ args = <<>> THEN st
  ELSE
    LET a == args[1]
        rest == Tail(args)
        next == IF rest = <<>> THEN <<>> ELSE rest[1]
        nextMissing == rest = <<>> \/ LooksLikeOption(next)
        afterNext == IF rest = <<>> THEN <<>> ELSE Tail(rest)
        unknown == IF \E k \in DOMAIN a : a[k] = " " THEN "open" ELSE "bad"      \* an unknown option with a blank: open
    IN IF st.only \/ ~LooksLikeOption(a) THEN Scan(rest, [st EXCEPT !.pos = Append(@, a)])
       ELSE IF a = <<"-", "-">> THEN Scan(rest, [st EXCEPT !.only = TRUE])
       ELSE IF StartsWith(a, <<"-", "-">>)
       THEN LET eq == IndexOf(a, "=")
                name == IF eq = 0 THEN SubSeq(a, 3, Len(a)) ELSE SubSeq(a, 3, eq - 1)
                val == IF eq = 0 THEN next ELSE SubSeq(a, eq + 1, Len(a))
                after == IF eq = 0 THEN afterNext ELSE rest
                which == IF name = Chars_precision THEN "P" ELSE "p"
            IN IF name = Chars_help THEN [st EXCEPT !.status = IF eq = 0 THEN "help" ELSE "open"]
               ELSE IF name \notin {Chars_precision, Chars_prefix}
               THEN [st EXCEPT !.status = IF name # <<>> /\ (StartsWith(Chars_precision, name) \/ StartsWith(Chars_prefix, name)
                                                             \/ StartsWith(Chars_help, name)) THEN "open" ELSE unknown]
               ELSE IF eq = 0 /\ nextMissing THEN [st EXCEPT !.status = "bad"]
               ELSE Scan(after, SetOpt(st, which, val))
       ELSE LET flag == a[2]
                inline == Len(a) > 2
                val == IF inline THEN SubSeq(a, 3, Len(a)) ELSE next
                after == IF inline THEN rest ELSE afterNext
            IN IF flag = "h" THEN [st EXCEPT !.status = IF inline THEN "open" ELSE "help"]
               ELSE IF flag \notin {"P", "p"} THEN [st EXCEPT !.status = unknown]
               ELSE IF inline /\ a[3] = "=" THEN [st EXCEPT !.status = "open"]
               ELSE IF ~inline /\ nextMissing THEN [st EXCEPT !.status = "bad"]
               ELSE Scan(after, SetOpt(st, flag, val))
MentionsHelp(args) == \E k \in DOMAIN args : StartsWith(args[k], <<"-", "h">>) \/ StartsWith(args[k], <<"-", "-", "h">>)
DecOnBoundary(dec, p) == LET k == 3600 * (10 ^ p)
                             g == GCD(k, dec[2]) IN dec[2] \div g = 1
(* out: "name" (exactly one line, the name; status 0), "reject" (no name, status not 0), "help" (usage, status 0), "open" *)
Outcome(out, line) == [out |-> out, line |-> line]
MainOutcome(argv) ==
  LET args == Tail(argv)
      st == Scan(args, Scan0)
  IN IF st.status = "help" THEN Outcome("help", <<>>)
     ELSE IF st.status = "open" \/ MentionsHelp(args) THEN Outcome("open", <<>>)
     ELSE IF st.status = "bad" \/ Len(st.pos) # 2 THEN Outcome("reject", <<>>)
     ELSE LET ra == ReadDecimal(st.pos[1])
              dec == ReadDecimal(st.pos[2])
          IN IF ra.status = "bad" \/ dec.status = "bad" THEN Outcome("reject", <<>>)
             ELSE IF ra.status = "open" \/ dec.status = "open" \/ st.p.status = "open" THEN Outcome("open", <<>>)
             ELSE IF ~MU!IauDefined(ra.q, dec.q, st.p.n) THEN Outcome("open", <<>>)
             ELSE IF st.p.n > 2 \/ (st.p.n = 2 /\ ra.q[2] > 100000) THEN Outcome("open", <<>>)      \* bound of the model: 32-bit integers
             ELSE IF MU!RaOnBoundary(ra.q, st.p.n) \/ DecOnBoundary(dec.q, st.p.n) THEN Outcome("open", <<>>)
             ELSE Outcome("name", MU!IauName(ra.q, dec.q, st.prefix, st.p.n))
HelpWords == { <<"R", "A">>, <<"D", "e", "c">>, <<"-", "-">> \o Chars_precision, <<"-", "-">> \o Chars_prefix,
               <<"-", "P">>, <<"-", "p">> }

(* --- how a command line is WRITTEN (the enumerated family): numbers and options in all their forms --- *)
DecNum(neg, ip, fr, nd) == [neg |-> neg, ip |-> ip, fr |-> fr, nd |-> nd]
DecValue(x) == R((IF x.neg THEN -1 ELSE 1) * (x.ip * (10 ^ x.nd) + x.fr), 10 ^ x.nd)
NumForms == {"plain", "plus", "pad", "trail", "noint"}
DecText(x, form) ==
  LET sign == IF x.neg THEN <<"-">> ELSE IF form = "plus" THEN <<"+">> ELSE <<>>
      ipart == IF form = "noint" /\ x.ip = 0 /\ x.nd > 0 THEN <<>>
               ELSE IF form = "pad" THEN <<"0">> \o MU!Digits(x.ip) ELSE MU!Digits(x.ip)
      fpart == IF x.nd = 0 THEN <<>>
               ELSE <<".">> \o MU!ZPad(x.fr, x.nd) \o (IF form = "trail" THEN <<"0", "0">> ELSE <<>>)
  IN sign \o ipart \o fpart
(* how = "none" (not given), "short" (-P N), "glued" (-PN), "long" (--precision N), "eq" (--precision=N) *)
OptHows == {"none", "short", "glued", "long", "eq"}
OptTokens(how, short, long, val) ==
  CASE how = "none" -> <<>>
    [] how = "short" -> << <<"-", short>>, val >>
    [] how = "glued" -> << <<"-", short>> \o val >>
    [] how = "long" -> << <<"-", "-">> \o long, val >>
    [] how = "eq" -> << <<"-", "-">> \o long \o <<"=">> \o val >>
Layouts == 1 .. 5
Program == <<"h", "o", "g", "g", "_", "i", "a", "u", "_", "n", "a", "m", "e">>
ArgvOf(m) ==
  LET P == OptTokens(m.phow, "P", Chars_precision, MU!Digits(m.p))
      Q == OptTokens(m.qhow, "p", Chars_prefix, m.prefix)
      ra == DecText(m.ra, m.form)
      dec == DecText(m.dec, m.form)
  IN <<Program>> \o
     (CASE m.layout = 1 -> P \o Q \o <<ra, dec>>
        [] m.layout = 2 -> <<ra, dec>> \o P \o Q
        [] m.layout = 3 -> Q \o <<ra>> \o P \o <<dec>>
        [] m.layout = 4 -> Q \o P \o << <<"-", "-">>, ra, dec >>
        [] m.layout = 5 -> <<ra>> \o Q \o <<dec>> \o P)
EffPrecision(m) == IF m.phow = "none" THEN 1 ELSE m.p
EffPrefix(m) == IF m.qhow = "none" THEN SDSS ELSE m.prefix
(* laws tying the two descriptions together: what was written is what is read *)
ReadsBack(m) ==
  LET st == Scan(Tail(ArgvOf(m)), Scan0)
  IN /\ st.status = "ok" /\ Len(st.pos) = 2
     /\ ReadDecimal(st.pos[1]) = [status |-> "val", q |-> DecValue(m.ra)]
     /\ ReadDecimal(st.pos[2]) = [status |-> "val", q |-> DecValue(m.dec)]
     /\ st.p = [status |-> "val", n |-> EffPrecision(m)]
     /\ st.prefix = EffPrefix(m)
MainNameOfValues(m) ==
  LET o == MainOutcome(ArgvOf(m))
  IN o.out = "name" => o.line = MU!IauName(DecValue(m.ra), DecValue(m.dec), EffPrefix(m), EffPrecision(m))
MainFormFree(m) == \A f \in NumForms : \A l \in Layouts :
   MainOutcome(ArgvOf([m EXCEPT !.form = f, !.layout = l])) = MainOutcome(ArgvOf(m))
MainDefaults(m) ==
   /\ (m.phow = "none" => MainOutcome(ArgvOf(m)) = MainOutcome(ArgvOf([m EXCEPT !.phow = "short", !.p = 1])))
   /\ (m.qhow = "none" => MainOutcome(ArgvOf(m)) = MainOutcome(ArgvOf([m EXCEPT !.qhow = "long", !.prefix = SDSS])))
(* command lines that are not "[-P N] [-p STR] RA Dec" *)
Ch_1031 == <<"1", "0", ".", "3", "1", "0", "0", "7">>
Ch_537 == <<"5", ".", "3", "7", "0", "0", "3">>
BadArgvs == {
  <<Program>>,
  <<Program, Ch_1031>>,
  <<Program, Ch_1031, Ch_537, <<"7", ".", "7", "7">> >>,
  <<Program, <<"a", "b", "c">>, Ch_537>>,
  <<Program, Ch_1031, <<"5", "d", "2", "2", "m">> >>,
  <<Program, <<"-", "P">>, <<"x">>, Ch_1031, Ch_537>>,
  <<Program, <<"-", "P">>, <<"1", ".", "5">>, Ch_1031, Ch_537>>,
  <<Program, Ch_1031, Ch_537, <<"-", "P">> >>,
  <<Program, Ch_1031, Ch_537, <<"-", "-">> \o Chars_prefix>>,
  <<Program, <<"-", "-", "f", "r", "o", "b">>, Ch_1031, Ch_537>>,
  <<Program, <<"-", "x">>, Ch_1031, Ch_537>>,
  <<Program, <<"-", "P">>, <<"2">>, <<"-", "p">>, <<"X">>, Ch_1031>>,
  <<Program, <<"-", "P">>, <<"-", "p">>, <<"X">>, Ch_1031, Ch_537>>,
  <<Program, <<"-", "-">>, <<"-", "P">>, <<"2">>, Ch_1031, Ch_537>> }
HelpArgvs == { <<Program, <<"-", "h">> >>, <<Program, <<"-", "-">> \o Chars_help>>, <<Program, Ch_1031, <<"-", "h">> >>,
               <<Program, <<"-", "P">>, <<"2">>, <<"-", "h">>, Ch_1031, Ch_537>> }
(* more ways of writing a valid command line than ArgvOf produces *)
OddArgvs == {
  <<Program, <<"-", "P">>, <<"2">>, <<"-", "P">>, <<"0">>, Ch_1031, <<"-", ".", "5", "3", "7", "0", "3">> >>,       \* the last -P counts
  <<Program, <<"-", "p", "-", "X">>, Ch_1031, Ch_537>>,                                                             \* prefix "-X", glued
  <<Program, <<"-", "-">> \o Chars_prefix \o <<"=">>, Ch_1031, Ch_537>>,                                             \* empty prefix
  <<Program, <<"-", "-">> \o Chars_prefix \o <<"=", "a", "=", "b">>, Ch_1031, Ch_537>>,
  <<Program, <<"-", "p">>, <<"-", "7">>, Ch_1031, Ch_537>>,                                                          \* prefix "-7": a value
  <<Program, <<"-", "P", "0", "2">>, Ch_1031, <<"-", "0", "0", "5", ".", "3", "7", "0", "0", "3">> >>,
  <<Program, <<"-", "p">>, <<>>, Ch_1031, Ch_537>>,
  <<Program, Ch_1031, <<"-", "5", ".", "3", "7", "0", "0", "3">>, <<"-", "-">> >> }
TextMeansValue(x) ==         \* every way of writing the number is read as the same number
   \A f \in NumForms : ReadDecimal(DecText(x, f)) = [status |-> "val", q |-> DecValue(x)]

(* ============================== S6 sdss_calibv ============================== *)
PixScale == <<99, 250>>                  \* 0.396 arcsec
FrameTime == <<1793, 25>>                \* 71.72 s
CalibV == Div(Mul(<<2, 1>>, Div(<<99, 250>>, <<3600, 1>>)), Div(<<1793, 25>>, <<86400, 1>>))        \* deg / d
CalibUnits == {"deg/d", "arcsec/s", "arcsec/d", "deg/h", "arcmin/h"}
CalibVIn(unit) ==
  CASE unit = "deg/d" -> CalibV
    [] unit = "arcsec/s" -> Div(Mul(<<2, 1>>, PixScale), FrameTime)
    [] unit = "arcsec/d" -> Mul(CalibV, <<3600, 1>>)
    [] unit = "deg/h" -> Div(CalibV, <<24, 1>>)
    [] unit = "arcmin/h" -> Div(Mul(CalibV, <<60, 1>>), <<24, 1>>)
CalibLaws == /\ CalibV = <<216, 815>>
             /\ Mul(CalibVIn("arcsec/s"), FrameTime) = Mul(<<2, 1>>, PixScale)        \* two pixels per frame time
             /\ Mul(CalibVIn("arcsec/s"), <<86400, 1>>) = CalibVIn("arcsec/d")
             /\ Mul(CalibVIn("deg/h"), <<24, 1>>) = CalibV
             /\ Lt(<<26, 100>>, CalibV) /\ Lt(CalibV, <<27, 100>>)

(* ============================== S7 decode_mixed ============================== *)
(* well-formed UTF-8 (Unicode standard, table 3-7): shortest form, no surrogates, at most U+10FFFF *)
IsCont(x) == x >= 128 /\ x <= 191
BadText == [ok |-> FALSE, cps |-> <<>>]
SeqLenOfLead(b1) == IF b1 < 128 THEN 1 ELSE IF b1 >= 194 /\ b1 <= 223 THEN 2
                    ELSE IF b1 >= 224 /\ b1 <= 239 THEN 3 ELSE IF b1 >= 240 /\ b1 <= 244 THEN 4 ELSE 0
RECURSIVE Utf8(_)
Utf8(b) ==
  IF b = <<>> THEN [ok |-> TRUE, cps |-> <<>>]
  ELSE LET n == SeqLenOfLead(b[1])
       IN IF n = 0 \/ Len(b) < n THEN BadText
          ELSE IF \E k \in 2 .. n : ~IsCont(b[k]) THEN BadText
          ELSE LET cp == CASE n = 1 -> b[1]
                           [] n = 2 -> (b[1] - 192) * 64 + (b[2] - 128)
                           [] n = 3 -> (b[1] - 224) * 4096 + (b[2] - 128) * 64 + (b[3] - 128)
                           [] n = 4 -> (b[1] - 240) * 262144 + (b[2] - 128) * 4096 + (b[3] - 128) * 64 + (b[4] - 128)
                   valid == /\ (n = 3 => cp >= 2048 /\ ~(cp >= 55296 /\ cp <= 57343))
                            /\ (n = 4 => cp >= 65536 /\ cp <= 1114111)
                   rest == Utf8(SubSeq(b, n + 1, Len(b)))
               IN IF ~valid \/ ~rest.ok THEN BadText ELSE [ok |-> TRUE, cps |-> <<cp>> \o rest.cps]
EncodeCp(cp) ==
  IF cp < 128 THEN <<cp>>
  ELSE IF cp < 2048 THEN <<192 + (cp \div 64), 128 + (cp % 64)>>
  ELSE IF cp < 65536 THEN <<224 + (cp \div 4096), 128 + ((cp \div 64) % 64), 128 + (cp % 64)>>
  ELSE <<240 + (cp \div 262144), 128 + ((cp \div 4096) % 64), 128 + ((cp \div 64) % 64), 128 + (cp % 64)>>
RECURSIVE Utf8Encode(_)
Utf8Encode(cps) == IF cps = <<>> THEN <<>> ELSE EncodeCp(cps[1]) \o Utf8Encode(Tail(cps))
(* kinds of objects *)
DecodingKinds == {"bytes", "np.bytes_", "bytearray"}
CustomKinds == {"custom"}                      \* an object whose decode() returns a token of its own
SameKinds == {"str", "np.str_", "int", "float", "none", "bool", "list", "tuple", "dict", "memoryview",
              "ndarray_S", "ndarray_U", "ndarray_i", "ndarray_O", "ndarray_S0d"}
ObjKinds == DecodingKinds \cup CustomKinds \cup SameKinds
HasDecode(kind) == kind \in DecodingKinds \cup CustomKinds
(* out: "str" (cps = code points), "raise" (UnicodeDecodeError), "same" (the very object), "token" *)
DecodeExpected(kind, b) ==
  IF kind \in DecodingKinds
  THEN (IF Utf8(b).ok THEN [out |-> "str", cps |-> Utf8(b).cps] ELSE [out |-> "raise", cps |-> <<>>])
  ELSE IF kind \in CustomKinds THEN [out |-> "token", cps |-> <<>>]
  ELSE [out |-> "same", cps |-> <<>>]
(* laws *)
Utf8RoundTrip(b) == Utf8(b).ok => Utf8Encode(Utf8(b).cps) = b
Utf8AsciiIdentity(b) == (\A k \in DOMAIN b : b[k] < 128) => (Utf8(b).ok /\ Utf8(b).cps = b)
Utf8Lengths(b) == Utf8(b).ok => (Len(Utf8(b).cps) <= Len(b) /\ 4 * Len(Utf8(b).cps) >= Len(b))
Utf8Concat(b) == \A k \in 0 .. Len(b) :
   (Utf8(SubSeq(b, 1, k)).ok /\ Utf8(SubSeq(b, k + 1, Len(b))).ok) =>
      (Utf8(b).ok /\ Utf8(b).cps = Utf8(SubSeq(b, 1, k)).cps \o Utf8(SubSeq(b, k + 1, Len(b))).cps)
DecodeOnlyWithMethod(kind, b) == (DecodeExpected(kind, b).out = "same") = ~HasDecode(kind)

(* =========================== S8 exception hierarchy =========================== *)
PydlClasses == {"PydlException", "PydlutilsException", "Pydlspec2dException", "PhotoopException",
                "PydlutilsUserWarning", "Pydlspec2dUserWarning"}
OtherClasses == {"BaseException", "Exception", "Warning", "UserWarning", "AstropyWarning", "AstropyUserWarning"}
Classes == PydlClasses \cup OtherClasses
Bases(cl) ==
  CASE cl = "BaseException" -> {}
    [] cl = "Exception" -> {"BaseException"}
    [] cl = "Warning" -> {"Exception"}
    [] cl = "UserWarning" -> {"Warning"}
    [] cl = "AstropyWarning" -> {"Warning"}
    [] cl = "AstropyUserWarning" -> {"UserWarning", "AstropyWarning"}
    [] cl = "PydlException" -> {"Exception"}
    [] cl \in {"PydlutilsException", "Pydlspec2dException", "PhotoopException"} -> {"PydlException"}
    [] cl \in {"PydlutilsUserWarning", "Pydlspec2dUserWarning"} -> {"AstropyUserWarning"}
RECURSIVE Closure(_)
Closure(S) == LET T == S \cup UNION {Bases(x) : x \in S} IN IF T = S THEN S ELSE Closure(T)
IsSub(a, b) == b \in Closure({a})
HomeOf(cl) ==
  CASE cl = "PydlException" -> "pydl"
    [] cl \in {"PydlutilsException", "PydlutilsUserWarning"} -> "pydl.pydlutils"
    [] cl \in {"Pydlspec2dException", "Pydlspec2dUserWarning"} -> "pydl.pydlspec2d"
    [] cl = "PhotoopException" -> "pydl.photoop"
    [] cl \in {"AstropyWarning", "AstropyUserWarning"} -> "astropy.utils.exceptions"
    [] OTHER -> "builtins"
ExcExpected(a, b) == [sub |-> IsSub(a, b), home |-> HomeOf(a), exported |-> a \in PydlClasses]
PackageExceptions == {"PydlutilsException", "Pydlspec2dException", "PhotoopException"}
PackageWarnings == {"PydlutilsUserWarning", "Pydlspec2dUserWarning"}
HierarchyLaws ==
  /\ \A a, b \in Classes : (IsSub(a, b) /\ IsSub(b, a)) => a = b
  /\ \A a, b, cc \in Classes : (IsSub(a, b) /\ IsSub(b, cc)) => IsSub(a, cc)
  /\ \A a \in Classes : IsSub(a, a) /\ IsSub(a, "BaseException")
  /\ \A a \in PackageExceptions : IsSub(a, "PydlException") /\ IsSub(a, "Exception") /\ ~IsSub(a, "Warning")
  /\ \A a, b \in PackageExceptions : a # b => ~IsSub(a, b)
  /\ \A a \in PackageWarnings : /\ IsSub(a, "UserWarning") /\ IsSub(a, "AstropyWarning") /\ IsSub(a, "Warning")
                                /\ ~IsSub(a, "PydlException")
  /\ \A a, b \in PackageWarnings : a # b => ~IsSub(a, b)
  /\ ~IsSub("PydlException", "Warning")
  /\ \A a \in Classes : IsSub(a, "PydlException") => a \in PackageExceptions \cup {"PydlException"}
=============================================================================
