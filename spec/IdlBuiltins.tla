---------------------------- MODULE IdlBuiltins ----------------------------
(***************************************************************************)
(* C14 - the IDL built-in replacements SMOOTH, MEDIAN, UNIQ and REBIN.     *)
(*                                                                         *)
(* Arrays are sequences of exact rationals (module Rat) in row-major order *)
(* together with a shape (a tuple of positive dimensions); subscripts in   *)
(* the prose are 0-based as in IDL.  Every function is specified twice, in *)
(* two differently phrased ways, and the model checker confirms that the   *)
(* two phrasings agree on every enumerated call (laws at the end).         *)
(*                                                                         *)
(* The call model: one call = (fn, x, shape, w, flag, d)                   *)
(*   fn = "smooth"   x 1-D, w = requested width, flag = edge_truncate      *)
(*        "median"   x any shape, flag = even                              *)
(*        "runmed1"  x 1-D, w = odd width                                  *)
(*        "runmed2"  x 2-D, w = odd width                                  *)
(*        "uniq"     x 1-D sorted                                          *)
(*        "uniqidx"  x 1-D, d = a permutation of 0..n-1 that sorts x       *)
(*        "rebin"    x 1..3-D, d = requested shape, flag = sample          *)
(* and the specified outcome Expected(...) is a record                     *)
(*   [err, shape, val, alt]: err = TRUE means "raises ValueError";         *)
(* otherwise the result has exactly this shape and these values (alt is a  *)
(* second acceptable value sequence where the statement leaves a choice,   *)
(* otherwise alt = val).                                                   *)
(***************************************************************************)
EXTENDS Rat, FiniteSets, TLC

At(s, i) == s[i + 1]                           \* 0-based subscript
RangeOf(s) == {s[k] : k \in DOMAIN s}
IsConstant(s) == \A j, k \in DOMAIN s : s[j] = s[k]
RECURSIVE Prod(_)
Prod(t) == IF t = <<>> THEN 1 ELSE t[1] * Prod(Tail(t))
Min(a, b) == IF a < b THEN a ELSE b
Max(a, b) == IF a > b THEN a ELSE b
IsRatSeq(s) == \A k \in DOMAIN s : IsRat(s[k])
RECURSIVE SumRange(_, _, _)      \* balanced, so that long arrays do not need a deep recursion
SumRange(s, lo, hi) == IF lo > hi THEN Zero
                       ELSE IF lo = hi THEN s[lo]
                       ELSE LET mid == (lo + hi) \div 2 IN Add(SumRange(s, lo, mid), SumRange(s, mid + 1, hi))
Total(s) == SumRange(s, 1, Len(s))

(* ------------------------------ SMOOTH ------------------------------ *)
(* The requested width is made odd; widths below 3 mean "no smoothing".  *)
(* Interior points i (h <= i <= n-1-h, h = width \div 2) become the mean *)
(* of the 2h+1 samples centred on i.  The h points at either end are     *)
(* returned untouched, unless edge truncation is requested: then they    *)
(* too become the mean of the centred window, in which every sample      *)
(* that falls outside the array is replaced by the nearest edge value.   *)
OddWidth(w) == IF w % 2 = 0 THEN w + 1 ELSE w
(* Domain: every REQUESTED width w <= n (made odd afterwards, so the effective width can  *)
(* be n + 1 when w = n is even: then no point is interior; with edge truncation every     *)
(* window is still completed with the nearest edge value, without it nothing changes).    *)
SmoothDefined(n, w) == n >= 1 /\ w >= 0 /\ w <= n
Clamp(i, n) == IF i < 0 THEN 0 ELSE IF i > n - 1 THEN n - 1 ELSE i
IsInterior(i, n, h) == i >= h /\ i <= n - 1 - h

BoxMean(s, i, h) ==
  Div(Total([j \in 1 .. (2 * h + 1) |-> At(s, Clamp(i - h + j - 1, Len(s)))]), OfInt(2 * h + 1))

Smooth(s, w, edge) ==
  LET n == Len(s)
      h == OddWidth(w) \div 2
  IN IF OddWidth(w) < 3 THEN s
     ELSE [k \in 1 .. n |-> IF IsInterior(k - 1, n, h) \/ edge THEN BoxMean(s, k - 1, h) ELSE s[k]]

(* second phrasing: prefix sums; the clamped part of a window is counted, not summed *)
RECURSIVE PrefixSums(_)          \* P[1] = 0, P[k+1] = s[1] + ... + s[k]
PrefixSums(s) == IF s = <<>> THEN <<Zero>>
                 ELSE LET p == PrefixSums(SubSeq(s, 1, Len(s) - 1))
                      IN Append(p, Add(p[Len(p)], s[Len(s)]))
SmoothViaPrefix(s, w, edge) ==
  LET n == Len(s)
      W == OddWidth(w)
      h == (W - 1) \div 2
      P == PrefixSums(s)
      Win(i) == LET lo == Max(i - h, 0)
                    hi == Min(i + h, n - 1)
                    inside == Sub(P[hi + 2], P[lo + 1])
                    left == Mul(OfInt(lo - (i - h)), s[1])
                    right == Mul(OfInt((i + h) - hi), s[n])
                IN Div(Add(inside, Add(left, right)), OfInt(W))
  IN IF W <= 1 THEN s
     ELSE [k \in 1 .. n |-> IF (k - 1 < h \/ k - 1 > n - 1 - h) /\ ~edge THEN s[k] ELSE Win(k - 1)]

(* ------------------------------ MEDIAN ------------------------------ *)
(* Without a width: the median of all elements.  For an even count IDL   *)
(* returns the upper of the two middle elements, unless EVEN is set,     *)
(* when it returns their mean.                                           *)
Sorted(a) == SortSeq(a, Lt)
Median(a, even) ==
  LET n == Len(a)
      s == Sorted(a)
  IN IF n % 2 = 1 THEN s[(n + 1) \div 2]
     ELSE IF even THEN Div(Add(s[n \div 2], s[n \div 2 + 1]), OfInt(2))
     ELSE s[n \div 2 + 1]

(* second phrasing: order statistics by counting, no sorting *)
CountLt(a, m) == Cardinality({k \in DOMAIN a : Lt(a[k], m)})
CountLe(a, m) == Cardinality({k \in DOMAIN a : Le(a[k], m)})
Kth(a, k) == CHOOSE m \in RangeOf(a) : CountLt(a, m) <= k /\ CountLe(a, m) > k     \* k 0-based
MedianByCounting(a, even) ==
  LET n == Len(a)
  IN IF n % 2 = 1 \/ ~even THEN Kth(a, n \div 2)
     ELSE Div(Add(Kth(a, n \div 2 - 1), Kth(a, n \div 2)), OfInt(2))

(* With an (odd) width: every point at least w \div 2 away from every    *)
(* edge becomes the median of the w (1-D) or w x w (2-D) neighbourhood   *)
(* centred on it; all other points are returned untouched.               *)
RunMed1Defined(n, w) == n >= 1 /\ w >= 1 /\ w % 2 = 1 /\ w <= n
RunMed2Defined(shape, w) == Len(shape) = 2 /\ shape[1] >= 1 /\ shape[2] >= 1 /\ w >= 1 /\ w % 2 = 1
                            /\ w <= shape[1] /\ w <= shape[2]

RunMedian1With(Med(_, _), a, w) ==
  LET n == Len(a)
      h == w \div 2
  IN [k \in 1 .. n |-> IF IsInterior(k - 1, n, h) THEN Med(SubSeq(a, k - h, k + h), FALSE) ELSE a[k]]
RunMedian1(a, w) == RunMedian1With(Median, a, w)

RunMedian2With(Med(_, _), img, shape, w) ==
  LET nr == shape[1]
      nc == shape[2]
      h == w \div 2
      Pix(r, c) == img[r * nc + c + 1]
      Hood(r, c) == [t \in 1 .. (w * w) |-> Pix(r - h + ((t - 1) \div w), c - h + ((t - 1) % w))]
  IN [k \in 1 .. (nr * nc) |->
        LET r == (k - 1) \div nc
            c == (k - 1) % nc
        IN IF IsInterior(r, nr, h) /\ IsInterior(c, nc, h) THEN Med(Hood(r, c), FALSE) ELSE img[k]]
RunMedian2(img, shape, w) == RunMedian2With(Median, img, shape, w)

(* ------------------------------- UNIQ ------------------------------- *)
(* For a sorted array: the subscript of the last element of every run of *)
(* equal values, ascending.  (A constant array is a single run.)         *)
IsSorted(x) == \A k \in 1 .. (Len(x) - 1) : Le(x[k], x[k + 1])
RECURSIVE UniqFrom(_, _)
UniqFrom(x, k) == IF k > Len(x) THEN <<>>
                  ELSE (IF k = Len(x) \/ x[k] # x[k + 1] THEN <<k - 1>> ELSE <<>>) \o UniqFrom(x, k + 1)
Uniq(x) == UniqFrom(x, 1)

(* second phrasing: cut the array into its runs, add up the run lengths *)
RECURSIVE RunLengths(_)
RunLengths(x) ==
  IF x = <<>> THEN <<>>
  ELSE LET same == {k \in 1 .. Len(x) : \A j \in 1 .. k : x[j] = x[1]}
           l == CHOOSE k \in same : \A j \in same : j <= k
       IN <<l>> \o RunLengths(SubSeq(x, l + 1, Len(x)))
RECURSIVE RunEnds(_, _)
RunEnds(ls, before) == IF ls = <<>> THEN <<>> ELSE <<before + ls[1] - 1>> \o RunEnds(Tail(ls), before + ls[1])
UniqViaRuns(x) == RunEnds(RunLengths(x), 0)

(* Through a sorting index idx (a permutation of 0..n-1 such that x[idx] is sorted):  *)
(* the subscripts INTO x of the last element of every run of x[idx].                  *)
IsPermutation(idx, n) == Len(idx) = n /\ RangeOf(idx) = 0 .. (n - 1)
Through(x, idx) == [k \in 1 .. Len(idx) |-> At(x, idx[k])]
UniqIdxDefined(x, idx) == Len(x) >= 1 /\ IsPermutation(idx, Len(x)) /\ IsSorted(Through(x, idx))
UniqIdx(x, idx) == LET u == Uniq(Through(x, idx)) IN [k \in 1 .. Len(u) |-> At(idx, u[k])]
(* Open point: for a constant array IDL's UNIQ(x, idx) returns n-1, not idx[n-1]; both   *)
(* are the subscript of an element of the single run, the statement does not choose.    *)
UniqIdxAlt(x, idx) == IF IsConstant(x) THEN <<Len(x) - 1>> ELSE UniqIdx(x, idx)

(* ------------------------------- REBIN ------------------------------- *)
(* Per axis, with d0 the old and d the new dimension:                    *)
(*   d = d0         unchanged                                            *)
(*   d = m * d0     expansion: element i is taken at position            *)
(*                  p = i * d0 / d; with SAMPLE it is x[floor(p)], else  *)
(*                  x[fp] + (p - fp)(x[fp+1] - x[fp]) where positions    *)
(*                  beyond the last element use the last element         *)
(*                  (no extrapolation)                                   *)
(*   d0 = m * d     shrinking: with SAMPLE element i is x[i * m], else   *)
(*                  the mean of the block x[i*m .. i*m + m - 1]          *)
(*   otherwise      ValueError; so is a change of rank.                  *)
AxisKind(d0, d) == IF d = d0 THEN "keep"
                   ELSE IF d > d0 /\ d % d0 = 0 THEN "expand"
                   ELSE IF d >= 1 /\ d < d0 /\ d0 % d = 0 THEN "shrink"
                   ELSE "bad"
RebinAccepts(shape, d) == Len(d) = Len(shape) /\ \A a \in DOMAIN shape : AxisKind(shape[a], d[a]) # "bad"
RebinDefined(shape, d) == Len(shape) \in 1 .. 3 /\ Len(d) >= 1
                          /\ (\A a \in DOMAIN shape : shape[a] >= 1) /\ (\A a \in DOMAIN d : d[a] >= 1)

(* one element of the 1-D rule applied to a lane of length d0 whose t-th (0-based) element is Get(t) *)
Rebin1Of(Get(_), d0, d, sample, i) ==
  IF d = d0 THEN Get(i)
  ELSE IF d > d0 THEN
     LET fp == (i * d0) \div d
         frac == R(i * d0 - fp * d, d)
     IN IF sample \/ fp >= d0 - 1 THEN Get(fp)
        ELSE Add(Get(fp), Mul(frac, Sub(Get(fp + 1), Get(fp))))
  ELSE LET m == d0 \div d
       IN IF sample THEN Get(i * m)
          ELSE Div(Total([t \in 1 .. m |-> Get(i * m + t - 1)]), OfInt(m))
Rebin1(s, d, sample) == [j \in 1 .. d |-> Rebin1Of(LAMBDA t : At(s, t), Len(s), d, sample, j - 1)]

Stride(shape, a) == Prod(SubSeq(shape, a + 1, Len(shape)))
Strides(shape) == [a \in 1 .. Len(shape) |-> Stride(shape, a)]

(* first phrasing: axis by axis, first axis first; the lane through an output element is *)
(* the set of input elements that differ from it only in the subscript of axis a         *)
RebinAxis(v, shape, a, d, sample) ==
  LET st == Stride(shape, a)              \* same stride before and after (dims after a are equal)
      d0 == shape[a]
  IN [k \in 1 .. (Prod(shape) \div d0) * d |->
        LET p == k - 1
            outer == p \div (st * d)
            inner == p % st
        IN Rebin1Of(LAMBDA t : v[outer * st * d0 + t * st + inner + 1], d0, d, sample, (p \div st) % d)]
RECURSIVE RebinFrom(_, _, _, _, _)
RebinFrom(v, shape, d, sample, a) ==
  IF a > Len(shape) THEN v
  ELSE RebinFrom(RebinAxis(v, shape, a, d[a], sample), [shape EXCEPT ![a] = d[a]], d, sample, a + 1)
Rebin(v, shape, d, sample) == RebinFrom(v, shape, d, sample, 1)

(* second phrasing: every output element is a weighted sum of input elements; the weight *)
(* is the product over the axes of the per-axis weights                                   *)
AxisWeights(d0, d, sample, i) ==           \* sequence of <<source subscript, weight>>
  IF d = d0 THEN << <<i, One>> >>
  ELSE IF d > d0 THEN
     LET m == d \div d0
         q == i \div m
         r == i % m
     IN IF sample \/ r = 0 \/ q = d0 - 1 THEN << <<q, One>> >>
        ELSE << <<q, R(m - r, m)>>, <<q + 1, R(r, m)>> >>
  ELSE LET m == d0 \div d
       IN IF sample THEN << <<i * m, One>> >>
          ELSE [t \in 1 .. m |-> <<i * m + t - 1, R(1, m)>>]
RECURSIVE WeightedSum(_, _, _, _, _, _, _, _, _)
WeightedSum(v, shape, d, sample, ss, sd, p, a, off) ==
  IF a > Len(shape) THEN v[off + 1]
  ELSE LET ws == AxisWeights(shape[a], d[a], sample, (p \div sd[a]) % d[a])
       IN Total([t \in 1 .. Len(ws) |->
                    Mul(ws[t][2], WeightedSum(v, shape, d, sample, ss, sd, p, a + 1, off + ws[t][1] * ss[a]))])
RebinDirect(v, shape, d, sample) ==
  LET ss == Strides(shape)
      sd == Strides(d)
  IN [k \in 1 .. Prod(d) |-> WeightedSum(v, shape, d, sample, ss, sd, k - 1, 1, 0)]

(* the result has the dtype of the input *)
ResultDtype(dt) == dt

(* --------------------------- the call model --------------------------- *)
Fns == {"smooth", "median", "runmed1", "runmed2", "uniq", "uniqidx", "rebin"}
ValueError == [err |-> TRUE, shape |-> <<>>, val |-> <<>>, alt |-> <<>>]
Result(shape, val) == [err |-> FALSE, shape |-> shape, val |-> val, alt |-> val]
OfInts(t) == [k \in 1 .. Len(t) |-> OfInt(t[k])]

(* Defined = the call is inside the family the property quantifies over *)
Defined(fn, x, shape, w, flag, d) ==
  /\ fn \in Fns
  /\ Len(x) = Prod(shape) /\ Len(x) >= 1
  /\ CASE fn = "smooth" -> Len(shape) = 1 /\ SmoothDefined(Len(x), w)
       [] fn = "median" -> TRUE
       [] fn = "runmed1" -> Len(shape) = 1 /\ RunMed1Defined(Len(x), w)
       [] fn = "runmed2" -> RunMed2Defined(shape, w)
       [] fn = "uniq" -> Len(shape) = 1 /\ IsSorted(x)
       [] fn = "uniqidx" -> Len(shape) = 1 /\ UniqIdxDefined(x, d)
       [] fn = "rebin" -> RebinDefined(shape, d)

Expected(fn, x, shape, w, flag, d) ==
  CASE fn = "smooth" -> Result(shape, Smooth(x, w, flag))
    [] fn = "median" -> Result(<<>>, <<Median(x, flag)>>)
    [] fn = "runmed1" -> Result(shape, RunMedian1(x, w))
    [] fn = "runmed2" -> Result(shape, RunMedian2(x, shape, w))
    [] fn = "uniq" -> LET u == Uniq(x) IN Result(<<Len(u)>>, OfInts(u))
    [] fn = "uniqidx" -> LET u == UniqIdx(x, d)
                             a == UniqIdxAlt(x, d)
                         IN [err |-> FALSE, shape |-> <<Len(u)>>, val |-> OfInts(u), alt |-> OfInts(a)]
    [] fn = "rebin" -> IF RebinAccepts(shape, d) THEN Result(d, Rebin(x, shape, d, flag)) ELSE ValueError

(* ------------------------------- laws ------------------------------- *)
(* Each law is stated about r, "the specified result of the call"; the model checker     *)
(* instantiates r with Expected(...).val for every enumerated call.                      *)
(* SMOOTH: r = Smooth(s, w, edge) *)
SmoothTwoPhrasings(r, s, w, edge) == r = SmoothViaPrefix(s, w, edge)
SmoothFixesConstants(r, s) == IsConstant(s) => r = s
SmoothEdgesUntouched(r, s, w, edge) ==
  ~edge => \A k \in 1 .. Len(s) : ~IsInterior(k - 1, Len(s), OddWidth(w) \div 2) => r[k] = s[k]
SmoothEdgeFlagOnlyAtEdges(r, s, w, edge) ==
  edge => \A k \in 1 .. Len(s) : IsInterior(k - 1, Len(s), OddWidth(w) \div 2) => r[k] = Smooth(s, w, FALSE)[k]
SmoothEvenIsNextOdd(r, s, w, edge) == w % 2 = 0 => r = Smooth(s, w + 1, edge)
SmoothWithinHull(r, s) ==
  LET lo == CHOOSE m \in RangeOf(s) : \A y \in RangeOf(s) : Le(m, y)
      hi == CHOOSE m \in RangeOf(s) : \A y \in RangeOf(s) : Le(y, m)
  IN Len(r) = Len(s) /\ IsRatSeq(r) /\ \A k \in DOMAIN r : Le(lo, r[k]) /\ Le(r[k], hi)
SmoothInteriorIsWindowMean(r, s, w) ==        \* W * r[i] = s[i-h] + ... + s[i+h], stated without division
  LET W == OddWidth(w)
      h == W \div 2
  IN W >= 3 => \A k \in 1 .. Len(s) : IsInterior(k - 1, Len(s), h) =>
                   Mul(OfInt(W), r[k]) = Total(SubSeq(s, k - h, k + h))

(* MEDIAN: m = Median(a, even) *)
MedianTwoPhrasings(m, a, even) == m = MedianByCounting(a, even)
MedianIsAnElement(m, a, even) == (~even \/ Len(a) % 2 = 1) => m \in RangeOf(a)
MedianEvenFlagOnlyForEvenCounts(m, a, even) == Len(a) % 2 = 1 => m = Median(a, ~even)
MedianSplits(m, a) ==            \* at least half the elements on either side
  2 * CountLe(a, m) >= Len(a) /\ 2 * (Len(a) - CountLt(a, m)) >= Len(a)
(* running medians: r = RunMedian1(a, w), resp. RunMedian2(img, shape, w) *)
RunMed1TwoPhrasings(r, a, w) == r = RunMedian1With(MedianByCounting, a, w)
RunMed1EdgesUntouched(r, a, w) ==
  \A k \in 1 .. Len(a) : (k - 1 < w \div 2 \/ k - 1 > Len(a) - 1 - w \div 2) => r[k] = a[k]
RunMed1FixesMonotone(r, a) == (IsSorted(a) \/ IsConstant(a)) => r = a
RunMed1ValuesFromWindow(r, a, w) ==
  \A k \in 1 .. Len(a) : \E j \in DOMAIN a : j - k <= w \div 2 /\ k - j <= w \div 2 /\ r[k] = a[j]
RunMed2TwoPhrasings(r, img, shape, w) == r = RunMedian2With(MedianByCounting, img, shape, w)
RunMed2EdgesUntouched(r, img, shape, w) ==
  LET h == w \div 2
  IN \A k \in 1 .. Len(img) :
       LET row == (k - 1) \div shape[2]
           col == (k - 1) % shape[2]
       IN (row < h \/ col < h \/ row > shape[1] - 1 - h \/ col > shape[2] - 1 - h) => r[k] = img[k]
RunMed2FixesConstants(r, img) == IsConstant(img) => r = img
RunMed2RowIsRunMed1(r, img, shape, w) ==     \* an image whose rows are all equal: every interior row is the 1-D filter of a row
  LET nc == shape[2]
      row1 == SubSeq(img, 1, nc)
  IN (\A i \in 0 .. (shape[1] - 1) : SubSeq(img, i * nc + 1, i * nc + nc) = row1) =>
        \A i \in 0 .. (shape[1] - 1) : IsInterior(i, shape[1], w \div 2) =>
             SubSeq(r, i * nc + 1, i * nc + nc) = RunMedian1(row1, w)
Transpose(img, shape) == [k \in 1 .. Len(img) |-> img[((k - 1) % shape[1]) * shape[2] + ((k - 1) \div shape[1]) + 1]]
RunMed2Transposes(r, img, shape, w) ==       \* rows and columns are treated alike
  RunMedian2(Transpose(img, shape), <<shape[2], shape[1]>>, w) = Transpose(r, shape)

(* UNIQ: u = Uniq(x), x sorted *)
UniqTwoPhrasings(u, x) == u = UniqViaRuns(x)
UniqStrictlyIncreasing(u) == \A k \in 1 .. (Len(u) - 1) : u[k] < u[k + 1]
UniqEndsWithLast(u, x) == Len(u) >= 1 /\ u[Len(u)] = Len(x) - 1
UniqOnePerValue(u, x) ==      \* exactly one subscript per distinct value, and it is the last occurrence
  /\ Len(u) = Cardinality(RangeOf(x))
  /\ {At(x, u[k]) : k \in DOMAIN u} = RangeOf(x)
  /\ \A k \in DOMAIN u : \A j \in DOMAIN x : x[j] = At(x, u[k]) => j - 1 <= u[k]
(* through an index: u = UniqIdx(x, idx) or the alternative *)
UniqIdxOnePerValue(u, x) ==
  /\ Len(u) = Cardinality(RangeOf(x))
  /\ {At(x, u[k]) : k \in DOMAIN u} = RangeOf(x)
  /\ \A k \in DOMAIN u : u[k] \in 0 .. (Len(x) - 1)
UniqIdxIdentityIsUniq(u, x) == UniqIdx(x, [k \in 1 .. Len(x) |-> k - 1]) = u

(* REBIN: r = Rebin(v, shape, d, sample), the call being accepted *)
AllAxes(shape, d, kinds) == Len(d) = Len(shape) /\ \A a \in DOMAIN shape : AxisKind(shape[a], d[a]) \in kinds
RebinShape(r, d) == Len(r) = Prod(d)
RebinTwoPhrasings(r, v, shape, d, sample) == r = RebinDirect(v, shape, d, sample)
RebinKeepIsIdentity(r, v, shape, d) == d = shape => r = v
RebinFixesConstants(shape, d, sample, q) ==
  LET v == [k \in 1 .. Prod(shape) |-> q] IN RangeOf(Rebin(v, shape, d, sample)) = {q}
RebinSampleTakesElements(r, v, sample) == sample => RangeOf(r) \subseteq RangeOf(v)
SamplingBackIsIdentity(r, v, shape, d) ==    \* expanding (with or without SAMPLE) and sampling back returns the input
  AllAxes(shape, d, {"keep", "expand"}) => Rebin(r, d, shape, TRUE) = v
BlockMeanPreservesMean(r, v, shape, d, sample) ==
  (~sample /\ AllAxes(shape, d, {"keep", "shrink"})) =>
     Mul(Total(r), OfInt(Prod(shape))) = Mul(Total(v), OfInt(Prod(d)))
RebinAxesCommute(r, v, shape, d, sample) ==  \* doing the last axis first gives the same array
  LET n == Len(shape)
      v1 == RebinAxis(v, shape, n, d[n], sample)
  IN r = Rebin(v1, [shape EXCEPT ![n] = d[n]], d, sample)
RebinRejects(err, shape, d) ==
  err = ~(Len(d) = Len(shape) /\ \A a \in DOMAIN shape : d[a] % shape[a] = 0 \/ shape[a] % d[a] = 0)

(* LINEARITY.  SMOOTH and REBIN are linear maps with non-negative weights that sum to 1. *)
(* These laws are what lets the harness build inputs of huge dynamic range (one sample   *)
(* 2^60 times larger than the others) from two small enumerated arrays: the specified    *)
(* result of a * s + b * t is a * (result of s) + b * (result of t), exactly, so a small  *)
(* window next to a huge sample must still come out exactly (no cancellation).           *)
Lin(a, s, b, t) == [k \in 1 .. Len(s) |-> Add(Mul(a, s[k]), Mul(b, t[k]))]
AbsSeq(s) == [k \in 1 .. Len(s) |-> RAbs(s[k])]
SmoothLinear(r, s, t, a, b, w, edge) ==       \* r = Smooth(s, w, edge)
  Smooth(Lin(a, s, b, t), w, edge) = Lin(a, r, b, Smooth(t, w, edge))
SmoothReach(k, n, w, edge) ==                 \* the (1-based) samples element k depends on
  LET h == OddWidth(w) \div 2
  IN IF OddWidth(w) >= 3 /\ (IsInterior(k - 1, n, h) \/ edge)
     THEN {Clamp(j, n) + 1 : j \in (k - 1 - h) .. (k - 1 + h)} ELSE {k}
SmoothSupport(r, s, w, edge) ==               \* s >= 0: an element is 0 exactly when everything in its reach is 0
  (\A k \in DOMAIN s : Le(Zero, s[k])) =>
     \A k \in DOMAIN s : (r[k] = Zero) = (\A j \in SmoothReach(k, Len(s), w, edge) : s[j] = Zero)
RebinLinear(r, v, u, a, b, shape, d, sample) ==  \* r = Rebin(v, shape, d, sample)
  Rebin(Lin(a, v, b, u), shape, d, sample) = Lin(a, r, b, Rebin(u, shape, d, sample))
RebinWeightsArePartition(shape, d, sample) ==    \* per axis and output subscript: weights >= 0 summing to 1,
  \A a \in DOMAIN shape : \A i \in 0 .. (d[a] - 1) :   \* on distinct in-range source subscripts
     LET ws == AxisWeights(shape[a], d[a], sample, i)
     IN /\ Total([t \in 1 .. Len(ws) |-> ws[t][2]]) = One
        /\ \A t \in 1 .. Len(ws) : Lt(Zero, ws[t][2]) /\ ws[t][1] \in 0 .. (shape[a] - 1)
        /\ \A t, t2 \in 1 .. Len(ws) : t # t2 => ws[t][1] # ws[t2][1]

(* ARGUMENT FORMS.  The specification speaks about VALUES; it does not depend on how the   *)
(* caller types them.  An array of integral values may be handed over with any of these    *)
(* dtypes (as the values fit), a width or a dimension as any of these scalar forms, and the *)
(* specified outcome is the same: Expected takes neither.  (FormIndependent is therefore    *)
(* true by construction; it is stated so that the harness' rotation of forms is explicit.)  *)
ArrayDtypes == {"f8", "f4", "i8", "i4", "i2", "u2", "u1", "bool"}
ScalarForms == {"int", "np.int64", "np.int32", "np.int16", "np.uint8"}       \* integers; a 0-d array is not one
DimsForms == {"tuple of int", "tuple of np.int64", "tuple of np.int32", "tuple of np.int16", "1-d ndarray", "list"}
ExpectedFor(dt, form, fn, x, shape, w, flag, d) == Expected(fn, x, shape, w, flag, d)
FormIndependent(fn, x, shape, w, flag, d) ==
  \A dt \in ArrayDtypes : \A form \in ScalarForms \cup DimsForms :
     ExpectedFor(dt, form, fn, x, shape, w, flag, d) = Expected(fn, x, shape, w, flag, d)
(* Where the result has an integer type (smooth / rebin of integer data return the input   *)
(* type) the exact mean or interpolated value is not representable: any rounding of the   *)
(* value computed in floating point is accepted (truncating 199.99999999999997 gives 199   *)
(* where the exact value is 200), i.e. the result must be at most 1 away from the exact    *)
(* value per resampled axis (rebin rounds once per axis).  A wrap-around never is.         *)
(* Selections (medians, SAMPLE, uniq) stay exact.                                          *)
(* The ORDER in which rebin visits the axes is not observable in the exact values (law     *)
(* RebinAxesCommute); with integer intermediates it moves a value only inside this bound   *)
(* (each step is a convex combination plus one truncation), so it is not asserted.         *)
IntegerResultOK(got, exact, slack) == Le(RAbs(Sub(got, exact)), OfInt(slack))
RebinSlack(shape, d) == Max(1, Cardinality({a \in DOMAIN shape : d[a] # shape[a]}))
(* Integer grids are reached by scaling an enumerated array with a positive integer K      *)
(* (so that e.g. uint8 data use the whole range 0..250): all four value maps commute with  *)
(* that scaling.                                                                           *)
Scale(K, s) == [k \in 1 .. Len(s) |-> Mul(OfInt(K), s[k])]
SmoothScales(r, s, K, w, edge) == Smooth(Scale(K, s), w, edge) = Scale(K, r)
MedianScales(m, a, even, K) == K > 0 => Median(Scale(K, a), even) = Mul(OfInt(K), m)
RunMed1Scales(r, a, w, K) == K > 0 => RunMedian1(Scale(K, a), w) = Scale(K, r)
RunMed2Scales(r, img, shape, w, K) == K > 0 => RunMedian2(Scale(K, img), shape, w) = Scale(K, r)
RebinScales(r, v, K, shape, d, sample) == Rebin(Scale(K, v), shape, d, sample) = Scale(K, r)

(* ---- named deviation (see DESIGN.md section 6) ---- *)
(* D-C14-1: the expansion position i*d0/d is computed as i*(d0/d) in floating point; when *)
(* d/d0 has an inexact reciprocal (first: 49) the product can fall just below the integer *)
(* it should be and SAMPLE then picks the previous element.  A 1-D SAMPLE expansion is    *)
(* explained by this deviation when every element is the specified one or, at integral    *)
(* positions only, its predecessor.                                                       *)
Dev_FloorBelowExplains(got, s, d) ==
  LET d0 == Len(s)
  IN /\ d > d0 /\ d % d0 = 0 /\ Len(got) = d
     /\ got # Rebin1(s, d, TRUE)
     /\ \A j \in 1 .. d :
          LET i == j - 1
              fp == (i * d0) \div d
          IN got[j] = At(s, fp) \/ ((i * d0) % d = 0 /\ fp >= 1 /\ got[j] = At(s, fp - 1))

(* D-C14-2: smooth(edge_truncate) multiplies the edge sample by the number of missing      *)
(* samples in the sample's own integer type; for 8/16-bit data the product wraps around.   *)
(* Affected calls: integer data of a small type, edge truncation, a non-interior element.  *)
Dev_SmallIntEdgeWrap(dt, w, edge, n, k) ==
  dt \in {"u1", "u2", "i2"} /\ edge /\ OddWidth(w) >= 3 /\ ~IsInterior(k - 1, n, OddWidth(w) \div 2)
(* D-C14-3: rebin's interpolation subtracts neighbouring samples in the input's integer    *)
(* type; unsigned differences of decreasing neighbours (and 16-bit differences beyond the  *)
(* type's range) wrap around.  Affected calls: small integer data, no SAMPLE, an expanding *)
(* axis.                                                                                   *)
Dev_SmallIntDifferenceWrap(dt, shape, d, sample) ==
  dt \in {"u1", "u2", "i2"} /\ ~sample /\ \E a \in DOMAIN shape : AxisKind(shape[a], d[a]) = "expand"
=============================================================================
