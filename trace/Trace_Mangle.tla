--------------------------- MODULE Trace_Mangle ---------------------------
(* Code -> spec direction for C12: calls of the real is_in_cap / is_in_polygon /          *)
(* is_in_window / set_use_caps recorded by the harness (seeded random rational geometry,   *)
(* every storage form, Cartesian and RA/Dec input) are judged by Mangle.tla.               *)
(* One TLC state per recorded call; ok = every observed answer is one the spec admits.     *)
(* Record kinds:                                                                           *)
(*   cap      cap, pts, obs (BOOLEAN per point)                                            *)
(*   poly     poly, n, pts, obs                                                            *)
(*   window   polys, n, pts, obs (index per point), obsin (BOOLEAN per point)              *)
(*   usecaps  poly, idx, add, allowDoubles, allowNeg, err, ret (bit list), attr (bit list) *)
(*   self     rel ("centre" | "antipode"), cm, obs : the point handed to the code IS the   *)
(*            cap's own centre (or its antipode); only x.p = +-1 matters, so the verdict   *)
(*            is evaluated on a canonical unit vector.                                      *)
EXTENDS Mangle, Json, IOUtils, SequencesExt, TLC
Recs == JsonDeserialize(IOEnv.VERIF_TRACE)
VARIABLES i, ok, why

CapOf(j) == MkCap(j.x, j.cm)
PolyOf(j) == [caps |-> [k \in DOMAIN j.caps |-> CapOf(j.caps[k])], use |-> ToSet(j.use)]
PolysOf(js) == [k \in DOMAIN js |-> PolyOf(js[k])]

VecOK(v) == Len(v) = 3 /\ IsRat(v[1]) /\ IsRat(v[2]) /\ IsRat(v[3]) /\ DenOK(v) /\ IsUnit(v)
CapOK(cap) == VecOK(cap.x) /\ IsRat(cap.cm)
PolyOK(poly) == \A k \in DOMAIN poly.caps : CapOK(poly.caps[k])
InputOK(r) ==
  CASE r.kind = "cap" -> CapOK(CapOf(r.cap)) /\ (\A k \in DOMAIN r.pts : VecOK(r.pts[k])) /\ Len(r.obs) = Len(r.pts)
    [] r.kind = "poly" -> PolyOK(PolyOf(r.poly)) /\ (\A k \in DOMAIN r.pts : VecOK(r.pts[k])) /\ Len(r.obs) = Len(r.pts)
    [] r.kind = "window" -> /\ \A k \in DOMAIN r.polys : PolyOK(PolyOf(r.polys[k]))
                            /\ \A k \in DOMAIN r.pts : VecOK(r.pts[k])
                            /\ Len(r.obs) = Len(r.pts) /\ Len(r.obsin) = Len(r.pts)
    [] r.kind = "usecaps" -> PolyOK(PolyOf(r.poly))
    [] r.kind = "self" -> IsRat(r.cm) /\ r.rel \in {"centre", "antipode"}
    [] OTHER -> FALSE

Canon == << One, Zero, Zero >>
Verdict(r) ==
  CASE r.kind = "cap" -> \A k \in DOMAIN r.pts : r.obs[k] \in CapAllowed(CapOf(r.cap), r.pts[k])
    [] r.kind = "poly" -> \A k \in DOMAIN r.pts : r.obs[k] \in PolyAllowed(PolyOf(r.poly), r.pts[k], r.n)
    [] r.kind = "window" -> \A k \in DOMAIN r.pts : /\ r.obs[k] \in WindowAllowed(PolysOf(r.polys), r.pts[k], r.n)
                                                    /\ r.obsin[k] = (r.obs[k] >= 0)
    [] r.kind = "usecaps" -> /\ ~r.err
                             /\ ToSet(r.ret) = SetUseCaps(PolyOf(r.poly), r.idx, r.add, r.allowDoubles, r.allowNeg)
                             /\ ToSet(r.attr) = ToSet(r.ret)
    [] r.kind = "self" -> r.obs \in CapAllowed(MkCap(Canon, r.cm), IF r.rel = "centre" THEN Canon ELSE NegV(Canon))

(* which named deviation of Mangle.tla (if any) admits a rejected record *)
DevAdmits(r) ==
  CASE r.kind = "cap" -> IF \A k \in DOMAIN r.pts : r.obs[k] \in CapAllowedD(CapOf(r.cap), r.pts[k], TRUE)
                         THEN "D-C12-2" ELSE ""
    [] r.kind = "poly" -> IF \A k \in DOMAIN r.pts : r.obs[k] \in PolyAllowedD(PolyOf(r.poly), r.pts[k], r.n, TRUE)
                          THEN "D-C12-2" ELSE ""
    [] r.kind = "window" -> IF \A k \in DOMAIN r.pts : /\ r.obs[k] \in WindowAllowedD(PolysOf(r.polys), r.pts[k], r.n, TRUE)
                                                        /\ r.obsin[k] = (r.obs[k] >= 0)
                            THEN "D-C12-2" ELSE ""
    [] r.kind = "self" -> IF r.obs = FALSE THEN "D-C12-2" ELSE ""
    [] r.kind = "usecaps" ->
         LET o == [err |-> r.err, use |-> ToSet(r.ret)]
             D(ib, ab) == Dev_SetUseCaps(PolyOf(r.poly), r.idx, r.add, r.allowDoubles, r.allowNeg, ib, ab)
         IN IF ~r.err /\ ToSet(r.attr) # ToSet(r.ret) THEN ""
            ELSE IF o = D(FALSE, TRUE) THEN "D-C12-3"
            ELSE IF o = D(TRUE, FALSE) \/ o = D(TRUE, TRUE) THEN "D-C12-1" ELSE ""

Init == /\ i \in 1..Len(Recs)
        /\ ok = (InputOK(Recs[i]) /\ Verdict(Recs[i]))
        /\ why = IF ok THEN "" ELSE IF ~InputOK(Recs[i]) THEN "input" ELSE Recs[i].kind \o " " \o DevAdmits(Recs[i])
Next == UNCHANGED <<i, ok, why>>
=============================================================================
