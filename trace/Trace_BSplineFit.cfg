INIT RInit
NEXT RNext
CHECK_DEADLOCK FALSE
