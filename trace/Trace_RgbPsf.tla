--------------------------- MODULE Trace_RgbPsf ---------------------------
(* Code -> spec direction for X03: calls recorded from the real nw_scale_rgb, nw_cut_to_box, *)
(* nw_float_to_byte, nw_arcsinh and sdss_psf_recon (seeded random images, origins, scales,   *)
(* psField-like structures; also every nw_arcsinh call enumerated by MC_RgbPsf) are judged   *)
(* by the specification.  One TLC state per recorded call; ok = the observed outcome is the  *)
(* specified one; why names the first disagreement.                                          *)
(*                                                                                           *)
(* record:  fn, dt ("f8" / "f4"), ret = [err, exc, warn, shape, val, exact, dtype, ...]      *)
(*   rgb:   shape, img, arg (rationals [n, d]), bits; ret.val rationals (float -> nearby     *)
(*          small rational; ret.exact = the float is that rational to 1e-12 / 2e-6);         *)
(*          nw_arcsinh with nl # 0: ret.m = the measurements of RgbPsf Part 2                *)
(*   psf:   n, cd, tpl, ypos, xpos, norm, trim; ret.fx = elements as <<floor, 20 fractional  *)
(*          bits>> (RgbPsf!PsfJudge)                                                         *)
EXTENDS RgbPsf, Json, IOUtils, TLC
Recs == JsonDeserialize(IOEnv.VERIF_TRACE)
VARIABLES i, ok, why

Rats(s) == [k \in 1 .. Len(s) |-> R(s[k][1], s[k][2])]
Tup(s) == [k \in 1 .. Len(s) |-> s[k]]

RgbCall(r) == [fn |-> r.fn, shape |-> Tup(r.shape), img |-> Rats(r.img), arg |-> Rats(r.arg), bits |-> r.bits]
PsfCall(r) == [fn |-> "psf", n |-> r.n, cd |-> r.cd,
               tpl |-> [k \in 1 .. Len(r.tpl) |-> [nr |-> r.tpl[k].nr, nc |-> r.tpl[k].nc,
                                                   c |-> [a \in 1 .. Len(r.tpl[k].c) |-> Tup(r.tpl[k].c[a])],
                                                   rr |-> Tup(r.tpl[k].rr)]],
               ypos |-> r.ypos, xpos |-> r.xpos, norm |-> Tup(r.norm), trim |-> Tup(r.trim)]

ErrVerdict(e, r) == IF e.err # r.ret.err THEN (IF e.err THEN "accepted a call that must raise ValueError"
                                               ELSE "raised " \o r.ret.exc)
                    ELSE IF e.err /\ r.ret.exc # "ValueError" THEN "wrong exception " \o r.ret.exc
                    ELSE ""

RgbVerdict(r) ==
  LET c == RgbCall(r)
  IN IF ~RgbDefined(c) THEN "undefined"
     ELSE LET e == RgbExpected(c)
              ev == ErrVerdict(e, r)
          IN IF ev # "" THEN ev
             ELSE IF e.err THEN ""
             ELSE IF Tup(r.ret.shape) # e.shape THEN "shape"
             ELSE IF r.ret.warn # e.warn THEN "warning"
             ELSE IF r.fn = "byte" /\ r.ret.dtype # "u1" THEN "dtype"
             ELSE IF r.fn = "arcsinh" /\ c.arg[1] # Zero
                  THEN AFirstBroken([img |-> c.img, dt |-> r.dt], r.ret.m)
             ELSE IF ~r.ret.exact THEN "inexact"
             ELSE IF Rats(r.ret.val) = e.val THEN ""
             ELSE LET got == Rats(r.ret.val)
                      k == CHOOSE j \in 1 .. Len(got) : got[j] # e.val[j] /\ \A m \in 1 .. (j - 1) : got[m] = e.val[m]
                  IN "value: element " \o ToString(k - 1) \o " is " \o ToString(got[k][1]) \o "/" \o ToString(got[k][2])
                     \o ", specified " \o ToString(e.val[k][1]) \o "/" \o ToString(e.val[k][2])

PsfVerdict(r) ==
  LET c == PsfCall(r)
      got == [e \in 1 .. Len(r.ret.fx) |-> Tup(r.ret.fx[e])]
  IN IF ~PsfDefined(c) THEN "undefined"
     ELSE IF r.ret.err THEN (IF Dev_ExplainsError(c, r.ret.exc) # "" THEN Dev_ExplainsError(c, r.ret.exc) \o ": " ELSE "")
                            \o "raised " \o r.ret.exc
     ELSE IF Tup(r.ret.shape) # OutShape(c) THEN "shape"
     ELSE LET v == PsfJudge(c, got)
          IN IF v = "" THEN ""
             ELSE IF Dev_ExplainsValue(c, got) # "" THEN Dev_ExplainsValue(c, got) \o ": " \o v
             ELSE v

Verdict(r) == IF r.fn = "psf" THEN PsfVerdict(r) ELSE RgbVerdict(r)

Init == /\ i \in 1 .. Len(Recs)
        /\ why = Verdict(Recs[i])
        /\ ok = (why = "")
Next == UNCHANGED <<i, ok, why>>
=============================================================================
