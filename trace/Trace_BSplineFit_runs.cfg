INIT TInit
NEXT TNext
INVARIANT T_EndKnotsKept
INVARIANT T_FitsBounded
PROPERTY T_MaskNeverGrows
CHECK_DEADLOCK FALSE
