-------------------------- MODULE Trace_IdLayout --------------------------
(* Code -> spec direction for C06: calls recorded from the real functions (random and   *)
(* adversarial field tuples, all calling conventions) are judged by the specification.  *)
(* One TLC state per recorded call; ok = the observed outcome is the specified one.     *)
EXTENDS IdLayout, Json, IOUtils, SequencesExt, TLC
Recs == JsonDeserialize(IOEnv.VERIF_TRACE)
VARIABLES i, ok, why

CallOf(r) == [kind |-> r.kind, f |-> r.f, conv |-> r.conv, which |-> "", str |-> <<>>]
Observed(r) == [err |-> r.ret.err, id |-> ToSet(r.ret.id)]

(* the identifier returned is the specified one, and what the code unpacked from it is   *)
(* what the specification unpacks                                                         *)
(* the array arguments were supplied in the integer types r.types (one per argument; ignored   *)
(* for the scalar convention, which passes Python integers): each must be a type of the        *)
(* specification that represents the supplied value, and the verdict does not depend on it      *)
TypesOK(r) == r.conv = "scalar" \/ TypesAdmissible(r.kind, r.f, r.types)
PackOK(r) == Observed(r) = ExpectedAs(CallOf(r), r.types)
UnpackOK(r) == r.ret.err \/ r.unwrapped = ExpectedUnpackAs(r.kind, ToSet(r.ret.id), r.form)
(* the recorded element sat at position pos of array arguments of length len (1 for the scalar   *)
(* convention) and the identifier was handed to the unpacking function in the form r.form; the   *)
(* specification declares all three irrelevant (PositionIndependent, IdFormIndependent), so the  *)
(* verdict is the one for the element alone                                                      *)
ShapeOK(r) == r.form \in IdForms /\ r.len >= 1 /\ r.pos \in 0 .. (r.len - 1) /\ TypesOK(r)

Init == /\ i \in 1..Len(Recs)
        /\ ok = (ShapeOK(Recs[i]) /\ PackOK(Recs[i]) /\ UnpackOK(Recs[i]))
        /\ why = IF ~ShapeOK(Recs[i]) THEN "shape" ELSE IF ~PackOK(Recs[i]) THEN "pack"
                 ELSE IF ~UnpackOK(Recs[i]) THEN "unpack" ELSE ""
Next == UNCHANGED <<i, ok, why>>
=============================================================================
