-------------------------- MODULE Trace_IdLayout --------------------------
(* Code -> spec direction for C06: calls recorded from the real functions (random and   *)
(* adversarial field tuples, all calling conventions) are judged by the specification.  *)
(* One TLC state per recorded call; ok = the observed outcome is the specified one.     *)
EXTENDS IdLayout, Json, IOUtils, SequencesExt, TLC
Recs == JsonDeserialize(IOEnv.VERIF_TRACE)
VARIABLES i, ok, why

CallOf(r) == [kind |-> r.kind, f |-> r.f, conv |-> r.conv, which |-> "", str |-> <<>>]
Observed(r) == [err |-> r.ret.err, id |-> ToSet(r.ret.id)]

(* the identifier returned is the specified one, and what the code unpacked from it is   *)
(* what the specification unpacks                                                         *)
PackOK(r) == Observed(r) = Expected(CallOf(r))
UnpackOK(r) == r.ret.err \/ r.unwrapped = ExpectedUnpack(r.kind, ToSet(r.ret.id))

Init == /\ i \in 1..Len(Recs)
        /\ ok = (PackOK(Recs[i]) /\ UnpackOK(Recs[i]))
        /\ why = IF ~PackOK(Recs[i]) THEN "pack" ELSE IF ~UnpackOK(Recs[i]) THEN "unpack" ELSE ""
Next == UNCHANGED <<i, ok, why>>
=============================================================================
