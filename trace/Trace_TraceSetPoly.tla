------------------------ MODULE Trace_TraceSetPoly ------------------------
(* Code -> spec direction for C13.  One TLC state per recorded real call (or law instance); *)
(* ok = the specification accepts what the code did.                                        *)
(*                                                                                          *)
(* Exact records (arguments are small rationals [num, den]; every observed float v is       *)
(* abstracted by the harness to <<floor(v), trunc((v - floor(v)) * 2^30)>> and compared     *)
(* with the specification's exact rational, tolerance r.tol units of 2^-30):                *)
(*   "basis"  one call of flegendre / fchebyshev / fpoly / fchebyshev_split                 *)
(*   "fit"    one call of func_fit on a small rational problem -> Solve (normal equations)  *)
(*   "tseval" a trace set with rational coefficients / limits / jump evaluated by xy() /    *)
(*            traceset2xy() at given positions and on its default grid                      *)
(*            (total: a default grid of ANY shape gets a verdict - "nx", "gridlast", ... -   *)
(*            before a value on it is looked up)                                            *)
(*   "grid"   the default grid of any trace set (FITS fixtures included)                    *)
(*   "limits" xmin / xmax / default grid of a trace set fitted to positions, with the xmin /  *)
(*            xmax keywords absent, zero (0, 0.0, -0.0), negative or positive                 *)
(* (a record whose exact answer does not fit TLC's integers is answered "toobig" and the    *)
(* harness sets it aside)                                                                   *)
(* Law instances on real-valued data (M3): the harness measures the discrepancy between two *)
(* real computations named by the law, in units of 10^-12 of the data scale, and the        *)
(* specification judges it:                                                                 *)
(*   "law"    wls, fixed, zerow, exact, fitxy, tscoeff, jumpbelow, jumpabove, roundtrip,    *)
(*            unchanged (CallerArraysUnchanged)                                             *)
(* Call histories: consecutive "fit" records with the same hist number are func_fit calls   *)
(* that reused the same array objects; each is judged on the arguments the caller supplied. *)
EXTENDS TraceSetPoly, Json, IOUtils, SequencesExt
Recs == JsonDeserialize(IOEnv.VERIF_TRACE)
VARIABLES i, ok, why

(* ---- observed float <<ip, fr>> against an exact rational ---- *)
CloseF(obs, q, tol) ==
  LET ie == Floor(q)
      fe == BinDigits(q[1] % q[2], q[2], 30)
      d == obs[1] - ie
  IN Abs(d) <= 1 /\ Abs((d * (2 ^ 30) + obs[2]) - fe) <= tol
AllClose(obsSeq, qSeq, tol) == Len(obsSeq) = Len(qSeq) /\ \A k \in 1..Len(qSeq) : CloseF(obsSeq[k], qSeq[k], tol)

(* ---- basis ---- *)
BasisWhy(r) ==
  LET e == TLCEval([a \in 1..Len(r.xs) |-> Basis(r.basis, r.m, r.xs[a])]) IN
  IF \E a \in 1..Len(r.xs) : ~AllProper(e[a]) THEN "toobig"
  ELSE IF r.rows # r.m \/ r.cols # Len(r.xs) \/ Len(r.vals) # Len(r.xs) THEN "shape"
  ELSE IF \E a \in 1..Len(r.xs) : ~AllClose(r.vals[a], e[a], r.tol) THEN "value"
  ELSE ""

(* ---- fit ---- *)
Problem(r) == [basis |-> r.basis, nc |-> r.nc, xs |-> r.xs, y |-> r.y, w |-> r.w, ia |-> r.ia, ians |-> r.ians]
FitWhy(r) ==
  LET p == Problem(r) IN
  IF ~WellPosed(p) THEN "notwellposed"
  ELSE LET e == FitOutcome(p, Solve(p)) IN
       IF ~(AllProper(e.res) /\ AllProper(e.yfit)) THEN "toobig"       \* the exact answer does not fit 32 bits
       ELSE IF ~AllClose(r.res, e.res, r.tol) THEN "coefficients"
       ELSE IF ~AllClose(r.yfit, e.yfit, r.tol) THEN "yfit"
       ELSE ""

(* ---- trace-set evaluation ---- *)
TsOf(r) == [basis |-> r.basis, nc |-> r.nc, gmin |-> TRUE, gmax |-> TRUE, xmin |-> r.xmin, xmax |-> r.xmax, xpos |-> r.xp]
JumpOf(r) == IF r.jump.on /\ ~r.ign THEN r.jump ELSE NoJump
GridWhy(g, xmin, xmax, nTrace) ==
  IF g.rows # nTrace THEN "gridrows"
  ELSE IF g.nx # GridLen(xmin, xmax) THEN "nx"
  ELSE IF ~g.exact THEN "gridvalues"
  ELSE IF g.first # DefaultGrid(xmin, xmax)[1] THEN "gridfirst"
  ELSE IF g.last # DefaultGrid(xmin, xmax)[GridLen(xmin, xmax)] THEN "gridlast"
  ELSE IF ~g.unit THEN "gridstep"
  ELSE ""
(* The verdict is TOTAL: whatever shape the code's default grid has, the record gets a verdict.  The grid's shape *)
(* (rows, nx, first, last, unit steps) is judged BEFORE any value on it is looked up, and the observed grid      *)
(* indices r.gi are only used as indices into the specification's grid when they lie inside it ("gridindex").    *)
TsEvalWhy(r) ==
  LET t == TsOf(r)
      e == TsEval(t, r.coeff, r.xp, JumpOf(r))
      gw == GridWhy(r.grid, r.xmin, r.xmax, Len(r.coeff))
      g == DefaultGrid(r.xmin, r.xmax)
      eg == TsEval(t, r.coeff, [k \in 1..Len(r.coeff) |-> [a \in 1..Len(r.gi) |-> g[r.gi[a]]]], JumpOf(r))
  IN IF \E k \in 1..Len(r.coeff) : ~AllProper(e[k]) THEN "toobig"
     ELSE IF Len(r.vals) # Len(r.coeff) THEN "rows"
     ELSE IF \E k \in 1..Len(r.coeff) : ~AllClose(r.vals[k], e[k], r.tol) THEN "value"
     ELSE IF gw # "" THEN gw
     ELSE IF \E a \in 1..Len(r.gi) : r.gi[a] \notin 1..Len(g) THEN "gridindex"
     ELSE IF Len(r.gvals) # Len(r.coeff) THEN "gridrows"
     ELSE IF \E k \in 1..Len(r.coeff) : ~AllProper(eg[k]) THEN "toobig"
     ELSE IF \E k \in 1..Len(r.coeff) : ~AllClose(r.gvals[k], eg[k], r.tol) THEN "gridvalue"
     ELSE ""

(* ---- limits: a trace set built from positions with / without xmin, xmax keywords ---- *)
(* r.xpos: the positions (their extremes suffice), r.gmin/gmax/xmin/xmax: what the caller supplied,           *)
(* r.omin/omax: the limits the trace set reports (exact rationals, r.oexact = they are), r.grid its default grid *)
LimitsWhy(r) ==
  LET t == [gmin |-> r.gmin, gmax |-> r.gmax, xmin |-> r.xmin, xmax |-> r.xmax, xpos |-> r.xpos] IN
  IF ~r.oexact THEN "limits"
  ELSE IF r.omin # TsXmin(t) THEN "xmin"
  ELSE IF r.omax # TsXmax(t) THEN "xmax"
  ELSE GridWhy(r.grid, TsXmin(t), TsXmax(t), r.nTrace)

(* ---- law instances ---- *)
(* tolerances in units of 10^-12 (relative to the data scale), by law and float width *)
LawTol(law, width) ==
  LET base == CASE law = "wls" -> 100000          \* 1e-7: normal equations against an orthogonal solver
                [] law = "fixed" -> 0             \* prescribed values are kept exactly
                [] law = "zerow" -> 0             \* zero-weight data do not enter at all
                [] law = "exact" -> 100000
                [] law = "fitxy" -> 1000          \* 1e-9
                [] law = "tscoeff" -> 1000
                [] law = "jumpbelow" -> 0
                [] law = "jumpabove" -> 1000
                [] law = "roundtrip" -> 100000
                [] law = "rowalone" -> 1000        \* traces evaluated together = each trace evaluated alone (row independence)
                [] law = "unchanged" -> 0         \* disc = number of caller-owned arrays that differ after the call
  IN IF width = 32 /\ base > 0 THEN 100000000 ELSE base                     \* float32: 1e-4
LawNames == {"wls", "fixed", "zerow", "exact", "fitxy", "tscoeff", "jumpbelow", "jumpabove", "roundtrip", "unchanged", "rowalone"}
(* CallerArraysUnchanged ("unchanged"): every array the caller handed to func_fit (x, y, invvar, ia, inputans),  *)
(* to TraceSet / xy2traceset (xpos, ypos, invvar, inmask), to traceset2xy (xpos, the coefficients) or to a basis  *)
(* function (x) is bit-identical after the call.                                                                 *)
(* r.crash: the real code raised while the instance was being measured - never acceptable.                       *)
LawWhy(r) == IF r.law \notin LawNames THEN "unknownlaw"
             ELSE IF r.crash THEN "crash"
             ELSE IF ~r.pre THEN "precondition"
             ELSE IF r.disc > LawTol(r.law, r.width) THEN r.law
             ELSE ""

Why(r) == CASE r.kind = "basis" -> BasisWhy(r)
            [] r.kind = "fit" -> FitWhy(r)
            [] r.kind = "tseval" -> TsEvalWhy(r)
            [] r.kind = "grid" -> GridWhy(r.grid, r.xmin, r.xmax, r.nTrace)
            [] r.kind = "limits" -> LimitsWhy(r)
            [] r.kind = "law" -> LawWhy(r)
            [] OTHER -> "unknownkind"

(* LayoutIrrelevant: a record may say in which memory layout the harness handed the arrays over (r.layout:        *)
(* read-only, non-contiguous view, Fortran order, byte-swapped, zero-dimensional).  The verdict is a function of  *)
(* the VALUES only: rewriting the layout field never changes it.                                                  *)
HasLayout(r) == "layout" \in DOMAIN r
LayoutIrrelevant == \A k \in 1..Len(Recs) :
   (HasLayout(Recs[k]) /\ k % 25 = 0) => Why([Recs[k] EXCEPT !.layout = "plain"]) = Why(Recs[k])
ASSUME LayoutIrrelevant

(* non-vacuity: every law that the history triggers at all is triggered often enough, and   *)
(* the harness says which laws this history was meant to trigger                            *)
MinInstances == 5
Count(law) == Cardinality({k \in 1..Len(Recs) : Recs[k].kind = "law" /\ Recs[k].law = law /\ Recs[k].pre})
Triggered == {Recs[k].law : k \in {n \in 1..Len(Recs) : Recs[n].kind = "law"}}
Crashed == \E k \in 1..Len(Recs) : Recs[k].kind = "law" /\ Recs[k].crash
(* (the binding self-test hands over a small sample of deliberately falsified records: no instance counts there) *)
SelfTest == "VERIF_SELFTEST" \in DOMAIN IOEnv
ASSUME Crashed \/ SelfTest \/ \A law \in Triggered : Count(law) >= MinInstances

Init == /\ i \in 1..Len(Recs)
        /\ why = Why(Recs[i])
        /\ ok = (why = "")
Next == UNCHANGED <<i, ok, why>>
=============================================================================
