---------------------------- MODULE Trace_FoF ----------------------------
(* Code -> spec direction for C05.  Each record is one observed call of the real code:    *)
(*   kind "sg":     spheregroup(ra, dec, linklength, chunksize) on a point set; the record  *)
(*                  carries n, the link relation found by the independent separation       *)
(*                  oracle (adj: pairs certainly within the linking length; border: pairs   *)
(*                  inside the guard band, which may count as linked or not) and the four   *)
(*                  returned arrays (ig, mult, first, next), or err = TRUE if it raised.    *)
(*   kind "groups": the class groups alone on a local graph: accepted iff its labels       *)
(*                  induce the components and its lists enumerate them (numbering open).    *)
(* The verdict is the specification's: the arrays must be Expected(n, adj \cup B).ingroup  *)
(* and WellFormed for some resolution B of the borderline pairs.                           *)
EXTENDS FoF, Json, IOUtils, SequencesExt, TLC
Recs == JsonDeserialize(IOEnv.VERIF_TRACE)
VARIABLES i, ok, why

Arr(s) == [k \in Pts(Len(s)) |-> s[k + 1]]
PairSet(ps) == {<<p[1], p[2]>> : p \in ToSet(ps)}

SgOK(r, adj) == Accepts(r.n, adj, Arr(r.ig), Arr(r.mult), Arr(r.first), Arr(r.next))
SgVerdict(r) ==
  IF r.err THEN "raised"
  ELSE LET adj == PairSet(r.adj)
           border == PairSet(r.border)
       IN IF \E B \in SUBSET border : SgOK(r, adj \cup B) THEN ""
          ELSE Why(r.n, adj, Arr(r.ig), Arr(r.mult), Arr(r.first), Arr(r.next))

GroupsVerdict(r) ==
  IF r.err THEN "raised"
  ELSE LET adj == PairSet(r.adj)
           ig == Arr(r.ig)
       IN IF ~IsArray(r.n, ig) THEN "shape"
          ELSE IF ~SamePartition(r.n, adj, ig) THEN "partition"
          ELSE IF ~({ig[k] : k \in Pts(r.n)} = 0 .. (r.ng - 1)
                    /\ ListsDescribe(r.n, ig, Arr(r.mult), Arr(r.first), Arr(r.next), r.ng)) THEN "lists"
          ELSE ""

Verdict(r) == IF r.kind = "sg" THEN SgVerdict(r) ELSE GroupsVerdict(r)

Init == /\ i \in 1 .. Len(Recs)
        /\ why = Verdict(Recs[i])
        /\ ok = (why = "")
Next == UNCHANGED <<i, ok, why>>
=============================================================================
