INIT Init
NEXT Next
INVARIANT T_SortIsArgsort
INVARIANT T_ZeroWeightNeverUsed
INVARIANT T_MaskInCallerOrder
INVARIANT T_ReturnedCurveIsLastFit
INVARIANT T_WithinBudget
INVARIANT T_RejectedStayOut
INVARIANT T_BreakpointsOnlyShrink
INVARIANT T_ResidualsOnBreakpointsInEffect
INVARIANT T_ReturnedCurveOnReturnedBreakpoints
CHECK_DEADLOCK FALSE
