INIT Init
NEXT Next
INVARIANT T_SortIsArgsort
INVARIANT T_ZeroWeightNeverUsed
INVARIANT T_MaskInCallerOrder
INVARIANT T_ReturnedCurveIsLastFit
INVARIANT T_WithinBudget
INVARIANT T_RejectedStayOut
CHECK_DEADLOCK FALSE
