-------------------------- MODULE Trace_FluxConv --------------------------
(* Code -> spec direction for C19: call histories recorded from the real airtovac /       *)
(* vactoair / sdssflux2ab / filter_thru are judged by the laws of FluxConv.  The behaviour *)
(* walks through the recorded histories; state i carries the verdict on history i:         *)
(*   ok  = every instance of every law the history triggers is satisfied,                  *)
(*   cnt = number of triggered instances per law, why = one failing instance per violated  *)
(*   law, tot = instances triggered so far.                                                *)
(* C19_MinInstances demands that, at the end, every law was triggered at least             *)
(* Doc.min[law] times, so that no law is satisfied vacuously.                              *)
EXTENDS FluxConv, Json, IOUtils, SequencesExt, TLC
Doc == JsonDeserialize(IOEnv.VERIF_TRACE)
Recs == Doc.hist
VARIABLES i, ok, why, cnt, tot

LawSet(H) == {LawsOf(H)[j] : j \in DOMAIN LawsOf(H)}
Failing(H) == {law \in LawSet(H) : ~Holds(H, law)}
Witness(H, law) == CHOOSE x \in Inst(H, law) : ~Sat(H, law, x)
Counts(H) == [law \in LawSet(H) |-> Cardinality(Inst(H, law))]

Init == /\ i = 0 /\ ok = TRUE /\ why = {} /\ cnt = <<>>
        /\ tot = [law \in DOMAIN Doc.min |-> 0]
Next == /\ i < Len(Recs)
        /\ i' = i + 1
        /\ ok' = (Failing(Recs[i']) = {})
        /\ why' = {<<law, Witness(Recs[i'], law)>> : law \in Failing(Recs[i'])}
        /\ cnt' = Counts(Recs[i'])
        /\ tot' = [law \in DOMAIN tot |-> tot[law] + (IF law \in DOMAIN cnt' THEN cnt'[law] ELSE 0)]

C19_MinInstances == (i = Len(Recs)) => \A law \in DOMAIN Doc.min : tot[law] >= Doc.min[law]
=============================================================================
