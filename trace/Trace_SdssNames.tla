-------------------------- MODULE Trace_SdssNames --------------------------
(* Code -> spec direction for X01: calls recorded from the real pydl functions (seeded      *)
(* random and adversarial arguments, all calling conventions) are judged by the            *)
(* specification.  A record is [fn, a, ret]: a has exactly the shape of the call model of   *)
(* spec/SdssNames.tla, ret = [err, val] is the abstracted observation (err = "" normal      *)
(* return, otherwise the exception's type name; val = "" when the call raised).             *)
(* One TLC state per record; why = "" iff the observation is the specified outcome,         *)
(* otherwise it says what is wrong, prefixed by the id of the named deviation that          *)
(* explains the observation exactly, if one does.                                           *)
EXTENDS SdssNames, Json, IOUtils, TLC
Recs == JsonDeserialize(IOEnv.VERIF_TRACE)
VARIABLES i, ok, why

Verdict(r) ==
  LET e == Expected(r.fn, r.a)
      d == Deviation(r.fn, r.a)
      bad == IF e.err = "open" THEN ""
             ELSE IF e.err # "" THEN (IF r.ret.err = e.err THEN ""
                                      ELSE IF r.ret.err = "" THEN "returned normally, specified " \o e.err
                                      ELSE "raised " \o r.ret.err \o ", specified " \o e.err)
             ELSE IF r.ret.err # "" THEN "raised " \o r.ret.err \o ", specified a normal return"
             ELSE IF Accepts(r.fn, e.val, r.ret.val) THEN "" ELSE "value differs from the specified one"
  IN IF bad = "" THEN ""
     ELSE IF d.id # "" /\ SameOutcome(d.out, r.ret) THEN d.id \o ": " \o bad
     ELSE bad

Init == /\ i \in 1 .. Len(Recs)
        /\ why = Verdict(Recs[i])
        /\ ok = (why = "")
Next == UNCHANGED <<i, ok, why>>
=============================================================================
