-------------------------- MODULE Trace_Templates --------------------------
(* The judge of X09, for both directions: every record is one real call - a case c in the shape of               *)
(* MC_Templates' cases (enumerated by TLC and replayed, or drawn at random by the harness) - together with the    *)
(* abstracted observation obs.  One TLC state per record: ok = the observation is a specified one, why = the      *)
(* first disagreement, aux = the exact numbers (rationals, decimals m * 10^e) the harness compares the observed   *)
(* floats with (TLC never sees a float).  Records are reached from a root state so that all workers share them.   *)
EXTENDS Templates, Json, IOUtils, TLC
Recs == JsonDeserialize(IOEnv.VERIF_TRACE)
VARIABLES i, ok, why, aux

ToSet(s) == {s[k] : k \in DOMAIN s}
NoAux == [none |-> TRUE]

(* ---------------- template_metadata ---------------- *)
ValOK(e, o) == e.t = "open" \/ (e.t = o.t /\ (CASE e.t = "s" -> e.s = o.s [] e.t = "i" -> e.m = o.m [] e.t = "b" -> e.b = o.b
                                               [] OTHER -> TRUE))        \* "f": the value is compared by the harness (aux)
RefusalOK(x, o) == \E r \in x.refusals : r.exc = "any" \/ (r.exc = o.exc /\ o.named = <<r.key>>)
RowOK(tbl, e, o) == /\ e.plate = o.plate /\ e.mjd = o.mjd /\ e.fiberid = o.fiberid
                    /\ (tbl.cls => e.cls = o.cls /\ e.sub = o.sub)
TableOK(tbl, o) == /\ o.cols = ColsOf(tbl) /\ Len(o.rows) = Len(tbl.rows)
                   /\ \A k \in DOMAIN tbl.rows : RowOK(tbl, tbl.rows[k], o.rows[k])
EnvWhy(x, o) == IF o.strays # <<>> THEN "a variable other than RUN2D / RUN1D was changed"
                ELSE IF \E v \in EnvVars : o.env[v] \notin x.envs[v] THEN "RUN2D / RUN1D afterwards"
                ELSE ""
MetaWhy(c, o, x) ==
  LET badKeys == {k \in DOMAIN x.meta : ~ValOK(x.meta[k], o.meta[k])}
  IN IF EnvWhy(x, o) # "" THEN EnvWhy(x, o)
     ELSE IF x.out = "notfound"
     THEN (IF o.how = "raise" /\ o.exc = "Pydlspec2dException" THEN "" ELSE "M1: a missing file must raise Pydlspec2dException")
     ELSE IF o.how = "raise"
     THEN (IF x.out = "accepted" THEN "an acceptable file was refused with " \o o.exc
           ELSE IF RefusalOK(x, o) THEN "" ELSE "M2: the refusal does not name a wrong keyword with its kind of exception: " \o o.exc)
     ELSE IF x.out = "refused" THEN "M2: a file that must be refused was accepted"
     ELSE IF badKeys # {} THEN "M4: metadata value of " \o (CHOOSE k \in badKeys : TRUE)
     ELSE IF ~TableOK(c.file.tbl, o) THEN "M6: slist is not the EIGENOBJ table"
     ELSE ""
MetaAux(x) == [meta |-> x.meta, first |-> x.first, open |-> x.out = "open"]

(* ---------------- template_input ---------------- *)
Strip(cl) == IF cl.name = "preprocess_spectra" THEN [cl EXCEPT !.a.ivar = "num", !.a.zfit = "num"]
             ELSE IF cl.name = "wavevector" THEN [cl EXCEPT !.a = [lo |-> "num", hi |-> "num", binsz |-> "num"]]
             ELSE IF cl.name = "HMF" THEN [cl EXCEPT !.a.epsilon = "num"]
             ELSE cl
StripFlow(fl) == Tup([k \in DOMAIN fl |-> Strip(fl[k])])
StripFits(ft) == [ft EXCEPT !.EPSILON = "num", !.zvals = "num"]
CallEq(a, b) == a.name = b.name /\ a.a = b.a
FlowEq(a, b) == Len(a) = Len(b) /\ \A k \in DOMAIN a : CallEq(a[k], b[k])
NothingWritten(o) == o.fits.name = "" /\ o.plotEig = <<>> /\ o.nfigs = 0
DateOK(o) == o.date.count >= 1 /\ o.date.before
RunWhy(c, o, x) ==
  LET want == StripFlow(x.flow)
  IN IF o.strays # <<>> THEN "a variable other than RUN2D / RUN1D was changed"
     ELSE IF x.tail = "any" THEN ""
     ELSE IF Len(o.flow) = 0 \/ ~CallEq(o.flow[1], CMeta) THEN "T1: template_metadata(inputfile) is not the first call"
     ELSE IF x.tail = "meta"
     THEN (IF o.how # "raise" \/ ~RefusalOK(x, o) THEN "T1: a refused file must end the call with that refusal"
           ELSE IF ~FlowEq(o.flow, want) \/ ~NothingWritten(o) THEN "T1: something was called or written after the refusal"
           ELSE IF o.dumpAfter # (IF c.dump THEN "kept" ELSE "absent") THEN "T1: dump file " \o o.dumpAfter ELSE "")
     ELSE IF x.tail = "missing"
     THEN (IF o.how # "raise" \/ o.exc # "ValueError" THEN "T3: missing spectra must raise ValueError"
           ELSE IF o.n # x.out.n THEN "T3: the count of missing objects"
           ELSE IF ~FlowEq(o.flow, want) THEN "T3: calls up to readspec / something called afterwards"
           ELSE IF ~NothingWritten(o) \/ o.dumpAfter # "absent" THEN "T3: something was written" ELSE "")
     ELSE IF x.tail = "method"
     THEN (IF o.how # "raise" \/ o.exc # "ValueError" THEN "T5: an unknown method must raise ValueError"
           ELSE IF \E k \in DOMAIN o.flow : o.flow[k].name \in Solvers THEN "T5: a solver ran"
           ELSE IF ~NothingWritten(o) THEN "T5: output was written"
           ELSE IF c.dump /\ o.dumpAfter # "kept" THEN "T2: dump file " \o o.dumpAfter ELSE "")
     ELSE IF Len(o.flow) < Len(want) \/ ~FlowEq(SubSeq(o.flow, 1, Len(want)), want)
     THEN (LET bad == {k \in DOMAIN want : k > Len(o.flow) \/ ~CallEq(o.flow[k], want[k])}
               k == CHOOSE k \in bad : \A kk \in bad : k <= kk
           IN "T2-T5: call #" \o ToString(k) \o " should be " \o want[k].name
              \o (IF k <= Len(o.flow) THEN (IF o.flow[k].name = want[k].name THEN " with other arguments" ELSE ", is " \o o.flow[k].name)
                  ELSE ", is missing"))
     ELSE IF o.dumpAfter # x.dumpAfter THEN "T2/T4: dump file " \o o.dumpAfter \o ", specified " \o x.dumpAfter
     ELSE IF x.needDate /\ ~DateOK(o) THEN "T6: get_juldate() not called before the output name is used"
     ELSE IF x.tail = "open" THEN ""
     ELSE IF Len(o.flow) # Len(want) THEN "T5: calls after the solver: " \o o.flow[Len(want) + 1].name
     ELSE IF o.how # "return" THEN "T6: the call must return, raised " \o o.exc
     ELSE IF o.fits.name # x.fits.name THEN "T6: output file " \o o.fits.name \o ", specified " \o x.fits.name
     ELSE IF o.fits # StripFits(x.fits)
     THEN "T6: contents of the FITS file: " \o (LET D == {k \in DOMAIN o.fits : o.fits[k] # StripFits(x.fits)[k]} IN CHOOSE k \in D : TRUE)
     ELSE IF o.plotEig # (IF x.plotEig THEN <<x.fits.name>> ELSE <<>>) THEN "T6: plot_eig"
     ELSE IF ~o.figsOK THEN "T6: a file written is not named outfile.<something>, or two are alike"
     ELSE IF ToSet(o.rows) # x.rows THEN "T6: flux plots of the individual spectra"
     ELSE ""
RunAux(x) ==
  LET calls(name) == {k \in DOMAIN x.flow : x.flow[k].name = name}
      arg(name) == x.flow[CHOOSE k \in calls(name) : TRUE].a
  IN [ ivar |-> IF calls("preprocess_spectra") # {} THEN arg("preprocess_spectra").ivar ELSE <<>>,
       zfit |-> IF calls("preprocess_spectra") # {} THEN arg("preprocess_spectra").zfit ELSE <<>>,
       wv |-> IF calls("wavevector") # {} THEN <<arg("wavevector")>> ELSE <<>>,
       eps |-> IF calls("HMF") # {} THEN <<arg("HMF").epsilon>> ELSE <<>>,
       fits |-> IF x.tail = "full" THEN << [EPSILON |-> x.fits.EPSILON, zvals |-> x.fits.zvals] >> ELSE <<>>,
       tail |-> x.tail ]

(* ---------------- template_input_main ---------------- *)
MainWhy(c, o, x) ==
     IF x.st = "open" THEN ""
     ELSE IF x.st = "ok"
     THEN (IF o.status # "return" \/ o.code # 0 THEN "T7: must call template_input and return 0"
           ELSE IF o.ncalls # 1 THEN "T7: template_input must be called exactly once"
           ELSE IF o.in # x.in THEN "T7: inputfile" ELSE IF o.dump # x.dump THEN "T7: dump file"
           ELSE IF o.flux # x.flux THEN "T7: flux" ELSE IF o.verbose # x.verbose THEN "T7: verbose" ELSE "")
     ELSE IF o.ncalls # 0 THEN "T7: template_input was called"
     ELSE IF x.st = "reject" THEN (IF o.status = "exit" /\ o.code # 0 THEN "" ELSE "T7: a wrong command line must end with a non-zero status")
     ELSE IF o.status = "exit" /\ o.code = 0 /\ o.usage THEN "" ELSE "T7: -h prints the usage and ends with status 0"

ExpectOf(c) == CASE c.fam = "meta" -> MetaExpect(c.file, c.exists, c.env0) [] c.fam = "run" -> RunExpect(c) [] OTHER -> MainExpect(c.args)
Why(r, x) == CASE r.c.fam = "meta" -> MetaWhy(r.c, r.obs, x) [] r.c.fam = "run" -> RunWhy(r.c, r.obs, x) [] OTHER -> MainWhy(r.c, r.obs, x)
Aux(r, x) == CASE r.c.fam = "meta" -> MetaAux(x) [] r.c.fam = "run" -> RunAux(x) [] OTHER -> [st |-> x.st]

(* root (i = 0) -> blocks (i = -b) -> the records of block b: all workers share the records *)
Block == 40
NBlocks == (Len(Recs) + Block - 1) \div Block
Init == i = 0 /\ ok = TRUE /\ why = "" /\ aux = NoAux
Next == \/ /\ i = 0
           /\ i' \in {-b : b \in 1 .. NBlocks}
           /\ UNCHANGED <<ok, why, aux>>
        \/ /\ i < 0
           /\ i' \in {k \in 1 .. Len(Recs) : (k - 1) \div Block = (-i) - 1}
           /\ LET r == Recs[i']
                  x == ExpectOf(r.c)
              IN why' = Why(r, x) /\ aux' = Aux(r, x)
           /\ ok' = (why' = "")
=============================================================================
