-------------------------- MODULE Trace_YannyRead --------------------------
(* Code -> spec for C01/C02: texts met by the real code (files the real writer produced,  *)
(* fixture files, generated renderings) are parsed by the reference reader SpecParse;     *)
(* the harness compares res with what pydl's yanny returned for the same text             *)
(* (structure and strings exactly, numeric cells by value of their text).                 *)
EXTENDS Yanny, Json, IOUtils
Recs == JsonDeserialize(IOEnv.VERIF_TRACE)
VARIABLES i, res, notes
Init == i \in 1..Len(Recs) /\ res = SpecParse(Recs[i]) /\ notes = ParseNotes(Recs[i])
Next == UNCHANGED <<i, res, notes>>
=============================================================================
