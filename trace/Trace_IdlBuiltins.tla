------------------------ MODULE Trace_IdlBuiltins ------------------------
(* Code -> spec direction for C14: calls recorded from the real smooth / median / uniq / *)
(* rebin (seeded random arrays, widths, shapes; inputs and results as exact rationals)   *)
(* are judged by the specification.  One TLC state per recorded call; ok = the observed  *)
(* outcome is the specified one; why names the first disagreement.                       *)
EXTENDS IdlBuiltins, Json, IOUtils
Recs == JsonDeserialize(IOEnv.VERIF_TRACE)
VARIABLES i, ok, why

Rats(s) == [k \in 1 .. Len(s) |-> R(s[k][1], s[k][2])]
Tup(s) == [k \in 1 .. Len(s) |-> s[k]]

Verdict(r) ==
  LET x == Rats(r.x)
      shape == Tup(r.shape)
      d == Tup(r.d)
  IN IF ~Defined(r.fn, x, shape, r.w, r.flag, d) THEN "undefined"
     ELSE LET e == Expected(r.fn, x, shape, r.w, r.flag, d)
              got == Rats(r.ret.val)
          IN IF e.err # r.ret.err THEN (IF e.err THEN "accepted a call that must raise ValueError" ELSE "raised")
             ELSE IF e.err THEN (IF r.ret.exc = "ValueError" THEN "" ELSE "wrong exception")
             ELSE IF Tup(r.ret.shape) # e.shape THEN "shape"
             ELSE IF r.fn = "rebin" /\ r.dt_out # ResultDtype(r.dt_in) THEN "dtype"
             ELSE IF ~r.check_val THEN ""
             ELSE IF ~r.exact THEN "inexact"
             ELSE IF got = e.val \/ got = e.alt THEN ""
             ELSE LET k == CHOOSE j \in 1 .. Len(got) : got[j] # e.val[j] /\ \A m \in 1 .. (j - 1) : got[m] = e.val[m]
                      where == "element " \o ToString(k - 1) \o " is " \o ToString(got[k][1]) \o "/" \o ToString(got[k][2])
                               \o ", specified " \o ToString(e.val[k][1]) \o "/" \o ToString(e.val[k][2])
                  IN IF r.fn = "rebin" /\ r.flag /\ Len(shape) = 1 /\ Dev_FloorBelowExplains(got, x, d[1])
                     THEN "D-C14-1: " \o where
                     ELSE "value: " \o where

Init == /\ i \in 1 .. Len(Recs)
        /\ why = Verdict(Recs[i])
        /\ ok = (why = "")
Next == UNCHANGED <<i, ok, why>>
=============================================================================
