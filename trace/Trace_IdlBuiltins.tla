------------------------ MODULE Trace_IdlBuiltins ------------------------
(* Code -> spec direction for C14: calls recorded from the real smooth / median / uniq / *)
(* rebin (seeded random arrays, widths, shapes; inputs and results as exact rationals)   *)
(* are judged by the specification.  One TLC state per recorded call; ok = the observed  *)
(* outcome is the specified one; why names the first disagreement.                       *)
EXTENDS IdlBuiltins, Json, IOUtils
Recs == JsonDeserialize(IOEnv.VERIF_TRACE)
VARIABLES i, ok, why

Rats(s) == [k \in 1 .. Len(s) |-> R(s[k][1], s[k][2])]
Tup(s) == [k \in 1 .. Len(s) |-> s[k]]

Verdict(r) ==
  LET x == Rats(r.x)
      shape == Tup(r.shape)
      d == Tup(r.d)
  IN IF ~Defined(r.fn, x, shape, r.w, r.flag, d) THEN "undefined"
     ELSE LET e == Expected(r.fn, x, shape, r.w, r.flag, d)
              got == Rats(r.ret.val)
          IN IF e.err # r.ret.err THEN (IF e.err THEN "accepted a call that must raise ValueError" ELSE "raised")
             ELSE IF e.err THEN (IF r.ret.exc = "ValueError" THEN "" ELSE "wrong exception")
             ELSE IF Tup(r.ret.shape) # e.shape THEN "shape"
             ELSE IF r.fn = "rebin" /\ r.dt_out # ResultDtype(r.dt_in) THEN "dtype"
             ELSE IF ~r.check_val THEN ""
             ELSE IF ~r.exact THEN "inexact"
             ELSE IF r.int_out /\ (r.fn = "smooth" \/ (r.fn = "rebin" /\ ~r.flag))
                  THEN (* integer result of an averaging call: any rounding, never a wrap-around *)
                       LET slack == IF r.fn = "smooth" THEN 1 ELSE RebinSlack(shape, d)
                           off == {j \in 1 .. Len(got) : ~IntegerResultOK(got[j], e.val[j], slack)}
                       IN IF off = {} THEN ""
                          ELSE LET k == CHOOSE j \in off : \A m \in off : j <= m
                               IN "value: element " \o ToString(k - 1) \o " is " \o ToString(got[k][1]) \o ", specified "
                                  \o ToString(e.val[k][1]) \o "/" \o ToString(e.val[k][2]) \o " (any rounding accepted)"
             ELSE IF got = e.val \/ got = e.alt THEN ""
             ELSE LET k == CHOOSE j \in 1 .. Len(got) : got[j] # e.val[j] /\ \A m \in 1 .. (j - 1) : got[m] = e.val[m]
                      where == "element " \o ToString(k - 1) \o " is " \o ToString(got[k][1]) \o "/" \o ToString(got[k][2])
                               \o ", specified " \o ToString(e.val[k][1]) \o "/" \o ToString(e.val[k][2])
                  IN IF r.fn = "rebin" /\ r.flag /\ Len(shape) = 1 /\ Dev_FloorBelowExplains(got, x, d[1])
                     THEN "D-C14-1: " \o where
                     ELSE "value: " \o where

(* Huge dynamic range (r.fn = "dyn"): the call was x = 2^60 * xb + x (x = 0 wherever xb # 0) and the    *)
(* harness split every result element v into v = 2^60 * valb + val.  2^60 is not a TLC integer, but by  *)
(* the linearity laws (checked by MC_IdlBuiltins) the specified result is 2^60 * F(xb) + F(x): valb must *)
(* be F(xb) everywhere, and wherever no huge sample is in reach (F(|xb|) = 0, the weights being          *)
(* non-negative) val must be F(x) exactly - a small window next to a huge sample loses nothing.          *)
DynVerdict(r) ==
  LET s == Rats(r.x)
      b == Rats(r.xb)
      shape == Tup(r.shape)
      d == Tup(r.d)
  IN IF r.of \notin {"smooth", "rebin"} \/ ~Defined(r.of, s, shape, r.w, r.flag, d) \/ ~Defined(r.of, b, shape, r.w, r.flag, d)
        \/ (\E k \in DOMAIN s : s[k] # Zero /\ b[k] # Zero) \/ (r.of = "rebin" /\ ~RebinAccepts(shape, d))
     THEN "undefined"
     ELSE LET es == Expected(r.of, s, shape, r.w, r.flag, d)
              eb == Expected(r.of, b, shape, r.w, r.flag, d)
              ea == Expected(r.of, AbsSeq(b), shape, r.w, r.flag, d)
              gs == Rats(r.ret.val)
              gb == Rats(r.ret.valb)
              Txt(q) == ToString(q[1]) \o "/" \o ToString(q[2])
          IN IF r.ret.err THEN "raised"
             ELSE IF Tup(r.ret.shape) # es.shape \/ Len(gs) # Len(es.val) THEN "shape"
             ELSE IF \E k \in DOMAIN gb : ~r.ret.exb[k] \/ gb[k] # eb.val[k]
                  THEN LET k == CHOOSE j \in DOMAIN gb : ~r.ret.exb[j] \/ gb[j] # eb.val[j]
                       IN "value: element " \o ToString(k - 1) \o " is " \o Txt(gb[k]) \o " * 2^60, specified " \o Txt(eb.val[k]) \o " * 2^60"
             ELSE IF \E k \in DOMAIN gs : ea.val[k] = Zero /\ (~r.ret.ex[k] \/ gs[k] # es.val[k])
                  THEN LET k == CHOOSE j \in DOMAIN gs : ea.val[j] = Zero /\ (~r.ret.ex[j] \/ gs[j] # es.val[j])
                       IN "value: element " \o ToString(k - 1) \o " (no huge sample in its reach) is "
                          \o (IF r.ret.ex[k] THEN Txt(gs[k]) ELSE "not a nearby rational") \o ", specified " \o Txt(es.val[k])
             ELSE ""

Init == /\ i \in 1 .. Len(Recs)
        /\ why = IF Recs[i].fn = "dyn" THEN DynVerdict(Recs[i]) ELSE Verdict(Recs[i])
        /\ ok = (why = "")
Next == UNCHANGED <<i, ok, why>>
=============================================================================
