------------------------ MODULE Trace_SweepCircle ------------------------
(* Code -> spec direction for X07, and the judge of every mismatch of the spec -> code       *)
(* direction: histories recorded from the real sdss_sweep_circle (PHOTO_SWEEP set / changed /  *)
(* unset, calls with their observed outcome and the observed module cache) are run through    *)
(* the SweepCircle machine event by event.  One initial state per history (tid); the state    *)
(* k = Len(events) + 1 carries one verdict per event.                                          *)
(*                                                                                             *)
(* History (JSON object): trees = [tree ...] (sets written as arrays), events = [event ...];   *)
(*   event  {op: "setenv", k}   k = 0 unsets PHOTO_SWEEP, else trees[k] (materialised anew)     *)
(*          {op: "call", c: {pos, radius, stype, allobj, form},                                 *)
(*           ret: {err, exc, ids: [id of every row returned, in order]},                        *)
(*           cache: {star, gal, sky: {none: BOOLEAN, eq: [numbers of the trees of this history  *)
(*                   whose index of that stype has exactly the content of sweep_cache[stype]]}}}*)
(* Verdict [why, open, wf, exp]: why = "" accepted (or left open: open = TRUE);                 *)
(*   "D-X07-n <deviations>" = the observation is exactly what the named known deviations give;  *)
(*   "cache", "duplicates", "unexplained" otherwise.  wf = the tree in force is well formed     *)
(*   (FALSE would be an error of the harness's tree generator).                                 *)
EXTENDS SweepCircle, Json, IOUtils, SequencesExt
Traces == JsonDeserialize(IOEnv.VERIF_TRACE)
VARIABLES tid, k, verd

tvars == <<env, seen, ret, tid, k, verd>>
Ev == Traces[tid].events[k]

ObjOf(o) == [id |-> o.id, pos |-> o.pos, rs |-> ToSet(o.rs)]
FileOfJ(f) == [run |-> f.run, camcol |-> f.camcol, rerun |-> f.rerun,
               objs |-> [m \in Idx(f.objs) |-> ObjOf(f.objs[m])] \o <<>>]
SubOf(s) == [idx |-> s.idx, files |-> [q \in Idx(s.files) |-> FileOfJ(s.files[q])] \o <<>>]
TreeOf(j) == [sub |-> [star |-> SubOf(j.sub.star), gal |-> SubOf(j.sub.gal), sky |-> SubOf(j.sub.sky)],
              pbit |-> j.pbit, lay |-> j.lay, geom |-> j.geom]
CallOf(e) == [pos |-> e.c.pos, radius |-> e.c.radius, stype |-> e.c.stype, allobj |-> e.c.allobj, form |-> e.c.form]
Observed(e) == [err |-> e.ret.err, exc |-> e.ret.exc, ids |-> ToSet(e.ret.ids)]

(* S8: after the call the real cache of every stype is empty or holds an index seen for that stype *)
CacheOK(e, s) ==
  \A st \in STypes :
     \/ e.cache[st].none
     \/ \E n \in ToSet(e.cache[st].eq) :
           LET t == Traces[tid].trees[n] IN <<t.sub[st].idx, t.geom, t.lay>> \in s[st]

SetName(dset) == LET names == SelectSeq(DevName, LAMBDA x : x \in dset)
                     RECURSIVE Join(_)
                     Join(sq) == IF sq = <<>> THEN "" ELSE " " \o Head(sq) \o Join(Tail(sq))
                 IN Join(names)
FindingName(n) == CASE n = 1 -> "D-X07-1" [] n = 2 -> "D-X07-2" [] n = 3 -> "D-X07-3" [] OTHER -> "D-X07-4"

Verdict(e, c) ==
  LET obs == Observed(e)
      spec == Specified(env, seen, c)
      exp == IF spec THEN Outcome(env, c) ELSE Open
      wf == ~ReadsIndex(env, c) \/ WellFormed(env.sub[c.stype], env.pbit)
      why == IF ~CacheOK(e, SeenAfter(env, seen, c)) THEN "cache"
             ELSE IF ~spec THEN ""
             ELSE IF ~obs.err /\ Len(e.ret.ids) # Cardinality(obs.ids) THEN "duplicates"
             ELSE IF Matches(obs, exp) THEN ""
             ELSE LET ex == FirstExplaining(env, c, obs, 1)
                  IN IF ex = 0 THEN "unexplained"
                     ELSE LET d == DevSets[ex] IN FindingName(FindingOf(d)) \o SetName(d)
  IN [why |-> why, open |-> ~spec, wf |-> wf, exp |-> exp]

TSetEnv == /\ Ev.op = "setenv"
           /\ SetEnv(IF Ev.k = 0 THEN NoEnv ELSE TreeOf(Traces[tid].trees[Ev.k]))
           /\ verd' = Append(verd, [why |-> "", open |-> FALSE, wf |-> TRUE, exp |-> NoRet])
TCall == /\ Ev.op = "call"
         /\ Call(CallOf(Ev))
         /\ verd' = Append(verd, Verdict(Ev, CallOf(Ev)))

Init == MInit /\ tid \in 1..Len(Traces) /\ k = 1 /\ verd = <<>>
Next == /\ k <= Len(Traces[tid].events)
        /\ (TSetEnv \/ TCall)
        /\ k' = k + 1 /\ tid' = tid
=============================================================================
