-------------------------- MODULE Trace_Resample --------------------------
(* Code -> spec direction for C11.  Every record is one observed call (or one law instance       *)
(* measured over a few calls) of the real combine1fiber / preprocess_spectra on realistic-size   *)
(* spectra; the specification (Resample) judges it.                                              *)
(*                                                                                               *)
(* kind "resample": exps = [iv (integer inverse variances in units of 1/q), sh <<n, d>>],        *)
(*    grid = [start <<n, d>>, step <<n, d>>, count]  (pixel units of the input grid),            *)
(*    observed: nflux, nivar (lengths), finite, nonneg, nz[j] = 1 iff newivar[j] # 0,            *)
(*    out[j] = round(newivar[j] * q * IvarScale), interp = the interpolation law applies         *)
(*    (one exposure, inverse variance supplied).                                                 *)
(* kind "law": law \in {"identity", "const", "scale", "shift", "layout"} with the measured discrepancies   *)
(*    as scaled integers.                                                                        *)
(*                                                                                               *)
(* State i / why = "init" is the unjudged record; its one successor carries the verdict          *)
(* (ok, why = "" or the first violated clause), so that all TLC workers share the judging.       *)
EXTENDS Resample, Json, IOUtils, TLC
Recs == JsonDeserialize(IOEnv.VERIF_TRACE)
VARIABLES i, ok, why

RatOf(x) == R(x[1], x[2])
GridOf(r) == [start |-> RatOf(r.grid.start), step |-> RatOf(r.grid.step), count |-> r.grid.count]
ExpsOf(r) == [e \in DOMAIN r.exps |->
                [good |-> [k \in DOMAIN r.exps[e].iv |-> r.exps[e].iv[k] > 0], sh |-> RatOf(r.exps[e].sh)]]
IvRat(r) == [k \in DOMAIN r.exps[1].iv |-> <<r.exps[1].iv[k], 1>>]

(* first violated clause of the property for an observed call, "" if none *)
VerdictResample(r, g, ps, exps, iv) ==
  IF r.nflux # g.count \/ r.nivar # g.count THEN "length of flux or inverse variance is not the grid's"
  ELSE IF ~r.finite THEN "non-finite flux or inverse variance"
  ELSE IF ~r.nonneg THEN "negative inverse variance"
  ELSE IF \E j \in DOMAIN ps : r.nz[j + 1] = 1 /\ MustBeZeroMulti(exps, ps[j])
       THEN "non-zero inverse variance on a pixel not between two adjacent good input pixels"
  ELSE IF r.interp /\ \E j \in DOMAIN ps : r.nz[j + 1] = 1 /\ ~CloseTo(r.out[j + 1], InterpIvar(iv, ps[j]))
       THEN "non-zero inverse variance is not the linear interpolation of the input"
  ELSE IF r.interp /\ \E j \in DOMAIN ps : r.nz[j + 1] = 1 /\ ~NotAbove(r.out[j + 1], LocalMax(iv, ps[j]))
       THEN "inverse variance above the local maximum of the input"
  ELSE ""

VerdictLaw(r) ==
  IF r.law = "identity" THEN
       (IF r.devppm <= IdentityTolPpm(r.period) THEN "" ELSE "same-grid/shifted-grid resampling does not reproduce the spectrum")
  ELSE IF r.law = "const" THEN
       (IF r.devppb <= ConstTolPpb THEN "" ELSE "constant spectrum does not stay constant")
  ELSE IF r.law = "scale" THEN
       (IF r.zerodiff # 0 THEN "scaling changes the set of zero inverse variances"
        ELSE IF r.fluxppb > ScaleTolPpb THEN "flux does not scale with c"
        ELSE IF r.ivarppb > ScaleTolPpb THEN "inverse variance does not scale with 1/c^2"
        ELSE "")
  ELSE IF r.law = "shift" THEN
       (IF r.kout # ShiftedIndex(r.k0, r.o1, r.m, r.o2) THEN "de-redshifted feature is not at L - log10(1+z)"
        ELSE IF r.residmilli > ShiftResidTolMilli THEN "de-redshifted feature is off L - log10(1+z) by more than 0.01 pixel"
        ELSE "")
  ELSE IF r.law = "layout" THEN
       (IF r.devppb <= LayoutTolPpb THEN "" ELSE "the result depends on the memory layout of the arguments, not only on their values")
  ELSE "unknown law"

Init == i \in 1 .. Len(Recs) /\ ok = TRUE /\ why = "init"
JudgeResample ==
  /\ Recs[i].kind = "resample"
  /\ \E r \in {Recs[i]} : \E g \in {GridOf(r)} : \E ps \in {Positions(g)} : \E exps \in {ExpsOf(r)} :
     \E iv \in {IvRat(r)} : \E v \in {VerdictResample(r, g, ps, exps, iv)} :
        ok' = (v = "") /\ why' = v
JudgeLaw ==
  /\ Recs[i].kind = "law"
  /\ \E v \in {VerdictLaw(Recs[i])} : ok' = (v = "") /\ why' = v
Next == why = "init" /\ i' = i /\ (JudgeResample \/ JudgeLaw)

(* The same verdicts computed in the initial states (one state per record), for core.validate_records /  *)
(* core.binding_selftest: see Trace_ResampleSelf.                                                        *)
InitJudged ==
  /\ i \in 1 .. Len(Recs)
  /\ \E r \in {Recs[i]} :
       IF r.kind = "resample"
       THEN \E g \in {GridOf(r)} : \E ps \in {Positions(g)} : \E exps \in {ExpsOf(r)} : \E iv \in {IvRat(r)} :
            \E v \in {VerdictResample(r, g, ps, exps, iv)} : ok = (v = "") /\ why = v
       ELSE \E v \in {VerdictLaw(r)} : ok = (v = "") /\ why = v
Stutter == UNCHANGED <<i, ok, why>>
=============================================================================
