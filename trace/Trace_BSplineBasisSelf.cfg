INIT InitJudged
NEXT NextNone
CHECK_DEADLOCK FALSE
