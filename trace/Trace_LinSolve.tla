-------------------------- MODULE Trace_LinSolve --------------------------
(* Code -> spec direction for C15.  Two modes, chosen by the environment variable VERIF_MODE: *)
(*                                                                                           *)
(* "recs"  VERIF_TRACE is a list of recorded calls of the real code, one TLC state each,      *)
(*         judged with the operators of LinSolve (variables i, ok, why):                      *)
(*           kind "wls"   computechi2(b, sqivar, A): integer system, every attribute          *)
(*                        abstracted to the nearby small rational q, with dev = the largest   *)
(*                        |observed - q| in units of the tolerance times the natural scale    *)
(*                        (LinSolve: THE COMPARISON RULE; natural scales measured by the       *)
(*                        harness in floating point); ok iff dev <= 1 and the q are            *)
(*                        the exact weighted least-squares record;                            *)
(*           kind "wlsf"  computechi2 on a float system (high signal-to-noise, noise-free):   *)
(*                        chi2 >= 0 and equal to the weighted residual of the RETURNED yfit,   *)
(*                        gradient, covar inverse, dof - harness-measured, scaled integers;   *)
(*           kind "pcomp" pcomp(x, standardize, covariance) on an integer matrix, attributes  *)
(*                        as scaled integers; the four laws of the statement;                 *)
(*           kind "pca"   pca_solve: the three laws of the statement on logged measurements.  *)
(* "hmf"   VERIF_TRACE is a list of traces of real HMF runs (stepped through the public       *)
(*         methods, or full iterate() runs recorded through wrapped methods).  A trace is a   *)
(*         behaviour of the iteration protocol iff every event is consumed by one of the      *)
(*         module's actions (variables tid, k, h); the harness reads the furthest k per tid.  *)
(*         Twin runs (same seed) must have identical event lists.                             *)
EXTENDS LinSolve, Json, IOUtils, TLC
Data == JsonDeserialize(IOEnv.VERIF_TRACE)
Mode == IOEnv.VERIF_MODE
VARIABLES i, ok, why, tid, k, h

(* ---- recs ---- *)
WlsWhy(r) ==
  IF ~FullRank(r.A, r.s) THEN "skip"                       \* the statement speaks of full-rank systems only
  ELSE IF r.ret.err THEN "exception"
  ELSE IF ~AgreesAtNaturalScale(r.ret.dev) THEN "an attribute is further than the tolerance from any small rational"
  ELSE LET e == ExpectedWLS(r) IN
       IF r.ret.acoeff # e.acoeff THEN "acoeff"
       ELSE IF r.ret.yfit # e.yfit THEN "yfit"
       ELSE IF r.ret.chi2 # e.chi2 THEN "chi2"
       ELSE IF r.ret.dof # e.dof THEN "dof"
       ELSE IF r.ret.covar # e.covar THEN "covar"
       ELSE IF r.ret.var # e.var THEN "var"
       ELSE ""
PcWhy(r) == IF r.err THEN "exception" ELSE PcompVerdict(r)
Why(r) == CASE r.kind = "wls" -> WlsWhy(r)
            [] r.kind = "wlsf" -> WlsFloatVerdict(r)
            [] r.kind = "pcomp" -> PcWhy(r)
            [] r.kind = "pca" -> PcaVerdict(r)
(* which named deviation explains a rejected record exactly ("" if none) *)
Dev(r, w) == IF w \in {"", "skip"} THEN ""
             ELSE IF r.kind = "wls" /\ w = "exception" /\ Dev_Vec1dRaises(r) THEN "D-C15-1"
             ELSE IF r.kind = "pcomp" /\ w = "nan" /\ Dev_NanOnSingular(r) THEN "D-C15-2"
             ELSE IF r.kind = "pcomp" /\ w = "derived" /\ Dev_DerivedPlusCentred(r) THEN "D-C15-3"
             ELSE ""

InitRecs == /\ i \in 1..Len(Data)
            /\ LET w == Why(Data[i]) IN
               /\ ok = (w \in {"", "skip"})
               /\ why = IF w \in {"", "skip"} THEN w ELSE w \o "|" \o Dev(Data[i], w)
            /\ tid = 0 /\ k = 0 /\ h = HStart(FALSE, 0, 0)

(* ---- hmf ---- *)
Tr == Data[tid]
Ev == Tr.events[k]
InitHmf == /\ tid \in 1..Len(Data)
           /\ k = 1
           /\ h = HStart(Data[tid].nn, Data[tid].eps, Data[tid].niter)
           /\ i = 0 /\ ok = TRUE /\ why = ""
SeedDeterminism == (Ev.op = "done" /\ Tr.twin # 0) => Data[Tr.twin].events = Tr.events
NextHmf == /\ Mode = "hmf"
           /\ k <= Len(Tr.events)
           /\ HStepR(h, h', Ev)
           /\ SeedDeterminism
           /\ k' = k + 1
           /\ UNCHANGED <<i, ok, why, tid>>

Init == IF Mode = "hmf" THEN InitHmf ELSE InitRecs
Next == NextHmf
=============================================================================
