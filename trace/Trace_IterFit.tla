-------------------------- MODULE Trace_IterFit --------------------------
(* Code -> spec direction for C10: runs of the real iterfit, recorded by proxies placed around   *)
(* its two collaborators (bspline.fit and djs_reject inside pydl.pydlutils.bspline), are         *)
(* validated event by event against the machine of spec/IterFit.  Every trace is an initial      *)
(* state (tid); pos is the next event to explain.  Observable events are matched to the          *)
(* machine's Fit / Reject / Return; Sort, LoopOrExit, Unsort (and SkipReject for maxiter = 0)     *)
(* are internal.  A trace is accepted iff the position after its last event is reached (the      *)
(* harness reads the positions printed below).  A run that leaves the domain of the statement   *)
(* (pc = "unspec": fewer good points left than a fit needs) is reported as such, not judged.     *)
(*                                                                                               *)
(* Trace (JSON object): n, perm, cpos, lower, upper, band, maxiter, mingood, nbk, tol, outliers, *)
(* events.  Breakpoints are named by their index (1..nbk) in the breakpoint array of the object  *)
(* iterfit builds; "in effect" = not masked.  Points are named by their rank in (x, y) order; the harness's abstraction maps the   *)
(* arrays the collaborators receive to ranks by matching (x, y) pairs.                           *)
(*   fit    : mask (ranks given positive weight), st (status returned), args (TRUE iff x was     *)
(*            non-decreasing, every (x, y) pair was a data point and every positively weighted   *)
(*            point carried its own inverse variance), bk0 / bk (breakpoints in effect when the  *)
(*            fit was called / when it returned)                                                 *)
(*   reject : inm (ranks of inmask), out (ranks of the mask returned), qd (qdone returned),      *)
(*            z (the ORACLE: scaled residual of every point from the independent least-squares   *)
(*            fit to the set the machine says was fitted last; unit = that of lower / upper),    *)
(*            zbk (the breakpoints that independent fit was made on: those the fit just made      *)
(*            left in effect - the machine refuses an oracle for any other set)                   *)
(*   return : outmask (caller positions flagged True), cdiff (discrepancy between the returned   *)
(*            curve and the independent fit to the last set fitted, same unit), cbk (the         *)
(*            breakpoints that independent fit was made on), retbk (the breakpoints in effect in  *)
(*            the returned object), hasref, refpts, refcurve, pdiff (result of the first run of   *)
(*            the same data in another order)                                                    *)
(* A run whose last fit only dropped breakpoints (budget used up before anything was solved on    *)
(* the reduced set) hands back no solved curve: the mask is judged, the curve is not.             *)
EXTENDS IterFit, Json, IOUtils, SequencesExt, TLC
Traces == JsonDeserialize(IOEnv.VERIF_TRACE)
UseDev == "VERIF_DEV" \in DOMAIN IOEnv /\ IOEnv.VERIF_DEV = "D-C10-1"
VARIABLES tid, pos

T  == Traces[tid]
Ev == T.events[pos]
ProbOf(t) == [n |-> t.n, perm |-> t.perm, cpos |-> ToSet(t.cpos), lower |-> t.lower, upper |-> t.upper,
              band |-> t.band, maxiter |-> t.maxiter, mingood |-> t.mingood, nbk |-> t.nbk]

Init == \E i \in 1..Len(Traces) :
          /\ tid = i /\ pos = 1
          /\ ProblemOK(ProbOf(Traces[i]))
          /\ InitWith(ProbOf(Traces[i]))

TFit == /\ Ev.a = "fit"
        /\ Ev.args
        /\ ToSet(Ev.mask) = work
        /\ ToSet(Ev.bk0) = bk                         \* nobody touched the breakpoints between two fits
        /\ ToSet(Ev.bk) \subseteq bk
        /\ Fit(Ev.st, bk \ ToSet(Ev.bk))

TReject == /\ Ev.a = "reject"
           /\ ToSet(Ev.inm) = work
           /\ ToSet(Ev.out) \subseteq work
           /\ Reject(Ev.z, work \ ToSet(Ev.out), ToSet(Ev.zbk))
           /\ Ev.qd = qdone'

(* the curve handed back is the fit to the last set fitted; the mask is in the caller's order;   *)
(* with rejection enabled the injected clear outliers are False and the curve was fitted without *)
(* them; a run on the same data in another order gave the same points and the same curve         *)
TReturn == /\ Ev.a = "return"
           /\ Return
           /\ ToSet(Ev.outmask) = outmask
           /\ ToSet(Ev.retbk) = bk
           /\ status = 0 => (ToSet(Ev.cbk) = curveBk /\ Ev.cdiff <= T.tol)
           /\ prob.maxiter >= 1 => /\ ToSet(T.outliers) \cap work = {}
                                   /\ UseDev \/ ToSet(T.outliers) \cap curveOf = {}   \* (what the deviation costs)
           /\ Ev.hasref => /\ ToSet(Ev.refpts) = work
                           /\ ToSet(Ev.refcurve) = curveOf
                           /\ status = 0 => Ev.pdiff <= T.tol

Observe == TFit \/ TReject \/ TReturn
Internal == Sort \/ (IF UseDev THEN Dev_StopsAfterFirstReject ELSE LoopOrExit) \/ Unsort \/ SkipReject

Next == /\ pos <= Len(T.events) /\ UNCHANGED tid
        /\ \/ Observe /\ pos' = pos + 1 /\ PrintT(<<"C10POS", tid, pos', pc'>>)
           \/ Internal /\ UNCHANGED pos /\ (pc' = "unspec" => PrintT(<<"C10POS", tid, pos, pc'>>))

(* laws of the machine that every explained prefix of a real run obeys (checked as invariants) *)
T_SortIsArgsort == SortIsArgsort
T_ZeroWeightNeverUsed == ZeroWeightNeverUsed
T_MaskInCallerOrder == MaskInCallerOrder
T_ReturnedCurveIsLastFit == ReturnedCurveIsLastFit
T_WithinBudget == WithinBudget
T_RejectedStayOut == RejectedStayOut
T_BreakpointsOnlyShrink == BreakpointsOnlyShrink
T_ResidualsOnBreakpointsInEffect == ResidualsOnBreakpointsInEffect
T_ReturnedCurveOnReturnedBreakpoints == ReturnedCurveOnReturnedBreakpoints
=============================================================================
