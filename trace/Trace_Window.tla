--------------------------- MODULE Trace_Window ---------------------------
(* Code -> spec direction for X05: observations of the real pydl.photoop.window functions (replayed TLC      *)
(* cases whose observation has to be classified, and seeded random worlds / tables / calls) are judged by    *)
(* the operators of spec/Window.tla.  One TLC state per record; why = "" iff the observation is the          *)
(* specified outcome, otherwise it says what is wrong, prefixed by the id of the named deviation that        *)
(* explains the observation exactly, if one does.                                                            *)
(* Records (JSON: sets are arrays, rationals [num, den], observed floats are integers in units of 10^-d):    *)
(*   [kind "row", c, prev, obs |-> [photo, psp, fwhm (d=6), sky (d=5), score (d=7), finite]]                 *)
(*   [kind "call", k |-> [nrows, imgSigned, firstPsMissing], raised, msg]                                    *)
(*   [kind "read", kw, w, obs |-> [err, keys, reads, opened, flist (d=7), after |-> [present, flist, rescore]]] *)
(*   [kind "wscore", rescore, w, obs]          (same obs)                                                    *)
(*   [kind "balkans", blist, bcaps, pts, obs |-> [rows, inside]]   (a float that is no small rational: [0,0]) *)
EXTENDS Window, Json, IOUtils, SequencesExt, TLC
Recs == JsonDeserialize(IOEnv.VERIF_TRACE)
VARIABLES i, ok, why

(* ---- observed floats against exact rationals: floor(|q| * 10^d) by long division (32-bit safe) ---- *)
RECURSIVE Digs(_, _, _)
Digs(rem, den, d) == IF d = 0 THEN 0 ELSE LET t == rem * 10 IN (t \div den) * 10 ^ (d - 1) + Digs(t % den, den, d - 1)
Scaled(q, d) == LET a == Abs(q[1]) IN (IF q[1] < 0 THEN -1 ELSE 1) * ((a \div q[2]) * 10 ^ d + Digs(a % q[2], q[2], d))
Near(n, q, d) == Abs(n - Scaled(q, d)) <= 3 + Abs(n) \div 500000
NearSeq(ns, qs, d) == Len(ns) = Len(qs) /\ \A k \in DOMAIN ns : Near(ns[k], qs[k], d)

(* ---- JSON -> case ---- *)
RowOf(j) == [j EXCEPT !.img = [k \in Bands |-> ToSet(j.img[k])]]
WorldOf(j) == [j EXCEPT !.present = ToSet(j.present), !.rows = [k \in DOMAIN j.rows |-> RowOf(j.rows[k])]]

(* ---- rows ---- *)
RowMatches(o, out, demanded) ==
  /\ o.finite
  /\ o.photo = out.photo /\ o.psp = out.psp
  /\ NearSeq(o.fwhm, out.fwhm, 6) /\ NearSeq(o.sky, out.sky, 5)
  /\ (demanded => Near(o.score, out.score, 7))
RowWrong(o, out, demanded) ==
  IF ~o.finite THEN "a value that is not finite"
  ELSE IF o.photo # out.photo THEN "PHOTO_STATUS"
  ELSE IF o.psp # out.psp THEN "PSP_STATUS"
  ELSE IF ~NearSeq(o.fwhm, out.fwhm, 6) THEN "PSF_FWHM"
  ELSE IF ~NearSeq(o.sky, out.sky, 5) THEN "SKYFLUX"
  ELSE IF demanded /\ ~Near(o.score, out.score, 7) THEN "SCORE"
  ELSE ""
RowVerdict(r) ==
  LET c == RowOf(r.c)
      dem == ScoreDemanded(c)
      bad == RowWrong(r.obs, RowOut(c), dem)
      stale == Dev_StalePsField(c, r.prev)
  IN IF bad = "" THEN ""
     ELSE IF RowMatches(r.obs, Dev_SensCompare(c), dem) THEN "D-X05-4: " \o bad \o " differs from the specified value"
     ELSE IF ~stale.raises /\ ~c.ps.has /\ RowMatches(r.obs, stale.out, ScoreDemanded([c EXCEPT !.ps = r.prev]))
          THEN "D-X05-3: " \o bad \o " differs from the specified value"
     ELSE bad \o " differs from the specified value"

CallVerdict(r) ==
  IF r.raised = CallOutcome(r.k) THEN ""
  ELSE IF r.raised = "UnboundLocalError" /\ Dev_FirstRowPsMissing(r.k) = r.raised /\ r.msg = "psfield"
       THEN "D-X05-3: raised " \o r.raised
  ELSE IF r.raised = "TypeError" /\ Dev_MaskType(r.k) = r.raised /\ r.msg = "bitwise_and" THEN "D-X05-2: raised " \o r.raised
  ELSE IF r.raised = "AttributeError" /\ Dev_NoNumpyFind(r.k) = r.raised /\ r.msg = "find" THEN "D-X05-1: raised " \o r.raised
  ELSE "raised " \o r.raised

(* ---- files ---- *)
FileWrong(o, e) ==
  IF e.err = "open" THEN ""
  ELSE IF o.err # e.err THEN (IF o.err = "" THEN "returned normally, specified " \o e.err
                              ELSE IF e.err = "" THEN "raised " \o o.err \o ", specified a normal return"
                              ELSE "raised " \o o.err \o ", specified " \o e.err)
  ELSE IF ToSet(o.keys) # e.keys THEN "keys of the returned dict"
  ELSE IF ToSet(o.reads) # e.reads THEN "files read"
  ELSE IF ToSet(o.opened) # e.opened THEN "files opened for scoring"
  ELSE IF ~NearSeq(o.flist, e.flist, 7) THEN "SCORE column of the returned flist"
  ELSE IF ToSet(o.after.present) # e.after.present THEN "files existing afterwards"
  ELSE IF ~NearSeq(o.after.flist, e.after.flist, 7) THEN "SCORE column of window_flist.fits afterwards"
  ELSE IF ~NearSeq(o.after.rescore, e.after.rescore, 7) THEN "SCORE column of window_flist_rescore.fits afterwards"
  ELSE ""
ReadVerdict(r) == FileWrong(r.obs, WindowRead(r.kw, WorldOf(r.w)))
WScoreVerdict(r) == FileWrong(r.obs, WScoreOut(WorldOf(r.w), r.rescore))

(* ---- balkans ---- *)
InsideOf(o) == [k \in DOMAIN o.inside |-> ToSet(o.inside[k])]
ShapeOK(o, e) == /\ Len(o) = Len(e)
                 /\ \A k \in DOMAIN o : /\ Len(o[k].xcaps) = Len(e[k].xcaps) /\ Len(o[k].cmcaps) = Len(e[k].cmcaps)
                                         /\ o[k].ncaps \in 0 .. Len(o[k].xcaps)
BalkVerdict(r) ==
  IF ~BalkansDefined(r.blist, r.bcaps) THEN ""
  ELSE LET e == Balkans(r.blist, r.bcaps)
           ins == InsideSets(e, r.pts)
       IN IF r.obs.rows = e /\ InsideOf(r.obs) = ins THEN ""
          ELSE IF Len(r.obs.rows) # Len(e) THEN "number of balkans"
          ELSE IF ~ShapeOK(r.obs.rows, e) THEN "balkans array shape"
          ELSE IF InsideOf(r.obs) = ins /\ Dev_PaddingUninitialised(r.obs.rows, r.blist, r.bcaps)
               THEN "D-X05-5: unused XCAPS / CMCAPS slots are not zero"
          ELSE IF Used(r.obs.rows) # Used(e) THEN "balkans fields"
          ELSE IF InsideOf(r.obs) # ins THEN "is_in_polygon answers"
          ELSE "unused XCAPS / CMCAPS slots"

Verdict(r) == IF r.kind = "row" THEN RowVerdict(r)
              ELSE IF r.kind = "call" THEN CallVerdict(r)
              ELSE IF r.kind = "read" THEN ReadVerdict(r)
              ELSE IF r.kind = "wscore" THEN WScoreVerdict(r)
              ELSE IF r.kind = "balkans" THEN BalkVerdict(r)
              ELSE "unknown record kind"

Init == /\ i \in 1 .. Len(Recs)
        /\ why = Verdict(Recs[i])
        /\ ok = (why = "")
Next == UNCHANGED <<i, ok, why>>
=============================================================================
