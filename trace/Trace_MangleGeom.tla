------------------------- MODULE Trace_MangleGeom -------------------------
(* Code -> spec direction for X06: calls of the real ManglePolygon methods, add_caps /      *)
(* polyn, circle_cap and is_cap_used recorded by the harness (seeded random rational         *)
(* geometry, all construction routes and memory layouts) are judged by MangleGeom.tla.       *)
(* One TLC state per record; ok = the observed outcome is one the specification admits; why  *)
(* names the first disagreement and starts with "D-X06-n" when a named deviation of the spec *)
(* explains the record exactly.  Record kinds:                                               *)
(*   obj     poly, noargs, obs [raised, caps, use, cmminf (-2 = None), gzeroar,              *)
(*                             garea [warned, close, val (value / pi), hasoracle, disc],     *)
(*                             strsame]                                                      *)
(*   alg     p1, p1noargs, p1int, new (the caps appended, as the harness passed them), pts,  *)
(*           obs [raised, caps, member]                                                      *)
(*   circle  r, x, pts, obs [raised, xok, cmclose, cm, member]                               *)
(*   self    r, obs: circle_cap(r, one arbitrary point)'s cap asked for that same point      *)
(*   used    mask, i, obs                                                                    *)
(*   area    law instance on a polygon with irrational geometry: nused, zero, warned, disc   *)
(* Areas the specification cannot compute are compared by the HARNESS with an independent    *)
(* quadrature (a 200 000-point Fibonacci lattice, error < 2e-3 sr on these polygons); disc   *)
(* is the measured |value - quadrature| in micro-steradians and AreaTol the tolerance.       *)
EXTENDS MangleGeom, Json, IOUtils, SequencesExt, TLC
Recs == JsonDeserialize(IOEnv.VERIF_TRACE)
VARIABLES i, ok, why

AreaTol == 20000           \* 0.02 sr

CapOf(j) == MkCap(j.x, j.cm)
CapsOf(js) == [k \in DOMAIN js |-> CapOf(js[k])]
PolyOf(j) == [caps |-> CapsOf(j.caps), use |-> ToSet(j.use)]
VecOK(v) == Len(v) = 3 /\ IsRat(v[1]) /\ IsRat(v[2]) /\ IsRat(v[3]) /\ DenOK(v) /\ IsUnit(v)
CapOK(cap) == VecOK(cap.x) /\ IsRat(cap.cm)
PolyOK(poly) == \A k \in DOMAIN poly.caps : CapOK(poly.caps[k])

InputOK(r) ==
  CASE r.kind = "obj" -> PolyOK(PolyOf(r.poly))
    [] r.kind = "alg" -> /\ PolyOK(PolyOf(r.p1)) /\ \A k \in DOMAIN r.new : CapOK(CapOf(r.new[k]))
                         /\ \A k \in DOMAIN r.pts : VecOK(r.pts[k])
    [] r.kind = "circle" -> r.r \in ExactRadii /\ VecOK(r.x) /\ \A k \in DOMAIN r.pts : VecOK(r.pts[k])
    [] r.kind = "self" -> r.r \in ExactRadii
    [] r.kind = "used" -> TRUE
    [] r.kind = "area" -> TRUE
    [] OTHER -> FALSE

(* ---- obj ---- *)
GareaWhy(g, o) ==
  IF g.kind = "open" THEN ""
  ELSE IF g.kind = "exact" THEN (IF o.close /\ o.val = g.area THEN "" ELSE "garea value")
  ELSE IF o.warned THEN ""
  ELSE IF g.known THEN (IF o.close /\ o.val = g.area THEN "" ELSE "garea value without the incompleteness warning")
  ELSE IF o.hasoracle /\ o.disc <= AreaTol THEN "" ELSE "garea value without the incompleteness warning (quadrature)"
VObj(r) ==
  LET poly == PolyOf(r.poly)
      m == CmMinf(poly)
      o == r.obs
  IN IF o.raised THEN (IF Dev_WholeSkyHasNoArrays(poly, r.noargs) THEN "D-X06-3 raised" ELSE "raised")
     ELSE IF CapsOf(o.caps) # poly.caps THEN "caps"
     ELSE IF ToSet(o.use) # poly.use THEN "use_caps"
     ELSE IF m.kind = "none" /\ o.cmminf # -2 THEN "cmminf of a polygon without caps"
     ELSE IF m.kind = "index" /\ o.cmminf \notin m.idx
          THEN (IF Dev_CmMinfMissesFullCaps(poly) /\ o.cmminf = -1 THEN "D-X06-6 cmminf misses full-sphere caps" ELSE "cmminf")
     ELSE IF o.gzeroar # ZeroAr(poly)
          THEN (IF o.gzeroar = Dev_ZeroArAnyCap(poly) THEN "D-X06-2 gzeroar counts an unused cap" ELSE "gzeroar")
     ELSE IF GareaWhy(Garea(poly), o.garea) # ""
          THEN (IF Dev_GareaZeroFromUnusedCap(poly) /\ o.garea.close /\ o.garea.val = Zero
                THEN "D-X06-2 garea is 0 because of an unused cap"
                ELSE IF Dev_CmMinfMissesFullCaps(poly) /\ o.garea.close /\ o.garea.val = Dev_GareaFromLastCap(poly)
                THEN "D-X06-6 garea takes the last cap for the smallest" ELSE GareaWhy(Garea(poly), o.garea))
     ELSE IF ~o.strsame THEN "str differs from garea()"
     ELSE ""

(* ---- alg ---- *)
MemberOK(poly, new, pts, member) == \A k \in DOMAIN pts : member[k] \in IntersectionAllowed(poly, new, pts[k])
VAlg(r) ==
  LET p1 == PolyOf(r.p1)
      new == CapsOf(r.new)
      o == r.obs
  IN IF o.raised THEN (IF Dev_WholeSkyHasNoArrays(p1, r.p1noargs) THEN "D-X06-3 raised" ELSE "raised")
     ELSE IF CapsOf(o.caps) # p1.caps \o new
          THEN (IF r.p1int /\ CapsOf(o.caps) = Dev_AppendedTruncated(p1, new) THEN "D-X06-4 appended caps truncated to integers"
                ELSE "caps of the result")
     ELSE IF MemberOK(p1, new, r.pts, o.member) THEN ""
     ELSE IF \A k \in DOMAIN r.pts : o.member[k] \in PolyAllowed(Dev_AppendedCapsUnused(p1, new), r.pts[k], 0)
          THEN "D-X06-1 appended caps are not used" ELSE "membership of the result"

(* ---- circle ---- *)
VCircle(r) ==
  LET o == r.obs IN
  IF o.raised THEN "raised"
  ELSE IF ~o.xok THEN "x is not the point"
  ELSE IF ~o.cmclose \/ o.cm # CircleCm(r.r) THEN "cm is not 1 - cos(radius)"
  ELSE IF \A k \in DOMAIN r.pts : o.member[k] \in CircleAllowed(r.x, r.r, r.pts[k]) THEN "" ELSE "membership"
Canon == << One, Zero, Zero >>
VSelf(r) == IF r.obs.raised THEN "raised"
            ELSE IF r.obs.member \in CircleAllowed(Canon, r.r, Canon) THEN ""
            ELSE IF r.intpts THEN "centre given as integer RA/Dec is not in its own cap" ELSE "centre not in its own cap"

VUsed(r) == IF r.obs.raised THEN "raised" ELSE IF r.obs.val = CapUsed(ToSet(r.mask), r.i) THEN "" ELSE "bit"

VArea(r) == IF r.raised THEN "raised"
            ELSE IF r.nused >= 2 /\ ~r.zero /\ r.warned THEN ""
            ELSE IF r.disc <= AreaTol THEN "" ELSE "area differs from the quadrature"

Verdict(r) ==
  CASE r.kind = "obj" -> VObj(r) [] r.kind = "alg" -> VAlg(r) [] r.kind = "circle" -> VCircle(r)
    [] r.kind = "self" -> VSelf(r) [] r.kind = "used" -> VUsed(r) [] r.kind = "area" -> VArea(r)

Init == /\ i \in 1..Len(Recs)
        /\ why = IF ~InputOK(Recs[i]) THEN "input" ELSE Verdict(Recs[i])
        /\ ok = (why = "")
Next == UNCHANGED <<i, ok, why>>
=============================================================================
