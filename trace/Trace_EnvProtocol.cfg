INIT Init
NEXT Next
INVARIANT T_BystandersUntouched
INVARIANT T_EnvRestored
VIEW View
CHECK_DEADLOCK FALSE
