CONSTANT Tree <- StdTree6
INIT Init
NEXT Next
CHECK_DEADLOCK FALSE
