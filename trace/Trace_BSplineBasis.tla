------------------------ MODULE Trace_BSplineBasis ------------------------
(* Code -> spec direction for C08: calls recorded from the real pydl bspline class are     *)
(* judged by the operators of module BSplineBasis.  One TLC state per record.              *)
(*                                                                                         *)
(* kind "knots": one constructor call.  data, arg, spread are exact rationals [num, den]   *)
(*   (small dyadic numbers, exact in binary floating point); obs.knots are the knots the   *)
(*   object holds, abstracted to integers round(t * 2^16) (the code keeps constructed      *)
(*   breakpoints in single precision, the statement allows that rounding).                 *)
(*   Judged: the three laws of the statement on the observed knots and, when the          *)
(*   documentation pins the breakpoints down (PinnedDown), equality with Knots(...).       *)
(*   form / aform name the numpy representation of the data / breakpoint arrays (element type, *)
(*   byte order, stride, read-only); the verdict depends on the values only.                    *)
(* kind "eval": one evaluation.  t (the knots read back from the object), xs, cs are exact;*)
(*   obs holds value(xs) per coefficient vector and the mask in the caller's order, and    *)
(*   intrv / bsplvn of the sorted points; floats abstracted to integers round(v * 2^12).   *)
(*   Judged at that resolution here; out carries the exact specified outcome so that the   *)
(*   harness can tighten the comparison of the floats to 1e-10.                            *)
(* kind "ends": one evaluation of points within a few units in the last place (double and      *)
(*   single precision) of the first / last breakpoint THE OBJECT HOLDS, for any breakpoint       *)
(*   option and arbitrary binary floats.  Numbers are abstracted by an order-preserving map to   *)
(*   integers: lo, hi and the points near them by their distance in double-precision ordinals    *)
(*   (consecutive doubles differ by 1), everything else by "far below / between / far above".    *)
(*   Judged: the validity mask is False exactly for the points outside [lo, hi] (MaskOf).        *)
EXTENDS BSplineBasis, Json, IOUtils, SequencesExt, TLC
Recs == JsonDeserialize(IOEnv.VERIF_TRACE)
VARIABLES i, ok, why, out

KS == 65536      \* knot abstraction: round(t * KS)
VS == 4096       \* value abstraction: round(v * VS)
IAbs(a) == IF a < 0 THEN -a ELSE a
(* floor(q * S) without overflowing 32 bits (q[2] * S < 2^31) *)
FloorScaled(q, S) == (q[1] \div q[2]) * S + ((q[1] % q[2]) * S) \div q[2]
Judgeable(q, S) == q[2] < 2147483647 \div S /\ IAbs(q[1] \div q[2]) < 2147483647 \div (2 * S)
Near(obs, q, S, tol) == LET f == FloorScaled(q, S) IN obs >= f - tol /\ obs <= f + 1 + tol
(* a value abstracted at resolution VS against the exact q, at the finest resolution 32 bits allow for q *)
Scales == {4096, 512, 64, 8, 1}
VNear(obs, q) == LET S == CHOOSE s \in Scales : Judgeable(q, s) /\ \A u \in Scales : (u > s => ~Judgeable(q, u))
                 IN Near(obs \div (VS \div S), q, S, 1)

(* ------------------------------ constructor calls ------------------------------ *)
ArgOf(r) == r.arg
Msg1 == "D-C08-1 everyn: sample index nx not clamped, the constructor raised (Dev_EveryNUnclamped)"
Msg2 == "D-C08-2 everyn larger than half the data: a single breakpoint, range not covered (Dev_EveryNSingle)"
Msg4 == "D-C08-4 everyn on unsorted data: knots not non-decreasing (Dev_EveryNUnsorted)"
Msg5 == "D-C08-5 the first of several equal highest breakpoints was raised to the highest datum: knots not non-decreasing (Dev_CoverFixFirstMax)"
KnotsVerdict0(r) ==
  LET nx == Len(r.data)
      lo == QMinSeq(r.data)
      hi == QMaxSeq(r.data)
      t == r.obs.knots
      m == Len(t)
  IN IF r.obs.err
       THEN IF r.opt = "everyn" /\ Dev_EveryNUnclamped(nx, r.arg) THEN Msg1
            ELSE "constructor raised an exception"
     ELSE IF ~r.obs.finite THEN "non-finite knot"
     ELSE IF r.obs.ncoef # m - r.nord THEN "coefficient vector length is not (number of knots - nord)"
     ELSE IF \E k \in 1..(m - 1) : t[k] > t[k + 1]
       THEN IF r.opt = "everyn" /\ Dev_EveryNUnsorted(r.data) THEN Msg4
            ELSE IF Dev_CoverFixFirstMax(r.data, r.opt, ArgOf(r)) THEN Msg5
            ELSE "knot vector is not non-decreasing"
     ELSE IF m < 2 * r.nord \/ t[r.nord] > FloorScaled(lo, KS) + 2 \/ t[m - r.nord + 1] < FloorScaled(hi, KS) - 2
       THEN IF r.opt = "everyn" /\ Dev_EveryNSingle(nx, r.arg) THEN Msg2
            ELSE "breakpoint range (knots nord .. m-nord+1) does not cover the data"
     ELSE IF \E k \in 1..(r.nord - 1) : t[k] > t[r.nord] \/ t[m + 1 - k] < t[m - r.nord + 1]
       THEN "extra knots not outside the breakpoint range"
     ELSE IF PinnedDown(r.data, r.opt)
       THEN LET want == Knots(r.data, r.nord, r.spread, r.opt, ArgOf(r))
            IN IF Len(want) # m THEN "number of knots differs from the documented construction"
               ELSE IF \E k \in 1..m : ~Near(t[k], want[k], KS, 2) THEN "knots differ from the documented construction"
               ELSE ""
     ELSE ""
(* form / aform: the numpy representation in which the data and the bkpt / placed array were    *)
(* handed over (the values are the same, so is the verdict, except for naming D-C08-7)          *)
KnotsVerdict(r) ==
  LET v == KnotsVerdict0(r) IN
  IF ~(r.form \in Forms /\ RepresentsAll(r.form, r.data) /\ r.aform \in Forms
       /\ (r.opt \in {"bkpt", "placed"} => RepresentsAll(r.aform, r.arg)))
    THEN "UNREPRESENTABLE: the harness used a form that cannot carry the values"
  ELSE IF v # "" /\ Dev_BreakpointArrayInPlace(r.opt, r.aform) /\ v \notin {Msg1, Msg2, Msg4, Msg5}
    THEN "D-C08-7 integer / read-only breakpoint array used in place: knots truncated, wrapped or constructor raised (Dev_BreakpointArrayInPlace)"
  ELSE v
KnotsOut(r) == IF PinnedDown(r.data, r.opt) /\ ~r.obs.err
               THEN [knots |-> Knots(r.data, r.nord, r.spread, r.opt, ArgOf(r))] ELSE [knots |-> <<>>]

(* ------------------------------ evaluations ------------------------------ *)
(* caller's index a of the r-th sorted point: r.obs.order[r] (1-based) *)
EvalOut(r) == PointsExp(r.t, r.nord, r.cs, r.xs)
PointVerdict(r, e, a) ==
  LET pe == e[a]
      x == r.xs[a]
  IN IF r.obs.mask[a] # pe.inr THEN "mask is not False exactly outside the breakpoint range"
     ELSE IF ~pe.inr THEN ""
     ELSE IF pe.cand = <<>> THEN ""
     ELSE IF \E q \in 1..Len(r.cs) : ~r.obs.vfin[q][a]
       THEN IF Dev_EmptyFirstCell(r.t, r.nord, x) THEN "D-C08-3 point on a repeated lowest breakpoint: non-finite value (Dev_EmptyFirstCell)"
            ELSE "non-finite value inside the breakpoint range"
     ELSE IF \E q \in 1..Len(r.cs) : \A k \in 1..Len(pe.cand) : ~VNear(r.obs.vals[q][a], pe.cand[k].vals[q])
       THEN IF Dev_EmptyFirstCell(r.t, r.nord, x) THEN "D-C08-3 point on a repeated lowest breakpoint: value of the empty first cell (Dev_EmptyFirstCell)"
            ELSE "value is not the B-spline of the knots and coefficients"
     ELSE ""
(* the r-th sorted point: interval index and basis row *)
SortedVerdict(r, e, s) ==
  LET a == r.obs.order[s]
      pe == e[a]
      cell == r.obs.intrv[s] + 1
      hit == {k \in 1..Len(pe.cand) : pe.cand[k].cell = cell}
      row == r.obs.rows[s]
  IN IF ~pe.inr THEN (IF \A k \in 1..Len(pe.clamp) : cell # pe.clamp[k] THEN "intrv: a point outside the range is not clamped to the first/last cell" ELSE "")
     ELSE IF pe.cand = <<>> THEN ""
     ELSE IF hit = {}
       THEN IF Dev_EmptyFirstCell(r.t, r.nord, r.xs[a]) THEN "D-C08-3 point on a repeated lowest breakpoint attributed to the empty first cell (Dev_EmptyFirstCell)"
            ELSE "intrv: not a cell containing the point"
     ELSE LET want == pe.cand[CHOOSE k \in hit : TRUE].row IN
          IF Len(row) # r.nord THEN "bsplvn: row length is not nord"
          ELSE IF \E l \in 1..r.nord : r.obs.rsign[s][l] < 0 THEN "bsplvn: negative basis value inside the range"
          ELSE IF IAbs(r.obs.rsum[s] - VS) > 1 THEN "bsplvn: basis values do not sum to one"
          ELSE IF \E l \in 1..r.nord : ~VNear(row[l], want[l]) THEN "bsplvn: not the Cox-de Boor basis values"
          ELSE ""
FirstBad(seq) == LET bad == {k \in 1..Len(seq) : seq[k] # ""} IN IF bad = {} THEN "" ELSE seq[CHOOSE k \in bad : \A l \in bad : k <= l]
EvalVerdict(r, e) ==
  IF ~(r.xform \in Forms /\ RepresentsAll(r.xform, r.xs)) THEN "UNREPRESENTABLE: the harness used a form that cannot carry the points"
  ELSE IF r.obs.err THEN (IF Dev_EmptyPoints(r.xs) THEN "D-C08-6 evaluation of an empty array of points raised (Dev_EmptyPoints)"
                          ELSE "evaluation raised an exception")
  ELSE IF Len(r.obs.mask) # Len(r.xs) THEN "result shape"
  ELSE LET pv == FirstBad([a \in 1..Len(r.xs) |-> PointVerdict(r, e, a)])
       IN IF pv # "" THEN pv
          ELSE IF r.obs.sorted THEN FirstBad([s \in 1..Len(r.xs) |-> SortedVerdict(r, e, s)]) ELSE ""

EndsVerdict(r) ==
  LET t == <<OfInt(r.lo), OfInt(r.hi)>> IN
  IF r.obs.err THEN "evaluation raised an exception"
  ELSE IF ~(r.lo < r.hi) THEN "UNREPRESENTABLE: ends record with an empty range"
  ELSE IF Len(r.obs.mask) # Len(r.xs) THEN "result shape"
  ELSE IF \E a \in 1..Len(r.xs) : r.obs.mask[a] # MaskOf(t, 1, OfInt(r.xs[a]))
    THEN "mask is not False exactly outside the breakpoint range (point within a few ulp of an end breakpoint)"
  ELSE ""

Verdict(r, o) == CASE r.kind = "knots" -> KnotsVerdict(r)
                   [] r.kind = "ends" -> EndsVerdict(r)
                   [] r.kind = "eval" -> EvalVerdict(r, o)
                   [] OTHER -> "unknown record kind"
OutOf(r) == CASE r.kind = "knots" -> KnotsOut(r)
              [] r.kind = "ends" -> <<>>
              [] r.kind = "eval" -> IF r.obs.err THEN <<>> ELSE EvalOut(r)
              [] OTHER -> <<>>

(* one pending state per record; judging is a step so that all TLC workers share the work *)
Init == i \in 1..Len(Recs) /\ out = <<>> /\ why = "PENDING" /\ ok = FALSE
Next == /\ why = "PENDING"
        /\ out' = OutOf(Recs[i])
        /\ why' = Verdict(Recs[i], out')
        /\ ok' = (why' = "")
        /\ UNCHANGED i
=============================================================================
