-------------------------- MODULE Trace_DatesMisc --------------------------
(* Code -> spec direction for X04: calls recorded from the real functions (seeded random  *)
(* and adversarial arguments) are judged by the specification's operators.  One TLC state  *)
(* per recorded call; ok = the observed outcome is a specified one; why names the first    *)
(* disagreement ("D-X04-n: ..." when a named deviation of the spec explains it exactly).   *)
EXTENDS DatesMisc, Json, IOUtils, TLC
Recs == JsonDeserialize(IOEnv.VERIF_TRACE)
VARIABLES i, ok, why

Tup(s) == [k \in 1 .. Len(s) |-> s[k]]
Tups(ss) == [k \in 1 .. Len(ss) |-> Tup(ss[k])]
Q(p) == R(p[1], p[2])
RECURSIVE Str(_)                       \* a sequence of string pieces as one string
Str(s) == IF Len(s) = 0 THEN "" ELSE s[1] \o Str(Tail(s))

(* get_juldate / current_mjd / get_juldate_main: the observed float with its tolerance, rounded outward, *)
(* must bracket the exact date; the result must be a float                                               *)
VJd(r) ==
  LET cc == [t |-> Time(r.q, Q(r.r)), ty |-> r.ty, via |-> r.via]
      e == JdExpected(cc)
  IN IF ~Fits(r.ty, cc.t) THEN "harness: the type does not hold the time exactly"
     ELSE IF r.ret.err # "" THEN "raised " \o r.ret.err
     ELSE IF r.ret.kind = "float" /\ r.ret.finite /\ Brackets(Tup(r.ret.lo), Tup(r.ret.hi), e) THEN ""
     ELSE IF /\ e.dev /\ r.ret.kind = "narrow" /\ r.ret.rtype = r.ty
             /\ (IF r.ty = "np.float16" THEN ~r.ret.finite
                 ELSE r.ret.finite /\ Brackets(Tup(r.ret.wlo), Tup(r.ret.whi), e))
          THEN "D-X04-1: the result is a " \o r.ret.rtype \o " computed in the precision of the input"
     ELSE IF r.ret.kind # "float" THEN "the result is not a float: " \o r.ret.rtype
     ELSE IF ~r.ret.finite THEN "the result is not finite"
     ELSE "value"

VMain(r) ==
  LET o == MainOutcome(Tups(r.argv))
      lines == Tup(r.ret.lines)
  IN IF o.out = "open" THEN ""
     ELSE IF o.out = "name"
     THEN (IF r.ret.status = "return" /\ r.ret.code = 0 /\ lines = <<Str(o.line), "">> THEN ""
           ELSE IF r.ret.status # "return" \/ r.ret.code # 0 THEN "specified: prints " \o Str(o.line) \o " and returns 0"
           ELSE "name: specified " \o Str(o.line))
     ELSE IF o.out = "reject"
     THEN (IF r.ret.status \in {"return", "exit"} /\ r.ret.code # 0 /\ lines = <<"">> THEN ""
           ELSE "a command line that is not [-P N] [-p STR] RA Dec must print no name and fail")
     ELSE IF r.ret.status = "exit" /\ r.ret.code = 0 /\ HelpWords \subseteq {Tup(r.ret.mentions[k]) : k \in 1 .. Len(r.ret.mentions)}
          THEN "" ELSE "help: usage with RA, Dec, -P/--precision, -p/--prefix and status 0"

VDecode(r) ==
  LET e == DecodeExpected(r.kind, Tup(r.b))
  IN IF r.ret.out = e.out /\ Tup(r.ret.cps) = e.cps /\ r.ret.unchanged THEN ""
     ELSE IF ~r.ret.unchanged THEN "the argument was modified"
     ELSE IF e.out = "same" THEN "an object without decode() must come back as the same object: " \o r.ret.out
     ELSE IF e.out = "raise" THEN "ill-formed UTF-8 must raise UnicodeDecodeError: " \o r.ret.out
     ELSE IF e.out = "token" THEN "the object's own decode() result must be returned: " \o r.ret.out
     ELSE "decoded text: " \o r.ret.out

VExc(r) ==
  LET e == ExcExpected(r.a, r.b)
  IN IF r.ret.sub # e.sub THEN (IF e.sub THEN r.a \o " must be a " \o r.b ELSE r.a \o " must not be a " \o r.b)
     ELSE IF r.ret.caught # e.sub THEN "raise " \o r.a \o " / except " \o r.b
     ELSE IF r.ret.home # e.home THEN "defined in " \o r.ret.home
     ELSE IF e.exported /\ ~r.ret.exported THEN "not exported by its package"
     ELSE ""

VCalib(r) ==
  IF r.ret.err # "" THEN "raised " \o r.ret.err
  ELSE IF ~r.ret.quantity THEN "not a scalar Quantity in deg / d"
  ELSE IF ~r.ret.close THEN "inexact"
  ELSE IF Q(r.ret.val) = CalibVIn(r.unit) THEN "" ELSE "value"

Verdict(r) == CASE r.fn = "jd" -> VJd(r)
                [] r.fn = "iaumain" -> VMain(r)
                [] r.fn = "decode" -> VDecode(r)
                [] r.fn = "exc" -> VExc(r)
                [] r.fn = "calibv" -> VCalib(r)
                [] OTHER -> "unknown function"

Init == /\ i \in 1 .. Len(Recs)
        /\ why = Verdict(Recs[i])
        /\ ok = (why = "")
Next == UNCHANGED <<i, ok, why>>
=============================================================================
