-------------------------- MODULE Trace_ReadSpec --------------------------
(* Code -> spec direction for C16.  Every record is one observed call of the real code:  *)
(*   kind "readspec": call = [p, m, f] (argument sequences; scalar = length one, omitted *)
(*       = empty), obs = [err, ret] where ret is the returned dictionary abstracted to   *)
(*       integers (image cells and table cells exactly as stored, loglam in units of     *)
(*       2^-10, -1 for anything that is not such an integer);                            *)
(*   kind "append":   s1, s2, shift and obs = [err, ret] of one spec_append call         *)
(*       (including the calls readspec itself makes).                                    *)
(* TLC judges each record with the laws and operators of ReadSpec on the tree the files  *)
(* were generated from (constant Tree, same instance as MC_ReadSpec_tree6.cfg).          *)
EXTENDS ReadSpec, Json, IOUtils, TLC
Recs == JsonDeserialize(IOEnv.VERIF_TRACE)
VARIABLES i, ok, why

CallOf(r) == [p |-> r.call.p, m |-> r.call.m, f |-> r.call.f]
ShapeOK(req, d) ==
  LET n == Len(req)  w == Width(req) IN
  /\ \A h \in Images : Rect(d[h], n, w)
  /\ Rect(d.loglam, n, w)
  /\ \A c \in DOMAIN d.plugmap : Len(d.plugmap[c]) = n
  /\ \A c \in DOMAIN d.zans : Len(d.zans[c]) = n
  /\ DOMAIN d.plugmap = DOMAIN PlugRow(1, 1) /\ DOMAIN d.zans = DOMAIN ZansRow(1, 1)
  /\ HasPhoto => (DOMAIN d.tsobj = DOMAIN TsobjRow(1, 1) /\ \A c \in DOMAIN d.tsobj : Len(d.tsobj[c]) = n)
Without(d, S) == [k \in (DOMAIN d) \ S |-> d[k]]

JudgeRead(r) ==
  LET c == CallOf(r)
      req == Requests(c)
      d == r.obs.ret
      S == Specified(req)
  IN IF ~ValidCall(c) THEN "harness: invalid call"
     ELSE IF ~RequestOK(req) THEN "harness: request outside the tree"
     ELSE IF r.obs.err # "" THEN "raised"
     ELSE IF ~ShapeOK(req, d) THEN "shape"
     ELSE IF ~RowIdentity(req, d) THEN "RowIdentity"
     ELSE IF ~NoShift(req, d) THEN "NoShift"
     ELSE IF ~ZeroPadRight(req, d) THEN "ZeroPadRight"
     ELSE IF ~LoglamAffine(req, d) THEN "LoglamAffine"
     ELSE IF d.loglam \notin {S.loglam, S.loglam_ext} THEN "loglam beyond the last pixel neither 0 nor affine"
     ELSE IF ~TablesFollow(req, d) THEN "TablesFollow"
     ELSE IF Without(d, {"loglam"}) # Without(S, {"loglam", "loglam_ext"}) THEN "differs from Specified"
     ELSE IF Len(req) <= 8 /\ Run(req) # S THEN "harness: Run differs from Specified"
     ELSE ""

JudgeAppend(r) ==
  LET d == r.obs.ret IN
  IF r.obs.err # "" THEN "raised"
  ELSE IF ~AppendShape(r.s1, r.s2, r.shift, d) THEN "AppendShape"
  ELSE IF ~AppendNoOverlap(r.s1, r.s2, r.shift, d) THEN "AppendNoOverlap"
  ELSE IF ~AppendNothingLost(r.s1, r.s2, r.shift, d) THEN "AppendNothingLost"
  ELSE IF ~AppendPadsZero(r.s1, r.s2, r.shift, d) THEN "AppendPadsZero"
  ELSE IF d # SpecAppend(r.s1, r.s2, r.shift) THEN "differs from SpecAppend"
  ELSE ""

Judge(r) == IF r.kind = "append" THEN JudgeAppend(r) ELSE JudgeRead(r)
ASSUME TreeWellFormed /\ LayoutWellFormed /\ OrderRelationsCovered /\ SolutionRelationsRich
Init == /\ i \in 1..Len(Recs)
        /\ why = Judge(Recs[i])
        /\ ok = (why = "")
Next == UNCHANGED <<i, ok, why>>
=============================================================================
