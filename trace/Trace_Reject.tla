--------------------------- MODULE Trace_Reject ---------------------------
(* Code -> spec direction for C17: calls recorded from the real djs_reject,              *)
(* djs_maskinterp(1), aesthetics, djs_median(boundary="reflect") and skymask (seeded      *)
(* random and adversarial arguments) are judged by the operators of module Reject.        *)
(* One TLC state per recorded call; why = "" iff the observed outcome is a specified one. *)
(* Numbers are rationals [num, den] (exact images of the binary floats that were passed   *)
(* and returned), masks are lists of 1-based positions, absent options are [].            *)
EXTENDS Reject, Json, IOUtils, SequencesExt, TLC
Recs == JsonDeserialize(IOEnv.VERIF_TRACE)
VARIABLES i, ok, why

(* ---- djs_reject: scale holds sigma (mode "sigma") or sqrt(invvar) (mode "weight") ---- *)
RejCall(r) ==
  [n |-> r.n,
   diff |-> [k \in 1..r.n |-> Sub(r.data[k], r.model[k])],
   mode |-> r.mode, scale |-> r.scale,
   lower |-> r.lower, upper |-> r.upper, maxdev |-> r.maxdev,
   inmask |-> ToSet(r.inmask), prev |-> ToSet(r.prev), sticky |-> r.sticky, grow |-> r.grow]
RejVerdict(r) ==
  LET c == RejCall(r)
      out == ToSet(r.out)
  IN IF c.grow > 0 /\ out = Dev_GrowIgnored(c) /\ ~RejectMaskOK(c, out) THEN "reject: D-C17-1 grow ignored (Dev_GrowIgnored)"
     ELSE IF ~(out \subseteq GoodMax(c)) THEN "reject: a point that must be rejected was kept"
     ELSE IF ~(GoodMin(c) \subseteq out) THEN "reject: a point was rejected that no reading rejects"
     ELSE IF ~RejectDoneOK(c, out, r.qdone) THEN "reject: completion flag differs from (mask unchanged)"
     ELSE ""

(* ---- djs_maskinterp / djs_maskinterp1 ---- *)
InterpVerdict(r) ==
  LET want == MaskInterpND(r.shape, r.y, ToSet(r.bad), r.x, r.axis)
      n == Prod(r.shape)
  IN IF Len(r.out) # n THEN "maskinterp: shape"
     ELSE IF \E p \in 1..n : p \notin ToSet(r.bad) /\ r.out[p] # r.y[p] THEN "maskinterp: unmasked sample changed"
     ELSE IF \E p \in 1..n : ~Eq(r.out[p], want[p]) THEN "maskinterp: masked sample is not the specified interpolation"
     ELSE ""

(* r.fillopen: integer-typed flux with method "mean" - the result keeps the flux type, so the fill value is not the   *)
(* exact mean; the statement fixes only WHERE flux changes, which is still judged                                      *)
AesVerdict(r) ==
  IF Len(r.out) # Len(r.flux) THEN "aesthetics: shape"
  ELSE IF \E p \in Idx(r.flux) : r.ivar[p] # 0 /\ r.out[p] # r.flux[p] THEN "aesthetics: flux changed where invvar is nonzero"
  ELSE IF ~r.fillopen /\ ~AesOK(r.flux, r.ivar, r.method, r.out) THEN "aesthetics: fill value"
  ELSE ""

MedVerdict(r) == IF r.out = ReflectMedian(r.a, r.w) THEN "" ELSE "median: not the reflecting running median"
Med2Verdict(r) == IF r.out = ReflectMedian2(r.A, r.w) THEN "" ELSE "median2: not the reflecting median filter"

SkyVerdict(r) ==
  LET flags == [q \in Idx(r.flags) |-> [p \in Idx(r.flags[q]) |-> ToSet(r.flags[q][p])]]
  IN IF r.out = SkyMask(r.ivar, flags, r.ngrow, r.tbl) THEN ""
     ELSE "skymask: inverse variance not zeroed exactly on the dilated flagged pixels"

(* ---- the same call in two memory layouts (section 6): r.a, r.b = abstracted outcomes ---- *)
LayoutVerdict(r) ==
  IF r.a.err \/ r.b.err THEN "layout: raised an exception in one of the two layouts"
  ELSE IF ~LayoutIndependent(r.a, r.b) THEN "layout: outcome depends on the memory layout of the arguments"
  ELSE ""
(* ---- djs_reject on rank >= 2 data, all points eligible, no previous mask: grow = 0 in the   *)
(* plain layout (r.rej0), grow = r.grow in two layouts (r.a, r.b: rejected positions, qdone)   *)
RejNDVerdict(r) ==
  IF r.a.err \/ r.b.err THEN "reject N-d: raised an exception"
  ELSE IF ~LayoutIndependent(r.a, r.b) THEN "reject N-d: mask / completion depend on the memory layout of data"
  ELSE IF ~GrowSupersetOK(r.shape, r.grow, ToSet(r.rej0), ToSet(r.a.out))
       THEN "reject N-d: grow does not reject a (strict) superset of what grow = 0 rejects"
  ELSE IF r.a.qdone # (r.a.out = <<>>) THEN "reject N-d: completion flag differs from (mask unchanged)"
  ELSE ""

Verdict(r) ==
  IF r.kind = "layout" THEN LayoutVerdict(r)
  ELSE IF r.kind = "rejnd" THEN RejNDVerdict(r)
  ELSE IF r.err THEN "raised an exception"
  ELSE IF ~r.exact THEN "result not representable (non-finite or not a small rational)"
  ELSE CASE r.kind = "reject" -> RejVerdict(r)
         [] r.kind = "interp" -> InterpVerdict(r)
         [] r.kind = "aesth" -> AesVerdict(r)
         [] r.kind = "median" -> MedVerdict(r)
         [] r.kind = "median2" -> Med2Verdict(r)
         [] r.kind = "sky" -> SkyVerdict(r)
         [] OTHER -> "unknown record kind"

Init == /\ i \in 1..Len(Recs)
        /\ why = Verdict(Recs[i])
        /\ ok = (why = "")
Next == UNCHANGED <<i, ok, why>>
=============================================================================
