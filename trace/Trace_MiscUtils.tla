-------------------------- MODULE Trace_MiscUtils --------------------------
(* Code -> spec direction for X02: calls recorded from the real functions (seeded random  *)
(* and adversarial arguments) are judged by the specification's operators.  One TLC state  *)
(* per recorded call; ok = the observed outcome is a specified one; why names the first    *)
(* disagreement ("D-X02-n: ..." when a named deviation of the spec explains it exactly).   *)
EXTENDS MiscUtils, Json, IOUtils, TLC
Recs == JsonDeserialize(IOEnv.VERIF_TRACE)
VARIABLES i, ok, why

Tup(s) == [k \in 1 .. Len(s) |-> s[k]]
Q(p) == R(p[1], p[2])
Rats(s) == [k \in 1 .. Len(s) |-> Q(s[k])]
RECURSIVE Str(_)                       \* a sequence of string pieces as one string
Str(s) == IF Len(s) = 0 THEN "" ELSE s[1] \o Str(Tail(s))
Strs(ls) == [k \in 1 .. Len(ls) |-> Str(ls[k])]

VContig(r) ==
  LET e == ContigExpected(Tup(r.x))
  IN IF e.open THEN ""
     ELSE IF r.ret.err THEN "raised " \o r.ret.exc
     ELSE IF Tup(r.ret.val) \in e.val THEN "" ELSE "not a longest run of non-zero elements"

VCir(r) ==
  LET cc == [kind |-> r.kind, x |-> Q(r.x), sign |-> r.sign, k |-> r.k]
      e == CirExpected(cc)
      P == IF r.kind = "deg" THEN Deg360 ELSE One
  IN IF ~r.ret.inrange
     THEN (IF Dev_CirTinyNegativeGivesPeriod(cc) /\ r.ret.isperiod THEN "D-X02-2: result is the period itself" ELSE "result outside [0, period)")
     ELSE IF ~r.ret.close THEN "inexact"
     ELSE IF e.cmp = "exact" THEN (IF Q(r.ret.val) = e.val THEN "" ELSE "value")
     ELSE IF Wrap(Q(r.ret.val), One) = Wrap(e.val, One) THEN "" ELSE "value (on the circle)"

VIau(r) ==
  LET ra == Q(r.ra)
      dec == Q(r.dec)
      pre == Tup(r.prefix)
  IN IF ~IauDefined(ra, dec, r.p) THEN "undefined"
     ELSE IF r.ret = Str(IauName(ra, dec, pre, r.p)) THEN ""
     ELSE IF r.ret = Str(Dev_IauRaCellBelow(ra, dec, pre, r.p)) /\ r.ret # "" THEN "D-X02-3: right ascension cell below: specified " \o Str(IauName(ra, dec, pre, r.p))
     ELSE "name: specified " \o Str(IauName(ra, dec, pre, r.p))

VLaxis(r) ==
  LET dims == Tup(r.dims)
      e == LaxisExpected(r.fn, dims, r.iaxis)
      dv == Dev_Laxis1DAxisUnchecked(r.fn, dims, r.iaxis)
      got == IF r.ret.err THEN LaxisErr
             ELSE [out |-> "val", shape |-> Tup(r.ret.shape), dtype |-> r.ret.dtype, val |-> Tup(r.ret.val)]
  IN IF e.out = "open" THEN ""
     ELSE IF r.ret.err /\ r.ret.exc # "ValueError" THEN "wrong exception " \o r.ret.exc
     ELSE IF got = e THEN ""
     ELSE IF got = dv THEN "D-X02-1: rank 1, iaxis >= 1 accepted"
     ELSE IF e.out = "err" THEN "accepted a call that must raise ValueError"
     ELSE IF r.ret.err THEN "raised"
     ELSE IF got.shape # e.shape THEN "shape" ELSE IF got.dtype # e.dtype THEN "dtype" ELSE "value"

ColOf(x) == [name |-> Tup(x.name), kind |-> x.kind, slen |-> x.slen, alias |-> Tup(x.alias),
             vals |-> IF x.kind = "s" THEN [k \in 1 .. Len(x.vals) |-> Tup(x.vals[k])] ELSE Tup(x.vals)]
VPrint(r) ==
  LET cols == [j \in 1 .. Len(r.cols) |-> ColOf(r.cols[j])]
      e == PrintExpected(cols, r.html, r.nohead)
      dv == Dev_HtmlHeadAlways(cols, r.html, r.nohead)
      got == Tup(r.ret.lines)
  IN IF r.ret.err THEN "raised " \o r.ret.exc
     ELSE IF got = Strs(e.lines) /\ r.ret.css = e.css THEN (IF r.ret.file = Str(FileOf(e.lines)) \/ ~r.ret.hasfile THEN "" ELSE "file content")
     ELSE IF got = Strs(dv.lines) /\ r.ret.css = dv.css THEN "D-X02-4: html header row printed although no_head"
     ELSE IF r.ret.css # e.css THEN "css"
     ELSE IF Len(got) # Len(e.lines) THEN "number of lines"
     ELSE LET k == CHOOSE j \in 1 .. Len(got) : got[j] # Str(e.lines[j]) /\ \A m \in 1 .. (j - 1) : got[m] = Str(e.lines[m])
          IN "line " \o ToString(k - 1) \o ": specified '" \o Str(e.lines[k]) \o "'"

VLines(r) ==
  LET texts == [k \in 1 .. Len(r.texts) |-> Tup(r.texts[k])]
  IN IF r.ret.err THEN "raised " \o r.ret.exc
     ELSE IF Tup(r.ret.val) = [k \in 1 .. Len(texts) |-> LineCount(texts[k])] /\ r.ret.islist = ~r.scalar THEN "" ELSE "count"

VMedian(r) ==
  LET e == MedianExpected(r.mode, Tup(r.a), Tup(r.shape), r.d)
  IN IF e.out = "open" THEN ""
     ELSE IF e.out = "err" THEN (IF r.ret.err /\ r.ret.exc = "ValueError" THEN "" ELSE "must raise ValueError")
     ELSE IF r.ret.err THEN "raised " \o r.ret.exc
     ELSE IF Tup(r.ret.shape) # e.shape THEN "shape"
     ELSE IF ~r.ret.close THEN "inexact"
     ELSE IF Rats(r.ret.val) = e.val THEN "" ELSE "value"

(* read_ds_cooling: grid scaled by 1000, vals by 100 (the table as the harness reads it from the packaged file), *)
(* q scaled by 1000; ret.val the returned log lambda times 100 as an exact rational                              *)
VCool(r) ==
  IF r.kind = "name" THEN (IF CoolingAccepts(r.name) = ~r.ret.err /\ (r.ret.err => r.ret.exc = "ValueError") THEN ""
                           ELSE IF r.ret.err THEN "raised " \o r.ret.exc ELSE "accepted an undocumented name")
  ELSE IF r.ret.err THEN "raised " \o r.ret.exc
  ELSE IF r.kind = "table" THEN (IF Tup(r.ret.grid) = Tup(r.grid) /\ Tup(r.ret.vals) = Tup(r.vals) THEN "" ELSE "table")
  ELSE IF ~InterpDefined(Tup(r.grid), r.q) THEN ""
  ELSE IF ~r.ret.close THEN "inexact"
  ELSE IF Q(r.ret.val) = Interp(Tup(r.grid), Tup(r.vals), r.q) /\ r.ret.q = r.q THEN "" ELSE "interpolated value"

Verdict(r) == CASE r.fn = "contig" -> VContig(r)
                [] r.fn = "cir" -> VCir(r)
                [] r.fn = "iau" -> VIau(r)
                [] r.fn \in {"laxisgen", "laxisnum"} -> VLaxis(r)
                [] r.fn = "print" -> VPrint(r)
                [] r.fn = "lines" -> VLines(r)
                [] r.fn = "median" -> VMedian(r)
                [] r.fn = "cool" -> VCool(r)
                [] OTHER -> "unknown function"

Init == /\ i \in 1 .. Len(Recs)
        /\ why = Verdict(Recs[i])
        /\ ok = (why = "")
Next == UNCHANGED <<i, ok, why>>
=============================================================================
