------------------------- MODULE Trace_YannyParts -------------------------
(* Code -> spec direction for X08: calls of the real helpers and accessors of pydl's yanny   *)
(* class (seeded random / adversarial arguments, longer and over a wider alphabet than the    *)
(* exhaustive families) are recorded by the harness as [fn, arguments, abstracted result] and *)
(* judged here with the operators of YannyParts.  One TLC state per record: ok = the observed *)
(* outcome is one the specification admits; why names the first failing part, prefixed with   *)
(* the id of the named deviation that explains it when there is one.                           *)
EXTENDS YannyParts, Json, IOUtils
Recs == JsonDeserialize(IOEnv.VERIF_TRACE)
VARIABLES i, ok, why

(* ---- helpers ---- *)
TokWhy(r) ==
  LET g == GetToken(r.s) IN
  IF g.open THEN ""
  ELSE IF r.exc # "" THEN "get_token raised"
  ELSE IF r.word \notin g.words THEN "get_token word"
  ELSE IF r.rem \notin g.rems THEN "get_token remainder" ELSE ""
ProtWhy(r) == IF r.exc # "" THEN "protect raised"
              ELSE IF r.kind \notin ProtectKinds THEN "protect kind"
              ELSE IF r.val # ProtectOf(r.s, r.kind) THEN "protect value" ELSE ""
TcWhy(r) == IF r.exc # "" THEN "trailing_comment raised"
            ELSE IF r.val \notin TrailingComment(r.s).vals THEN "trailing_comment value" ELSE ""
DtsObsOf(e) == [err |-> e.err, key |-> e.key, names |-> e.names, struct |-> e.struct]
DtsWhy(r) ==
  IF DtsAccepts(r.c, r.o) THEN ""
  ELSE LET d == Dev_UnicodeBytes(r.c) IN
       IF ~d.err /\ ~r.o.err /\ DtsObsOf(d) = [err |-> r.o.err, key |-> r.o.key, names |-> r.o.names, struct |-> r.o.struct]
          /\ d.enumreq \subseteq ToSet(r.o.enums) /\ ToSet(r.o.enums) \subseteq d.enumall
       THEN "dtype_to_struct result (what the fixed D-X08-1 did: a unicode column declared with its size in bytes)"
       ELSE "dtype_to_struct result"

(* ---- accessors: the observation has the shape of Accessors(text); open parts are not judged ---- *)
ClenOK(e, o) == e.k = "open" \/ (o.k = e.k /\ o.n = e.n)
(* (numpy has no zero-width string field: a char[] column holding only empty strings may show width 1) *)
DtOK(e, o) == /\ o.kind = e.kind /\ o.shape = e.shape
              /\ (IF e.wmin THEN o.w >= e.w ELSE IF e.kind = "S" /\ e.w = 0 THEN o.w \in {0, 1} ELSE o.w = e.w)
B(b) == IF b THEN "T" ELSE "F"          \* booleans are recorded as "T" / "F" (a failed call as a marker text)
(* every differing part, as the set of accessor names (the first one, by the order below, is reported) *)
ColWhys(e, o) ==
  IF o.name # e.name THEN {"columns"}
  ELSE (IF o.type # e.type THEN {"type"} ELSE {}) \cup (IF o.base # e.base THEN {"basetype"} ELSE {})
       \cup (IF o.isarray # B(e.isarray) THEN {"isarray"} ELSE {}) \cup (IF o.isenum # B(e.isenum) THEN {"isenum"} ELSE {})
       \cup (IF o.alen # e.alen THEN {"array_length"} ELSE {}) \cup (IF ~ClenOK(e.clen, o.clen) THEN {"char_length"} ELSE {})
TabWhys(e, o) ==
  IF o.name # e.name THEN {"tables"}
  ELSE IF o.columns # e.columns \/ Len(o.cols) # Len(e.cols) THEN {"columns"}
  ELSE (IF o.size # e.size THEN {"size"} ELSE {})
       \cup UNION {ColWhys(e.cols[ci], o.cols[ci]) : ci \in 1..Len(e.cols)}
       \cup (IF (\A ci \in 1..Len(e.cols) : ~e.cols[ci].dt.open) /\ \E ci \in 1..Len(e.cols) : ~DtOK(e.cols[ci].dt, o.cols[ci].dt)
             THEN {"dtype"} ELSE {})
CannotRead == "object could not be read or inspected"
AccWhys(e, o) ==
  IF o.fail # "" THEN {CannotRead}
  ELSE IF o.tables # e.tables \/ Len(o.tabs) # Len(e.tabs) THEN {"tables"}
  ELSE (IF o.pairs # e.pairs THEN {"pairs"} ELSE {}) \cup (IF o.undef # e.undef THEN {"type of an undefined name"} ELSE {})
       \cup UNION {TabWhys(e.tabs[ti], o.tabs[ti]) : ti \in 1..Len(e.tabs)}
WhyOrder == <<CannotRead, "tables", "pairs", "type of an undefined name", "columns", "size", "type", "basetype", "isarray", "isenum",
              "array_length", "char_length", "dtype">>
FirstWhy(W) == WhyOrder[CHOOSE k \in 1..Len(WhyOrder) : WhyOrder[k] \in W /\ \A j \in 1..(k - 1) : WhyOrder[j] \notin W]
(* What each named deviation produces.  The verdict names the deviation present in the text that accounts for EVERY      *)
(* differing part; whether that excuses the record is decided by the harness from known_findings.json (only status        *)
(* "known", today D-X08-3; D-X08-4 / -5 are fixed and only label a regression; D-X08-1 / -2 are never named here).        *)
ExplBrace == {"tables", CannotRead}                                                   \* D-X08-3: the structure is lost
ExplCharName == {"isarray", "array_length", "char_length", "dtype", CannotRead}       \* D-X08-4
ExplEmptyAuto == {"dtype", CannotRead}                                                \* D-X08-5
AccWhy(r) ==
  LET e == Accessors(r.text)
      W == AccWhys(e, r.o)
  IN IF W = {} THEN ""
     ELSE LET w == FirstWhy(W) IN
          IF e.notes.brace /\ W \subseteq ExplBrace THEN "D-X08-3: " \o w
          ELSE IF e.notes.charname /\ W \subseteq ExplCharName THEN "D-X08-4: " \o w
          ELSE IF e.notes.emptyauto /\ W \subseteq ExplEmptyAuto THEN "D-X08-5: " \o w
          ELSE IF e.notes.brace /\ e.notes.charname /\ W \subseteq (ExplBrace \cup ExplCharName) THEN "D-X08-3: (with D-X08-4) " \o w
          ELSE w

ConvOneOK(e, o) ==
  e.k = "open" \/ (o.k = e.k /\ (e.k = "int" => o.i = e.i) /\ (e.k = "rat" => o.q = e.q) /\ (e.k = "str" => o.s = e.s))
ConvWhy(r) ==
  LET e == Convert(r.base, r.isarray, r.value) IN
  IF \A k \in 1..Len(e) : e[k].k = "open" THEN ""
  ELSE IF Len(r.o) # Len(e) THEN "convert length"
  ELSE IF \E k \in 1..Len(e) : ~ConvOneOK(e[k], r.o[k]) THEN "convert value" ELSE ""

Why(r) == CASE r.fn = "get_token" -> TokWhy(r)
            [] r.fn = "protect" -> ProtWhy(r)
            [] r.fn = "trailing_comment" -> TcWhy(r)
            [] r.fn = "dtype_to_struct" -> DtsWhy(r)
            [] r.fn = "acc" -> AccWhy(r)
            [] r.fn = "convert" -> ConvWhy(r)

Init == /\ i \in 1..Len(Recs)
        /\ why = Why(Recs[i])
        /\ ok = (why = "")
Next == UNCHANGED <<i, ok, why>>
=============================================================================
