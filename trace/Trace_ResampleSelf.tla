------------------------ MODULE Trace_ResampleSelf ------------------------
(* Binding self-test for C11: accepted records of Trace_Resample with ONE observed field falsified *)
(* beyond tolerance; every one of them must be rejected by the same verdict operators.  One state  *)
(* per record (the protocol of core.validate_records): INIT InitJudged, NEXT Stutter.               *)
EXTENDS Trace_Resample
=============================================================================
