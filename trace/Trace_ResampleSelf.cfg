INIT InitJudged
NEXT Stutter
CHECK_DEADLOCK FALSE
