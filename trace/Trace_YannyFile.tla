--------------------------- MODULE Trace_YannyFile ---------------------------
(* Code -> spec for C03: histories recorded from real yanny objects and real files are replayed   *)
(* through YannyFile's actions.  Every recorded event carries the call, its outcome, the projected  *)
(* object and the projected files after the call; a trace is accepted iff every event is explained  *)
(* by one action whose post-state equals the recorded one (l reaches Len + 1).                      *)
EXTENDS YannyFile, Json, IOUtils, TLC
Traces == JsonDeserialize(IOEnv.VERIF_TRACE)
VARIABLES tid, l
TablesDef == <<"TA", "TB">>
tvars == <<fs, obj, model, last, tid, l>>

T == Traces[tid]
Ev == T.events[l]
AsFs(x) == [f \in Files |-> x[f]]
AsRows(x) == [t \in TableSet |-> x[t]]
AsObj(o) == [fname |-> o.fname, rows |-> AsRows(o.rows), pairs |-> o.pairs]
AsCells(x) == [t \in TableSet |-> x[t]]      \* per table, per row, per column: [kind, arr, v] as abstracted from the real values
(* the recorded cells of an object are those the table set of the trace gives to its rows *)
CellsAgree(o, rows) == AsCells(o.cells) = TableCells(T.tset, rows)

TraceInit ==
  /\ tid \in 1..Len(Traces)
  /\ l = 1
  /\ T.tset \in TableSetNames
  /\ CellsAgree(T.init.obj, AsRows(T.init.obj.rows))
  /\ fs = AsFs(T.init.fs)
  /\ obj = AsObj(T.init.obj)
  /\ model = [rows |-> AsRows(T.init.obj.rows), pairs |-> T.init.obj.pairs]
  /\ last = [op |-> "init", out |-> "init"]

(* the action explains the event: same outcome, and the recorded object and files are its post-state; *)
(* whenever a file existed before and after the call its old bytes are a prefix of the new bytes      *)
Match(A) == /\ A
            /\ last'.out = Ev.out
            /\ fs' = AsFs(Ev.fs)
            /\ obj' = AsObj(Ev.obj)
            /\ CellsAgree(Ev.obj, obj'.rows)
            /\ Ev.bytes_prefix
P == Ev.pairs
R == AsRows(Ev.rows)
TraceNext ==
  /\ l <= Len(T.events)
  /\ l' = l + 1 /\ UNCHANGED tid
  /\ \/ Ev.op = "write" /\ Ev.f \in Files /\ (Match(WriteNew(Ev.f)) \/ Match(WriteOverExisting(Ev.f)))
     \/ Ev.op = "write" /\ Ev.f = NoFile /\ Match(WriteNoName)
     \/ Ev.op = "append" /\ (Match(AppendOK(P, R)) \/ Match(AppendEmpty(P, R)) \/ Match(AppendToMissing(P, R)) \/ Match(AppendUnbound(P, R)))
     \/ Ev.op = "delete" /\ Match(ExternalDelete(Ev.f))
     \/ Ev.op = "reread" /\ Match(ReRead)
                         /\ [rows |-> AsRows(Ev.reread.rows), pairs |-> Ev.reread.pairs] = Content(fs[obj.fname].lines)
                         /\ LET fr == FreshRead(T.tset, fs, obj)
                            IN fr.readable /\ AsRows(Ev.reread.rows) = fr.rows /\ Ev.reread.pairs = fr.pairs /\ AsCells(Ev.reread.cells) = fr.cells
TraceSpec == TraceInit /\ [][TraceNext]_tvars

TPrefixPreserved == [][\A f \in Files : (fs[f].exists /\ fs'[f].exists) => IsPrefix(fs[f].lines, fs'[f].lines)]_tvars
TRefusalsChangeNothing == [][last'.out \in {"raise", "warn"} => UNCHANGED <<fs, obj, model>>]_tvars
=============================================================================
