------------------------ MODULE Trace_SphereMatch ------------------------
(* Code -> spec direction for C04.  Every recorded call of the real spherematch is one  *)
(* trace (JSON object):                                                                 *)
(*   n1, n2, k          list sizes and maxmatch                                         *)
(*   near, border       pairs [i, j] (1-based) from the independent oracle              *)
(*   rk                 {"i": {"j": rank}} for every pair of near and border            *)
(*   order              the pairs of near and border in non-decreasing rank (only used  *)
(*                      to find the next tie group quickly; checked below)              *)
(*   ret                the returned (match1, match2) sequence as pairs [i, j]          *)
(*   exc                TRUE iff the call raised (ret = [])                             *)
(*   dok                every returned distance is the oracle separation of its pair    *)
(*   dsorted            the returned distance array is non-decreasing                   *)
(*   coords, scalars    numeric forms of ra1/dec1/ra2/dec2 and of matchlength/chunksize/ *)
(*                      maxmatch in this call (SphereMatch!CoordForms, ScalarForms); the *)
(*                      verdict does not depend on them                                  *)
(*   thin               (deviation runs only) near pairs the harness measured as lying  *)
(*                      beyond margin/cosDecMin in RA of the looked-up cell             *)
(* k = 0: judged in the initial state by Unlimited.  k > 0: a behaviour of the greedy   *)
(* machine of SphereMatch must produce ret; pos is the next returned pair to explain.   *)
(* The machine's own nondeterminism (order inside a tie, guard-band pairs skipped) is   *)
(* resolved without loss: a pair that must be rejected stays rejected later, so pending *)
(* rejections are taken first; the only pair that may be accepted next is ret[pos];     *)
(* guard-band pairs that are neither are skipped.  A trace is accepted iff a state with *)
(* pos = Len(ret) + 1 and Done is reached (the harness reads the lines printed below).  *)
EXTENDS SphereMatch, Json, IOUtils, SequencesExt, TLC
Traces == JsonDeserialize(IOEnv.VERIF_TRACE)
UseDev == "VERIF_DEV" \in DOMAIN IOEnv /\ IOEnv.VERIF_DEV = "D-C04-2"
VARIABLES tid, pos

T == Traces[tid]
PairOf(x) == <<x[1], x[2]>>
PairSet(xs) == {PairOf(xs[a]) : a \in DOMAIN xs}
PairSeq(xs) == [a \in DOMAIN xs |-> PairOf(xs[a])]
ProbOf(t) ==
  [n1 |-> t.n1, n2 |-> t.n2, k |-> t.k, near |-> PairSet(t.near), border |-> PairSet(t.border),
   rank |-> [p \in PairSet(t.near) \cup PairSet(t.border) |-> t.rk[ToString(p[1])][ToString(p[2])]]]
OrderOK(t, P) == /\ PairSet(t.order) = Cands(P) /\ Len(t.order) = Cardinality(Cands(P))
                 /\ Sorted(P, PairSeq(t.order))
FlagsOK(t) == ~t.exc /\ t.dok /\ t.dsorted

Verdict0(t, P) ==
  IF t.exc THEN "raised an exception"
  ELSE IF ~t.dok THEN "a returned distance is not the separation of its pair"
  ELSE IF ~t.dsorted THEN "returned distances decrease"
  ELSE IF UseDev THEN (IF Dev_ThinRaMargin(P, PairSet(t.thin), PairSeq(t.ret)) THEN "" ELSE "not explained by the deviation")
  ELSE IF P.k = 0 THEN WhyNotUnlimited(P, PairSeq(t.ret))
  ELSE IF GreedyResult(P, PairSeq(t.ret)) THEN "" ELSE "not a greedy selection"

(* pos = 0: rejected in the initial state; k = 0 (or a deviation run): the verdict is    *)
(* complete in the initial state; k > 0: the machine has to reproduce ret               *)
Init == \E i \in 1..Len(Traces) :
          LET t == Traces[i]  P == ProbOf(t)  v == Verdict0(t, P) IN
          /\ tid = i
          /\ Assert(ProblemOK(P) /\ OrderOK(t, P) /\ CallOK(t), <<"malformed trace", i>>)
          /\ InitWith(P)
          /\ pos = IF ~FlagsOK(t) THEN 0
                   ELSE IF P.k = 0 \/ UseDev THEN (IF v = "" THEN Len(t.ret) + 1 ELSE 0)
                   ELSE 1
          /\ PrintT(<<"C04INIT", i, pos, v>>)

MinOf(S) == CHOOSE a \in S : \A b \in S : a <= b
At(a) == PairOf(T.order[a])
Unseen == {a \in 1..Len(T.order) : At(a) \notin seen}
Grp == LET a0 == MinOf(Unseen) IN {a \in Unseen : prob.rank[At(a)] = prob.rank[At(a0)]}
Pending == {a \in Grp : ~Accepts(At(a))}
HasRet == pos <= Len(T.ret)
RetInGrp == HasRet /\ \E a \in Grp : At(a) = PairOf(T.ret[pos])

TReject == /\ Pending # {}
           /\ Consider(At(MinOf(Pending)))
           /\ pos' = pos
TAccept == /\ Pending = {} /\ RetInGrp
           /\ Consider(PairOf(T.ret[pos]))
           /\ pos' = pos + 1
TSkip == /\ Pending = {} /\ ~RetInGrp
         /\ \E a \in Grp : /\ At(a) \in prob.border
                           /\ a = MinOf({b \in Grp : At(b) \in prob.border})
                           /\ SkipBorder(At(a))
         /\ pos' = pos

Next == /\ pos >= 1 /\ prob.k > 0 /\ ~UseDev /\ Unseen # {}
        /\ UNCHANGED tid
        /\ TReject \/ TAccept \/ TSkip
        /\ PrintT(<<"C04POS", tid, pos', Done'>>)
=============================================================================
