-------------------------- MODULE Trace_Maskbits --------------------------
(* Code -> spec direction for C07: histories recorded from the real functions            *)
(* (set_maskbits into the module cache, sdss_flagval, sdss_flagname, sdss_flagexist) are *)
(* validated event by event against the Maskbits machine.  Every trace is an initial     *)
(* state (tid); an event is consumed only if the machine's action for that call is       *)
(* enabled and produces exactly the logged outcome (and the logged cache, where the      *)
(* harness logged it).  A trace is accepted iff the state k = Len(trace) + 1 is reached; *)
(* the harness reads the furthest k per tid from the state dump.                         *)
(*                                                                                       *)
(* Event (JSON object): op, file {rows [[g, l, bit]..], alias [[a, g]..], afirst},        *)
(* g, ls, v (bit positions), fe, we, ret {err, val, names, l, f, which}, optional cache   *)
(* [[g, l, bit]..] = the real cache after the call.  Names are arrays of one-character    *)
(* strings.                                                                               *)
EXTENDS Maskbits, Json, IOUtils, TLC
Traces == JsonDeserialize(IOEnv.VERIF_TRACE)
VARIABLES tid, k

tvars == <<cache, ret, tid, k>>
Ev == Traces[tid][k]

FileOf(e) == [rows |-> e.file.rows, alias |-> e.file.alias, afirst |-> e.file.afirst]
CallOf(e) == [op |-> e.op, file |-> FileOf(e), g |-> e.g, ls |-> e.ls, v |-> ToSet(e.v), fe |-> e.fe, we |-> e.we,
              form |-> ""]
Observed(e) == [err |-> e.ret.err, val |-> ToSet(e.ret.val), names |-> e.ret.names, l |-> e.ret.l, f |-> e.ret.f,
                which |-> e.ret.which]
CacheSeen(e) == ("cache" \in DOMAIN e) => cache'.m = ToSet(e.cache)
Consume == k' = k + 1 /\ tid' = tid

TLoad == /\ Ev.op = "load"
         /\ Load(FileOf(Ev))
         /\ ret' = Observed(Ev)
         /\ CacheSeen(Ev)
         /\ Consume
TFlagval == /\ Ev.op = "flagval"
            /\ Flagval(Ev.g, Ev.ls)
            /\ ret' = Observed(Ev)
            /\ CacheSeen(Ev)
            /\ Consume
TFlagname == /\ Ev.op = "flagname"
             /\ Flagname(Ev.g, ToSet(Ev.v))
             /\ ret' = Observed(Ev)
             /\ CacheSeen(Ev)
             /\ Consume
TFlagexist == /\ Ev.op = "flagexist"
              /\ Flagexist(Ev.g, Ev.ls, Ev.fe, Ev.we)
              /\ ret' = Observed(Ev)
              /\ CacheSeen(Ev)
              /\ Consume
(* a query the statement says nothing about: any outcome, but the cache must not move *)
TUnspecified == /\ IsQuery(CallOf(Ev))
                /\ cache.loaded
                /\ ~Specified(cache.m, CallOf(Ev))
                /\ ret' = Observed(Ev)
                /\ UNCHANGED cache
                /\ CacheSeen(Ev)
                /\ Consume

Init == MInit /\ tid \in 1..Len(Traces) /\ k = 1
Next == /\ k <= Len(Traces[tid])
        /\ (TLoad \/ TFlagval \/ TFlagname \/ TFlagexist \/ TUnspecified)
=============================================================================
