CONSTANTS
  Files = {"f1", "f2"}
  Tables <- TablesDef
  NoFile = "nofile"
SPECIFICATION TraceSpec
INVARIANT C03_Coherent
INVARIANT C03_ModelCoherent
PROPERTY TPrefixPreserved
PROPERTY TRefusalsChangeNothing
CHECK_DEADLOCK FALSE
