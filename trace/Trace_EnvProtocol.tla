------------------------ MODULE Trace_EnvProtocol ------------------------
(* Code -> spec direction for C20.  Every recorded run of a real entry point is an event list   *)
(*   enter, call*, (return | raise)                                                             *)
(* each event carrying the environment the harness observed at that moment (for a call: the     *)
(* environment the collaborator saw).  A trace is accepted iff the protocol of spec/EnvProtocol  *)
(* can produce it: observable events are matched to Enter / StepOk / StepFails /                 *)
(* StepFailsNaturally / CleanupCall / Return / Raise, and between two events the machine may     *)
(* take the internal actions Save / Mutate / Restore / BodyFails.  `pos` is the next event to    *)
(* explain; a trace whose last position is never reached is rejected (the harness reads the      *)
(* furthest position from the state dump).  Return and Raise are the conforming ones, so a run   *)
(* that leaves with a touched variable still changed, or with any other variable changed, is     *)
(* stuck at its last event.                                                                      *)
EXTENDS EnvProtocol, Json, IOUtils, TLC
Traces == JsonDeserialize(IOEnv.VERIF_TRACE)     \* sequence of [ep, events]
VARIABLES t, pos

StepsOf == [i \in 1..Len(Traces) |-> SelectSeq(Traces[i].events, LAMBDA e : e.ev = "call")]
Prof(i) == [ep |-> Traces[i].ep, steps |-> StepsOf[i]]
P  == Prof(t)
Ev == Traces[t].events
EnvOf(q, e) == [x \in Vars(q) |-> e.env[x]]

Init == \E i \in 1..Len(Traces) :
          /\ t = i /\ pos = 1
          /\ Traces[i].events[1].ev = "enter"
          /\ InitWith(Prof(i), EnvOf(Prof(i), Traces[i].events[1]))

Observe(e) ==
  \/ e.ev = "enter" /\ Enter(P)
  \/ /\ e.ev = "call" /\ env = EnvOf(P, e)
     /\ IF e.fails THEN StepFails(P, "OSError") \/ CleanupCall(P)
                   ELSE StepOk(P) \/ StepFailsNaturally(P) \/ CleanupCall(P)
  \/ e.ev = "return" /\ env = EnvOf(P, e) /\ e.strays = <<>> /\ Return(P)
  \/ e.ev = "raise"  /\ env = EnvOf(P, e) /\ e.strays = <<>> /\ Raise(P)

Internal == \/ Save(P)
            \/ \E x \in Touched(P) : Mutate(P, x)
            \/ \E x \in Touched(P) : Restore(P, x)
            \/ BodyFails(P)

Next == /\ pos <= Len(Ev) /\ UNCHANGED t
        /\ \/ Observe(Ev[pos]) /\ pos' = pos + 1
           \/ pos > 1 /\ Internal /\ UNCHANGED pos

(* which call failed and how is bookkeeping, not protocol state: explanations that differ only *)
(* there are the same explanation (keeps the search linear in the length of the trace)         *)
View == <<t, pos, env, env0, saved, st, pc, k, vis>>

(* laws that every explained prefix obeys *)
T_BystandersUntouched == BystandersUntouched(P)
T_EnvRestored == EnvRestored
=============================================================================
