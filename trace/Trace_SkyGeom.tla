--------------------------- MODULE Trace_SkyGeom ---------------------------
(* Code -> spec direction for C18.  The harness drives the real gcirc, SDSSMuNu <-> ICRS  *)
(* transforms, stripe_to_eta / stripe_to_incl, angles_to_x / x_to_angles with seeded       *)
(* random and adversarial inputs and records, per probe, the class attributes and the      *)
(* measured discrepancies (scaled integers; see SkyGeom.tla part 5).  One TLC state per    *)
(* record: which laws the record triggers and whether each holds is decided by the         *)
(* operators of SkyGeom.tla.  State i = 0 checks the minimum number of triggered           *)
(* instances of every law and class (non-vacuity of the whole history).                    *)
(* Record kinds: gc | rt | iso | nu0 | stripe | vec | unch | shape | form | self.                               *)
EXTENDS SkyGeom, Json, IOUtils, TLC
Recs == JsonDeserialize(IOEnv.VERIF_TRACE)
MinPer == atoi(IOEnv.VERIF_MINPER)       \* required instances per class
VARIABLES i, ok, why, trig, dev

(* laws triggered by a record (names are also the keys of the instance counts) *)
Laws(r) ==
  CASE r.kind = "gc" ->
         {"NeverNaN", "Range", "Symmetric"}
         \cup (IF r.ident THEN {"ZeroOnDiagonal"} ELSE {})
         \cup (IF GcVecTriggered(r) THEN {"AgreesWithVector"} ELSE {})
         \cup (IF GcUnitsHDTriggered(r) THEN {"UnitsAgreeHD"} ELSE {})
         \cup (IF GcUnitsRDTriggered(r) THEN {"UnitsAgreeRD"} ELSE {})
    [] r.kind = "rt" -> {"RoundTrip"}
    [] r.kind = "iso" -> {"Isometry"}
    [] r.kind = "nu0" -> {"NuZeroGreatCircle"}
    [] r.kind = "stripe" -> {"StripeTable"}
    [] r.kind = "vec" -> {"AnglesVectorsInverse"}
    [] r.kind = "unch" -> {"CallerObjectUnchanged"}
    [] r.kind = "shape" -> {"ArrayEqualsScalars"}
    [] r.kind = "form" -> {"FormIndependent"}
    [] r.kind = "self" -> IF r.rel \in NearRels THEN {"NeverNaN", "Range", "NearSelfAndAntipode"} ELSE {"NeverNaN", "SelfAndAntipodeExact"}
    [] OTHER -> {}

Failing(r) ==
  CASE r.kind = "gc" ->
         (IF GcNeverNaN(r) THEN {} ELSE {"NeverNaN"})
         \cup (IF GcRange(r) THEN {} ELSE {"Range"})
         \cup (IF GcSymmetric(r) THEN {} ELSE {"Symmetric"})
         \cup (IF GcZeroOnDiagonal(r) THEN {} ELSE {"ZeroOnDiagonal"})
         \cup (IF GcAgreesWithVector(r) THEN {} ELSE {"AgreesWithVector"})
         \cup (IF GcUnitsAgree(r) THEN {} ELSE {"UnitsAgree"})
    [] r.kind \in {"rt", "iso", "nu0"} -> IF MuNuHolds(r) THEN {} ELSE {r.kind}
    [] r.kind = "stripe" -> IF StripeHolds(r) THEN {} ELSE {"StripeTable"}
    [] r.kind = "vec" -> IF VecHolds(r) THEN {} ELSE {"AnglesVectorsInverse"}
    [] r.kind = "unch" -> IF CallerObjectUnchanged(r) THEN {} ELSE {"CallerObjectUnchanged " \o r.fn}
    [] r.kind = "shape" -> IF ArrayEqualsScalars(r) THEN {} ELSE {"ArrayEqualsScalars " \o r.fn \o " " \o ShapeClass(r.shape)}
    [] r.kind = "form" -> IF FormIndependent(r) THEN {} ELSE {"FormIndependent " \o r.fn \o " " \o r.form \o " [integer arguments: " \o r.mix \o "]"}
    [] r.kind = "self" -> IF SelfHolds(r) THEN {} ELSE {(IF r.nnan > 0 THEN "NeverNaN " ELSE IF r.wrong > 0 /\ r.fn = "gcirc" THEN "Range " ELSE "SelfAndAntipodeExact ") \o r.fn \o " " \o r.conv \o " " \o r.rel}
    [] OTHER -> {"unknown record kind"}

(* the named deviation of SkyGeom.tla (if any) that admits a rejected record exactly *)
DevAdmits(r) ==
  IF r.kind = "gc" /\ Failing(r) = {"AgreesWithVector"} /\ Dev_SubtractsRadiansRec(r) THEN "D-C18-1"
  ELSE IF r.kind = "gc" /\ Dev_NegativeHaversineRec(r) THEN "D-C18-7"
  ELSE IF r.kind \in {"rt", "iso", "nu0"} /\ Dev_ArcsinNotClipped(r) THEN "D-C18-2"
  ELSE ""

RECURSIVE Join(_)
Join(S) == IF S = {} THEN "" ELSE LET x == CHOOSE y \in S : TRUE IN x \o " " \o Join(S \ {x})

(* ------------------------- non-vacuity of the history ---------------------------------- *)
N == Len(Recs)
Count(P(_)) == Cardinality({j \in 1..N : P(Recs[j])})
IsGc(r) == r.kind = "gc"
StripesOf(P(_)) == {Recs[j].stripe : j \in {jj \in 1..N : P(Recs[jj])}}
VecDecade(d) == Count(LAMBDA r : IsGc(r) /\ GcVecTriggered(r) /\ Digits(r.uas) = d /\ r.sepdeg = 0)
Shortfalls ==
  (* the vector-formula law is exercised in every decade from 1 uas to 1 deg and beyond *)
  {"AgreesWithVector decade " \o ToString(d) : d \in {e \in 1..10 : VecDecade(e) < MinPer}}
  \cup (IF Count(LAMBDA r : IsGc(r) /\ GcVecTriggered(r) /\ r.sepdeg >= 1 /\ r.sepdeg < 170) < MinPer THEN {"AgreesWithVector wide"} ELSE {})
  \cup (IF Count(LAMBDA r : IsGc(r) /\ GcVecTriggered(r) /\ r.sepdeg >= 179) < MinPer THEN {"AgreesWithVector antipodal"} ELSE {})
  \cup (IF Count(LAMBDA r : IsGc(r) /\ GcVecTriggered(r) /\ r.colatbin = -99) < MinPer THEN {"AgreesWithVector at a pole"} ELSE {})
  \cup (IF Count(LAMBDA r : IsGc(r) /\ GcVecTriggered(r) /\ r.seam) < MinPer THEN {"AgreesWithVector across RA 0"} ELSE {})
  \cup (IF Count(LAMBDA r : IsGc(r) /\ r.ident) < MinPer THEN {"ZeroOnDiagonal"} ELSE {})
  \cup (IF Count(LAMBDA r : IsGc(r) /\ r.uas = 0 /\ ~r.ident) < MinPer THEN {"NeverNaN coincident, different coordinates"} ELSE {})
  \cup (IF Count(LAMBDA r : IsGc(r) /\ GcUnitsHDTriggered(r) /\ r.hexact /\ r.sepbin < FineBin) < MinPer THEN {"UnitsAgree hours exact, fine"} ELSE {})
  \cup (IF Count(LAMBDA r : IsGc(r) /\ GcUnitsRDTriggered(r)) < MinPer THEN {"UnitsAgree radians"} ELSE {})
  (* single-precision coordinates: one point exactly at a pole (the other elsewhere), values demanded, identical, antipodal *)
  \cup (IF Count(LAMBDA r : IsGc(r) /\ r.single /\ r.colatbin = -99 /\ r.uas >= 1 /\ r.sepdeg < 179) < 3 * MinPer THEN {"single precision, one point at a pole"} ELSE {})
  \cup (IF Count(LAMBDA r : IsGc(r) /\ r.single /\ GcVecTriggered(r)) < 10 * MinPer THEN {"AgreesWithVector single precision"} ELSE {})
  \cup (IF Count(LAMBDA r : IsGc(r) /\ r.single /\ r.ident) < MinPer THEN {"ZeroOnDiagonal single precision"} ELSE {})
  \cup (IF Count(LAMBDA r : IsGc(r) /\ r.single /\ r.sepdeg >= 179) < MinPer THEN {"Range single precision antipodal"} ELSE {})
  (* every stripe has round trips in both directions, isometry pairs, nu = 0 probes, table rows *)
  \cup {"RoundTrip icrs stripe " \o ToString(s) : s \in Stripes \ StripesOf(LAMBDA r : r.kind = "rt" /\ r.dir = "icrs")}
  \cup {"RoundTrip munu stripe " \o ToString(s) : s \in Stripes \ StripesOf(LAMBDA r : r.kind = "rt" /\ r.dir = "munu")}
  \cup {"Isometry stripe " \o ToString(s) : s \in Stripes \ StripesOf(LAMBDA r : r.kind = "iso")}
  \cup {"NuZero fwd stripe " \o ToString(s) : s \in Stripes \ StripesOf(LAMBDA r : r.kind = "nu0" /\ r.dir = "fwd")}
  \cup {"NuZero inv stripe " \o ToString(s) : s \in Stripes \ StripesOf(LAMBDA r : r.kind = "nu0" /\ r.dir = "inv")}
  \cup {"StripeTable stripe " \o ToString(s) : s \in Stripes \ StripesOf(LAMBDA r : r.kind = "stripe")}
  \cup (IF Count(LAMBDA r : r.kind = "rt" /\ r.polar) < MinPer THEN {"RoundTrip polar"} ELSE {})
  (* coordinate objects that carry a distance: every stripe, from both systems; every class of distance, every law *)
  \cup {"RoundTrip icrs with a distance, stripe " \o ToString(s) : s \in Stripes \ StripesOf(LAMBDA r : r.kind = "rt" /\ r.dir = "icrs" /\ r.carrier # "direction")}
  \cup {"RoundTrip munu with a distance, stripe " \o ToString(s) : s \in Stripes \ StripesOf(LAMBDA r : r.kind = "rt" /\ r.dir = "munu" /\ r.carrier # "direction")}
  \cup {"Isometry with a distance, stripe " \o ToString(s) : s \in Stripes \ StripesOf(LAMBDA r : r.kind = "iso" /\ r.carrier # "direction")}
  \cup {"NuZero inv with a distance, stripe " \o ToString(s) : s \in Stripes \ StripesOf(LAMBDA r : r.kind = "nu0" /\ r.dir = "inv" /\ r.carrier # "direction")}
  \cup {"RoundTrip " \o x[1] \o " carrier " \o x[2] : x \in {y \in {"icrs", "munu"} \X (CarrierClasses \ {"mixed"}) :
           Count(LAMBDA r : r.kind = "rt" /\ r.dir = y[1] /\ r.carrier = y[2]) < MinPer}}
  \cup {"Isometry carrier " \o cc : cc \in {y \in CarrierClasses : Count(LAMBDA r : r.kind = "iso" /\ r.carrier = y) < MinPer}}
  (* one coordinate object handed to several transforms: array-valued and scalar, both directions *)
  \cup {"RoundTrip of a reused array object, from " \o d : d \in {x \in {"icrs", "munu"} :
           Count(LAMBDA r : r.kind = "rt" /\ r.dir = x /\ r.array /\ r.use >= 1) < MinPer}}
  \cup (IF Count(LAMBDA r : r.kind = "rt" /\ r.array /\ r.use >= 2) < MinPer THEN {"RoundTrip of an array object used more than twice"} ELSE {})
  \cup (IF Count(LAMBDA r : r.kind = "rt" /\ ~r.array /\ r.use >= 1) < MinPer THEN {"RoundTrip of a reused scalar object"} ELSE {})
  (* dense sweeps of centres: the point itself and its antipode, both conventions / all three unit conventions *)
  \cup {"NeverNaN cap_distance " \o x[1] \o " " \o x[2] : x \in {y \in {"radec", "vector"} \X ExactRels :
           /\ (y[2] = "antipode-negated" => y[1] = "vector")
           /\ Count(LAMBDA r : r.kind = "self" /\ r.fn = "cap_distance" /\ r.conv = y[1] /\ r.rel = y[2] /\ r.n >= 64) < 40 * MinPer}}
  \cup {"NeverNaN gcirc " \o x[1] \o " " \o x[2] : x \in {y \in {"u0", "u1", "u2"} \X {"coincident", "antipode"} :
           Count(LAMBDA r : r.kind = "self" /\ r.fn = "gcirc" /\ r.conv = y[1] /\ r.rel = y[2] /\ r.n >= 1440) < 5 * MinPer}}
  (* nearly coincident / nearly antipodal partners at every offset scale *)
  \cup {"NeverNaN gcirc " \o x[1] \o " " \o x[2] \o " scale " \o ToString(x[3]) : x \in {y \in {"u0", "u1", "u2"} \X NearRels \X NearScales :
           Count(LAMBDA r : r.kind = "self" /\ r.fn = "gcirc" /\ r.conv = y[1] /\ r.rel = y[2] /\ r.scale = y[3] /\ r.n >= 5000 * MinPer) < 3}}
  \cup {"NeverNaN cap_distance " \o x[1] \o " " \o x[2] \o " scale " \o ToString(x[3]) : x \in {y \in {"radec", "vector"} \X NearRels \X NearScales :
           Count(LAMBDA r : r.kind = "self" /\ r.fn = "cap_distance" /\ r.conv = y[1] /\ r.rel = y[2] /\ r.scale = y[3] /\ r.n >= 3000) < MinPer}}
  (* every function is called with 8-bit, 16-bit and wide integer arguments (arrays and scalars where it takes them) *)
  \cup {"FormIndependent " \o x[1] \o " " \o x[2] : x \in {y \in FormFns \X {"8bit", "16bit", "wide"} :
           Count(LAMBDA r : r.kind = "form" /\ r.fn = y[1] /\ FormClass(r.form) = y[2]) < MinPer}}
  (* ... and with the integer type given to every admitted subset of the arguments *)
  \cup {"FormIndependent " \o x[1] \o " integer arguments " \o x[2] : x \in {y \in FormFns \X (GcircMixes \cup {"x", "cm", "points", "lon", "lat"}) :
           /\ y[2] \in MixesOf(y[1])
           /\ Count(LAMBDA r : r.kind = "form" /\ r.fn = y[1] /\ r.mix = y[2]) < MinPer}}
  \cup {"FormIndependent gcirc integer arguments " \o x[1] \o " " \o x[2] : x \in {y \in {"ra", "dec", "p1", "p2"} \X {"8bit", "16bit", "wide"} :
           Count(LAMBDA r : r.kind = "form" /\ r.fn = "gcirc" /\ r.mix = y[1] /\ FormClass(r.form) = y[2]) < MinPer}}
  \cup {"FormIndependent scalars " \o f : f \in {y \in {"gcirc", "stripe_to_eta", "stripe_to_incl"} :
           Count(LAMBDA r : r.kind = "form" /\ r.fn = y /\ ~r.arr) < MinPer}}
  \cup (IF Count(LAMBDA r : r.kind = "form" /\ r.fn = "gcirc" /\ r.form = "pyint") < MinPer THEN {"FormIndependent gcirc Python int"} ELSE {})
  (* every function is called on every shape class its interface admits *)
  \cup {"ArrayEqualsScalars " \o x[1] \o " " \o x[2] : x \in {y \in CallerFns \X {"1d", "unit-dim", "lead3", "2d", "3d"} :
           /\ y[2] \in ShapeClassesOf(y[1])
           /\ Count(LAMBDA r : r.kind = "shape" /\ r.fn = y[1] /\ ShapeClass(r.shape) = y[2]) < MinPer}}
  \cup (IF Count(LAMBDA r : r.kind = "shape" /\ r.fn = "gcirc" /\ r.bcast) < MinPer THEN {"ArrayEqualsScalars gcirc broadcast"} ELSE {})
  \cup {"CallerObjectUnchanged array " \o f : f \in {x \in CallerFns :
           Count(LAMBDA r : r.kind = "unch" /\ r.fn = x /\ r.array) < MinPer}}
  \cup {"CallerObjectUnchanged reused array " \o f : f \in {x \in TransformFns :
           Count(LAMBDA r : r.kind = "unch" /\ r.fn = x /\ r.array /\ r.use >= 1) < MinPer}}
  \cup {"CallerObjectUnchanged scalar " \o f : f \in {x \in TransformFns :
           Count(LAMBDA r : r.kind = "unch" /\ r.fn = x /\ ~r.array) < MinPer}}
  \cup (IF Count(LAMBDA r : r.kind = "iso" /\ ~r.polar) < MinPer THEN {"Isometry"} ELSE {})
  \cup {"AnglesVectorsInverse " \o d \o (IF l THEN " latitude" ELSE " colatitude") \o (IF p THEN " polar" ELSE "") :
           <<d, l, p>> \in {x \in {"a2x2a", "x2a2x"} \X BOOLEAN \X BOOLEAN :
               Count(LAMBDA r : r.kind = "vec" /\ r.dir = x[1] /\ r.latitude = x[2] /\ r.polar = x[3]) < MinPer}}

(* VERIF_NOCOUNTS: judge the records only (used by the binding self-test, whose records are falsified on purpose) *)
First == IF "VERIF_NOCOUNTS" \in DOMAIN IOEnv THEN 1 ELSE 0
Init == /\ i \in First..N
        /\ trig = IF i = 0 THEN {} ELSE Laws(Recs[i])
        /\ ok = IF i = 0 THEN Shortfalls = {} ELSE Failing(Recs[i]) = {}
        /\ why = IF i = 0 THEN Join(Shortfalls) ELSE Join(Failing(Recs[i]))
        /\ dev = IF i = 0 \/ ok THEN "" ELSE DevAdmits(Recs[i])
Next == UNCHANGED <<i, ok, why, trig, dev>>
=============================================================================
