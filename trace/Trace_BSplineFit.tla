-------------------------- MODULE Trace_BSplineFit --------------------------
(* Code -> spec direction for C09.                                                              *)
(*                                                                                              *)
(* Mode "runs" (Trace_BSplineFit_runs.cfg, INIT TInit / NEXT TNext): histories of bspline.fit   *)
(* calls recorded from the real code - fit loops driven by the harness and runs of the real     *)
(* iterfit with a recorder around bspline.fit - validated event by event against the machine    *)
(* of spec/BSplineFit (FitOK / FitDrop / FitFail / Return / Refuse are reused, not restated).   *)
(* Every history is an initial state (tid); pos is the next event to explain; a history is      *)
(* accepted iff the position after its last event is reached (positions are printed).  There    *)
(* is no action for an exception and none for non-finite coefficients.                          *)
(*   history: nord, S, pc (distinct positively weighted abscissae per position), maxfits,       *)
(*            events: fit [mask (good knots before), st, after (good knots after), finite,      *)
(*                         illcond (measured: design matrix on the masked knots numerically    *)
(*                         singular, condition number above 1e5), gsb / gsa (global state      *)
(*                         before / after), argsok (the fit was handed the caller's data:       *)
(*                         same (x, y, weight) triples, weights clipped at 0, x non-decreasing), *)
(*                         weak (basis functions, by rank, whose measured influence sum w B^2   *)
(*                         is positive but below 1e-6 of the mean weight)]                      *)
(*                    return [mask, finite]     refuse []                                       *)
(*                    data [pc, more]: the caller hands OTHER data to the same object (new       *)
(*                    support counts; at most `more` further fits)                                *)
(*                                                                                              *)
(* Mode "records" (Trace_BSplineFit.cfg, INIT RInit / NEXT RNext): single observed calls and    *)
(* law instances, one TLC state per record, ok = the specification accepts the observation.     *)
(*   chol   : a cholesky_band / cholesky_solve call on an integer matrix (band form); whether    *)
(*            the matrix is positive definite is decided here by exact elimination; an integer  *)
(*            factor / solution is checked exactly, otherwise the harness-measured residuals    *)
(*            (units of 1e-12 relative) are judged                                              *)
(*   fitlaw : a law instance on real bspline.fit calls with float data: agreement with the      *)
(*            independent dense least squares ("lstsq"), zero-weight invariance ("zw"),         *)
(*            linearity ("lin"), polynomial reproduction ("poly"), and the same on objects whose  *)
(*            breakpoints had been dropped ("masked", "masked-poly"); the harness measures the  *)
(*            discrepancy (units of 1e-9 of the data scale), the support class comes from here  *)
(*   run    : a history of fit calls on knots that cannot be abstracted (coincident knots)       *)
(*   proc   : a process history (mixed calls on different objects, nothing restored in between)  *)
(* every record / fit event carries gsb, gsa: the global state observed before and after the call *)
EXTENDS BSplineFit, Json, IOUtils, SequencesExt
Input == JsonDeserialize(IOEnv.VERIF_TRACE)
VARIABLES i, ok, why, tid, pos
tvars == <<i, ok, why, tid, pos, prob, bkmask, status, nfits, phase>>

(* ------------------------------- records ------------------------------- *)
Tol == 1000
CholExactOK(r, A) == /\ IsCholFactor(UnbandLower(r.L, r.n, r.bw), A, r.n, r.bw) /\ PaddingZero(r.L, r.n, r.bw)
                     /\ Solves(A, r.x, r.b, r.n) /\ VecPaddingZero(r.x, r.n, r.bw)
                     /\ r.ldev <= Tol /\ r.xdev <= Tol
(* definiteness: 1 positive definite, -1 indefinite (first non-positive pivot negative), 0 the first   *)
(* non-positive pivot is exactly zero - with an irrational factor rounding decides whether the code can *)
(* notice, both answers are accepted there (the enumerated cases of MC_BSplineFit, whose arithmetic is   *)
(* exact in floating point, are strict)                                                                  *)
CholWhy(r) ==
  LET A == TLCEval(Unband(r.ab, r.n, r.bw))
      df == IF ~r.finite THEN -1 ELSE IF r.intmat THEN Definiteness(A, r.n) ELSE (IF r.pdclaim THEN 1 ELSE -1)
  IN IF r.exc # "" THEN "exception"
     ELSE IF r.intmat /\ ~PaddingZero(r.ab, r.n, r.bw) THEN "harness: input not in padded band form"
     ELSE IF df = 1 /\ ~r.okobs THEN "positive definite matrix refused"
     ELSE IF df = -1 /\ r.okobs THEN "not positive definite / non-finite matrix factored"
     ELSE IF ~r.okobs THEN (IF r.same THEN "" ELSE "second item is not the input")
     ELSE IF df = 0 THEN ""
     ELSE IF r.exact THEN (IF CholExactOK(r, A) THEN "" ELSE "factor or solution wrong")
     ELSE IF r.resL <= Tol /\ r.resX <= Tol THEN "" ELSE "residual above tolerance"

SupportOfRec(r) == [nord |-> r.nord, S |-> r.S, pc |-> r.pc]
(* r.mask: the good knots of the object the fits were made on (all knots unless breakpoints had been   *)
(* dropped before); the spline space, its support class and "determined" are those of the mask.        *)
(* r.bdisc: measured inconsistency of action() / bsplvn() / value() with the Cox-de Boor basis of the  *)
(* masked knot vector (partition of unity included); demanded whatever the status.                     *)
LawWhy(r) ==
  LET P == SupportOfRec(r)
      mk == ToSet(r.mask)
      cls == FitClass(P, mk)
  IN IF ~SupportOK(P) \/ ~(EndKnots(P) \subseteq mk /\ mk \subseteq AllKnots(P)) THEN "harness: bad support abstraction"
     ELSE IF r.exc # "" THEN "exception"
     ELSE IF r.bdisc > r.tol THEN "basis / value() inconsistent with the masked knot vector"
     ELSE IF \E k \in 1..Len(r.st) : r.st[k] \notin cls.allowed /\ ~(~r.condok /\ r.st[k] \in {-1, -2})
          THEN "status not admissible"
     ELSE IF ~r.finite THEN "non-finite coefficients"
     ELSE IF \E k \in 1..Len(r.st) : r.st[k] # 0 THEN ""
     ELSE IF ~cls.determined THEN ""                     \* status 0 on an undetermined system: nothing to compare
     ELSE IF ~r.condok THEN ""                           \* determined but numerically singular (measured condition number)
     ELSE IF r.law = "zw" /\ ~(ToSet(r.altered) \subseteq ToSet(r.zeroidx)) THEN "harness: altered a weighted point"
     ELSE IF r.disc <= r.tol THEN "" ELSE "discrepancy above tolerance"
(* was the optimum actually compared? (counted by the harness so that the masked instances cannot be vacuous) *)
LawCompared(r) == r.kind = "fitlaw" /\ r.exc = "" /\ r.finite /\ (\A k \in 1..Len(r.st) : r.st[k] = 0)
                  /\ r.condok /\ FitClass(SupportOfRec(r), ToSet(r.mask)).determined

(* a history whose knots cannot be abstracted to a support problem (coincident knots: all good data at *)
(* one abscissa): only what the statement demands of every fit is judged - documented status, finite   *)
(* coefficients, no exception, a mask that shrinks exactly when the status is -1                       *)
EventOK(e) == IF e.a = "fit" THEN /\ e.st \in Statuses /\ e.finite /\ ToSet(e.after) \subseteq ToSet(e.mask)
                                  /\ StatePreserved(e.gsb, e.gsa) /\ e.argsok
                                  /\ (e.st = -1) <=> (ToSet(e.after) # ToSet(e.mask))
              ELSE IF e.a = "return" THEN e.finite
              ELSE e.a = "refuse"
RunWhy(r) == IF \E k \in 1..Len(r.events) : r.events[k].a = "raise" THEN "exception"
             ELSE IF \E k \in 1..Len(r.events) : ~EventOK(r.events[k]) THEN "event not admissible" ELSE ""

(* a process history: calls of different kinds on different objects, one after the other in the same  *)
(* process with nothing restored in between (refused factorisations, ill-posed and well-posed fits in  *)
(* every order).  Every call must preserve the global state and answer as it would on its own:         *)
(*   chol : okobs against the exact definiteness of the integer matrix (df computed here)              *)
(*   fit  : status admissible for the support class of (pc, mask); with a non-finite weight the status  *)
(*          is open (see NonFiniteWeightStatuses) and an answer 0 is judged on the measured disc;       *)
(*          finite coefficients, mask shrinking exactly when the status is -1                           *)
ProcEventWhy(e) ==
  IF e.exc # "" THEN "exception: " \o e.exc
  ELSE IF ~StatePreserved(e.gsb, e.gsa) THEN "process-wide floating-point error handling changed by the call"
  ELSE IF e.op = "chol" THEN
       LET df == IF ~e.finite THEN -1 ELSE Definiteness(TLCEval(Unband(e.ab, e.n, e.bw)), e.n)
       IN IF (df = 1 /\ ~e.okobs) \/ (df = -1 /\ e.okobs) THEN "factorisation verdict wrong"
          ELSE IF ~e.okobs /\ ~e.same THEN "second item is not the input" ELSE ""
  ELSE LET P == [nord |-> e.nord, S |-> e.S, pc |-> e.pc]
           mk == ToSet(e.mask)
           adm == IF e.nonfinite THEN NonFiniteWeightStatuses ELSE FitClass(P, mk).allowed
       IN IF ~SupportOK(P) \/ ~(EndKnots(P) \subseteq mk /\ mk \subseteq AllKnots(P)) THEN "harness: bad support abstraction"
          ELSE IF e.st \notin adm /\ ~(e.illcond /\ e.st \in {-1, -2}) THEN "status not admissible"
          ELSE IF ~e.finite THEN "non-finite coefficients"
          ELSE IF e.nonfinite /\ e.st = 0 /\ e.wclass = "inf" /\ e.disc > e.tol
               THEN "status 0 with an infinite weight but the spline misses that datum"
          ELSE IF e.nonfinite /\ e.st = 0 /\ e.wclass = "nan" /\ e.condok
                  /\ FitClass([nord |-> e.nord, S |-> e.S, pc |-> e.pcfin], mk).determined /\ e.disc > e.tol
               THEN "status 0 with a NaN weight but not the optimum over the finitely weighted data"
          ELSE IF ~(ToSet(e.after) \subseteq mk /\ (mk \ ToSet(e.after)) \subseteq Interior(P)
                    /\ ((e.st = -1) <=> (ToSet(e.after) # mk))) THEN "mask change not admissible"
          ELSE ""
RECURSIVE ProcFrom(_, _)
ProcFrom(evs, k) == IF k > Len(evs) THEN ""
                    ELSE LET y == ProcEventWhy(evs[k]) IN IF y # "" THEN y ELSE ProcFrom(evs, k + 1)
ProcWhy(r) == ProcFrom(r.events, 1)

GlobalWhy(r) == IF r.kind \in {"chol", "fitlaw"} /\ ~StatePreserved(r.gsb, r.gsa)
                THEN "process-wide floating-point error handling changed by the call" ELSE ""
WhyOf(r) == IF GlobalWhy(r) # "" THEN GlobalWhy(r)
            ELSE IF r.kind = "chol" THEN CholWhy(r) ELSE IF r.kind = "run" THEN RunWhy(r)
            ELSE IF r.kind = "proc" THEN ProcWhy(r) ELSE LawWhy(r)
RInit == /\ i \in 1..Len(Input)
         /\ why = WhyOf(Input[i])
         /\ ok = (why = "")
         /\ tid = (IF Input[i].kind = "fitlaw" /\ why = "" /\ LawCompared(Input[i]) THEN -1 ELSE 0) /\ pos = 0
         /\ prob = [nord |-> 1, S |-> 1, pc |-> <<0, 0, 0>>, maxfits |-> 0]
         /\ bkmask = {} /\ status = NoFit /\ nfits = 0 /\ phase = "parked"
RNext == UNCHANGED tvars

(* ------------------------------- runs ------------------------------- *)
T == Input[tid]
Ev == T.events[pos]
TInit == \E t \in 1..Len(Input) :
           /\ tid = t /\ pos = 1 /\ i = 0 /\ ok = TRUE /\ why = ""
           /\ SupportOK([nord |-> Input[t].nord, S |-> Input[t].S, pc |-> Input[t].pc])
           /\ MInit([nord |-> Input[t].nord, S |-> Input[t].S, pc |-> Input[t].pc], Input[t].maxfits)
TFit == /\ Ev.a = "fit"
        /\ ToSet(Ev.mask) = bkmask
        /\ Ev.finite
        /\ StatePreserved(Ev.gsb, Ev.gsa)
        /\ Ev.argsok
        /\ \/ Ev.st = 0 /\ FitOK /\ ToSet(Ev.after) = bkmask
           \/ Ev.st = -1 /\ FitDropW(ToSet(Ev.after), ToSet(Ev.weak))
           \/ Ev.st = -2 /\ FitFail /\ ToSet(Ev.after) = bkmask
           \/ Ev.illcond /\ FitGiveUp(Ev.st, ToSet(Ev.after))
TData == Ev.a = "data" /\ NewData(Ev.pc, Ev.more) /\ SupportOK([nord |-> prob.nord, S |-> prob.S, pc |-> Ev.pc])
TReturn == Ev.a = "return" /\ ToSet(Ev.mask) = bkmask /\ Ev.finite /\ Return
TRefuse == Ev.a = "refuse" /\ Refuse
TNext == /\ tid > 0 /\ pos <= Len(T.events)
         /\ (TFit \/ TData \/ TReturn \/ TRefuse)
         /\ pos' = pos + 1 /\ UNCHANGED <<i, ok, why, tid>>
         /\ PrintT(<<"C09POS", tid, pos'>>)
(* the machine's properties hold along every accepted history *)
T_MaskNeverGrows == [][bkmask' \subseteq bkmask]_tvars
T_EndKnotsKept == tid > 0 => EndKnotsKept
T_FitsBounded == tid > 0 => FitsBounded
=============================================================================
