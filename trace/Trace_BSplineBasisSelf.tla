---------------------- MODULE Trace_BSplineBasisSelf ----------------------
(* Binding self-test of Trace_BSplineBasis (core.binding_selftest): the same operators judge   *)
(* records in which the harness has falsified one observed field; every one must be rejected.   *)
(* Judging happens in the initial-state predicate (one state per record), which is the shape    *)
(* core.validate_records expects.                                                               *)
EXTENDS Trace_BSplineBasis
InitJudged == /\ i \in 1..Len(Recs)
              /\ out = OutOf(Recs[i])
              /\ why = Verdict(Recs[i], out)
              /\ ok = (why = "")
NextNone == UNCHANGED <<i, ok, why, out>>
=============================================================================
