INIT Init
NEXT Next
INVARIANT C19_MinInstances
CHECK_DEADLOCK FALSE
