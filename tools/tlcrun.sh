#!/bin/sh
# usage: tools/tlcrun.sh <module.tla> <cfg> [extra tlc args]   (run from the module's directory; prints a short summary)
M="$1"; C="$2"; shift 2
D=$(mktemp -d /tmp/tlcrun.XXXXXX)
timeout ${TLC_TIMEOUT:-900} java -XX:+UseParallelGC -Xmx12g -DTLA-Library=/verif/spec:/verif/mc:/verif/trace -cp /opt/veriftools/tla/tla2tools.jar:/opt/veriftools/tla/CommunityModules-deps.jar tlc2.TLC -workers ${TLC_WORKERS:-16} -metadir $D/m -noGenerateSpecTE -config "$C" "$@" "$M" > $D/out.txt 2>&1
echo "rc=$?"
grep -v "^Parsing\|^Semantic\|^Linting\|^Warning: Please\|^(Use the" $D/out.txt | grep -B2 -A25 "rror" | head -${TLC_LINES:-60}
grep "states generated\|Finished in\|depth of" $D/out.txt | tail -3
rm -rf $D
