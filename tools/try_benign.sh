#!/bin/bash
# usage: tools/try_benign.sh <dir with patch.diff> <PID> [tier]
# BASE=<commit> tests the patch on the pydl commit it was written for (when a later fix: commit touches the same lines).
# A behaviour-preserving change (the property still holds) must NOT make the property's check raise an alarm.
# Applies the patch in a scratch worktree of /repo, runs pydl's tests and the check against it.
D="$1"; PID="$2"; TIER="${3:-quick}"
WT=$(mktemp -d /tmp/ben_XXXXXX); rmdir $WT
git -C /repo worktree add --detach $WT ${BASE:-HEAD} -q || exit 2
cd $WT
git apply $D/patch.diff 2>/dev/null || git apply --3way $D/patch.diff || { echo "PATCH DOES NOT APPLY"; git -C /repo worktree remove --force $WT; exit 2; }
/venv/bin/python -m pytest -q -p no:cacheprovider --timeout=900 2>&1 | tail -1 | sed 's/\x1b\[[0-9;]*m//g' | sed 's/^/tests with change: /'
cd ${VERIF_DIR:-/verif}
cp evidence/$PID.json $WT/.evidence.json 2>/dev/null
PYDL_SRC=$WT bin/check $PID --tier $TIER > $WT/.check.log 2>&1; RC=$?
echo "check $PID ($TIER) with benign change: exit $RC, $(grep -c '^VIOLATION' $WT/.check.log) VIOLATION lines"
grep -A1 '^VIOLATION' $WT/.check.log | grep -v '^VIOLATION\|^--' | head -4 | cut -c1-400
tail -1 $WT/.check.log | cut -c1-200
if [ $RC -ne 0 ]; then mkdir -p /tmp/benlogs; cp $WT/.check.log /tmp/benlogs/$(basename $D)_$PID.check.log; cp -r ${VERIF_DIR:-/verif}/replays/$PID /tmp/benlogs/$(basename $D)_$PID.replays 2>/dev/null; fi
cp $WT/.evidence.json evidence/$PID.json 2>/dev/null
git -C /repo worktree remove --force $WT
rm -rf ${VERIF_DIR:-/verif}/replays/$PID
