#!/bin/bash
# usage: tools/try_seeded.sh <dir with patch.diff demo.py> <PID> [tier]
# Confirms a seeded change in a scratch worktree of /repo (tests pass, demo fails with / passes without the change)
# and runs the property's check against it.  Nothing is applied to /repo itself.
D="$1"; PID="$2"; TIER="${3:-quick}"
WT=$(mktemp -d /tmp/try_XXXXXX); rmdir $WT
git -C /repo worktree add --detach $WT ${BASE:-HEAD} -q || exit 2
cd $WT
PYTHONPATH=$WT /venv/bin/python $D/demo.py > $WT/.demo0.log 2>&1; echo "demo without change: exit $?"
git apply $D/patch.diff 2>/dev/null || git apply --3way $D/patch.diff || { echo "PATCH DOES NOT APPLY"; git -C /repo worktree remove --force $WT; exit 2; }
/venv/bin/python -m pytest -q -p no:cacheprovider --timeout=900 2>&1 | tail -1 | sed 's/\x1b\[[0-9;]*m//g' | sed 's/^/tests with change: /'
PYTHONPATH=$WT /venv/bin/python $D/demo.py > $WT/.demo1.log 2>&1; echo "demo with change: exit $?"
cd ${VERIF_DIR:-/verif}
cp evidence/$PID.json $WT/.evidence.json 2>/dev/null
PYDL_SRC=$WT bin/check $PID --tier $TIER > $WT/.check.log 2>&1; RC=$?
echo "check $PID ($TIER) with change: exit $RC, $(grep -c '^VIOLATION' $WT/.check.log) VIOLATION lines"
grep -A1 '^VIOLATION' $WT/.check.log | grep -v '^VIOLATION\|^--' | head -3 | cut -c1-300
tail -1 $WT/.check.log | cut -c1-200
cp $WT/.evidence.json evidence/$PID.json 2>/dev/null   # evidence stays that of the unchanged tree
git -C /repo worktree remove --force $WT
rm -rf ${VERIF_DIR:-/verif}/replays/$PID
