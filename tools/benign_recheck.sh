#!/bin/bash
# usage: tools/benign_recheck.sh [PID...]   Re-run every archived behaviour-preserving change that still applies to /repo HEAD
# against the CURRENT checks (false-alarm regression after the checks were strengthened).  Writes benign/recheck.json.
mkdir -p /tmp/benre
PIDS="${@:-C01 C02 C03 C04 C05 C06 C07 C08 C09 C10 C11 C12 C13 C14 C15 C16 C17 C18 C19 C20}"
run_pid() {
  p=$1
  for d in /verif/benign/$p-b*; do
    [ -f $d/patch.diff ] || continue
    id=$(basename $d)
    if python3 -c "import json,sys; sys.exit(0 if json.load(open('$d/meta.json')).get('base') else 1)"; then echo "$id skipped (applies only to an earlier commit)" > /tmp/benre/$id.log; continue; fi
    tools/try_benign.sh $d $p > /tmp/benre/$id.log 2>&1
  done
}
n=0
for p in $PIDS; do run_pid $p & n=$((n+1)); if [ $((n % 4)) -eq 0 ]; then wait; fi; done; wait
python3 - <<'PY'
import glob, json, os, re
out = []
for f in sorted(glob.glob('/tmp/benre/*.log')):
    t = open(f).read()
    id_ = os.path.basename(f)[:-4]
    m = re.search(r'check (\w+) \(quick\) with benign change: exit (\d+), (\d+) VIOLATION', t)
    out.append({'id': id_, 'result': ('silent' if m and m.group(2) == '0' else 'ALARM exit %s' % m.group(2)) if m else t.strip()[:80]})
json.dump(out, open('/verif/benign/recheck.json', 'w'), indent=1)
for o in out:
    if not o['result'].startswith('silent') and 'skipped' not in o['result']:
        print(o)
print(sum(1 for o in out if o['result'] == 'silent'), 'silent,', sum(1 for o in out if 'skipped' in o['result']), 'skipped,', len(out), 'total')
PY
