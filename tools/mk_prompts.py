#!/usr/bin/env python3
"""usage: tools/mk_prompts.py <template file> <worktree prefix> <out prefix> [IDs...]
Fills a tools/prompts template with each property's text (only the text: nothing from /verif is handed to the sub-agent)
and creates one scratch git worktree of /repo per property."""
import json, subprocess, sys
tmpl = open(sys.argv[1]).read()
wpfx, opfx = sys.argv[2], sys.argv[3]
ids = sys.argv[4:]
for l in open('/verif/properties.jsonl'):
    d = json.loads(l)
    if ids and d['id'] not in ids:
        continue
    wt = wpfx + d['id']
    subprocess.run(['git', '-C', '/repo', 'worktree', 'add', '--detach', wt, 'HEAD', '-q'], check=True)
    t = (tmpl.replace('{WT}', wt).replace('{PID}', d['id']).replace('{TITLE}', d['title'])
         .replace('{STATEMENT}', d['statement']).replace('{QUANT}', d['quantifier']['text'])
         .replace('{FILES}', ', '.join(d['anchors']['files'])))
    open(opfx + d['id'] + '.txt', 'w').write(t)
    print(d['id'], wt)
