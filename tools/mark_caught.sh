#!/bin/bash
# usage: tools/mark_caught.sh <seeded id> <PID> "<history text>"
# Re-runs an archived change against the CURRENT check (tools/try_seeded.sh) and records the outcome and the history text
# (why it was missed, what was added) in seeded/<id>/meta.json.
ID="$1"; PID="$2"; HIST="$3"
mkdir -p /tmp/seedlogs
BASE=$(python3 -c "import json;print(json.load(open('/verif/seeded/$ID/meta.json')).get('base',''))") 
BASE=$BASE tools/try_seeded.sh /verif/seeded/$ID $PID > /tmp/seedlogs/$ID.re.log 2>&1
python3 - "$ID" "$PID" "$HIST" <<'PY'
import json, sys
sid, pid, hist = sys.argv[1:4]
p = '/verif/seeded/%s/meta.json' % sid
m = json.load(open(p))
lines = [l.rstrip() for l in open('/tmp/seedlogs/%s.re.log' % sid)]
caught = any('check %s' % pid in l and 'exit 1' in l for l in lines)
m['caught_by_quick_check'] = caught
m['ran_after_strengthening'] = lines
if hist:
    m['history'] = hist
json.dump(m, open(p, 'w'), indent=1)
print(sid, 'caught' if caught else 'STILL MISSED', [l for l in lines if 'check %s' % pid in l])
PY
