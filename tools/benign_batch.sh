#!/bin/bash
# usage: tools/benign_batch.sh C01 C02 ...   (${BENIGN_PFX:-/tmp/wb_}<ID>/KEEP/{1,2,3} -> benign/<ID>-b{1,2,3})
mkdir -p /tmp/benlogs /verif/benign
for p in "$@"; do
 ( for k in 1 2 3; do
    [ -f ${BENIGN_PFX:-/tmp/wb_}$p/KEEP/$k/patch.diff ] && tools/try_benign.sh ${BENIGN_PFX:-/tmp/wb_}$p/KEEP/$k $p > /tmp/benlogs/$p-b$((k+${BENIGN_OFF:-0})).log 2>&1
   done ) &
done; wait
for p in "$@"; do for k in 1 2 3; do
  [ -f ${BENIGN_PFX:-/tmp/wb_}$p/KEEP/$k/patch.diff ] || continue
  id=$p-b$((k+${BENIGN_OFF:-0})); DST=/verif/benign/$id; mkdir -p $DST
  cp ${BENIGN_PFX:-/tmp/wb_}$p/KEEP/$k/patch.diff $DST/; cp ${BENIGN_PFX:-/tmp/wb_}$p/KEEP/$k/check.py $DST/ 2>/dev/null
  python3 - ${BENIGN_PFX:-/tmp/wb_}$p/KEEP/$k/meta.json $DST/meta.json $p /tmp/benlogs/$id.log <<'PY'
import json, sys
src, dst, pid, log = sys.argv[1:5]
try: m = json.load(open(src))
except Exception: m = {}
lines = [l.rstrip() for l in open(log)]
m.update({'property': pid, 'ran': lines,
          'confirmed_by': 'tools/try_benign.sh in a scratch git worktree of /repo (patch applied there, never to /repo)'})
m['tests_pass'] = any('tests with change' in l and '133 passed' in l for l in lines)
m['check_silent'] = any('check %s' % pid in l and 'exit 0' in l for l in lines)
json.dump(m, open(dst, 'w'), indent=1)
print(dst, 'silent' if m['check_silent'] else 'ALARM', '' if m['tests_pass'] else '(tests do not pass)')
PY
done; done
