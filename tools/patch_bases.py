#!/usr/bin/env python3
"""For every archived change (seeded/*, benign/*): does patch.diff still apply to /repo HEAD?  If not (a later fix:
commit touches the same lines) record the newest /repo commit it applies to as meta['base'], so that
`BASE=<commit> tools/try_seeded.sh|try_benign.sh <dir> <PID>` reproduces it.  Nothing is changed in /repo."""
import glob
import json
import os
import subprocess
import tempfile

V = os.path.dirname(os.path.dirname(os.path.abspath(__file__)))


def main():
    dirs = [d for d in sorted(glob.glob(os.path.join(V, 'seeded', '*')) + glob.glob(os.path.join(V, 'benign', '*')))
            if os.path.isfile(os.path.join(d, 'patch.diff'))]
    wt = tempfile.mkdtemp(prefix='bases_', dir='/tmp')
    os.rmdir(wt)
    subprocess.run(['git', '-C', '/repo', 'worktree', 'add', '--detach', wt, 'HEAD', '-q'], check=True)
    try:
        commits = subprocess.check_output(['git', '-C', '/repo', 'rev-list', '--abbrev-commit', 'HEAD'], text=True).split()
        todo = set(dirs)
        where = {}
        for n, c in enumerate(commits):
            if not todo:
                break
            subprocess.run(['git', '-C', wt, 'checkout', '-q', '--detach', c], check=True)
            for d in sorted(todo):
                r = subprocess.run(['git', '-C', wt, 'apply', '--check', os.path.join(d, 'patch.diff')],
                                   stdout=subprocess.DEVNULL, stderr=subprocess.DEVNULL)
                if r.returncode == 0:
                    where[d] = 'HEAD' if n == 0 else c
                    todo.discard(d)
        for d in dirs:
            mp = os.path.join(d, 'meta.json')
            m = json.load(open(mp))
            w = where.get(d)
            if w == 'HEAD':
                m.pop('base', None)
                m.pop('base_note', None)
            elif w:
                m['base'] = w
                m['base_note'] = ('patch.diff no longer applies to /repo HEAD (a later fix: commit touches the same lines); '
                                  'it applies to %s: BASE=%s tools/try_%s.sh <dir> %s' % (w, w, 'benign' if '/benign/' in d else 'seeded', m.get('property', '<PID>')))
            else:
                m['base'] = 'unknown'
            json.dump(m, open(mp, 'w'), indent=1)
        n_head = sum(1 for d in dirs if where.get(d) == 'HEAD')
        print('%d archived changes: %d apply to HEAD, %d to an earlier commit, %d nowhere' %
              (len(dirs), n_head, sum(1 for d in dirs if where.get(d) not in (None, 'HEAD')), len(dirs) - len(where)))
        for d in dirs:
            if where.get(d) != 'HEAD':
                print('  ', os.path.basename(d), where.get(d))
    finally:
        subprocess.run(['git', '-C', '/repo', 'worktree', 'remove', '--force', wt])


if __name__ == '__main__':
    main()
