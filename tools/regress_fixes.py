"""For every 'fixed' entry of known_findings.json: revert that fix: commit in a scratch worktree of /repo and run the
property's quick check against it; the check must report the violation again (exit 1).  Results -> seeded/regressions.json.
Nothing is changed in /repo."""
import json
import os
import subprocess
import sys
import tempfile
from concurrent.futures import ThreadPoolExecutor

V = os.path.dirname(os.path.dirname(os.path.abspath(__file__)))


def one(f):
    wt = tempfile.mkdtemp(prefix='rev_', dir='/tmp')
    os.rmdir(wt)
    out = {'id': f['id'], 'property': f['property'], 'commit': f['commit']}
    try:
        subprocess.run(['git', '-C', '/repo', 'worktree', 'add', '--detach', wt, 'HEAD', '-q'], check=True)
        # later fix: commits that touch the same lines are reverted first (field revert_with, newest first)
        for c in list(f.get('revert_with', [])) + [f['commit']]:
            r = subprocess.run(['git', '-C', wt, 'revert', '--no-commit', c], stdout=subprocess.PIPE, stderr=subprocess.STDOUT, text=True)
            if r.returncode != 0:
                break
        if r.returncode != 0:
            out['result'] = 'revert does not apply cleanly (later fixes touch the same lines)'
            return out
        env = dict(os.environ, PYDL_SRC=wt)
        evp = os.path.join(V, 'evidence', f['property'] + '.json')
        saved = open(evp).read() if os.path.exists(evp) else None
        c = subprocess.run(['bin/check', f['property'], '--tier', 'quick'], cwd=V, env=env, stdout=subprocess.PIPE, stderr=subprocess.STDOUT, text=True)
        if saved is not None:
            open(evp, 'w').write(saved)      # the evidence file stays that of the unchanged tree
        nv = sum(1 for l in c.stdout.splitlines() if l.startswith('VIOLATION'))
        out['check_exit'] = c.returncode
        out['violation_lines'] = nv
        out['result'] = 'detected' if c.returncode == 1 and nv > 0 else 'NOT DETECTED'
        first = [l for l in c.stdout.splitlines() if l.startswith('  ')][:1]
        out['first'] = first[0].strip()[:200] if first else ''
    finally:
        subprocess.run(['git', '-C', '/repo', 'worktree', 'remove', '--force', wt], stdout=subprocess.DEVNULL, stderr=subprocess.DEVNULL)
    return out


def main():
    kf = [f for f in json.load(open(os.path.join(V, 'known_findings.json')))['findings'] if f['status'] == 'fixed']
    seen = set()
    todo = []
    for f in kf:
        if (f['property'], f['commit']) in seen:
            continue
        seen.add((f['property'], f['commit']))
        todo.append(f)
    only = set(sys.argv[1:])
    if only:
        todo = [f for f in todo if f['property'] in only or f['id'] in only]
    groups = {}
    for f in todo:                      # checks of one property share evidence/ and replays/: run them one after another
        groups.setdefault(f['property'], []).append(f)
    with ThreadPoolExecutor(int(os.environ.get('REGRESS_JOBS', '3'))) as ex:
        res = [r for g in ex.map(lambda fs: [one(f) for f in fs], groups.values()) for r in g]
    subprocess.run(['rm', '-rf'] + [os.path.join(V, 'replays', p) for p in {f['property'] for f in todo}])
    path = os.path.join(V, 'seeded', 'regressions.json')
    old = {}
    if os.path.exists(path):
        old = {r['id']: r for r in json.load(open(path))}
    for r in res:
        old[r['id']] = r
        print('%-9s %-4s %-8s %s' % (r['id'], r['property'], r['commit'], r['result']))
    json.dump(sorted(old.values(), key=lambda r: r['id']), open(path, 'w'), indent=1)


if __name__ == '__main__':
    main()
