#!/bin/bash
# usage: tools/seed_batch.sh C12 C13 ...   (expects /tmp/wt_<ID>/BREAK/{1,2}); runs try_seeded in parallel and archives
mkdir -p /tmp/seedlogs
for p in "$@"; do for k in 1 2; do
  [ -d /tmp/wt_$p/BREAK/$k ] && tools/try_seeded.sh /tmp/wt_$p/BREAK/$k $p > /tmp/seedlogs/$p-$k.log 2>&1 &
done; done; wait
for p in "$@"; do for k in 1 2; do
  [ -d /tmp/wt_$p/BREAK/$k ] || continue
  echo "== $p-$k: $(grep -h 'demo\|tests\|check' /tmp/seedlogs/$p-$k.log | cut -c1-90 | tr '\n' ';')"
  tools/keep_seeded.sh /tmp/wt_$p/BREAK/$k $p-$k $p /tmp/seedlogs/$p-$k.log | tail -1
done; done
