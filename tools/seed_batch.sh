#!/bin/bash
# usage: tools/seed_batch.sh [--round2] C12 C13 ...
#   round 1: /tmp/wt_<ID>/BREAK/{1,2} -> seeded/<ID>-{1,2};  round 2: /tmp/wu_<ID>/BREAK/{1,2} -> seeded/<ID>-{3,4}
PFX=/tmp/wt_; OFF=0
if [ "$1" = "--round2" ]; then PFX=/tmp/wu_; OFF=2; shift; fi
if [ "$1" = "--round3" ]; then PFX=/tmp/wv_; OFF=4; shift; fi
if [ "$1" = "--round4" ]; then PFX=/tmp/ww_; OFF=6; shift; fi
if [ "$1" = "--round5" ]; then PFX=/tmp/wx_; OFF=8; shift; fi
if [ "$1" = "--round6" ]; then PFX=/tmp/wy_; OFF=10; shift; fi
if [ "$1" = "--round7" ]; then PFX=/tmp/wz_; OFF=12; shift; fi
mkdir -p /tmp/seedlogs
for p in "$@"; do for k in 1 2; do
  [ -d $PFX$p/BREAK/$k ] && tools/try_seeded.sh $PFX$p/BREAK/$k $p > /tmp/seedlogs/$p-$((k+OFF)).log 2>&1 &
done; done; wait
for p in "$@"; do for k in 1 2; do
  [ -d $PFX$p/BREAK/$k ] || continue
  id=$p-$((k+OFF))
  echo "== $id: $(grep -h 'demo\|tests\|check' /tmp/seedlogs/$id.log | cut -c1-90 | tr '\n' ';')"
  tools/keep_seeded.sh $PFX$p/BREAK/$k $id $p /tmp/seedlogs/$id.log | tail -1
done; done
