#!/usr/bin/env python3
"""Which public function / method of pydl is exercised by which check?  (static: the name occurs in the check's harness module
or in a spec module the check uses).  Writes the generated block 'covmap' of DESIGN.md and prints the uncovered names."""
import ast
import glob
import os
import re
import sys

V = os.path.dirname(os.path.dirname(os.path.abspath(__file__)))
REPO = os.environ.get('PYDL_SRC', '/repo')
sys.path.insert(0, os.path.join(V, 'tools'))
from design_tables import block  # noqa


def public_names():
    out = []
    for f in sorted(glob.glob(os.path.join(REPO, 'pydl', '**', '*.py'), recursive=True)):
        rel = os.path.relpath(f, REPO)
        if '/tests/' in rel or rel.endswith(('conftest.py', 'version.py', '_astropy_init.py')):
            continue
        tree = ast.parse(open(f).read())
        for node in tree.body:
            if isinstance(node, ast.FunctionDef) and not node.name.startswith('_'):
                out.append((rel, node.name))
            elif isinstance(node, ast.ClassDef):
                out.append((rel, node.name))
                for m in node.body:
                    if isinstance(m, ast.FunctionDef) and not m.name.startswith('_'):
                        out.append((rel, node.name + '.' + m.name))
    return out


def main():
    props = sorted(glob.glob(os.path.join(V, 'harness', 'props', '[cx][0-9][0-9].py')))
    texts = {}
    for p in props:
        pid = os.path.basename(p)[:-3].upper()
        src = open(p).read()
        mods = set(re.findall(r"'((?:MC|Trace)_\w+?)(?:_\w+)?\.(?:tla|cfg)'", src))
        t = src
        for lib in re.findall(r'from \.\. import ([\w, ]+)', src):
            for name in re.split(r'[,\s]+', lib):
                q = os.path.join(V, 'harness', name.split(' as ')[0] + '.py')
                if name and name != 'core' and os.path.exists(q):
                    t += open(q).read()
        for m in mods:
            for d in ('mc', 'trace'):
                q = os.path.join(V, d, m + '.tla')
                if os.path.exists(q):
                    mt = open(q).read()
                    t += mt
                    for ext in re.findall(r'EXTENDS ([^\n]+)', mt):
                        for e in re.split(r'[,\s]+', ext):
                            q2 = os.path.join(V, 'spec', e + '.tla')
                            if os.path.exists(q2):
                                t += open(q2).read()
        texts[pid] = t
    rows = ['| module | function / method | exercised by |', '|---|---|---|']
    missing = []
    for rel, name in public_names():
        short = name.split('.')[-1]
        hits = [pid for pid, t in texts.items() if re.search(r'\b%s\b' % re.escape(short), t)]
        if name.endswith('Exception') or name.endswith('Warning'):
            hits = hits or []
        if not hits:
            missing.append('%s:%s' % (rel, name))
        rows.append('| %s | %s | %s |' % (rel.replace('pydl/', ''), name, ' '.join(hits) if hits else '**none**'))
    s = open(os.path.join(V, 'DESIGN.md')).read()
    s = block('covmap', '\n'.join(rows), s)
    open(os.path.join(V, 'DESIGN.md'), 'w').write(s)
    print('%d names, %d not referenced by any check:' % (len(rows) - 2, len(missing)))
    for m in missing:
        print('  ', m)


if __name__ == '__main__':
    main()
