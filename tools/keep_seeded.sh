#!/bin/bash
# usage: tools/keep_seeded.sh <src dir> <seeded id> <PID> <logfile of try_seeded.sh>
SRC="$1"; ID="$2"; PID="$3"; LOG="$4"
DST=/verif/seeded/$ID; mkdir -p $DST
cp $SRC/patch.diff $SRC/demo.py $DST/
python3 - "$SRC/meta.json" "$DST/meta.json" "$PID" "$LOG" <<'PY'
import json, sys
src, dst, pid, log = sys.argv[1:5]
try:
    m = json.load(open(src))
except Exception:
    m = {}
lines = [l.rstrip() for l in open(log)]
m.update({'property': pid,
          'confirmed_by': 'tools/try_seeded.sh in a scratch git worktree of /repo (patch applied there, never to /repo)',
          'ran': lines})
m['caught_by_quick_check'] = any('check %s' % pid in l and 'exit 1' in l for l in lines)
json.dump(m, open(dst, 'w'), indent=1)
print(dst, 'caught' if m['caught_by_quick_check'] else 'MISSED')
PY
