"""Regenerates the generated blocks of DESIGN.md section 10 from known_findings.json, seeded/*/meta.json and MANIFEST.json."""
import glob
import json
import os
import re

V = os.path.dirname(os.path.dirname(os.path.abspath(__file__)))


def block(name, text, s):
    a, b = '<!-- BEGIN GENERATED: %s -->' % name, '<!-- END GENERATED: %s -->' % name
    if a not in s:
        raise SystemExit('marker %s missing' % name)
    return s[:s.index(a) + len(a)] + '\n' + text + '\n' + s[s.index(b):]


def main():
    s = open(os.path.join(V, 'DESIGN.md')).read()
    kf = json.load(open(os.path.join(V, 'known_findings.json')))['findings']
    rows = ['| id | property | status | commit | what |', '|---|---|---|---|---|']
    for f in sorted(kf, key=lambda f: f['id']):
        rows.append('| %s | %s | %s | %s | %s |' % (f['id'], f['property'], f['status'], f.get('commit', '-'), f['what'].replace('|', '/')))
    s = block('findings', '\n'.join(rows), s)
    rows = ['| seeded id | property | what was changed | needs to manifest | quick check |', '|---|---|---|---|---|']
    for d in sorted((x for x in glob.glob(os.path.join(V, 'seeded', '*')) if os.path.isdir(x)),
                    key=lambda x: (os.path.basename(x).split('-')[0], int(os.path.basename(x).split('-')[1]))):
        m = json.load(open(os.path.join(d, 'meta.json')))
        res = 'caught' if m.get('caught_by_quick_check') else ('not asserted (outside what the check demands, see meta.json)' if m.get('not_asserted') else 'MISSED')
        if m.get('history'):
            res += ' (' + m['history'].split('(')[0].strip() + ')'
        rows.append('| %s | %s | %s | %s | %s |' % (os.path.basename(d), m['property'], str(m.get('summary', '')).replace('|', '/').replace('\n', ' ')[:260],
                                                     str(m.get('needs_to_manifest', '')).replace('|', '/').replace('\n', ' ')[:200], res))
    s = block('seeded', '\n'.join(rows), s)
    rows = ['| id | property | kind | what was changed | what an observer can still notice | tests | quick check |', '|---|---|---|---|---|---|---|']
    for d in sorted(x for x in glob.glob(os.path.join(V, 'benign', '*')) if os.path.isdir(x)):
        m = json.load(open(os.path.join(d, 'meta.json')))
        res = 'silent' if m.get('check_silent') else 'ALARM'
        if m.get('verdict'):
            res = m['verdict']
        rows.append('| %s | %s | %s | %s | %s | %s | %s |' % (os.path.basename(d), m['property'], m.get('kind', '?'),
                    str(m.get('summary', '')).replace('|', '/').replace('\n', ' ')[:240],
                    str(m.get('observable_differences', '')).replace('|', '/').replace('\n', ' ')[:200],
                    'pass' if m.get('tests_pass') else 'FAIL', res))
    s = block('benign', '\n'.join(rows), s)
    man = json.load(open(os.path.join(V, 'MANIFEST.json')))
    rows = ['| property | level claimed | spec module(s) | quick cmd |', '|---|---|---|---|']
    mods = {'C01': 'Yanny, MC_YannyDoc, Trace_YannyRead', 'C02': 'Yanny, MC_YannyLayout, MC_YannyCanon, Trace_YannyRead', 'C03': 'YannyFile, MC_YannyFile, Trace_YannyFile'}
    for c in man['checks']:
        pid = c['property_id']
        mm = mods.get(pid)
        if not mm:
            src = open(os.path.join(V, 'harness', 'props', pid.lower() + '.py')).read()
            mm = ', '.join(sorted(set(re.findall(r"'((?:MC|Trace)_\w+?)(?:_quick|_thorough)?\.(?:tla|cfg)'", src)))) or '-'
        rows.append('| %s | %s | %s | `%s` |' % (pid, c['level_claimed']['category'], mm, c['quick_cmd']))
    for n in man.get('not_applicable', []):
        rows.append('| %s | not claimed | - | %s |' % (n['property_id'], n['reason'][:90]))
    s = block('status', '\n'.join(rows), s)
    # per-property as-built notes from the evidence files (rule + assumptions are written by the checks themselves)
    out = []
    for c in man['checks']:
        pid = c['property_id']
        ep = os.path.join(V, 'evidence', pid + '.json')
        if not os.path.exists(ep):
            continue
        ev = json.load(open(ep))
        cov = ev['coverage']
        out.append('**%s** (%s; last %s run: %s TLC states, %s cases executed against pydl, %s distinct non-trivial).' % (
            pid, c['level_claimed']['category'], ev['tier'], cov.get('states', '-'), cov.get('traces_validated_against_impl', '-'),
            cov.get('distinct_nontrivial', '-')))
        out.append('Technique: ' + c.get('technique', ''))
        out.append('')
        out.append('What a case is: ' + str(cov.get('rule', '')).strip())
        out.append('')
        if cov.get('explanation'):
            out.append('Why the level is "other": ' + str(cov['explanation']).strip())
            out.append('')
        if ev.get('assumptions'):
            out.append('Assumed / left open / not covered:')
            for a in ev['assumptions']:
                out.append('* ' + str(a).strip())
        out.append('')
    s = block('asbuilt', '\n'.join(out), s)
    open(os.path.join(V, 'DESIGN.md'), 'w').write(s)
    print('DESIGN.md tables regenerated')


if __name__ == '__main__':
    main()
