INIT Init
NEXT Next
INVARIANT C01_WriteDocRoundTrip
CHECK_DEADLOCK FALSE
INVARIANT X_RowOfTotal
