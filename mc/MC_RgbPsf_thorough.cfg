CONSTANT Families = {"scale", "cut", "rgbbad", "byte", "arcsinh", "psf1", "psf2", "psf3"}
CONSTANT CutVals <- T_CutVals
CONSTANT ByteBits = {0, 1, 2, 3, 4, 5, 6, 7, 8, 9, 12, 16}
CONSTANT AsinhPick = 4
CONSTANT PsfPos <- T_PsfPos
CONSTANT PsfOrders = {1, 2, 3}
CONSTANT Psf3Orders = {1, 3}
INIT Init
NEXT Next
CHECK_DEADLOCK FALSE
INVARIANT X03_CallsAreDefined
INVARIANT X03_OutcomeWellFormed
INVARIANT X03_ScaleByOne
INVARIANT X03_ScaleComposes
INVARIANT X03_CutInsideBoxUnchanged
INVARIANT X03_CutSaturatesToColour
INVARIANT X03_CutNeverAboveOne
INVARIANT X03_CutHueAboutOrigin
INVARIANT X03_CutIdempotent
INVARIANT X03_ByteInRange
INVARIANT X03_ByteEnds
INVARIANT X03_ByteMonotone
INVARIANT X03_ByteWarnsAbove8
INVARIANT X03_ArcsinhLinearLimit
INVARIANT X03_PsfGarbageIrrelevant
INVARIANT X03_PsfTemplatesAdd
INVARIANT X03_PsfTwoPhrasings
INVARIANT X03_PsfCentreStaysCentre
INVARIANT X03_PsfNormalisedIntegral
INVARIANT X03_PsfNormalisedReadings
INVARIANT X03_PsfShape
INVARIANT X03_PsfJudgeAcceptsExpected
