CONSTANT Families = {"contig", "cir", "iau", "laxis", "print", "lines", "median", "cooling"}
CONSTANT ContigN = 13
CONSTANT ContigM = 6
CONSTANT CirN = 1500
CONSTANT IauStride = 1
CONSTANT LaxisD = 4
CONSTANT PrintK = 3
CONSTANT LinesN = 11
CONSTANT MedianBig = TRUE
INIT Init
NEXT Next
INVARIANT X02_ContigLaws
INVARIANT X02_CirLaws
INVARIANT X02_IauLaws
INVARIANT X02_LaxisLaws
INVARIANT X02_PrintLaws
INVARIANT X02_LinesLaws
INVARIANT X02_MedianLaws
INVARIANT X02_InterpLaws
CHECK_DEADLOCK FALSE
