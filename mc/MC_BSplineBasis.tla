-------------------------- MODULE MC_BSplineBasis --------------------------
(* Bounded-exhaustive instances for C08.  Every state that is not a root or a seed is one   *)
(* case - a construction call (kind "opt") or an evaluation problem (kind "eval") -         *)
(* together with the outcome the specification demands; the dump is replayed into the real  *)
(* pydl.pydlutils.bspline.bspline (constructor, value, intrv, bsplvn).                      *)
(* root -> seed -> cases so that all TLC workers share the work.                            *)
EXTENDS BSplineBasis, TLC
CONSTANTS Families,   \* subset of {"eval", "order", "rep", "full", "intx", "opt"}
          BkMax,      \* integer breakpoints are drawn from 0..BkMax
          Nords,      \* orders explored
          SpreadSel,  \* "all": bkspread 1/2 and 2 besides 1 in the eval family; "none": only 1
          RepLen,     \* the "rep" family takes breakpoint sequences of length 3..RepLen
          OrderLen,   \* the "order" family enumerates every sequence of 1..OrderLen points of its pool
          FullNords, FullExtra,  \* "full" family: orders and numbers of cells beyond the minimum
          IntxMax,    \* "intx" family: doubled integer breakpoints from 2*(0..IntxMax), all integer points
          FormAllNs,  \* data sizes for which an option case is enumerated in EVERY form that can carry its data;
                      \* for the other sizes one form per case, rotating
          Ns,         \* data sizes of the option sweeps
          OptNords,   \* orders of the option sweeps
          AgreeNords  \* orders for which the bare recursion is compared with the pruned one
VARIABLES c, exp

I(n) == OfInt(n)
Q(n, d) == R(n, d)
Rev(s) == [k \in 1..Len(s) |-> s[Len(s) + 1 - k]]
IGCD(a, b) == GCD(a, b)
Spreads == IF SpreadSel = "all" THEN {Q(1, 2), I(2)} ELSE {}

(* ------------------------------ evaluation points ------------------------------ *)
(* every half from a-1/2 to b+1/2 (a, b integers: knot hits, both ends, just outside);     *)
(* for orders up to 4 also two thirds (the 32-bit bound of TLC limits denominators)        *)
Pool(a, b, nord) ==
  LET halves == Tup([k \in 1..(2 * (b - a) + 3) |-> Q(2 * a - 2 + k, 2)])
  IN IF nord <= 4 THEN Sorted(halves \o <<Q(3 * a + 1, 3), Q(3 * b - 1, 3)>>) ELSE halves
Stride(L) == CHOOSE s \in {7, 5, 3, 11, 13} : IGCD(s, L) = 1
(* the orders in which the points of P are handed to the evaluation, as index sequences:    *)
(* ascending, descending, a scrambled order with repeated points                            *)
Asc(L) == Tup([k \in 1..L |-> k])
Desc(L) == Tup([k \in 1..L |-> L + 1 - k])
Mix(L) == [k \in 1..L |-> ((k * Stride(L)) % L) + 1] \o <<2, L - 1, 2>>
(* an evaluation order: the indices into P in the order handed over, the form (representation) *)
(* of the array that carries them, and whether numpy computes in single precision for that form *)
Ord(idx, form) == [idx |-> idx, form |-> form, single |-> SinglePrecision(form)]
PtsOf(P, idx) == Tup([k \in 1..Len(idx) |-> P[idx[k]]])
Scr(idx) == IF Len(idx) < 2 THEN idx ELSE Tup([k \in 1..Len(idx) |-> idx[((k * Stride(Len(idx))) % Len(idx)) + 1]])
(* the points of P a form can carry, scrambled, in that form (nothing if there are none) *)
SubOrder(P, form) ==
  LET ii == SeqOfSet({k \in 1..Len(P) : Representable(form, P[k])}) IN IF ii = <<>> THEN <<>> ELSE <<Ord(Scr(ii), form)>>
(* idx in the n-th form that can carry its points *)
FormOrder(P, idx, n) == Ord(idx, PickForm(PtsOf(P, idx), n))
IntFormOf(n) == <<"i8", "i4", "i2", "u1">>[(n % 4) + 1]
(* coefficient vectors: a ramp, a pseudo-random integer vector, one basis function *)
Coefs(n) == << Tup([k \in 1..n |-> k]), Tup([k \in 1..n |-> ((k * k * 7 + 3 * k) % 11) - 5]),
               Tup([k \in 1..n |-> IF k = (n \div 2) + 1 THEN 1 ELSE 0]) >>

(* an evaluation problem: knots t (built by the constructor from bk/spread when how = "bkpt", *)
(* stored directly when how = "direct"), points P, the orders in which they are evaluated     *)
(* kform: the form of the breakpoint array the object is built from (double or single precision  *)
(* knots; the enumerated knots are exact in both); E: probes a hair beside the ends of the range  *)
KForm(t, nord) == IF RepresentsAll("f4", t) /\ (nord + Len(t)) % 2 = 0 THEN "f4" ELSE "f8"
EvalCase(fam, how, nord, bk, spread, t, P, orders) ==
  [kind |-> "eval", fam |-> fam, how |-> how, nord |-> nord, bk |-> bk, spread |-> spread, t |-> t,
   P |-> P, orders |-> orders, cs |-> Coefs(Len(t) - nord), kform |-> KForm(t, nord), E |-> EndProbes(t, nord)]
EvalExp(cc) == [knots |-> cc.t, pts |-> PointsExp(cc.t, cc.nord, cc.cs, cc.P), ends |-> EndMask(cc.t, cc.nord)]

Root == [kind |-> "root"]
NoExp == [knots |-> <<>>, pts |-> <<>>, ends |-> <<>>]

(* ---- family "eval": strictly increasing integer breakpoints, padded by the constructor ---- *)
BkSets == {S \in SUBSET (0..BkMax) : Cardinality(S) \in 2..4}
(* 32-bit bound of TLC: for orders 5 and 6 the padding (first spacing times nord-1) stays within 10 *)
FirstGap(S) == MinOf(S \ {MinOf(S)}) - MinOf(S)
Fits(nord, S) == nord <= 4 \/ FirstGap(S) * (nord - 1) <= 10
EvalSeed(nord, S, spread) == [kind |-> "seed", fam |-> "eval", nord |-> nord, S |-> S, spread |-> spread]
EvalStep ==
  /\ c.kind = "seed" /\ c.fam = "eval"
  /\ LET bk == Ints(SeqOfSet(c.S))
         t == Pad(bk, c.nord, c.spread)
         P == Pool(MinOf(c.S), MaxOf(c.S), c.nord)
         L == Len(P)
     IN c' = EvalCase("eval", "bkpt", c.nord, bk, c.spread, t, P,
                      IF c.spread = One
                      THEN <<Ord(Asc(L), "f8"), Ord(Desc(L), "f8swap"), Ord(Mix(L), "f8strided")>>
                           \o SubOrder(P, IntFormOf(c.nord + Cardinality(c.S))) \o SubOrder(P, "f4")
                      ELSE <<Ord(Mix(L), "f8readonly")>> \o SubOrder(P, IntFormOf(c.nord + Cardinality(c.S))))
  /\ exp' = EvalExp(c')

(* ---- family "order": every sequence of 1..OrderLen points from a five-point pool ---- *)
OrderBk == {{0, 1, 3}, {0, 2, 3, 4}}
OrderPool(S) == << Q(2 * MinOf(S) - 1, 2), I(MinOf(S)), I(MaxOf(S \ {MaxOf(S)})), Q(2 * MaxOf(S) - 1, 2), I(MaxOf(S)) >>
OrderSeed(nord, S, len, first) == [kind |-> "seed", fam |-> "order", nord |-> nord, S |-> S, len |-> len, first |-> first]
OrderStep ==
  /\ c.kind = "seed" /\ c.fam = "order"
  /\ LET bk == Ints(SeqOfSet(c.S))
         t == Pad(bk, c.nord, One)
         P == OrderPool(c.S)
     IN IF c.len = 0                  \* no point at all: the evaluation returns empty arrays
        THEN c' = EvalCase("order", "bkpt", c.nord, bk, One, t, P, <<Ord(<<>>, "f8")>>)
        ELSE \E f \in [1..c.len -> 1..5] :
               /\ f[1] = c.first
               /\ c' = EvalCase("order", "bkpt", c.nord, bk, One, t, P, <<FormOrder(P, Tup(f), c.first + c.len + c.nord)>>)
  /\ exp' = EvalExp(c')

(* ---- family "rep": non-decreasing integer breakpoints with repeats (explicit bkpt) ---- *)
RepBks == {s \in UNION {[1..n -> 0..3] : n \in 3..RepLen} :
             /\ \A k \in 1..(Len(s) - 1) : s[k] <= s[k + 1]
             /\ \E k \in 1..(Len(s) - 1) : s[k] = s[k + 1]
             /\ s[1] < s[Len(s)]
             /\ \A a \in 0..3 : Cardinality({k \in 1..Len(s) : s[k] = a}) <= 3}
RepSeed(nord, s) == [kind |-> "seed", fam |-> "rep", nord |-> nord, s |-> s]
RepStep ==
  /\ c.kind = "seed" /\ c.fam = "rep"
  /\ LET bk == Ints(c.s)
         t == Pad(bk, c.nord, One)
         P == Pool(c.s[1], c.s[Len(c.s)], c.nord)
     IN c' = EvalCase("rep", "bkpt", c.nord, bk, One, t, P, <<FormOrder(P, Mix(Len(P)), c.nord + Len(c.s) + c.s[2])>>)
  /\ exp' = EvalExp(c')

(* ---- family "full": any strictly increasing knot vector (cell widths 1 or 2), set directly ---- *)
FullSeed(nord, e, w1) == [kind |-> "seed", fam |-> "full", nord |-> nord, e |-> e, w1 |-> w1]
RECURSIVE Cumul(_, _)
Cumul(w, k) == IF k = 0 THEN 0 ELSE Cumul(w, k - 1) + w[k]
FullStep ==
  /\ c.kind = "seed" /\ c.fam = "full"
  /\ LET m == 2 * c.nord + c.e
     IN \E w \in [1..(m - 1) -> {1, 2}] :
          /\ \A k \in 1..IMin(4, m - 1) : w[k] = c.w1[k]
          /\ LET ti == Tup([k \in 1..m |-> Cumul(w, k - 1)])
                 t == Ints(ti)
                 P == Pool(ti[c.nord], ti[m - c.nord + 1], c.nord)
             IN c' = EvalCase("full", "direct", c.nord, SubSeq(t, c.nord, m - c.nord + 1), One, t, P,
                              <<FormOrder(P, Mix(Len(P)), ti[m])>>)
  /\ exp' = EvalExp(c')

(* ---- family "intx": the eval family on a doubled grid, so that EVERY point (knot hits, cell  ---- *)
(* ---- midpoints, just outside) is an integer and can be handed over in the integer forms      ---- *)
IntxSeed(nord, S) == [kind |-> "seed", fam |-> "intx", nord |-> nord, S |-> S]
IntxStep ==
  /\ c.kind = "seed" /\ c.fam = "intx"
  /\ LET bk == Ints(SeqOfSet({2 * a : a \in c.S}))
         t == Pad(bk, c.nord, One)
         a == 2 * MinOf(c.S)
         b == 2 * MaxOf(c.S)
         P == Tup([k \in 1..(b - a + 3) |-> I(a - 2 + k)])
         L == Len(P)
     IN c' = EvalCase("intx", "bkpt", c.nord, bk, One, t, P,
                      <<Ord(Asc(L), "i8"), Ord(Desc(L), "i4"), Ord(Mix(L), "i2")>> \o SubOrder(P, "u1")
                      \o <<Ord(Mix(L), "f4"), Ord(Asc(L), "f8")>>)
  /\ exp' = EvalExp(c')

(* ---- family "opt": the breakpoint options on small data sets ---- *)
Data(N, v) ==
  CASE v = "grid" -> Tup([k \in 1..N |-> I(k - 1)])
    [] v = "rev" -> Tup([k \in 1..N |-> I(N - k)])
    [] v = "shuf" -> Tup([k \in 1..N |-> I((k * (IF IGCD(5, N) = 1 THEN 5 ELSE 7) + 2) % N)])
    [] v = "clust" -> Tup([k \in 1..N |-> Q((k - 1) * (k - 1), 4)])
    [] v = "ties" -> Tup([k \in 1..N |-> I((k - 1) \div 2)])
    [] v = "toptie" -> Tup([k \in 1..N |-> IF k = N THEN I(N) ELSE IF k >= N - 3 THEN I(N - 4) ELSE I(k - 1)])
    [] v = "const" -> Tup([k \in 1..N |-> I(3)])          \* a data range of zero width
DataVariants(N) == IF N = 1 THEN {"grid"}                   \* a single datum
                   ELSE {"grid", "rev", "shuf", "clust", "const"} \cup (IF N >= 3 THEN {"ties"} ELSE {})
                        \cup (IF N >= 5 THEN {"toptie"} ELSE {})
OptSeed(N, v) == [kind |-> "seed", fam |-> "opt", N |-> N, v |-> v]
(* form: the representation of the data array; aform: of the bkpt / placed array *)
OptCase(N, v, data, nord, spread, opt, arg, form, aform) ==
  [kind |-> "opt", N |-> N, v |-> v, data |-> data, nord |-> nord, spread |-> spread, opt |-> opt, arg |-> arg,
   form |-> form, aform |-> aform]
DataForms(data, n) == IF Len(data) \in FormAllNs THEN {f \in Forms : RepresentsAll(f, data)} ELSE {PickForm(data, n)}
RECURSIVE HashQ(_)
HashQ(q) == IF q = <<>> THEN 0 ELSE (q[1][1] + 3 * q[1][2] + 5 * HashQ(Tail(q))) % 1009
OptExp(cc) == [knots |-> Knots(cc.data, cc.nord, cc.spread, cc.opt, cc.arg), pts |-> <<>>,
               exact |-> PinnedDown(cc.data, cc.opt),
               devs |-> DevsOf(cc.data, cc.opt, cc.arg)
                        \cup (IF Dev_BreakpointArrayInPlace(cc.opt, cc.aform) THEN {"D-C08-7"} ELSE {})]
PlacedPool(lo, hi) == {QSub(lo, One), lo, QAdd(lo, One), QMul(Q(1, 2), QAdd(lo, hi)), QSub(hi, One), hi, QAdd(hi, One)}
RECURSIVE QSeqOfSet(_)
QSeqOfSet(S) == IF S = {} THEN <<>>
                ELSE LET a == CHOOSE u \in S : \A w \in S : QLe(u, w) IN <<a>> \o QSeqOfSet(S \ {a})
ExplicitBks(lo, hi) ==
  LET mid == QMul(Q(1, 2), QAdd(lo, hi)) IN
  { <<lo, hi>>, <<lo, mid, hi>>, <<QSub(lo, One), mid, QAdd(hi, I(2))>>,
    <<QAdd(lo, Q(1, 4)), mid, QSub(hi, Q(1, 4))>>, <<QAdd(lo, Q(1, 4)), QAdd(hi, One)>>,
    <<I(Floor(lo) + 1), I(Floor(lo) + 2), I(Floor(hi) + 3)>> } \cup
  (IF Floor(lo) + 1 < Floor(hi) THEN {<<I(Floor(lo) + 1), I(Floor(hi))>>} ELSE {})
OptStep ==
  /\ c.kind = "seed" /\ c.fam = "opt"
  /\ LET data == Data(c.N, c.v)
         lo == QMinSeq(data)
         hi == QMaxSeq(data)
     IN \E nord \in OptNords :
          \/ \E sp \in {Q(1, 2), One, Q(3, 2), I(2), I(5), I(20)} : \E form \in DataForms(data, c.N + nord + sp[1] + sp[2]) :
               c' = OptCase(c.N, c.v, data, nord, One, "bkspace", sp, form, "f8")
          \/ \E n \in 0..7 : \E spread \in (IF c.v = "grid" THEN {One, Q(1, 2), I(2)} ELSE {One}) :
               \E form \in DataForms(data, c.N + nord + n + spread[1]) :
                 c' = OptCase(c.N, c.v, data, nord, spread, "nbkpts", n, form, "f8")
          \/ \E e \in 1..(c.N + 1) : \E form \in DataForms(data, c.N + nord + e) :
               c' = OptCase(c.N, c.v, data, nord, One, "everyn", e, form, "f8")
          \/ /\ c.v \in {"grid", "rev"} /\ nord \in {MinOf(OptNords), MaxOf(OptNords)}
             /\ \E S \in SUBSET PlacedPool(lo, hi) : \E spread \in (IF c.N % 2 = 1 THEN {One, Q(1, 2)} ELSE {One}) :
                  LET arg == QSeqOfSet(S) IN
                  c' = OptCase(c.N, c.v, data, nord, spread, "placed", arg,
                               PickForm(data, nord + HashQ(arg)), PickForm(arg, c.N + spread[2] + HashQ(arg)))
          \/ /\ c.v \in {"grid", "shuf", "clust"} /\ QLt(lo, hi)
             /\ \E bk \in {z \in ExplicitBks(lo, hi) : NonDecreasing(z)} : \E form \in DataForms(data, c.N + nord + HashQ(bk)) :
                  c' = OptCase(c.N, c.v, data, nord, One, "bkpt", bk, form, PickForm(bk, c.N + nord + Len(bk)))
  /\ exp' = OptExp(c')

RootStep ==
  /\ c = Root
  /\ \/ /\ "eval" \in Families
        /\ \E nord \in Nords : \E S \in {Z \in BkSets : Fits(nord, Z)} : \E spread \in ({One} \cup (IF nord <= 4 THEN Spreads ELSE {})) : c' = EvalSeed(nord, S, spread)
     \/ /\ "order" \in Families
        /\ \E nord \in {1, 2, 4} \cap Nords : \E S \in OrderBk :
             \/ \E len \in 1..OrderLen : \E first \in 1..5 : c' = OrderSeed(nord, S, len, first)
             \/ c' = OrderSeed(nord, S, 0, 0)
     \/ /\ "intx" \in Families
        /\ \E nord \in Nords : \E S \in {Z \in SUBSET (0..IntxMax) : Cardinality(Z) \in 2..4 /\ Fits(nord, Z)} :
             c' = IntxSeed(nord, S)
     \/ /\ "rep" \in Families
        /\ \E nord \in Nords : \E s \in RepBks : c' = RepSeed(nord, s)
     \/ /\ "full" \in Families
        /\ \E nord \in FullNords : \E e \in FullExtra : \E w1 \in [1..4 -> {1, 2}] : c' = FullSeed(nord, e, w1)
     \/ /\ "opt" \in Families
        /\ \E N \in Ns : \E v \in DataVariants(N) : c' = OptSeed(N, v)
  /\ exp' = NoExp

Init == c = Root /\ exp = NoExp
Next == RootStep \/ EvalStep \/ OrderStep \/ RepStep \/ FullStep \/ IntxStep \/ OptStep

IsEval == c.kind = "eval"
IsOpt == c.kind = "opt"
IsCase == IsEval \/ IsOpt
Pts == 1..Len(exp.pts)

(* ------------------------------ spec-level properties ------------------------------ *)
C08_KnotsNonDecreasing == IsCase => KnotsNonDecreasing(exp.knots)
C08_CoversData == IsOpt => CoversData(exp.knots, c.nord, QMinSeq(c.data), QMaxSeq(c.data))
C08_ExtraKnots ==
  /\ IsCase => ExtraKnots(exp.knots, c.nord)
  /\ IsOpt => PaddingLaw(Breakpoints(c.data, c.opt, c.arg), c.nord, c.spread)
  /\ (IsEval /\ c.how = "bkpt") => PaddingLaw(c.bk, c.nord, c.spread)
(* what each option documents about its breakpoints *)
C08_OptionLaws == IsOpt =>
  LET bk == Breakpoints(c.data, c.opt, c.arg)
      lo == QMinSeq(c.data)
      hi == QMaxSeq(c.data)
      step == QSub(bk[2], bk[1])
  IN /\ Len(bk) >= 2 /\ NonDecreasing(bk)
     /\ c.opt \in {"nbkpts", "bkspace", "everyn"} => bk[1] = lo /\ bk[Len(bk)] = hi
     /\ c.opt = "nbkpts" => Len(bk) = IMax(c.arg, 2) /\ \A k \in 1..(Len(bk) - 1) : QSub(bk[k + 1], bk[k]) = step
     /\ c.opt = "bkspace" => /\ \A k \in 1..(Len(bk) - 1) : QSub(bk[k + 1], bk[k]) = step
                             /\ QLe(c.arg, QSub(hi, lo)) => QLe(c.arg, step) /\ QLt(step, QMul(I(2), c.arg))
     /\ c.opt = "placed" => \A k \in 1..Len(bk) : QLe(lo, bk[k]) /\ QLe(bk[k], hi)
     /\ c.opt = "everyn" => /\ \A k \in 1..Len(bk) : \E a \in 1..Len(c.data) : bk[k] = c.data[a]
                            /\ Len(bk) = IMax(Len(c.data) \div c.arg, 2)
     /\ c.opt = "bkpt" => /\ Len(bk) = Len(c.arg)
                          /\ \A k \in 2..(Len(bk) - 1) : bk[k] = c.arg[k]
C08_PartitionOfUnity == IsEval =>
  \A p \in Pts : exp.pts[p].inr =>
     \A k \in 1..Len(exp.pts[p].cand) : RowNonNegative(exp.pts[p].cand[k].row) /\ RowSumsToOne(exp.pts[p].cand[k].row)
C08_RangeIsCovered == IsEval =>
  \A p \in Pts : /\ RangeIsCovered(exp.knots, c.nord, c.P[p])
                 /\ Len(exp.pts[p].cand) <= 2
                 /\ ~exp.pts[p].inr => exp.pts[p].cand = <<>>
C08_DefinitionsAgree == (IsEval /\ c.nord \in AgreeNords /\ c.fam \in {"eval", "rep", "full", "intx"}) =>
  \A p \in {q \in Pts : c.nord <= 4 \/ q % 4 = 1} : DefinitionsAgree(exp.knots, c.nord, c.P[p])
C08_Continuity == IsEval =>
  \A p \in Pts : Mult(exp.knots, c.P[p]) < c.nord =>
     \A k \in 1..Len(exp.pts[p].cand) : exp.pts[p].cand[k].vals = exp.pts[p].cand[1].vals
C08_ProcedureEqualsDefinition == IsEval =>
  \A o \in 1..Len(c.orders) :
     ProcedureEqualsDefinition(exp.knots, c.nord, PtsOf(c.P, c.orders[o].idx))
C08_MaskExactlyOutside == IsEval =>
  /\ MaskExactlyOutside(exp.knots, c.nord, c.P)
  /\ MaskExactlyOutside(exp.knots, c.nord, c.E)
  /\ exp.ends = Tup([a \in 1..Len(c.E) |-> ~(QLt(c.E[a], Lo(exp.knots, c.nord)) \/ QLt(Hi(exp.knots, c.nord), c.E[a]))])
  /\ (QLt(Lo(exp.knots, c.nord), Hi(exp.knots, c.nord)) /\ QLt(Small, QSub(Hi(exp.knots, c.nord), Lo(exp.knots, c.nord))))
        => exp.ends = <<FALSE, TRUE, TRUE, TRUE, TRUE, FALSE, FALSE, TRUE, TRUE, FALSE>>
  /\ \A p \in Pts : exp.pts[p].inr = MaskOf(exp.knots, c.nord, c.P[p])
(* every array is handed over in a form that carries its values exactly *)
C08_FormsRepresent ==
  /\ IsEval => RepresentsAll(c.kform, c.t)
  /\ IsEval => \A o \in 1..Len(c.orders) :
        /\ c.orders[o].form \in Forms /\ RepresentsAll(c.orders[o].form, PtsOf(c.P, c.orders[o].idx))
        /\ c.orders[o].single = SinglePrecision(c.orders[o].form)
  /\ IsOpt => /\ c.form \in Forms /\ RepresentsAll(c.form, c.data)
              /\ c.aform \in Forms /\ (c.opt \in {"bkpt", "placed"} => RepresentsAll(c.aform, c.arg))
(* the specified outcome is a function of the values alone: re-labelling every array of a case  *)
(* with another form leaves it unchanged                                                         *)
Reform(cc, f) == IF cc.kind = "opt" THEN [cc EXCEPT !.form = f, !.aform = f]
                 ELSE [cc EXCEPT !.orders = Tup([o \in 1..Len(cc.orders) |-> Ord(cc.orders[o].idx, f)])]
C08_FormIndependent ==
  /\ (IsOpt /\ c.nord <= 2) => \A f \in {"i8", "f8readonly"} :
        LET o == OptExp(Reform(c, f)) IN o.knots = exp.knots /\ o.exact = exp.exact
  /\ (IsEval /\ c.fam \in {"order", "intx"} /\ c.nord <= 3) => \A f \in {"f8", "i2"} : EvalExp(Reform(c, f)) = exp
=============================================================================
