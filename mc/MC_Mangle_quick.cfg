CONSTANT Families = {"cap", "poly", "window", "usecaps"}
CONSTANT MaxPolyCaps = 2
CONSTANT MaxWindow = 2
CONSTANT MaxUseCaps = 2
CONSTANT PoolSize = "full"
CONSTANT LawStride = 2
CONSTANT WindowNs = {0, 1}
INIT Init
NEXT Next
INVARIANT C12_EmptyContainsAll
INVARIANT C12_EmptyExpAll
INVARIANT C12_FirstNIgnoresRest
INVARIANT C12_BitsBeyondIgnored
INVARIANT C12_CentreInsidePositiveCap
INVARIANT C12_CentreOutsideNegativeCap
INVARIANT C12_DotAgreesWithRat
INVARIANT C12_ComplementCap
INVARIANT C12_DecidedIsExact
INVARIANT C12_DevOffIsSpec
INVARIANT C12_FirstMatchIsFirst
INVARIANT C12_FormsAgree
INVARIANT C12_UseCapsExactlyListed
INVARIANT C12_SeqIsDeclarative
CHECK_DEADLOCK FALSE
