---------------------------- MODULE MC_SkyGeom ----------------------------
(* Bounded-exhaustive enumeration for C18.  Every state is one case together with the    *)
(* outcome SkyGeom.tla specifies for it; the dump is replayed into the real               *)
(* stripe_to_eta / stripe_to_incl / SDSSMuNu <-> ICRS transforms / gcirc / angles_to_x /  *)
(* x_to_angles.  Case kinds: "stripe", "anchor", "vecanchor", "dist".                     *)
EXTENDS SkyGeom, TLC
CONSTANTS Parts,        \* subset of {"stripe", "anchor", "vecanchor", "dist"}
          ThetaStep,    \* spacing (tenths of a degree) of the anchors on the perpendicular circle
          KsDeg, KsRad, \* exponents k of the fine parts m / 2^k (degree / hour conventions; radians)
          Ms            \* mantissas m of the fine parts
VARIABLES c, exp

(* coarse parts: eighths of a degree / hour / radian *)
DecBs == {-720, -719, -480, -243, -1, 0, 1, 100, 243, 360, 480, 719, 720}
RaBsDeg == {0, 1, 760, 1440, 2000, 2879}
RaFewDeg == {0, 760}
RaBsHour == {0, 1, 51, 96, 150, 191}
RaFewHour == {0, 51}
DecBsRad == {-12, -8, -3, 0, 1, 5, 8, 12}
RaBsRad == {0, 1, 13, 25, 50}

(* ------------------------------ case constructors ------------------------------------ *)
Pt(ra, dec) == [ra |-> ra, dec |-> dec]
DC(fam, u, k, p, q) == [kind |-> "dist", fam |-> fam, units |-> u, k |-> k, p |-> p, q |-> q]
RaBs(u) == IF u = 1 THEN RaBsHour ELSE IF u = 2 THEN RaBsDeg ELSE RaBsRad
RaFew(u) == IF u = 1 THEN RaFewHour ELSE IF u = 2 THEN RaFewDeg ELSE RaBsRad
DecB(u) == IF u = 0 THEN DecBsRad ELSE DecBs
Ks(u) == IF u = 0 THEN KsRad ELSE KsDeg
HalfTurnB(u) == IF u = 1 THEN 96 ELSE 1440
TurnB(u) == 2 * HalfTurnB(u)
Inward(b, m) == IF b > 0 THEN -m ELSE m        \* fine offsets point towards the equator
Units == {0, 1, 2}
IntRa(u) == IF u = 1 THEN {0, 1, 12, 13, 23} ELSE IF u = 2 THEN {0, 9, 10, 180, 190, 359} ELSE {0, 1, 3, 6}
IntDec(u) == IF u = 0 THEN {-1, 0, 1} ELSE {-90, -45, -1, 0, 1, 30, 90}
IE(v) == EA(8 * v, 0)
DegUnits == {1, 2}

InitStripe == \E s \in Stripes : c = [kind |-> "stripe", stripe |-> s]
ExpStripe(cc) == [eta10 |-> Eta10(cc.stripe), incl10 |-> Incl10(cc.stripe), node10 |-> Node10, forms |-> FormsFor({cc.stripe})]

Sources == {[on |-> "circ", t |-> j * ThetaStep] : j \in 0 .. ((3600 \div ThetaStep) - 1)}
           \cup {[on |-> "axis", t |-> j] : j \in {0, 1}}
(* the points whose image is a pole of the output system (the poles of the stripe's great  *)
(* circle for ra,dec -> mu,nu; the celestial poles for mu,nu -> ra,dec)                     *)
PoleSources(s, dir) == {[on |-> "circ", t |-> (900 * j + (IF dir = "fwd" THEN -1 ELSE 1) * Incl10(s)) % 3600] : j \in {1, 3}}
InitAnchor == \E s \in Stripes : \E dir \in {"fwd", "inv"} : \E a \in Sources \cup PoleSources(s, dir) :
                 c = [kind |-> "anchor", stripe |-> s, dir |-> dir, src |-> a]
ImageOf(cc, a) == IF cc.dir = "fwd" THEN ToEq(cc.stripe, a) ELSE ToMuNu(cc.stripe, a)
ExpAnchor(cc) == LET im == ImageOf(cc, cc.src)
                     polar == AbsI(PosOf(im).lat) >= 899
                 IN [image |-> im, src |-> PosOf(cc.src), dst |-> PosOf(im), polar |-> polar, tol |-> PosTolNdeg(polar),
                     forms |-> PosForms(PosOf(cc.src)), carriers |-> CarriersFor(cc.src)]

InitVecAnchor == \E lon \in AxisLons : \E lat \in AxisLats : \E l \in BOOLEAN :
                    c = [kind |-> "vecanchor", lon |-> lon, lat |-> lat, latitude |-> l]
ExpVecAnchor(cc) == [angles |-> AnglesArg(cc.lon, cc.lat, cc.latitude), x |-> UnitVec(cc.lon, cc.lat),
                     polar |-> AbsI(cc.lat) = 900, tol |-> PosTolNdeg(AbsI(cc.lat) = 900),
                     aforms |-> LET a == AnglesArg(cc.lon, cc.lat, cc.latitude) IN FormsFor({a[1] \div 10, a[2] \div 10}),
                     xforms |-> LET x == UnitVec(cc.lon, cc.lat) IN FormsFor({x[1], x[2], x[3]})]

InitDist ==
  \* one meridian, a coarse declination and a fine step from it
  \/ \E u \in Units : \E k \in Ks(u) : \E m \in Ms : \E rb \in RaFew(u) : \E b \in DecB(u) :
        c = DC("samera", u, k, Pt(EA(rb, 0), EA(b, 0)), Pt(EA(rb, 0), EA(b, Inward(b, m))))
  \* one meridian, two fine steps from the same coarse declination, RA with a fine part too
  \/ \E u \in Units : \E k \in Ks(u) : \E m \in Ms : \E rb \in RaFew(u) : \E b \in DecB(u) :
        c = DC("samera", u, k, Pt(EA(rb, m), EA(b, Inward(b, m))), Pt(EA(rb, m), EA(b, Inward(b, 3 * m))))
  \* one meridian, coarse declinations
  \/ \E u \in Units : \E rb \in RaFew(u) : \E b1, b2 \in DecB(u) :
        c = DC("samera", u, KMin, Pt(EA(rb, 0), EA(b1, 0)), Pt(EA(rb, 0), EA(b2, 0)))
  \* both on the equator, fine and coarse RA differences
  \/ \E u \in Units : \E k \in Ks(u) : \E m \in Ms : \E rb \in RaBs(u) :
        c = DC("equator", u, k, Pt(EA(rb, 0), EZ), Pt(EA(rb, m), EZ))
  \/ \E u \in Units : \E rb1, rb2 \in RaBs(u) : (u = 0 => AbsI(rb1 - rb2) <= 24) /\
        c = DC("equator", u, KMin, Pt(EA(rb1, 0), EZ), Pt(EA(rb2, 0), EZ))
  \* both on the equator, on either side of RA = 0 = one turn
  \/ \E u \in DegUnits : \E k \in Ks(u) : \E m1 \in Ms \cup {0} : \E m2 \in Ms :
        c = DC("seam", u, k, Pt(EA(0, m1), EZ), Pt(EA(TurnB(u), -m2), EZ))
  \/ \E u \in DegUnits : \E j1, j2 \in 0..3 : j1 + j2 > 0 /\
        c = DC("seam", u, KMin, Pt(EA(j1, 0), EZ), Pt(EA(TurnB(u) - j2, 0), EZ))
  \* one point at a pole
  \/ \E u \in DegUnits : \E sg \in {-1, 1} : \E rb1, rb2 \in RaFew(u) : \E b \in DecBs :
        c = DC("pole", u, KMin, Pt(EA(rb1, 0), EA(720 * sg, 0)), Pt(EA(rb2, 0), EA(b, 0)))
  \/ \E u \in DegUnits : \E sg \in {-1, 1} : \E rb1, rb2 \in RaFew(u) : \E k \in Ks(u) : \E m \in Ms :
        c = DC("pole", u, k, Pt(EA(rb1, 0), EA(720 * sg, 0)), Pt(EA(rb2, 0), EA(720 * sg, -sg * m)))
  \* opposite meridians: antipodes, near-antipodes, across a pole
  \/ \E u \in DegUnits : \E rb \in RaBs(u) : rb < HalfTurnB(u) /\ \E b1, b2 \in DecBs :
        c = DC("opposite", u, KMin, Pt(EA(rb, 0), EA(b1, 0)), Pt(EA(rb + HalfTurnB(u), 0), EA(b2, 0)))
  \/ \E u \in DegUnits : \E rb \in RaFew(u) : rb < HalfTurnB(u) /\ \E b \in DecBs : \E k \in Ks(u) : \E m \in Ms :
        c = DC("opposite", u, k, Pt(EA(rb, 0), EA(b, 0)), Pt(EA(rb + HalfTurnB(u), 0), EA(-b, Inward(-b, m))))
  \/ \E u \in DegUnits : \E rb \in RaFew(u) : rb < HalfTurnB(u) /\ \E sg \in {-1, 1} : \E k \in Ks(u) : \E m \in Ms :
        c = DC("opposite", u, k, Pt(EA(rb, 0), EA(720 * sg, -sg * m)), Pt(EA(rb + HalfTurnB(u), 0), EA(720 * sg, -sg * m)))
  \* integer grid (whole degrees / hours / radians): every pair of the grid that belongs to a family; these
  \* are the cases that can be handed over with integer types (pairs across RA 0, descending, antipodal)
  \/ \E u \in Units : \E r1, r2 \in IntRa(u) : \E d1, d2 \in IntDec(u) :
        /\ Applicable(Pt(IE(r1), IE(d1)), Pt(IE(r2), IE(d2)), u) # {}
        /\ c = DC("intgrid", u, KMin, Pt(IE(r1), IE(d1)), Pt(IE(r2), IE(d2)))
  \* identical coordinates
  \/ \E u \in Units : \E rb \in RaBs(u) : \E b \in DecB(u) :
        c = DC("ident", u, KMin, Pt(EA(rb, 0), EA(b, 0)), Pt(EA(rb, 0), EA(b, 0)))
  \/ \E u \in Units : \E rb \in RaFew(u) : \E b \in DecB(u) : \E k \in Ks(u) : \E m \in Ms :
        c = DC("ident", u, k, Pt(EA(rb, m), EA(b, Inward(b, m))), Pt(EA(rb, m), EA(b, Inward(b, m))))

InitCapSelf == \E t \in CapThetas10 : \E rel \in ExactRels : \E sg \in {-1, 1} : \E conv \in {"radec", "vector"} :
                  /\ (rel = "antipode-negated" => conv = "vector")
                  /\ c = [kind |-> "capself", theta10 |-> t, rel |-> rel, sgn |-> sg, conv |-> conv]
ExpCapSelf(cc) == [cmhalves |-> cc.sgn * CapCmHalves(cc.theta10), sep10 |-> SelfSep10(cc.rel),
                   dist10 |-> CapSelfDist10(cc.theta10, cc.rel, cc.sgn), inside |-> CapSelfInside(cc.theta10, cc.rel, cc.sgn),
                   tol |-> PosTolNdeg(TRUE)]

Expected(cc) == CASE cc.kind = "stripe" -> ExpStripe(cc)
                  [] cc.kind = "capself" -> ExpCapSelf(cc)
                  [] cc.kind = "anchor" -> ExpAnchor(cc)
                  [] cc.kind = "vecanchor" -> ExpVecAnchor(cc)
                  [] cc.kind = "dist" -> ExpectedDist(cc)

Init == /\ \/ "stripe" \in Parts /\ InitStripe
           \/ "anchor" \in Parts /\ InitAnchor
           \/ "vecanchor" \in Parts /\ InitVecAnchor
           \/ "dist" \in Parts /\ InitDist
           \/ "capself" \in Parts /\ InitCapSelf
        /\ exp = Expected(c)
Next == UNCHANGED <<c, exp>>

(* ------------------------------- spec-level laws -------------------------------------- *)
IsStripe == c.kind = "stripe"
IsAnchor == c.kind = "anchor"
IsDist == c.kind = "dist"
IsVecAnchor == c.kind = "vecanchor"
ASSUME StripeTableOK
ASSUME 3600 % ThetaStep = 0 /\ 900 % ThetaStep = 0
ASSUME \A k \in KsDeg \cup KsRad : k >= KMin
ASSUME \A m \in Ms : m > 0 /\ 15 * 2 * m < MBound

C18_StripeTable == IsStripe => /\ exp.incl10 - exp.eta10 = SurveyCentreDec10 /\ AbsI(exp.incl10) <= 900
                               /\ (c.stripe \in {10, 82} => exp.incl10 = 0)
                               /\ (c.stripe <= 46 => exp.eta10 = StripeSep10 * c.stripe - 575)
                               /\ (c.stripe > 46 => exp.eta10 = StripeSep10 * c.stripe - 575 - 1800)
BaseAnchors == {[on |-> "axis", t |-> 0], [on |-> "circ", t |-> 0], [on |-> "circ", t |-> 900]}
C18_AnchorInverse == IsAnchor => (IF c.dir = "fwd" THEN ToMuNu(c.stripe, exp.image) ELSE ToEq(c.stripe, exp.image)) = c.src
C18_AnchorIsometry == IsAnchor => \A b \in BaseAnchors : SepAnchor(exp.image, ImageOf(c, b)) = SepAnchor(c.src, b)
C18_AnchorAxisFixed == (IsAnchor /\ c.src.on = "axis") => exp.dst = exp.src
(* the pole of the stripe's great circle (nu = +90) in equatorial coordinates *)
C18_AnchorPoleFormula ==
  (IsAnchor /\ c.dir = "fwd" /\ c.src = [on |-> "circ", t |-> 900] /\ Incl10(c.stripe) # 0) =>
      exp.dst = [lon |-> Lon(Node10 - 900 * SgnI(Incl10(c.stripe))), lat |-> 900 - AbsI(Incl10(c.stripe))]
(* nu = 0 is the great circle of inclination Incl through the node *)
C18_AnchorNuZero ==
  (IsAnchor /\ c.dir = "fwd" /\ exp.src.lat = 0) =>
      \/ c.src.on = "axis" /\ exp.dst.lat = 0 /\ exp.dst.lon \in {Node10, Lon(Node10 + 1800)}
      \/ c.src = [on |-> "circ", t |-> 0] /\ SamePos(exp.dst, [lon |-> Lon(Node10 + 900), lat |-> Incl10(c.stripe)])
      \/ c.src = [on |-> "circ", t |-> 1800] /\ SamePos(exp.dst, [lon |-> Lon(Node10 + 2700), lat |-> -Incl10(c.stripe)])
C18_AnchorLatRange == IsAnchor => AbsI(exp.dst.lat) <= 900 /\ exp.dst.lon \in 0..3599
C18_AnchorPoleSources == (IsAnchor /\ c.src \in PoleSources(c.stripe, c.dir)) => exp.polar /\ AbsI(exp.dst.lat) = 900

C18_DistCaseOK == IsDist => DistCaseOK(c)
C18_FamiliesAgree == IsDist => FamiliesAgree(c)
C18_DistSymmetric == IsDist => DistSymmetric(c)
C18_DistRange == IsDist => DistRange(c)
C18_DistZeroIffSamePoint == IsDist => DistZeroIffSamePoint(c)
C18_UnitsExact == IsDist => UnitsExact(c)
C18_DemandWithinStatement == IsDist => DemandWithinStatement(c)
C18_ExpZero == IsDist => (exp.zero => exp.d = EZ)
(* integer forms: offered exactly when every coordinate is a whole number the type holds; the integer grid admits them *)
C18_IntForms == IsDist => /\ ((exp.forms = {}) = (exp.mixes = {}))
                          /\ (c.fam = "intgrid" => {"int64", "int32", "int16", "pyint"} \subseteq exp.forms)
                          /\ \A f \in exp.forms : \A x \in {c.p.ra, c.p.dec, c.q.ra, c.q.dec} :
                                EAIntegral(x) /\ FormLo(f) <= x.b \div 8 /\ x.b \div 8 <= FormHi(f)
                          /\ ((\E x \in {c.p.ra, c.p.dec, c.q.ra, c.q.dec} : x.b < 0) => exp.forms \cap {"uint8", "uint16", "uint32", "uint64"} = {})

(* float forms: single precision is offered exactly when every coordinate is a single-precision number (the value  *)
(* n / 2^k with |n| < 2^24); the coarse families (poles, antipodes, the integer grid) all admit it; where the value   *)
(* is demanded of single precision it is demanded of double precision too, and more tightly                             *)
C18_FloatForms == IsDist =>
   /\ "longdouble" \in exp.fforms /\ exp.fforms \subseteq FloatForms
   /\ ("float32" \in exp.fforms) = (\A x \in {c.p.ra, c.p.dec, c.q.ra, c.q.dec} : F32Exact(x, c.k))
   /\ ((c.k = KMin \/ c.fam = "intgrid") => "float32" \in exp.fforms)
   /\ (exp.forms # {} => "float32" \in exp.fforms)
   /\ (exp.sdemand => exp.demand) /\ exp.stolppb >= exp.tolppb /\ exp.ssymppb >= exp.stolppb /\ exp.sslackppb >= exp.slackppb
   /\ (exp.sdemand => exp.d.b >= 1)
(* every anchor admits every carrier: bare directions and distances below, at and above the unit *)
C18_Carriers == IsAnchor => /\ exp.carriers = CarrierDist8
                            /\ {CarrierClass(d) : d \in exp.carriers} = CarrierClasses \ {"mixed"}
(* the centre and its antipode are half a turn apart; the complement negates; inside <=> distance >= 0;  *)
(* the centre is inside the cap and outside its complement, the antipode the other way round             *)
C18_CapSelf == c.kind = "capself" =>
   /\ CapSelfDist10(c.theta10, "coincident", c.sgn) - CapSelfDist10(c.theta10, "antipode", c.sgn) = c.sgn * 1800
   /\ CapSelfDist10(c.theta10, c.rel, -c.sgn) = -exp.dist10
   /\ exp.inside = (exp.dist10 >= 0) /\ exp.dist10 # 0
   /\ exp.inside = ((c.rel = "coincident") = (c.sgn > 0))
   /\ AbsI(exp.cmhalves) \in 1..3
   (* the near relations are specified by the exact ones they approach *)
   /\ CapSelfDist10(c.theta10, "near-antipode", c.sgn) = CapSelfDist10(c.theta10, "antipode", c.sgn)
   /\ CapSelfDist10(c.theta10, "near-coincident", c.sgn) = CapSelfDist10(c.theta10, "coincident", c.sgn)
Dot3(a, b) == a[1] * b[1] + a[2] * b[2] + a[3] * b[3]
C18_VecAnchorUnit == IsVecAnchor => Dot3(exp.x, exp.x) = 1
C18_VecAnchorPole == (IsVecAnchor /\ AbsI(c.lat) = 900) => exp.x = <<0, 0, SgnI(c.lat)>>
=============================================================================
