CONSTANT N = 10
CONSTANT NI = 8
CONSTANT B = 10
CONSTANT NP = 4
CONSTANT BP = 60
CONSTANT PairStride = 97
CONSTANT PairMinGood = 2
CONSTANT NS = 110
CONSTANT StackOffsets <- QuickOffsets
CONSTANT StackGrids = {1, 3}
CONSTANT NE = 106
CONSTANT Families = {"single", "infl", "pair", "pairinfl", "stack", "edge"}
INIT Init
NEXT Next
INVARIANT C11_FastEqDef
INVARIANT C11_OutsideRange
INVARIANT C11_AllBad
INVARIANT C11_LenientStrict
INVARIANT C11_ModelContains
INVARIANT C11_InteriorKept
INVARIANT C11_Monotone
INVARIANT C11_InterpBound
INVARIANT C11_MultiIntersection
INVARIANT C11_MultiShrinks
INVARIANT C11_ExpIsSpec
INVARIANT C11_StackCoverage
INVARIANT C11_EdgeCounts
INVARIANT C11_InflNoIsolated
CHECK_DEADLOCK FALSE
