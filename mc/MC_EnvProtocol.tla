-------------------------- MODULE MC_EnvProtocol --------------------------
(* Fault enumeration for C20.  For every variant of the two entry points, every initial state   *)
(* of the variables involved and every point of failure (each collaborator call, each kind of    *)
(* exception; the entry point's own code failing after each call; a needed variable missing),    *)
(* TLC runs the protocol of spec/EnvProtocol to its exit.  Terminal states are the cases the     *)
(* harness replays into the real functions by fault injection.                                   *)
(*                                                                                               *)
(* A variant = [name, ep, steps, mutAt, designed].  steps is the ordered list of collaborator    *)
(* calls of a fault-free run; mutAt[t] is the number of calls that precede the change of the     *)
(* touched variable t.  DesignVariants is the list by design (readable stand-alone instance);    *)
(* the harness adds the lists it RECORDED from fault-free runs of the real code                  *)
(* (environment variable VERIF_VARIANTS -> JSON file) so that fault position k of the            *)
(* specification is call k of the implementation.                                                *)
EXTENDS EnvProtocol, TLC, Json, IOUtils
CONSTANTS BystanderVals,   \* initial values of the bystander variable
          UseBodyFaults,   \* also let the entry point's own code fail after every call
          Deviation        \* FALSE: conforming protocol; TRUE: Dev_RestoreOnSuccessOnly (negative control)
VARIABLE v                 \* index into Variants

L(n)      == [name |-> "environ", var |-> n]
C(n)      == [name |-> n, var |-> ""]
Rep(s, n) == IF n = 0 THEN <<>> ELSE IF n = 1 THEN s ELSE IF n = 2 THEN s \o s ELSE s \o s \o s \o s

WindowHead == << L("PHOTO_CALIB"), L("PHOTO_RESOLVE"), C("fits.open"), C("sdss_score") >>
MetaHead   == << C("os.path.exists"), C("yanny"), L("RUN2D"), L("RUN1D"), C("get_juldate"), C("os.path.exists") >>
ReadStages == << C("readspec"), C("skymask"), C("wavevector"), C("preprocess_spectra"),
                 C("os.path.exists"), C("open"), C("pickle.dump") >>
Fill       == << C("djs_median"), C("djs_maskinterp") >>
Plot       == << C("plt.subplots"), C("Figure.savefig"), C("plt.close") >>
WriteTail  == << C("os.path.exists"), C("fits.PrimaryHDU"), L("RUN2D"), L("RUN1D"), C("HDUList.writeto") >>

DesignVariants ==
  << [name |-> "design:window_score(rescore=False)", ep |-> "window_score", designed |-> TRUE,
      steps |-> WindowHead \o << C("HDUList.close") >>, mutAt |-> [PHOTO_CALIB |-> 1]],
     [name |-> "design:window_score(rescore=True)", ep |-> "window_score", designed |-> TRUE,
      steps |-> WindowHead \o << C("HDUList.writeto"), C("HDUList.close") >>, mutAt |-> [PHOTO_CALIB |-> 1]],
     [name |-> "design:template_input(gal,pca)", ep |-> "template_input", designed |-> TRUE,
      steps |-> MetaHead \o ReadStages \o << C("pca_solve") >> \o Rep(Fill, 4) \o Rep(Plot, 4)
                \o WriteTail \o << C("plot_eig") >>,
      mutAt |-> [RUN2D |-> 3, RUN1D |-> 4]],
     [name |-> "design:template_input(star,dump present)", ep |-> "template_input", designed |-> TRUE,
      steps |-> MetaHead \o << C("open"), C("pickle.load"), C("template_star") >> \o Plot \o WriteTail,
      mutAt |-> [RUN2D |-> 3, RUN1D |-> 4]] >>

Recorded == IF "VERIF_VARIANTS" \in DOMAIN IOEnv THEN JsonDeserialize(IOEnv.VERIF_VARIANTS) ELSE <<>>
Variants == DesignVariants \o Recorded
P == Variants[v]

(* initial values: unset, set to the empty string, set to an ordinary value, already holding the *)
(* value the entry point is going to install                                                     *)
Dom(q, x) == IF x \in Touched(q) THEN {Absent, "", "/orig/" \o x} \cup ({New(q)[x]} \ {Absent})
             ELSE IF x = "PHOTO_RESOLVE" THEN {Absent, "RESOLVE_DIR"}
             ELSE BystanderVals
AllVals(q) == UNION {Dom(q, x) : x \in Vars(q)}
InitialEnvs(q) == {e \in [Vars(q) -> AllVals(q)] : \A x \in Vars(q) : e[x] \in Dom(q, x)}

Init == \E i \in 1..Len(Variants) : /\ v = i
                                    /\ \E e \in InitialEnvs(Variants[i]) : InitWith(Variants[i], e)

(* scheduling: the variant says where the changes happen; restores come as late as possible *)
Pending(t) == st[t] = "orig" /\ P.mutAt[t] <= k
NoPending  == \A t \in Touched(P) : ~Pending(t)
Late       == pc = "handler" \/ k = Len(P.steps)

Next ==
  /\ UNCHANGED v
  /\ \/ Enter(P)
     \/ (\E t \in Touched(P) : Pending(t)) /\ Save(P)
     \/ \E t \in Touched(P) : Pending(t) /\ Mutate(P, t)
     \/ NoPending /\ StepOk(P)
     \/ NoPending /\ \E kind \in FaultKinds : StepFails(P, kind)
     \/ NoPending /\ StepFailsNaturally(P)
     \/ UseBodyFaults /\ NoPending /\ BodyFails(P)
     \/ ~Deviation /\ Late /\ \E t \in Touched(P) : Restore(P, t)
     \/ ~Deviation /\ Return(P)
     \/ ~Deviation /\ Raise(P)
     \/ Deviation /\ k = Len(P.steps) /\ \E t \in Touched(P) : Dev_RestoreOnSuccessOnly(P, t)
     \/ Deviation /\ Return(P)
     \/ Deviation /\ Dev_RaiseWithoutRestore(P)
     \/ Done

AllVars == <<v, env, env0, saved, st, pc, k, faultAt, faultKind, vis>>
Spec == Init /\ [][Next]_AllVars

(* one INVARIANT line per law *)
C20_TypeOK == TypeOK(P)
C20_EnvRestored == EnvRestored
C20_BystandersUntouched == BystandersUntouched(P)
C20_TouchedOrigOrNew == TouchedOrigOrNew(P)
C20_SavedIsEntryValue == SavedIsEntryValue(P)
C20_MutationVisibleDuringSteps == P.designed => MutationVisibleDuringSteps
C20_RaisedOnlyIfFaultOrPrecondition == RaisedOnlyIfFaultOrPrecondition
(* well-formed variants: every change position is a call position *)
ASSUME \A i \in 1..Len(Variants) :
          /\ DOMAIN Variants[i].mutAt = Touched(Variants[i])
          /\ \A t \in Touched(Variants[i]) : Variants[i].mutAt[t] \in 0..(Len(Variants[i].steps) + 1)
=============================================================================
