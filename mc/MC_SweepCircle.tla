-------------------------- MODULE MC_SweepCircle --------------------------
(* Bounded instances for X07 (spec/SweepCircle.tla).                                        *)
(*                                                                                          *)
(* Mode "cases"  : Root -> seeds (number of fields, run/camcol group of each field) -> pre -> one *)
(*                 state per sweep tree of the family (every assignment of object patterns   *)
(*                 to the fields).  A tree state carries env = the tree and cases = the      *)
(*                 sampled calls [c, exp] with the documented outcome; the laws are checked  *)
(*                 on the (larger) law sample of the candidate calls.  Candidate calls sit   *)
(*                 5 mdeg inside / outside of every selection boundary of the tree: each     *)
(*                 object at distance radius -+ 5, each field centre at radius + 360 -+ 5.   *)
(* Mode "machine": histories of SetEnv / Call over a few trees that differ exactly in the    *)
(*                 ways a wrongly shared or wrongly kept cache would show; hist = the events *)
(*                 with the specified outcome of every call ("open" where S8 leaves it open).*)
EXTENDS SweepCircle, SequencesExt
CONSTANTS Mode,       \* "cases", "machine" or "both"
          NFMax,      \* cases: at most this many fields per tree (<= 4)
          NG,         \* cases: run/camcol groups used (<= 5)
          PatSet,     \* cases: object patterns a field may have (subset of 0..6)
          CallMod,    \* cases: one candidate call in CallMod is replayed
          LawMod,     \* cases: one candidate call in LawMod is used for the laws
          NT,         \* machine: trees 1..NT of MTrees are used
          NQ,         \* machine: calls 1..NQ of MCalls are used
          MaxLen      \* machine: length of the histories
VARIABLES tag, sd, cases, hist, world

vars == <<env, seen, ret, tag, sd, cases, hist, world>>

(* ---- the tree builder ---- *)
(* (94,6) and (95,1) have adjacent keys run*6+camcol-1; (94,6) and (99,1) have the same run+camcol; *)
(* (94,6) and (94,1) share the run; (1000,3) lives under another rerun                              *)
GroupTab == << [run |-> 94,   camcol |-> 6, rerun |-> "301"],
               [run |-> 95,   camcol |-> 1, rerun |-> "301"],
               [run |-> 99,   camcol |-> 1, rerun |-> "301"],
               [run |-> 1000, camcol |-> 3, rerun |-> "157"],
               [run |-> 94,   camcol |-> 1, rerun |-> "301"] >>
P(off, pri) == [off |-> off, pri |-> pri]
Pat(p) == CASE p = 0 -> <<>>
            [] p = 1 -> << P(0, TRUE) >>
            [] p = 2 -> << P(-90, FALSE), P(90, TRUE) >>
            [] p = 3 -> << P(-350, TRUE), P(350, TRUE) >>
            [] p = 4 -> << P(40, FALSE) >>
            [] p = 5 -> << P(-20, TRUE), P(0, FALSE), P(20, TRUE) >>
            [] p = 6 -> << P(350, FALSE), P(-350, TRUE), P(10, TRUE), P(-10, FALSE) >>
            [] OTHER -> <<>>
NPat(p) == Len(Pat(p))

(* fs : sequence of fields [g, p, ctr] in sky order; F : the fields of group g in file order *)
Upto(n) == [i \in 1..n |-> i]
FieldsIn(fs, g, frev) == LET s == SelectSeq(Upto(Len(fs)), LAMBDA j : fs[j].g = g)
                         IN IF frev THEN RevSeq(s) ELSE s
StartIn(fs, F, m) == LET n[q \in 0..(m - 1)] == IF q = 0 THEN 0 ELSE n[q - 1] + NPat(fs[F[q]].p) IN n[m - 1]
PosIn(F, j) == CHOOSE m \in Idx(F) : F[m] = j
Second(k, pbit) == IF pbit # 8 THEN {0, 8} ELSE IF k % 2 = 1 THEN {0, 10} ELSE {4, 9}
FieldObjs(fs, j, idbase, pbit) ==
  LET pt == Pat(fs[j].p)
  IN [k \in Idx(pt) |-> [id |-> idbase + 10 * j + k, pos |-> fs[j].ctr + pt[k].off,
                         rs |-> IF pt[k].pri THEN {0, pbit} ELSE Second(k, pbit)]] \o <<>>
NPri(p) == Cardinality({k \in Idx(Pat(p)) : Pat(p)[k].pri})
OrderOf(n, ord) == CASE ord = "rev" -> [i \in 1..n |-> n + 1 - i]
                     [] ord = "rot" -> [i \in 1..n |-> (i % n) + 1]
                     [] ord = "mix" -> [i \in 1..n |-> IF i <= (n + 1) \div 2 THEN 2 * i - 1 ELSE 2 * (i - (n + 1) \div 2)]
                     [] OTHER -> Upto(n)
Build(fs, ord, frev, idbase, pbit) ==
  LET gs == {fs[j].g : j \in Idx(fs)}
      gseq == SetToSortSeq(gs, LAMBDA a, b : a < b)
      Entry(j) == LET F == FieldsIn(fs, fs[j].g, frev)
                      st == StartIn(fs, F, PosIn(F, j))
                      G == GroupTab[fs[j].g]
                  IN [run |-> G.run, camcol |-> G.camcol, rerun |-> G.rerun, pos |-> fs[j].ctr,
                      ist |-> st, iend |-> st + NPat(fs[j].p) - 1, npri |-> NPri(fs[j].p)]
      o == OrderOf(Len(fs), ord)
  (* "\o <<>>" turns the lazily evaluated function into a tuple once and for all *)
  IN [idx |-> [i \in Idx(fs) |-> Entry(o[i])] \o <<>>,
      files |-> [q \in Idx(gseq) |->
                   LET F == FieldsIn(fs, gseq[q], frev)
                       G == GroupTab[gseq[q]]
                   IN [run |-> G.run, camcol |-> G.camcol, rerun |-> G.rerun,
                       objs |-> FlattenSeq([m \in Idx(F) |-> FieldObjs(fs, F[m], idbase, pbit)]) \o <<>>]] \o <<>>]

Fld(g, p, ctr) == [g |-> g, p |-> p, ctr |-> ctr]
DecoyFs(v) == IF v = 1 THEN << Fld(1, 3, 0), Fld(1, 5, 200), Fld(2, 3, 400), Fld(2, 2, 600) >>
              ELSE << Fld(4, 5, 100), Fld(5, 3, 300), Fld(4, 6, 500) >>

OrdTab == <<"fwd", "rev", "rot", "mix">>
LayTab == <<"model", "wide", "short", "model">>
GeomTab == <<"eq0", "eq180", "mer0", "mer60">>
FormTab == <<"py", "np64", "np32", "zerod", "pymix">>
StTab == <<"star", "gal", "sky">>

(* ---- mode "cases" ---- *)
Radii == {0, 10, 100, 260, 1000}
CandCalls(sub) ==
  LET objpos == UNION {{o.pos + s * (r + d) : s \in {-1, 1}, d \in {-5, 5}} \X {r} : o \in AllObjs(sub), r \in Radii}
      ctrpos == UNION {{sub.idx[i].pos + s * (r + Margin + d) : s \in {-1, 1}, d \in {-5, 5}} \X {r} :
                          i \in Idx(sub.idx), r \in Radii}
  IN (objpos \cup ctrpos \cup {<<5005, 100>>, <<-3005, 1000>>}) \X BOOLEAN
CallHash(q, hh) == ((q[1][1] + 6000) * 31 + q[1][2] * 17 + (IF q[2] THEN 5 ELSE 0) + hh) % 30030
MkCall(q, st, hh) == [pos |-> q[1][1], radius |-> q[1][2], stype |-> st, allobj |-> q[2],
                      form |-> FormTab[((CallHash(q, hh) \div 7) % 5) + 1]]

TreeNo(gs, ps) == LET n[j \in 0..Len(gs)] == IF j = 0 THEN 0 ELSE n[j - 1] * 35 + (gs[j] - 1) + 5 * ps[j] IN n[Len(gs)]
Scramble(tn) == ((tn % 10007) * 7919 + 4001) % 10007
CaseTree(gs, ps) ==
  LET tn == TreeNo(gs, ps)
      hh == Scramble(tn)
      nf == Len(gs)
      sp == (hh \div 3) % 3
      ctr(j) == IF sp = 0 THEN 200 * (j - 1) ELSE IF sp = 1 THEN 300 * (j - 1) ELSE 200 * ((j - 1) \div 2)
      fs == [j \in 1..nf |-> Fld(gs[j], ps[j], ctr(j))]
      pbit == IF hh % 7 = 0 THEN 4 ELSE 8
      st == StTab[(hh % 3) + 1]
      main == Build(fs, OrdTab[((hh \div 9) % 4) + 1], (hh \div 36) % 2 = 1, 0, pbit)
      d1 == Build(DecoyFs(1), "fwd", FALSE, 7000, pbit)
      d2 == Build(DecoyFs(2), "rev", FALSE, 8000, pbit)
      Pick(s) == IF s = st THEN main ELSE IF (s = "star") \/ (s = "gal" /\ st = "star") THEN d1 ELSE d2
  IN [sub |-> [star |-> Pick("star"), gal |-> Pick("gal"), sky |-> Pick("sky")],
      pbit |-> pbit,
      lay |-> LayTab[((hh \div 72) % 4) + 1],
      geom |-> GeomTab[((hh \div 288) % 4) + 1]]
CaseStype(t, gs, ps) == StTab[(Scramble(TreeNo(gs, ps)) % 3) + 1]

Root == /\ MInit /\ tag = "root" /\ sd = <<>> /\ cases = <<>> /\ hist = <<>> /\ world = <<>>
SeedStep == /\ tag = "root"
            /\ \E nf \in 1..NFMax : \E gs \in [1..nf -> 1..NG] :
                  /\ sd' = <<gs, <<>> >>
                  /\ tag' = "seed"
            /\ UNCHANGED <<env, seen, ret, cases, hist, world>>
(* one cheap state per tree first, so that the workers share the construction of the trees *)
PreStep == /\ tag = "seed"
           /\ \E ps \in [1..Len(sd[1]) -> PatSet] : sd' = <<sd[1], ps>>
           /\ tag' = "pre"
           /\ UNCHANGED <<env, seen, ret, cases, hist, world>>
TreeStep == /\ tag = "pre"
            /\ LET gs == sd[1]
                   ps == sd[2]
                   t == CaseTree(gs, ps)
                   st == CaseStype(t, gs, ps)
                   hh == Scramble(TreeNo(gs, ps))
                   cand == CandCalls(t.sub[st])
                   pick == {q \in cand : CallHash(q, hh) % CallMod = 0}
                   sq == SetToSeq(pick)
               IN /\ env' = t
                  /\ cases' = [k \in Idx(sq) |-> LET c == MkCall(sq[k], st, hh)
                                                 IN [c |-> c, exp |-> Outcome(t, c),
                                                     spec |-> Specified(t, seen, c)]] \o <<>>
            /\ tag' = "tree"
            /\ UNCHANGED <<sd, seen, ret, hist, world>>

(* ---- mode "machine" ---- *)
FsA == << Fld(1, 2, 0), Fld(1, 5, 200), Fld(2, 3, 200) >>
FsB == << Fld(2, 1, 0), Fld(4, 6, 200), Fld(4, 2, 400), Fld(1, 4, 400) >>
FsG == << Fld(5, 5, 0), Fld(5, 1, 200), Fld(1, 2, 200) >>
FsK == << Fld(4, 3, 100), Fld(1, 1, 300), Fld(3, 2, 500) >>
FsK2 == << Fld(4, 1, 100), Fld(1, 5, 300) >>
MkTree(star, gal, sky, lay, geom) == [sub |-> [star |-> star, gal |-> gal, sky |-> sky], pbit |-> 8, lay |-> lay, geom |-> geom]
TA == MkTree(Build(FsA, "rot", FALSE, 1000, 8), Build(FsG, "fwd", FALSE, 2000, 8), Build(FsK, "rev", TRUE, 3000, 8), "model", "eq0")
TB == MkTree(Build(FsB, "mix", TRUE, 4000, 8), Build(FsG, "fwd", FALSE, 2000, 8), Build(FsK2, "fwd", FALSE, 6000, 8), "wide", "mer60")
(* same indexes as TA, other rows behind them *)
TA2 == MkTree(Build(FsA, "rot", FALSE, 1500, 8), Build(FsG, "fwd", FALSE, 2500, 8), Build(FsK, "rev", TRUE, 3500, 8), "model", "eq0")
MTrees == << TA, TA2, TB, TA >>          \* the fourth is the first tree again, kept at another path
MC(pos, radius, st, allobj, form) == [pos |-> pos, radius |-> radius, stype |-> st, allobj |-> allobj, form |-> form]
MCalls == << MC(105, 1000, "star", TRUE, "py"),
             MC(95, 260, "gal", FALSE, "np64"),
             MC(0, 10, "qso", TRUE, "py"),
             MC(205, 100, "star", FALSE, "pymix"),
             MC(305, 260, "sky", TRUE, "zerod"),
             MC(5005, 100, "star", TRUE, "np32"),
             MC(15, 100, "gal", TRUE, "py"),
             MC(395, 1000, "sky", FALSE, "np64") >>

MRoot == /\ MInit /\ tag = "m" /\ sd = <<>> /\ cases = <<>> /\ hist = <<>> /\ world = MTrees
LastOp == IF hist = <<>> THEN "none" ELSE hist[Len(hist)].op
SetEnvStep(k) == /\ LastOp # "setenv"
                 /\ Len(hist) < MaxLen - 1                 \* a history ends with a call
                 /\ SetEnv(IF k = 0 THEN NoEnv ELSE MTrees[k])
                 /\ hist' = Append(hist, [op |-> "setenv", k |-> k, c |-> MCalls[1], exp |-> NoRet, spec |-> TRUE])
CallStep(q) == /\ Call(MCalls[q])
               /\ hist' = Append(hist, [op |-> "call", k |-> q, c |-> MCalls[q], exp |-> ret',
                                        spec |-> Specified(env, seen, MCalls[q])])
MNext == /\ tag = "m"
         /\ Len(hist) < MaxLen
         /\ \/ \E k \in 0..NT : SetEnvStep(k)
            \/ \E q \in 1..NQ : CallStep(q)
         /\ world' = <<>>
         /\ UNCHANGED <<tag, sd, cases>>

Init == (Mode \in {"cases", "both"} /\ Root) \/ (Mode \in {"machine", "both"} /\ MRoot)
Next == SeedStep \/ PreStep \/ TreeStep \/ MNext

(* ---- spec-level properties ---- *)
IsTree == tag = "tree"
TheSub == env.sub[cases[1].c.stype]
LawCalls == IF IsTree /\ cases # <<>>
            THEN {MkCall(q, cases[1].c.stype, 0) : q \in {x \in CandCalls(TheSub) : CallHash(x, 1) % LawMod = 0}}
            ELSE {}
X07_WellFormed == /\ IsTree => WellFormedTree(env)
                  /\ (tag = "m" /\ hist = <<>>) => \A k \in Idx(MTrees) : WellFormedTree(MTrees[k])
X07_AllSpecified == IsTree => \A k \in Idx(cases) : cases[k].spec /\ ~cases[k].exp.err
X07_MarginSound == \A c \in LawCalls : MarginSound(TheSub, env.pbit, c)
X07_AlgoIsResult == \A c \in LawCalls : AlgoIsResult(TheSub, env.pbit, env.lay, c)
X07_PrimaryPart == \A c \in LawCalls : PrimaryPart(TheSub, env.pbit, c)
X07_Monotone == \A c \in LawCalls : \A r2 \in Radii : Monotone(TheSub, env.pbit, c, r2)
X07_IndexOrderIrrelevant == \A c \in LawCalls : IndexOrderIrrelevant(TheSub, env.pbit, c)
X07_LastRowReturnable == (IsTree /\ cases # <<>>) => LastRowReturnable(TheSub, env.pbit)
X07_DevNeverAdds == \A c \in LawCalls : DevNeverAdds(TheSub, env.pbit, env.lay, c)
(* machine: a specified call's outcome is a function of (current tree, call) only - whatever the history *)
X07_HistoryFree == tag = "m" =>
   \A i \in Idx(hist) : (hist[i].op = "call" /\ hist[i].spec) =>
      LET sets == {j \in 1..i : hist[j].op = "setenv"}
          cur == IF sets = {} THEN NoEnv ELSE LET k == hist[SetMax(sets)].k IN IF k = 0 THEN NoEnv ELSE MTrees[k]
      IN hist[i].exp = Outcome(cur, hist[i].c)
(* machine: open outcomes arise only after the index of this stype was seen to differ *)
X07_OpenOnlyWhenStale == tag = "m" =>
   \A i \in Idx(hist) : (hist[i].op = "call" /\ ~hist[i].spec) =>
      \E j \in 1..(i - 1) : hist[j].op = "call" /\ hist[j].c.stype = hist[i].c.stype
=============================================================================
