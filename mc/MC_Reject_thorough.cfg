CONSTANT Families = {"reject","rejnum","interp1","interpnd","aesth","median","median2","sky","skywide","skytop"}
CONSTANT Tier = "thorough"
INIT Init
NEXT Next
INVARIANT C17_RejBoundsNested
INVARIANT C17_RejGrowZeroExact
INVARIANT C17_RejNoExclusionDetermined
INVARIANT C17_RejWithinMasks
INVARIANT C17_RejGrowMonotone
INVARIANT C17_RejGrowWidth
INVARIANT C17_RejSecondPassDone
INVARIANT C17_RejLimitsAbsent
INVARIANT C17_RejZeroWeight
INVARIANT C17_RejZeroSigmaSign
INVARIANT C17_RejModesAgree
INVARIANT C17_RejGrowSupersetLaw
INVARIANT C17_RejExpectedAccepted
INVARIANT C17_RejDevDiffers
INVARIANT C17_MIOnlyMaskedChange
INVARIANT C17_MINoGoodOrNoBad
INVARIANT C17_MIOneGoodConstant
INVARIANT C17_MIWithinGoodRange
INVARIANT C17_MIIndexIsIdentityX
INVARIANT C17_MIAffineXInvariant
INVARIANT C17_MIReversal
INVARIANT C17_MIIdempotent
INVARIANT C17_MIXDistinct
INVARIANT C17_NDOnlyMaskedChange
INVARIANT C17_NDOneDim
INVARIANT C17_NDTranspose
INVARIANT C17_AesOnlyWhereIvarZero
INVARIANT C17_AesFreeOnlyWhereIvarZero
INVARIANT C17_AesNothingIdentity
INVARIANT C17_AesNoMaskIdentity
INVARIANT C17_AesMeanWithinRange
INVARIANT C17_AesExpectedAccepted
INVARIANT C17_MedWidthOne
INVARIANT C17_MedValuesFromInput
INVARIANT C17_MedInterior
INVARIANT C17_MedReversal
INVARIANT C17_MedConstant
INVARIANT C17_Med2EqualRows
INVARIANT C17_SkyNoGrowExact
INVARIANT C17_SkyGrowMonotone
INVARIANT C17_SkyWidth
INVARIANT C17_SkyOtherBits
INVARIANT C17_SkyRowsIndependent
INVARIANT C17_SkyWideIsolated
INVARIANT C17_SkyTopBitAloneHarmless
INVARIANT C17_SkyOnlyZeroes
CHECK_DEADLOCK FALSE
