CONSTANT Mode = "machine"
CONSTANT BitPos = {0, 31, 32, 63}
CONSTANT Undef = {5}
CONSTANT G2Fam = "few"
CONSTANT AliasFam = {"none"}
CONSTANT Orders = {"hash"}
CONSTANT NMachFiles = 6
CONSTANT NMachQueries = 12
INIT Init
NEXT Next
INVARIANT C07_TypeOK
INVARIANT C07_RetIsOutcome
INVARIANT C07_ValIsUnion
INVARIANT C07_NamesAscending
INVARIANT C07_RoundTripNames
INVARIANT C07_RoundTripValue
INVARIANT C07_AliasSame
INVARIANT C07_CaseInsensitive
INVARIANT C07_UnknownRaises
INVARIANT C07_ExistNeverRaises
INVARIANT C07_ReloadReplaces
INVARIANT C07_AliasIsCopy
CHECK_DEADLOCK FALSE
