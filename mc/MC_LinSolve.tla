---------------------------- MODULE MC_LinSolve ----------------------------
(* Bounded instances for C15.                                                             *)
(*  "wls"   every state is one call of computechi2 (A, b, sqivar, convention) with the     *)
(*          exact solution record `exp`; the laws of LinSolve are invariants on it.        *)
(*  "pcomp" every state is one integer data matrix with its exact scatter matrix.          *)
(*  "hmfx"  behaviours of the exact alternating least squares on tiny integer data:        *)
(*          init -> a -> g -> a ...; c.hist keeps the factors after every step.            *)
(*  "hmfm"  behaviours of the HMF iteration protocol over abstract logged measurements.    *)
(* Big families go root -> seed -> cases so that all workers share the enumeration.        *)
EXTENDS LinSolve, TLC
CONSTANTS Families,      \* subset of {"wls", "pcomp", "hmfx", "hmfm"}
          Tier           \* "quick" or "thorough"
VARIABLES c, exp

Quick == Tier = "quick"
Root == [kind |-> "root"]
NoExp == [none |-> TRUE]

(* ------------------------------------------------------------------------------------- *)
(* wls families                                                                           *)
(* ------------------------------------------------------------------------------------- *)
Mats(n, m, av) == [1..n -> [1..m -> av]]
Line(xs) == [i \in 1..Len(xs) |-> <<1, xs[i]>>]                  \* rows (1, x)
Quad(xs) == [i \in 1..Len(xs) |-> <<1, xs[i], xs[i] * xs[i]>>]   \* rows (1, x, x^2)

D23 == {Line(xs) : xs \in [1..3 -> {-1, 0, 2}]}
D23q == {Line(<<-1, 0, 2>>), Line(<<0, 2, 2>>), << <<1, 1>>, <<2, -1>>, <<0, 1>> >>, << <<0, 2>>, <<1, 1>>, <<1, 0>> >>}
D24 == {Line(<<-1, 0, 1, 2>>), Line(<<0, 0, 1, 1>>), Line(<<2, -1, 2, 0>>),
        << <<1, 0>>, <<0, 1>>, <<1, 1>>, <<1, -1>> >>, << <<2, 1>>, <<1, 2>>, <<0, 1>>, <<-1, 1>> >>,
        << <<1, 2>>, <<0, 0>>, <<2, 1>>, <<1, 1>> >>}
D33 == {Quad(<<-1, 0, 1>>), Quad(<<0, 1, 2>>), Quad(<<-1, 1, 2>>),
        << <<1, 0, 0>>, <<0, 1, 0>>, <<0, 0, 1>> >>, << <<1, 1, 0>>, <<0, 1, 1>>, <<1, 0, 1>> >>,
        << <<2, 1, 0>>, <<1, 2, 1>>, <<0, 1, 2>> >>, << <<1, -1, 0>>, <<1, 1, 1>>, <<0, 1, -1>> >>,
        << <<0, 1, 2>>, <<1, 0, 1>>, <<2, 1, 1>> >>}
D34 == {Quad(<<-1, 0, 1, 2>>), Quad(<<0, 1, 1, 2>>), Quad(<<-1, -1, 0, 1>>),
        << <<1, 0, 0>>, <<0, 1, 0>>, <<0, 0, 1>>, <<1, 1, 1>> >>,
        << <<1, 1, 0>>, <<0, 1, 1>>, <<1, 0, 1>>, <<1, -1, 1>> >>,
        << <<2, 0, 1>>, <<0, 1, 1>>, <<1, 1, 0>>, <<0, 0, 1>> >>}
D35 == {Quad(<<-1, 0, 1, 2, 0>>),
        << <<1, 0, 0>>, <<0, 1, 0>>, <<0, 0, 1>>, <<1, 1, 1>>, <<1, -1, 0>> >>}

Fam(n, m, as, sv, bv) == [n |-> n, m |-> m, as |-> as, sv |-> sv, bv |-> bv]
FamsT == << Fam(1, 1, Mats(1, 1, {-3, -2, -1, 1, 2, 3}), {1, 2, 3}, -3..3),
            Fam(2, 1, Mats(2, 1, {-2, -1, 0, 1, 3}), 0..3, {-2, 0, 1, 3}),
            Fam(3, 1, Mats(3, 1, {-1, 2}), {0, 1, 3}, {-2, 1, 3}),
            Fam(2, 2, Mats(2, 2, {-1, 0, 1, 2}), {1, 2, 3}, {-2, 0, 3}),
            Fam(3, 2, D23, {0, 1, 2}, {-2, 0, 3}),
            Fam(4, 2, D24, {0, 1, 2}, {-1, 2}),
            Fam(3, 3, D33, {1, 2, 3}, {-1, 0, 2}),
            Fam(4, 3, D34, {0, 1, 2}, {-1, 2}),
            Fam(5, 3, D35, {0, 1, 2}, {-1, 1}) >>
FamsQ == << Fam(1, 1, Mats(1, 1, {-3, -2, -1, 1, 2, 3}), {1, 2, 3}, -3..3),
            Fam(2, 1, Mats(2, 1, {-1, 0, 2}), {0, 1, 3}, {-2, 1}),
            Fam(3, 1, Mats(3, 1, {-1, 2}), {0, 1, 2}, {-2, 3}),
            Fam(2, 2, Mats(2, 2, {-1, 0, 2}), {1, 2, 3}, {-1, 2}),
            Fam(3, 2, D23q, {0, 1, 2}, {-2, 0, 3}),
            Fam(4, 3, {Quad(<<-1, 0, 1, 2>>), << <<1, 1, 0>>, <<0, 1, 1>>, <<1, 0, 1>>, <<1, -1, 1>> >>}, {0, 1, 2}, {-1, 2}),
            Fam(5, 3, {Quad(<<-1, 0, 1, 2, 0>>)}, {0, 1}, {-1, 1}) >>
Fams == IF Quick THEN FamsQ ELSE FamsT

(* the calling convention is spread deterministically over the cases *)
ConvOf(A, b, s) == LET hh == (ISum(b) + 2 * ISum(s) + ISum([i \in 1..Len(A) |-> A[i][1]]) + 300) % 3
                   IN IF hh = 1 /\ Cols(A) = 1 THEN "1d" ELSE IF hh = 2 THEN "int" ELSE "2d"
LayoutOf(A, b, s) == Layouts[((ISum(b) + 3 * ISum(s) + 5 * A[1][1] + 7 * Len(A) + 700) % 4) + 1]
MkWLS(A, b, s) == [kind |-> "wls", A |-> A, b |-> b, s |-> s, conv |-> ConvOf(A, b, s), layout |-> LayoutOf(A, b, s)]

WlsRootStep == /\ c = Root /\ "wls" \in Families
               /\ \E f \in 1..Len(Fams) : \E A \in Fams[f].as : c' = [kind |-> "wseed", f |-> f, A |-> A]
               /\ exp' = NoExp
WlsSeedStep == /\ c.kind = "wseed"
               /\ \E s \in [1..Fams[c.f].n -> Fams[c.f].sv] :
                     /\ FullRank(c.A, s)
                     /\ c' = [kind |-> "wseed2", f |-> c.f, A |-> c.A, s |-> s]
               /\ exp' = NoExp
WlsCaseStep == /\ c.kind = "wseed2"
               /\ \E b \in [1..Fams[c.f].n -> Fams[c.f].bv] : c' = MkWLS(c.A, b, c.s)
               /\ exp' = ExpectedWLS(c') @@ [nat |-> NatPieces(c'.A, c'.b, c'.s),
                                              natz |-> NatPieces(c'.A, ModelOf(c'.A, SubSeq(ShiftZ, 1, Cols(c'.A))), c'.s)]

(* ------------------------------------------------------------------------------------- *)
(* pcomp family                                                                           *)
(* ------------------------------------------------------------------------------------- *)
PcShapes == IF Quick THEN {<<2, 2>>, <<3, 2>>, <<2, 3>>} ELSE {<<2, 2>>, <<3, 2>>, <<4, 2>>, <<2, 3>>, <<3, 3>>}
PcVals == {-1, 0, 2}
PcExp(x) == [scatter |-> ScatterM(x), colsum |-> [j \in 1..Cols(x) |-> ColSum(x, j)], nonconst |-> NonConstant(x), singular |-> SingularScatter(x)]
PcRootStep == /\ c = Root /\ "pcomp" \in Families
              /\ \E sh \in PcShapes : \E r1 \in [1..sh[2] -> PcVals] :
                    c' = [kind |-> "pseed", no |-> sh[1], nv |-> sh[2], r1 |-> r1]
              /\ exp' = NoExp
PcCaseStep == /\ c.kind = "pseed"
              /\ \E rest \in [1..(c.no - 1) -> [1..c.nv -> PcVals]] :
                    c' = [kind |-> "pcomp", x |-> <<c.r1>> \o rest]
              /\ exp' = PcExp(c'.x)

(* ------------------------------------------------------------------------------------- *)
(* hmfx: exact alternating least squares                                                  *)
(* ------------------------------------------------------------------------------------- *)
RI(M) == [i \in 1..Len(M) |-> [j \in 1..Len(M[1]) |-> OfInt(M[i][j])]]    \* integer matrix -> rationals
Ones(n, k) == [i \in 1..n |-> [j \in 1..k |-> 1]]

HxS23 == { << <<1, 2, 2>>, <<2, 3, 5>> >>, << <<-1, 0, 2>>, <<2, 1, -1>> >>, << <<0, 1, 3>>, <<1, 1, 1>> >>,
           << <<2, -1, 1>>, <<1, 2, 0>> >> }
HxS33 == { << <<1, 2, 2>>, <<2, 3, 5>>, <<0, 1, 1>> >>, << <<-1, 0, 2>>, <<2, 1, -1>>, <<1, 1, 0>> >>,
           << <<2, 0, 1>>, <<1, 3, 1>>, <<0, 1, 2>> >> }
HxG13 == { << <<1, 1, 1>> >>, << <<1, 2, -1>> >> }
HxG23 == { << <<1, 0, 1>>, <<0, 1, 1>> >>, << <<1, 1, 1>>, <<-1, 0, 2>> >> }
HxW33 == [1..3 -> [1..3 -> {1, 2}]]
HxW33z == {[i \in 1..3 |-> [j \in 1..3 |-> IF i = z[1] /\ j = z[2] THEN 0 ELSE 1]] : z \in (1..3) \X (1..3)}

(* Exact rationals grow quickly (the denominators square at every update), so the exact     *)
(* layer makes single updates from integer factors (init -> a, init -> g) and, for the      *)
(* smallest family, the two-update chain init -> a -> g.  Chi-square is compared per        *)
(* spectrum (coefficient update) and per pixel (component update): each of these partial    *)
(* sums is what the update minimises, and their non-increase implies that of the total.     *)
HxA == IF Quick THEN {-1, 2} ELSE {-1, 0, 2}
HxSeed(S, g0, a0, eps, chain, wf) == [S |-> S, g0 |-> g0, a0 |-> a0, eps |-> eps, chain |-> chain, wf |-> wf]
HxInitSeeds ==      \* seeds carry everything but W (enumerated in the second step)
   {HxSeed(S, ga[1], ga[2], 0, FALSE, "w22") : S \in [1..2 -> [1..2 -> HxA]],
        ga \in {<< << <<1, 2>> >>, << <<1>>, <<1>> >> >>, << << <<2, -1>> >>, << <<1>>, <<2>> >> >>}}
   \cup {HxSeed(S, ga[1], ga[2], 0, TRUE, "w22c") : S \in [1..2 -> [1..2 -> {-1, 0, 2}]],
        ga \in {<< << <<1, 1>> >>, << <<1>>, <<1>> >> >>, << << <<1, -1>> >>, << <<-1>>, <<2>> >> >>}}
   \cup {HxSeed(S, ga[1], ga[2], e, FALSE, "w23") : S \in HxS23, e \in {0, 1},
        ga \in {<< << <<1, 1, 1>> >>, << <<1>>, <<2>> >> >>, << << <<1, 2, -1>> >>, << <<2>>, <<-1>> >> >>}}
   \cup {HxSeed(S, ga[1], ga[2], 0, FALSE, "w33") : S \in HxS33,
        ga \in {<< << <<1, 0, 1>>, <<0, 1, 1>> >>, << <<1, 0>>, <<0, 1>>, <<1, 1>> >> >>,
                << << <<1, 1, 1>>, <<-1, 0, 2>> >>, << <<1, 1>>, <<2, -1>>, <<0, 1>> >> >>}}
HxWs(wf) == CASE wf = "w22" -> IF Quick THEN [1..2 -> [1..2 -> {0, 1}]] ELSE [1..2 -> [1..2 -> {0, 1, 2}]]
              [] wf = "w22c" -> [1..2 -> [1..2 -> {0, 1}]]
              [] wf = "w23" -> IF Quick THEN [1..2 -> [1..3 -> {0, 1}]] ELSE [1..2 -> [1..3 -> {0, 1, 2}]]
              [] wf = "w33" -> IF Quick THEN HxW33z ELSE HxW33 \cup HxW33z

HxEntry(op, a, g) == [op |-> op, a |-> a, g |-> g]
HxRootStep == /\ c = Root /\ "hmfx" \in Families
              /\ \E sd \in HxInitSeeds : c' = [kind |-> "hseed", sd |-> sd]
              /\ exp' = NoExp
HxInitStep == /\ c.kind = "hseed"
              /\ \E W \in HxWs(c.sd.wf) :
                   c' = [kind |-> "hmfx", S |-> c.sd.S, W |-> W, eps |-> c.sd.eps, chain |-> c.sd.chain,
                         hist |-> << HxEntry("init", RI(c.sd.a0), RI(c.sd.g0)) >>]
              /\ exp' = NoExp
HxLast == c.hist[Len(c.hist)]
HxAStep == /\ c.kind = "hmfx"
           /\ HxLast.op = "init"
           /\ HAStepOK(c.S, c.W, HxLast.g)
           /\ c' = [c EXCEPT !.hist = Append(@, HxEntry("a", HAStep(c.S, c.W, HxLast.g), HxLast.g))]
           /\ exp' = NoExp
HxGStep == /\ c.kind = "hmfx"
           /\ (HxLast.op = "init" \/ (HxLast.op = "a" /\ c.chain))
           /\ HGStepOK(c.S, c.W, HxLast.a, c.eps)
           /\ c' = [c EXCEPT !.hist = Append(@, HxEntry("g", HxLast.a, HGStep(c.S, c.W, HxLast.a, HxLast.g, c.eps)))]
           /\ exp' = NoExp

(* ------------------------------------------------------------------------------------- *)
(* hmfm: the iteration protocol over abstract measurements                                *)
(* ------------------------------------------------------------------------------------- *)
NoEv == [op |-> "none", dbad |-> 0, grad |-> 0, dmodel |-> 0, rms |-> 0, neg |-> FALSE, same |-> TRUE,
         untouched |-> TRUE]
Ev(op) == [NoEv EXCEPT !.op = op]
AbsEvents ==
   {[Ev(op) EXCEPT !.dbad = d, !.grad = gr] : op \in {"astep", "gstep"}, d \in {-7, 0, 2, 3}, gr \in {0, 1, 2}}
   \cup {[Ev("reorder") EXCEPT !.dmodel = dm] : dm \in {0, 1, 2}}
   \cup {[Ev("norm") EXCEPT !.dmodel = dm, !.rms = rm, !.neg = ng] : dm \in {0, 2}, rm \in {0, 1, 2}, ng \in BOOLEAN}
   \cup {[Ev(op) EXCEPT !.dbad = d, !.neg = ng] : op \in {"astepnn", "gstepnn"}, d \in {-7, 0, 2, 3}, ng \in BOOLEAN}
   \cup {[Ev("done") EXCEPT !.same = sm, !.untouched = ut, !.neg = ng] : sm \in BOOLEAN, ut \in BOOLEAN, ng \in BOOLEAN}
HmNiter == 2
HmMaxOps == 10
HmPhases == {"start", "a", "g", "reorder", "norm", "done"}
HmInit == \E nn \in BOOLEAN : \E eps \in {0, 1} :
             c = [kind |-> "hmfm", h |-> HStart(nn, eps, HmNiter), ev |-> NoEv, ops |-> <<>>]
HmStep == /\ c.kind = "hmfm" /\ Len(c.ops) < HmMaxOps
          /\ \E e \in AbsEvents : \E ph \in HmPhases : \E it \in 0..HmNiter :
               LET hn == [c.h EXCEPT !.phase = ph, !.iter = it]
               IN /\ HStepR(c.h, hn, e)
                  /\ c' = [c EXCEPT !.h = hn, !.ev = e, !.ops = Append(@, e.op)]
          /\ exp' = NoExp

Init == \/ c = Root /\ exp = NoExp
        \/ "hmfm" \in Families /\ HmInit /\ exp = NoExp
Next == WlsRootStep \/ WlsSeedStep \/ WlsCaseStep \/ PcRootStep \/ PcCaseStep \/ HxRootStep \/ HxInitStep \/ HxAStep \/ HxGStep
        \/ HmStep

(* ------------------------------------------------------------------------------------- *)
(* the laws, one per INVARIANT / PROPERTY line                                            *)
(* ------------------------------------------------------------------------------------- *)
IsWLS == c.kind = "wls"
W_ == WeightsOf(c.s)
C15a_YfitIsAx == IsWLS => YfitIsAx(c.A, exp)
C15a_GradientZero == IsWLS => GradientZero(c.A, c.b, W_, exp)
C15a_Chi2IsWeightedResidual == IsWLS => Chi2IsWeightedResidual(c.A, c.b, W_, exp)
C15a_CovarIsInverse == IsWLS => CovarIsInverse(c.A, W_, exp)
C15a_VarIsDiagonal == IsWLS => VarIsDiagonal(c.A, exp)
C15a_DofCountsWeighted == IsWLS => DofCountsWeighted(c.A, W_, exp)
C15a_NormalPosDef == IsWLS => NormalPosDef(c.A, W_)
C15a_NoBetterNeighbour == IsWLS => NoBetterNeighbour(c.A, c.b, W_, exp)
C15a_ZeroWeightIgnored == IsWLS => ZeroWeightIgnored(c.A, c.b, W_, exp)
(* (the rational evaluation of the scale stays inside 32 bits for one and two columns) *)
C15a_ScaleBoundsSolution == (IsWLS /\ Cols(c.A) <= 2) => ScaleBoundsSolution(c.A, c.b, W_)
C15a_ScaleHomogeneous == (IsWLS /\ Cols(c.A) <= 2) => ScaleHomogeneous(c.A, c.b, c.s, 2)
C15a_LayoutIndependent == IsWLS => LayoutIndependent(c)
C15a_HomogeneousInB == IsWLS => HomogeneousInB(c.A, c.b, c.s, exp, 2)
C15a_HomogeneousInS == IsWLS => HomogeneousInS(c.A, c.b, c.s, exp, 2)
C15a_HomogeneousInA == IsWLS => HomogeneousInA(c.A, c.b, c.s, exp, 2)
C15a_ModelShift == IsWLS => ModelShift(c.A, c.b, c.s, exp, SubSeq(ShiftZ, 1, Cols(c.A)))

IsPc == c.kind = "pcomp"
C15b_ScatterSymmetric == IsPc => ScatterSymmetric(c.x)
C15b_ScatterCauchySchwarz == IsPc => ScatterCauchySchwarz(c.x)
C15b_ScatterShiftInvariant == IsPc => ScatterShiftInvariant(c.x, 1)
C15b_SingularWhenFewObs == (IsPc /\ Len(c.x) <= Cols(c.x)) => exp.singular

IsHx == c.kind = "hmfx"
HxN == Len(c.hist)
HxPrev == c.hist[HxN - 1]
(* chi-square never increases across an update that is the exact optimum: spectrum by       *)
(* spectrum for a coefficient update (the penalty does not depend on a), pixel by pixel for  *)
(* a component update when eps = 0 - an action property                                      *)
C15c_ChiNonIncreasing ==
   [][(c.kind = "hmfx" /\ c'.kind = "hmfx" /\ Len(c'.hist) = Len(c.hist) + 1)
        => LET o == c.hist[Len(c.hist)]
               n == c'.hist[Len(c'.hist)]
           IN /\ (n.op = "a" => \A i \in 1..Rows(c.S) : Le(HRowChi2(c.S, c.W, n.a, n.g, i), HRowChi2(c.S, c.W, o.a, o.g, i)))
              /\ ((n.op = "g" /\ c.eps = 0) =>
                    \A j \in 1..Cols(c.S) : Le(HColChi2(c.S, c.W, n.a, n.g, j), HColChi2(c.S, c.W, o.a, o.g, j)))]_c
C15c_GradientVanishesA == (IsHx /\ HxLast.op = "a") =>
   \A i \in 1..Rows(c.S) : \A k \in 1..HK(HxLast.g) : HGradA(c.S, c.W, HxLast.a, HxLast.g, i, k) = Zero
C15c_GradientVanishesG == (IsHx /\ HxLast.op = "g") =>
   \A k \in 1..HK(HxLast.g) : \A j \in 1..Cols(c.S) :
      HGradGReg(c.S, c.W, HxLast.a, HxLast.g, HxPrev.g, k, j, c.eps) = Zero
C15c_OnlyOneFactorMoves == (IsHx /\ HxN >= 2) =>
   ((HxLast.op = "a" => HxLast.g = HxPrev.g) /\ (HxLast.op = "g" => HxLast.a = HxPrev.a))

IsHm == c.kind = "hmfm"
StepOps == {"astep", "gstep", "astepnn", "gstepnn"}
C15c_ProtoChiNonIncreasing ==
   [][(c.kind = "hmfm" /\ c'.kind = "hmfm" /\ c'.ev.op \in StepOps
         /\ (c'.ev.op \in {"astep", "astepnn"} \/ c.h.eps = 0))
        => c'.ev.dbad <= Slack]_c
C15c_ProtoGradient == (IsHm /\ c.ev.op \in {"astep", "gstep"}) => c.ev.grad <= Tol
C15c_ProtoReorderPreservesModel == (IsHm /\ c.ev.op \in {"reorder", "norm"}) => c.ev.dmodel <= Tol
C15c_ProtoUnitRms == (IsHm /\ c.h.phase = "norm") => (c.ev.op = "norm" /\ c.ev.rms <= Tol)
C15c_ProtoNonNegKept == (IsHm /\ c.h.nn /\ c.ev.op # "none") => ~c.ev.neg
C15c_ProtoSeedDeterminism == (IsHm /\ c.h.phase = "done") => c.ev.same
C15c_ProtoInputsUntouched == (IsHm /\ c.h.phase = "done" /\ ~c.h.nn) => c.ev.untouched
C15c_ProtoOrder ==
   [][(c.kind = "hmfm" /\ c'.kind = "hmfm") =>
        LET p == c.h.phase  q == c'.h.phase IN
        /\ c'.h.iter = c.h.iter + (IF q = "norm" THEN 1 ELSE 0)
        /\ c'.h.iter <= c.h.niter
        /\ IF c.h.nn THEN <<p, q>> \in {<<"start", "a">>, <<"a", "a">>, <<"a", "g">>, <<"g", "norm">>,
                                        <<"norm", "a">>, <<"norm", "done">>}
           ELSE <<p, q>> \in {<<"start", "a">>, <<"a", "g">>, <<"g", "reorder">>, <<"reorder", "norm">>,
                              <<"norm", "a">>, <<"norm", "done">>}]_c
C15c_ProtoDoneMeansAllIterations == (IsHm /\ c.h.phase = "done") => c.h.iter = c.h.niter
=============================================================================
