CONSTANT Parts = {"stripe", "anchor", "vecanchor", "dist", "capself"}
CONSTANT ThetaStep = 450
CONSTANT KsDeg = {14, 18, 22, 26, 30, 32, 34}
CONSTANT KsRad = {14, 20, 26, 32, 36, 38, 40}
CONSTANT Ms = {1, 5, 30}
INIT Init
NEXT Next
CHECK_DEADLOCK FALSE
INVARIANT C18_StripeTable
INVARIANT C18_AnchorInverse
INVARIANT C18_AnchorIsometry
INVARIANT C18_AnchorAxisFixed
INVARIANT C18_AnchorPoleFormula
INVARIANT C18_AnchorNuZero
INVARIANT C18_AnchorLatRange
INVARIANT C18_AnchorPoleSources
INVARIANT C18_DistCaseOK
INVARIANT C18_FamiliesAgree
INVARIANT C18_DistSymmetric
INVARIANT C18_DistRange
INVARIANT C18_DistZeroIffSamePoint
INVARIANT C18_UnitsExact
INVARIANT C18_DemandWithinStatement
INVARIANT C18_ExpZero
INVARIANT C18_CapSelf
INVARIANT C18_IntForms
INVARIANT C18_FloatForms
INVARIANT C18_Carriers
INVARIANT C18_VecAnchorUnit
INVARIANT C18_VecAnchorPole
