---------------------------- MODULE MC_Window ----------------------------
(* Bounded-exhaustive enumeration of cases for X05 (spec/Window.tla).  Every non-seed state is one case c    *)
(* with the specified outcome exp (and dev = the row score under Dev_SensCompare):                            *)
(*   kind "row"     one row of a window_flist table together with the fpFieldStat / tsField / psField files  *)
(*                  it refers to; exp = [out |-> RowOut(c), demanded |-> ScoreDemanded(c)]                    *)
(*   kind "read"    one window_read call: keywords kw and world w; exp = WindowRead(kw, w)                    *)
(*   kind "wscore"  one window_score call: rescore and world w; exp = WScoreOut(w, rescore)                   *)
(*   kind "balkans" one window_blist table over the cap pool; exp = [bk |-> Balkans, inside |-> InsideSets]   *)
(*   kind "table"   the cap pool and the test points (read by the harness to materialise the others)          *)
(* harness/props/x05.py materialises every case as FITS files and environment variables and calls the real   *)
(* code.  The big families of the thorough tier go root -> seed -> cases so that all TLC workers share them.  *)
EXTENDS Window, TLC
CONSTANTS Families,      \* subset of {"table", "bits", "psp", "twoband", "read", "wscore", "balkans"}
          Big            \* BOOLEAN: thorough-tier sizes
VARIABLES c, exp, dev

(* ------------------------------ rows ------------------------------ *)
Fp(h, s) == [has |-> h, status |-> s]
Ps(st, fw, sr) ==
  LET q == Mul(sr, sr) IN
  [has |-> TRUE, st |-> st,
   w |-> <<Add(fw, <<1, 1>>), Add(fw, <<1, 2>>), fw, Add(fw, <<3, 2>>), Add(fw, <<2, 1>>)>>,
   sky |-> <<Add(q, <<1, 1>>), Add(q, <<2, 1>>), q, Add(q, <<3, 1>>), Add(q, <<4, 1>>)>>,
   sroot |-> sr]
PsNegSky(st, fw) == [Ps(st, fw, <<1, 1>>) EXCEPT !.sky[3] = <<-4, 1>>, !.sroot = <<0, 1>>]

Row(ign, fpts, ps, img, sun, b) ==
  [kind |-> "row", ign |-> ign, fp |-> fpts[1], ts |-> fpts[2], ps |-> ps, img |-> img, sun |-> sun,
   xbin |-> b, ybin |-> b]

FpAll == << <<Fp(TRUE, 0), Fp(FALSE, 0)>>, <<Fp(TRUE, 3), Fp(FALSE, 0)>>, <<Fp(FALSE, 0), Fp(TRUE, 0)>>,
            <<Fp(FALSE, 0), Fp(TRUE, 2)>>, <<Fp(FALSE, 0), Fp(FALSE, 0)>>, <<Fp(TRUE, 0), Fp(TRUE, 5)>>,
            <<Fp(TRUE, 4), Fp(TRUE, 0)>> >>
FpIdx == IF Big THEN 1 .. 7 ELSE {1, 3, 4, 5}
Suns == IF Big THEN {<<-25, 2>>, <<-12, 1>>, <<-23, 2>>} ELSE {<<-20, 1>>, <<-12, 1>>}
Bins == {1, 2}
ImgAll == << All5({}), All5({"CLEAR"}), <<{}, {}, {}, {}, {"SHUTTERS"}>>, <<{"CLOUDY"}, {}, {}, {}, {}>>,
             <<{"CLEAR", "NOISY_CCD"}, {}, {"BAD_FOCUS"}, {}, {}>>, <<{}, {"BIT12"}, {}, {}, {"BIT10", "CLEAR"}>> >>
ImgIdx == IF Big THEN 1 .. 6 ELSE {1, 3, 4}
PspAll == << All5(0), <<0, 1, 2, 0, 1>>, <<0, 0, 0, 3, 0>>, <<0, 34, 0, 0, 0>>, <<0, 35, 0, 0, 0>>, <<5, 0, 0, 0, 0>>,
             <<0, 0, 0, 0, 4>> >>
PspIdx == IF Big THEN 1 .. 7 ELSE {1, 3, 4}
(* r-band seeing and square root of the r-band sky: x = 0.2772 * xbin / (fw * sr) *)
SensAll == << <<<<1, 1>>, <<2, 1>>>>, <<<<1, 2>>, <<1, 1>>>>, <<<<3, 2>>, <<3, 1>>>>, <<<<1, 1>>, <<0, 1>>>>,
              <<<<2, 1>>, <<1, 1>>>>, <<<<693, 1000>>, <<1, 1>>>>, <<<<0, 1>>, <<1, 1>>>> >>
SensIdx == IF Big THEN 1 .. 7 ELSE 1 .. 3
PsK(st, k) == Ps(st, SensAll[k][1], SensAll[k][2])
(* every PSP pattern with the first two seeing/sky pairs, every seeing/sky pair with PSP status 0, a negative sky, no psField *)
PsSet == {PsK(PspAll[p], k) : p \in PspIdx, k \in {1, 2}} \cup {PsK(All5(0), k) : k \in SensIdx}
         \cup {PsNegSky(PspAll[p], <<1, 1>>) : p \in {1, 3}} \cup {NoPs}

GoodPs == Ps(All5(0), <<1, 1>>, <<2, 1>>)
Fp0 == FpAll[1]

Root == [kind |-> "root"]
TableSeed(f, ign, sun, b) == [kind |-> "seedT", f |-> f, ign |-> ign, sun |-> sun, b |-> b]
TableRows(f, ign, sun, b) ==
  {Row(ign, FpAll[f], ps, ImgAll[i], sun, b) : i \in ImgIdx, ps \in PsSet}

Names11 == BadNames \cup UnphotNames \cup {"CLEAR", "BIT11"}
OneBand(k, S) == [j \in Bands |-> IF j = k THEN S ELSE {}]
BitsSeed(k, S) == [kind |-> "seedB", band |-> k, S |-> S]
BitsRow(k, S) == Row(FALSE, Fp0, GoodPs, OneBand(k, S), <<-20, 1>>, 1)
InitBitsQuick ==
  \/ \E k \in Bands : \E n \in Names11 : c = BitsRow(k, {n})
  \/ \E n1 \in Names11 : \E n2 \in Names11 : n1 # n2 /\ c = BitsRow(2, {n1, n2})

PspValues == IF Big THEN (0 .. 70) \cup {255, 1023, 65535} ELSE (0 .. 8) \cup {15, 16, 17, 18, 19, 31, 32, 33, 34, 35, 48, 50, 63, 64, 66, 67}
PspRow(k, v, b, ign) == Row(ign, Fp0, Ps([j \in Bands |-> IF j = k THEN v ELSE 0], <<1, 1>>, <<2, 1>>), All5({}), <<-20, 1>>, b)
InitPsp == \E k \in (IF Big THEN Bands ELSE {1, 3, 5}) : \E v \in PspValues : \E b \in (IF Big THEN {1, 2, 4} ELSE {1, 2}) : \E ign \in BOOLEAN :
              c = PspRow(k, v, b, ign)

TwoSeed(i, j) == [kind |-> "seed2", i |-> i, j |-> j]
TwoRow(i, j, n1, n2) == Row(FALSE, Fp0, GoodPs, [k \in Bands |-> IF k = i THEN {n1} ELSE IF k = j THEN {n2} ELSE {}], <<-20, 1>>, 1)

(* ------------------------------ files ------------------------------ *)
R1 == Row(FALSE, Fp0, GoodPs, All5({}), <<-20, 1>>, 1)                                       \* photometric
R2 == Row(FALSE, FpAll[3], Ps(All5(0), <<1, 2>>, <<1, 1>>), ImgAll[4], <<-20, 1>>, 2)       \* binned, cloudy, tsField
R3 == Row(FALSE, Fp0, NoPs, All5({}), <<-20, 1>>, 1)                                         \* no psField
R4 == Row(FALSE, Fp0, Ps(<<0, 0, 0, 3, 0>>, <<3, 2>>, <<3, 1>>), All5({}), <<-5, 1>>, 1)     \* twilight
R5 == Row(FALSE, FpAll[2], GoodPs, All5({}), <<-20, 1>>, 1)                                  \* frames status 3
RowLists == {<<R1, R2, R3, R4, R5>>, <<R4>>, <<R3, R1>>}
AllPresent == PlainFiles
World(res, cal, pr, cf, cr, rows) ==
  [resolve |-> res, calib |-> cal, present |-> pr, cflist |-> cf, crescore |-> cr, rows |-> rows]
Kw(f, r, bl, bc, ba, fi, bi) ==
  [flist |-> f, rescore |-> r, blist |-> bl, bcaps |-> bc, balkans |-> ba, findx |-> fi, bindx |-> bi]
KwFew == {Kw(TRUE, TRUE, FALSE, FALSE, FALSE, FALSE, FALSE), Kw(TRUE, FALSE, FALSE, FALSE, TRUE, FALSE, FALSE),
          Kw(FALSE, TRUE, TRUE, FALSE, FALSE, FALSE, TRUE), Kw(FALSE, FALSE, FALSE, FALSE, FALSE, FALSE, FALSE),
          Kw(TRUE, TRUE, TRUE, TRUE, TRUE, TRUE, TRUE)}
ReadCase(kw, w) == [kind |-> "read", kw |-> kw, w |-> w]
InitRead ==
  \/ \E f, r, bl, bc, ba, fi, bi \in BOOLEAN : \E cr \in {"absent", "stale"} :
     \E rows \in (IF Big \/ (f /\ r /\ ~bl /\ ~bc) THEN RowLists ELSE {<<R1, R2, R3, R4, R5>>}) :
       c = ReadCase(Kw(f, r, bl, bc, ba, fi, bi), World(TRUE, TRUE, AllPresent, "orig", cr, rows))
  \/ \E kw \in KwFew : \E res, cal \in BOOLEAN : \E cr \in (IF Big THEN {"absent", "stale"} ELSE {"absent"}) :
     \E pr \in (IF Big THEN {AllPresent, AllPresent \ {"flist"}, AllPresent \ {"bcaps"}, {"flist"}}
                ELSE {AllPresent, AllPresent \ {"flist"}}) :
       /\ ~(res /\ cal /\ pr = AllPresent)
       /\ c = ReadCase(kw, World(res, cal, pr, "orig", cr, <<R1, R2, R3, R4, R5>>))
WScoreCase(rescore, w) == [kind |-> "wscore", rescore |-> rescore, w |-> w]
InitWScore ==
  \E rescore, res, cal \in BOOLEAN : \E cr \in {"absent", "stale"} : \E rows \in RowLists :
  \E pr \in (IF Big THEN {AllPresent, {"flist"}, AllPresent \ {"flist"}} ELSE {{"flist"}, AllPresent \ {"flist"}}) :
     c = WScoreCase(rescore, World(res, cal, pr, "orig", cr, rows))

(* ------------------------------ balkans ------------------------------ *)
Ax(k) == <<IF k = 1 THEN One ELSE Zero, IF k = 2 THEN One ELSE Zero, IF k = 3 THEN One ELSE Zero>>
NegV(v) == <<Neg(v[1]), Neg(v[2]), Neg(v[3])>>
CapPool == << [x |-> Ax(1), cm |-> <<1, 2>>], [x |-> NegV(Ax(1)), cm |-> <<1, 1>>], [x |-> Ax(2), cm |-> <<3, 2>>],
              [x |-> NegV(Ax(2)), cm |-> <<1, 2>>], [x |-> Ax(3), cm |-> <<1, 1>>], [x |-> NegV(Ax(3)), cm |-> <<3, 2>>] >>
Signs == {-1, 1}
PointSet == {<<R(2 * s1, 3), R(2 * s2, 3), R(s3, 3)>> : s1 \in Signs, s2 \in Signs, s3 \in Signs}
       \cup {<<R(2 * s1, 3), R(s2, 3), R(2 * s3, 3)>> : s1 \in Signs, s2 \in Signs, s3 \in Signs}
       \cup {<<R(s1, 3), R(2 * s2, 3), R(2 * s3, 3)>> : s1 \in Signs, s2 \in Signs, s3 \in Signs}
RECURSIVE SeqOfSet(_)
SeqOfSet(S) == IF S = {} THEN <<>> ELSE LET x == CHOOSE y \in S : TRUE IN <<x>> \o SeqOfSet(S \ {x})
Points == SeqOfSet(PointSet)
RowChoices == {p \in (0 .. 3) \X (0 .. 6) : p[2] + p[1] <= 6 /\ (p[1] = 0 => p[2] \in {0, 3, 6})}
BRow(k, p) == [iprimary |-> 100 - 7 * k, ibindx |-> 3 * k + 1, ncaps |-> p[1], icap |-> p[2], weight |-> k, str |-> 2 * k + 1]
BalkCase(ps) == [kind |-> "balkans", blist |-> [k \in DOMAIN ps |-> BRow(k, ps[k])]]
BalkSeed(p1, p2) == [kind |-> "seedK", p1 |-> p1, p2 |-> p2]
RowChoicesFew == {<<0, 0>>, <<0, 6>>, <<1, 0>>, <<1, 5>>, <<2, 1>>, <<2, 4>>, <<3, 0>>, <<3, 3>>}
InitBalkans ==
  \/ \E p1 \in RowChoices : c = BalkCase(<<p1>>)
  \/ \E p1 \in (IF Big THEN RowChoices ELSE RowChoicesFew) : \E p2 \in (IF Big THEN RowChoices ELSE RowChoicesFew) :
       c = BalkCase(<<p1, p2>>)
  \/ c = BalkCase(<< <<1, 5>>, <<3, 0>>, <<2, 3>>, <<0, 0>>, <<3, 3>> >>)

(* ------------------------------ outcomes ------------------------------ *)
NoExp == [none |-> TRUE]
NoDev == [score |-> <<0, 1>>]
IsCase == c.kind \in {"row", "read", "wscore", "balkans"}
ExpOf(x) ==
  IF x.kind = "row" THEN [out |-> RowOut(x), demanded |-> ScoreDemanded(x)]
  ELSE IF x.kind = "read" THEN WindowRead(x.kw, x.w)
  ELSE IF x.kind = "wscore" THEN WScoreOut(x.w, x.rescore)
  ELSE IF x.kind = "balkans" THEN LET bk == Balkans(x.blist, CapPool) IN [bk |-> bk, inside |-> InsideSets(bk, Points)]
  ELSE NoExp
DevOf(x) == IF x.kind = "row" THEN [score |-> Dev_SensCompare(x).score] ELSE NoDev

Init ==
  \/ c = Root /\ exp = NoExp /\ dev = NoDev
  \/ c = [kind |-> "table", caps |-> CapPool, pts |-> Points] /\ exp = NoExp /\ dev = NoDev
  \/ /\ \/ "bits" \in Families /\ ~Big /\ InitBitsQuick
        \/ "psp" \in Families /\ InitPsp
        \/ "read" \in Families /\ InitRead
        \/ "wscore" \in Families /\ InitWScore
        \/ "balkans" \in Families /\ InitBalkans
     /\ exp = ExpOf(c) /\ dev = DevOf(c)

RootStep ==
  /\ c = Root
  /\ \/ /\ "table" \in Families
        /\ \E f \in FpIdx : \E ign \in BOOLEAN : \E sun \in Suns : \E b \in Bins : c' = TableSeed(f, ign, sun, b)
     \/ /\ "bits" \in Families /\ Big
        /\ \E k \in Bands : \E S \in SUBSET BadNames : c' = BitsSeed(k, S)
     \/ /\ "twoband" \in Families
        /\ \E i \in Bands : \E j \in Bands : i < j /\ c' = TwoSeed(i, j)
     \/ /\ "balkans" \in Families /\ Big
        /\ \E p1 \in RowChoices : \E p2 \in RowChoices : c' = BalkSeed(p1, p2)
  /\ exp' = NoExp /\ dev' = NoDev

CaseStep ==
  /\ \/ c.kind = "seedT" /\ c' \in TableRows(c.f, c.ign, c.sun, c.b)
     \/ c.kind = "seedB" /\ \E S \in SUBSET (UnphotNames \cup {"CLEAR"}) : c' = BitsRow(c.band, c.S \cup S)
     \/ c.kind = "seed2" /\ \E n1 \in Names11 : \E n2 \in Names11 : c' = TwoRow(c.i, c.j, n1, n2)
     \/ c.kind = "seedK" /\ \E p3 \in RowChoicesFew : c' = BalkCase(<<c.p1, c.p2, p3>>)
  /\ exp' = ExpOf(c') /\ dev' = DevOf(c')

Next == RootStep \/ CaseStep

(* ------------------------------ spec-level properties ------------------------------ *)
ASSUME \A k \in DOMAIN CapPool : Le(Zero, CapPool[k].cm)
ASSUME Len(Points) = 24 /\ \A k \in DOMAIN Points : Dot3(Points[k], Points[k]) = One
X05_RowLaws == c.kind = "row" => (WellFormedRow(c) /\ SensModelled(c) /\ RowLaws(c))
X05_DeviationVisible == (c.kind = "row" /\ QExist(c) /\ SensX(c).kind # "nan") => dev.score # exp.out.score
X05_FileLaws == c.kind = "read" => FileLaws(c.kw, c.w)
X05_ScoreFileLaws == c.kind \in {"read", "wscore"} => \A r \in BOOLEAN : ScoreFileLaws(c.w, r)
X05_BalkanLaws == c.kind = "balkans" => (BalkansDefined(c.blist, CapPool) /\ Law_Balkans(c.blist, CapPool, Points))
X05_OutcomeShape == c.kind \in {"read", "wscore"} => exp.err \in {"", "PhotoopException", "open"}
=============================================================================
