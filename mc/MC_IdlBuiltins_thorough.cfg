CONSTANT Families = {"smooth", "median", "runmed1", "runmed2", "runmed2pat", "uniq", "uniqidx", "rebin", "rebinbad", "rebindelta", "rebinfloor"}
CONSTANT MaxLen = 7
CONSTANT Med2Shapes <- T_Med2Shapes
CONSTANT MaxIdxLen = 5
CONSTANT Img2Shapes <- T_Img2Shapes
CONSTANT PatShapes <- T_PatShapes
CONSTANT RebinMaxRank = 3
CONSTANT RebinDims3 = {1, 2, 3, 4, 6}
CONSTANT DeltaMaxRank = 2
CONSTANT FloorD0 = 4
CONSTANT FloorFactors <- T_FloorFactors
INIT Init
NEXT Next
CHECK_DEADLOCK FALSE
INVARIANT C14_CallsAreDefined
INVARIANT C14_OutcomeWellFormed
INVARIANT C14_SmoothTwoPhrasings
INVARIANT C14_SmoothFixesConstants
INVARIANT C14_SmoothEdgesUntouched
INVARIANT C14_SmoothEdgeFlagOnlyAtEdges
INVARIANT C14_SmoothEvenIsNextOdd
INVARIANT C14_SmoothWithinHull
INVARIANT C14_SmoothInteriorIsWindowMean
INVARIANT C14_SmoothLinear
INVARIANT C14_SmoothSupport
INVARIANT C14_SmoothScales
INVARIANT C14_FormIndependent
INVARIANT C14_MedianScales
INVARIANT C14_RunMed1Scales
INVARIANT C14_RunMed2Scales
INVARIANT C14_MedianTwoPhrasings
INVARIANT C14_MedianIsAnElement
INVARIANT C14_MedianEvenFlag
INVARIANT C14_MedianSplits
INVARIANT C14_RunMed1TwoPhrasings
INVARIANT C14_RunMed1EdgesUntouched
INVARIANT C14_RunMed1FixesMonotone
INVARIANT C14_RunMed1ValuesFromWindow
INVARIANT C14_RunMed2TwoPhrasings
INVARIANT C14_RunMed2EdgesUntouched
INVARIANT C14_RunMed2FixesConstants
INVARIANT C14_RunMed2RowIsRunMed1
INVARIANT C14_RunMed2Transposes
INVARIANT C14_UniqTwoPhrasings
INVARIANT C14_UniqStrictlyIncreasing
INVARIANT C14_UniqEndsWithLast
INVARIANT C14_UniqOnePerValue
INVARIANT C14_UniqIdxIdentityIsUniq
INVARIANT C14_UniqIdxOnePerValue
INVARIANT C14_RebinShape
INVARIANT C14_RebinTwoPhrasings
INVARIANT C14_RebinKeepIsIdentity
INVARIANT C14_RebinFixesConstants
INVARIANT C14_RebinSampleTakesElements
INVARIANT C14_SamplingBackIsIdentity
INVARIANT C14_BlockMeanPreservesMean
INVARIANT C14_RebinAxesCommute
INVARIANT C14_RebinLinear
INVARIANT C14_RebinWeightsArePartition
INVARIANT C14_RebinScales
INVARIANT C14_RebinRejects
