CONSTANT BystanderVals = {"<absent>", "b"}
CONSTANT UseBodyFaults = TRUE
CONSTANT Deviation = TRUE
INIT Init
NEXT Next
INVARIANT C20_TypeOK
INVARIANT C20_BystandersUntouched
INVARIANT C20_TouchedOrigOrNew
INVARIANT C20_SavedIsEntryValue
INVARIANT C20_RaisedOnlyIfFaultOrPrecondition
CHECK_DEADLOCK TRUE
