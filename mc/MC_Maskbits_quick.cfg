CONSTANT Mode = "laws"
CONSTANT BitPos = {0, 32, 63}
CONSTANT Undef = {1, 62}
CONSTANT G2Fam = "one"
CONSTANT AliasFam = {"none", "a1g1", "cross"}
CONSTANT Orders = {"hash"}
CONSTANT NMachFiles = 0
CONSTANT NMachQueries = 0
INIT Init
NEXT Next
INVARIANT C07_TypeOK
INVARIANT C07_RetIsOutcome
INVARIANT C07_ValIsUnion
INVARIANT C07_NamesAscending
INVARIANT C07_RoundTripNames
INVARIANT C07_RoundTripValue
INVARIANT C07_AliasSame
INVARIANT C07_CaseInsensitive
INVARIANT C07_UnknownRaises
INVARIANT C07_ExistNeverRaises
INVARIANT C07_ReloadReplaces
INVARIANT C07_AliasIsCopy
CHECK_DEADLOCK FALSE
