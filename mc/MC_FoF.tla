------------------------------ MODULE MC_FoF ------------------------------
(* Bounded-exhaustive instance for C05.                                                     *)
(*   root -> every graph on n points (n \in Ns, all 2^(n(n-1)/2) link relations)            *)
(*        -> "gcase": GroupsAlgo stepped on the whole graph (one chunk holding every point) *)
(*        -> "case":  every cover of at most KFor(n) non-empty chunk lists (and, for        *)
(*                    n = DeepN, of up to DeepK chunks of at most two points) satisfying    *)
(*                    CoverOK, MergeAlgo stepped one (chunk, local group) at a time, then   *)
(*                    final renumbering, list build, the caller's renumbering and rebuild.  *)
(* Mode "machine": the two algorithms run as TLC behaviours, invariants on every            *)
(*                 intermediate state (no dump).                                            *)
(* Mode "cases":   one state per graph / per (graph, cover) carrying in exp the outcome of  *)
(*                 the same step functions run to completion; the dump is replayed into the *)
(*                 real classes groups / chunks.friendsoffriends / spheregroup.             *)
EXTENDS FoF, TLC
CONSTANTS K2, K3, K4, K5,   \* Kn = largest number of chunks in a cover of n points (0: n not explored)
          DeepN, DeepK,    \* for n = DeepN also the covers of KFor(n)+1 .. DeepK chunks of at most two points,
          DeepMinLinks,    \* ... for the graphs with at least DeepMinLinks links
          OrdK, OrdS, OrdP, \* merge-order family: up to OrdK chunk events, each touching at most OrdS earlier
                           \* provisional labels, at most OrdP points (OrdK = 0: off)
          OrdFull,         \* FALSE: only the events "new point", "new point attached to one earlier label" and
                           \* "merge of earlier labels"; TRUE: also re-visits of one label and merges that add a point
          Mode             \* "machine" or "cases"
VARIABLES c, st, exp
vars == <<c, st, exp>>

AllPairs(n) == {p \in Pts(n) \X Pts(n) : p[1] < p[2]}
KFor(n) == IF n = 2 THEN K2 ELSE IF n = 3 THEN K3 ELSE IF n = 4 THEN K4 ELSE K5
Ns == {n \in 2 .. 5 : KFor(n) > 0}
Chunks(n) == (SUBSET Pts(n)) \ {{}}

Root == [kind |-> "root"]
None == [pc |-> "none"]
NoExp == [pc |-> "none"]
Proj(s) == [pc |-> s.pc, ig |-> s.inGroup, mult |-> s.multGroup, first |-> s.firstGroup,
            next |-> s.nextGroup, ng |-> s.nGroups]
ProjE(e) == [pc |-> "spec", ig |-> e.ingroup, mult |-> e.mult, first |-> e.first, next |-> e.next, ng |-> e.ngroups]

Init == c = Root /\ st = None /\ exp = NoExp

(* root -> "pre" (one per graph, no law attached) -> "graph": the laws of a graph are then evaluated by the *)
(* worker that takes the pre-state, not all of them by the single worker that expands the root             *)
RootStep ==
  /\ c.kind = "root"
  /\ \E n \in Ns : \E adj \in SUBSET AllPairs(n) : c' = [kind |-> "pre", n |-> n, adj |-> adj]
  /\ st' = None /\ exp' = NoExp
GraphStep ==
  /\ c.kind = "pre"
  /\ c' = [c EXCEPT !.kind = "graph"]
  /\ exp' = IF Mode = "cases"
            THEN [pc |-> "graph", g |-> Proj(RunGroups(c.n, Nbrs(c.n, c.adj))), e |-> ProjE(Expected(c.n, c.adj))]
            ELSE NoExp
  /\ st' = None

(* GroupsAlgo on the whole graph *)
GStart ==
  /\ Mode = "machine"
  /\ c.kind = "graph"
  /\ c' = [c EXCEPT !.kind = "gcase"]
  /\ st' = GInit(c.n)
  /\ exp' = NoExp
GStepAct ==
  /\ c.kind = "gcase"
  /\ st.pc # "done"
  /\ st' = GStep(st, Nbrs(c.n, c.adj))
  /\ UNCHANGED <<c, exp>>

CaseOf(n, adj, cover) ==
  /\ CoverOK(n, adj, cover) = TRUE   \* "= TRUE": evaluated as a value, not enumerated witness by witness
  /\ c' = [kind |-> "case", n |-> n, adj |-> adj, cover |-> cover,
           lg |-> IF Mode = "machine" THEN LocalGroupsOf(adj, cover) ELSE <<>>]
  /\ st' = IF Mode = "machine" THEN MInit(n, cover) ELSE None
  /\ exp' = IF Mode = "cases"
            THEN LET raw == RunMergeRaw(n, adj, cover) IN
                 [pc |-> "case", raw |-> Proj(raw), fin |-> Proj(RunMergeFrom(raw, n, adj, cover))]
            ELSE NoExp
CoverCase(cover) == CaseOf(c.n, c.adj, cover)

CoverStep ==
  /\ c.kind = "graph"
  /\ \E k \in 1 .. KFor(c.n) : \E cv \in [1 .. k -> Chunks(c.n)] :
        CoverCase([t \in 1 .. k |-> SortedSeq(cv[t])])

(* many small chunks (at most two points each): long equivalence chains in mapGroups *)
DeepStep ==
  /\ c.kind = "graph"
  /\ c.n = DeepN
  /\ Cardinality(c.adj) >= DeepMinLinks
  /\ \E k \in (KFor(c.n) + 1) .. DeepK : \E cv \in [1 .. k -> {ch \in Chunks(c.n) : Cardinality(ch) <= 2}] :
        CoverCase([t \in 1 .. k |-> SortedSeq(cv[t])])

(* ---- merge orders --------------------------------------------------------------------------------- *)
(* What MergeAlgo does depends only on the ORDER of the chunk events: which earlier provisional labels the  *)
(* members of the k-th (chunk, local group) already carry and whether it has a member without a label.     *)
(* This family enumerates those histories directly: event k = [S |-> set of earlier labels that own a      *)
(* point, new |-> a fresh point], every such sequence up to OrdK events.  A history is made concrete as    *)
(* the (graph, cover) that produces it: one point per "new" event (numbered in order of creation, or in    *)
(* the reverse order), chunk k = the points owning the labels in S plus the fresh point, linked in a row   *)
(* so that the chunk is one local group.  The case then runs like every other (graph, cover).              *)
OrdEvents(ev) ==
  LET k == Len(ev)
      own == {l \in 0 .. (k - 1) : ev[l + 1].new}
      np == Cardinality(own)
  IN {[S |-> S, new |-> nw] : S \in {T \in SUBSET own : Cardinality(T) <= OrdS}, nw \in BOOLEAN}
       \ ({[S |-> {}, new |-> FALSE]}
          \cup (IF np >= OrdP THEN {[S |-> S, new |-> TRUE] : S \in SUBSET own} ELSE {})
          \cup (IF OrdFull THEN {} ELSE {[S |-> {l}, new |-> FALSE] : l \in own}
                                        \cup {[S |-> S, new |-> TRUE] : S \in {T \in SUBSET own : Cardinality(T) >= 2}}))
OrdN(ev) == Cardinality({l \in 1 .. Len(ev) : ev[l].new})
OrdPt(ev, l, flip) == LET p == Cardinality({m \in 1 .. l : ev[m].new}) IN IF flip THEN (OrdN(ev) - 1) - p ELSE p
OrdCover(ev, flip) ==
  [k \in 1 .. Len(ev) |-> SortedSeq({OrdPt(ev, l, flip) : l \in ev[k].S}
                                      \cup (IF ev[k].new THEN {OrdPt(ev, k - 1, flip)} ELSE {}))]
OrdAdj(cover) == UNION {{<<cover[k][t], cover[k][t + 1]>> : t \in 1 .. (Len(cover[k]) - 1)} : k \in 1 .. Len(cover)}

OrdStart ==
  /\ c.kind = "root" /\ OrdK > 0
  /\ c' = [kind |-> "ord", ev |-> <<[S |-> {}, new |-> TRUE]>>]
  /\ st' = None /\ exp' = NoExp
OrdExtend ==
  /\ c.kind = "ord" /\ Len(c.ev) < OrdK
  /\ \E e \in OrdEvents(c.ev) : c' = [c EXCEPT !.ev = Append(@, e)]
  /\ st' = None /\ exp' = NoExp
OrdCase ==
  /\ c.kind = "ord" /\ OrdN(c.ev) >= 2
  /\ \E flip \in BOOLEAN :
        LET cover == OrdCover(c.ev, flip) IN CaseOf(OrdN(c.ev), OrdAdj(cover), cover)

MStepAct ==
  /\ Mode = "machine"
  /\ c.kind = "case"
  /\ ~MTerminal(st)
  /\ st' = MStep(st, c.n, c.cover, c.lg)
  /\ UNCHANGED <<c, exp>>

(* terminal states stutter, so that CHECK_DEADLOCK proves every other state can step *)
Finished ==
  /\ \/ c.kind = "gcase" /\ st.pc = "done"
     \/ c.kind = "case" /\ (Mode = "cases" \/ MTerminal(st))
     \/ c.kind = "ord"
  /\ UNCHANGED vars

Next == RootStep \/ GraphStep \/ GStart \/ GStepAct \/ CoverStep \/ DeepStep \/ OrdStart \/ OrdExtend \/ OrdCase \/ MStepAct \/ Finished

IsGraph == c.kind = "graph"
IsG == c.kind = "gcase"
IsM == c.kind = "case" /\ Mode = "machine"

(* ---- laws of the declarative definitions, on every graph ---- *)
C05_PartsIsPartition == IsGraph => PartsIsPartition(c.n, c.adj)
C05_ClassIsChainRelation == IsGraph => ClassIsChainRelation(c.n, c.adj)
C05_ComponentsAreLeast == IsGraph => ComponentsAreLeast(c.n, c.adj)
C05_ExpectedIsWellFormed == IsGraph => ExpectedIsWellFormed(c.n, c.adj)
C05_IngroupPassIsExpected == IsGraph => IngroupPassIsExpected(c.n, c.adj)
Perms(n) == {p \in [Pts(n) -> Pts(n)] : \A i, j \in Pts(n) : i # j => p[i] # p[j]}
C05_PermutationLaw == IsGraph => \A p \in Perms(c.n) : PermutationLaw(c.n, c.adj, p)
(* the verdict operator accepts the specified arrays and rejects a merged / split / renumbered variant *)
C05_AcceptsExpected ==
  IsGraph => LET e == Expected(c.n, c.adj) IN
     /\ Accepts(c.n, c.adj, e.ingroup, e.mult, e.first, e.next)
     /\ (e.ngroups > 1 => ~Accepts(c.n, c.adj, [i \in Pts(c.n) |-> (e.ngroups - 1) - e.ingroup[i]], e.mult, e.first, e.next))
     /\ (e.ngroups < c.n => ~Accepts(c.n, c.adj, [i \in Pts(c.n) |-> i], e.mult, e.first, e.next))
     /\ (e.ngroups > 1 => ~Accepts(c.n, c.adj, Const(c.n, 0), e.mult, e.first, e.next))

(* ---- GroupsAlgo ---- *)
C05_GroupsTypeOK ==
  IsG => /\ st.pc \in {"iter", "renumber", "rebuild", "done"}
         /\ st.i \in 0 .. c.n /\ st.nGroups \in 0 .. c.n
         /\ \A j \in Pts(c.n) : st.inGroup[j] \in Pts(c.n) /\ st.firstGroup[j] \in -1 .. (c.n - 1)
                               /\ st.nextGroup[j] \in -1 .. (c.n - 1)
(* during the neighbour search: labels never join points of different components; two processed  *)
(* points that are directly linked carry the same label; the lists enumerate the processed       *)
(* members of every label                                                                        *)
C05_GroupsPrefix ==
  (IsG /\ st.pc \in {"iter", "renumber"}) =>
    LET nb == Nbrs(c.n, c.adj)
        touched == {j \in Pts(c.n) : j < st.i \/ st.inGroup[j] < st.nGroups}
    IN /\ st.nGroups <= st.i
       /\ \A j \in Pts(c.n) : j < st.i => st.inGroup[j] < st.nGroups
       /\ \A j, k \in touched : st.inGroup[j] = st.inGroup[k] => k \in ClassOf(nb, j)
       /\ \A j, k \in 0 .. (st.i - 1) : Linked(c.adj, j, k) => st.inGroup[j] = st.inGroup[k]
       /\ \A g \in 0 .. (st.nGroups - 1) :
            LET w == Walk(st.nextGroup, st.firstGroup[g], c.n, {}, 0) IN
            w.ended /\ w.seen = {j \in 0 .. (st.i - 1) : st.inGroup[j] = g} /\ w.cnt = Cardinality(w.seen)
(* at the end: the local components, numbered by first member, with their lists *)
C05_GroupsFinal ==
  (IsG /\ st.pc = "done") =>
    LET e == Expected(c.n, c.adj) IN
    /\ st.inGroup = e.ingroup /\ st.nGroups = e.ngroups
    /\ st.nextGroup = e.next
    /\ \A g \in 0 .. (e.ngroups - 1) : st.firstGroup[g] = e.first[g] /\ st.multGroup[g] = e.mult[g]
    /\ ListsDescribe(c.n, st.inGroup, st.multGroup, st.firstGroup, st.nextGroup, st.nGroups)

(* ---- MergeAlgo ---- *)
C05_MergeNoError == IsM => st.pc # "error"
C05_MergeTypeOK ==
  IsM => /\ st.pc \in {"merge", "final", "lists", "renum", "relist", "done"}
         /\ st.nMapGroups \in 0 .. MapSize(c.n) /\ st.nGroups \in 0 .. c.n
         /\ DOMAIN st.mapGroups = Pts(MapSize(c.n))
(* "j <= i always, by design" *)
C05_MapLeSelf ==
  (IsM /\ st.pc \in {"merge", "final"}) =>
     \A e \in Pts(MapSize(c.n)) : IF e < st.nMapGroups THEN st.mapGroups[e] \in 0 .. e ELSE st.mapGroups[e] = -1
(* provisional groups: at most one per (chunk, member); 9 n when no point lies in more than 9 chunks *)
C05_ProvisionalBound ==
  IsM => /\ st.nMapGroups <= SumLen(c.cover, 1)
         /\ (MaxMembership(c.n, c.cover) <= 9 => st.nMapGroups <= MapSize(c.n))
(* during the merge the roots of the map are exactly the classes generated by the local groups merged so far *)
C05_MergePartial ==
  (IsM /\ st.pc \in {"merge", "final"}) =>
     LET sets == DoneLocalGroups(st, c.cover, c.lg)
         nb == JoinedNbrs(c.n, sets)
         seen == UNION sets
     IN /\ \A p \in Pts(c.n) : (st.inGroup[p] # -1) <=> (p \in seen)
        /\ \A p \in seen : st.inGroup[p] \in 0 .. (st.nMapGroups - 1)
        /\ \A p, q \in seen : (RootOf(st.mapGroups, st.inGroup[p]) = RootOf(st.mapGroups, st.inGroup[q]))
                                 <=> (q \in ClassOf(nb, p))
(* what friendsoffriends returns: the components (numbering by first provisional group), consistent lists *)
C05_RawDescribesComponents ==
  (IsM /\ st.pc \in {"renum"}) =>
     /\ SamePartition(c.n, c.adj, st.inGroup)
     /\ st.nGroups = Cardinality(Components(c.n, c.adj))
     /\ WellFormed(c.n, st.inGroup, st.multGroup, st.firstGroup, st.nextGroup)
(* after the caller's renumbering: exactly the arrays of the statement, whatever the cover *)
C05_MergeFinal ==
  (IsM /\ st.pc = "done") =>
     LET e == Expected(c.n, c.adj) IN
     /\ st.inGroup = e.ingroup /\ st.multGroup = e.mult /\ st.firstGroup = e.first /\ st.nextGroup = e.next
     /\ Accepts(c.n, c.adj, st.inGroup, st.multGroup, st.firstGroup, st.nextGroup)

(* ---- cases mode: the values handed to the replay are the specified ones ---- *)
C05_CaseExpIsSpec ==
  (c.kind = "case" /\ Mode = "cases") =>
     /\ exp.fin.pc = "done" /\ exp.raw.pc = "renum"
     /\ Accepts(c.n, c.adj, exp.fin.ig, exp.fin.mult, exp.fin.first, exp.fin.next)
     /\ exp.fin.ig = Expected(c.n, c.adj).ingroup
C05_GraphExpIsSpec ==
  (c.kind = "graph" /\ Mode = "cases") =>
     /\ exp.g.pc = "done" /\ exp.g.ig = exp.e.ig /\ exp.g.ng = exp.e.ng
=============================================================================
