---------------------------- MODULE MC_YannyFile ----------------------------
(* Exhaustive exploration of write/append histories (C03) under small constants. *)
EXTENDS YannyFile, TLC
CONSTANTS MaxOps, Rich, Deviation,    \* Rich: larger append menus; Deviation: "none" | "objectonly" | "clobber"
          TableSetSel                 \* the table sets explored (a subset of TableSetNames)
VARIABLE nops, nextid, hist, start,  \* bound on history length; fresh row / key ids; the calls made so far; the initial situation
         tset,                       \* the table set the history starts from (name + every table's columns, for the harness to build)
         cells,                      \* derived: the cells the object's rows must hold under that table set
         fresh                       \* derived: what a fresh read of the object's file must return

Keys == {"k1", "enum", "struct", "k0"}
TablesDef == <<"TA", "TB">>
mvars == <<fs, obj, model, last, nops, nextid, hist, start, tset, cells, fresh>>

(* appended material: 0..2 fresh rows spread over the tables, 0..1 fresh pair *)
RowChoices == [TableSet -> IF Rich THEN {<<>>, <<nextid>>, <<nextid, nextid + 1>>} ELSE {<<>>, <<nextid>>}]
PairChoices == {<<>>} \cup {<<<<k, nextid>>>> : k \in {kk \in (IF Rich THEN Keys ELSE {"k1"}) : \A i \in 1..Len(obj.pairs) : obj.pairs[i][1] # kk}}

Base == [rows |-> [t \in TableSet |-> IF t = Tables[1] THEN <<1, 2>> ELSE <<>>], pairs |-> <<<<"K0", 0>>>>]   \* an upper-case keyword: "k0" is a different, appendable keyword
Empty == [rows |-> NoRows, pairs |-> <<>>]
(* start: an object read from an existing file holding the base content, or a new unbound empty object *)
Init ==
  /\ \/ /\ fs = [f \in Files |-> AbsentFile]
        /\ obj = [fname |-> NoFile, rows |-> Empty.rows, pairs |-> Empty.pairs]
        /\ model = Empty /\ start = NoFile
     \/ /\ \E f \in Files : /\ fs = [g \in Files |-> IF g = f THEN [exists |-> TRUE, lines |-> FullText(Base)] ELSE AbsentFile]
                            /\ obj = [fname |-> f, rows |-> Base.rows, pairs |-> Base.pairs]
                            /\ start = f
        /\ model = Base
  /\ last = [op |-> "init", out |-> "init"]
  /\ nops = 0 /\ nextid = 10 /\ hist = <<>>
  \* an unbound empty object has no tables at all: one table set stands for all of them there
  /\ \E s \in TableSetSel : (start = NoFile => s = "plain") /\ tset = TableSetRec(s)
  /\ cells = TableCells(tset.name, obj.rows)
  /\ fresh = FreshRead(tset.name, fs, obj)

Call(op, f, p, r) == [op |-> op, f |-> f, pairs |-> p, rows |-> r]
Do(A, c) == /\ nops < MaxOps /\ A /\ nops' = nops + 1 /\ nextid' = nextid + 2 /\ hist' = Append(hist, c) /\ UNCHANGED <<start, tset>>
            /\ cells' = TableCells(tset.name, obj'.rows)
            /\ fresh' = FreshRead(tset.name, fs', obj')
Next ==
  \/ \E f \in Files : \/ Do(Bound /\ WriteNew(f), Call("write", f, <<>>, NoRows))
                      \/ Do(Bound /\ WriteOverExisting(f), Call("write", f, <<>>, NoRows))
                      \/ Do(ExternalDelete(f), Call("delete", f, <<>>, NoRows))
                      \/ (Deviation = "clobber" /\ Do(Dev_WriteClobbers(f), Call("write", f, <<>>, NoRows)))
  \/ Do(WriteNoName, Call("write", NoFile, <<>>, NoRows))
  \/ Do(ReRead, Call("reread", obj.fname, <<>>, NoRows))
  \/ \E p \in PairChoices : \E r \in RowChoices :
        \/ Do(AppendOK(p, r), Call("append", obj.fname, p, r)) \/ Do(AppendEmpty(p, r), Call("append", obj.fname, p, r))
        \/ Do(AppendToMissing(p, r), Call("append", obj.fname, p, r)) \/ Do(AppendUnbound(p, r), Call("append", NoFile, p, r))
        \/ (Deviation = "objectonly" /\ Do(Dev_AppendObjectOnly(p, r), Call("append", obj.fname, p, r)))
Spec == Init /\ [][Next]_mvars

PrefixPreserved == [][\A f \in Files : (fs[f].exists /\ fs'[f].exists) => IsPrefix(fs[f].lines, fs'[f].lines)]_mvars
NoClobber == [][\A f \in Files : (fs[f].exists /\ fs'[f].exists /\ fs[f] # fs'[f]) => last'.op = "append"]_mvars
NoCreateOnAppend == [][\A f \in Files : (~fs[f].exists /\ fs'[f].exists) => (last'.op = "write" /\ last'.out = "ok")]_mvars
RefusalsChangeNothing == [][last'.out \in {"raise", "warn"} => UNCHANGED <<fs, obj, model>>]_mvars

(* ---- the table set dimension ---- *)
ASSUME TableSetLaws == /\ TableSetSel \subseteq TableSetNames /\ TableSetsCoverSharing        \* checked once, at start-up
                       /\ \A s \in TableSetNames : TableSetWellFormed(s) /\ RowIdRecoverable(s)
C03_TableSets == tset.name \in TableSetSel /\ tset = TableSetRec(tset.name)
(* the object's cells are those of the original rows followed by every appended row, in order, whatever the table set *)
C03_CellsOfModel == cells = TableCells(tset.name, model.rows)
(* a fresh read of the object's file returns the object: rows, pairs and cells *)
C03_FreshEqualsObject == fresh.readable => (fresh.rows = obj.rows /\ fresh.pairs = obj.pairs /\ fresh.cells = cells)
(* no action reads the table set: along every step the line-level state moves as it would under any other table set *)
TableSetIndependent == [][UNCHANGED tset /\ cells' = TableCells(tset.name, obj'.rows)]_mvars
=============================================================================
