CONSTANT Families = {"cap", "poly", "window", "usecaps"}
CONSTANT MaxPolyCaps = 3
CONSTANT MaxWindow = 3
CONSTANT MaxUseCaps = 3
CONSTANT PoolSize = "full"
CONSTANT LawStride = 3
CONSTANT WindowNs = {0, 1, 2}
INIT Init
NEXT Next
INVARIANT C12_EmptyContainsAll
INVARIANT C12_EmptyExpAll
INVARIANT C12_FirstNIgnoresRest
INVARIANT C12_BitsBeyondIgnored
INVARIANT C12_CentreInsidePositiveCap
INVARIANT C12_CentreOutsideNegativeCap
INVARIANT C12_DotAgreesWithRat
INVARIANT C12_ComplementCap
INVARIANT C12_DecidedIsExact
INVARIANT C12_DevOffIsSpec
INVARIANT C12_FirstMatchIsFirst
INVARIANT C12_FormsAgree
INVARIANT C12_UseCapsExactlyListed
INVARIANT C12_SeqIsDeclarative
CHECK_DEADLOCK FALSE
