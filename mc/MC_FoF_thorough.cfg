CONSTANT K2 = 5
CONSTANT K3 = 4
CONSTANT K4 = 3
CONSTANT K5 = 2
CONSTANT DeepN = 3
CONSTANT DeepK = 5
CONSTANT DeepMinLinks = 0
CONSTANT OrdK = 6
CONSTANT OrdS = 2
CONSTANT OrdP = 4
CONSTANT OrdFull = TRUE
CONSTANT Mode = "machine"
INIT Init
NEXT Next
INVARIANT C05_PartsIsPartition
INVARIANT C05_ClassIsChainRelation
INVARIANT C05_ComponentsAreLeast
INVARIANT C05_ExpectedIsWellFormed
INVARIANT C05_PermutationLaw
INVARIANT C05_AcceptsExpected
INVARIANT C05_GroupsTypeOK
INVARIANT C05_GroupsPrefix
INVARIANT C05_GroupsFinal
INVARIANT C05_MergeNoError
INVARIANT C05_MergeTypeOK
INVARIANT C05_MapLeSelf
INVARIANT C05_ProvisionalBound
INVARIANT C05_MergePartial
INVARIANT C05_RawDescribesComponents
INVARIANT C05_MergeFinal
INVARIANT C05_IngroupPassIsExpected
CHECK_DEADLOCK TRUE
