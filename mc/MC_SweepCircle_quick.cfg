CONSTANT Mode = "both"
CONSTANT NFMax = 3
CONSTANT NG = 2
CONSTANT PatSet = {0, 1, 2, 3}
CONSTANT CallMod = 30
CONSTANT LawMod = 5
CONSTANT NT = 3
CONSTANT NQ = 3
CONSTANT MaxLen = 4
INIT Init
NEXT Next
INVARIANT X07_WellFormed
INVARIANT X07_AllSpecified
INVARIANT X07_MarginSound
INVARIANT X07_AlgoIsResult
INVARIANT X07_PrimaryPart
INVARIANT X07_Monotone
INVARIANT X07_IndexOrderIrrelevant
INVARIANT X07_LastRowReturnable
INVARIANT X07_DevNeverAdds
INVARIANT X07_HistoryFree
INVARIANT X07_OpenOnlyWhenStale
CHECK_DEADLOCK FALSE
