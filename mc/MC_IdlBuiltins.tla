-------------------------- MODULE MC_IdlBuiltins --------------------------
(* Bounded-exhaustive enumeration of calls of smooth / median / uniq / rebin (C14).     *)
(* Every "call" state is one call together with the outcome the specification demands;  *)
(* the dump is replayed into the real functions.  Root and seed states carry no call;   *)
(* they exist so that all TLC workers share the enumeration.                            *)
EXTENDS IdlBuiltins
CONSTANTS Families,      \* subset of the family names used below
          MaxLen,        \* 1-D arrays of length 1..MaxLen over Vals (smooth, median, runmed1, uniq)
          Med2Shapes,    \* 2-D shapes for the plain median (the shape must not matter)
          MaxIdxLen,     \* uniq through an index: arrays of length 1..MaxIdxLen and all sorting permutations
          Img2Shapes,    \* 2-D shapes enumerated exhaustively over ImgVals for the running 2-D median
          PatShapes,     \* larger 2-D shapes, contents from the pattern family
          RebinMaxRank,  \* rebin: all shapes over RebinDims of rank 1..RebinMaxRank
          RebinDims3,    \* dims used at rank 3 (source and target)
          DeltaMaxRank,  \* "rebindelta": arrays with a single 1 (no SAMPLE), ranks 1..DeltaMaxRank
          FloorD0,       \* "rebinfloor": 1-D expansions d0 -> d0 * f, d0 in 1..FloorD0, f in FloorFactors
          FloorFactors
VARIABLES c, exp

(* shape sets for the configurations (tuples cannot be written in a .cfg file) *)
Q_Med2Shapes == {<<2, 2>>}
T_Med2Shapes == {<<2, 2>>, <<2, 3>>, <<3, 2>>}
Q_Img2Shapes == {<<3, 3>>}
T_Img2Shapes == {<<3, 3>>, <<3, 4>>}       \* the harness also runs every image transposed (law RunMed2Transposes)
Q_PatShapes == {<<3, 4>>, <<4, 3>>, <<5, 5>>}
T_FloorFactors == 1 .. 128
T_PatShapes == {<<4, 4>>, <<4, 5>>, <<5, 4>>, <<5, 5>>, <<3, 6>>, <<6, 3>>, <<7, 7>>}

Vals == {0, 1, 2, 5}
ImgVals == {0, 1, 3}
RebinDims == {1, 2, 3, 4, 6}
RebinBigDims == {8, 12}            \* extra targets at rank 1 and 2

Call(fn, x, shape, w, flag, d) == [fn |-> fn, tgt |-> "", x |-> x, shape |-> shape, w |-> w, flag |-> flag, d |-> d]
Seed(tgt, x, shape, w, flag, d) == [fn |-> "seed", tgt |-> tgt, x |-> x, shape |-> shape, w |-> w, flag |-> flag, d |-> d]
Root == [fn |-> "root", tgt |-> "", x |-> <<>>, shape |-> <<>>, w |-> 0, flag |-> FALSE, d |-> <<>>]
NoExp == [err |-> FALSE, shape |-> <<>>, val |-> <<>>, alt |-> <<>>]
IsCall == c.fn \in Fns
XR == OfInts(c.x)
Exp(cc) == Expected(cc.fn, OfInts(cc.x), cc.shape, cc.w, cc.flag, cc.d)

Odd(n) == {w \in 1 .. n : w % 2 = 1}
Pattern(a, b, g, n) == [k \in 1 .. n |-> (a * (k - 1) * (k - 1) + b * (k - 1) + g) % 4]
RebinPattern(p, n) == [k \in 1 .. n |-> IF p = 1 THEN (3 * (k - 1) * (k - 1) + (k - 1)) % 7 ELSE k - 1]
Shapes(dims, rank) == IF rank = 1 THEN {<<a>> : a \in dims}
                      ELSE IF rank = 2 THEN {<<a, b>> : a \in dims, b \in dims}
                      ELSE {<<a, b, g>> : a \in dims, b \in dims, g \in dims}
DeltaPositions(n, rank) == IF rank = 1 THEN 1 .. n ELSE {1, (n + 1) \div 2, n}
SrcDims(rank) == IF rank = 3 THEN RebinDims3 ELSE RebinDims
BadDims(rank) == IF rank = 3 THEN {1, 2, 3, 5} ELSE RebinDims \cup {5, 9}
TgtDims(rank) == IF rank = 3 THEN RebinDims3 ELSE RebinDims \cup RebinBigDims

(* ---- root -> seeds ---- *)
RootStep ==
  /\ c = Root
  /\ exp' = NoExp
  /\ \/ /\ "smooth" \in Families
        /\ \E n \in 1 .. MaxLen : \E w \in 0 .. (MaxLen + 1) : \E e \in BOOLEAN : \E v \in Vals :
             SmoothDefined(n, w) /\ (w = 0 => n <= 3) /\ c' = Seed("smooth", <<v>>, <<n>>, w, e, <<>>)
     \/ /\ "median" \in Families
        /\ \/ \E n \in 1 .. MaxLen : \E e \in BOOLEAN : \E v \in Vals : c' = Seed("median", <<v>>, <<n>>, 0, e, <<>>)
           \/ \E s \in Med2Shapes : \E e \in BOOLEAN : \E v \in Vals :
                c' = Seed("median", <<v>>, s, 0, e, <<>>)
     \/ /\ "runmed1" \in Families
        /\ \E n \in 1 .. MaxLen : \E w \in Odd(n) : \E v \in Vals : c' = Seed("runmed1", <<v>>, <<n>>, w, FALSE, <<>>)
     \/ /\ "runmed2" \in Families
        /\ \E s \in Img2Shapes : \E w \in Odd(Min(s[1], s[2])) \ {1} : \E v1, v2 \in ImgVals :
             c' = Seed("runmed2", <<v1, v2>>, s, w, FALSE, <<>>)
     \/ /\ "runmed2pat" \in Families
        /\ \E s \in PatShapes : \E w \in Odd(Min(s[1], s[2])) : \E a \in 0 .. 3 :
             c' = Seed("runmed2pat", <<a>>, s, w, FALSE, <<>>)
     \/ /\ "uniq" \in Families
        /\ \E n \in 1 .. MaxLen : \E v \in Vals : c' = Seed("uniq", <<v>>, <<n>>, 0, FALSE, <<>>)
     \/ /\ "uniqidx" \in Families
        /\ \E n \in 1 .. MaxIdxLen : \E v \in Vals : c' = Seed("uniqidx", <<v>>, <<n>>, 0, FALSE, <<>>)
     \/ /\ "rebin" \in Families
        /\ \E rank \in 1 .. RebinMaxRank : \E s \in Shapes(SrcDims(rank), rank) : \E smp \in BOOLEAN :
             c' = Seed("rebin", <<>>, s, 0, smp, <<>>)
     \/ /\ "rebinbad" \in Families
        /\ \E rank \in 1 .. RebinMaxRank : \E s \in Shapes(SrcDims(rank), rank) : c' = Seed("rebinbad", <<>>, s, 0, FALSE, <<>>)
     \/ /\ "rebindelta" \in Families
        /\ \E rank \in 1 .. DeltaMaxRank : \E s \in Shapes(SrcDims(rank), rank) : c' = Seed("rebindelta", <<>>, s, 0, FALSE, <<>>)
     \/ /\ "rebinfloor" \in Families
        /\ \E d0 \in 1 .. FloorD0 : \E smp \in BOOLEAN : c' = Seed("rebinfloor", <<>>, <<d0>>, 0, smp, <<>>)

(* ---- seed -> calls ---- *)
Fill(vals) == {c.x \o r : r \in [1 .. (Prod(c.shape) - Len(c.x)) -> vals]}
MkCall(fn, x, d) == Call(fn, x, c.shape, c.w, c.flag, d)

CaseStep ==
  /\ c.fn = "seed"
  /\ \/ /\ c.tgt \in {"smooth", "median", "runmed1"}
        /\ \E x \in Fill(Vals) : c' = MkCall(c.tgt, x, <<>>)
     \/ /\ c.tgt = "runmed2"
        /\ \E x \in Fill(ImgVals) : c' = MkCall("runmed2", x, <<>>)
     \/ /\ c.tgt = "runmed2pat"
        /\ \E b \in 0 .. 3 : \E g \in 0 .. 3 : c' = MkCall("runmed2", Pattern(c.x[1], b, g, Prod(c.shape)), <<>>)
     \/ /\ c.tgt = "uniq"
        /\ \E x \in Fill(Vals) : IsSorted(OfInts(x)) /\ c' = MkCall("uniq", x, <<>>)
     \/ /\ c.tgt = "uniqidx"
        /\ \E x \in Fill(Vals) : \E p \in Permutations(1 .. Len(x)) :
             LET idx == [k \in 1 .. Len(x) |-> p[k] - 1]
             IN IsSorted(Through(OfInts(x), idx)) /\ c' = MkCall("uniqidx", x, idx)
     \/ /\ c.tgt = "rebin"
        /\ \E d \in Shapes(TgtDims(Len(c.shape)), Len(c.shape)) : \E p \in 1 .. 2 :
             RebinAccepts(c.shape, d) /\ c' = MkCall("rebin", RebinPattern(p, Prod(c.shape)), d)
     \/ /\ c.tgt = "rebinbad"
        /\ \E rank \in 1 .. 3 : \E d \in Shapes(BadDims(rank), rank) :
             ~RebinAccepts(c.shape, d) /\ (rank # Len(c.shape) => \A a \in DOMAIN d : d[a] \in {1, 2, 6})
             /\ c' = MkCall("rebin", RebinPattern(2, Prod(c.shape)), d)
     \/ /\ c.tgt = "rebindelta"
        /\ \E d \in Shapes(TgtDims(Len(c.shape)), Len(c.shape)) : \E p \in DeltaPositions(Prod(c.shape), Len(c.shape)) :
             RebinAccepts(c.shape, d) /\ d # c.shape /\ c' = MkCall("rebin", [k \in 1 .. Prod(c.shape) |-> IF k = p THEN 1 ELSE 0], d)
     \/ /\ c.tgt = "rebinfloor"
        /\ \E f \in FloorFactors : c' = MkCall("rebin", RebinPattern(2, c.shape[1]), <<c.shape[1] * f>>)
  /\ exp' = Exp(c')

Init == c = Root /\ exp = NoExp
Next == RootStep \/ CaseStep

(* ---- spec-level laws, one invariant each ---- *)
Is(fn) == IsCall /\ c.fn = fn
Ok(fn) == Is(fn) /\ ~exp.err
Ints(t) == [k \in DOMAIN t |-> t[k][1]]       \* subscripts back from <<i, 1>>
C14_CallsAreDefined == IsCall => Defined(c.fn, XR, c.shape, c.w, c.flag, c.d)
C14_OutcomeWellFormed == IsCall => (exp.err \/ (Len(exp.val) = Prod(exp.shape) /\ IsRatSeq(exp.val) /\ Len(exp.alt) = Len(exp.val)))
C14_SmoothTwoPhrasings == Is("smooth") => SmoothTwoPhrasings(exp.val, XR, c.w, c.flag)
C14_SmoothFixesConstants == Is("smooth") => SmoothFixesConstants(exp.val, XR)
C14_SmoothEdgesUntouched == Is("smooth") => SmoothEdgesUntouched(exp.val, XR, c.w, c.flag)
C14_SmoothEdgeFlagOnlyAtEdges == Is("smooth") => SmoothEdgeFlagOnlyAtEdges(exp.val, XR, c.w, c.flag)
C14_SmoothEvenIsNextOdd == Is("smooth") => SmoothEvenIsNextOdd(exp.val, XR, c.w, c.flag)
C14_SmoothWithinHull == Is("smooth") => SmoothWithinHull(exp.val, XR)
C14_SmoothInteriorIsWindowMean == Is("smooth") => SmoothInteriorIsWindowMean(exp.val, XR, c.w)
Other(x) == [k \in DOMAIN x |-> OfInt((x[k][1] * x[k][1] + 3 * k) % 7)]     \* a second array for the linearity laws
C14_SmoothLinear == Is("smooth") => SmoothLinear(exp.val, XR, Other(XR), OfInt(-4096), R(5, 3), c.w, c.flag)
C14_SmoothSupport == Is("smooth") => SmoothSupport(exp.val, XR, c.w, c.flag)
C14_SmoothScales == Is("smooth") => SmoothScales(exp.val, XR, 13000, c.w, c.flag)
C14_FormIndependent == (IsCall /\ Len(c.x) <= 2) => FormIndependent(c.fn, XR, c.shape, c.w, c.flag, c.d)
C14_MedianScales == Is("median") => MedianScales(exp.val[1], XR, c.flag, 13000)
C14_RunMed1Scales == Is("runmed1") => RunMed1Scales(exp.val, XR, c.w, 13000)
C14_RunMed2Scales == Is("runmed2") => RunMed2Scales(exp.val, XR, c.shape, c.w, 50)
C14_MedianTwoPhrasings == Is("median") => MedianTwoPhrasings(exp.val[1], XR, c.flag)
C14_MedianIsAnElement == Is("median") => MedianIsAnElement(exp.val[1], XR, c.flag)
C14_MedianEvenFlag == Is("median") => MedianEvenFlagOnlyForEvenCounts(exp.val[1], XR, c.flag)
C14_MedianSplits == Is("median") => MedianSplits(exp.val[1], XR)
C14_RunMed1TwoPhrasings == Is("runmed1") => RunMed1TwoPhrasings(exp.val, XR, c.w)
C14_RunMed1EdgesUntouched == Is("runmed1") => RunMed1EdgesUntouched(exp.val, XR, c.w)
C14_RunMed1FixesMonotone == Is("runmed1") => RunMed1FixesMonotone(exp.val, XR)
C14_RunMed1ValuesFromWindow == Is("runmed1") => RunMed1ValuesFromWindow(exp.val, XR, c.w)
C14_RunMed2TwoPhrasings == Is("runmed2") => RunMed2TwoPhrasings(exp.val, XR, c.shape, c.w)
C14_RunMed2EdgesUntouched == Is("runmed2") => RunMed2EdgesUntouched(exp.val, XR, c.shape, c.w)
C14_RunMed2FixesConstants == Is("runmed2") => RunMed2FixesConstants(exp.val, XR)
C14_RunMed2RowIsRunMed1 == Is("runmed2") => RunMed2RowIsRunMed1(exp.val, XR, c.shape, c.w)
C14_RunMed2Transposes == Is("runmed2") => RunMed2Transposes(exp.val, XR, c.shape, c.w)
C14_UniqTwoPhrasings == Is("uniq") => UniqTwoPhrasings(Ints(exp.val), XR)
C14_UniqStrictlyIncreasing == Is("uniq") => UniqStrictlyIncreasing(Ints(exp.val))
C14_UniqEndsWithLast == Is("uniq") => UniqEndsWithLast(Ints(exp.val), XR)
C14_UniqOnePerValue == Is("uniq") => UniqOnePerValue(Ints(exp.val), XR)
C14_UniqIdxIdentityIsUniq == Is("uniq") => UniqIdxIdentityIsUniq(Ints(exp.val), XR)
C14_UniqIdxOnePerValue == Is("uniqidx") => UniqIdxOnePerValue(Ints(exp.val), XR) /\ UniqIdxOnePerValue(Ints(exp.alt), XR)
C14_RebinShape == Ok("rebin") => exp.shape = c.d /\ RebinShape(exp.val, c.d)
C14_RebinTwoPhrasings == Ok("rebin") => RebinTwoPhrasings(exp.val, XR, c.shape, c.d, c.flag)
C14_RebinKeepIsIdentity == Ok("rebin") => RebinKeepIsIdentity(exp.val, XR, c.shape, c.d)
C14_RebinFixesConstants == Ok("rebin") => RebinFixesConstants(c.shape, c.d, c.flag, R(7, 3))
C14_RebinSampleTakesElements == Ok("rebin") => RebinSampleTakesElements(exp.val, XR, c.flag)
C14_SamplingBackIsIdentity == Ok("rebin") => SamplingBackIsIdentity(exp.val, XR, c.shape, c.d)
C14_BlockMeanPreservesMean == Ok("rebin") => BlockMeanPreservesMean(exp.val, XR, c.shape, c.d, c.flag)
C14_RebinAxesCommute == Ok("rebin") => RebinAxesCommute(exp.val, XR, c.shape, c.d, c.flag)
C14_RebinLinear == (Ok("rebin") /\ Prod(c.d) <= 72) => RebinLinear(exp.val, XR, Other(XR), OfInt(-32), OfInt(3), c.shape, c.d, c.flag)
C14_RebinWeightsArePartition == Ok("rebin") => RebinWeightsArePartition(c.shape, c.d, c.flag)
C14_RebinScales == (Ok("rebin") /\ Prod(c.d) <= 72) => RebinScales(exp.val, XR, 300, c.shape, c.d, c.flag)
C14_RebinRejects == Is("rebin") => RebinRejects(exp.err, c.shape, c.d)
=============================================================================
