CONSTANT BystanderVals = {"b"}
CONSTANT UseBodyFaults = TRUE
CONSTANT Deviation = TRUE
INIT Init
NEXT Next
INVARIANT C20_TypeOK
INVARIANT C20_EnvRestored
CHECK_DEADLOCK TRUE
