CONSTANTS
  Families = {"strings", "curated", "elements", "types", "tables", "headers", "witness", "kinds"}
  MaxStr = 3
  MaxCols = 2
INIT Init
NEXT Next
INVARIANT C01_RoundTrip
INVARIANT C01_DomainSharp
CHECK_DEADLOCK FALSE
