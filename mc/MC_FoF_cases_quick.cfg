CONSTANT K2 = 3
CONSTANT K3 = 3
CONSTANT K4 = 2
CONSTANT K5 = 1
CONSTANT DeepN = 3
CONSTANT DeepK = 5
CONSTANT DeepMinLinks = 2
CONSTANT OrdK = 6
CONSTANT OrdS = 2
CONSTANT OrdP = 4
CONSTANT OrdFull = FALSE
CONSTANT Mode = "cases"
INIT Init
NEXT Next
INVARIANT C05_CaseExpIsSpec
INVARIANT C05_GraphExpIsSpec
INVARIANT C05_IngroupPassIsExpected
CHECK_DEADLOCK TRUE
