CONSTANTS
  Files = {"f1", "f2"}
  Tables <- TablesDef
  NoFile = "nofile"
  Rich = TRUE
  MaxOps = 3
  TableSetSel = {"plain", "sharedScalarArray", "sharedArrayScalar"}
  Deviation = "none"
SPECIFICATION Spec
INVARIANT TypeOK
INVARIANT C03_Coherent
INVARIANT C03_ModelCoherent
INVARIANT C03_TableSets
INVARIANT C03_CellsOfModel
INVARIANT C03_FreshEqualsObject
PROPERTY PrefixPreserved
PROPERTY NoClobber
PROPERTY NoCreateOnAppend
PROPERTY RefusalsChangeNothing
PROPERTY TableSetIndependent
CHECK_DEADLOCK FALSE
