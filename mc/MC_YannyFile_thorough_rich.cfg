CONSTANTS
  Files = {"f1", "f2"}
  Tables <- TablesDef
  NoFile = "nofile"
  Rich = TRUE
  MaxOps = 3
  Deviation = "none"
SPECIFICATION Spec
INVARIANT TypeOK
INVARIANT C03_Coherent
INVARIANT C03_ModelCoherent
PROPERTY PrefixPreserved
PROPERTY NoClobber
PROPERTY NoCreateOnAppend
PROPERTY RefusalsChangeNothing
CHECK_DEADLOCK FALSE
