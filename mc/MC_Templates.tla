--------------------------- MODULE MC_Templates ---------------------------
(* Bounded-exhaustive instances for X09 (spec/Templates.tla).  Every state is one case c together with the      *)
(* outcome exp the specification demands; the dump is replayed into the real template_metadata /                *)
(* template_input / template_input_main (harness/props/x09.py).                                                 *)
(* Families: "num"   every string up to MaxLen over NumAlphabet as the value of each numeric keyword            *)
(*           "wrong" every set of at most MaxWrong keywords absent / malformed x method spelling x environment  *)
(*           "good"  accepted files: object and method spellings x environment on entry x table shapes          *)
(*           "run"   template_input scenarios: object x method x dump x flux x verbose x missing spectra        *)
(*           "clip"  the S/N clipping on the full grid FVals x IVals for every snmax text                       *)
(*           "big"   numbers of spectra around the block size of the flux plots                                 *)
(*           "nkeep" numbers of templates 1 .. 12 x object x method                                             *)
(*           "main"  every command line of at most MaxArgs arguments over Vocab                                 *)
EXTENDS Templates, TLC
CONSTANTS Families, Quick
VARIABLES c, exp

MaxLen == IF Quick THEN 3 ELSE 4
MaxWrong == IF Quick THEN 2 ELSE 3
MaxArgs == IF Quick THEN 2 ELSE 3

(* ---- texts ---- *)
T_mean == <<"m", "e", "a", "n">>
T_run2d == <<"v", "5", "_", "7", "_", "0">>
T_run1d == <<"v", "5", "_", "7", "_", "1">>
T_other == <<"v", "0">>
T_svd == <<"s", "v", "d">>
T_lrg == <<"l", "r", "g">>
BaseText(k) ==
  CASE k = "aesthetics" -> T_mean [] k = "run2d" -> T_run2d [] k = "run1d" -> T_run1d
    [] k = "wavemin" -> <<"1", "8", "5", "0">> [] k = "wavemax" -> <<"1", "0", "0", "0", "0">>
    [] k = "snmax" -> <<"1", "0", "0">> [] k = "niter" -> <<"3">> [] k = "nkeep" -> <<"4">> [] k = "minuse" -> <<"2">>
    [] k = "nonnegative" -> <<"0">> [] k = "epsilon" -> <<"-", "1", ".", "0">>
BasePairs(obj, method) ==
  [k \in AllKeys |-> Given(IF k = "object" THEN obj ELSE IF k = "method" THEN method ELSE BaseText(k))]
Row(i) == [plate |-> 3586 + ((i + 1) \div 2), mjd |-> 55181 + (i % 3), fiberid |-> 100 + 7 * i,
           z |-> R(i, 8), cz |-> R(20001 * i, 2),
           cls |-> IF i % 2 = 1 THEN "F" ELSE "K", sub |-> IF i % 3 = 0 THEN "F5" ELSE IF i % 3 = 1 THEN "K3" ELSE "F9"]
Table(n, zcol, cls) == [there |-> TRUE, zcol |-> zcol, cls |-> cls, rows |-> Tup([i \in 1 .. n |-> Row(i)])]
NoTable == [there |-> FALSE, zcol |-> "zfit", cls |-> FALSE, rows |-> <<>>]
File(pairs, tbl) == [pairs |-> pairs, tbl |-> tbl]

EnvVals == {NotGiven, Given(<<>>), Given(T_run2d), Given(T_other)}
Env(a, b) == [RUN2D |-> a, RUN1D |-> b]
EnvA == Env(NotGiven, NotGiven)
EnvsFew == {EnvA, Env(Given(<<>>), Given(T_other)), Env(Given(T_other), NotGiven), Env(Given(T_run2d), Given(T_run1d))}
EnvsAll == {Env(a, b) : a \in EnvVals, b \in EnvVals}
Envs == IF Quick THEN {EnvA, Env(Given(<<>>), Given(T_other))} ELSE {EnvA, Env(Given(<<>>), Given(T_other)), Env(Given(T_run2d), Given(T_run1d))}

MethodsAll == {Pca, Hmf, <<"H", "M", "F">>, <<"H", "m", "f">>, <<"P", "c", "a">>, T_svd}
Methods == IF Quick THEN {Pca, <<"H", "M", "F">>} ELSE {Pca, Hmf, <<"H", "M", "F">>, T_svd}
ObjectsAll == {Gal, Qso, Star, <<"G", "a", "l">>, <<"S", "T", "A", "R">>, <<"Q", "s", "o">>, T_lrg}

MetaCase(f, exists, env0, note) == [fam |-> "meta", file |-> f, exists |-> exists, env0 |-> env0, note |-> note]

(* ---- family "num" ---- *)
NumAlphabet == {"0", "1", "7", ".", "-", "+", "e"}
NumKeys == IF Quick THEN {"snmax", "niter", "nonnegative", "epsilon"} ELSE FloatKeys \cup IntKeys \cup HmfKeys
StrsUpTo(n) == UNION {[1 .. k -> NumAlphabet] : k \in 0 .. n}
Root == [fam |-> "root"]
NoExp == [out |-> "none"]
NumSeed(k, h) == [fam |-> "numseed", k |-> k, h |-> h]
NumFile(k, s) == File([BasePairs(Gal, IF k \in HmfKeys THEN Hmf ELSE Pca) EXCEPT ![k] = Given(s)], Table(2, "zfit", FALSE))
RootStep ==
  /\ c = Root /\ "num" \in Families
  /\ \E k \in NumKeys : \E h \in NumAlphabet \cup {""} : c' = NumSeed(k, h)
  /\ exp' = NoExp
NumStep ==
  /\ c.fam = "numseed"
  /\ \E t \in StrsUpTo(IF c.h = "" THEN 0 ELSE MaxLen - 1) :
        LET s == (IF c.h = "" THEN <<>> ELSE <<c.h>>) \o t
        IN c' = MetaCase(NumFile(c.k, s), TRUE, EnvA, [key |-> c.k, txt |-> s])
  /\ exp' = MetaExpect(c'.file, c'.exists, c'.env0)

(* ---- family "wrong" ---- *)
BadText(k) == CASE KindOf(k) = "int" -> <<"2", ".", "5">> [] KindOf(k) = "float" -> <<"a", "b", "c">> [] OTHER -> <<"n", "o">>
WrongFile(W, mk, m) ==
  File([k \in AllKeys |-> IF k \in W THEN (IF mk[k] = "missing" THEN NotGiven ELSE Given(BadText(k)))
                          ELSE BasePairs(Gal, m)[k]], Table(1, "zfit", FALSE))
Seed(which, p) == [fam |-> "seed", which |-> which, p |-> p]
IsSeed(which) == c.fam = "seed" /\ c.which = which
SeedWrong == \E m \in Methods : \E e \in Envs : c' = Seed("wrong", [m |-> m, e |-> e])
StepWrong ==
  /\ IsSeed("wrong")
  /\ \/ \E W \in SUBSET AllKeys : Cardinality(W) <= MaxWrong /\
          \E mk \in [W -> {"missing", "bad"}] : (\A k \in W \cap TextKeys : mk[k] = "missing") /\
            c' = MetaCase(WrongFile(W, mk, c.p.m), TRUE, c.p.e, [key |-> "", txt |-> <<>>])
     \/ c' = MetaCase(File(BasePairs(Gal, c.p.m), Table(1, "zfit", FALSE)), FALSE, c.p.e, [key |-> "", txt |-> <<>>])

(* ---- family "good" ---- *)
TableVariants == {Table(1, "zfit", FALSE), Table(2, "zfit", FALSE), Table(3, "cz", TRUE), Table(2, "both", FALSE),
                  Table(3, "both", TRUE), NoTable}
Run2dTexts == IF Quick THEN {<<"x">>} ELSE {T_run2d, <<"x">>}
SeedGood == \E obj \in (IF Quick THEN {Gal, Star, <<"Q", "s", "o">>} ELSE ObjectsAll) : \E m \in MethodsAll :
               c' = Seed("good", [obj |-> obj, m |-> m])
StepGood ==
  /\ IsSeed("good")
  /\ \E e \in (IF Quick THEN EnvsFew ELSE EnvsAll) : \E tv \in TableVariants : \E r2 \in Run2dTexts :
       c' = MetaCase(File([BasePairs(c.p.obj, c.p.m) EXCEPT !["run2d"] = Given(r2)], tv), TRUE, e, [key |-> "", txt |-> <<>>])

(* ---- family "run" ---- *)
FVals == << <<-3, 1>>, <<-2, 1>>, <<-3, 2>>, <<-1, 1>>, <<-1, 2>>, <<-1, 4>>, <<0, 1>>, <<1, 4>>, <<1, 2>>, <<1, 1>>,
            <<3, 2>>, <<2, 1>>, <<3, 1>> >>
IVals == << <<0, 1>>, <<1, 4>>, <<1, 1>>, <<4, 1>>, <<9, 1>>, <<100, 1>> >>
(* the full product, laid out in 3 spectra of 26 pixels *)
PairF(q) == FVals[((q - 1) % 13) + 1]
PairV(q) == IVals[((q - 1) \div 13) + 1]
ProductF == Tup([i \in 1 .. 3 |-> Tup([j \in 1 .. 26 |-> PairF((i - 1) * 26 + j)])])
ProductV == Tup([i \in 1 .. 3 |-> Tup([j \in 1 .. 26 |-> PairV((i - 1) * 26 + j)])])
(* small grids for the other scenarios: n spectra of 5 pixels *)
SmallF(n, sh) == Tup([i \in 1 .. n |-> Tup([j \in 1 .. 5 |-> FVals[((5 * i + j + sh) % 13) + 1]])])
SmallV(n, sh) == Tup([i \in 1 .. n |-> Tup([j \in 1 .. 5 |-> IVals[((3 * i + 2 * j + sh) % 6) + 1]])])
DlVals == << <<1, 8192>>, <<1, 4096>>, <<3, 16384>> >>
Dl(n, sh) == Tup([i \in 1 .. n |-> DlVals[((i + sh) % 3) + 1]])
JdVals == << <<4920001, 2>>, <<9840001, 4>>, <<2460001, 1>>, <<245999999, 100>> >>      \* ...000.5, ...000.25, ...001.0, 2459999.99
Scenario(f, env0, dump, ndump, flux, verbose, fib, F, V, dl, jd, um) ==
  [fam |-> "run", file |-> f, env0 |-> env0, dump |-> dump, ndump |-> ndump, flux |-> flux, verbose |-> verbose,
   fib |-> fib, F |-> F, V |-> V, dl |-> dl, jd |-> jd, um |-> um]
TableFor(obj, n, alt) == IF Lower(obj) = Star THEN Table(n, IF alt THEN "both" ELSE "cz", TRUE)
                         ELSE Table(n, IF alt THEN "both" ELSE "zfit", FALSE)
FibOf(tbl, M) == Tup([i \in DOMAIN tbl.rows |-> IF i \in M THEN 0 ELSE tbl.rows[i].fiberid])
BoolNum(b) == IF b THEN 1 ELSE 0
SeedRun == \/ \E obj \in ObjectsAll : \E m \in (IF Quick THEN {Pca, <<"H", "M", "F">>, T_svd} ELSE MethodsAll) :
                 c' = Seed("run", [obj |-> obj, m |-> m])
           \/ c' = Seed("run", [obj |-> <<>>, m |-> <<>>])
StepRun ==
  /\ IsSeed("run")
  /\ IF c.p.obj # <<>> THEN
       \E dump \in BOOLEAN : \E flux \in BOOLEAN : \E verbose \in BOOLEAN :
         \E M \in (IF dump THEN {{}} ELSE SUBSET (1 .. 2)) :
           LET obj == c.p.obj
               m == c.p.m
               sh == Len(obj) + Len(m) + BoolNum(dump) + 2 * BoolNum(flux) + 3 * BoolNum(verbose)
               tbl == TableFor(obj, 2, sh % 2 = 1)
           IN c' = Scenario(File(BasePairs(obj, m), tbl), IF sh % 2 = 0 THEN EnvA ELSE Env(Given(T_other), Given(<<>>)),
                           dump, IF sh % 5 = 0 THEN 3 ELSE 2, flux, verbose, FibOf(tbl, M),
                           SmallF(2, sh), SmallV(2, sh), Dl(2, sh), JdVals[(sh % 4) + 1], sh % 3 # 0)
     ELSE \* refused files reach nothing else
     \E k \in {"niter", "epsilon", "object"} : \E dump \in BOOLEAN :
       LET tbl == Table(2, "zfit", FALSE)
       IN c' = Scenario(File([BasePairs(Gal, Hmf) EXCEPT ![k] = NotGiven], tbl), EnvA, dump, 2, FALSE, FALSE,
                       FibOf(tbl, {}), SmallF(2, 0), SmallV(2, 0), Dl(2, 0), JdVals[1], TRUE)

(* ---- family "clip" ---- *)
SnTexts == { <<"0">>, <<"0", ".", "5">>, <<"1">>, <<"2">>, <<"3">>, <<"1", "e", "1">>, <<"1", "0", "0">>, <<"2", ".", "5">>,
             <<"1", ".", "5">>, <<".", "2", "5">> }
SeedClip == \E s \in SnTexts : c' = Seed("clip", [s |-> s])
StepClip ==
  /\ IsSeed("clip")
  /\ \E obj \in {Gal, Star} :
    LET tbl == TableFor(obj, 3, FALSE)
        s == c.p.s
    IN c' = Scenario(File([BasePairs(obj, Pca) EXCEPT !["snmax"] = Given(s)], tbl), EnvA, FALSE, 3, FALSE, FALSE,
                    FibOf(tbl, {}), ProductF, ProductV, Dl(3, Len(s)), JdVals[1], TRUE)

(* ---- family "nkeep": any number of templates ---- *)
SeedNkeep == \E k \in {<<"1">>, <<"2">>, <<"3">>, <<"4">>, <<"5">>, <<"1", "2">>} : c' = Seed("nkeep", [k |-> k])
StepNkeep ==
  /\ IsSeed("nkeep")
  /\ \E obj \in {Gal, Qso, Star} : \E m \in {Pca, Hmf} : \E dump \in BOOLEAN :
       LET tbl == TableFor(obj, 3, FALSE)
           sh == Len(obj) + Len(c.p.k) + BoolNum(dump)
       IN c' = Scenario(File([BasePairs(obj, m) EXCEPT !["nkeep"] = Given(c.p.k)], tbl), EnvA, dump, 3, sh % 2 = 0, FALSE,
                        FibOf(tbl, {}), SmallF(3, sh), SmallV(3, sh), Dl(3, sh), JdVals[(sh % 4) + 1], sh % 3 # 0)

(* ---- family "big" ---- *)
SeedBig == \E n \in {1, 29, 30, 31, 60, 61} : c' = Seed("big", [n |-> n])
StepBig ==
  /\ IsSeed("big")
  /\ \E dump \in BOOLEAN : \E obj \in {Gal, Star} : \E flux \in BOOLEAN :
    LET n == c.p.n
        tbl == TableFor(obj, n, FALSE)
    IN c' = Scenario(File(BasePairs(obj, Hmf), tbl), EnvA, dump, n, flux, FALSE, FibOf(tbl, {}),
                    SmallF(IF dump THEN 1 ELSE n, n), SmallV(IF dump THEN 1 ELSE n, n), Dl(IF dump THEN 1 ELSE n, n), JdVals[2], n % 2 = 0)

(* ---- family "main" ---- *)
Vocab == { <<"-", "d">>, <<"-", "d", "X">>, <<"--", "dump">>, <<"--", "dump", "=", "X">>,
           <<"-", "f">>, <<"-", "f", "Y">>, <<"--", "file">>, <<"--", "file", "=", "Y">>,
           <<"-", "F">>, <<"--", "flux">>, <<"-", "v">>, <<"--", "verbose">>, <<"-", "F", "v">>, <<"-", "v", "F", "d">>,
           <<"W">>, <<"-", "q">>, <<"--", "quiet">>, <<"-", "h">>, <<"--", "help">> }
Homes == IF Quick THEN {"/h"} ELSE {"/nonexistent/x y"}
SeedMain == \E a \in Vocab \cup {<<>>} : \E h \in Homes : c' = Seed("main", [a |-> a, h |-> h])
StepMain ==
  /\ IsSeed("main")
  /\ IF c.p.a = <<>> THEN c' = [fam |-> "main", args |-> <<>>, home |-> c.p.h]
     ELSE \E n \in 0 .. (MaxArgs - 1) : \E s \in [1 .. n -> Vocab] : c' = [fam |-> "main", args |-> <<c.p.a>> \o s, home |-> c.p.h]

ExpOf(cc) == CASE cc.fam = "meta" -> MetaExpect(cc.file, cc.exists, cc.env0)
               [] cc.fam = "run" -> RunExpect(cc)
               [] cc.fam = "main" -> MainExpect(cc.args)
Init == c = Root /\ exp = NoExp
SeedStep ==
  /\ c = Root
  /\ \/ "wrong" \in Families /\ SeedWrong
     \/ "good" \in Families /\ SeedGood
     \/ "run" \in Families /\ SeedRun
     \/ "clip" \in Families /\ SeedClip
     \/ "big" \in Families /\ SeedBig
     \/ "nkeep" \in Families /\ SeedNkeep
     \/ "main" \in Families /\ SeedMain
  /\ exp' = NoExp
CaseStep == /\ (StepWrong \/ StepGood \/ StepRun \/ StepClip \/ StepBig \/ StepNkeep \/ StepMain)
            /\ exp' = ExpOf(c')
Next == RootStep \/ NumStep \/ SeedStep \/ CaseStep

IsMeta == c.fam = "meta"
IsRun == c.fam = "run"
IsMain == c.fam = "main"

(* ---- spec-level laws ---- *)
X09_PcaIgnoresHmfKeys == IsMeta => L_PcaIgnoresHmfKeys(c.file, c.env0)
X09_RefusalNamesAWrongKey == IsMeta => L_RefusalNamesAWrongKey(c.file)
X09_AcceptedIffAllRight == (IsMeta /\ c.exists) => L_AcceptedIffAllRight(c.file, c.env0)
X09_AcceptedEnv == (IsMeta /\ c.exists) => L_AcceptedEnv(c.file, c.env0)
X09_NumberNotation == (IsMeta /\ c.note.key # "") => L_NumberNotation(c.note.txt) /\ L_IntIsNumber(c.note.txt)
X09_RefusedMustRaise == IsMeta => (exp.out = "refused" <=> (c.exists /\ (WrongKeys(c.file) # {} \/ ~c.file.tbl.there)))
X09_Clip == IsRun => \A i \in DOMAIN c.F : \A j \in DOMAIN c.F[i] :
                LET f == c.F[i][j]
                    v == c.V[i][j]
                    s == Snmax(c.file)
                IN P(c.file, "snmax").there /\ ReadDec(P(c.file, "snmax").txt).st = "val" =>
                   /\ L_ClipBounded(f, v, s) /\ L_ClipNeverRaises(f, v, s) /\ L_ClipOnlyAbove(f, v, s)
                   /\ L_ClipIdempotent(f, v, s) /\ L_ClipSignFree(f, v, s)
X09_Run == IsRun => /\ L_ReadXorLoad(c) /\ L_OneSolver(c) /\ L_MissingStopsEverything(c) /\ L_AlignOnlyStar(c)
                    /\ L_SolverGetsIntermediate(c) /\ L_FullWrites(c)
X09_Main == IsMain => L_MainFlagsCommute(c.args)
ASSUME L_MainDefaults
=============================================================================
