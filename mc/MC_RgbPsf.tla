----------------------------- MODULE MC_RgbPsf -----------------------------
(* Bounded-exhaustive instances of X03.  Every state with c.fn in Fns is one call together  *)
(* with the outcome the specification demands (exp); the dump is replayed into the real     *)
(* nw_scale_rgb / nw_cut_to_box / nw_float_to_byte / nw_arcsinh / sdss_psf_recon.           *)
(* Root and seed states (fn = "root" / "seed") carry no call; they spread the big PSF       *)
(* families over the TLC workers.                                                           *)
EXTENDS RgbPsf, TLC
CONSTANTS Families,      \* subset of {"scale", "cut", "byte", "arcsinh", "rgbbad", "psf1", "psf2", "psf3"}
          CutVals,       \* channel values (numerators over 4) of the single-pixel cut_to_box sweep
          ByteBits,      \* the bits values of the float_to_byte sweep
          AsinhPick,     \* how many of the AsinhPixels make one image
          PsfPos,        \* positions (ypos, xpos) as indices into NicePos
          PsfOrders,     \* polynomial orders used per axis
          Psf3Orders     \* orders used per axis in the three-template family
VARIABLES c, exp

Q(n) == R(n, 4)
Fns == RgbFns \cup {"psf"}
IsCall == c.fn \in Fns
NoExp == [err |-> FALSE, warn |-> FALSE, shape |-> <<>>, val |-> <<>>, alt |-> <<>>, mag |-> Zero]
Root == [fn |-> "root"]

Rgb(fn, shape, img, arg, bits) == [fn |-> fn, shape |-> shape, img |-> img, arg |-> arg, bits |-> bits]
Trip(a, b, d) == <<Q(a), Q(b), Q(d)>>

(* ---- nw_scale_rgb ---- *)
ScaleVals == {-6, 0, 1, 4, 10}
ScaleArgs == {Trip(4, 4, 4), Trip(8, 2, -4), Trip(0, 3, 16)}
ManyPix == Trip(1, 2, 3) \o Trip(4, 6, 2) \o Trip(0, 0, 0) \o Trip(-2, 8, 5) \o Trip(12, 1, 0) \o Trip(3, 3, 3)
InitScale ==
  \/ \E a, b, d \in ScaleVals : \E s \in ScaleArgs : c = Rgb("scale", <<1, 1, 3>>, Trip(a, b, d), s, 0)
  \/ \E sh \in {<<6, 1, 3>>, <<1, 6, 3>>, <<2, 3, 3>>, <<3, 2, 3>>} : \E s \in ScaleArgs : c = Rgb("scale", sh, ManyPix, s, 0)

(* ---- nw_cut_to_box ---- *)
CutOrigins == {Trip(0, 0, 0), Trip(2, 1, 0), Trip(1, 1, 1), Trip(-2, 0, 2)}
InitCut ==
  \/ \E a, b, d \in CutVals : \E o \in CutOrigins : c = Rgb("cut", <<1, 1, 3>>, Trip(a, b, d), o, 0)
  \/ \E sh \in {<<6, 1, 3>>, <<1, 6, 3>>, <<2, 3, 3>>, <<3, 2, 3>>} : \E o \in CutOrigins : c = Rgb("cut", sh, ManyPix, o, 0)

(* ---- wrong shapes (R1, R2, R4) ---- *)
BadShapes == {<<6, 3>>, <<18>>, <<1, 2, 3, 3>>, <<3, 3, 2>>, <<3, 1, 6>>, <<9, 1, 2>>}
InitRgbBad ==
  \/ \E fn \in {"scale", "cut"} : \E sh \in BadShapes : c = Rgb(fn, sh, ManyPix, Trip(0, 0, 0), 0)
  \/ \E fn \in {"scale", "cut"} : \E arg \in {<<Q(2), Q(2)>>, <<Q(2), Q(2), Q(2), Q(2)>>, <<Q(2)>>} :
        c = Rgb(fn, <<2, 3, 3>>, ManyPix, arg, 0)
  \/ \E sh \in BadShapes : \E nl \in {Q(2), Q(12)} : c = Rgb("arcsinh", sh, ManyPix, <<nl>>, 0)

(* ---- nw_float_to_byte: blocks of 8 consecutive multiples of 1/512 from -8/512 to 527/512 ---- *)
ByteBlock(b) == [k \in 1 .. 8 |-> R(8 * b + k - 9, 512)]
InitByte ==
  \/ \E bits \in ByteBits : \E b \in 0 .. 66 : \E sh \in {<<8>>, <<2, 4>>, <<2, 2, 2>>} :
        (sh = <<8>> \/ b % 8 = 0) /\ c = Rgb("byte", sh, ByteBlock(b), <<>>, bits)
  \/ \E bits \in ByteBits : c = Rgb("byte", <<2, 3>>, <<Q(-400), Q(-1), Q(4), Q(5), Q(4000), R(1, 3)>>, <<>>, bits)

(* ---- nw_arcsinh: images of AsinhPick pixels, in increasing order of their index ---- *)
AsinhPixels == << Trip(0, 0, 0), Trip(4, 4, 4), Trip(1, 2, 3), Trip(2, 1, 3), Trip(40, 0, 0), Trip(0, 1, 0),
                  Trip(-4, -8, -12), Trip(4, -4, 0), Trip(-1, 6, 2), Trip(400, 300, 100), Trip(1, 1, 0), Trip(12, 12, 13) >>
AsinhNl == {Q(0), Q(1), Q(4), Q(12), Q(40)}
RECURSIVE Picks(_, _)            \* increasing index sequences of length n from lo..Len(AsinhPixels)
Picks(n, lo) == IF n = 0 THEN {<<>>}
                ELSE UNION {{<<k>> \o t : t \in Picks(n - 1, k + 1)} : k \in lo .. Len(AsinhPixels)}
RECURSIVE Cat(_)
Cat(s) == IF s = <<>> THEN <<>> ELSE s[1] \o Cat(Tail(s))
InitAsinh ==
  \E pk \in Picks(AsinhPick, 1) : \E nl \in AsinhNl : \E two \in BOOLEAN :
     c = Rgb("arcsinh", IF two THEN <<2, AsinhPick \div 2, 3>> ELSE <<1, AsinhPick, 3>>,
             Cat([k \in 1 .. AsinhPick |-> AsinhPixels[pk[k]]]), <<nl>>, 0)

(* ---- sdss_psf_recon ---- *)
(* integer positions p with (2p + 1)/2000 = odd/16: 62 -> 1/16, 187 -> 3/16, 312 -> 5/16, ... *)
NicePos == <<62, 187, 312, 562, 937>>
(* eigenimages of 3 x 3 and 5 x 5 pixels *)
RR3 == << <<1, 2, 3, 4, 5, 6, 7, 8, 9>>, <<0, -1, 0, -1, 4, -1, 0, -1, 0>>, <<2, 0, -1, 0, 3, 0, -1, 0, 2>> >>
RR5 == << [q \in 1 .. 25 |-> q % 7], [q \in 1 .. 25 |-> ((q * q) % 7) - 3], [q \in 1 .. 25 |-> IF q = 13 THEN 5 ELSE (q % 3) - 1] >>
(* coefficient tables (numerators over cd = 2), rows = power of the row coordinate; every entry *)
(* is non-zero, so whatever lies beyond a template's order plays the part of the garbage found  *)
(* there in real files                                                                          *)
CC == << << <<2, 1, -1>>, <<3, -2, 1>>, <<-1, 1, 2>> >>,
         << <<1, -1, 3>>, <<2, 1, -2>>, <<3, -3, 1>> >>,
         << <<-2, 3, 1>>, <<1, 2, 3>>, <<2, -1, -3>> >> >>
Tpl(k, n, nr, nc) == [nr |-> nr, nc |-> nc, c |-> CC[k], rr |-> IF n = 3 THEN RR3[k] ELSE RR5[k]]
Psf(n, tpl, yi, xi, norm, trim) == [fn |-> "psf", n |-> n, cd |-> 2, tpl |-> tpl, ypos |-> NicePos[yi], xpos |-> NicePos[xi],
                                    norm |-> norm, trim |-> trim]
Norms == {<<0, 1>>, <<2, 1>>, <<1, 2>>, <<10, 1>>}
Trims(n) == IF n = 3 THEN {<<>>, <<1, 1>>, <<3, 1>>, <<1, 3>>} ELSE {<<>>, <<3, 3>>, <<1, 3>>, <<5, 1>>, <<3, 5>>}
Variants(tpl) == {cc \in {Psf(n, [k \in DOMAIN tpl |-> Tpl(k, n, tpl[k][1], tpl[k][2])], p[1], p[2], norm, trim) :
                            n \in {3}, p \in PsfPos, norm \in Norms, trim \in Trims(3)}
                        \cup {Psf(n, [k \in DOMAIN tpl |-> Tpl(k, n, tpl[k][1], tpl[k][2])], p[1], p[2], norm, trim) :
                            n \in {5}, p \in PsfPos, norm \in Norms, trim \in Trims(5)} : PsfDefined(cc)}
Seed(tpl) == [fn |-> "seed", tpl |-> tpl]
OrdPairs == PsfOrders \X PsfOrders
RootStep ==
  /\ c = Root
  /\ \/ "psf1" \in Families /\ \E a \in OrdPairs : c' = Seed(<<a>>)
     \/ "psf2" \in Families /\ \E a, b \in OrdPairs : c' = Seed(<<a, b>>)
     \/ "psf3" \in Families /\ \E a, b, d \in Psf3Orders \X Psf3Orders : c' = Seed(<<a, b, d>>)
  /\ exp' = NoExp
SeedStep ==
  /\ c.fn = "seed"
  /\ \E cc \in Variants(c.tpl) : c' = cc
  /\ exp' = Expected(c')

Init == \/ c = Root /\ exp = NoExp
        \/ /\ \/ "scale" \in Families /\ InitScale
              \/ "cut" \in Families /\ InitCut
              \/ "rgbbad" \in Families /\ InitRgbBad
              \/ "byte" \in Families /\ InitByte
              \/ "arcsinh" \in Families /\ InitAsinh
           /\ exp = Expected(c)
Next == RootStep \/ SeedStep

(* ------------------------- spec-level properties ------------------------- *)
X03_CallsAreDefined == IsCall => Defined(c)
X03_OutcomeWellFormed == (IsCall /\ ~exp.err) =>
      /\ Len(exp.val) = Len(exp.alt)
      /\ (exp.val # <<>> => Len(exp.val) = Prod(exp.shape))
      /\ \A k \in DOMAIN exp.val : IsRat(exp.val[k]) /\ IsRat(exp.alt[k])
IsRgb(fn) == IsCall /\ c.fn = fn /\ ~exp.err
PixelsOfCall == {Pix(c.img, p) : p \in 1 .. NPixOf(c.img)}
X03_ScaleByOne == IsRgb("scale") => \A p \in PixelsOfCall : ScaleByOneIsIdentity(p)
X03_ScaleComposes == IsRgb("scale") => \A p \in PixelsOfCall : \A t \in ScaleArgs : ScaleComposes(p, c.arg, t)
X03_CutInsideBoxUnchanged == IsRgb("cut") => \A p \in PixelsOfCall : CutInsideBoxUnchanged(p)
X03_CutSaturatesToColour == IsRgb("cut") => \A p \in PixelsOfCall : CutSaturatesToColour(p)
X03_CutNeverAboveOne == IsRgb("cut") => \A p \in PixelsOfCall : CutNeverAboveOne(p, c.arg)
X03_CutHueAboutOrigin == IsRgb("cut") => \A p \in PixelsOfCall : CutHueAboutOrigin(p, c.arg)
X03_CutIdempotent == IsRgb("cut") => \A p \in PixelsOfCall : CutIdempotent(p)
X03_ByteInRange == IsRgb("byte") => \A k \in DOMAIN c.img : ByteInRange(c.img[k], c.bits) /\ ByteIsBin(c.img[k], c.bits)
X03_ByteEnds == IsRgb("byte") => ByteEnds(c.bits)
X03_ByteMonotone == IsRgb("byte") => \A j, k \in DOMAIN c.img : ByteMonotone(c.img[j], c.img[k], c.bits)
X03_ByteWarnsAbove8 == IsRgb("byte") => (exp.warn <=> c.bits > 8) /\ (c.bits > 8 => exp = [Expected([c EXCEPT !.bits = 8]) EXCEPT !.warn = TRUE])
X03_ArcsinhLinearLimit == IsRgb("arcsinh") => (c.arg[1] = Zero <=> exp.val # <<>>) /\ (c.arg[1] = Zero => exp.val = c.img)
IsPsf == IsCall /\ c.fn = "psf"
X03_PsfGarbageIrrelevant == IsPsf => GarbageIrrelevant(c)
X03_PsfTemplatesAdd == IsPsf => TemplatesAdd(c)
X03_PsfTwoPhrasings == IsPsf => TwoPhrasings(c)
X03_PsfCentreStaysCentre == IsPsf => CentreStaysCentre(c)
X03_PsfNormalisedIntegral == IsPsf => NormalisedIntegral(c)
X03_PsfNormalisedReadings == IsPsf => NormalisedReadings(c)
X03_PsfShape == IsPsf => exp.shape = (IF c.trim = <<>> THEN <<c.n, c.n>> ELSE c.trim)
(* the exact expectation agrees with the fixed-point judge used for recorded calls *)
X03_PsfJudgeAcceptsExpected == IsPsf =>
      PsfJudge(c, [e \in DOMAIN exp.val |-> Fix20(exp.val[e][1], exp.val[e][2])]) = ""

(* constants that a cfg file cannot spell *)
Q_CutVals == {-2, 0, 1, 4, 6}
T_CutVals == {-2, 0, 1, 2, 4, 6, 8, 12}
Q_PsfPos == {<<1, 2>>, <<3, 1>>}
T_PsfPos == {<<1, 2>>, <<3, 1>>, <<2, 2>>, <<5, 4>>}
=============================================================================
