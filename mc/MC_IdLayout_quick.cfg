CONSTANT Families = {"boundary", "reject", "mismatch", "run2dq", "longq"}
INIT Init
NEXT Next
INVARIANT C06_RoundTrip
INVARIANT C06_NoStrayBits
INVARIANT C06_RejectedNeverWrapped
INVARIANT C06_ConvIndependent
INVARIANT C06_Run2dString
INVARIANT C06_UnpackOfExpected
INVARIANT C06_PositionIndependent
INVARIANT C06_LongSeed
INVARIANT C06_LongRejected
INVARIANT C06_IntFormIndependent
INVARIANT C06_FormsFit
CHECK_DEADLOCK FALSE
