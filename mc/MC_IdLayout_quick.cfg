CONSTANT Families = {"boundary", "reject", "mismatch", "run2dq"}
INIT Init
NEXT Next
INVARIANT C06_RoundTrip
INVARIANT C06_NoStrayBits
INVARIANT C06_RejectedNeverWrapped
INVARIANT C06_ConvIndependent
INVARIANT C06_Run2dString
INVARIANT C06_UnpackOfExpected
CHECK_DEADLOCK FALSE
