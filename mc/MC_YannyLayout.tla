-------------------------- MODULE MC_YannyLayout --------------------------
(* C02: the Render state machine.  One behaviour = one way of writing down a document:    *)
(* items (pairs, typedefs, rows, noise lines) are emitted one per step, each in a         *)
(* nondeterministically chosen admissible style.  When everything is emitted the text is   *)
(* a rendering; C02_LayoutIndependent says the reference reader recovers the document.     *)
(* Complete states are dumped and replayed into pydl's reader.                            *)
EXTENDS Yanny, YannyDocs
CONSTANTS DocIds,      \* subset of AllDocIds
          Group,       \* "tokens" | "lines" | "typedef" | "order" | "all"
          MaxNoise     \* comment / blank lines inserted between items (groups "lines", "all")
VARIABLES id, done, text, noise, last, dsty   \* dsty: document-level style choices made once

Doc == DocById(id)
vars == <<id, done, text, noise, last, dsty>>

Items(d) == {<<"pair", k>> : k \in 1..Len(d.pairs)} \cup {<<"enum", k>> : k \in 1..Len(d.enums)}
       \cup {<<"struct", k>> : k \in 1..Len(d.structs)} \cup {<<"row", k>> : k \in 1..Len(d.rows)}

(* prerequisites: definitions before use, pairs in their own order, each table's rows in order *)
Before(d, it) ==
  CASE it[1] = "pair" -> {<<"pair", k>> : k \in 1..(it[2] - 1)}
    [] it[1] = "enum" -> {<<"enum", k>> : k \in 1..(it[2] - 1)}
    [] it[1] = "struct" -> {<<"enum", k>> : k \in 1..Len(d.enums)} \cup {<<"struct", k>> : k \in 1..(it[2] - 1)}
    [] it[1] = "row" -> {<<"struct", d.rows[it[2]].t>>}
                        \cup {<<"row", k>> : k \in {j \in 1..(it[2] - 1) : d.rows[j].t = d.rows[it[2]].t}}
Rank(it) == (CASE it[1] = "pair" -> 0 [] it[1] = "enum" -> 100 [] it[1] = "struct" -> 200 [] it[1] = "row" -> 300) + it[2]
Canonical(d, dn) == LET rest == Items(d) \ dn IN {it \in rest : \A o \in rest : Rank(it) <= Rank(o)}
Admissible(d, dn) == {it \in Items(d) \ dn : Before(d, it) \subseteq dn}
NextItems(d, dn) == IF Group \in {"order", "all"} THEN Admissible(d, dn) ELSE Canonical(d, dn)

(* ---- style pools ---- *)
Cmt1 == <<SP, "#", SP, "c", "m", "t">>
(* a member comment that looks like a declaration: the text after '#' is a comment whatever it contains *)
CmtDecl == <<SP, "#", SP, "w", "a", "s", ":", SP, "i", "n", "t", SP, "q", ";">>
Cmt2 == <<TAB, "#", "a", SP, DQ, "q", SP, "r", DQ, SP, "z">>      \* balanced quotes inside a comment
Cont == <<SP, BS, NL, SP, SP>>                                    \* backslash continuation between tokens
ContCR == <<SP, BS, SP, CR, NL, TAB>>
DefaultLine == [lead |-> <<>>, sep |-> <<SP>>, trail |-> <<>>, eol |-> <<NL>>]
LinePool ==
  { DefaultLine,
    [lead |-> <<SP, SP>>, sep |-> <<SP, SP, SP>>, trail |-> <<SP, SP>>, eol |-> <<NL>>],
    [lead |-> <<TAB>>, sep |-> <<TAB>>, trail |-> <<TAB>>, eol |-> <<CR, NL>>],
    [lead |-> <<>>, sep |-> <<SP, TAB, SP>>, trail |-> Cmt1, eol |-> <<NL>>],
    [lead |-> <<SP>>, sep |-> <<SP>>, trail |-> Cmt2, eol |-> <<CR, NL>>],
    [lead |-> <<>>, sep |-> Cont, trail |-> <<>>, eol |-> <<NL>>],
    [lead |-> <<>>, sep |-> ContCR, trail |-> Cmt1, eol |-> <<CR, NL>>] }
PairLinePool == {s \in LinePool : s.sep \notin {Cont, ContCR}} \cup
                {[lead |-> <<>>, sep |-> <<SP, SP>>, trail |-> Cmt1, eol |-> <<CR, NL>>]}
(* Exhaustive groups fix one line style (and name case, padding, typedef style) per document and *)
(* alternate it with the default style item by item, so that the product stays enumerable; the    *)
(* group "all" (simulation) chooses independently per item.                                       *)
Cmt3 == <<SP, "#", SP, "a", SP, "#", SP, "b">>                  \* hostile: a '#' inside the comment
Cmt4 == <<SP, "#", SP, "i", "t", DQ, "s">>                       \* hostile: an odd number of double quotes
HostilePool == {[lead |-> <<>>, sep |-> <<SP>>, trail |-> Cmt3, eol |-> <<NL>>], [lead |-> <<>>, sep |-> <<SP>>, trail |-> Cmt4, eol |-> <<NL>>]}
LineStyles == IF Group = "hostile" THEN HostilePool ELSE IF Group = "all" THEN LinePool
              ELSE IF Group = "lines" THEN {dsty.line, DefaultLine} ELSE {DefaultLine}
PairStyles == IF Group = "hostile" THEN HostilePool ELSE IF Group = "all" THEN PairLinePool
              ELSE IF Group = "lines" THEN {IF dsty.line \in PairLinePool THEN dsty.line ELSE DefaultLine, DefaultLine}
              ELSE {DefaultLine}

(* per-row token styles *)
DefaultCellStyle(col, cell) == IF col.alen > 0 \/ col.clen = NotChar THEN "plain" ELSE IF NeedsQuote(cell) THEN "quoted" ELSE "bare"
DefaultElemStyle(e) == IF NeedsQuote(e) THEN "quoted" ELSE "bare"
CellStyleChoices(col, cell) == IF Group \in {"tokens", "all"} THEN CellStyles(col, cell) ELSE {DefaultCellStyle(col, cell)}
ElemStyleChoices(col, cell) ==
  IF col.alen = 0 THEN {<<>>}
  ELSE IF col.clen = NotChar THEN {[k \in 1..Len(cell) |-> "bare"]}
  ELSE IF Group \in {"tokens", "all"}
       THEN {f \in [1..Len(cell) -> {"bare", "quoted"}] : \A k \in 1..Len(cell) : f[k] \in ElemStyles(cell[k])}
       ELSE {[k \in 1..Len(cell) |-> DefaultElemStyle(cell[k])]}
RowStyles(d, r) ==
  LET cols == d.structs[r.t].cols
      n == Len(cols)
  IN { [lead |-> l.lead, sep |-> l.sep, trail |-> l.trail, eol |-> l.eol, nc |-> nc, pad |-> pad, cs |-> cs, es |-> es] :
         l \in LineStyles,
         nc \in (IF Group = "all" THEN {"upper", "lower", "asis"} ELSE {dsty.nc}),
         pad \in (IF Group = "all" THEN {<<>>, <<SP, SP>>} ELSE {dsty.pad}),
         cs \in {f \in [1..n -> {"plain", "bare", "quoted", "braced", "dbraced"}] :
                   \A k \in 1..n : f[k] \in CellStyleChoices(cols[k], r.cells[k])},
         es \in {g \in [1..n -> UNION {ElemStyleChoices(cols[k], r.cells[k]) : k \in 1..n}] :
                   \A k \in 1..n : g[k] \in ElemStyleChoices(cols[k], r.cells[k])} }

TdStylesAll ==
    { [lead |-> lead, sep |-> sep, trail |-> trail, eol |-> eol, oneline |-> ol, angle |-> an, mlead |-> ml, mtrail |-> mt] :
        lead \in {<<>>}, sep \in {<<SP>>, <<SP, SP>>, <<TAB>>}, trail \in {<<>>, Cmt1}, eol \in {<<NL>>, <<CR, NL>>},
        ol \in BOOLEAN, an \in BOOLEAN, ml \in {<<SP, SP, SP, SP>>, <<TAB>>, <<>>}, mt \in {<<>>, Cmt1, <<SP, SP>>, CmtDecl} }
DefaultTd == [lead |-> <<>>, sep |-> <<SP>>, trail |-> <<>>, eol |-> <<NL>>, oneline |-> FALSE, angle |-> FALSE,
              mlead |-> <<SP, SP, SP, SP>>, mtrail |-> <<>>]
(* a one-line typedef has no member lines: collapse the member-line choices *)
TdPool == {s \in TdStylesAll : s.oneline => (s.mlead = <<>> /\ s.mtrail = <<>> /\ s.sep = <<SP>>)}
TdStylesN == IF Group = "all" THEN TdPool ELSE {dsty.td}

RenderItem(d, it, sty) ==
  CASE it[1] = "pair" -> RenderPair(d.pairs[it[2]], sty)
    [] it[1] = "enum" -> RenderEnum(d.enums[it[2]], sty)
    [] it[1] = "struct" -> RenderStruct(d.structs[it[2]], sty)
    [] it[1] = "row" -> RenderRow(d.structs, d.rows[it[2]], sty)
StylesFor(d, it) ==
  CASE it[1] = "pair" -> PairStyles
    [] it[1] = "enum" -> TdStylesN
    [] it[1] = "struct" -> TdStylesN
    [] it[1] = "row" -> RowStyles(d, d.rows[it[2]])

Init == /\ id \in DocIds
        /\ done = {}
        /\ text \in {<<>>, Magic \o <<NL>>}
        /\ noise = 0
        /\ last = <<"start", 0>>
        /\ dsty \in [line : IF Group = "lines" THEN LinePool ELSE {DefaultLine},
                      nc : IF Group = "tokens" THEN {"upper", "lower", "asis"} ELSE {"upper"},
                      pad : IF Group = "tokens" THEN {<<>>, <<SP, SP>>} ELSE {<<>>},
                      td : IF Group = "typedef" THEN TdPool ELSE {DefaultTd}]

Emit == \E it \in NextItems(Doc, done) : \E sty \in StylesFor(Doc, it) :
          /\ text' = text \o RenderItem(Doc, it, sty)
          /\ done' = done \cup {it}
          /\ last' = it
          /\ UNCHANGED <<id, noise, dsty>>

NoiseLines == { <<"#">> \o <<SP, "n", "o", "t", "e">> \o <<NL>>, <<NL>>, <<SP, TAB, NL>>, <<CR, NL>>,
                <<SP, SP, "#", "#", NL>> }
Noise == /\ Group \in {"lines", "all"}
         /\ noise < MaxNoise
         /\ last[1] # "noise"
         /\ \E n \in NoiseLines : text' = text \o n
         /\ noise' = noise + 1
         /\ last' = <<"noise", 0>>
         /\ UNCHANGED <<id, done, dsty>>

Next == Emit \/ Noise
Spec == Init /\ [][Next]_vars

Complete == done = Items(Doc)
(* the last line of a file need not end with a newline *)
C02_LayoutIndependent == Complete => SpecParse(text) = Canon(Doc)
C02_NoFinalNewline == (Complete /\ Len(text) > 0 /\ Last(text) = NL) => SpecParse(SubSeq(text, 1, Len(text) - 1)) = Canon(Doc)
=============================================================================
