CONSTANT Families = {"small", "hash", "fit", "poly", "fewbk"}
CONSTANT SmallN = {1, 2, 3}
CONSTANT SmallBW = {1, 2, 3, 6}
CONSTANT OffSel = "narrow"
CONSTANT DiagVals = {1, 3}
CONSTANT HashN = {4, 6}
CONSTANT HashBW = {1, 2, 3, 4, 5, 6}
CONSTANT HashPar = {0, 1, 3}
CONSTANT Variants = {"indef", "nonfinite1", "mininf"}
CONSTANT FitDesigns = {"o1s2", "o1s4", "o2s1", "o2s2", "o3s1"}
CONSTANT FitMult = {0, 1}
CONSTANT FitNmin = 1
CONSTANT FitNmax = 4
CONSTANT YSel = "patterns"
CONSTANT WMode = "patterns"
CONSTANT PolyNords = {1, 2, 3, 4, 5, 6}
CONSTANT PolySegs = {1, 2}
CONSTANT MNords = {1}
CONSTANT MaxS = 1
CONSTANT CntFullS = 3
CONSTANT KnotS = 0
CONSTANT MaxFitsSel = "S"
INIT CInit
NEXT CNext
INVARIANT C09a_GeneratorSound
INVARIANT C09a_BandStorage
INVARIANT C09a_FactorLaw
INVARIANT C09a_SolveLaw
INVARIANT C09a_Definiteness
INVARIANT C09b_GradientZero
INVARIANT C09b_YfitIsSpline
INVARIANT C09b_NoBetterNeighbour
INVARIANT C09b_ZeroWeightInvariant
INVARIANT C09b_LinearInY
INVARIANT C09b_WeightScaleInvariant
INVARIANT C09b_YHomogeneous
INVARIANT C09b_SupportScaleInvariant
INVARIANT C09b_GridScaleInvariant
INVARIANT C09b_GridSupportInvariant
INVARIANT C09b_PolyReproduced
INVARIANT C09b_SupportAgrees
INVARIANT C09b_WellSupportedIsWellPosed
INVARIANT C09b_PolyDataInteger
CHECK_DEADLOCK FALSE
