CONSTANT Families = {"eval", "order", "rep", "full", "intx", "opt"}
CONSTANT BkMax = 6
CONSTANT Nords = {1, 2, 3, 4, 5, 6}
CONSTANT SpreadSel = "all"
CONSTANT RepLen = 5
CONSTANT OrderLen = 4
CONSTANT FullNords = {1, 2, 3, 4, 5}
CONSTANT FullExtra = {0, 1, 2}
CONSTANT IntxMax = 5
CONSTANT FormAllNs = {3, 8}
CONSTANT Ns = {1, 2, 3, 4, 5, 6, 7, 8, 9, 10, 11, 12}
CONSTANT OptNords = {1, 2, 3, 4, 5, 6}
CONSTANT AgreeNords = {1, 2, 3, 4, 5, 6}
INIT Init
NEXT Next
INVARIANT C08_KnotsNonDecreasing
INVARIANT C08_CoversData
INVARIANT C08_ExtraKnots
INVARIANT C08_OptionLaws
INVARIANT C08_PartitionOfUnity
INVARIANT C08_RangeIsCovered
INVARIANT C08_DefinitionsAgree
INVARIANT C08_Continuity
INVARIANT C08_ProcedureEqualsDefinition
INVARIANT C08_MaskExactlyOutside
INVARIANT C08_FormsRepresent
INVARIANT C08_FormIndependent
CHECK_DEADLOCK FALSE
