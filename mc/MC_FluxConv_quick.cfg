CONSTANT MaxLen = 4
CONSTANT Levels = {0, 15000, 22500}
CONSTANT NegLevels = {5000}
INIT Init
NEXT Next
INVARIANT C19_GuardPartition
INVARIANT C19_OppositeDirections
INVARIANT C19_ArrayIsMapOfScalar
INVARIANT C19_UnitIndependent
INVARIANT C19_TotalOnDomain
INVARIANT C19_LayoutIndependent
INVARIANT C19_ElementTypeIndependent
INVARIANT C19_AnswerInCallersForm
INVARIANT C19_MagFluxConsistent
INVARIANT C19_SignalToNoiseKept
INVARIANT C19_OffsetIndependentOfLevel
INVARIANT C19_DeviationIsLocal
CHECK_DEADLOCK FALSE
