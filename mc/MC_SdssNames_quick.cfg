CONSTANT Families = {"name", "path", "filter", "misc", "astrombad", "specpath", "latestmjd", "wave"}
CONSTANT Big = FALSE
INIT Init
NEXT Next
INVARIANT X01_NameLaws
INVARIANT X01_AstrombadLaws
INVARIANT X01_SpecPathLaws
INVARIANT X01_LatestLaws
INVARIANT X01_WaveLaws
INVARIANT X01_OutcomeShape
CHECK_DEADLOCK FALSE
