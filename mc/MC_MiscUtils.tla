--------------------------- MODULE MC_MiscUtils ---------------------------
(* Bounded-exhaustive enumeration of calls of the small utilities (X02).  Every state is  *)
(* one call c together with the outcome exp the specification demands; the dump is        *)
(* replayed into the real functions.  The big hogg_iau_name family is produced in two     *)
(* steps (root -> block seed -> cases) so that all TLC workers share it.                  *)
EXTENDS MiscUtils, TLC
CONSTANTS Families,      \* subset of {"contig", "cir", "iau", "laxis", "print", "lines", "median", "cooling"}
          ContigN,       \* 0/1 arrays up to this length
          ContigM,       \* arrays over {0, 1, 2, -1} up to this length
          CirN,          \* sweep of whole/quarter degrees -CirN .. CirN
          IauStride,     \* every IauStride-th right ascension k / 64 degree
          LaxisD,        \* axis lengths 0 .. LaxisD
          PrintK,        \* tables of up to PrintK columns
          LinesN,        \* file contents up to this length
          MedianBig      \* TRUE: the larger array families
VARIABLES c, exp

NoExp == [none |-> TRUE]
Root == [fn |-> "root"]

(* ------------------------------- find_contiguous ------------------------------- *)
InitContig ==
  \/ \E n \in 0 .. ContigN : \E x \in [1 .. n -> {0, 1}] : c = [fn |-> "contig", x |-> x]
  \/ \E n \in 1 .. ContigM : \E x \in [1 .. n -> {0, 1, 2, -1}] : c = [fn |-> "contig", x |-> x]

(* ----------------------------------- cirrange ----------------------------------- *)
CirCase(kind, x, sign, k, form) == [fn |-> "cir", kind |-> kind, x |-> x, sign |-> sign, k |-> k, form |-> form]
CirForms == {"scalar", "array"}
InitCir ==
  \/ \E d \in {1, 4} : \E n \in (-CirN * d) .. (CirN * d) : \E f \in CirForms : c = CirCase("deg", R(n, d), 0, 0, f)
  \/ \E d \in {2, 8, 64, 1024} : \E m \in -3 .. 3 : \E o \in {-d - 1, -d, -1, 0, 1, d, d + 1, 90 * d, 180 * d - 1, 360 * d - 1} :
        \E f \in CirForms : c = CirCase("deg", R(m * 360 * d + o, d), 0, 0, f)
  \/ \E d \in {1, 2, 3, 4, 7, 8, 12, 360} : \E n \in (-3 * d - 1) .. (3 * d + 1) : \E f \in CirForms :
        c = CirCase("turns", R(n, d), 0, 0, f)
  \/ \E k \in {45, 46, 47, 51, 52, 53, 60, 100, 1000, 1074} : \E s \in {-1, 1} : \E kind \in {"tinydeg", "tinyrad"} :
        \E f \in CirForms : c = CirCase(kind, Zero, s, k, f)
CirExp(cc) == [cmp |-> CirExpected(cc).cmp, val |-> CirExpected(cc).val, dev |-> Dev_CirTinyNegativeGivesPeriod(cc)]

(* -------------------------------- hogg_iau_name -------------------------------- *)
SDSS == <<"S", "D", "S", "S">>
Prefixes == {<<>>, SDSS, <<"2", "M", "A", "S", "S">>, <<"X", " ", "y">>}
IauCase(ra, dec, prefix, p, form) == [fn |-> "iau", ra |-> ra, dec |-> dec, prefix |-> prefix, p |-> p, form |-> form]
IauExp(cc) == [val |-> IauName(cc.ra, cc.dec, cc.prefix, cc.p), dev |-> Dev_IauRaCellBelow(cc.ra, cc.dec, cc.prefix, cc.p)]
(* dyadic family: ra = k / 64 degree (every k: 0 <= ra < 360), dec tied to k so that it sweeps -90 .. 90;    *)
(* exactly representable floats, many of them exactly on a boundary of the last printed digit               *)
Block == 256
DecOfK(k) == R(((k * 37) % 11521) - 5760, 64)
IauSeed(b) == [fn |-> "seed", b |-> b]
RootStep ==
  /\ c = Root /\ "iau" \in Families
  /\ \E b \in 0 .. ((360 * 64) \div Block - 1) : c' = IauSeed(b)
  /\ exp' = NoExp
IauStep ==
  /\ c.fn = "seed"
  /\ \E k \in (c.b * Block) .. (c.b * Block + Block - 1) : \E p \in 0 .. 2 :
        /\ k % IauStride = 0
        /\ c' = IauCase(R(k, 64), DecOfK(k), SDSS, p, "scalar")
  /\ exp' = IauExp(c')
(* mid-cell family: coordinates half a unit of the last digit inside the cell, around every rollover *)
SecsRa == {0, 1, 59, 60, 61, 3599, 3600, 35999, 43200, 86399}
SecsDec == {0, 59, 60, 3599, 3600, 36000, 323999}
InitIauMid ==
  \E p \in 0 .. 2 : \E s \in SecsRa : \E f \in {0, Pow10(p + 1) \div 2, Pow10(p + 1) - 1} :
  \E sd \in SecsDec : \E fd \in {0, Pow10(p) - 1} : \E sg \in {-1, 1} :
     c = IauCase(R(2 * (s * Pow10(p + 1) + f) + 1, 480 * Pow10(p + 1)),
                 R(sg * (2 * (sd * Pow10(p) + fd) + 1), 7200 * Pow10(p)), SDSS, p, "scalar")
(* argument forms: prefixes, precisions 0..3, scalar / vector / one-element array *)
InitIauArgs ==
  \E pre \in Prefixes : \E p \in 0 .. 3 : \E form \in {"scalar", "vector", "array1"} :
  \E rd \in {<<R(22663, 64), R(-35, 64)>>, <<R(1, 2), R(5759, 64)>>, <<R(2 * 862345678 + 1, 4800000), R(-(2 * 3012345 + 1), 7200000)>>,
             <<Zero, Zero>>, <<R(23039, 64), <<-90, 1>>>>, <<R(15, 1), <<90, 1>>>>} :
     c = IauCase(rd[1], rd[2], pre, p, form)
InitIau == InitIauMid \/ InitIauArgs

(* ------------------------------ djs_laxisgen / num ------------------------------ *)
LaxisCase(fn, dims, iaxis) == [fn |-> fn, dims |-> dims, iaxis |-> iaxis]
LaxisExp(cc) == [val |-> LaxisExpected(cc.fn, cc.dims, cc.iaxis), dev |-> Dev_Laxis1DAxisUnchecked(cc.fn, cc.dims, cc.iaxis)]
InitLaxis ==
  \E fn \in {"laxisgen", "laxisnum"} : \E iaxis \in -1 .. 4 :
     \/ \E r \in 0 .. 3 : \E dims \in [1 .. r -> 0 .. LaxisD] : c = LaxisCase(fn, dims, iaxis)
     \/ \E dims \in [1 .. 4 -> 1 .. 2] : c = LaxisCase(fn, dims, iaxis)

(* --------------------------------- struct_print --------------------------------- *)
Col(name, kind, vals, slen) == [name |-> name, kind |-> kind, vals |-> vals, slen |-> slen, alias |-> <<>>]
Menu == <<
  Col(<<"a">>, "i", <<1, 2, 3>>, 0),
  Col(<<"i", "d">>, "i", <<-200, 5, 10>>, 0),
  Col(<<"l", "o", "n", "g">>, "i", <<0, 7, 12>>, 0),
  Col(<<"n">>, "i", <<123456, -1, 0>>, 0),
  Col(<<"c", "c", "c">>, "s", << <<"f", "i", "v", "e">>, <<"s", "e", "v", "e", "n">>, <<"n", "i", "n", "e">> >>, 5),
  Col(<<"s">>, "s", << <<"x">>, <<"y">>, <<"z">> >>, 1),
  Col(<<"o", "b", "j", "e", "c", "t">>, "s", << <<"a", "b">>, <<"c">>, <<"d", "e", "f">> >>, 3),
  Col(<<"b", "b">>, "f4", <<234, 350, 400>>, 0),
  Col(<<"x">>, "f8", <<-250, 12345, 5>>, 0),
  Col(<<"f", "l", "u", "x", "_", "e", "r", "r">>, "f4", <<-99999, 1, 0>>, 0),
  Col(<<"y">>, "f8", <<99999, 10, 100>>, 0) >>
Cut(col, nr) == [col EXCEPT !.vals = SubSeq(@, 1, nr)]
PrintCase(cols, html, nohead, dest) == [fn |-> "print", cols |-> cols, html |-> html, nohead |-> nohead, dest |-> dest]
PrintExp(cc) == [val |-> PrintExpected(cc.cols, cc.html, cc.nohead), dev |-> Dev_HtmlHeadAlways(cc.cols, cc.html, cc.nohead),
                 file |-> FileOf(PrintExpected(cc.cols, cc.html, cc.nohead).lines)]
Injective(s) == \A a, b \in DOMAIN s : a # b => s[a] # s[b]
InitPrint ==
  \/ \E n \in 1 .. PrintK : \E pick \in [1 .. n -> DOMAIN Menu] : \E nr \in {1, 3} : \E html, nohead \in BOOLEAN :
        /\ Injective(pick)
        /\ c = PrintCase([j \in 1 .. n |-> Cut(Menu[pick[j]], nr)], html, nohead, "none")
  \/ \E pick \in {<<1, 8, 5>>, <<3, 5>>, <<5, 3, 9>>} : \E al \in {<<"c">>, <<"C", "3">>, <<"c", "o", "l">>} :
     \E html, nohead \in BOOLEAN : \E dest \in {"none", "path", "bytesio"} :
        c = PrintCase([j \in DOMAIN pick |-> IF pick[j] = 5 THEN [Menu[5] EXCEPT !.alias = al] ELSE Menu[pick[j]]],
                      html, nohead, dest)

(* ---------------------------------- file_lines ---------------------------------- *)
LinesCase(texts, scalar, compress) == [fn |-> "lines", texts |-> texts, scalar |-> scalar, compress |-> compress]
SomeTexts == {<<>>, <<"a">>, <<"a", NL>>, <<"a", NL, "b">>, <<NL, NL>>}
InitLines ==
  \/ \E n \in 0 .. LinesN : \E t \in [1 .. n -> {"a", NL}] : \E z \in BOOLEAN : c = LinesCase(<<t>>, TRUE, z)
  \/ \E n \in 0 .. 4 : \E t \in [1 .. n -> {"a", " ", NL}] : \E z \in BOOLEAN : c = LinesCase(<<t>>, TRUE, z)
  \/ \E n \in 0 .. 3 : \E ts \in [1 .. n -> SomeTexts] : \E z \in BOOLEAN : c = LinesCase(ts, FALSE, z)
LinesExp(cc) == FileLinesExpected(cc.texts, cc.scalar)

(* ---------------------------------- djs_median ---------------------------------- *)
MedCase(mode, a, shape, d) == [fn |-> "median", mode |-> mode, a |-> a, shape |-> shape, d |-> d]
V3 == {0, 1, 5}
V2 == {0, 3}
MedShapes == IF MedianBig
             THEN {<<<<1>>, V3>>, <<<<2>>, V3>>, <<<<3>>, V3>>, <<<<4>>, V3>>, <<<<5>>, V3>>, <<<<6>>, V3>>, <<<<7>>, V3>>,
                   <<<<2, 2>>, V3>>, <<<<1, 3>>, V3>>, <<<<2, 3>>, V3>>, <<<<3, 2>>, V3>>, <<<<4, 2>>, V2>>, <<<<3, 3>>, V2>>,
                   <<<<2, 2, 2>>, V2>>, <<<<1, 2, 3>>, V3>>, <<<<3, 1, 2>>, V3>>, <<<<2, 3, 2>>, V2>>}
             ELSE {<<<<1>>, V3>>, <<<<2>>, V3>>, <<<<3>>, V3>>, <<<<4>>, V3>>, <<<<5>>, V3>>,
                   <<<<2, 2>>, V3>>, <<<<1, 3>>, V3>>, <<<<2, 3>>, V2>>, <<<<3, 2>>, V2>>, <<<<2, 2, 2>>, V2>>}
InitMedian ==
  \E sv \in MedShapes : \E a \in [1 .. Prod(sv[1]) -> sv[2]] :
     \/ c = MedCase("all", a, sv[1], 0)
     \/ \E d \in (-Len(sv[1])) .. Len(sv[1]) : c = MedCase("axis", a, sv[1], d)
     \/ Len(a) <= 3 /\ \E mode \in {"width1", "both"} : c = MedCase(mode, a, sv[1], 0)
MedExp(cc) == MedianExpected(cc.mode, cc.a, cc.shape, cc.d)

(* -------------------------------- read_ds_cooling -------------------------------- *)
(* the name check is replayed; the interpolation laws are checked on small synthetic tables here and the      *)
(* packaged tables are judged in the recorded direction (Trace_MiscUtils)                                      *)
InitCooling ==
  \/ \E name \in CoolingNames \cup {"", "m-00", "M-00.CIE", "m-00.cie ", "foo.cie", "m+00.cie", "m-15"} :
        c = [fn |-> "coolname", name |-> name]
  \/ \E grid \in {<<0, 5, 10, 20>>, <<-3, -1, 7>>} : \E vals \in [1 .. Len(grid) -> {-4, 0, 3}] : \E q \in -4 .. 21 :
        c = [fn |-> "interp", grid |-> grid, vals |-> vals, q |-> q]
CoolExp(cc) == IF cc.fn = "coolname" THEN [accepts |-> CoolingAccepts(cc.name)]
               ELSE IF InterpDefined(cc.grid, cc.q) THEN [open |-> FALSE, val |-> Interp(cc.grid, cc.vals, cc.q)]
               ELSE [open |-> TRUE, val |-> Zero]

(* ------------------------------------------------------------------------------- *)
ExpOf(cc) == CASE cc.fn = "contig" -> ContigExpected(cc.x)
               [] cc.fn = "cir" -> CirExp(cc)
               [] cc.fn = "iau" -> IauExp(cc)
               [] cc.fn \in {"laxisgen", "laxisnum"} -> LaxisExp(cc)
               [] cc.fn = "print" -> PrintExp(cc)
               [] cc.fn = "lines" -> LinesExp(cc)
               [] cc.fn = "median" -> MedExp(cc)
               [] cc.fn \in {"coolname", "interp"} -> CoolExp(cc)

Init == \/ c = Root /\ exp = NoExp
        \/ /\ \/ "contig" \in Families /\ InitContig
              \/ "cir" \in Families /\ InitCir
              \/ "iau" \in Families /\ InitIau
              \/ "laxis" \in Families /\ InitLaxis
              \/ "print" \in Families /\ InitPrint
              \/ "lines" \in Families /\ InitLines
              \/ "median" \in Families /\ InitMedian
              \/ "cooling" \in Families /\ InitCooling
           /\ exp = ExpOf(c)
Next == RootStep \/ IauStep

(* --------------------------------- spec-level laws --------------------------------- *)
Is(f) == c.fn = f
X02_ContigLaws == Is("contig") => /\ ContigRunsPartition(c.x) /\ ContigResultIsNonzeroStretch(c.x)
                                   /\ ContigNothingLonger(c.x) /\ ContigMirror(c.x)
                                   /\ (NZ(c.x) # {} => exp.val # {})
CirPeriod == IF Is("cir") /\ c.kind = "deg" THEN Deg360 ELSE One
X02_CirLaws == (Is("cir") /\ c.kind \in {"deg", "turns"}) =>
                  /\ WrapInRange(c.x, CirPeriod) /\ WrapCongruent(c.x, CirPeriod) /\ WrapUnique(c.x, CirPeriod)
                  /\ WrapIdempotent(c.x, CirPeriod) /\ WrapPeriodic(c.x, CirPeriod) /\ WrapFixesRange(c.x, CirPeriod)
X02_IauLaws == Is("iau") => /\ IauDefined(c.ra, c.dec, c.p)
                            /\ IauLength(c.ra, c.dec, c.prefix, c.p)
                            /\ IauCellContainsCoordinate(c.ra, c.dec, c.prefix, c.p)
                            /\ (c.p <= 1 => IauPrecisionNested(c.ra, c.dec, c.p))
                            /\ (exp.dev # <<>> => exp.dev # exp.val /\ Len(exp.dev) = Len(exp.val))
X02_LaxisLaws == (Is("laxisgen") \/ Is("laxisnum")) =>
                    /\ LaxisGenNumAgree(c.dims, c.iaxis)
                    /\ (Len(c.dims) \in 1 .. 3 /\ c.iaxis \in 0 .. (Len(c.dims) - 1) /\ Prod(c.dims) > 0) =>
                          /\ LaxisEveryIndexEquallyOften(c.dims, c.iaxis)
                          /\ LaxisConstantAcrossOtherAxes(c.dims, c.iaxis)
                          /\ LaxisStepsAlongAxis(c.dims, c.iaxis)
                    /\ (exp.val.out = "val" => Len(exp.val.val) = Prod(c.dims))
X02_PrintLaws == Is("print") => /\ PrintLineCount(c.cols, c.nohead) /\ PrintRectangular(c.cols, c.nohead)
                                /\ PrintColumnsSeparated(c.cols, c.nohead) /\ PrintNothingTruncated(c.cols)
                                /\ PrintHeadIsOnlyDifference(c.cols)
                                /\ \A j \in DOMAIN c.cols : Len(Shown(c.cols[j])) <= ColWidth(c.cols[j])
X02_LinesLaws == Is("lines") => \A k \in DOMAIN c.texts :
                                   /\ LinesTwoPhrasings(c.texts[k]) /\ LinesAppendLine(c.texts[k])
                                   /\ LinesTerminatorOptional(c.texts[k])
X02_MedianLaws == Is("median") => /\ MedianTwoPhrasings(c.a) /\ MedianWithinRange(c.a) /\ MedianAxisOfVectorIsAll(c.a)
                                  /\ MedianAxisTranspose2D(c.a, c.shape)
                                  /\ \A ax \in 1 .. Len(c.shape) : MedianAxisLaneCount(c.a, c.shape, ax)
X02_InterpLaws == Is("interp") => /\ InterpHitsNodes(c.grid, c.vals) /\ InterpBetweenNeighbours(c.grid, c.vals, c.q)
                                  /\ InterpCollinear(c.grid, c.vals, c.q)
=============================================================================
