CONSTANT Families = {"table", "bits", "psp", "twoband", "read", "wscore", "balkans"}
CONSTANT Big = TRUE
INIT Init
NEXT Next
INVARIANT X05_RowLaws
INVARIANT X05_DeviationVisible
INVARIANT X05_FileLaws
INVARIANT X05_ScoreFileLaws
INVARIANT X05_BalkanLaws
INVARIANT X05_OutcomeShape
CHECK_DEADLOCK FALSE
