--------------------------- MODULE MC_FluxConv ---------------------------
(* Bounded-exhaustive enumeration for C19 (exact part).  Every state is one call together  *)
(* with the outcome the specification demands:                                             *)
(*   type "wave": airtovac / vactoair, every input kind x every pattern of guard classes   *)
(*                of length <= MaxLen (length 1 for the scalar kinds);                     *)
(*   type "ab":   sdssflux2ab, every form x band x input level.                            *)
(* The dump is replayed into the real functions (harness/props/c19.py).                    *)
EXTENDS FluxConv, TLC
CONSTANTS MaxLen, Levels, NegLevels      \* input levels (milli-mag): Levels and the negatives of NegLevels
VARIABLES c, exp

WaveCase(fn, k, pat, l, w) == [type |-> "wave", fn |-> fn, kind |-> k, pat |-> pat, layout |-> l, width |-> w]
ABCase(form, b, m0, l, nt) == [type |-> "ab", form |-> form, band |-> b, m0 |-> m0, layout |-> l, ntype |-> nt]

Init ==
  \/ /\ \/ \E fn \in Fns : \E k \in ScalarKinds : \E cl \in Classes : \E v \in Variants(k) :
              Fits(v[2], <<cl>>) /\ c = WaveCase(fn, k, <<cl>>, v[1], v[2])
        \/ \E fn \in Fns : \E k \in ArrayKinds : \E n \in 1..MaxLen : \E pat \in [1..n -> Classes] :
              \E v \in Variants(k) : Fits(v[2], pat) /\ c = WaveCase(fn, k, pat, v[1], v[2])
     /\ exp = Expected(c)
  \/ /\ \E form \in Forms : \E b \in DOMAIN Bands : \E m0 \in (Levels \cup {0 - l : l \in NegLevels}) : \E l \in ABLayouts :
          \/ c = ABCase(form, b, m0, l, "float64")
          \/ \E w \in Widths : l = "plain" /\ ABIntegral(ABCase(form, b, m0, l, w)) /\ c = ABCase(form, b, m0, l, w)
     /\ exp = ExpectedAB(c)
Next == UNCHANGED <<c, exp>>

IsWave == c.type = "wave"
IsAB == c.type = "ab"

ASSUME Len(ABOffsetMilli) = Len(Bands) /\ Len(Bands) = 5
ASSUME \A k \in Kinds : /\ UnitOf(InAngstrom(k)) = "A" /\ ScalarOf(k) \in ScalarKinds
                      /\ DoubleOf(k) \in (DoubleScalarKinds \cup DoubleArrayKinds)
                      /\ UnitOf(DoubleOf(k)) = UnitOf(k) /\ (DoubleOf(k) \in ScalarKinds <=> k \in ScalarKinds)

(* spec-level laws, one invariant each *)
C19_GuardPartition == IsWave => GuardPartition(c)
C19_OppositeDirections == IsWave => OppositeDirections(c)
C19_ArrayIsMapOfScalar == IsWave => ArrayIsMapOfScalar(c)
C19_UnitIndependent == IsWave => UnitIndependent(c)
C19_TotalOnDomain == IsWave => TotalOnDomain(c)
C19_LayoutIndependent == (IsWave => LayoutIndependent(c)) /\ (IsAB => ABLayoutIndependent(c))
C19_ElementTypeIndependent == IsWave => ElementTypeIndependent(c)
C19_AnswerInCallersForm == IsWave => /\ exp.form.quantity = (c.kind \in QuantityKinds)
                                     /\ exp.form.scalar = (c.kind \in ScalarKinds)
                                     /\ (c.kind \in ScalarKinds => Len(c.pat) = 1)
C19_MagFluxConsistent == IsAB => MagFluxConsistent(c.band)
C19_SignalToNoiseKept == IsAB => SignalToNoiseKept(c.band)
C19_OffsetIndependentOfLevel == IsAB => OffsetIndependentOfLevel(c)
(* the named deviation differs from the specification exactly on the 0-d kinds at/above the guard *)
C19_DeviationIsLocal == IsWave => ((Dev_ZeroDimRaises(c) # Expected(c)) <=>
                                      (c.kind \in (ScalarKinds \ {"float", "pyint"}) /\ c.pat[1] # "below"))
=============================================================================
