CONSTANT K2 = 5
CONSTANT K3 = 4
CONSTANT K4 = 3
CONSTANT K5 = 1
CONSTANT DeepN = 3
CONSTANT DeepK = 5
CONSTANT DeepMinLinks = 0
CONSTANT OrdK = 6
CONSTANT OrdS = 2
CONSTANT OrdP = 4
CONSTANT OrdFull = TRUE
CONSTANT Mode = "cases"
INIT Init
NEXT Next
INVARIANT C05_CaseExpIsSpec
INVARIANT C05_GraphExpIsSpec
INVARIANT C05_IngroupPassIsExpected
CHECK_DEADLOCK TRUE
